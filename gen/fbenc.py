"""An independent FlatBuffers encoder over the c01gen schema AST (front-to-back layout, vtable directly before each
table, no vtable sharing, children after parents) + a random value generator.  Used to obtain valid buffers that the
C verifier must accept (C02 converse clause) and as the seed corpus for hostile mutations (C01).
It records 'interesting' positions (offset slots, lengths, vtable entries, type bytes) for targeted mutation."""
import struct
from .c01gen import SCALARS, assign_ids, enum_values, INT_RANGE


class Enc:
    def __init__(self, S):
        self.S = S
        self.b = bytearray()
        self.marks = []     # (pos, width, kind)
        self.tdefs = {t['name']: t for t in S['tables']}
        self.udefs = {u['name']: u for u in S['unions']}

    def pad_to(self, a):
        while len(self.b) % a: self.b.append(0)

    def put32(self, pos, v): self.b[pos:pos + 4] = struct.pack('<I', v & 0xffffffff)
    def put16(self, pos, v): self.b[pos:pos + 2] = struct.pack('<H', v & 0xffff)

    def struct_bytes(self, sname, rng):
        st = self.S['structs'][sname]
        return bytes(rng.getrandbits(8) for _ in range(st['size']))

    def field_layout(self, f):
        """(inline size, align) of a table field's inline part"""
        k, ty = f['kind'], f.get('type')
        if k == 'scalar': return SCALARS[ty], SCALARS[ty]
        if k == 'struct': return self.S['structs'][ty]['size'], self.S['structs'][ty]['align']
        return 4, 4

    def string(self, s):
        self.pad_to(4)
        pos = len(self.b)
        self.marks.append((pos, 4, 'strlen'))
        self.b += struct.pack('<I', len(s)) + s + b'\0'
        return pos

    def vec_header(self, n, elem_align):
        self.pad_to(4)
        while (len(self.b) + 4) % max(elem_align, 4): self.b += b'\0\0\0\0'
        pos = len(self.b)
        self.marks.append((pos, 4, 'veclen'))
        self.b += struct.pack('<I', n)
        return pos

    def slot_target(self, slot, target):
        self.put32(slot, target - slot)
        self.marks.append((slot, 4, 'uoffset'))

    def union_member(self, uname, val, slot, rng):
        """val = (code, payload); emits the member and patches slot"""
        code, payload = val
        k, v = self.udefs[uname]['members'][code - 1]
        if k == 't': tgt = self.table(v, payload, rng)
        elif k == 's':
            al = self.S['structs'][v]['align']
            self.pad_to(max(al, 1)); tgt = len(self.b); self.b += payload
            if not payload: self.b += b'\0'
        else: tgt = self.string(payload)
        self.slot_target(slot, tgt)

    def table(self, tname, vals, rng):
        t = self.tdefs[tname]
        present = []
        for f in t['fields']:
            if f['name'] in vals:
                if f['kind'] in ('union', 'vec_union'):
                    present.append((f['id'] - 1, (1, 1) if f['kind'] == 'union' else (4, 4), f, 'type'))
                    if f['kind'] == 'vec_union' or vals[f['name']][0] != 0:
                        present.append((f['id'], (4, 4), f, 'value'))
                else:
                    present.append((f['id'], self.field_layout(f), f, 'value'))
        maxid = max([p[0] for p in present], default=-1)
        extra = vals.get('__vt_extra', 0)
        vsize = 4 + 2 * (maxid + 1 + extra)
        maxal = max([4] + [p[1][1] for p in present])
        self.pad_to(2)
        # choose vtable position so that the table (right after the vtable) is aligned to maxal
        while (len(self.b) + vsize) % maxal: self.b += b'\0\0'
        vt = len(self.b)
        self.b += b'\0' * vsize
        tp = len(self.b)
        self.b += struct.pack('<i', tp - vt)
        self.marks.append((tp, 4, 'soffset'))
        offs = {}
        for fid, (sz, al), f, part in sorted(present, key=lambda p: -p[1][1]):
            while (len(self.b) - tp) % al: self.b.append(0)     # table start is aligned to maxal
            offs[(fid, part)] = len(self.b) - tp
            self.b += b'\0' * sz
        self.pad_to(4)
        tsize = len(self.b) - tp
        self.put16(vt, vsize); self.put16(vt + 2, tsize)
        self.marks.append((vt, 2, 'vsize')); self.marks.append((vt + 2, 2, 'tsize'))
        for (fid, part), o in offs.items():
            self.put16(vt + 4 + 2 * fid, o)
            self.marks.append((vt + 4 + 2 * fid, 2, 'vte'))
        # fill fields / children
        for fid, (sz, al), f, part in present:
            slot = tp + offs[(fid, part)]
            k, ty, v = f['kind'], f.get('type'), vals[f['name']]
            if k == 'scalar' or k == 'struct': self.b[slot:slot + sz] = v
            elif k == 'string': self.slot_target(slot, self.string(v))
            elif k == 'vec_scalar':
                q = self.vec_header(len(v) // SCALARS[ty], SCALARS[ty]); self.b += v; self.slot_target(slot, q)
            elif k == 'vec_struct':
                st = self.S['structs'][ty]
                q = self.vec_header(len(v), st['align'])
                for e in v: self.b += e
                self.slot_target(slot, q)
            elif k == 'vec_string':
                q = self.vec_header(len(v), 4); base = len(self.b); self.b += b'\0' * (4 * len(v))
                for i, s in enumerate(v): self.slot_target(base + 4 * i, self.string(s))
                self.slot_target(slot, q)
            elif k == 'table': self.slot_target(slot, self.table(ty, v, rng))
            elif k == 'vec_table':
                q = self.vec_header(len(v), 4); base = len(self.b); self.b += b'\0' * (4 * len(v))
                for i, tv in enumerate(v): self.slot_target(base + 4 * i, self.table(ty, tv, rng))
                self.slot_target(slot, q)
            elif k == 'union':
                if part == 'type':
                    self.b[slot] = v[0]; self.marks.append((slot, 1, 'utype'))
                else:
                    self.union_member(ty, v, slot, rng)
            elif k == 'vec_union':
                if part == 'type':
                    q = self.vec_header(len(v), 1)
                    for (code, _) in v:
                        self.marks.append((len(self.b), 1, 'utype')); self.b.append(code)
                    self.slot_target(slot, q)
                else:
                    q = self.vec_header(len(v), 4); base = len(self.b); self.b += b'\0' * (4 * len(v))
                    for i, uv in enumerate(v):
                        if uv[0] != 0: self.union_member(ty, uv, base + 4 * i, rng)
                        else: self.marks.append((base + 4 * i, 4, 'uoffset'))
                    self.slot_target(slot, q)
            elif k in ('nested_table', 'nested_struct'):
                nb = v      # already encoded bytes
                q = self.vec_header(len(nb), 16); self.b += nb; self.slot_target(slot, q)
        return tp

    def finish_table_root(self, tname, vals, rng, with_size=False, ident=None):
        self.b = bytearray()
        hdr = 4 + (4 if with_size else 0) + (4 if ident else 0)
        self.b += b'\0' * hdr
        while len(self.b) % 16: self.b.append(0)
        start = 4 if with_size else 0
        tp = self.table(tname, vals, rng)
        self.put32(start, tp - start); self.marks.append((start, 4, 'uoffset'))
        if ident: self.b[start + 4:start + 8] = ident
        self.pad_to(4)
        if with_size:
            self.put32(0, len(self.b) - 4); self.marks.append((0, 4, 'sizefield'))
        return bytes(self.b)

    def finish_struct_root(self, sname, data, with_size=False):
        self.b = bytearray()
        st = self.S['structs'][sname]
        start = 4 if with_size else 0
        self.b += b'\0' * (8 + start)
        self.pad_to(max(st['align'], 4))
        sp = len(self.b); self.b += data
        self.pad_to(4)
        self.put32(start, sp - start); self.marks.append((start, 4, 'uoffset'))
        if with_size:
            self.put32(0, len(self.b) - 4); self.marks.append((0, 4, 'sizefield'))
        return bytes(self.b)


def gen_value(S, tname, rng, depth=0, maxdepth=3, p_present=0.7):
    """random value tree for table tname: dict name -> value (see Enc.table)"""
    assign_ids(S)
    t = [x for x in S['tables'] if x['name'] == tname][0]
    vals = {}
    for f in t['fields']:
        k, ty = f['kind'], f.get('type')
        if f.get('deprecated'): continue
        if not f['required'] and rng.random() > p_present: continue
        if k == 'scalar' and f.get('enum'): vals[f['name']] = enum_scalar(S, f, rng)
        elif k == 'vec_scalar' and f.get('enum'): vals[f['name']] = b''.join(enum_scalar(S, f, rng) for _ in range(rng.choice([0, 1, 2, 3, 5])))
        elif k == 'scalar': vals[f['name']] = bytes(rng.getrandbits(8) for _ in range(SCALARS[ty]))
        elif k == 'struct': vals[f['name']] = bytes(rng.getrandbits(8) for _ in range(S['structs'][ty]['size']))
        elif k == 'string': vals[f['name']] = bytes(rng.choice(b'abcxyz\0\xff') for _ in range(rng.choice([0, 1, 3, 4, 5, 8, rng.randint(0, 20)])))
        elif k == 'vec_scalar': vals[f['name']] = bytes(rng.getrandbits(8) for _ in range(SCALARS[ty] * rng.choice([0, 1, 2, 3, 5])))
        elif k == 'vec_struct': vals[f['name']] = [bytes(rng.getrandbits(8) for _ in range(S['structs'][ty]['size'])) for _ in range(rng.choice([0, 1, 2, 3]))]
        elif k == 'vec_string': vals[f['name']] = [bytes(rng.choice(b'abc') for _ in range(rng.randint(0, 6))) for _ in range(rng.choice([0, 1, 2, 3]))]
        elif k == 'table':
            if depth < maxdepth: vals[f['name']] = gen_value(S, ty, rng, depth + 1, maxdepth, p_present)
            elif f['required']: vals[f['name']] = gen_value(S, ty, rng, depth + 1, maxdepth, 0.0)
        elif k == 'vec_table':
            n = rng.choice([0, 1, 2]) if depth < maxdepth else 0
            vals[f['name']] = [gen_value(S, ty, rng, depth + 1, maxdepth, p_present) for _ in range(n)]
        elif k == 'union':
            vals[f['name']] = gen_union(S, ty, rng, depth, maxdepth, p_present)
        elif k == 'vec_union':
            n = rng.choice([0, 1, 2, 3])
            vals[f['name']] = [gen_union(S, ty, rng, depth, maxdepth, p_present) for _ in range(n)]
        elif k == 'nested_table':
            if depth < maxdepth:
                e = Enc(S); vals[f['name']] = e.finish_table_root(ty, gen_value(S, ty, rng, depth + 1, maxdepth, p_present), rng)
            elif f['required']:
                e = Enc(S); vals[f['name']] = e.finish_table_root(ty, gen_value(S, ty, rng, depth + 1, maxdepth, 0.0), rng)
        elif k == 'nested_struct':
            e = Enc(S); vals[f['name']] = e.finish_struct_root(ty, bytes(rng.getrandbits(8) for _ in range(S['structs'][ty]['size'])))
    return vals


def enum_scalar(S, f, rng):
    """little-endian bytes of a value of an enum-typed field: mostly a declared member of THIS schema version (for bit_flags any
    union of members, incl. none), sometimes an arbitrary value of the underlying type (enums are open on the wire)"""
    e = [x for x in S['enums'] if x['name'] == f['enum']][0]
    size = SCALARS[e['type']]
    vs = enum_values(e)
    if rng.random() < 0.1: return bytes(rng.getrandbits(8) for _ in range(size))
    if e['bit_flags']:
        v = 0
        for x in vs:
            if rng.random() < 0.5: v |= x & ((1 << (8 * size)) - 1)
        return v.to_bytes(size, 'little')
    if 'first_new' in e and rng.random() < 0.35: v = vs[e['first_new']]         # the first value an older schema version does not know
    else: v = rng.choice(vs[-2:] if rng.random() < 0.5 else vs)        # bias towards the most recently added members
    return (v & ((1 << (8 * size)) - 1)).to_bytes(size, 'little')


def gen_union(S, uname, rng, depth, maxdepth, p_present):
    u = [x for x in S['unions'] if x['name'] == uname][0]
    if rng.random() < 0.2: return (0, None)
    code = rng.randint(1, len(u['members']))
    if u.get('first_new', len(u['members'])) < len(u['members']) and rng.random() < 0.35:
        code = rng.randint(u['first_new'] + 1, len(u['members']))       # a kind the older schema version does not know
    k, v = u['members'][code - 1]
    if k == 't':
        if depth >= maxdepth: return (0, None)
        return (code, gen_value(S, v, rng, depth + 1, maxdepth, p_present))
    if k == 's': return (code, bytes(rng.getrandbits(8) for _ in range(S['structs'][v]['size'])))
    return (code, bytes(rng.choice(b'uvw') for _ in range(rng.randint(0, 5))))
