"""Schema generator for the verifier / reader checks (C01, C09).

A schema is a python dict (AST).  From it we render: the .fbs text, the verifier descriptor we EXPECT flatcc to
generate (cross-checked against translator T2's reading of the generated *_verifier.h), and a C walker that calls
every generated accessor on every reachable object (what "a client of the reader API can read").
"""
import random

SCALARS = {  # name: (size, C vec prefix)
    'bool': 1, 'byte': 1, 'ubyte': 1, 'short': 2, 'ushort': 2, 'int': 4, 'uint': 4,
    'long': 8, 'ulong': 8, 'float': 4, 'double': 8,
}
CNAME = {'bool': 'bool', 'byte': 'int8', 'ubyte': 'uint8', 'short': 'int16', 'ushort': 'uint16', 'int': 'int32',
         'uint': 'uint32', 'long': 'int64', 'ulong': 'uint64', 'float': 'float', 'double': 'double'}


DEFAULTS = {
    'bool': [1], 'byte': [-128, 7], 'ubyte': [255, 3], 'short': [-32768, 300], 'ushort': [65535], 'int': [2147483647, -5], 'uint': [4294967295],
    'long': [-9223372036854775808, 9007199254740993], 'ulong': [18446744073709551615, 1],
    'float': [0.1, 1.0000001, 16777215.0, -2.5], 'double': [0.30000000000000004, 3.141592653589793, -0.1, 1e300, 2.2250738585072014e-308],
}


def default_literal(ty, v):
    if ty == 'bool': return 'true' if v else 'false'
    if ty in ('float', 'double'): return repr(float(v))
    return str(v)


def default_bytes(ty, v):
    import struct
    fmt = {'bool': '<B', 'byte': '<b', 'ubyte': '<B', 'short': '<h', 'ushort': '<H', 'int': '<i', 'uint': '<I', 'long': '<q', 'ulong': '<Q', 'float': '<f', 'double': '<d'}[ty]
    return struct.pack(fmt, v if ty not in ('float', 'double') else float(v))


def struct_layout(members, structs, force_align=0):
    off, align, offs = 0, 1, []
    for nm, ty in members:
        cnt = 1
        if ':' in ty: ty, cnt = ty.split(':')[0], int(ty.split(':')[1])       # fixed array member  elem:count
        if ty == 'char': sz, al = 1, 1
        elif ty in SCALARS: sz, al = SCALARS[ty], SCALARS[ty]
        else: sz, al = structs[ty]['size'], structs[ty]['align']
        sz *= cnt
        off = (off + al - 1) // al * al
        offs.append(off); off += sz; align = max(align, al)
    align = max(align, force_align)
    size = (off + align - 1) // align * align
    return size, align, offs


def gen_schema(rng, nstructs=2, ntables=3, nunions=1, features=None, fixed=None):
    """features: subset of kinds to allow"""
    kinds = features or ['scalar', 'struct', 'string', 'vec_scalar', 'vec_struct', 'vec_string', 'table', 'vec_table',
                         'union', 'vec_union', 'nested_table', 'nested_struct']
    S = {'structs': {}, 'struct_order': [], 'tables': [], 'unions': []}
    for i in range(nstructs):
        nm = 'S%d' % i
        mem = []
        nmem = rng.randint(1, 4)
        tiny = (i == 0 and rng.random() < 0.6)          # a struct of alignment 1 or 2 (union members of it need no 4-byte alignment)
        for j in range(nmem):
            if tiny:
                mem.append(('m%d' % j, rng.choice(['byte', 'ubyte', 'bool', 'short'] if j == 0 else ['byte', 'ubyte', 'bool']))); continue
            prev = [s for s in S['struct_order']]
            if prev and rng.random() < 0.25: ty = rng.choice(prev)
            else: ty = rng.choice(list(SCALARS))
            if j == nmem - 1 and rng.random() < 0.35: ty = 'char:%d' % rng.choice([1, 3, 4, 5, 8])      # a char array as the last member
            elif ty in SCALARS and rng.random() < 0.15: ty = '%s:%d' % (ty, rng.choice([1, 2, 3]))
            mem.append(('m%d' % j, ty))
        fa = 0 if tiny else rng.choice([0, 0, 0, 16, 8])
        size, align, offs = struct_layout(mem, S['structs'], fa)
        if fa and fa < align: fa = 0
        S['structs'][nm] = {'members': mem, 'size': size, 'align': align, 'force_align': fa}
        S['struct_order'].append(nm)
    tnames = ['T%d' % i for i in range(ntables)]
    unames = ['U%d' % i for i in range(nunions)]
    for u in unames:
        mem = []
        n = rng.randint(1, 4)
        for j in range(n):
            k = rng.choice(['table', 'table', 'struct', 'string'])
            if k == 'table': mem.append(('t', rng.choice(tnames)))
            elif k == 'struct' and S['struct_order']: mem.append(('s', rng.choice(S['struct_order'])))
            else: mem.append(('x', 'str%d' % j))
        # flatcc requires distinct member names; dedup type members
        seen, out = set(), []
        for m in mem:
            if m in seen: continue
            seen.add(m); out.append(m)
        S['unions'].append({'name': u, 'members': out})
    for ti, t in enumerate(tnames):
        fields = []
        nf = rng.randint(2, 7)
        for j in range(nf):
            k = rng.choice(kinds)
            f = {'name': 'f%d' % j, 'kind': k, 'required': False}
            if k == 'scalar':
                f['type'] = rng.choice(list(SCALARS))
                if rng.random() < 0.5: f['default'] = rng.choice(DEFAULTS[f['type']])
            elif k in ('struct', 'vec_struct', 'nested_struct'):
                if not S['struct_order']: f['kind'] = 'scalar'; f['type'] = 'int'
                else: f['type'] = rng.choice(S['struct_order'])
            elif k == 'vec_scalar': f['type'] = rng.choice(list(SCALARS))
            elif k in ('table', 'vec_table', 'nested_table'): f['type'] = rng.choice(tnames)
            elif k in ('union', 'vec_union'):
                if not unames: f['kind'] = 'string'
                else: f['type'] = rng.choice(unames)
            if f['kind'] in ('string', 'vec_scalar', 'vec_struct', 'vec_string', 'table', 'vec_table', 'nested_table', 'nested_struct') and rng.random() < 0.15:
                f['required'] = True
            if f['kind'] == 'table' and f['required'] and tnames.index(f['type']) <= ti:
                f['required'] = False      # a required self/back reference could never be built
            if f['kind'] == 'nested_table' and f['required'] and tnames.index(f['type']) <= ti:
                f['required'] = False
            fields.append(f)
        S['tables'].append({'name': t, 'fields': fields})
    S['root'] = tnames[0]
    return S


def assign_ids(S):
    """field ids in declaration order; a union (vector) takes two ids, type first."""
    for t in S['tables']:
        i = 0
        for f in t['fields']:
            if f['kind'] in ('union', 'vec_union'):
                f['id'] = i + 1; i += 2
            else:
                f['id'] = i; i += 1


INT_RANGE = {'byte': (-128, 127), 'ubyte': (0, 255), 'short': (-32768, 32767), 'ushort': (0, 65535), 'int': (-2**31, 2**31 - 1),
             'uint': (0, 2**32 - 1), 'long': (-2**63, 2**63 - 1), 'ulong': (0, 2**64 - 1)}


def gen_enum(rng, name, style=None, ty=None):
    """an enum AST: {'name', 'type', 'bit_flags', 'members': [(symbol, value)]} with at least 3 members in ascending order"""
    ty = ty or rng.choice(list(INT_RANGE))
    lo, hi = INT_RANGE[ty]
    style = style or rng.choice(['dense0', 'dense0', 'dense1', 'sparse', 'negative', 'bit_flags', 'top'])
    n = rng.randint(3, 7)
    if style == 'bit_flags':
        ty = rng.choice(['ubyte', 'ushort', 'uint', 'ulong', 'byte', 'int'])
        width = SCALARS[ty] * 8
        usable = width - 1 if INT_RANGE[ty][0] < 0 else width        # the sign bit of a signed flag type is not a permitted position
        bits = sorted(rng.sample(range(usable), min(n, usable)))
        if rng.random() < 0.3: bits = list(range(min(n, usable)))
        return {'name': name, 'type': ty, 'bit_flags': True, 'members': [('%s_b%d' % (name, b), b) for b in bits]}
    if style == 'dense0': vals = list(range(n))
    elif style == 'dense1': vals = list(range(1, n + 1))
    elif style == 'sparse': vals = sorted(rng.sample(range(0, min(hi, 120)), n))
    elif style == 'negative' and lo < 0: vals = sorted(rng.sample(range(max(lo, -100), 20), n))
    elif style == 'top': vals = list(range(hi - n + 1, hi + 1))
    else: vals = list(range(n))
    return {'name': name, 'type': ty, 'bit_flags': False, 'members': [('%s_m%d' % (name, i), v) for i, v in enumerate(vals)]}


def enum_values(e):
    """numeric values of the members (bit_flags: the single-bit values)"""
    if not e['bit_flags']: return [v for _, v in e['members']]
    lo, hi = INT_RANGE[e['type']]
    out = []
    for _, b in e['members']:
        v = 1 << b
        if v > hi: v -= (hi - lo + 1)
        out.append(v)
    return out


def render_fbs(S):
    o = []
    for e in S.get('enums', []):
        o.append('enum %s : %s%s { %s }' % (e['name'], e['type'], ' (bit_flags)' if e['bit_flags'] else '',
                                            ', '.join('%s = %d' % (n, v) for n, v in e['members'])))
    for nm in S['struct_order']:
        st = S['structs'][nm]
        o.append('struct %s%s { %s }' % (nm, ' (force_align: %d)' % st['force_align'] if st['force_align'] else '',
                                         ' '.join('%s:%s;' % (m, ('[%s]' % t) if ':' in t else t) for m, t in st['members'])))
    for u in S['unions']:
        ms = []
        for k, v in u['members']:
            ms.append(v if k in 't s' else '%s:string' % v)
        o.append('union %s { %s }' % (u['name'], ', '.join(ms)))
    for t in S['tables']:
        fs = []
        for f in t['fields']:
            k, ty = f['kind'], f.get('type')
            attrs = []
            if k == 'scalar' and f.get('enum'): tx = f['enum'] + ' = ' + f['default_symbol']
            elif k == 'vec_scalar' and f.get('enum'): tx = '[%s]' % f['enum']
            elif k == 'scalar': tx = ty + (' = ' + default_literal(ty, f['default']) if 'default' in f else '')
            elif k == 'struct': tx = ty
            elif k == 'string': tx = 'string'
            elif k == 'vec_scalar': tx = '[%s]' % ty
            elif k == 'vec_struct': tx = '[%s]' % ty
            elif k == 'vec_string': tx = '[string]'
            elif k == 'table': tx = ty
            elif k == 'vec_table': tx = '[%s]' % ty
            elif k == 'union': tx = ty
            elif k == 'vec_union': tx = '[%s]' % ty
            elif k in ('nested_table', 'nested_struct'): tx = '[ubyte]'; attrs.append('nested_flatbuffer: "%s"' % ty)
            if f['required']: attrs.append('required')
            if f.get('deprecated'): attrs.append('deprecated')
            fs.append('%s:%s%s;' % (f['name'], tx, ' (%s)' % ', '.join(attrs) if attrs else ''))
        o.append('table %s { %s }' % (t['name'], ' '.join(fs)))
    o.append('root_type %s;' % S['root'])
    return '\n'.join(o) + '\n'


def expected_descriptor(S):
    """the descriptor text (modelrun_verifier `schema` syntax) the generated verifier should amount to"""
    assign_ids(S)
    tn = [t['name'] for t in S['tables']]
    un = [u['name'] for u in S['unions']]
    toks = []
    for t in S['tables']:
        fs = []
        for f in t['fields']:
            if f.get('deprecated'): continue
            k, ty, rq = f['kind'], f.get('type'), 1 if f['required'] else 0
            if k == 'scalar': d = 'S/%d/%d' % (SCALARS[ty], SCALARS[ty]); rq = 0
            elif k == 'struct': d = 'S/%d/%d' % (S['structs'][ty]['size'], S['structs'][ty]['align']); rq = 0
            elif k == 'string': d = 'X'
            elif k == 'vec_scalar': d = 'V/%d/%d/%d' % (SCALARS[ty], SCALARS[ty], 0xffffffff // SCALARS[ty])
            elif k == 'vec_struct':
                st = S['structs'][ty]; d = 'V/%d/%d/%d' % (st['size'], st['align'], 0xffffffff // st['size'])
            elif k == 'vec_string': d = 'XV'
            elif k == 'table': d = 'T/%d' % tn.index(ty)
            elif k == 'vec_table': d = 'TV/%d' % tn.index(ty)
            elif k == 'union': d = 'U/%d' % un.index(ty)
            elif k == 'vec_union': d = 'UV/%d' % un.index(ty)
            elif k == 'nested_table': d = 'NT/%d/%d' % (1, tn.index(ty))
            elif k == 'nested_struct': d = 'NS/%d/%d' % (S['structs'][ty]['size'], S['structs'][ty]['align'])
            fs.append('%d/%d/%s' % (f['id'], rq, d))
        toks.append('T|' + ','.join(fs))
    for u in S['unions']:
        ms = []
        for i, (k, v) in enumerate(u['members']):
            code = i + 1
            if k == 't': ms.append('%d/T/%d' % (code, tn.index(v)))
            elif k == 's': ms.append('%d/S/%d/%d' % (code, S['structs'][v]['size'], S['structs'][v]['align']))
            else: ms.append('%d/X' % code)
        toks.append('U|' + ','.join(ms))
    return ' '.join(toks)


def render_walker(S, prefix):
    """C code: walk_<T>(table) for every table, touching everything a reader client can touch."""
    assign_ids(S)
    o = []
    o.append('static volatile uint64_t sink;')
    o.append('static void sink_mem(const void *p, size_t n) { const volatile uint8_t *q = (const volatile uint8_t *)p; size_t i; for (i = 0; i < n; ++i) sink += q[i]; }')
    o.append('static int depth_guard;')
    for nm in S['struct_order']:
        st = S['structs'][nm]
        o.append('static void walk_%s(%s_struct_t s) { if (!s) return;' % (nm, nm))
        for m, ty in st['members']:
            if ':' in ty: o.append('  sink_mem(%s_%s_get_ptr(s), %s_%s_get_len() * sizeof(*%s_%s_get_ptr(s)));' % (nm, m, nm, m, nm, m))
            elif ty in ('float', 'double'): o.append('  { %s v = %s_%s(s); sink_mem(&v, sizeof(v)); }' % (ty, nm, m))
            elif ty in SCALARS: o.append('  sink += (uint64_t)%s_%s(s);' % (nm, m))
            else: o.append('  walk_%s(%s_%s(s));' % (ty, nm, m))
        o.append('  sink_mem(s, %d); }' % st['size'])
    for t in S['tables']: o.append('static void walk_%s(%s_table_t t);' % (t['name'], t['name']))
    for u in S['unions']:
        o.append('static void walk_union_%s(flatbuffers_utype_t type, flatbuffers_generic_t v) { if (!v) return; switch (type) {' % u['name'])
        for i, (k, v) in enumerate(u['members']):
            if k == 't': o.append('  case %d: walk_%s((%s_table_t)v); break;' % (i + 1, v, v))
            elif k == 's': o.append('  case %d: walk_%s((%s_struct_t)v); break;' % (i + 1, v, v))
            else: o.append('  case %d: { flatbuffers_string_t s = flatbuffers_string_cast_from_generic(v); sink_mem(s, flatbuffers_string_len(s) + 1); } break;' % (i + 1))
        o.append('  default: break; } }')
    for t in S['tables']:
        T = t['name']
        o.append('static void walk_%s(%s_table_t t) { size_t i, n; if (!t) return; if (++depth_guard > 5000) { --depth_guard; return; } (void)i; (void)n;' % (T, T))
        for f in t['fields']:
            if f.get('deprecated'): continue
            k, ty, N = f['kind'], f.get('type'), f['name']
            a = '%s_%s' % (T, N)
            o.append('  sink += (uint64_t)%s_is_present(t);' % a)
            if k == 'scalar' and ty in ('float', 'double'): o.append('  { %s v = %s(t); sink_mem(&v, sizeof(v)); }' % (ty, a))
            elif k == 'scalar': o.append('  sink += (uint64_t)%s(t);' % a)
            elif k == 'struct': o.append('  walk_%s(%s(t));' % (ty, a))
            elif k == 'string': o.append('  { flatbuffers_string_t s = %s(t); if (s) sink_mem(s, flatbuffers_string_len(s) + 1); }' % a)
            elif k == 'vec_scalar':
                c = CNAME[ty]
                if ty in ('float', 'double'):
                    o.append('  { flatbuffers_%s_vec_t v = %s(t); n = flatbuffers_%s_vec_len(v); for (i = 0; i < n; ++i) { %s x = flatbuffers_%s_vec_at(v, i); sink_mem(&x, sizeof(x)); } }' % (c, a, c, ty, c))
                else:
                    o.append('  { flatbuffers_%s_vec_t v = %s(t); n = flatbuffers_%s_vec_len(v); for (i = 0; i < n; ++i) sink += (uint64_t)flatbuffers_%s_vec_at(v, i); }' % (c, a, c, c))
            elif k == 'vec_struct':
                o.append('  { %s_vec_t v = %s(t); n = %s_vec_len(v); for (i = 0; i < n; ++i) walk_%s(%s_vec_at(v, i)); }' % (ty, a, ty, ty, ty))
            elif k == 'vec_string':
                o.append('  { flatbuffers_string_vec_t v = %s(t); n = flatbuffers_string_vec_len(v); for (i = 0; i < n; ++i) { flatbuffers_string_t s = flatbuffers_string_vec_at(v, i); sink_mem(s, flatbuffers_string_len(s) + 1); } }' % a)
            elif k == 'table': o.append('  walk_%s(%s(t));' % (ty, a))
            elif k == 'vec_table':
                o.append('  { %s_vec_t v = %s(t); n = %s_vec_len(v); for (i = 0; i < n; ++i) walk_%s(%s_vec_at(v, i)); }' % (ty, a, ty, ty, ty))
            elif k == 'union':
                o.append('  { %s_union_t u = %s_union(t); walk_union_%s(u.type, u.value); }' % (ty, a, ty))
            elif k == 'vec_union':
                o.append('  { %s_union_vec_t uv = %s_union(t); n = %s_union_vec_len(uv); for (i = 0; i < n; ++i) { %s_union_t u = %s_union_vec_at(uv, i); walk_union_%s(u.type, u.value); } }' % (ty, a, ty, ty, ty, ty))
            elif k == 'nested_table':
                o.append('  { flatbuffers_uint8_vec_t v = %s(t); n = flatbuffers_uint8_vec_len(v); if (v) { sink_mem(v, n); walk_%s(%s_as_root(t)); } }' % (a, ty, a))
            elif k == 'nested_struct':
                o.append('  { flatbuffers_uint8_vec_t v = %s(t); n = flatbuffers_uint8_vec_len(v); if (v) { sink_mem(v, n); walk_%s(%s_as_root(t)); } }' % (a, ty, a))
        o.append('  --depth_guard; }')
    return '\n'.join(o) + '\n'


# ------------------------------------------------------------------ schema evolution (C09)
def evolve_pair(rng, **kw):
    """Returns (A, B): B generated, A = B with trailing fields / trailing union members removed and B's
    `deprecated` marks cleared (i.e. B extends A by appending fields, appending union members and deprecating
    non-required fields)."""
    import copy
    nenums = kw.pop('nenums', 0)
    B = gen_schema(rng, **kw)
    # aimed: the first union always gains members in B, and the root table has a union field and a union VECTOR field of it
    if B['unions'] and B['tables']:
        u0 = B['unions'][0]
        if len(u0['members']) < 2: u0['members'].append(('x', 'straim'))
        B['tables'][0]['fields'].insert(0, {'name': 'uv_aim', 'kind': 'vec_union', 'type': u0['name'], 'required': False})
        B['tables'][0]['fields'].insert(0, {'name': 'u_aim', 'kind': 'union', 'type': u0['name'], 'required': False})
    # a self reference on the root table, so that chains up to and beyond the documented nesting limit can be built (deep-chain class)
    if kw.get('ntables', 1) >= 1 and B['tables']:
        B['tables'][0]['fields'].insert(0, {'name': 'selfref', 'kind': 'table', 'type': B['tables'][0]['name'], 'required': False})
    # enums (permitted evolution: new enum values at the end): every enum of B keeps a proper prefix in A; enum-typed fields
    # default to a member both versions have
    # the first enum always counts up from zero and keeps at least two members in A (name-table printers), the others are random
    # the second enum is a ulong enum at the top of its range: values above 2^63 that an older printer must still print as unsigned numbers
    B['enums'] = [gen_enum(rng, 'E%d' % i, 'dense0' if i == 0 else ('top' if i == 1 else None), ty=('ulong' if i == 1 else None)) for i in range(nenums)]
    keep = {e['name']: rng.randint(2 if i == 0 else 1, len(e['members']) - 1) for i, e in enumerate(B['enums'])}
    for e in B['enums']: e['first_new'] = keep[e['name']]       # index of the first member the older version lacks (value generator aims at it)
    for tb in B['tables']:
        for ei, e in enumerate(B['enums']):
            if ei <= 1 or rng.random() < 0.7:
                sym, val = e['members'][rng.randrange(keep[e['name']])]
                tb['fields'].insert(rng.randint(0, len(tb['fields'])),
                                    {'name': 'e%d_%s' % (len(tb['fields']), e['name'].lower()), 'kind': 'scalar', 'type': e['type'], 'enum': e['name'], 'required': False,
                                     'default': enum_values(e)[[m for m, _ in e['members']].index(sym)], 'default_symbol': sym})
            if rng.random() < 0.4:
                tb['fields'].insert(rng.randint(0, len(tb['fields'])),
                                    {'name': 'v%d_%s' % (len(tb['fields']), e['name'].lower()), 'kind': 'vec_scalar', 'type': e['type'], 'enum': e['name'], 'required': False})
    A = copy.deepcopy(B)
    for e in A['enums']:
        e['members'] = e['members'][:keep[e['name']]]; e.pop('first_new', None)
    for t in A['tables']:
        k = rng.choice([0, 0, 1, 2, 3])
        keep = max(1, len(t['fields']) - k)
        t['fields'] = t['fields'][:keep]
    for ta, tb in zip(A['tables'], B['tables']):
        for fb in tb['fields'][len(ta['fields']):]: fb['required'] = False     # appended fields must be optional
    for ui, u in enumerate(A['unions']):
        k = rng.choice([0, 1, 2]) if ui else rng.choice([1, 1, 2])
        u['members'] = u['members'][:max(1, len(u['members']) - k)]
    for ua, ub in zip(A['unions'], B['unions']): ub['first_new'] = len(ua['members'])      # member codes above this are unknown to A
    # aimed evolutions: every table of B also gets appended scalar fields whose defaults need all their digits, and every
    # union of B gets an appended member of a small-alignment struct when the schema has one
    small = [n for n in B['struct_order'] if B['structs'][n]['align'] < 4]
    for tb in B['tables']:
        for ty in ('double', 'float', rng.choice(list(SCALARS))):
            tb['fields'].append({'name': 'f%d' % len(tb['fields']), 'kind': 'scalar', 'type': ty, 'required': False,
                                 'default': rng.choice(DEFAULTS[ty])})
        # ... and non-scalar fields of the kinds whose absent-field accessors differ (nested buffers, strings, tables, unions)
        tb['fields'].append({'name': 'f%d' % len(tb['fields']), 'kind': 'nested_table', 'type': B['tables'][-1]['name'], 'required': False})
        if B['struct_order']:
            tb['fields'].append({'name': 'f%d' % len(tb['fields']), 'kind': 'nested_struct', 'type': B['struct_order'][0], 'required': False})
        tb['fields'].append({'name': 'f%d' % len(tb['fields']), 'kind': rng.choice(['string', 'vec_string', 'table', 'vec_table']), 'type': B['tables'][0]['name'], 'required': False})
        if B['unions']:
            tb['fields'].append({'name': 'f%d' % len(tb['fields']), 'kind': rng.choice(['union', 'vec_union']), 'type': B['unions'][-1]['name'], 'required': False})
    for ub in B['unions']:
        if small and ('s', small[0]) not in ub['members']: ub['members'].append(('s', small[0]))
    # B deprecates some non-required fields that A still has
    for ta, tb in zip(A['tables'], B['tables']):
        for fa, fb in zip(ta['fields'], tb['fields']):
            if not fb['required'] and fb['name'] not in ('selfref', 'uv_aim', 'u_aim') and rng.random() < 0.15:
                fb['deprecated'] = True
    return A, B


def render_dumper(S, mask=None):
    """C code printing a canonical dump of every field of every reachable object.
    mask: schema AST of the OTHER (older) version: only fields / union members that exist there are printed
    (fields deprecated in S print as absent)."""
    assign_ids(S)
    mt = {t['name']: {f['name'] for f in t['fields']} for t in (mask or S)['tables']}
    mu = {u['name']: len(u['members']) for u in (mask or S)['unions']}
    o = ['static int dump_depth;',
         'static void dump_hex(const void *p, size_t n) { const uint8_t *q = (const uint8_t *)p; size_t i; for (i = 0; i < n; ++i) printf("%02x", q[i]); }']
    for nm in S['struct_order']:
        st = S['structs'][nm]
        o.append('static void dump_%s(%s_struct_t s) { if (!s) { printf("~"); return; } dump_hex(s, %d); }' % (nm, nm, st['size']))
    for t in S['tables']: o.append('static void dump_%s(%s_table_t t);' % (t['name'], t['name']))
    for u in S['unions']:
        vis = mu.get(u['name'], 0)
        o.append('static void dump_union_%s(flatbuffers_utype_t type, flatbuffers_generic_t v) { printf("u%%u:", (unsigned)type); if (!v) { printf("~"); return; } switch (type) {' % u['name'])
        for i, (k, v) in enumerate(u['members']):
            if i >= vis: continue
            if k == 't': o.append('  case %d: dump_%s((%s_table_t)v); break;' % (i + 1, v, v))
            elif k == 's': o.append('  case %d: dump_%s((%s_struct_t)v); break;' % (i + 1, v, v))
            else: o.append('  case %d: { flatbuffers_string_t s = flatbuffers_string_cast_from_generic(v); dump_hex(s, flatbuffers_string_len(s)); } break;' % (i + 1))
        o.append('  default: printf("?"); break; } }')
    for t in S['tables']:
        T = t['name']
        o.append('static void dump_%s(%s_table_t t) { size_t i, n; (void)i; (void)n; if (!t) { printf("~"); return; } if (++dump_depth > 200) { printf("DEEP"); --dump_depth; return; } printf("{");' % (T, T))
        for f in t['fields']:
            k, ty, N = f['kind'], f.get('type'), f['name']
            if N not in mt.get(T, set()):
                # a field the other (older) version does not know: scalars are dumped with a marker so that the check can compare
                # what this version reads from an old buffer with the declared default
                if k == 'scalar' and not f.get('deprecated'):
                    ct = {'bool': 'flatbuffers_bool_t', 'byte': 'int8_t', 'ubyte': 'uint8_t', 'short': 'int16_t', 'ushort': 'uint16_t', 'int': 'int32_t', 'uint': 'uint32_t', 'long': 'int64_t', 'ulong': 'uint64_t', 'float': 'float', 'double': 'double'}[ty]
                    o.append('  { %s v = %s_%s(t); printf("%s.%s!=%%s", %s_%s_is_present(t) ? "+" : "-"); dump_hex(&v, sizeof(v)); printf(";"); }' % (ct, T, N, T, N, T, N))
                elif not f.get('deprecated'):
                    # a non-scalar field the other (older) version does not have: every accessor must report it absent on an old buffer
                    acc = {'struct': ['%s_%s(t) != 0'], 'string': ['%s_%s(t) != 0'], 'vec_scalar': ['%s_%s(t) != 0'], 'vec_struct': ['%s_%s(t) != 0'],
                           'vec_string': ['%s_%s(t) != 0'], 'table': ['%s_%s(t) != 0'], 'vec_table': ['%s_%s(t) != 0'],
                           'union': ['%s_%s_type(t) != 0', '%s_%s(t) != 0'], 'vec_union': ['%s_%s_union(t).type != 0', '%s_%s_union(t).value != 0'],
                           'nested_table': ['%s_%s(t) != 0', '%s_%s_as_root(t) != 0', '%s_%s_as_typed_root(t) != 0'],
                           'nested_struct': ['%s_%s(t) != 0', '%s_%s_as_root(t) != 0', '%s_%s_as_typed_root(t) != 0']}.get(k, [])
                    cond = ' || '.join('(%s)' % (x % (T, N)) for x in acc) or '0'
                    o.append('  printf("%s.%s!=%%s;", (%s_%s_is_present(t) || %s) ? "?" : "~");' % (T, N, T, N, cond))
                continue
            a = '%s_%s' % (T, N)
            o.append('  printf("%s=");' % N)
            if f.get('deprecated'):
                # no accessor in this version: the other version must see it absent
                o.append('  printf("%s");' % ('~' if k not in ('union', 'vec_union') else ('u0:~' if k == 'union' else '~')))
                if k == 'scalar':
                    o[-1] = '  printf("-%s");' % default_bytes(ty, f.get('default', 0)).hex()
                o.append('  printf(";");')
                continue
            if k == 'scalar':
                ct = {'bool': 'flatbuffers_bool_t', 'byte': 'int8_t', 'ubyte': 'uint8_t', 'short': 'int16_t', 'ushort': 'uint16_t', 'int': 'int32_t', 'uint': 'uint32_t', 'long': 'int64_t', 'ulong': 'uint64_t', 'float': 'float', 'double': 'double'}[ty]
                o.append('  { %s v = %s(t); printf("%%s", %s_is_present(t) ? "+" : "-"); dump_hex(&v, sizeof(v)); }' % (ct, a, a))
            elif k == 'struct': o.append('  dump_%s(%s(t));' % (ty, a))
            elif k == 'string': o.append('  { flatbuffers_string_t s = %s(t); if (!s) printf("~"); else { printf("\\""); dump_hex(s, flatbuffers_string_len(s)); } }' % a)
            elif k == 'vec_scalar':
                c = CNAME[ty]
                o.append('  { flatbuffers_%s_vec_t v = %s(t); if (!v) printf("~"); else { n = flatbuffers_%s_vec_len(v); printf("[%%u:", (unsigned)n); dump_hex(v, n * %d); printf("]"); } }' % (c, a, c, SCALARS[ty]))
            elif k == 'vec_struct':
                o.append('  { %s_vec_t v = %s(t); if (!v) printf("~"); else { n = %s_vec_len(v); printf("[%%u:", (unsigned)n); for (i = 0; i < n; ++i) { dump_%s(%s_vec_at(v, i)); printf(","); } printf("]"); } }' % (ty, a, ty, ty, ty))
            elif k == 'vec_string':
                o.append('  { flatbuffers_string_vec_t v = %s(t); if (!v) printf("~"); else { n = flatbuffers_string_vec_len(v); printf("[%%u:", (unsigned)n); for (i = 0; i < n; ++i) { flatbuffers_string_t s = flatbuffers_string_vec_at(v, i); dump_hex(s, flatbuffers_string_len(s)); printf(","); } printf("]"); } }' % a)
            elif k == 'table': o.append('  dump_%s(%s(t));' % (ty, a))
            elif k == 'vec_table':
                o.append('  { %s_vec_t v = %s(t); if (!v) printf("~"); else { n = %s_vec_len(v); printf("[%%u:", (unsigned)n); for (i = 0; i < n; ++i) { dump_%s(%s_vec_at(v, i)); printf(","); } printf("]"); } }' % (ty, a, ty, ty, ty))
            elif k == 'union':
                o.append('  { %s_union_t u = %s_union(t); dump_union_%s(u.type, u.value); }' % (ty, a, ty))
            elif k == 'vec_union':
                o.append('  { %s_union_vec_t uv = %s_union(t); if (!uv.type) printf("~"); else { n = %s_union_vec_len(uv); printf("[%%u:", (unsigned)n); for (i = 0; i < n; ++i) { %s_union_t u = %s_union_vec_at(uv, i); dump_union_%s(u.type, u.value); printf(","); } printf("]"); } }' % (ty, a, ty, ty, ty, ty))
            elif k == 'nested_table':
                o.append('  { flatbuffers_uint8_vec_t v = %s(t); if (!v) printf("~"); else { printf("N"); dump_%s(%s_as_root(t)); } }' % (a, ty, a))
            elif k == 'nested_struct':
                o.append('  { flatbuffers_uint8_vec_t v = %s(t); if (!v) printf("~"); else { printf("N"); dump_%s(%s_as_root(t)); } }' % (a, ty, a))
            o.append('  printf(";");')
        o.append('  printf("}"); --dump_depth; }')
    return '\n'.join(o) + '\n'
