"""Schema AST generator shared by checks C07 / C06 / C20.

gen_schema(rng, ...) builds a random multi-file schema AST that flatcc must ACCEPT, covering scalars, enums
(incl. bit_flags, bool), structs of structs / fixed arrays / enums, force_align, tables, unions of
tables/structs/strings, vectors of each, namespaces, includes, attributes id / deprecated / required / key /
primary_key / sorted / original_order / nested_flatbuffer / base64 / base64url / user attributes, rpc services,
root_type, file_identifier / file_extension.  Names never collide with C keywords or generated suffixes
(types: capital + digit..., fields: 'f<digit>...' without underscores).

The AST knows the layout it expects (independent python computation: Schema.expected()) and can phrase the same
questions for the extracted Coq model (Schema.model_lines()).  mutate_invalid(rng, schema) returns a copy that
violates exactly one semantic rule (with the rule name), for the negative cases of C06.
"""
import copy, random

SC = {  # canonical scalar types: size, class, C type, reflection BaseType
    'bool': (1, 'bool', 'flatbuffers_bool_t', 'Bool'), 'byte': (1, 'int', 'int8_t', 'Byte'), 'ubyte': (1, 'uint', 'uint8_t', 'UByte'),
    'short': (2, 'int', 'int16_t', 'Short'), 'ushort': (2, 'uint', 'uint16_t', 'UShort'), 'int': (4, 'int', 'int32_t', 'Int'),
    'uint': (4, 'uint', 'uint32_t', 'UInt'), 'long': (8, 'int', 'int64_t', 'Long'), 'ulong': (8, 'uint', 'uint64_t', 'ULong'),
    'float': (4, 'float', 'float', 'Float'), 'double': (8, 'float', 'double', 'Double'),
    'char': (1, 'char', 'char', 'Byte'),     # only as fixed array element in structs
}
POOL = [t for t in SC if t != 'char']
ALIAS = {'int8': 'byte', 'uint8': 'ubyte', 'int16': 'short', 'uint16': 'ushort', 'int32': 'int', 'uint32': 'uint',
         'int64': 'long', 'uint64': 'ulong', 'float32': 'float', 'float64': 'double'}
INT_TYPES = ['byte', 'ubyte', 'short', 'ushort', 'int', 'uint', 'long', 'ulong']
BASETYPE = ['None', 'UType', 'Bool', 'Byte', 'UByte', 'Short', 'UShort', 'Int', 'UInt', 'Long', 'ULong', 'Float', 'Double',
            'String', 'Vector', 'Obj', 'Union', 'Array']


def canon(t): return ALIAS.get(t, t)
def ssize(t): return SC[canon(t)][0]
def srange(t):
    s, k = SC[canon(t)][0], SC[canon(t)][1]
    if k == 'bool': return (0, 1)
    if k == 'uint': return (0, (1 << (8 * s)) - 1)
    return (-(1 << (8 * s - 1)), (1 << (8 * s - 1)) - 1)


class Decl:
    def __init__(self, kind, name, ns):
        self.kind, self.name, self.ns = kind, name, list(ns)
        self.attrs = []       # user attributes: (name, value or None)
        self.file = None
    def qname(self): return '.'.join(self.ns + [self.name])
    def cname(self, prefix=''): return prefix + '_'.join(self.ns + [self.name])


class Enum(Decl):
    def __init__(self, name, ns, typ, bit_flags=False):
        super().__init__('enum', name, ns)
        self.type, self.bit_flags, self.members = typ, bit_flags, []   # members: [name, explicit (written) or None]
    def values(self):
        """name -> value exactly as process_enum assigns them."""
        out, idx, first = [], 0, True
        for name, ex in self.members:
            if ex is not None: idx = ex
            elif not first: idx += 1
            first = False
            out.append((name, (1 << idx) if self.bit_flags else idx))
        return out


class Union(Decl):
    def __init__(self, name, ns):
        super().__init__('union', name, ns)
        self.members = []     # [name, type tuple ('table'|'struct', decl) | ('string',), explicit or None, aliased bool]
    def values(self):
        out, idx = [('NONE', 0, None)], 0
        for name, t, ex, _ in self.members:
            idx = ex if ex is not None else idx + 1
            out.append((name, idx, t))
        return out


class Struct(Decl):
    def __init__(self, name, ns):
        super().__init__('struct', name, ns)
        self.force_align, self.fields = None, []   # field: dict(name, type, key, deprecated, attrs)


class Table(Decl):
    def __init__(self, name, ns):
        super().__init__('table', name, ns)
        self.original_order, self.fields = False, []   # field: dict(name, type, default, id, flags...)


class Service(Decl):
    def __init__(self, name, ns):
        super().__init__('rpc_service', name, ns)
        self.calls = []       # (name, req table, resp table)


class File:
    def __init__(self, name):
        self.name, self.includes, self.decls, self.user_attrs = name, [], [], []
        self.root_type, self.file_identifier, self.file_extension = None, None, None


class Schema:
    def __init__(self):
        self.files = []       # files[0] is the root file; others are reachable through includes
        self.features = set()

    # ------------------------------------------------------------------ rendering
    def ref(self, frm, to):
        """how decl `frm` names decl `to`: simple name inside the same or an enclosing namespace, else fully qualified."""
        if to.ns == frm.ns[:len(to.ns)]: return to.name
        return to.qname()

    def type_text(self, owner, t):
        k = t[0]
        if k == 'scalar': return t[1]
        if k == 'string': return 'string'
        if k in ('enum', 'struct', 'table', 'union'): return self.ref(owner, t[1])
        if k == 'vec': return '[' + self.type_text(owner, t[1]) + ']'
        if k == 'array': return '[%s:%s]' % (self.type_text(owner, t[1]), t[2])
        raise ValueError(t)

    def default_text(self, owner, f):
        d = f.get('default')
        if d is None: return ''
        if d[0] == 'int': return ' = %d' % d[1]
        if d[0] == 'float': return ' = ' + d[1]
        if d[0] == 'bool': return ' = ' + ('true' if d[1] else 'false')
        if d[0] == 'enum': return ' = ' + d[1]
        if d[0] == 'null': return ' = null'
        if d[0] == 'raw': return ' = ' + d[1]
        raise ValueError(d)

    @staticmethod
    def attr_text(attrs):
        if not attrs: return ''
        parts = []
        for a in attrs:
            if a[1] is None: parts.append(a[0])
            elif isinstance(a[1], str): parts.append('%s: "%s"' % (a[0], a[1]))
            else: parts.append('%s: %s' % (a[0], a[1]))
        return ' (' + ', '.join(parts) + ')'

    def field_attrs(self, f):
        a = []
        if f.get('id') is not None: a.append(('id', f['id']))
        for flag in ('deprecated', 'required', 'key', 'primary_key', 'sorted', 'base64', 'base64url'):
            if f.get(flag): a.append((flag, None))
        if f.get('nested'): a.append(('nested_flatbuffer', f['nested_text'] if 'nested_text' in f else f['nested'].qname()))
        a += f.get('attrs', [])
        return a

    def render_file(self, fl):
        out = []
        for inc in fl.includes: out.append('include "%s.fbs";' % inc)
        cur = None
        for ua in fl.user_attrs: out.append('attribute "%s";' % ua)
        for d in fl.decls:
            if d.ns != cur:
                out.append('namespace %s;' % '.'.join(d.ns)); cur = list(d.ns)
            if d.kind == 'enum':
                da = ([('bit_flags', None)] if d.bit_flags else []) + d.attrs
                ms = ', '.join(n if ex is None else '%s = %d' % (n, ex) for n, ex in d.members)
                out.append('enum %s : %s%s { %s }' % (d.name, d.type, self.attr_text(da), ms))
            elif d.kind == 'union':
                ms = []
                for n, t, ex, aliased in d.members:
                    tt = 'string' if t[0] == 'string' else self.ref(d, t[1])
                    s = ('%s: %s' % (n, tt)) if aliased else tt
                    if ex is not None: s += ' = %d' % ex
                    ms.append(s)
                out.append('union %s%s { %s }' % (d.name, self.attr_text(d.attrs), ', '.join(ms)))
            elif d.kind == 'struct':
                da = ([('force_align', d.force_align)] if d.force_align is not None else []) + d.attrs
                fs = ' '.join('%s:%s%s;' % (f['name'], self.type_text(d, f['type']), self.attr_text(self.field_attrs(f))) for f in d.fields)
                out.append('struct %s%s { %s }' % (d.name, self.attr_text(da), fs))
            elif d.kind == 'table':
                da = ([('original_order', None)] if d.original_order else []) + d.attrs
                fs = ' '.join('%s:%s%s%s;' % (f['name'], self.type_text(d, f['type']), self.default_text(d, f),
                                              self.attr_text(self.field_attrs(f))) for f in d.fields)
                out.append('table %s%s { %s }' % (d.name, self.attr_text(da), fs))
            elif d.kind == 'rpc_service':
                cs = ' '.join('%s(%s):%s;' % (n, self.ref(d, rq), self.ref(d, rs)) for n, rq, rs in d.calls)
                out.append('rpc_service %s { %s }' % (d.name, cs))
        if fl.root_type is not None:
            out.append('root_type %s;' % (fl.root_type if isinstance(fl.root_type, str) else fl.root_type.qname()))
        if fl.file_identifier is not None: out.append('file_identifier "%s";' % fl.file_identifier)
        if fl.file_extension is not None: out.append('file_extension "%s";' % fl.file_extension)
        return '\n'.join(x for x in out if x is not None) + '\n'

    def render(self):
        """dict filename -> text"""
        return {fl.name + '.fbs': self.render_file(fl) for fl in self.files}

    def write(self, d):
        import os
        os.makedirs(d, exist_ok=True)
        for n, t in self.render().items(): open(os.path.join(d, n), 'w').write(t)
        return os.path.join(d, self.files[0].name + '.fbs')

    def all_decls(self):
        return [d for fl in self.files for d in fl.decls]

    # ------------------------------------------------------------------ expectations (independent python)
    def member_desc(self, t, lay):
        """(elem size, elem align, count) of a struct member type; lay: struct -> (offsets,size,align)"""
        n = 1
        if t[0] == 'array': n, t = t[2], t[1]
        if t[0] == 'scalar': s = ssize(t[1]); return (s, s, n)
        if t[0] == 'enum': s = ssize(t[1].type); return (s, s, n)
        if t[0] == 'struct': return (lay[t[1]][1], lay[t[1]][2], n)
        raise ValueError(t)

    def struct_order(self):
        """structs in dependency order (a struct after those it embeds)."""
        order, seen = [], set()
        def visit(s):
            if s in seen: return
            seen.add(s)
            for f in s.fields:
                t = f['type']
                if t[0] == 'array': t = t[1]
                if t[0] == 'struct': visit(t[1])
            order.append(s)
        for d in self.all_decls():
            if d.kind == 'struct': visit(d)
        return order

    def expected_structs(self):
        """independent computation of the FlatBuffers struct layout rule: struct -> (offsets, size, align)"""
        lay = {}
        for s in self.struct_order():
            end, al, offs = 0, 1, []
            for f in s.fields:
                es, ea, n = self.member_desc(f['type'], lay)
                while end % ea: end += 1            # deliberately naive: next multiple, one byte at a time
                offs.append(end); end += es * n; al = max(al, ea)
            if s.force_align is not None: al = max(al, s.force_align)
            while end % al: end += 1
            lay[s] = (offs, end, al)
        return lay

    def expected_ids(self, t):
        """field -> (id, type id or None) by the FlatBuffers rule."""
        res, nxt = [], 0
        explicit = any(f.get('id') is not None for f in t.fields)
        for f in t.fields:
            isu = f['type'][0] == 'union' or (f['type'][0] == 'vec' and f['type'][1][0] == 'union')
            if explicit: v = f['id']
            else:
                v = nxt + (1 if isu else 0); nxt = v + 1
            res.append((v, v - 1 if isu else None))
        return res

    def model_lines(self, struct_max=65535, align_max=256, vt_max=65534):
        """request lines for modelrun_layout + how to read the replies: (lines, struct order, tables)"""
        order = self.struct_order()
        idx = {s: i for i, s in enumerate(order)}
        decls = []
        for s in order:
            ms = []
            for f in s.fields:
                t, n = f['type'], 1
                if t[0] == 'array': n, t = t[2], t[1]
                if t[0] == 'scalar': ms.append('s%dx%d' % (ssize(t[1]), n))
                elif t[0] == 'enum': ms.append('s%dx%d' % (ssize(t[1].type), n))
                else: ms.append('r%dx%d' % (idx[t[1]], n))
            decls.append('%s:%s' % ('-' if s.force_align is None else s.force_align, ','.join(ms)))
        lines = ['structs %d %d %s' % (struct_max, align_max, ';'.join(decls))] if decls else []
        tables = [d for d in self.all_decls() if d.kind == 'table']
        for t in tables:
            fs = []
            for f in t.fields:
                isu = f['type'][0] == 'union' or (f['type'][0] == 'vec' and f['type'][1][0] == 'union')
                fs.append(('u' if isu else 'n') + ('_' if f.get('id') is None else str(f['id'])))
            lines.append('ids %d %s' % (vt_max, ' '.join(fs)))
        return lines, order, tables


# ---------------------------------------------------------------------- generation
class Gen:
    def __init__(self, rng, size='medium', nfiles=None, shadow=False):
        self.r, self.size, self.n, self.nfiles, self.shadow = rng, size, 0, nfiles, shadow
        self.s = Schema()

    def uid(self, p):
        # letters first, then the running number: unique, never a C keyword (digits), and sorted order differs from declaration order
        self.n += 1
        return '%s%s%d' % (p, ''.join(self.r.choice('abcdefghijklmnopqrstuvwxyz') for _ in range(self.r.randint(0, 3))), self.n)

    def pick_scalar(self, pool=None):
        t = self.r.choice(pool or POOL)
        if self.r.random() < 0.2:
            al = [a for a, c in ALIAS.items() if c == t]
            if al: t = al[0]
        return t

    def int_default(self, t):
        lo, hi = srange(t)
        return self.r.choice([0, 1, lo, hi, hi - 1, lo + 1 if lo < 0 else 2, self.r.randint(lo, hi), self.r.randint(max(lo, -100), min(hi, 100))])

    def float_default(self):
        v = self.r.choice([0, 1, -1, 3, 100, -250, 12345]) + self.r.choice([0, 0.5, 0.25, 0.125, 0.75])
        return repr(float(v)), float(v)

    def visible(self, fl, kinds):
        """decls of the given kinds visible from file fl (own and transitively included files)"""
        seen, stack = [], [fl]
        names = {f.name: f for f in self.s.files}
        while stack:
            f = stack.pop()
            if f in seen: continue
            seen.append(f)
            for i in f.includes: stack.append(names[i])
        return [d for f in seen for d in f.decls if d.kind in kinds]

    def gen(self):
        r, s = self.r, self.s
        nfiles = self.nfiles or r.choice([1, 1, 2, 3] if self.size != 'small' else [1, 1, 2])
        files = [File(self.uid('sch')) for _ in range(nfiles)]
        # include DAG: file i may include files with larger index; root = files[0] reaches all (diamonds / repeats allowed)
        for i in range(nfiles - 1):
            files[i].includes.append(files[i + 1].name)
            for j in range(i + 2, nfiles):
                if r.random() < 0.5: files[i].includes.append(files[j].name)
            if r.random() < 0.2: files[i].includes.append(files[i + 1].name)       # repeated include
        if nfiles > 1: s.features.add('includes')
        s.files = files
        nss = [[], [self.uid('Ns')], None]
        nss[2] = nss[1] + [self.uid('Sub')]
        if r.random() < 0.5: nss.append([self.uid('Other'), self.uid('Deep'), self.uid('Er')])
        scale = {'small': 1, 'medium': 2, 'large': 4}[self.size]
        # leaf files first so that references go to already generated declarations
        for fl in reversed(files):
            if r.random() < 0.5:
                fl.user_attrs = [self.uid('ua') for _ in range(r.randint(1, 2))]
            all_ua = [a for f in files for a in f.user_attrs]
            def ns():
                n = r.choice(nss)
                if n: s.features.add('namespace')
                return n
            def uattrs():
                if all_ua and r.random() < 0.25:
                    s.features.add('user_attr')
                    a = r.choice(all_ua)
                    return [(a, r.choice([None, 'txt%d' % r.randint(0, 99), r.randint(0, 1000)]))]
                return []
            # enums
            for _ in range(r.randint(1, 2 * scale)):
                fl.decls.append(self.gen_enum(ns(), uattrs))
            # structs
            for _ in range(r.randint(1, 3 * scale)):
                fl.decls.append(self.gen_struct(fl, ns(), uattrs))
            # tables (two passes so that tables can refer to each other incl. recursion) + unions
            tabs = [Table(self.uid('T'), ns()) for _ in range(r.randint(1, 3 * scale))]
            for t in tabs: t.file = fl
            pending = list(tabs)
            # a keyed table early so that sorted vectors of tables exist
            unions = []
            for _ in range(r.randint(0, scale)):
                u = self.gen_union(fl, ns(), tabs)
                if u: unions.append(u)
            fl.decls += tabs[:1] + unions + tabs[1:]
            for t in tabs: self.fill_table(fl, t, tabs, unions, uattrs)
            for t in tabs: t.attrs = uattrs()
            if r.random() < 0.3:
                sv = Service(self.uid('Svc'), ns())
                vt = self.visible(fl, ('table',))
                for _ in range(r.randint(1, 3)):
                    sv.calls.append((self.uid('Call'), r.choice(vt), r.choice(vt)))
                fl.decls.append(sv); s.features.add('rpc')
            if r.random() < 0.3: r.shuffle(fl.decls)     # declaration order is free in flatcc (later definitions are visible)
            vt = [d for d in fl.decls if d.kind == 'table']
            if r.random() < 0.7 or fl is files[0]:
                fl.root_type = r.choice(vt)
            if r.random() < 0.5: fl.file_identifier = ''.join(r.choice('ABCDEFGHIJKLMNOPQRSTUVWXYZ0123456789') for _ in range(4))
            if r.random() < 0.3: fl.file_extension = r.choice(['bin', 'dat', 'mon'])
            if self.shadow and fl is files[0]:
                self.add_shadowing(fl)
            for d in fl.decls: d.file = fl
        # group declarations by namespace runs is not needed: render emits a namespace line whenever it changes
        return s

    def add_shadowing(self, fl):
        """name-resolution stress: a namespace 3-4 levels deep whose intermediate levels are (mostly) never declared; the SAME simple
        type names declared with DIFFERENT layouts in the global namespace and in one or two ancestors; referenced unqualified from the
        deep namespace. FlatBuffers / flatcc rule: an unqualified name binds to the nearest enclosing namespace that declares it; the
        AST records that binding (the field types point at the nearest holder's declarations), so offsets / sizes / enum widths /
        defaults / vector element sizes computed from the AST expose a wrong binding."""
        r, s = self.r, self.s
        depth = r.choice([3, 3, 4])
        deep = [self.uid(p) for p in ('Lib', 'Core', 'Shapes', 'Inner')[:depth]]
        # holders: the global namespace always (the wrong fallback), the top ancestor always, an intermediate one sometimes
        holders = [[], deep[:1]]
        if r.random() < 0.35: holders.append(deep[:r.randint(2, depth - 1)])
        sname, ename, tname = self.uid('Shade'), self.uid('Tone'), self.uid('Plate')
        mnames = [self.uid('M') for _ in range(3)]
        layouts = r.sample([['ubyte'], ['ushort', 'ubyte'], ['uint', 'ubyte'], ['double'], ['ulong', 'uint', 'ubyte'], ['short'] * 5, ['float', 'double']], len(holders))
        etypes = r.sample(['ubyte', 'short', 'int', 'long', 'ushort', 'ulong'], len(holders))
        made = []
        for h, lay, et, k in zip(holders, layouts, etypes, range(len(holders))):
            st = Struct(sname, h); st.fields = [{'name': 'f%s%d' % ('xyzuvw'[j], j), 'type': ('scalar', t)} for j, t in enumerate(lay)]
            if r.random() < 0.3: st.force_align = 16
            en = Enum(ename, h, et); en.members = [[m, (k + 1) * 10 + j * (k + 2)] for j, m in enumerate(mnames)]
            tb = Table(tname, h); tb.fields = [{'name': 'g%d' % j, 'type': ('scalar', r.choice(['byte', 'int', 'long'])), 'default': ('int', k + j), 'attrs': []} for j in range(k + 1)]
            made.append((h, st, en, tb))
        r.shuffle(made)                              # declaration order must not matter
        for h, st, en, tb in made: fl.decls += [en, st, tb]
        # the nearest enclosing holder for a user in namespace `ns`
        def nearest(ns):
            best = None
            for h, st, en, tb in made:
                if h == ns[:len(h)] and (best is None or len(h) > len(best[0])): best = (h, st, en, tb)
            return best
        users = [deep] + ([deep[:-1]] if (depth == 4 and r.random() < 0.5) else [])
        for ns in users:
            h, st, en, tb = nearest(ns)
            vals = en.values()
            us = Struct(self.uid('User'), ns)
            us.fields = [{'name': 'fa1', 'type': ('scalar', 'byte')}, {'name': 'fs2', 'type': ('struct', st)}, {'name': 'ft3', 'type': ('enum', en)},
                         {'name': 'fr4', 'type': ('array', ('struct', st), 2)}, {'name': 'fe5', 'type': ('array', ('enum', en), 3)}]
            ut = Table(self.uid('UserT'), ns)
            nm, v = r.choice(vals)
            ut.fields = [{'name': 'hs1', 'type': ('struct', st), 'attrs': []}, {'name': 'ht2', 'type': ('enum', en), 'default': ('enum', nm, v), 'attrs': []},
                         {'name': 'hv3', 'type': ('vec', ('struct', st)), 'attrs': []}, {'name': 'he4', 'type': ('vec', ('enum', en)), 'attrs': []},
                         {'name': 'hp5', 'type': ('table', tb), 'attrs': []}, {'name': 'hq6', 'type': ('vec', ('table', tb)), 'attrs': []}]
            uu = Union(self.uid('UserU'), ns); uu.members = [[tb.name, ('table', tb), None, False], [st.name, ('struct', st), None, False]]
            ut.fields.append({'name': 'hu7', 'type': ('union', uu), 'attrs': []})
            fl.decls += [us, uu, ut]
        s.features.add('shadowed_names')

    def gen_enum(self, ns, uattrs):
        r = self.r
        kind = r.choice(['plain', 'plain', 'flags', 'bool', 'neg', 'big'])
        if kind == 'bool':
            e = Enum(self.uid('E'), ns, 'bool')
            e.members = [[self.uid('M'), None], [self.uid('M'), None]][:r.randint(1, 2)]
            self.s.features.add('enum_bool')
        elif kind == 'flags':
            t = r.choice(['ubyte', 'ushort', 'uint', 'ulong', 'uint8', 'uint64'])
            e = Enum(self.uid('E'), ns, t, bit_flags=True)
            bits = ssize(t) * 8
            idxs = sorted(r.sample(range(bits), r.randint(1, min(5, bits))))
            if r.random() < 0.3: idxs = list(range(len(idxs)))
            prev = None
            for i in idxs:
                implicit_ok = (prev is None and i == 0) or (prev is not None and i == prev + 1)
                e.members.append([self.uid('M'), None if (implicit_ok and r.random() < 0.7) else i])
                prev = i
            self.s.features.add('bit_flags')
        else:
            t = self.pick_scalar(INT_TYPES)
            e = Enum(self.uid('E'), ns, t)
            lo, hi = srange(t)
            cur = 0
            if kind == 'neg' and lo < 0: cur = r.randint(max(lo, -1000), 0)
            if kind == 'big': cur = hi - r.randint(3, 20)
            first = True
            for _ in range(r.randint(1, 6)):
                ex = None
                if first and cur != 0: ex = cur
                elif not first:
                    if r.random() < 0.3:
                        cur = cur + r.randint(1, 5); ex = cur
                    else: cur += 1
                if cur > hi: break
                e.members.append([self.uid('M'), ex]); first = False
            self.s.features.add('enum')
        e.attrs = uattrs()
        return e

    def gen_struct(self, fl, ns, uattrs):
        r = self.r
        st = Struct(self.uid('S'), ns)
        structs = self.visible(fl, ('struct',)) + [d for d in fl.decls if d.kind == 'struct']
        structs = list(dict.fromkeys(structs))
        enums = self.visible(fl, ('enum',)) + [d for d in fl.decls if d.kind == 'enum']
        enums = list(dict.fromkeys(enums))
        lay = self.s.expected_structs()
        total = 0
        for _ in range(r.randint(1, 7)):
            k = r.choice(['scalar', 'scalar', 'scalar', 'enum', 'struct', 'array', 'array', 'chararray'])
            if k == 'enum' and not enums: k = 'scalar'
            if k == 'struct' and not structs: k = 'scalar'
            if k == 'scalar': t = ('scalar', self.pick_scalar())
            elif k == 'enum': t = ('enum', r.choice(enums))
            elif k == 'struct': t = ('struct', r.choice(structs)); self.s.features.add('nested_struct')
            elif k == 'chararray': t = ('array', ('scalar', 'char'), r.randint(1, 17)); self.s.features.add('char_array')
            else:
                ek = r.choice(['scalar', 'scalar', 'enum', 'struct'])
                if ek == 'enum' and not enums: ek = 'scalar'
                if ek == 'struct' and not structs: ek = 'scalar'
                et = ('scalar', self.pick_scalar()) if ek == 'scalar' else (ek, r.choice(enums if ek == 'enum' else structs))
                t = ('array', et, r.choice([1, 2, 3, 5, 8, 16, r.randint(1, 40)])); self.s.features.add('fixed_array')
            # keep the struct well below FLATCC_STRUCT_MAX_SIZE
            es, ea, n = (1, 1, t[2]) if (t[0] == 'array' and t[1] == ('scalar', 'char')) else self.s.member_desc(t, lay)
            if total + es * n + 64 > 20000: continue
            total += es * n + ea
            f = {'name': self.uid('f'), 'type': t}
            if t[0] == 'scalar' and r.random() < 0.12 and not any(x.get('key') for x in st.fields):
                f['key'] = True; self.s.features.add('struct_key')
            elif r.random() < 0.15:
                f['deprecated'] = True; self.s.features.add('struct_deprecated')
            st.fields.append(f)
        if not st.fields: st.fields.append({'name': self.uid('f'), 'type': ('scalar', 'int')})
        # force_align: a power of two not below the natural alignment
        nat = 1
        for f in st.fields:
            t = f['type']
            if t[0] == 'array' and t[1] == ('scalar', 'char'): ea = 1
            else: ea = self.s.member_desc(t, lay)[1]
            nat = max(nat, ea)
        if r.random() < 0.35:
            st.force_align = r.choice([a for a in (1, 2, 4, 8, 16, 32, 64, 128, 256) if a >= nat])
            self.s.features.add('force_align')
        st.attrs = uattrs()
        return st

    def gen_union(self, fl, ns, tabs):
        r = self.r
        u = Union(self.uid('U'), ns)
        cands = [('table', t) for t in self.visible(fl, ('table',)) + tabs] + [('struct', s) for s in self.visible(fl, ('struct',)) + [d for d in fl.decls if d.kind == 'struct']]
        cur, used = 0, set()
        for _ in range(r.randint(1, 5)):
            k = r.random()
            ex = None
            if r.random() < 0.25:
                cur += r.randint(1, 4); ex = cur
            else: cur += 1
            if cur > 255: break
            if k < 0.15:
                nm = self.uid('Str'); u.members.append([nm, ('string',), ex, True]); self.s.features.add('union_string')
            else:
                t = r.choice(cands)
                aliased = r.random() < 0.3 or t[1].name in used
                nm = self.uid('Al') if aliased else t[1].name
                used.add(nm)
                u.members.append([nm, t, ex, aliased])
                self.s.features.add('union_' + t[0])
        u.file = fl
        return u

    def fill_table(self, fl, t, tabs, unions, uattrs):
        r, s = self.r, self.s
        enums = list(dict.fromkeys(self.visible(fl, ('enum',)) + [d for d in fl.decls if d.kind == 'enum']))
        structs = list(dict.fromkeys(self.visible(fl, ('struct',)) + [d for d in fl.decls if d.kind == 'struct']))
        tables = list(dict.fromkeys(self.visible(fl, ('table',)) + tabs))
        us = list(dict.fromkeys(self.visible(fl, ('union',)) + unions))
        keyed_tabs = [x for x in tables if any(f.get('key') or f.get('primary_key') for f in x.fields)]
        keyed_structs = [x for x in structs if any(f.get('key') for f in x.fields)]
        nf = r.choice([0, 1, 2, 3, 5, 8, 12] if self.size != 'small' else [1, 2, 3, 5])
        have_key = False
        for _ in range(nf):
            k = r.choice(['scalar', 'scalar', 'scalar', 'enum', 'string', 'struct', 'table', 'union', 'vscalar', 'venum', 'vstring',
                          'vstruct', 'vtable', 'vunion', 'nested', 'base64'])
            f = {'name': self.uid('f')}
            if k in ('enum', 'venum') and not enums: k = 'scalar'
            if k in ('struct', 'vstruct') and not structs: k = 'scalar'
            if k in ('union', 'vunion') and not us: k = 'string'
            if k == 'scalar':
                st = self.pick_scalar(); f['type'] = ('scalar', st)
                kind = SC[canon(st)][1]
                c = r.random()
                if c < 0.15: f['default'] = ('null',); s.features.add('optional_scalar')
                elif c < 0.65:
                    if kind == 'float':
                        txt, v = self.float_default(); f['default'] = ('float', txt, v)
                    elif kind == 'bool': f['default'] = ('bool', r.random() < 0.5)
                    else: f['default'] = ('int', self.int_default(st))
                    s.features.add('default')
                if not have_key and r.random() < 0.15 and f.get('default', ('x',))[0] != 'null':
                    f[r.choice(['key', 'key', 'primary_key'])] = True; have_key = True; s.features.add('key')
            elif k == 'enum':
                e = r.choice(enums); f['type'] = ('enum', e)
                vals = e.values()
                c = r.random()
                zero_ok = any(v == 0 for _, v in vals) and canon(e.type) != 'bool'   # flatcc wants an initializer on bool enum fields
                if c < 0.1: f['default'] = ('null',)
                elif c < 0.6 or not zero_ok or e.bit_flags:
                    nm, v = r.choice(vals)
                    if r.random() < 0.6: f['default'] = ('enum', nm, v)
                    elif canon(e.type) == 'bool': f['default'] = ('bool', bool(v))
                    else: f['default'] = ('int', v)
                s.features.add('enum_field')
            elif k == 'string':
                f['type'] = ('string',)
                if not have_key and r.random() < 0.2: f['key'] = True; have_key = True; s.features.add('string_key')
                elif r.random() < 0.2: f['required'] = True; s.features.add('required')
            elif k == 'struct':
                f['type'] = ('struct', r.choice(structs)); s.features.add('struct_field')
                if r.random() < 0.15: f['required'] = True
            elif k == 'table':
                f['type'] = ('table', r.choice(tables)); s.features.add('table_field')
                if r.random() < 0.15: f['required'] = True
            elif k == 'union':
                f['type'] = ('union', r.choice(us)); s.features.add('union_field')
                if r.random() < 0.1: f['required'] = True
            elif k == 'vscalar':
                f['type'] = ('vec', ('scalar', self.pick_scalar())); s.features.add('vec_scalar')
                if r.random() < 0.2: f['sorted'] = True; s.features.add('sorted')
            elif k == 'venum':
                f['type'] = ('vec', ('enum', r.choice(enums))); s.features.add('vec_enum')
            elif k == 'vstring':
                f['type'] = ('vec', ('string',)); s.features.add('vec_string')
                if r.random() < 0.2: f['sorted'] = True
            elif k == 'vstruct':
                st = r.choice(structs); f['type'] = ('vec', ('struct', st)); s.features.add('vec_struct')
                if st in keyed_structs and r.random() < 0.5: f['sorted'] = True; s.features.add('sorted_struct')
            elif k == 'vtable':
                tt = r.choice(tables); f['type'] = ('vec', ('table', tt)); s.features.add('vec_table')
                if tt in keyed_tabs and tt is not t and r.random() < 0.6: f['sorted'] = True; s.features.add('sorted_table')
            elif k == 'vunion':
                f['type'] = ('vec', ('union', r.choice(us))); s.features.add('vec_union')
            elif k == 'nested':
                f['type'] = ('vec', ('scalar', 'ubyte')); f['nested'] = r.choice(structs) if (structs and r.random() < 0.4) else r.choice(tables)
                s.features.add('nested_flatbuffer')
            elif k == 'base64':
                f['type'] = ('vec', ('scalar', r.choice(['ubyte', 'uint8']))); f[r.choice(['base64', 'base64url'])] = True; s.features.add('base64')
            if r.random() < 0.1 and not (f.get('key') or f.get('primary_key')):
                f['deprecated'] = True; s.features.add('deprecated'); f.pop('required', None)
            f['attrs'] = uattrs()
            t.fields.append(f)
        # siblings whose names sort between a union field `u` and its hidden companion `u_type` (and just around it): the binary
        # schema's fields vector must stay sorted with the synthesised `<u>_type` entries in place
        for f in [x for x in t.fields if x['type'][0] == 'union' or (x['type'][0] == 'vec' and x['type'][1][0] == 'union')]:
            if r.random() < 0.5:
                for suf in r.sample(['2', 'A', 'Z', '0', '_id', '_a', '_typ', '_typf', '_u', 'x', '_Type'], r.randint(1, 3)):
                    g = {'name': f['name'] + suf, 'type': ('scalar', r.choice(['int', 'ubyte', 'long'])), 'attrs': []}
                    if all(x['name'] != g['name'] for x in t.fields):
                        t.fields.insert(r.randrange(len(t.fields) + 1), g); s.features.add('union_sibling_names')
        if r.random() < 0.25: t.original_order = True; s.features.add('original_order')
        # explicit ids: a random permutation of the slots
        if t.fields and r.random() < 0.4:
            s.features.add('explicit_id')
            order = list(range(len(t.fields))); r.shuffle(order)
            nxt = 0
            for i in order:
                f = t.fields[i]
                isu = f['type'][0] == 'union' or (f['type'][0] == 'vec' and f['type'][1][0] == 'union')
                f['id'] = nxt + (1 if isu else 0); nxt = f['id'] + 1


def gen_schema(rng, size='medium', nfiles=None, shadow=False):
    return Gen(rng, size, nfiles, shadow).gen()


TOKEN_RE = r'[A-Za-z_][A-Za-z0-9_.]*|\d+\.?\d*|"[^"\n]*"|\s+|.'
SOUP = ['table', 'struct', 'enum', 'union', 'namespace', 'include', 'attribute', 'root_type', 'rpc_service', 'file_identifier', 'file_extension',
        '{', '}', '(', ')', '[', ']', ':', ';', ',', '=', '.', '"', '"abc"', '/*', '*/', '//', '\n', ' ', 'int', 'ubyte', 'string', 'bool', 'float', 'double', 'long',
        'id', 'key', 'deprecated', 'required', 'force_align', 'bit_flags', 'nested_flatbuffer', 'null', 'true', 'false', 'NONE', 'T', 'S', 'x', '0', '1', '-1',
        '18446744073709551616', '-9223372036854775809', '1e400', '0x', '0xffffffffffffffffff', '1.', '.5', '1e', '\\', "'", '\0', '\x01', '\xff', '\xc3\xa9', '#', '@', '$']


def mutate_text(rng, text):
    """token-level mutation of a schema text: delete / duplicate / swap / replace / insert a token, or splice a control byte"""
    import re
    toks = re.findall(TOKEN_RE, text, flags=re.S)
    if not toks: return text
    for _ in range(rng.choice([1, 1, 1, 2, 3])):
        i = rng.randrange(len(toks))
        op = rng.choice(['del', 'dup', 'swap', 'rep', 'ins', 'delrange'])
        if op == 'del': toks.pop(i)
        elif op == 'dup': toks.insert(i, toks[i])
        elif op == 'swap' and i + 1 < len(toks): toks[i], toks[i + 1] = toks[i + 1], toks[i]
        elif op == 'rep': toks[i] = rng.choice(SOUP)
        elif op == 'ins': toks.insert(i, rng.choice(SOUP))
        elif op == 'delrange':
            j = min(len(toks), i + rng.randint(1, 8)); del toks[i:j]
        if not toks: toks = ['']
    return ''.join(toks)


# ---------------------------------------------------------------------- one-rule violations
def _tables(s): return [d for d in s.all_decls() if d.kind == 'table']
def _structs(s): return [d for d in s.all_decls() if d.kind == 'struct']
def _enums(s): return [d for d in s.all_decls() if d.kind == 'enum']


def mutate_invalid(rng, schema):
    """deep copy of `schema` broken by exactly one semantic rule; returns (schema, rule) or None if no site."""
    s = copy.deepcopy(schema)
    rules = ['struct_cycle', 'force_align_not_pow2', 'force_align_too_small', 'force_align_too_big', 'id_gap', 'id_dup',
             'id_union_zero', 'id_mixed', 'id_negative', 'unknown_type', 'dup_field', 'dup_type', 'key_deprecated', 'required_scalar',
             'sorted_nonvector', 'enum_out_of_range', 'enum_dup_name', 'enum_default_undefined', 'empty_struct', 'nested_not_ubyte',
             'nested_unknown', 'base64_not_ubyte', 'array_in_table', 'array_len_zero', 'root_unknown', 'root_enum', 'struct_table_field',
             'union_enum_member', 'string_default', 'struct_too_large', 'int_default_range', 'bit_flags_range', 'sorted_no_key',
             'union_vector_sorted', 'rpc_struct', 'rpc_scalar', 'vector_of_vector', 'char_scalar', 'missing_include', 'union_id_conflict']
    rng.shuffle(rules)
    T, S, E = _tables(s), _structs(s), _enums(s)
    root = s.files[0]
    def isu(f): return f['type'][0] == 'union' or (f['type'][0] == 'vec' and f['type'][1][0] == 'union')
    def mk_ids(t):
        nxt = 0
        for f in t.fields:
            f['id'] = nxt + (1 if isu(f) else 0); nxt = f['id'] + 1
    for rule in rules:
        if rule == 'struct_cycle' and S:
            st = rng.choice(S); st.fields.append({'name': 'fcyc9', 'type': ('struct', st)}); return s, rule
        if rule == 'force_align_not_pow2' and S:
            rng.choice(S).force_align = rng.choice([3, 6, 12, 24, 0]); return s, rule
        if rule == 'force_align_too_big' and S:
            rng.choice(S).force_align = rng.choice([512, 1024, 65536]); return s, rule
        if rule == 'force_align_too_small':
            c = [x for x in S if any(f['type'] == ('scalar', t) for f in x.fields for t in ('long', 'double', 'ulong', 'int', 'uint', 'float'))]
            if c:
                st = rng.choice(c); st.force_align = rng.choice([1, 2]); return s, rule
        if rule in ('id_gap', 'id_dup', 'id_mixed', 'id_negative') :
            c = [t for t in T if len(t.fields) >= 2]
            if c:
                t = rng.choice(c); mk_ids(t)
                f = rng.choice(t.fields)
                if rule == 'id_gap':
                    m = max(t.fields, key=lambda x: x['id']); m['id'] += 1
                elif rule == 'id_dup':
                    a, b = rng.sample(t.fields, 2); a['id'] = b['id']
                elif rule == 'id_mixed': f['id'] = None
                else: f['id'] = -1 - rng.randint(0, 5)
                return s, rule
        if rule in ('id_union_zero', 'union_id_conflict'):
            c = [t for t in T if any(isu(f) for f in t.fields)]
            if c:
                t = rng.choice(c); mk_ids(t)
                u = [f for f in t.fields if isu(f)][0]
                if rule == 'id_union_zero':
                    others = [f for f in t.fields if f is not u]
                    u['id'] = 0
                    nxt = 1
                    for f in others:
                        f['id'] = nxt + (1 if isu(f) else 0); nxt = f['id'] + 1
                    return s, rule
                others = [f for f in t.fields if f is not u and not isu(f)]
                if others:
                    # another field takes the hidden type slot
                    o = others[0]; o['id'] = u['id'] - 1
                    return s, rule
        if rule == 'unknown_type' and T:
            t = rng.choice(T); t.fields.append({'name': 'funk9', 'type': ('scalar', 'NoSuchType77')});
            if any(f.get('id') is not None for f in t.fields): mk_ids(t)
            return s, rule
        if rule == 'dup_field':
            c = [t for t in T + S if t.fields]
            if c:
                t = rng.choice(c); f = copy.copy(rng.choice(t.fields)); f.pop('key', None); f.pop('primary_key', None)
                t.fields.append(f)
                if t.kind == 'table' and any(x.get('id') is not None for x in t.fields): mk_ids(t)
                return s, rule
        if rule == 'dup_type' and len(T) + len(S) + len(E) >= 2:
            ds = [d for d in root.decls if d.kind in ('table', 'struct', 'enum')]
            if len(ds) >= 2:
                a, b = rng.sample(ds, 2)
                clone = copy.copy(a); clone.ns = list(b.ns); clone.name = b.name
                # insert a second declaration with the name and namespace of b
                root.decls.append(clone); return s, rule
        if rule == 'key_deprecated':
            c = [(t, f) for t in T for f in t.fields if f.get('key')]
            if c:
                t, f = rng.choice(c); f['deprecated'] = True; return s, rule
        if rule == 'required_scalar':
            c = [f for t in T for f in t.fields if f['type'][0] == 'scalar']
            if c:
                rng.choice(c)['required'] = True; return s, rule
        if rule == 'sorted_nonvector':
            c = [f for t in T for f in t.fields if f['type'][0] in ('scalar', 'string', 'table', 'struct')]
            if c:
                rng.choice(c)['sorted'] = True; return s, rule
        if rule == 'union_vector_sorted':
            c = [f for t in T for f in t.fields if f['type'][0] == 'vec' and f['type'][1][0] == 'union']
            if c:
                rng.choice(c)['sorted'] = True; return s, rule
        if rule == 'sorted_no_key':
            c = [f for t in T for f in t.fields if f['type'][0] == 'vec' and f['type'][1][0] == 'table'
                 and not any(x.get('key') or x.get('primary_key') for x in f['type'][1][1].fields) and not f.get('deprecated')]
            if c:
                rng.choice(c)['sorted'] = True; return s, rule
        if rule == 'enum_out_of_range':
            c = [e for e in E if not e.bit_flags and canon(e.type) not in ('long', 'ulong', 'bool')]
            if c:
                e = rng.choice(c); lo, hi = srange(e.type)
                e.members.append(['Mover9', hi + 1 + rng.randint(0, 3)]); return s, rule
        if rule == 'enum_dup_name':
            c = [e for e in E if e.members and canon(e.type) != 'bool']
            if c:
                e = rng.choice(c); e.members.append([e.members[0][0], None]); return s, rule
        if rule == 'enum_default_undefined':
            c = [(t, f) for t in T for f in t.fields if f['type'][0] == 'enum' and not f['type'][1].bit_flags and canon(f['type'][1].type) not in ('bool',)]
            if c:
                t, f = rng.choice(c); vals = {v for _, v in f['type'][1].values()}
                lo, hi = srange(f['type'][1].type)
                cand = [v for v in range(max(lo, -300), min(hi, 300) + 1) if v not in vals]
                if cand:
                    f['default'] = ('int', rng.choice(cand)); return s, rule
        if rule == 'empty_struct' and S:
            # only structs nobody embeds, so that the single error is the empty struct
            rng.choice(S).fields = []; return s, rule
        if rule == 'nested_not_ubyte':
            c = [f for t in T for f in t.fields if f['type'][0] == 'vec' and f['type'][1][0] == 'scalar' and canon(f['type'][1][1]) != 'ubyte']
            if c and T:
                rng.choice(c)['nested'] = rng.choice(T); return s, rule
        if rule == 'nested_unknown':
            c = [f for t in T for f in t.fields if f.get('nested')]
            if c:
                rng.choice(c)['nested_text'] = 'Nope77.Missing'; return s, rule
        if rule == 'base64_not_ubyte':
            c = [f for t in T for f in t.fields if f['type'][0] == 'vec' and f['type'][1][0] == 'scalar' and canon(f['type'][1][1]) != 'ubyte']
            if c:
                rng.choice(c)['base64'] = True; return s, rule
        if rule == 'array_in_table' and T:
            t = rng.choice(T); t.fields.append({'name': 'farr9', 'type': ('array', ('scalar', 'int'), 4)})
            if any(f.get('id') is not None for f in t.fields): mk_ids(t)
            return s, rule
        if rule == 'array_len_zero' and S:
            rng.choice(S).fields.append({'name': 'fz9', 'type': ('array', ('scalar', 'short'), 0)}); return s, rule
        if rule == 'root_unknown':
            root.root_type = 'Missing77'; return s, rule
        if rule == 'root_enum' and [e for e in root.decls if e.kind == 'enum']:
            root.root_type = rng.choice([e for e in root.decls if e.kind == 'enum']); return s, rule
        if rule == 'struct_table_field' and S and T:
            rng.choice(S).fields.append({'name': 'ftab9', 'type': ('table', rng.choice(T))}); return s, rule
        if rule == 'union_enum_member':
            U = [d for d in s.all_decls() if d.kind == 'union']
            if U and E:
                rng.choice(U).members.append(['Bad9', ('table', rng.choice(E)), None, True]); return s, rule
        if rule == 'string_default':
            c = [f for t in T for f in t.fields if f['type'][0] in ('string', 'struct', 'table')]
            if c:
                rng.choice(c)['default'] = ('int', 1); return s, rule
        if rule == 'struct_too_large' and S:
            rng.choice(S).fields.append({'name': 'fbig9', 'type': ('array', ('scalar', 'long'), 9000)}); return s, rule
        if rule == 'int_default_range':
            c = [f for t in T for f in t.fields if f['type'][0] == 'scalar' and SC[canon(f['type'][1])][1] in ('int', 'uint') and ssize(f['type'][1]) < 8
                 and not f.get('key') and not f.get('primary_key')]
            if c:
                f = rng.choice(c); lo, hi = srange(f['type'][1])
                f['default'] = ('int', rng.choice([hi + 1, lo - 1, hi + 1000])); return s, rule
        if rule == 'bit_flags_range':
            c = [e for e in E if e.bit_flags]
            if c:
                e = rng.choice(c); e.members.append(['Mbit9', ssize(e.type) * 8]); return s, rule
        if rule == 'rpc_struct':
            V = [d for d in s.all_decls() if d.kind == 'rpc_service']
            if V and S:
                v = rng.choice(V); v.calls.append(('CallBad9', rng.choice(S), v.calls[0][2])); return s, rule
        if rule == 'rpc_scalar':
            V = [d for d in s.all_decls() if d.kind == 'rpc_service']
            if V:
                v = rng.choice(V)
                class _Scalar:      # renders as a scalar type name where a table reference is required
                    ns = []; name = rng.choice(['long', 'string', 'ubyte', 'float'])
                    def qname(self): return self.name
                if rng.random() < 0.5: v.calls.append(('CallBad8', _Scalar(), v.calls[0][2]))
                else: v.calls.append(('CallBad8', v.calls[0][1], _Scalar()))
                return s, rule
        if rule == 'vector_of_vector' and T:
            t = rng.choice(T); t.fields.append({'name': 'fvv9', 'type': ('vec', ('vec', ('scalar', 'int')))})
            if any(f.get('id') is not None for f in t.fields): mk_ids(t)
            return s, rule
        if rule == 'char_scalar' and S:
            rng.choice(S).fields.append({'name': 'fch9', 'type': ('scalar', 'char')}); return s, rule
        if rule == 'missing_include':
            root.includes.append('no_such_file_77'); return s, rule
    return None


# ---------------------------------------------------------------------- error budget (FLATCC_MAX_ERRORS) inputs
ONE_ERR = {'table': ['a%d:;', 'a%d:int', 'a%d int;', '%d:int;'], 'struct': ['a%d:;', 'a%d:int', 'a%d int;'],
           'rpc_service': ['M%d(:T;', 'M%d(T)T;', 'M%d T;'], 'enum': ['A%d = ,', '%d,', 'A%d = x y,'], 'union': ['%d,', 'A%d: ,', 'A%d = ,']}
TWO_ERR = {'table': ['y%d:[;', 'y%d:[[;', 'y%d:[int (;'], 'struct': ['y%d:[;', 'y%d:[:3;'], 'rpc_service': ['N%d([):[;', 'N%d([;'],
           'enum': ['B%d = [ = ,', '= = ,'], 'union': ['B%d: [,', '[ [,']}
OPEN = {'table': 'table T%d {', 'struct': 'struct S%d {', 'rpc_service': 'rpc_service R%d {', 'enum': 'enum E%d : int {', 'union': 'union U%d {'}
ENDINGS = ['', ' ', ' a', ' a:', ' a:int', ' a:int;', ' a:[', ' (', ' a:int (id', ' a:int = ', '\n// c', ' /*']


def error_budget_inputs(rng, full=False):
    """inputs that accumulate about k = 0..14 diagnostics from items reporting one and items reporting two diagnostics, inside the body
    of each kind of declaration, and then END (end of input) inside that body or inside a freshly opened body of any kind.
    Termination then rests on the error cap alone. Yields (label, text)."""
    kinds = list(OPEN)
    n = 0
    for kind in kinds:
        for ones in range(0, 13):
            for twos in ((0, 1, 2, 3) if full else (0, 1, 2)):
                if not full and rng.random() < 0.35 and not (7 <= ones + 2 * twos <= 12): continue
                items = [rng.choice(ONE_ERR[kind]).replace('%d', str(i)) for i in range(ones)]
                tw = [rng.choice(TWO_ERR[kind]).replace('%d', str(i)) for i in range(twos)]
                order = rng.choice(['ones_first', 'twos_last', 'mixed'])
                if order == 'mixed':
                    items = items + tw; rng.shuffle(items)
                else: items = items + tw
                n += 1
                body = OPEN[kind] % n + ' ' + ' '.join(items)
                # end of input inside the same body
                yield ('same:%s:%d+2x%d' % (kind, ones, twos), body + rng.choice(ENDINGS))
                # ... or close it (or not) and end inside another body
                k2 = rng.choice(kinds)
                yield ('next:%s>%s:%d+2x%d' % (kind, k2, ones, twos), body + rng.choice([' }\n', '\n', ' } ']) + OPEN[k2] % (n + 1000) + rng.choice(ENDINGS))
    # the errors spread over several declarations of different kinds
    for _ in range(200 if full else 60):
        parts, total = [], 0
        target = rng.randint(7, 12)
        while total < target:
            kind = rng.choice(kinds); n += 1
            k1 = rng.randint(0, 3); k2 = rng.randint(0, 1)
            its = [rng.choice(ONE_ERR[kind]).replace('%d', str(i)) for i in range(k1)] + [rng.choice(TWO_ERR[kind]).replace('%d', str(i)) for i in range(k2)]
            parts.append(OPEN[kind] % n + ' ' + ' '.join(its) + ' }'); total += k1 + 2 * k2
        kind = rng.choice(kinds)
        yield ('spread:%s' % kind, '\n'.join(parts) + '\n' + OPEN[kind] % (n + 1) + rng.choice(ENDINGS))


def many_error_texts(rng, count=3):
    """texts with many diagnostics of both weights in every kind of body, to be truncated at every byte"""
    out = []
    for _ in range(count):
        parts = []
        for j, kind in enumerate(rng.sample(list(OPEN), len(OPEN))):
            its = []
            for i in range(rng.randint(2, 5)):
                its.append((rng.choice(TWO_ERR[kind]) if rng.random() < 0.4 else rng.choice(ONE_ERR[kind])).replace('%d', str(i)))
            parts.append(OPEN[kind] % j + ' ' + ' '.join(its) + ' }')
        out.append('\n'.join(parts) + '\n')
    return out
