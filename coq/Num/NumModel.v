(* C19: number <-> text conversion routines.
   Transcribes
     include/flatcc/portable/pprintint.h   print_uint8/16/32/64, print_int8/16/32/64 (digit-pair staging,
                                           digit count selection, switch fall-through)
     include/flatcc/portable/pparseint.h   parse_integer and the typed parse_<type> wrappers
     src/runtime/json_parser.c             flatcc_json_parser_integer
     include/flatcc/flatcc_json_parser.h   flatcc_json_parser_coerce_<type>, flatcc_json_parser_<type>, _bool
   Text is a list of bytes (Z in 0..255). No proofs in this file. *)
From Flatcc.Common Require Export Bytes.
Local Open Scope Z_scope.

(* ------------------------------------------------------------------ printing: pprintint.h *)

(* static const char __print_digit_pairs[] = "00010203...99" *)
Definition digit_pairs : list Z :=
  [48;48;48;49;48;50;48;51;48;52;48;53;48;54;48;55;48;56;48;57;49;48;49;49;49;50;49;51;49;52;49;53;49;54;49;55;49;56;49;57;
   50;48;50;49;50;50;50;51;50;52;50;53;50;54;50;55;50;56;50;57;51;48;51;49;51;50;51;51;51;52;51;53;51;54;51;55;51;56;51;57;
   52;48;52;49;52;50;52;51;52;52;52;53;52;54;52;55;52;56;52;57;53;48;53;49;53;50;53;51;53;52;53;53;53;54;53;55;53;56;53;57;
   54;48;54;49;54;50;54;51;54;52;54;53;54;54;54;55;54;56;54;57;55;48;55;49;55;50;55;51;55;52;55;53;55;54;55;55;55;56;55;57;
   56;48;56;49;56;50;56;51;56;52;56;53;56;54;56;55;56;56;56;57;57;48;57;49;57;50;57;51;57;52;57;53;57;54;57;55;57;56;57;57].

(* printer state: the remaining value [n] and the characters already written, i.e. the memory from the
   moving pointer [p] up to and including the terminating NUL (writes go downwards from p + k). *)
Definition pstate := (Z * list Z)%type.

(* p += k; *p = '\0' *)
Definition pstart (n : Z) : pstate := (n, [0]).

(* __print_stage():  p -= 2; dp = __print_digit_pairs + (n % 100) * 2; n /= 100; copy_16(p, dp) *)
Definition stage (s : pstate) : pstate :=
  let '(n, acc) := s in
  let i := (n mod 100) * 2 in
  (n / 100, nthZ digit_pairs (Z.to_nat i) :: nthZ digit_pairs (Z.to_nat (i + 1)) :: acc).

(* __print_long_stage() *)
Definition long_stage (s : pstate) : pstate := stage (stage s).

(* __print_short_stage():  *--p = (n % 10) + '0'; n /= 10 *)
Definition short_stage (s : pstate) : pstate :=
  let '(n, acc) := s in (n / 10, u8 (n mod 10 + 48) :: acc).

(* p[-1] = (char)n + '0'   (n is not changed) *)
Definition last_digit (s : pstate) : pstate :=
  let '(n, acc) := s in (n, u8 (n + 48) :: acc).

(* switch (k) { case l1: b1; fallthrough; case l2: b2; ... } : enter at the label equal to k and run every
   body from there on; no label matches -> nothing runs. *)
Fixpoint switch_ft (k : Z) (cases : list (Z * (pstate -> pstate))) (entered : bool) (s : pstate) : pstate :=
  match cases with
  | [] => s
  | (l, body) :: rest =>
      if entered || (l =? k) then switch_ft k rest true (body s) else switch_ft k rest false s
  end.

(* result: (return value, bytes at the original p: characters followed by NUL) *)
Definition pres := (Z * list Z)%type.
Definition pfinish (k : Z) (s : pstate) : pres := (k, snd s).

Definition print_uint8 (n : Z) : pres :=
  if 100 <=? n then pfinish 3 (last_digit (stage (pstart n)))
  else if 10 <=? n then pfinish 2 (stage (pstart n))
  else (* p[1] = '\0'; p[0] = (char)n + '0' *) pfinish 1 (last_digit (pstart n)).

Definition print_uint16 (n : Z) : pres :=
  let k :=
    if 1000 <=? n then (if 10000 <=? n then 5 else 4)
    else (if 100 <=? n then 3 else if 10 <=? n then 2 else 1) in
  let s := pstart n in
  if Z.odd k then
    pfinish k (switch_ft k [(5, stage); (3, stage); (1, last_digit)] false s)
  else
    pfinish k (switch_ft k [(4, stage); (2, stage)] false s).

Definition print_uint32 (n : Z) : pres :=
  let k :=
    if 10000 <=? n then
      (if 10000000 <=? n then
         (if 1000000000 <=? n then 10 else if 100000000 <=? n then 9 else 8)
       else
         (if 1000000 <=? n then 7 else if 100000 <=? n then 6 else 5))
    else
      (if 100 <=? n then (if 1000 <=? n then 4 else 3)
       else (if 10 <=? n then 2 else 1)) in
  let s := pstart n in
  if Z.odd k then
    pfinish k (switch_ft k [(9, stage); (7, stage); (5, stage); (3, stage); (1, last_digit)] false s)
  else
    pfinish k (switch_ft k [(10, stage); (8, stage); (6, stage); (4, stage); (2, stage)] false s).

(* const uint64_t x = 1000000000ULL; the comparisons are against c * x (all below 2^64) *)
Definition X9 : Z := 1000000000.

Definition print_uint64 (n : Z) : pres :=
  if n <? X9 then print_uint32 (u32 n) else
  let k :=
    if 10000 * X9 <=? n then
      (if 10000000 * X9 <=? n then
         (if 1000000000 * X9 <=? n then
            (if 10000000000 * X9 <=? n then 11 + 9 else 10 + 9)
          else if 100000000 * X9 <=? n then 9 + 9 else 8 + 9)
       else
         (if 1000000 * X9 <=? n then 7 + 9 else if 100000 * X9 <=? n then 6 + 9 else 5 + 9))
    else
      (if 100 * X9 <=? n then (if 1000 * X9 <=? n then 4 + 9 else 3 + 9)
       else (if 10 * X9 <=? n then 2 + 9 else 1 + 9)) in
  let s := pstart n in
  let s :=
    if Z.odd k then
      switch_ft k [(19, stage); (17, stage); (15, stage); (13, stage);
                   (11, fun s => short_stage (stage s))] false s
    else
      switch_ft k [(20, stage); (18, stage); (16, stage); (14, stage); (12, stage); (10, stage)] false s in
  pfinish k (long_stage (long_stage s)).

(* print_int<N>:  if ((sign = n < 0)) { *p++ = '-'; n = -n; } return print_uint<N>((uint<N>_t)n, p) + sign;
   [uN (- n)] is the magnitude as the unsigned type sees it; for n = MIN the C negation overflows the signed
   type (for 32/64 bit: flagged by UBSan, two's complement wrap on every supported compiler); the model
   takes the wrapped result, which is what the negation done in unsigned arithmetic gives. *)
Definition print_signed (uN : Z -> Z) (print_u : Z -> pres) (n : Z) : pres :=
  if n <? 0 then
    let '(k, l) := print_u (uN (- n)) in (k + 1, 45 :: l)
  else print_u (uN n).

Definition print_int8  := print_signed u8  print_uint8.
Definition print_int16 := print_signed u16 print_uint16.
Definition print_int32 := print_signed u32 print_uint32.
Definition print_int64 := print_signed u64 print_uint64.

(* ------------------------------------------------------------------ digit accumulation (both parsers) *)

Definition is_digit (c : Z) : bool := (48 <=? c) && (c <=? 57).

(* the overflow test of the accumulation loop, as a function of the value so far and the next digit:
   [ovf_current]: the pinned sources,  x0 = x; x = x * 10 + d; if (x0 > x) error      (compares after the wrap)
   [ovf_fixed]  : fixes/C19-json-integer-wrap.patch and fixes/C08-pparseint-decimal-wrap.patch,
                  if (x > (UINT64_MAX - d) / 10) error; x = x * 10 + d                (exact) *)
Definition ovf_current (x d : Z) : bool := x >? u64 (x * 10 + d).
Definition ovf_fixed (x d : Z) : bool := x >? (U64_MAX - d) / 10.

(* while (buf != end && *buf >= '0' && *buf <= '9') { d = *buf - '0'; if (test) error; x = x * 10 + d; ++buf; }
   None: the test fired; Some (x, digits consumed, rest of the text). *)
Fixpoint acc_loop (test : Z -> Z -> bool) (l : list Z) (x : Z) (nd : Z) : option (Z * Z * list Z) :=
  match l with
  | [] => Some (x, nd, [])
  | c :: t =>
      if is_digit c then
        let d := c - 48 in
        if test x d then None else acc_loop test t (u64 (x * 10 + d)) (nd + 1)
      else Some (x, nd, l)
  end.

(* ------------------------------------------------------------------ pparseint.h *)

(* outcome of parse_integer: status and return pointer together
     PEnd        status END,       returns buf
     PUnmatched  status UNMATCHED, returns buf
     PInvalid    status INVALID,   returns NULL
     PRange u    status UNDERFLOW (u) / OVERFLOW, returns NULL
     POk neg x k status = neg, *value = x, returns buf + k *)
Inductive pint := PEnd | PUnmatched | PInvalid | PRange (under : bool) | POk (neg : bool) (x : Z) (consumed : Z).

Definition is_fp_char (c : Z) : bool :=   (* 'e' 'E' '.' 'p' 'P' *)
  (c =? 101) || (c =? 69) || (c =? 46) || (c =? 112) || (c =? 80).

Definition parse_integer_gen (test : Z -> Z -> bool) (s : list Z) : pint :=
  match s with
  | [] => PEnd
  | c0 :: t0 =>
      let neg := c0 =? 45 in
      let body := if neg then t0 else s in
      match acc_loop test body 0 0 with
      | None => PRange neg
      | Some (x, nd, rest) =>
          if nd =? 0 then (if neg then PInvalid else PUnmatched)
          else
            let ok := POk neg x (nd + (if neg then 1 else 0)) in
            match rest with
            | [] => ok
            | c :: _ => if is_fp_char c then PInvalid else ok
            end
      end
  end.

Definition parse_integer := parse_integer_gen ovf_fixed.
Definition parse_integer_current := parse_integer_gen ovf_current.

(* typed wrappers: value stored / status / return pointer *)
Inductive tres := TEnd | TUnmatched | TInvalid | TRange (under : bool) | TOk (v : Z) (consumed : Z).

Definition tres_of_fail (r : pint) : tres :=
  match r with
  | PEnd => TEnd | PUnmatched => TUnmatched | PInvalid => TInvalid | PRange u => TRange u
  | POk _ _ _ => TInvalid (* not used *)
  end.

(* parse_uint64 *)
Definition parse_uint64_of (r : pint) : tres :=
  match r with
  | POk neg x k => if neg then TRange true else TOk x k
  | _ => tres_of_fail r
  end.

(* __portable_define_parse_unsigned(NAME, TYPE, LIMIT) *)
Definition parse_unsigned_of (limit : Z) (r : pint) : tres :=
  match r with
  | POk neg x k => if neg then TRange true else if x <=? limit then TOk x k else TRange false
  | _ => tres_of_fail r
  end.

(* __portable_define_parse_signed(NAME, TYPE, LIMIT):  *value = (TYPE)x   resp.  (TYPE)-(int64_t)x
   (for x = 2^63 the C negation overflows int64_t; two's complement result taken, as above) *)
Definition parse_signed_of (limit : Z) (sN : Z -> Z) (r : pint) : tres :=
  match r with
  | POk neg x k =>
      if neg then (if x <=? u64 (limit + 1) then TOk (sN (- s64 x)) k else TRange true)
      else (if x <=? limit then TOk (sN x) k else TRange false)
  | _ => tres_of_fail r
  end.

Definition parse_uint8  s := parse_unsigned_of 255 (parse_integer s).
Definition parse_uint16 s := parse_unsigned_of 65535 (parse_integer s).
Definition parse_uint32 s := parse_unsigned_of 4294967295 (parse_integer s).   (* parse_uint: unsigned int, UINT_MAX *)
Definition parse_uint64 s := parse_uint64_of (parse_integer s).
Definition parse_int8  s := parse_signed_of 127 s8 (parse_integer s).
Definition parse_int16 s := parse_signed_of 32767 s16 (parse_integer s).
Definition parse_int32 s := parse_signed_of 2147483647 s32 (parse_integer s).
Definition parse_int64 s := parse_signed_of 9223372036854775807 s64 (parse_integer s).

(* ------------------------------------------------------------------ json_parser.c / flatcc_json_parser.h *)

(* error classes of the JSON number paths (overflow and underflow are one class: the sources select
   between them with `value_sign ? underflow : overflow` where value_sign is the (non-null) pointer) *)
Inductive jerr := ErrRange | ErrFloatUnexpected.

(* flatcc_json_parser_integer:
     JUnmatched   returns buf unchanged, no error (empty input, or neither sign nor digit)
     JErr e       ctx->error set, returns end
     JOk neg x k  *value_sign = neg, *value = x, returns buf + k *)
Inductive jint := JUnmatched | JErr (e : jerr) | JOk (neg : bool) (x : Z) (consumed : Z).

Definition is_float_char (c : Z) : bool := (c =? 101) || (c =? 69) || (c =? 46).   (* 'e' 'E' '.' *)

Definition json_integer_gen (test : Z -> Z -> bool) (s : list Z) : jint :=
  match s with
  | [] => JUnmatched
  | c0 :: t0 =>
      let neg := c0 =? 45 in
      let body := if neg then t0 else s in
      match acc_loop test body 0 0 with
      | None => JErr ErrRange
      | Some (x, nd, rest) =>
          (* if (buf == k) return buf;  -- a lone '-' is past k and goes on with x = 0 *)
          if negb neg && (nd =? 0) then JUnmatched
          else
            let ok := JOk neg x (nd + (if neg then 1 else 0)) in
            match rest with
            | [] => ok
            | c :: _ => if is_float_char c then JErr ErrFloatUnexpected else ok
            end
      end
  end.

Definition json_integer := json_integer_gen ovf_fixed.
Definition json_integer_current := json_integer_gen ovf_current.

(* flatcc_json_parser_coerce_<type>(ctx, buf, end, value_sign, value, &v) *)
Inductive cres := COk (v : Z) | CErr (under : bool).

Definition coerce_uint64 (neg : bool) (value : Z) : cres :=
  if neg then CErr true else COk value.
Definition coerce_bool (neg : bool) (value : Z) : cres :=
  if neg then CErr true else COk (if value =? 0 then 0 else 1).
Definition coerce_unsigned (max : Z) (uN : Z -> Z) (neg : bool) (value : Z) : cres :=
  if neg then CErr true else if value >? max then CErr false else COk (uN value).
Definition coerce_signed (max : Z) (sN : Z -> Z) (neg : bool) (value : Z) : cres :=
  if neg then (if value >? u64 (max + 1) then CErr true else COk (sN (- s64 value)))
  else (if value >? max then CErr false else COk (sN value)).

Definition coerce_uint32 := coerce_unsigned 4294967295 u32.
Definition coerce_uint16 := coerce_unsigned 65535 u16.
Definition coerce_uint8  := coerce_unsigned 255 u8.
Definition coerce_int64 := coerce_signed 9223372036854775807 s64.
Definition coerce_int32 := coerce_signed 2147483647 s32.
Definition coerce_int16 := coerce_signed 32767 s16.
Definition coerce_int8  := coerce_signed 127 s8.

(* flatcc_json_parser_<type>(ctx, buf, end, &v): *v = 0; integer; if (buf != mark) coerce.
   The first error recorded in ctx wins (set_error keeps the first). *)
Inductive jres := JTUnmatched | JTErr (e : jerr) | JTOk (v : Z) (consumed : Z).

Definition json_typed (coerce : bool -> Z -> cres) (s : list Z) : jres :=
  match json_integer s with
  | JUnmatched => JTUnmatched
  | JErr e => JTErr e
  | JOk neg x k =>
      match coerce neg x with
      | COk v => JTOk v k
      | CErr _ => JTErr ErrRange
      end
  end.

Definition json_uint8  := json_typed coerce_uint8.
Definition json_uint16 := json_typed coerce_uint16.
Definition json_uint32 := json_typed coerce_uint32.
Definition json_uint64 := json_typed coerce_uint64.
Definition json_int8  := json_typed coerce_int8.
Definition json_int16 := json_typed coerce_int16.
Definition json_int32 := json_typed coerce_int32.
Definition json_int64 := json_typed coerce_int64.

(* flatcc_json_parser_bool: "true" / "false" prefix, else uint8 and !!tmp *)
Fixpoint starts_with (p s : list Z) : bool :=   (* end - buf >= |p| && memcmp(buf, p, |p|) == 0 *)
  match p, s with
  | [], _ => true
  | a :: p', b :: s' => (a =? b) && starts_with p' s'
  | _ :: _, [] => false
  end.

Definition json_bool (s : list Z) : jres :=
  if starts_with [116;114;117;101] s then JTOk 1 4
  else if starts_with [102;97;108;115;101] s then JTOk 0 5
  else match json_uint8 s with
       | JTOk v k => JTOk (if v =? 0 then 0 else 1) k
       | r => r
       end.

(* ------------------------------------------------------------------ reference: canonical decimal text *)

(* value denoted by a digit string, most significant first (not range limited) *)
Definition dval_from (x : Z) (l : list Z) : Z := fold_left (fun x d => x * 10 + (d - 48)) l x.
Definition dval (l : list Z) : Z := dval_from 0 l.

(* canonical decimal digits of n >= 0: no leading zeros, "0" for 0 *)
Fixpoint decimal_fuel (fuel : nat) (n : Z) (acc : list Z) : list Z :=
  match fuel with
  | O => acc
  | S f => let acc' := (48 + n mod 10) :: acc in
           if n <? 10 then acc' else decimal_fuel f (n / 10) acc'
  end.
Definition decimal (n : Z) : list Z := decimal_fuel (S (Z.to_nat (Z.log2 n))) n [].

(* canonical decimal text of a signed value *)
Definition sdecimal (n : Z) : list Z := if n <? 0 then 45 :: decimal (- n) else decimal n.
