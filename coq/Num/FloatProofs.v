(* C19: sanity theorems for the float oracle of Num/FloatOracle.v: the exact value of every finite bit pattern
   rounds to that pattern, a text rounds only to a pattern of its own sign, and known IEEE-754 corner cases
   (ties to even, binade boundaries, least subnormal, overflow threshold) evaluate as the standard says. *)
From Flatcc.Num Require Import FloatOracle.
From Coq Require Import ZifyBool.
Local Open Scope Z_scope.

Lemma pow2_pos k : 0 <= k -> 0 < 2 ^ k.
Proof. intros. apply Z.pow_pos_nonneg; lia. Qed.
Lemma pow5_pos k : 0 <= k -> 0 < 5 ^ k.
Proof. intros. apply Z.pow_pos_nonneg; lia. Qed.

Lemma in_round_interval_centre M closer c : 0 < c -> in_round_interval M closer (4 * M * c) c = true.
Proof.
  intros Hc. unfold in_round_interval. apply orb_true_iff. left. apply andb_true_iff.
  split; apply Z.ltb_lt; destruct closer; nia.
Qed.

(* E >= 0: the value is the integer M * 2^E *)
Lemma scaled_exact_int M E : 0 <= E ->
  scaled_text (M * 2 ^ E) 0 E = (4 * M * 2 ^ Z.max (E - 2) 0, 2 ^ Z.max (E - 2) 0).
Proof.
  intros HE. unfold scaled_text. change (Z.max 0 0) with 0. change (Z.max (- 0) 0) with 0.
  rewrite !Z.add_0_l, Z.pow_0_r, !Z.shiftl_mul_pow2 by lia. f_equal; [|ring].
  rewrite Z.mul_1_r. replace (4 * M * 2 ^ Z.max (E - 2) 0) with (M * (2 ^ 2 * 2 ^ Z.max (E - 2) 0)) by ring.
  rewrite <- Z.mul_assoc. rewrite <- !Z.pow_add_r by lia. f_equal. f_equal. lia.
Qed.

(* E < 0: the value is  M * 5^(-E) * 10^E *)
Lemma scaled_exact_frac M E : E < 0 ->
  scaled_text (M * 5 ^ (- E)) E E = (4 * M * (5 ^ (- E) * 2 ^ (- E)), 5 ^ (- E) * 2 ^ (- E)).
Proof.
  intros HE. unfold scaled_text.
  replace (Z.max E 0) with 0 by lia. replace (Z.max (- E) 0) with (- E) by lia.
  replace (Z.max (2 - E) 0) with (2 - E) by lia. replace (Z.max (E - 2) 0) with 0 by lia.
  rewrite Z.pow_0_r, !Z.shiftl_mul_pow2 by lia. rewrite Z.add_0_r, Z.add_0_l, Z.mul_1_r. f_equal.
  replace (2 - E) with (2 + - E) by lia. rewrite Z.pow_add_r by lia. ring.
Qed.

Theorem rounds_to_exact_int f b neg M E : decode f b = Some (neg, M, E) -> 0 <= M -> 0 <= E ->
  rounds_to f b neg (M * 2 ^ E) 0 = true.
Proof.
  intros Hd HM HE. unfold rounds_to. rewrite Hd, scaled_exact_int by assumption.
  rewrite in_round_interval_centre by (apply pow2_pos; lia).
  rewrite Bool.eqb_reflx. pose proof (pow2_pos E HE). cbn [andb]. rewrite andb_true_r. apply Z.leb_le. nia.
Qed.

Theorem rounds_to_exact_frac f b neg M E : decode f b = Some (neg, M, E) -> 0 <= M -> E < 0 ->
  rounds_to f b neg (M * 5 ^ (- E)) E = true.
Proof.
  intros Hd HM HE. unfold rounds_to. rewrite Hd, scaled_exact_frac by assumption.
  pose proof (pow2_pos (- E) ltac:(lia)). pose proof (pow5_pos (- E) ltac:(lia)).
  rewrite in_round_interval_centre by nia.
  rewrite Bool.eqb_reflx. cbn [andb]. rewrite andb_true_r. apply Z.leb_le. nia.
Qed.

(* the sign of the text is the sign bit of the pattern; only finite patterns are rounded to *)
Theorem rounds_to_sign f b neg m e : rounds_to f b neg m e = true ->
  exists M E, decode f b = Some (neg, M, E).
Proof.
  unfold rounds_to. destruct (decode f b) as [[[fneg M] E]|]; [|discriminate].
  intros H. apply andb_true_iff in H. destruct H as [H _]. apply andb_true_iff in H. destruct H as [H _].
  apply Bool.eqb_prop in H. subst. eauto.
Qed.

(* every decoded significand is non-negative *)
Lemma decode_nonneg f b neg M E : 0 <= fbits f -> decode f b = Some (neg, M, E) -> 0 <= M.
Proof.
  intros Hf. unfold decode. destruct (f_bexp f b =? 2 ^ ebits f - 1); [discriminate|].
  pose proof (pow2_pos (fbits f) Hf) as HP.
  pose proof (Z.mod_pos_bound b (2 ^ fbits f) HP) as HB.
  unfold f_frac. set (P := 2 ^ fbits f) in *. set (r := b mod P) in *.
  destruct (f_bexp f b =? 0); intros H; apply Some_inj in H;
    apply (f_equal (fun p : bool * Z * Z => snd (fst p))) in H; cbn [fst snd] in H; subst M; lia.
Qed.
Lemma decode_nonneg32 b neg M E : decode binary32 b = Some (neg, M, E) -> 0 <= M.
Proof. apply decode_nonneg. unfold fbits. cbn [prec binary32]. lia. Qed.
Lemma decode_nonneg64 b neg M E : decode binary64 b = Some (neg, M, E) -> 0 <= M.
Proof. apply decode_nonneg. unfold fbits. cbn [prec binary64]. lia. Qed.

(* known corner cases of IEEE-754 binary64 / binary32 *)
Example ex_tenth64 : rounds_to64 4591870180066957722 false 1 (-1) = true /\
                     rounds_to64 4591870180066957721 false 1 (-1) = false /\
                     rounds_to64 4591870180066957723 false 1 (-1) = false.
Proof. vm_compute. auto. Qed.
Example ex_tenth32 : rounds_to32 1036831949 false 1 (-1) = true /\ rounds_to32 1036831948 false 1 (-1) = false.
Proof. vm_compute. auto. Qed.
(* 2^53 + 1 is a tie: to even (down); 2^53 + 3 is a tie: to even (up) *)
Example ex_tie_even : rounds_to64 4845873199050653696 false 9007199254740993 0 = true /\
                      rounds_to64 4845873199050653697 false 9007199254740993 0 = false /\
                      rounds_to64 4845873199050653698 false 9007199254740995 0 = true /\
                      rounds_to64 4845873199050653697 false 9007199254740995 0 = false.
Proof. vm_compute. auto. Qed.
(* below 2^53 the spacing halves: 2^53 - 0.5 is the tie between 2^53 - 1 (odd) and 2^53 (even) *)
Example ex_binade : rounds_to64 4845873199050653696 false 90071992547409915 (-1) = true /\
                    rounds_to64 4845873199050653695 false 90071992547409915 (-1) = false /\
                    rounds_to64 4845873199050653695 false 90071992547409914 (-1) = true /\
                    rounds_to64 4845873199050653696 false 90071992547409914 (-1) = false.
Proof. vm_compute. auto. Qed.
(* least subnormal 4.94e-324; half of it is 2.4703282292062327208...e-324 *)
Example ex_subnormal : rounds_to64 1 false 5 (-324) = true /\
                       rounds_to64 0 false 24703282292062327 (-340) = true /\
                       rounds_to64 1 false 24703282292062327 (-340) = false /\
                       rounds_to64 1 false 24703282292062328 (-340) = true /\
                       rounds_to64 0 false 24703282292062328 (-340) = false.
Proof. vm_compute. auto. Qed.
(* DBL_MAX and the overflow threshold 1.797693134862315807937e308 *)
Example ex_max : rounds_to64 9218868437227405311 false 17976931348623157 292 = true /\
                 rounds_to64 9218868437227405311 false 17976931348623158 292 = true /\
                 rounds_to_inf64 17976931348623158 292 = false /\
                 rounds_to_inf64 17976931348623159 292 = true /\
                 rounds_to64 9218868437227405311 false 17976931348623159 292 = false.
Proof. vm_compute. auto. Qed.
Example ex_zero_sign : rounds_to64 9223372036854775808 true 0 0 = true /\ rounds_to64 0 true 0 0 = false /\
                       rounds_to64 0 false 0 0 = true /\ rounds_to64 9218868437227405312 false 1 400 = false.
Proof. vm_compute. auto. Qed.
(* FLT_MAX = 3.40282347e38; threshold 3.4028235677973366e38 *)
Example ex_max32 : rounds_to32 2139095039 false 340282347 30 = true /\
                   rounds_to_inf32 34028235677973366 22 = false /\ rounds_to_inf32 34028235677973367 22 = true.
Proof. vm_compute. auto. Qed.
