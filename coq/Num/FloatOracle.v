(* C19, floating point part: an exact-rational oracle for "decimal text rounds to this IEEE-754 bit pattern".
   Pure Z arithmetic, no floating point anywhere. The Grisu3 printer / parser of the sources is NOT modelled;
   the check (checks/c19.py) uses the extracted [rounds_to] to judge what the C code printed and parsed
   (testing with a verified oracle, not a proof about Grisu3). *)
From Flatcc.Common Require Export Wrap.
Local Open Scope Z_scope.

(* an IEEE-754 binary interchange format: precision p (with the hidden bit) and exponent field width *)
Record fmt := { prec : Z; ebits : Z }.
Definition binary32 : fmt := {| prec := 24; ebits := 8 |}.
Definition binary64 : fmt := {| prec := 53; ebits := 11 |}.

Definition bias (f : fmt) : Z := 2 ^ (ebits f - 1) - 1.
Definition fbits (f : fmt) : Z := prec f - 1.                 (* stored fraction bits *)
Definition width (f : fmt) : Z := fbits f + ebits f + 1.

(* fields of a bit pattern *)
Definition f_sign (f : fmt) (b : Z) : bool := (b / 2 ^ (fbits f + ebits f)) mod 2 =? 1.
Definition f_bexp (f : fmt) (b : Z) : Z := (b / 2 ^ fbits f) mod 2 ^ ebits f.
Definition f_frac (f : fmt) (b : Z) : Z := b mod 2 ^ fbits f.

(* finite value as  (-1)^neg * M * 2^E ; None for infinities and NaNs *)
Definition decode (f : fmt) (b : Z) : option (bool * Z * Z) :=
  let be := f_bexp f b in
  if be =? 2 ^ ebits f - 1 then None
  else if be =? 0 then Some (f_sign f b, f_frac f b, 1 - bias f - fbits f)
  else Some (f_sign f b, 2 ^ fbits f + f_frac f b, be - bias f - fbits f).

(* the gap to the next smaller magnitude is half the gap above: M is the least significand of a binade that
   is not the lowest normal one *)
Definition lower_is_closer (f : fmt) (b : Z) : bool := (f_frac f b =? 0) && (2 <=? f_bexp f b).

(* |text| = m * 10^e  compared with the rounding interval of  M * 2^E, in units of 2^(E-2):
     value 4M, upper boundary 4M + 2, lower boundary 4M - 2 (4M - 1 when the lower neighbour is closer).
   a / c is |text| in those units, with a, c integers, c > 0. *)
Definition scaled_text (m e E : Z) : Z * Z :=
  let ep := Z.max e 0 in let en := Z.max (- e) 0 in
  let sp := Z.max (2 - E) 0 in let sn := Z.max (E - 2) 0 in
  (Z.shiftl (m * 5 ^ ep) (ep + sp), Z.shiftl (5 ^ en) (en + sn)).

Definition in_round_interval (M : Z) (closer : bool) (a c : Z) : bool :=
  let lo := (4 * M - (if closer then 1 else 2)) * c in
  let hi := (4 * M + 2) * c in
  ((lo <? a) && (a <? hi)) || (((a =? lo) || (a =? hi)) && Z.even M).

(* the decimal  (-1)^neg * m * 10^e  (m >= 0) rounds, to nearest with ties to even, to the finite bit pattern b.
   For the largest finite value the upper boundary is the IEEE overflow threshold (the tie goes to infinity
   because the largest significand is odd); for zero the interval is [0, half the least subnormal]. *)
Definition rounds_to (f : fmt) (b : Z) (neg : bool) (m e : Z) : bool :=
  match decode f b with
  | None => false
  | Some (fneg, M, E) =>
      Bool.eqb fneg neg && (0 <=? m) &&
      (let '(a, c) := scaled_text m e E in in_round_interval M (lower_is_closer f b) a c)
  end.

(* the decimal is at or above the overflow threshold: round-to-nearest gives an infinity *)
Definition max_finite (f : fmt) : Z := (2 ^ ebits f - 1) * 2 ^ fbits f - 1.   (* positive sign *)
Definition rounds_to_inf (f : fmt) (m e : Z) : bool :=
  match decode f (max_finite f) with
  | None => false
  | Some (_, M, E) => let '(a, c) := scaled_text m e E in (4 * M + 2) * c <=? a
  end.

Definition rounds_to32 := rounds_to binary32.
Definition rounds_to64 := rounds_to binary64.
Definition rounds_to_inf32 := rounds_to_inf binary32.
Definition rounds_to_inf64 := rounds_to_inf binary64.

