(* C19: lemmas about Num/NumModel.v *)
From Flatcc.Num Require Import NumModel.
From Coq Require Import ZifyBool.
Local Open Scope Z_scope.
Ltac Zify.zify_post_hook ::= Z.div_mod_to_equations.

(* ================================================================== digits and their value *)

Definition digitc (c : Z) : Prop := 48 <= c <= 57.

Lemma is_digit_true c : is_digit c = true <-> digitc c.
Proof. unfold is_digit, digitc. lia. Qed.
Lemma is_digit_false c : is_digit c = false <-> ~ digitc c.
Proof. unfold is_digit, digitc. lia. Qed.

Lemma dval_from_app x l1 l2 : dval_from x (l1 ++ l2) = dval_from (dval_from x l1) l2.
Proof. unfold dval_from. apply fold_left_app. Qed.

Lemma dval_from_cons x c t : dval_from x (c :: t) = dval_from (x * 10 + (c - 48)) t.
Proof. reflexivity. Qed.

Lemma pow10_pos k : 0 <= k -> 0 < 10 ^ k.
Proof. intros. apply Z.pow_pos_nonneg; lia. Qed.

Lemma pow10_S (n : nat) : 10 ^ Z.of_nat (S n) = 10 * 10 ^ Z.of_nat n.
Proof. rewrite Nat2Z.inj_succ, Z.pow_succ_r by lia. reflexivity. Qed.

Lemma dval_from_pow l : forall x, dval_from x l = x * 10 ^ Z.of_nat (length l) + dval l.
Proof.
  induction l as [|c t IH]; intros x.
  - unfold dval. cbn [dval_from fold_left length Z.of_nat]. rewrite Z.pow_0_r. lia.
  - unfold dval. rewrite !dval_from_cons. rewrite (IH (x * 10 + (c - 48))), (IH (0 * 10 + (c - 48))).
    cbn [length]. rewrite pow10_S. ring.
Qed.

Lemma dval_cons c t : dval (c :: t) = (c - 48) * 10 ^ Z.of_nat (length t) + dval t.
Proof. unfold dval at 1. rewrite dval_from_cons, dval_from_pow. ring. Qed.

Lemma dval_app l1 l2 : dval (l1 ++ l2) = dval l1 * 10 ^ Z.of_nat (length l2) + dval l2.
Proof. unfold dval at 1. rewrite dval_from_app, dval_from_pow. reflexivity. Qed.

Lemma dval_single c : dval [c] = c - 48.
Proof. unfold dval, dval_from. cbn [fold_left]. lia. Qed.
Lemma dval_nil : dval [] = 0.
Proof. reflexivity. Qed.

Lemma dval_bounds l : Forall digitc l -> 0 <= dval l < 10 ^ Z.of_nat (length l).
Proof.
  induction 1 as [|c t Hc Ht IH].
  - rewrite dval_nil. cbn. lia.
  - rewrite dval_cons. cbn [length]. rewrite pow10_S.
    pose proof (pow10_pos (Z.of_nat (length t)) ltac:(lia)). unfold digitc in Hc. nia.
Qed.

Lemma dval_from_ge l x : Forall digitc l -> 0 <= x -> x <= dval_from x l.
Proof.
  intros Hl Hx. rewrite dval_from_pow. pose proof (dval_bounds l Hl).
  pose proof (pow10_pos (Z.of_nat (length l)) ltac:(lia)). nia.
Qed.

(* equal length digit strings with equal value are equal *)
Lemma dval_inj l : forall l', Forall digitc l -> Forall digitc l' -> length l = length l' ->
  dval l = dval l' -> l = l'.
Proof.
  induction l as [|c t IH]; intros [|c' t'] Hl Hl' Hlen Hv; try discriminate; [reflexivity|].
  inversion Hl as [|? ? Hc Ht]; inversion Hl' as [|? ? Hc' Ht']; subst.
  cbn [length] in Hlen. injection Hlen as Hlen.
  rewrite !dval_cons, <- Hlen in Hv.
  pose proof (dval_bounds t Ht). pose proof (dval_bounds t' Ht') as B'. rewrite <- Hlen in B'.
  assert (c - 48 = c' - 48 /\ dval t = dval t') as [E1 E2].
  { set (P := 10 ^ Z.of_nat (length t)) in *.
    assert (0 < P) by (apply pow10_pos; lia).
    assert (c - 48 = c' - 48) by nia. split; [assumption|]. nia. }
  f_equal; [lia|]. apply IH; assumption.
Qed.

(* canonical decimal text of n *)
Definition canon (n : Z) (l : list Z) : Prop :=
  Forall digitc l /\ dval l = n /\ (l = [48] \/ exists d t, l = d :: t /\ d <> 48).

Lemma canon_lower d t : Forall digitc (d :: t) -> d <> 48 -> 10 ^ Z.of_nat (length t) <= dval (d :: t).
Proof.
  intros Hl Hd. inversion Hl as [|? ? Hc Ht]; subst. rewrite dval_cons.
  pose proof (dval_bounds t Ht). pose proof (pow10_pos (Z.of_nat (length t)) ltac:(lia)).
  unfold digitc in Hc. nia.
Qed.

Lemma canon_length_le n l l' : canon n l -> canon n l' -> (length l <= length l')%nat.
Proof.
  intros (Hl & Hv & Hc) (Hl' & Hv' & Hc').
  destruct Hc as [->|(d & t & -> & Hd)].
  - destruct Hc' as [->|(d' & t' & -> & Hd')]; cbn; lia.
  - pose proof (canon_lower d t Hl Hd) as Lo. rewrite Hv in Lo.
    pose proof (dval_bounds l' Hl') as Up. rewrite Hv' in Up.
    destruct (Nat.le_gt_cases (length (d :: t)) (length l')) as [|G]; [assumption|exfalso].
    cbn [length] in G.
    assert (10 ^ Z.of_nat (length l') <= 10 ^ Z.of_nat (length t)) by (apply Z.pow_le_mono_r; lia).
    lia.
Qed.

Lemma canon_unique n l l' : canon n l -> canon n l' -> l = l'.
Proof.
  intros C C'. pose proof (canon_length_le _ _ _ C C'). pose proof (canon_length_le _ _ _ C' C).
  destruct C as (Hl & Hv & _), C' as (Hl' & Hv' & _).
  apply dval_inj; try assumption; lia.
Qed.

Lemma Forall_digitc_app l1 l2 : Forall digitc l1 -> Forall digitc l2 -> Forall digitc (l1 ++ l2).
Proof. intros. apply Forall_app; split; assumption. Qed.

Lemma decimal_fuel_spec f : forall n acc, 0 <= n < 2 ^ Z.of_nat f -> f <> O ->
  exists ds, decimal_fuel f n acc = ds ++ acc /\ canon n ds.
Proof.
  induction f as [|f IH]; intros n acc Hn Hf; [congruence|].
  cbn [decimal_fuel]. destruct (n <? 10) eqn:E.
  - exists [48 + n mod 10]. split; [reflexivity|].
    assert (n mod 10 = n) as -> by (apply Z.mod_small; lia).
    split; [|split].
    + constructor; [unfold digitc; lia|constructor].
    + rewrite dval_single. lia.
    + destruct (Z.eq_dec n 0) as [->|]; [left; reflexivity|right]. exists (48 + n), []. split; [reflexivity|lia].
  - rewrite Nat2Z.inj_succ, Z.pow_succ_r in Hn by lia.
    assert (f <> O) as Hf'. { intros ->. cbn in Hn. lia. }
    destruct (IH (n / 10) ((48 + n mod 10) :: acc) ltac:(lia) Hf') as (ds & Hds & (Hl & Hv & Hc)).
    exists (ds ++ [48 + n mod 10]). split; [rewrite Hds, <- app_assoc; reflexivity|].
    split; [|split].
    + apply Forall_digitc_app; [assumption|]. constructor; [unfold digitc; lia|constructor].
    + rewrite dval_app, Hv, dval_single. cbn [length Z.of_nat]. change (10 ^ Z.pos (Pos.of_succ_nat 0)) with 10. lia.
    + right. destruct Hc as [->|(d & t & -> & Hd)].
      * rewrite dval_single in Hv. lia.
      * exists d, (t ++ [48 + n mod 10]). split; [reflexivity|assumption].
Qed.

Lemma decimal_canon n : 0 <= n -> canon n (decimal n).
Proof.
  intros Hn. unfold decimal.
  destruct (decimal_fuel_spec (S (Z.to_nat (Z.log2 n))) n []) as (ds & Hds & C); [|congruence|].
  - rewrite Nat2Z.inj_succ, Z2Nat.id by apply Z.log2_nonneg.
    destruct (Z.eq_dec n 0) as [->|]; [cbn; lia|].
    pose proof (Z.log2_spec n ltac:(lia)). lia.
  - rewrite Hds, app_nil_r. exact C.
Qed.

Lemma decimal_digits n : 0 <= n -> Forall digitc (decimal n).
Proof. intros H. apply (decimal_canon n H). Qed.
Lemma decimal_dval n : 0 <= n -> dval (decimal n) = n.
Proof. intros H. apply (decimal_canon n H). Qed.
Lemma decimal_nonempty n : 0 <= n -> decimal n <> [].
Proof. intros H. destruct (decimal_canon n H) as (_ & _ & [->|(d & t & -> & _)]); discriminate. Qed.

(* ================================================================== printer *)

Fixpoint zseq (start : Z) (n : nat) : list Z :=
  match n with O => [] | S k => start :: zseq (start + 1) k end.
Lemma zseq_In n : forall s i, s <= i < s + Z.of_nat n -> In i (zseq s n).
Proof.
  induction n as [|n IH]; intros s i H; [lia|]. cbn [zseq].
  destruct (Z.eq_dec s i); [left; assumption|right]. apply IH. lia.
Qed.

Lemma digit_pairs_spec i : 0 <= i < 100 ->
  nthZ digit_pairs (Z.to_nat (i * 2)) = 48 + i / 10 /\
  nthZ digit_pairs (Z.to_nat (i * 2 + 1)) = 48 + i mod 10.
Proof.
  intros H.
  assert (forallb (fun i => (nthZ digit_pairs (Z.to_nat (i * 2)) =? 48 + i / 10) &&
                            (nthZ digit_pairs (Z.to_nat (i * 2 + 1)) =? 48 + i mod 10)) (zseq 0 100) = true) as A
    by (vm_compute; reflexivity).
  rewrite forallb_forall in A. specialize (A i (zseq_In 100 0 i ltac:(lia))).
  apply andb_true_iff in A. destruct A as [A1 A2]. apply Z.eqb_eq in A1, A2. split; assumption.
Qed.

(* invariant: ds are the L digits written so far (followed by the NUL) and n = m * 10^L + value ds *)
Definition PInv (n : Z) (L : nat) (s : pstate) : Prop :=
  0 <= fst s /\ exists ds, snd s = ds ++ [0] /\ Forall digitc ds /\ length ds = L /\
     n = fst s * 10 ^ Z.of_nat L + dval ds.

(* all L digits are there *)
Definition PFin (n : Z) (L : nat) (acc : list Z) : Prop :=
  exists ds, acc = ds ++ [0] /\ Forall digitc ds /\ length ds = L /\ dval ds = n.

Lemma pstart_inv n : 0 <= n -> PInv n 0 (pstart n).
Proof.
  intros H. split; [exact H|]. exists []. cbn [pstart fst snd app length]. repeat split; try constructor.
  rewrite dval_nil. cbn [Z.of_nat]. rewrite Z.pow_0_r. lia.
Qed.

Lemma stage_inv n L s : PInv n L s -> PInv n (S (S L)) (stage s).
Proof.
  destruct s as [m acc]. intros (Hm & ds & Hacc & Hds & Hlen & Hn). cbn [fst snd] in *.
  unfold stage. destruct (digit_pairs_spec (m mod 100) ltac:(lia)) as [E1 E2].
  rewrite E1, E2. cbn [fst snd]. split; [apply Z.div_pos; lia|].
  exists ((48 + m mod 100 / 10) :: (48 + (m mod 100) mod 10) :: ds).
  split; [rewrite Hacc; reflexivity|]. split; [|split].
  - constructor; [unfold digitc; lia|]. constructor; [unfold digitc; lia|assumption].
  - cbn [length]. congruence.
  - rewrite !dval_cons. cbn [length]. rewrite Hlen. rewrite !pow10_S.
    set (P := 10 ^ Z.of_nat L) in *. rewrite Hn.
    assert (m = 100 * (m / 100) + 10 * (m mod 100 / 10) + (m mod 100) mod 10) as Hm' by lia.
    set (a := m / 100) in *. set (b := m mod 100 / 10) in *. set (c := (m mod 100) mod 10) in *.
    clearbody a b c. rewrite Hm'. cbn [fst]. ring.
Qed.

Lemma long_stage_inv n L s : PInv n L s -> PInv n (S (S (S (S L)))) (long_stage s).
Proof. intros H. unfold long_stage. apply stage_inv, stage_inv, H. Qed.

Lemma short_stage_inv n L s : PInv n L s -> PInv n (S L) (short_stage s).
Proof.
  destruct s as [m acc]. intros (Hm & ds & Hacc & Hds & Hlen & Hn). cbn [fst snd] in *.
  unfold short_stage. cbn [fst snd]. split; [apply Z.div_pos; lia|].
  assert (u8 (m mod 10 + 48) = 48 + m mod 10) as -> by (unfold u8; lia).
  exists ((48 + m mod 10) :: ds). split; [rewrite Hacc; reflexivity|]. split; [|split].
  - constructor; [unfold digitc; lia|assumption].
  - cbn [length]. congruence.
  - rewrite dval_cons. rewrite Hlen, pow10_S. set (P := 10 ^ Z.of_nat L) in *. rewrite Hn.
    assert (m = 10 * (m / 10) + m mod 10) as Hm' by lia.
    set (a := m / 10) in *. set (b := m mod 10) in *. clearbody a b. rewrite Hm'. cbn [fst]. ring.
Qed.

Lemma inv_fin n L s : PInv n L s -> n < 10 ^ Z.of_nat L -> PFin n L (snd s).
Proof.
  destruct s as [m acc]. intros (Hm & ds & Hacc & Hds & Hlen & Hn) Hlt. cbn [fst snd] in *.
  exists ds. repeat split; try assumption.
  pose proof (dval_bounds ds Hds). pose proof (pow10_pos (Z.of_nat L) ltac:(lia)).
  assert (m = 0) by nia. subst m. lia.
Qed.

Lemma last_digit_fin n L s : PInv n L s -> n < 10 ^ Z.of_nat (S L) -> PFin n (S L) (snd (last_digit s)).
Proof.
  destruct s as [m acc]. intros (Hm & ds & Hacc & Hds & Hlen & Hn) Hlt. cbn [fst snd] in *.
  rewrite pow10_S in Hlt.
  pose proof (dval_bounds ds Hds) as B. rewrite Hlen in B. pose proof (pow10_pos (Z.of_nat L) ltac:(lia)).
  assert (m < 10) by nia.
  unfold last_digit. cbn [snd].
  assert (u8 (m + 48) = 48 + m) as -> by (unfold u8; lia).
  exists ((48 + m) :: ds). split; [rewrite Hacc; reflexivity|]. split; [|split].
  - constructor; [unfold digitc; lia|assumption].
  - cbn [length]. congruence.
  - rewrite dval_cons, Hlen. lia.
Qed.

Lemma fin_result n L acc k : 0 <= n -> PFin n L acc -> (L = 1%nat \/ 0 < 10 ^ (Z.of_nat L - 1) <= n) -> k = Z.of_nat L ->
  (k, acc) = (Z.of_nat (length (decimal n)), decimal n ++ [0]).
Proof.
  intros Hn (ds & -> & Hds & Hlen & Hv) Hlead ->.
  assert (canon n ds) as C.
  { split; [assumption|]. split; [assumption|].
    destruct ds as [|d t]; [cbn in Hlen; subst L; destruct Hlead as [?|Hl]; [discriminate|]; cbn [Z.of_nat] in Hl;
                            rewrite dval_nil in Hv; rewrite Z.pow_neg_r in Hl by lia; lia|].
    destruct (Z.eq_dec d 48) as [->|Hd]; [|right; exists d, t; split; [reflexivity|assumption]].
    cbn [length] in Hlen.
    destruct Hlead as [->|Hl].
    - left. destruct t; [reflexivity|discriminate].
    - exfalso. inversion Hds as [|? ? _ Ht]; subst. rewrite dval_cons in Hl.
      pose proof (dval_bounds t Ht). rewrite Nat2Z.inj_succ in Hl.
      replace (Z.succ (Z.of_nat (length t)) - 1) with (Z.of_nat (length t)) in Hl by lia. lia. }
  rewrite (canon_unique n ds (decimal n) C (decimal_canon n Hn)) in *. rewrite Hlen. reflexivity.
Qed.

(* concrete powers of ten appearing after the digit count is known *)
Ltac pow10_concrete :=
  repeat match goal with
  | |- context [10 ^ ?e] =>
      lazymatch e with
      | context [length] => fail
      | _ => let v := eval vm_compute in (10 ^ e) in change (10 ^ e) with v
      end
  end.

(* closes  pfinish k (f (... (pstart n))) = (len, decimal n ++ [0])  for the stage compositions *)
Ltac inv_chain :=
  lazymatch goal with
  | |- PInv _ _ (stage _) => apply stage_inv; inv_chain
  | |- PInv _ _ (long_stage _) => apply long_stage_inv; inv_chain
  | |- PInv _ _ (short_stage _) => apply short_stage_inv; inv_chain
  | |- PInv _ _ (pstart _) => apply pstart_inv; lia
  end.

Ltac fin_even L :=
  unfold pfinish; apply (fin_result _ L);
  [ lia
  | apply inv_fin; [inv_chain | pow10_concrete; lia]
  | first [left; reflexivity | right; pow10_concrete; lia]
  | reflexivity ].
Ltac fin_odd L :=
  unfold pfinish; apply (fin_result _ L);
  [ lia
  | apply last_digit_fin; [inv_chain | pow10_concrete; lia]
  | first [left; reflexivity | right; pow10_concrete; lia]
  | reflexivity ].

Definition print_spec (n : Z) : pres := (Z.of_nat (length (decimal n)), decimal n ++ [0]).

Lemma print_uint8_spec n : 0 <= n < 256 -> print_uint8 n = print_spec n.
Proof.
  intros H. unfold print_uint8, print_spec.
  destruct (100 <=? n) eqn:E1; [fin_odd 3%nat|].
  destruct (10 <=? n) eqn:E2; [fin_even 2%nat|].
  fin_odd 1%nat.
Qed.

Ltac switch_red :=
  repeat match goal with
  | |- context [Z.pos ?a + Z.pos ?b] =>
      let v := eval vm_compute in (Z.pos a + Z.pos b) in change (Z.pos a + Z.pos b) with v
  end;
  cbn [switch_ft orb Z.eqb Pos.eqb Z.odd].

Lemma print_uint16_spec n : 0 <= n < 65536 -> print_uint16 n = print_spec n.
Proof.
  intros H. unfold print_uint16, print_spec.
  destruct (1000 <=? n) eqn:E1.
  - destruct (10000 <=? n) eqn:E2; switch_red; [fin_odd 5%nat|fin_even 4%nat].
  - destruct (100 <=? n) eqn:E2; [switch_red; fin_odd 3%nat|].
    destruct (10 <=? n) eqn:E3; switch_red; [fin_even 2%nat|fin_odd 1%nat].
Qed.

Lemma print_uint32_spec n : 0 <= n < 4294967296 -> print_uint32 n = print_spec n.
Proof.
  intros H. unfold print_uint32, print_spec.
  destruct (10000 <=? n) eqn:E1.
  - destruct (10000000 <=? n) eqn:E2.
    + destruct (1000000000 <=? n) eqn:E3; [switch_red; fin_even 10%nat|].
      destruct (100000000 <=? n) eqn:E4; switch_red; [fin_odd 9%nat|fin_even 8%nat].
    + destruct (1000000 <=? n) eqn:E3; [switch_red; fin_odd 7%nat|].
      destruct (100000 <=? n) eqn:E4; switch_red; [fin_even 6%nat|fin_odd 5%nat].
  - destruct (100 <=? n) eqn:E2.
    + destruct (1000 <=? n) eqn:E3; switch_red; [fin_even 4%nat|fin_odd 3%nat].
    + destruct (10 <=? n) eqn:E3; switch_red; [fin_even 2%nat|fin_odd 1%nat].
Qed.

Lemma print_uint64_spec n : 0 <= n < 18446744073709551616 -> print_uint64 n = print_spec n.
Proof.
  intros H. unfold print_uint64. unfold X9.
  destruct (n <? 1000000000) eqn:E0.
  { rewrite u32_id by (unfold in_u32; lia). apply print_uint32_spec. lia. }
  unfold print_spec.
  destruct (10000 * 1000000000 <=? n) eqn:E1.
  - destruct (10000000 * 1000000000 <=? n) eqn:E2.
    + destruct (1000000000 * 1000000000 <=? n) eqn:E3.
      * destruct (10000000000 * 1000000000 <=? n) eqn:E4; switch_red; [fin_even 20%nat|fin_even 19%nat].
      * destruct (100000000 * 1000000000 <=? n) eqn:E4; switch_red; [fin_even 18%nat|fin_even 17%nat].
    + destruct (1000000 * 1000000000 <=? n) eqn:E3; [switch_red; fin_even 16%nat|].
      destruct (100000 * 1000000000 <=? n) eqn:E4; switch_red; [fin_even 15%nat|fin_even 14%nat].
  - destruct (100 * 1000000000 <=? n) eqn:E2.
    + destruct (1000 * 1000000000 <=? n) eqn:E3; switch_red; [fin_even 13%nat|fin_even 12%nat].
    + destruct (10 * 1000000000 <=? n) eqn:E3; switch_red; [fin_even 11%nat|fin_even 10%nat].
Qed.

(* ------------------------------------------------------------------ signed printing *)

Definition sprint_spec (n : Z) : pres := (Z.of_nat (length (sdecimal n)), sdecimal n ++ [0]).

Lemma print_signed_spec uN print_u (B : Z) n :
  (forall m, 0 <= m < 2 * B -> uN m = m) -> (forall m, 0 <= m < 2 * B -> print_u m = print_spec m) ->
  - B <= n < B -> print_signed uN print_u n = sprint_spec n.
Proof.
  intros HuN Hp Hn. unfold print_signed, sprint_spec, sdecimal.
  destruct (n <? 0) eqn:E.
  - rewrite HuN by lia. rewrite Hp by lia. unfold print_spec. cbn [length app]. f_equal. lia.
  - rewrite HuN by lia. rewrite Hp by lia. reflexivity.
Qed.

Lemma print_int8_spec n : -128 <= n < 128 -> print_int8 n = sprint_spec n.
Proof.
  intros H. apply (print_signed_spec u8 print_uint8 128); [| |exact H]; intros m Hm.
  - apply u8_id; unfold in_u8; lia.
  - apply print_uint8_spec; lia.
Qed.
Lemma print_int16_spec n : -32768 <= n < 32768 -> print_int16 n = sprint_spec n.
Proof.
  intros H. apply (print_signed_spec u16 print_uint16 32768); [| |exact H]; intros m Hm.
  - apply u16_id; unfold in_u16; lia.
  - apply print_uint16_spec; lia.
Qed.
Lemma print_int32_spec n : -2147483648 <= n < 2147483648 -> print_int32 n = sprint_spec n.
Proof.
  intros H. apply (print_signed_spec u32 print_uint32 2147483648); [| |exact H]; intros m Hm.
  - apply u32_id; unfold in_u32; lia.
  - apply print_uint32_spec; lia.
Qed.
Lemma print_int64_spec n : -9223372036854775808 <= n < 9223372036854775808 -> print_int64 n = sprint_spec n.
Proof.
  intros H. apply (print_signed_spec u64 print_uint64 9223372036854775808); [| |exact H]; intros m Hm.
  - apply u64_id; unfold in_u64; lia.
  - apply print_uint64_spec; lia.
Qed.

(* ================================================================== digit accumulation *)

Definition TWO64 : Z := 18446744073709551616.

Lemma ovf_fixed_spec x d : 0 <= x < TWO64 -> 0 <= d <= 9 ->
  ovf_fixed x d = (TWO64 <=? x * 10 + d).
Proof.
  intros Hx Hd. unfold ovf_fixed, U64_MAX, TWO64 in *.
  destruct (18446744073709551616 <=? x * 10 + d) eqn:E; lia.
Qed.

(* the text following the digits does not start with a digit *)
Definition nondigit_head (rest : list Z) : Prop :=
  match rest with [] => True | c :: _ => is_digit c = false end.

Lemma acc_loop_fixed ds : forall x nd rest, Forall digitc ds -> 0 <= x < TWO64 -> nondigit_head rest ->
  acc_loop ovf_fixed (ds ++ rest) x nd =
    if TWO64 <=? dval_from x ds then None
    else Some (dval_from x ds, nd + Z.of_nat (length ds), rest).
Proof.
  induction ds as [|c t IH]; intros x nd rest Hds Hx Hrest.
  - cbn [app dval_from fold_left length Z.of_nat]. rewrite Z.add_0_r.
    destruct (TWO64 <=? x) eqn:E; [lia|].
    destruct rest as [|c r]; [reflexivity|]. cbn [acc_loop]. cbn in Hrest. rewrite Hrest. reflexivity.
  - inversion Hds as [|? ? Hc Ht]; subst.
    cbn [app acc_loop]. rewrite (proj2 (is_digit_true c) Hc). cbv zeta.
    unfold digitc in Hc. rewrite ovf_fixed_spec by lia. rewrite dval_from_cons.
    destruct (TWO64 <=? x * 10 + (c - 48)) eqn:E.
    + pose proof (dval_from_ge t (x * 10 + (c - 48)) Ht ltac:(lia)).
      destruct (TWO64 <=? dval_from (x * 10 + (c - 48)) t) eqn:E2; [reflexivity|lia].
    + assert (u64 (x * 10 + (c - 48)) = x * 10 + (c - 48)) as -> by (apply u64_id; unfold in_u64, TWO64 in *; lia).
      rewrite IH by (try assumption; lia). cbn [length]. rewrite Nat2Z.inj_succ.
      replace (nd + 1 + Z.of_nat (length t)) with (nd + Z.succ (Z.of_nat (length t))) by lia. reflexivity.
Qed.

Lemma acc_loop_fixed0 ds rest : Forall digitc ds -> nondigit_head rest ->
  acc_loop ovf_fixed (ds ++ rest) 0 0 =
    if TWO64 <=? dval ds then None else Some (dval ds, Z.of_nat (length ds), rest).
Proof.
  intros. rewrite acc_loop_fixed by (try assumption; unfold TWO64; lia). reflexivity.
Qed.

(* ================================================================== parse_integer (pparseint.h) *)

Definition sign_text (neg : bool) : list Z := if neg then [45] else [].
Definition sign_len (neg : bool) : Z := if neg then 1 else 0.
Definition fp_head (rest : list Z) : bool := match rest with [] => false | c :: _ => is_fp_char c end.
Definition float_head (rest : list Z) : bool := match rest with [] => false | c :: _ => is_float_char c end.

Lemma length_pos_Z {A} (l : list A) : l <> [] -> (Z.of_nat (length l) =? 0) = false.
Proof. destruct l; [congruence|]. intros _. cbn [length]. lia. Qed.

Lemma signed_body_eq neg ds rest : ds <> [] -> Forall digitc ds ->
  exists c0 t0, sign_text neg ++ ds ++ rest = c0 :: t0 /\ (c0 =? 45) = neg /\
                (if neg then t0 else c0 :: t0) = ds ++ rest.
Proof.
  intros Hne Hds. destruct neg; cbn [sign_text app].
  - exists 45, (ds ++ rest). repeat split.
  - destruct ds as [|c t]; [congruence|]. inversion Hds as [|? ? Hc _]; subst. unfold digitc in Hc.
    exists c, (t ++ rest). repeat split. lia.
Qed.

Lemma parse_integer_spec neg ds rest : ds <> [] -> Forall digitc ds -> nondigit_head rest ->
  parse_integer (sign_text neg ++ ds ++ rest) =
    if TWO64 <=? dval ds then PRange neg
    else if fp_head rest then PInvalid
    else POk neg (dval ds) (Z.of_nat (length ds) + sign_len neg).
Proof.
  intros Hne Hds Hrest. destruct (signed_body_eq neg ds rest Hne Hds) as (c0 & t0 & -> & E45 & Hbody).
  unfold parse_integer, parse_integer_gen. rewrite E45, Hbody, acc_loop_fixed0 by assumption.
  destruct (TWO64 <=? dval ds); [reflexivity|].
  rewrite (length_pos_Z ds Hne). unfold fp_head, sign_len. destruct rest as [|c r]; reflexivity.
Qed.

(* ================================================================== flatcc_json_parser_integer *)

Lemma json_integer_spec neg ds rest : ds <> [] -> Forall digitc ds -> nondigit_head rest ->
  json_integer (sign_text neg ++ ds ++ rest) =
    if TWO64 <=? dval ds then JErr ErrRange
    else if float_head rest then JErr ErrFloatUnexpected
    else JOk neg (dval ds) (Z.of_nat (length ds) + sign_len neg).
Proof.
  intros Hne Hds Hrest. destruct (signed_body_eq neg ds rest Hne Hds) as (c0 & t0 & -> & E45 & Hbody).
  unfold json_integer, json_integer_gen. rewrite E45, Hbody, acc_loop_fixed0 by assumption.
  destruct (TWO64 <=? dval ds); [reflexivity|].
  rewrite (length_pos_Z ds Hne), andb_false_r. unfold float_head, sign_len. destruct rest as [|c r]; reflexivity.
Qed.

(* text that is not a number at all: no error, nothing consumed (the caller tries a symbolic constant) *)
Lemma json_integer_unmatched c rest : c <> 45 -> ~ digitc c -> json_integer (c :: rest) = JUnmatched.
Proof.
  intros H45 Hd. unfold json_integer, json_integer_gen.
  assert ((c =? 45) = false) as -> by lia. cbn [acc_loop]. rewrite (proj2 (is_digit_false c) Hd). reflexivity.
Qed.
Lemma json_integer_empty : json_integer [] = JUnmatched.
Proof. reflexivity. Qed.

(* a sign without digits is taken as (negative) zero: transcribed as found *)
Lemma json_integer_lone_minus rest : nondigit_head rest -> float_head rest = false ->
  json_integer (45 :: rest) = JOk true 0 1.
Proof.
  intros Hr Hf. unfold json_integer, json_integer_gen. cbn [Z.eqb Pos.eqb].
  destruct rest as [|c r]; [reflexivity|]. cbn in Hr, Hf. cbn [acc_loop]. rewrite Hr. cbn. rewrite Hf. reflexivity.
Qed.

(* the wrap test of the pinned sources lets 2^64 <= value through *)
Definition text_30e18 : list Z := [51;48;48;48;48;48;48;48;48;48;48;48;48;48;48;48;48;48;48;48].

Lemma json_integer_wrap_refuted :
  exists ds, Forall digitc ds /\ TWO64 <= dval ds /\
             json_integer_current ds = JOk false 11553255926290448384 20.
Proof.
  exists text_30e18. split; [|split].
  - unfold text_30e18, digitc. repeat constructor; lia.
  - vm_compute. discriminate.
  - vm_compute. reflexivity.
Qed.

Lemma parse_integer_wrap_refuted :
  exists ds, Forall digitc ds /\ TWO64 <= dval ds /\
             parse_integer_current ds = POk false 11553255926290448384 20.
Proof.
  exists text_30e18. split; [|split].
  - unfold text_30e18, digitc. repeat constructor; lia.
  - vm_compute. discriminate.
  - vm_compute. reflexivity.
Qed.

(* ================================================================== coercion to the field type *)

(* the value denoted by (sign, magnitude) *)
Definition sval (neg : bool) (mag : Z) : Z := if neg then - mag else mag.
Definition in_range (lo hi v : Z) : bool := (lo <=? v) && (v <=? hi).

Ltac if_split :=
  repeat match goal with
  | |- context [if ?b then _ else _] => destruct b eqn:?
  end.

Lemma coerce_int8_spec neg value : 0 <= value < TWO64 ->
  coerce_int8 neg value = if in_range (-128) 127 (sval neg value) then COk (sval neg value) else CErr neg.
Proof.
  intros H. unfold coerce_int8, coerce_signed, in_range, sval, TWO64 in *. change (u64 (127 + 1)) with 128.
  unfold s8, s64, u8, u64. cbv zeta. destruct neg; if_split; try lia; f_equal; lia.
Qed.
Lemma coerce_int16_spec neg value : 0 <= value < TWO64 ->
  coerce_int16 neg value = if in_range (-32768) 32767 (sval neg value) then COk (sval neg value) else CErr neg.
Proof.
  intros H. unfold coerce_int16, coerce_signed, in_range, sval, TWO64 in *. change (u64 (32767 + 1)) with 32768.
  unfold s16, s64, u16, u64. cbv zeta. destruct neg; if_split; try lia; f_equal; lia.
Qed.
Lemma coerce_int32_spec neg value : 0 <= value < TWO64 ->
  coerce_int32 neg value = if in_range (-2147483648) 2147483647 (sval neg value) then COk (sval neg value) else CErr neg.
Proof.
  intros H. unfold coerce_int32, coerce_signed, in_range, sval, TWO64 in *. change (u64 (2147483647 + 1)) with 2147483648.
  unfold s32, s64, u32, u64. cbv zeta. destruct neg; if_split; try lia; f_equal; lia.
Qed.
Lemma coerce_int64_spec neg value : 0 <= value < TWO64 ->
  coerce_int64 neg value =
    if in_range (-9223372036854775808) 9223372036854775807 (sval neg value) then COk (sval neg value) else CErr neg.
Proof.
  intros H. unfold coerce_int64, coerce_signed, in_range, sval, TWO64 in *.
  change (u64 (9223372036854775807 + 1)) with 9223372036854775808.
  unfold s64, u64. cbv zeta. destruct neg; if_split; try lia; f_equal; lia.
Qed.

(* unsigned targets: any sign is refused (also "-0"), magnitudes above MAX are refused *)
Lemma coerce_uint8_spec neg value : 0 <= value < TWO64 ->
  coerce_uint8 neg value = if neg then CErr true else if value <=? 255 then COk value else CErr false.
Proof.
  intros H. unfold coerce_uint8, coerce_unsigned, u8. destruct neg; if_split; try lia; f_equal; lia.
Qed.
Lemma coerce_uint16_spec neg value : 0 <= value < TWO64 ->
  coerce_uint16 neg value = if neg then CErr true else if value <=? 65535 then COk value else CErr false.
Proof.
  intros H. unfold coerce_uint16, coerce_unsigned, u16. destruct neg; if_split; try lia; f_equal; lia.
Qed.
Lemma coerce_uint32_spec neg value : 0 <= value < TWO64 ->
  coerce_uint32 neg value = if neg then CErr true else if value <=? 4294967295 then COk value else CErr false.
Proof.
  intros H. unfold coerce_uint32, coerce_unsigned, u32. destruct neg; if_split; try lia; f_equal; lia.
Qed.
Lemma coerce_uint64_spec neg value :
  coerce_uint64 neg value = if neg then CErr true else COk value.
Proof. reflexivity. Qed.

(* in the property's words: a coerce function yields a value only if that value is the denoted one and lies
   within the target type; everything outside the type is refused *)
Lemma coerce_signed_iff (coerce : bool -> Z -> cres) lo hi :
  (forall neg value, 0 <= value < TWO64 ->
     coerce neg value = if in_range lo hi (sval neg value) then COk (sval neg value) else CErr neg) ->
  forall neg value v, 0 <= value < TWO64 ->
    (coerce neg value = COk v <-> v = sval neg value /\ lo <= v <= hi).
Proof.
  intros Hc neg value v Hv. rewrite Hc by assumption. unfold in_range.
  destruct ((lo <=? sval neg value) && (sval neg value <=? hi)) eqn:E.
  - split; [intros [= <-]; lia|intros [-> _]; reflexivity].
  - split; [discriminate|intros [-> ?]; lia].
Qed.

(* ================================================================== typed parsers *)

(* outcome every signed typed JSON parser must have on  sign digits rest *)
Definition json_signed_outcome (lo hi : Z) (neg : bool) (ds rest : list Z) : jres :=
  if TWO64 <=? dval ds then JTErr ErrRange
  else if float_head rest then JTErr ErrFloatUnexpected
  else if in_range lo hi (sval neg (dval ds)) then JTOk (sval neg (dval ds)) (Z.of_nat (length ds) + sign_len neg)
  else JTErr ErrRange.

Definition json_unsigned_outcome (hi : Z) (neg : bool) (ds rest : list Z) : jres :=
  if TWO64 <=? dval ds then JTErr ErrRange
  else if float_head rest then JTErr ErrFloatUnexpected
  else if negb neg && (dval ds <=? hi) then JTOk (dval ds) (Z.of_nat (length ds))
  else JTErr ErrRange.

Lemma json_typed_signed coerce lo hi :
  (forall neg value, 0 <= value < TWO64 ->
     coerce neg value = if in_range lo hi (sval neg value) then COk (sval neg value) else CErr neg) ->
  forall neg ds rest, ds <> [] -> Forall digitc ds -> nondigit_head rest ->
  json_typed coerce (sign_text neg ++ ds ++ rest) = json_signed_outcome lo hi neg ds rest.
Proof.
  intros Hc neg ds rest Hne Hds Hrest. unfold json_typed, json_signed_outcome.
  rewrite json_integer_spec by assumption. pose proof (dval_bounds ds Hds) as B.
  destruct (TWO64 <=? dval ds) eqn:E; [reflexivity|].
  destruct (float_head rest); [reflexivity|].
  rewrite Hc by lia. destruct (in_range lo hi (sval neg (dval ds))); reflexivity.
Qed.

Lemma json_typed_unsigned (coerce : bool -> Z -> cres) hi :
  (forall (neg : bool) value, 0 <= value < TWO64 ->
     coerce neg value = if neg then CErr true else if value <=? hi then COk value else CErr false) ->
  forall neg ds rest, ds <> [] -> Forall digitc ds -> nondigit_head rest ->
  json_typed coerce (sign_text neg ++ ds ++ rest) = json_unsigned_outcome hi neg ds rest.
Proof.
  intros Hc neg ds rest Hne Hds Hrest. unfold json_typed, json_unsigned_outcome.
  rewrite json_integer_spec by assumption. pose proof (dval_bounds ds Hds) as B.
  destruct (TWO64 <=? dval ds) eqn:E; [reflexivity|].
  destruct (float_head rest); [reflexivity|].
  rewrite Hc by lia. destruct neg; cbn [negb andb sign_len]; [reflexivity|].
  rewrite Z.add_0_r. destruct (dval ds <=? hi); reflexivity.
Qed.

Lemma json_int8_spec neg ds rest : ds <> [] -> Forall digitc ds -> nondigit_head rest ->
  json_int8 (sign_text neg ++ ds ++ rest) = json_signed_outcome (-128) 127 neg ds rest.
Proof. apply json_typed_signed. exact coerce_int8_spec. Qed.
Lemma json_int16_spec neg ds rest : ds <> [] -> Forall digitc ds -> nondigit_head rest ->
  json_int16 (sign_text neg ++ ds ++ rest) = json_signed_outcome (-32768) 32767 neg ds rest.
Proof. apply json_typed_signed. exact coerce_int16_spec. Qed.
Lemma json_int32_spec neg ds rest : ds <> [] -> Forall digitc ds -> nondigit_head rest ->
  json_int32 (sign_text neg ++ ds ++ rest) = json_signed_outcome (-2147483648) 2147483647 neg ds rest.
Proof. apply json_typed_signed. exact coerce_int32_spec. Qed.
Lemma json_int64_spec neg ds rest : ds <> [] -> Forall digitc ds -> nondigit_head rest ->
  json_int64 (sign_text neg ++ ds ++ rest) =
    json_signed_outcome (-9223372036854775808) 9223372036854775807 neg ds rest.
Proof. apply json_typed_signed. exact coerce_int64_spec. Qed.
Lemma json_uint8_spec neg ds rest : ds <> [] -> Forall digitc ds -> nondigit_head rest ->
  json_uint8 (sign_text neg ++ ds ++ rest) = json_unsigned_outcome 255 neg ds rest.
Proof. apply json_typed_unsigned. exact coerce_uint8_spec. Qed.
Lemma json_uint16_spec neg ds rest : ds <> [] -> Forall digitc ds -> nondigit_head rest ->
  json_uint16 (sign_text neg ++ ds ++ rest) = json_unsigned_outcome 65535 neg ds rest.
Proof. apply json_typed_unsigned. exact coerce_uint16_spec. Qed.
Lemma json_uint32_spec neg ds rest : ds <> [] -> Forall digitc ds -> nondigit_head rest ->
  json_uint32 (sign_text neg ++ ds ++ rest) = json_unsigned_outcome 4294967295 neg ds rest.
Proof. apply json_typed_unsigned. exact coerce_uint32_spec. Qed.
Lemma json_uint64_spec neg ds rest : ds <> [] -> Forall digitc ds -> nondigit_head rest ->
  json_uint64 (sign_text neg ++ ds ++ rest) = json_unsigned_outcome 18446744073709551615 neg ds rest.
Proof.
  apply json_typed_unsigned. intros ng value H. unfold coerce_uint64, TWO64 in *.
  destruct ng; [reflexivity|]. destruct (value <=? 18446744073709551615) eqn:E; [reflexivity|lia].
Qed.

(* never a wrapped or truncated value: whenever a typed parser yields a value, it is the denoted one, in range *)
Lemma json_signed_outcome_sound lo hi neg ds rest v k :
  json_signed_outcome lo hi neg ds rest = JTOk v k -> v = sval neg (dval ds) /\ lo <= v <= hi /\ float_head rest = false.
Proof.
  unfold json_signed_outcome, in_range. destruct (TWO64 <=? dval ds); [discriminate|].
  destruct (float_head rest); [discriminate|].
  destruct ((lo <=? sval neg (dval ds)) && (sval neg (dval ds) <=? hi)) eqn:E; [|discriminate].
  intros [= <- _]. repeat split; lia.
Qed.
Lemma json_unsigned_outcome_sound hi neg ds rest v k :
  json_unsigned_outcome hi neg ds rest = JTOk v k -> neg = false /\ v = dval ds /\ v <= hi /\ float_head rest = false.
Proof.
  unfold json_unsigned_outcome. destruct (TWO64 <=? dval ds); [discriminate|].
  destruct (float_head rest); [discriminate|].
  destruct (negb neg && (dval ds <=? hi)) eqn:E; [|discriminate].
  intros [= <- _]. destruct neg; [discriminate|]. repeat split; lia.
Qed.

(* ------------------------------------------------------------------ pparseint.h typed parsers *)

Definition parse_signed_outcome (lo hi : Z) (neg : bool) (ds rest : list Z) : tres :=
  if TWO64 <=? dval ds then TRange neg
  else if fp_head rest then TInvalid
  else if in_range lo hi (sval neg (dval ds)) then TOk (sval neg (dval ds)) (Z.of_nat (length ds) + sign_len neg)
  else TRange neg.

Definition parse_unsigned_outcome (hi : Z) (neg : bool) (ds rest : list Z) : tres :=
  if TWO64 <=? dval ds then TRange neg
  else if fp_head rest then TInvalid
  else if neg then TRange true
  else if dval ds <=? hi then TOk (dval ds) (Z.of_nat (length ds)) else TRange false.

Lemma parse_signed_of_int8 neg x k : 0 <= x < TWO64 ->
  parse_signed_of 127 s8 (POk neg x k) = if in_range (-128) 127 (sval neg x) then TOk (sval neg x) k else TRange neg.
Proof.
  intros H. unfold parse_signed_of, in_range, sval, TWO64 in *. change (u64 (127 + 1)) with 128.
  unfold s8, s64, u8, u64. cbv zeta. destruct neg; if_split; try lia; f_equal; lia.
Qed.
Lemma parse_signed_of_int16 neg x k : 0 <= x < TWO64 ->
  parse_signed_of 32767 s16 (POk neg x k) = if in_range (-32768) 32767 (sval neg x) then TOk (sval neg x) k else TRange neg.
Proof.
  intros H. unfold parse_signed_of, in_range, sval, TWO64 in *. change (u64 (32767 + 1)) with 32768.
  unfold s16, s64, u16, u64. cbv zeta. destruct neg; if_split; try lia; f_equal; lia.
Qed.
Lemma parse_signed_of_int32 neg x k : 0 <= x < TWO64 ->
  parse_signed_of 2147483647 s32 (POk neg x k) =
    if in_range (-2147483648) 2147483647 (sval neg x) then TOk (sval neg x) k else TRange neg.
Proof.
  intros H. unfold parse_signed_of, in_range, sval, TWO64 in *. change (u64 (2147483647 + 1)) with 2147483648.
  unfold s32, s64, u32, u64. cbv zeta. destruct neg; if_split; try lia; f_equal; lia.
Qed.
Lemma parse_signed_of_int64 neg x k : 0 <= x < TWO64 ->
  parse_signed_of 9223372036854775807 s64 (POk neg x k) =
    if in_range (-9223372036854775808) 9223372036854775807 (sval neg x) then TOk (sval neg x) k else TRange neg.
Proof.
  intros H. unfold parse_signed_of, in_range, sval, TWO64 in *.
  change (u64 (9223372036854775807 + 1)) with 9223372036854775808.
  unfold s64, u64. cbv zeta. destruct neg; if_split; try lia; f_equal; lia.
Qed.

Lemma parse_typed_signed limit sN lo hi :
  (forall neg x k, 0 <= x < TWO64 ->
     parse_signed_of limit sN (POk neg x k) = if in_range lo hi (sval neg x) then TOk (sval neg x) k else TRange neg) ->
  forall neg ds rest, ds <> [] -> Forall digitc ds -> nondigit_head rest ->
  parse_signed_of limit sN (parse_integer (sign_text neg ++ ds ++ rest)) = parse_signed_outcome lo hi neg ds rest.
Proof.
  intros Hc neg ds rest Hne Hds Hrest. unfold parse_signed_outcome.
  rewrite parse_integer_spec by assumption. pose proof (dval_bounds ds Hds) as B.
  destruct (TWO64 <=? dval ds) eqn:E; [reflexivity|].
  destruct (fp_head rest); [reflexivity|]. apply Hc. lia.
Qed.

Lemma parse_typed_unsigned limit neg ds rest : ds <> [] -> Forall digitc ds -> nondigit_head rest ->
  parse_unsigned_of limit (parse_integer (sign_text neg ++ ds ++ rest)) = parse_unsigned_outcome limit neg ds rest.
Proof.
  intros Hne Hds Hrest. unfold parse_unsigned_outcome.
  rewrite parse_integer_spec by assumption.
  destruct (TWO64 <=? dval ds) eqn:E; [reflexivity|].
  destruct (fp_head rest); [reflexivity|]. unfold parse_unsigned_of.
  destruct neg; [reflexivity|]. cbn [sign_len]. rewrite Z.add_0_r. reflexivity.
Qed.

Lemma parse_int8_spec neg ds rest : ds <> [] -> Forall digitc ds -> nondigit_head rest ->
  parse_int8 (sign_text neg ++ ds ++ rest) = parse_signed_outcome (-128) 127 neg ds rest.
Proof. apply parse_typed_signed. exact parse_signed_of_int8. Qed.
Lemma parse_int16_spec neg ds rest : ds <> [] -> Forall digitc ds -> nondigit_head rest ->
  parse_int16 (sign_text neg ++ ds ++ rest) = parse_signed_outcome (-32768) 32767 neg ds rest.
Proof. apply parse_typed_signed. exact parse_signed_of_int16. Qed.
Lemma parse_int32_spec neg ds rest : ds <> [] -> Forall digitc ds -> nondigit_head rest ->
  parse_int32 (sign_text neg ++ ds ++ rest) = parse_signed_outcome (-2147483648) 2147483647 neg ds rest.
Proof. apply parse_typed_signed. exact parse_signed_of_int32. Qed.
Lemma parse_int64_spec neg ds rest : ds <> [] -> Forall digitc ds -> nondigit_head rest ->
  parse_int64 (sign_text neg ++ ds ++ rest) =
    parse_signed_outcome (-9223372036854775808) 9223372036854775807 neg ds rest.
Proof. apply parse_typed_signed. exact parse_signed_of_int64. Qed.
Lemma parse_uint8_spec neg ds rest : ds <> [] -> Forall digitc ds -> nondigit_head rest ->
  parse_uint8 (sign_text neg ++ ds ++ rest) = parse_unsigned_outcome 255 neg ds rest.
Proof. apply parse_typed_unsigned. Qed.
Lemma parse_uint16_spec neg ds rest : ds <> [] -> Forall digitc ds -> nondigit_head rest ->
  parse_uint16 (sign_text neg ++ ds ++ rest) = parse_unsigned_outcome 65535 neg ds rest.
Proof. apply parse_typed_unsigned. Qed.
Lemma parse_uint32_spec neg ds rest : ds <> [] -> Forall digitc ds -> nondigit_head rest ->
  parse_uint32 (sign_text neg ++ ds ++ rest) = parse_unsigned_outcome 4294967295 neg ds rest.
Proof. apply parse_typed_unsigned. Qed.
Lemma parse_uint64_spec neg ds rest : ds <> [] -> Forall digitc ds -> nondigit_head rest ->
  parse_uint64 (sign_text neg ++ ds ++ rest) = parse_unsigned_outcome 18446744073709551615 neg ds rest.
Proof.
  intros Hne Hds Hrest. unfold parse_uint64, parse_unsigned_outcome.
  rewrite parse_integer_spec by assumption.
  destruct (TWO64 <=? dval ds) eqn:E; [reflexivity|].
  destruct (fp_head rest); [reflexivity|]. unfold parse_uint64_of.
  destruct neg; [reflexivity|]. cbn [sign_len]. rewrite Z.add_0_r.
  destruct (dval ds <=? 18446744073709551615) eqn:E2; [reflexivity|unfold TWO64 in E; lia].
Qed.

(* ================================================================== print then parse *)

(* the characters a print function leaves at p (without the NUL) *)
Definition text_of (r : pres) : list Z := removelast (snd r).

Lemma text_of_print_spec n : text_of (print_spec n) = decimal n.
Proof. unfold text_of, print_spec. cbn [snd]. apply removelast_last. Qed.
Lemma text_of_sprint_spec n : text_of (sprint_spec n) = sdecimal n.
Proof. unfold text_of, sprint_spec. cbn [snd]. apply removelast_last. Qed.

(* general lemma: accumulating x * 10 + d over the canonical decimal of n gives n as long as n < 2^64 *)
Lemma parse_canonical n rest : 0 <= n < TWO64 -> nondigit_head rest ->
  acc_loop ovf_fixed (decimal n ++ rest) 0 0 = Some (n, Z.of_nat (length (decimal n)), rest).
Proof.
  intros Hn Hrest. rewrite acc_loop_fixed0 by (try assumption; apply decimal_digits; lia).
  rewrite decimal_dval by lia. destruct (TWO64 <=? n) eqn:E; [lia|reflexivity].
Qed.

Lemma sdecimal_split n : sdecimal n = sign_text (n <? 0) ++ decimal (Z.abs n).
Proof.
  unfold sdecimal, sign_text. destruct (n <? 0) eqn:E.
  - rewrite Z.abs_neq by lia. reflexivity.
  - rewrite Z.abs_eq by lia. reflexivity.
Qed.
Lemma sdecimal_length n : Z.of_nat (length (sdecimal n)) = Z.of_nat (length (decimal (Z.abs n))) + sign_len (n <? 0).
Proof.
  rewrite sdecimal_split. unfold sign_text, sign_len. destruct (n <? 0); cbn [app length]; lia.
Qed.
Lemma sval_abs n : sval (n <? 0) (Z.abs n) = n.
Proof. unfold sval. destruct (n <? 0) eqn:E; lia. Qed.

Lemma unsigned_outcome_roundtrip hi n rest : 0 <= n <= hi -> hi < TWO64 -> fp_head rest = false ->
  parse_unsigned_outcome hi false (decimal n) rest = TOk n (Z.of_nat (length (decimal n))).
Proof.
  intros Hn Hhi Hfp. unfold parse_unsigned_outcome. rewrite decimal_dval, Hfp by lia.
  destruct (TWO64 <=? n) eqn:E; [lia|]. destruct (n <=? hi) eqn:E2; [reflexivity|lia].
Qed.
Lemma signed_outcome_roundtrip lo hi n rest : lo <= n <= hi -> - TWO64 < lo -> hi < TWO64 -> fp_head rest = false ->
  parse_signed_outcome lo hi (n <? 0) (decimal (Z.abs n)) rest = TOk n (Z.of_nat (length (sdecimal n))).
Proof.
  intros Hn Hlo Hhi Hfp. unfold parse_signed_outcome. rewrite decimal_dval, Hfp, sval_abs, sdecimal_length by lia.
  destruct (TWO64 <=? Z.abs n) eqn:E; [lia|]. unfold in_range.
  destruct ((lo <=? n) && (n <=? hi)) eqn:E2; [reflexivity|lia].
Qed.
Lemma json_unsigned_outcome_roundtrip hi n rest : 0 <= n <= hi -> hi < TWO64 -> float_head rest = false ->
  json_unsigned_outcome hi false (decimal n) rest = JTOk n (Z.of_nat (length (decimal n))).
Proof.
  intros Hn Hhi Hfp. unfold json_unsigned_outcome. rewrite decimal_dval, Hfp by lia.
  destruct (TWO64 <=? n) eqn:E; [lia|]. cbn [negb andb]. destruct (n <=? hi) eqn:E2; [reflexivity|lia].
Qed.
Lemma json_signed_outcome_roundtrip lo hi n rest : lo <= n <= hi -> - TWO64 < lo -> hi < TWO64 -> float_head rest = false ->
  json_signed_outcome lo hi (n <? 0) (decimal (Z.abs n)) rest = JTOk n (Z.of_nat (length (sdecimal n))).
Proof.
  intros Hn Hlo Hhi Hfp. unfold json_signed_outcome. rewrite decimal_dval, Hfp, sval_abs, sdecimal_length by lia.
  destruct (TWO64 <=? Z.abs n) eqn:E; [lia|]. unfold in_range.
  destruct ((lo <=? n) && (n <=? hi)) eqn:E2; [reflexivity|lia].
Qed.

(* the text after a printed number, as far as the round trip is concerned *)
Definition after_int_ok (rest : list Z) : Prop := nondigit_head rest /\ fp_head rest = false.
Definition after_json_int_ok (rest : list Z) : Prop := nondigit_head rest /\ float_head rest = false.

Ltac rt_unsigned pspec parsespec outl :=
  intros Hn [Hnd Hfp]; rewrite pspec by lia; rewrite text_of_print_spec; unfold print_spec; cbn [fst];
  change (decimal ?n ++ ?r) with (sign_text false ++ decimal n ++ r);
  rewrite parsespec by (first [assumption | apply decimal_nonempty; lia | apply decimal_digits; lia]);
  apply outl; [lia | unfold TWO64; lia | assumption].

Lemma parse_print_uint8 n rest : 0 <= n < 256 -> after_int_ok rest ->
  parse_uint8 (text_of (print_uint8 n) ++ rest) = TOk n (fst (print_uint8 n)).
Proof. rt_unsigned print_uint8_spec parse_uint8_spec unsigned_outcome_roundtrip. Qed.
Lemma parse_print_uint16 n rest : 0 <= n < 65536 -> after_int_ok rest ->
  parse_uint16 (text_of (print_uint16 n) ++ rest) = TOk n (fst (print_uint16 n)).
Proof. rt_unsigned print_uint16_spec parse_uint16_spec unsigned_outcome_roundtrip. Qed.
Lemma parse_print_uint32 n rest : 0 <= n < 4294967296 -> after_int_ok rest ->
  parse_uint32 (text_of (print_uint32 n) ++ rest) = TOk n (fst (print_uint32 n)).
Proof. rt_unsigned print_uint32_spec parse_uint32_spec unsigned_outcome_roundtrip. Qed.
Lemma parse_print_uint64 n rest : 0 <= n < 18446744073709551616 -> after_int_ok rest ->
  parse_uint64 (text_of (print_uint64 n) ++ rest) = TOk n (fst (print_uint64 n)).
Proof. rt_unsigned print_uint64_spec parse_uint64_spec unsigned_outcome_roundtrip. Qed.

Lemma json_parse_print_uint8 n rest : 0 <= n < 256 -> after_json_int_ok rest ->
  json_uint8 (text_of (print_uint8 n) ++ rest) = JTOk n (fst (print_uint8 n)).
Proof. rt_unsigned print_uint8_spec json_uint8_spec json_unsigned_outcome_roundtrip. Qed.
Lemma json_parse_print_uint16 n rest : 0 <= n < 65536 -> after_json_int_ok rest ->
  json_uint16 (text_of (print_uint16 n) ++ rest) = JTOk n (fst (print_uint16 n)).
Proof. rt_unsigned print_uint16_spec json_uint16_spec json_unsigned_outcome_roundtrip. Qed.
Lemma json_parse_print_uint32 n rest : 0 <= n < 4294967296 -> after_json_int_ok rest ->
  json_uint32 (text_of (print_uint32 n) ++ rest) = JTOk n (fst (print_uint32 n)).
Proof. rt_unsigned print_uint32_spec json_uint32_spec json_unsigned_outcome_roundtrip. Qed.
Lemma json_parse_print_uint64 n rest : 0 <= n < 18446744073709551616 -> after_json_int_ok rest ->
  json_uint64 (text_of (print_uint64 n) ++ rest) = JTOk n (fst (print_uint64 n)).
Proof. rt_unsigned print_uint64_spec json_uint64_spec json_unsigned_outcome_roundtrip. Qed.

Ltac rt_signed pspec parsespec outl :=
  intros Hn [Hnd Hfp]; rewrite pspec by lia; rewrite text_of_sprint_spec; unfold sprint_spec; cbn [fst];
  rewrite sdecimal_split, <- app_assoc;
  rewrite parsespec by (first [assumption | apply decimal_nonempty; lia | apply decimal_digits; lia]);
  rewrite <- sdecimal_split;
  apply outl; [lia | unfold TWO64; lia | unfold TWO64; lia | assumption].

Lemma parse_print_int8 n rest : -128 <= n < 128 -> after_int_ok rest ->
  parse_int8 (text_of (print_int8 n) ++ rest) = TOk n (fst (print_int8 n)).
Proof. rt_signed print_int8_spec parse_int8_spec signed_outcome_roundtrip. Qed.
Lemma parse_print_int16 n rest : -32768 <= n < 32768 -> after_int_ok rest ->
  parse_int16 (text_of (print_int16 n) ++ rest) = TOk n (fst (print_int16 n)).
Proof. rt_signed print_int16_spec parse_int16_spec signed_outcome_roundtrip. Qed.
Lemma parse_print_int32 n rest : -2147483648 <= n < 2147483648 -> after_int_ok rest ->
  parse_int32 (text_of (print_int32 n) ++ rest) = TOk n (fst (print_int32 n)).
Proof. rt_signed print_int32_spec parse_int32_spec signed_outcome_roundtrip. Qed.
Lemma parse_print_int64 n rest : -9223372036854775808 <= n < 9223372036854775808 -> after_int_ok rest ->
  parse_int64 (text_of (print_int64 n) ++ rest) = TOk n (fst (print_int64 n)).
Proof. rt_signed print_int64_spec parse_int64_spec signed_outcome_roundtrip. Qed.

Lemma json_parse_print_int8 n rest : -128 <= n < 128 -> after_json_int_ok rest ->
  json_int8 (text_of (print_int8 n) ++ rest) = JTOk n (fst (print_int8 n)).
Proof. rt_signed print_int8_spec json_int8_spec json_signed_outcome_roundtrip. Qed.
Lemma json_parse_print_int16 n rest : -32768 <= n < 32768 -> after_json_int_ok rest ->
  json_int16 (text_of (print_int16 n) ++ rest) = JTOk n (fst (print_int16 n)).
Proof. rt_signed print_int16_spec json_int16_spec json_signed_outcome_roundtrip. Qed.
Lemma json_parse_print_int32 n rest : -2147483648 <= n < 2147483648 -> after_json_int_ok rest ->
  json_int32 (text_of (print_int32 n) ++ rest) = JTOk n (fst (print_int32 n)).
Proof. rt_signed print_int32_spec json_int32_spec json_signed_outcome_roundtrip. Qed.
Lemma json_parse_print_int64 n rest : -9223372036854775808 <= n < 9223372036854775808 -> after_json_int_ok rest ->
  json_int64 (text_of (print_int64 n) ++ rest) = JTOk n (fst (print_int64 n)).
Proof. rt_signed print_int64_spec json_int64_spec json_signed_outcome_roundtrip. Qed.

Lemma no_fraction_or_exponent neg ds rest v k :
  ds <> [] -> Forall digitc ds -> nondigit_head rest -> float_head rest = true ->
  json_integer (sign_text neg ++ ds ++ rest) <> JOk neg v k.
Proof.
  intros H1 H2 H3 H4. rewrite json_integer_spec, H4 by assumption.
  destruct (TWO64 <=? dval ds); discriminate.
Qed.
