-Q . Flatcc
-arg -w -arg -notation-overridden,-deprecated-hint-without-locality,-deprecated-instance-without-locality,-deprecated-syntactic-definition
Builder/Buffer.v
Builder/BuilderBasics.v
Builder/EmitModel.v
Builder/Leaves.v
Builder/Objects.v
Builder/OffVec.v
Builder/Table.v
Builder/TableLayout.v
Builder/VMem.v
Common/Bytes.v
Common/Wrap.v
Extract/Extract_builder.v
Format/Schema.v
Format/Spec.v
Format/SpecProofs.v
Generated/Consts.v
Properties/Properties_C02.v
Properties/Properties_C03.v
Properties/Properties_C15.v
