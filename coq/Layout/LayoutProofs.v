(* C07: proofs about the struct layout model. *)
From Flatcc.Layout Require Export LayoutSpec.
From Coq Require Import ZifyBool.
Local Open Scope Z_scope.
Ltac Zify.zify_post_hook ::= Z.div_mod_to_equations.

Lemma pow2_pos a : is_pow2 a -> 0 < a.
Proof. intros [k [Hk ->]]. apply Z.pow_pos_nonneg; lia. Qed.

(* ---------------------------------------------------------------- align_up *)
Lemma align_up_cases x a : 0 < a ->
  (x mod a = 0 /\ align_up x a = x) \/ (0 < x mod a /\ align_up x a = x - x mod a + a).
Proof.
  intros Ha. unfold align_up. pose proof (Z.mod_pos_bound x a Ha) as Hr.
  destruct (Z.eq_dec (x mod a) 0) as [E|E].
  - left. split; [exact E|]. rewrite E, Z.sub_0_r, Z.mod_same by lia. lia.
  - right. split; [lia|]. rewrite Z.mod_small by lia. lia.
Qed.

Lemma mod0_mul y a : 0 < a -> y mod a = 0 -> exists k, y = a * k.
Proof. intros Ha H. exists (y / a). rewrite (Z.div_mod y a) at 1 by lia. lia. Qed.

Lemma align_up_least x a : 0 < a -> least_aligned_ge x a (align_up x a).
Proof.
  intros Ha. pose proof (Z.mod_pos_bound x a Ha) as Hr.
  pose proof (Z.div_mod x a ltac:(lia)) as Hx.
  destruct (align_up_cases x a Ha) as [[E ->]|[E ->]].
  - split; [lia|]. split; [exact E|]. intros; lia.
  - split; [lia|]. split.
    + replace (x - x mod a + a) with (a * (x / a + 1)) by lia.
      rewrite Z.mul_comm. apply Z.mod_mul. lia.
    + intros y Hy Hm. destruct (mod0_mul y a Ha Hm) as [k ->].
      assert (x / a < k) by nia.
      assert (a * (x / a + 1) <= a * k) by (apply Z.mul_le_mono_nonneg_l; lia). lia.
Qed.

Lemma align_up_ge x a : 0 < a -> x <= align_up x a < x + a.
Proof.
  intros Ha. pose proof (Z.mod_pos_bound x a Ha).
  destruct (align_up_cases x a Ha) as [[E ->]|[E ->]]; lia.
Qed.

Lemma least_aligned_unique e a o o' : least_aligned_ge e a o -> least_aligned_ge e a o' -> o = o'.
Proof. intros (H1 & H2 & H3) (H1' & H2' & H3'). pose proof (H3 o' H1' H2'). pose proof (H3' o H1 H2). lia. Qed.

(* ---------------------------------------------------------------- fb_align *)
Lemma ldiff_pow2 x k : 0 <= k -> Z.ldiff x (2 ^ k - 1) = x / 2 ^ k * 2 ^ k.
Proof.
  intros Hk. replace (2 ^ k - 1) with (Z.ones k) by (rewrite Z.ones_equiv; lia).
  rewrite Z.ldiff_ones_r by lia. rewrite Z.shiftr_div_pow2, Z.shiftl_mul_pow2 by lia. reflexivity.
Qed.

Lemma fb_align_eq s a : is_pow2 a -> 0 <= s -> s + a - 1 < 2 ^ 64 -> fb_align s a = align_up s a.
Proof.
  intros Hp Hs Hb. pose proof (pow2_pos a Hp) as Ha. destruct Hp as [k [Hk ->]].
  unfold fb_align. rewrite ldiff_pow2 by lia.
  unfold u64. change 18446744073709551616 with (2 ^ 64). rewrite (Z.mod_small (s + 2 ^ k - 1)) by lia.
  set (a := 2 ^ k) in *. pose proof (Z.mod_pos_bound s a Ha) as Hr.
  pose proof (Z.div_mod s a ltac:(lia)) as Hx.
  destruct (align_up_cases s a Ha) as [[E ->]|[E ->]].
  - assert ((s + a - 1) / a = s / a) as ->; [|lia].
    symmetry. apply (Z.div_unique _ _ _ (a - 1)); lia.
  - assert ((s + a - 1) / a = s / a + 1) as ->; [|lia].
    symmetry. apply (Z.div_unique _ _ _ (s mod a - 1)); lia.
Qed.

Lemma fb_align_rounds_up s a : is_pow2 a -> 0 <= s -> s + a - 1 < 2 ^ 64 ->
  fb_align s a = align_up s a /\ least_aligned_ge s a (align_up s a).
Proof. intros Hp Hs Hb. split; [exact (fb_align_eq s a Hp Hs Hb)|exact (align_up_least s a (pow2_pos a Hp))]. Qed.

(* ---------------------------------------------------------------- is_valid_align *)
Lemma valid_align_loop_pow2 fuel : forall j a, 0 <= j -> a < 2 ^ 63 ->
  valid_align_loop fuel (2 ^ j) a = true -> is_pow2 a.
Proof.
  induction fuel as [|f IH]; intros j a Hj Ha; cbn [valid_align_loop]; [discriminate|].
  destruct (2 ^ j <=? a) eqn:E1; [|discriminate].
  destruct (2 ^ j =? a) eqn:E2.
  - intros _. exists j. split; [lia|]. lia.
  - assert (u64 (2 ^ j * 2) = 2 ^ (j + 1)) as ->.
    { rewrite Z.pow_add_r by lia. change (2 ^ 1) with 2. apply u64_id. unfold in_u64.
      pose proof (Z.pow_pos_nonneg 2 j ltac:(lia) Hj). change 18446744073709551616 with (2 * 2 ^ 63). lia. }
    apply IH; lia.
Qed.

Lemma valid_align_loop_complete fuel : forall j k, 0 <= j <= k -> (Z.of_nat fuel > k - j) ->  k < 63 ->
  valid_align_loop fuel (2 ^ j) (2 ^ k) = true.
Proof.
  induction fuel as [|f IH]; intros j k Hjk Hf Hk; [lia|]. cbn [valid_align_loop].
  assert (2 ^ j <= 2 ^ k) by (apply Z.pow_le_mono_r; lia).
  destruct (2 ^ j <=? 2 ^ k) eqn:E1; [|lia].
  destruct (2 ^ j =? 2 ^ k) eqn:E2; [reflexivity|].
  assert (j <> k) by (intros ->; lia).
  assert (u64 (2 ^ j * 2) = 2 ^ (j + 1)) as ->.
  { rewrite Z.pow_add_r by lia. change (2 ^ 1) with 2. apply u64_id. unfold in_u64.
    pose proof (Z.pow_pos_nonneg 2 j ltac:(lia) ltac:(lia)).
    assert (2 ^ k <= 2 ^ 62) by (apply Z.pow_le_mono_r; lia).
    change 18446744073709551616 with (4 * 2 ^ 62). lia. }
  apply IH; lia.
Qed.

Lemma is_valid_align_iff c a : force_align_max c < 2 ^ 29 ->
  (is_valid_align c a = true <-> is_pow2 a /\ a <= force_align_max c).
Proof.
  intros Hc. unfold is_valid_align. split.
  - destruct ((a =? 0) || (force_align_max c <? a)) eqn:E; [discriminate|]. intros H.
    split; [|lia]. apply (valid_align_loop_pow2 65 0 a); [lia| |exact H].
    assert (2 ^ 29 < 2 ^ 63) by (apply Z.pow_lt_mono_r; lia). lia.
  - intros [Hp Hle]. pose proof (pow2_pos a Hp). destruct ((a =? 0) || (force_align_max c <? a)) eqn:E; [lia|].
    destruct Hp as [k [Hk ->]].
    assert (k < 29). { destruct (Z_lt_ge_dec k 29); [assumption|]. assert (2 ^ 29 <= 2 ^ k) by (apply Z.pow_le_mono_r; lia). lia. }
    apply (valid_align_loop_complete 65 0 k); lia.
Qed.

(* ---------------------------------------------------------------- the member loop *)
Lemma wf_align_pos m : wf_member m -> 0 < m_align m.
Proof. intros [Hp _]. apply pow2_pos. exact Hp. Qed.

Lemma wf_msize m : wf_member m -> m_size m = msize m /\ 0 < msize m < 2 ^ 63.
Proof.
  intros (Hp & Hs & Hm & Hl). unfold m_size, msize.
  change (2 ^ 31) with 2147483648 in *. change (2 ^ 32) with 4294967296 in *. change (2 ^ 63) with 9223372036854775808.
  assert (0 < m_esize m * m_len m) by (apply Z.mul_pos_pos; lia).
  assert (m_esize m * m_len m < 2147483648 * 4294967296) by (apply Z.mul_lt_mono_nonneg; lia).
  split; [|lia]. apply u64_id. unfold in_u64. lia.
Qed.

Lemma wf_align_le_esize m : wf_member m -> m_align m <= m_esize m.
Proof.
  intros (Hp & Hs & Hm & Hl). pose proof (pow2_pos _ Hp) as Ha. unfold m_align.
  destruct (mod0_mul _ _ Ha Hm) as [k Hk]. destruct Hs as [Hs _]. rewrite Hk in *.
  assert (0 < k) by (apply (Z.mul_pos_cancel_l (m_ealign m) k); assumption).
  assert (m_ealign m * 1 <= m_ealign m * k) by (apply Z.mul_le_mono_nonneg_l; lia). lia.
Qed.

Lemma rule_offsets_mono ms : forall e, Forall wf_member ms -> e <= snd (rule_offsets ms e).
Proof.
  induction ms as [|m r IH]; intros e Hwf; cbn [rule_offsets]; [simpl; lia|].
  inversion Hwf as [|? ? Hm Hr]; subst.
  pose proof (align_up_ge e (m_align m) (wf_align_pos m Hm)).
  pose proof (wf_msize m Hm) as [_ ?].
  specialize (IH (align_up e (m_align m) + msize m) Hr).
  destruct (rule_offsets r (align_up e (m_align m) + msize m)) as [os e']. simpl in *. lia.
Qed.

Definition max_align (ms : list member) (a : Z) : Z := fold_left Z.max (map m_align ms) a.

Lemma max_align_natural ms : forall a, 1 <= a -> max_align ms a = Z.max a (natural_align ms).
Proof.
  unfold max_align, natural_align. induction ms as [|m r IH]; intros a Ha; simpl; [lia|].
  rewrite IH by lia. lia.
Qed.

Lemma place_eq c : cfg_ok c -> forall ms size align, Forall wf_member ms -> 0 <= size <= struct_max c ->
  place c ms size align =
    (let (os, e) := rule_offsets ms size in
     if e <=? struct_max c then Some (os, e, max_align ms align) else None).
Proof.
  intros [Hsm Hfm]. induction ms as [|m r IH]; intros size align Hwf Hsz.
  - cbn [place rule_offsets max_align map fold_left]. destruct (size <=? struct_max c) eqn:E; [reflexivity|lia].
  - inversion Hwf as [|? ? Hm Hr]; subst. cbn [place rule_offsets].
    pose proof (wf_align_pos m Hm) as Ha. pose proof (wf_msize m Hm) as [Hms Hmb].
    pose proof (wf_align_le_esize m Hm) as Hale. destruct Hm as (Hp & Hes & Hmod & Hl).
    assert (2 ^ 29 < 2 ^ 31) by (apply Z.pow_lt_mono_r; lia).
    assert (2 ^ 31 < 2 ^ 63) by (apply Z.pow_lt_mono_r; lia).
    assert (2 ^ 63 < 2 ^ 64) by (apply Z.pow_lt_mono_r; lia).
    rewrite (fb_align_eq size (m_align m)) by (try assumption; lia).
    pose proof (align_up_ge size (m_align m) Ha) as Hge.
    set (off := align_up size (m_align m)) in *.
    rewrite Hms.
    assert (u64 (off + msize m) = off + msize m) as ->.
    { apply u64_id. unfold in_u64. change 18446744073709551616 with (2 ^ 64). lia. }
    destruct ((off <? size) || (off + msize m <? off)) eqn:E1; [lia|].
    pose proof (rule_offsets_mono r (off + msize m) Hr) as Hmono.
    destruct ((off + msize m <? size) || (struct_max c <? off + msize m)) eqn:E2.
    + destruct (rule_offsets r (off + msize m)) as [os e']. simpl in Hmono.
      destruct (e' <=? struct_max c) eqn:E3; [lia|reflexivity].
    + rewrite IH by (try assumption; lia).
      destruct (rule_offsets r (off + msize m)) as [os e'].
      assert ((if align <? m_align m then m_align m else align) = Z.max align (m_align m)) as ->
        by (destruct (align <? m_align m) eqn:E4; lia).
      destruct (e' <=? struct_max c); reflexivity.
Qed.

(* the functional rule satisfies the relational rule *)
Lemma rule_offsets_placed ms : forall e, Forall wf_member ms ->
  placed e ms (fst (rule_offsets ms e)) (snd (rule_offsets ms e)).
Proof.
  induction ms as [|m r IH]; intros e Hwf; cbn [rule_offsets]; [constructor|].
  inversion Hwf as [|? ? Hm Hr]; subst. specialize (IH (align_up e (m_align m) + msize m) Hr).
  destruct (rule_offsets r (align_up e (m_align m) + msize m)) as [os e']. simpl in *.
  constructor; [|exact IH]. apply align_up_least. apply wf_align_pos; assumption.
Qed.

(* ... and the relational rule determines the result *)
Lemma placed_unique e ms os e' : placed e ms os e' -> forall os2 e2, placed e ms os2 e2 -> os = os2 /\ e' = e2.
Proof.
  induction 1 as [e|e m r o os e' Hl Hp IH]; intros os2 e2 H2.
  - inversion H2; subst. split; reflexivity.
  - inversion H2 as [|? ? ? o2 os2' ? Hl2 Hp2]; subst.
    assert (o = o2) by (eapply least_aligned_unique; eassumption). subst o2.
    destruct (IH _ _ Hp2) as [-> ->]. split; reflexivity.
Qed.

Lemma natural_align_max ms : Forall wf_member ms -> is_max_align ms (natural_align ms).
Proof.
  unfold natural_align, is_max_align. induction ms as [|m r IH]; intros Hwf; simpl.
  - split; [intros ? []|left; reflexivity].
  - inversion Hwf as [|? ? Hm Hr]; subst. destruct (IH Hr) as [H1 H2]. split.
    + intros x [<-|Hin]; [lia|]. specialize (H1 x Hin). lia.
    + destruct (Z_le_gt_dec (m_align m) (fold_right Z.max 1 (map m_align r))) as [L|G].
      * rewrite Z.max_r by lia. destruct H2 as [E|[x [Hx Ex]]]; [left; exact E|right; exists x; split; [right; exact Hx|exact Ex]].
      * rewrite Z.max_l by lia. right. exists m. split; [left; reflexivity|reflexivity].
Qed.

Lemma natural_align_pow2 ms : Forall wf_member ms -> is_pow2 (natural_align ms).
Proof.
  intros Hwf. destruct (natural_align_max ms Hwf) as [_ [E|[m [Hin E]]]].
  - rewrite E. exists 0. split; [lia|reflexivity].
  - rewrite <- E. rewrite Forall_forall in Hwf. destruct (Hwf m Hin) as [Hp _]. exact Hp.
Qed.

Lemma natural_align_ge1 ms : 1 <= natural_align ms.
Proof. unfold natural_align. induction ms; simpl; lia. Qed.

Lemma natural_align_le_end ms : Forall wf_member ms -> forall e, 0 <= e -> ms <> [] ->
  natural_align ms <= snd (rule_offsets ms e).
Proof.
  intros Hwf e He Hne. destruct (natural_align_max ms Hwf) as [_ [E|[m [Hin E]]]].
  - rewrite E. destruct ms as [|m r]; [congruence|]. inversion Hwf; subst.
    pose proof (rule_offsets_mono (m :: r) e Hwf). cbn [rule_offsets] in *.
    pose proof (align_up_ge e (m_align m) (wf_align_pos m H1)). pose proof (wf_msize m H1) as [_ ?].
    pose proof (rule_offsets_mono r (align_up e (m_align m) + msize m) H2).
    destruct (rule_offsets r (align_up e (m_align m) + msize m)). simpl in *. lia.
  - rewrite <- E. clear E Hne. revert e He. induction ms as [|x r IH]; intros e He; [destruct Hin|].
    inversion Hwf as [|? ? Hx Hr]; subst. cbn [rule_offsets].
    pose proof (align_up_ge e (m_align x) (wf_align_pos x Hx)). pose proof (wf_msize x Hx) as [_ ?].
    pose proof (rule_offsets_mono r (align_up e (m_align x) + msize x) Hr) as Hmono.
    destruct Hin as [->|Hin].
    + pose proof (wf_align_le_esize m Hx). destruct Hx as (_ & ? & _ & ?).
      assert (m_esize m <= msize m) by (unfold msize; nia).
      destruct (rule_offsets r (align_up e (m_align m) + msize m)). simpl in *. lia.
    + specialize (IH Hr Hin (align_up e (m_align x) + msize x) ltac:(lia)).
      destruct (rule_offsets r (align_up e (m_align x) + msize x)). simpl in *. lia.
Qed.

(* ---------------------------------------------------------------- whole struct *)
Lemma rule_end_pos ms : Forall wf_member ms -> ms <> [] -> 0 < snd (rule_offsets ms 0).
Proof.
  intros Hwf Hne. destruct ms as [|m r]; [congruence|]. inversion Hwf as [|? ? Hm Hr]; subst. cbn [rule_offsets].
  pose proof (align_up_ge 0 (m_align m) (wf_align_pos m Hm)). pose proof (wf_msize m Hm) as [_ ?].
  pose proof (rule_offsets_mono r (align_up 0 (m_align m) + msize m) Hr).
  destruct (rule_offsets r (align_up 0 (m_align m) + msize m)). simpl in *. lia.
Qed.

Lemma pow2_le_bound a b : a <= b -> b < 2 ^ 29 -> a + b < 2 ^ 64 /\ a < 2 ^ 30.
Proof.
  intros. assert (2 ^ 29 < 2 ^ 30) by (apply Z.pow_lt_mono_r; lia).
  assert (2 ^ 30 < 2 ^ 64) by (apply Z.pow_lt_mono_r; lia). lia.
Qed.

Theorem struct_layout_iff c force ms L : cfg_ok c -> Forall wf_member ms ->
  (struct_layout c force ms = Some L <-> rule_accepts c force ms /\ L = rule_layout force ms).
Proof.
  intros Hc Hwf. pose proof Hc as [Hsm Hfm]. unfold struct_layout, rule_accepts, rule_layout.
  rewrite (place_eq c Hc ms 0 1 Hwf) by lia.
  rewrite max_align_natural by lia. pose proof (natural_align_ge1 ms) as Hn1. rewrite Z.max_r by lia.
  pose proof (natural_align_pow2 ms Hwf) as Hnp.
  pose proof (rule_offsets_mono ms 0 Hwf) as Hmono.
  assert (Hempty : ms = [] -> rule_offsets ms 0 = ([], 0)) by (intros ->; reflexivity).
  pose proof (rule_end_pos ms Hwf) as Hpos.
  assert (Hnle : ms <> [] -> natural_align ms <= snd (rule_offsets ms 0)) by (intros; apply natural_align_le_end; [assumption|lia|assumption]).
  assert (Hnat1 : ms = [] -> natural_align ms = 1) by (intros ->; reflexivity).
  destruct (rule_offsets ms 0) as [os e] eqn:Ero. simpl in Hmono, Hpos, Hnle. cbn [snd].
  assert (H2963 : 2 ^ 29 < 2 ^ 63) by (apply Z.pow_lt_mono_r; lia).
  assert (H6364 : 2 ^ 63 < 2 ^ 64) by (apply Z.pow_lt_mono_r; lia).
  assert (Hfin : forall a, is_pow2 a -> a < 2 ^ 29 -> e <= struct_max c ->
            fb_align e a = align_up e a /\ e <= align_up e a /\ ((align_up e a =? 0) = true <-> ms = [])).
  { intros a Ha Hab He. pose proof (pow2_pos a Ha). pose proof (align_up_ge e a ltac:(lia)).
    split; [apply fb_align_eq; [assumption|lia|lia]|]. split; [lia|]. split.
    - intros Hz. destruct ms as [|m r]; [reflexivity|]. assert (0 < e) by (apply Hpos; discriminate). lia.
    - intros ->. specialize (Hempty eq_refl). inversion Hempty; subst. unfold align_up. rewrite Z.mod_0_l by lia. rewrite Z.sub_0_r, Z.mod_same by lia. reflexivity. }
  assert (Hnatb : e <= struct_max c -> natural_align ms < 2 ^ 29).
  { intros He. destruct ms as [|m r]; [rewrite (Hnat1 eq_refl); lia|]. specialize (Hnle ltac:(discriminate)). lia. }
  (* common tail: alignment a known to be a power of two below 2^29, e within the limit *)
  assert (Htail : forall a, is_pow2 a -> a < 2 ^ 29 -> e <= struct_max c ->
            ((if struct_max c <? fb_align e a then None
              else if fb_align e a =? 0 then None
              else Some {| l_offsets := os; l_size := fb_align e a; l_align := a |}) = Some L
             <-> (align_up e a <= struct_max c /\ ms <> []) /\ L = {| l_offsets := os; l_size := align_up e a; l_align := a |})).
  { intros a Ha Hab He. destruct (Hfin a Ha Hab He) as (-> & Hge & Hz).
    destruct (struct_max c <? align_up e a) eqn:E1; [split; [discriminate|intros [[? _] _]; lia]|].
    destruct (align_up e a =? 0) eqn:E2.
    - split; [discriminate|]. intros [[_ Hne] _]. exfalso. apply Hne. apply Hz. reflexivity.
    - split.
      + intros HL; some_inj HL; subst L. split; [|reflexivity]. split; [lia|]. intros ->. destruct Hz as [_ Hz]. specialize (Hz eq_refl). discriminate.
      + intros [_ ->]. reflexivity. }
  destruct force as [fa|]; cbn [rule_align].
  - destruct (is_valid_align c fa) eqn:Eva.
    + apply is_valid_align_iff in Eva; [|lia]. destruct Eva as [Hfp Hfle]. pose proof (pow2_pos fa Hfp) as Hfpos.
      destruct (e <=? struct_max c) eqn:Ee.
      * destruct ((0 <? fa) && (fa <? natural_align ms)) eqn:Enat.
        -- split; [discriminate|]. intros [[[_ [_ ?]] _] _]. lia.
        -- assert ((0 <? fa) = true) as -> by lia.
           rewrite (Htail fa Hfp ltac:(lia) ltac:(lia)). split.
           ++ intros [[H1 H2] ->]. split; [|reflexivity]. repeat split; try assumption; lia.
           ++ intros [[_ [H1 H2]] ->]. split; [split; assumption|reflexivity].
      * split; [discriminate|]. intros [[_ [H1 _]] _]. pose proof (align_up_ge e fa Hfpos). lia.
    + split; [discriminate|]. intros [[[Hp [Hle _]] _] _].
      assert (is_valid_align c fa = true) by (apply is_valid_align_iff; [lia|split; assumption]). congruence.
  - destruct (e <=? struct_max c) eqn:Ee.
    + assert ((0 <? 0) = false) as -> by reflexivity. cbn [andb].
      rewrite (Htail (natural_align ms) Hnp (Hnatb ltac:(lia)) ltac:(lia)). split.
      * intros [[H1 H2] ->]. split; [|reflexivity]. repeat split; assumption.
      * intros [[_ [H1 H2]] ->]. split; [split; assumption|reflexivity].
    + split; [discriminate|]. intros [[_ [H1 _]] _]. pose proof (align_up_ge e (natural_align ms) ltac:(lia)). lia.
Qed.

(* the layout the rule gives, in relational form: every offset is the least aligned one after the previous
   member (aligned, ordered, disjoint, minimal), the size is the least multiple of the alignment that covers
   the last member, the alignment is the maximum (or the forced value, not smaller than any member's) *)
Definition layout_rule (force : option Z) (ms : list member) (L : layout) : Prop :=
  exists e, placed 0 ms (l_offsets L) e /\ least_aligned_ge e (l_align L) (l_size L) /\
    match force with
    | None => is_max_align ms (l_align L)
    | Some fa => l_align L = fa /\ forall m, In m ms -> m_align m <= fa
    end.

Lemma rule_layout_rule c force ms : Forall wf_member ms -> rule_accepts c force ms ->
  layout_rule force ms (rule_layout force ms).
Proof.
  intros Hwf [Hf [He Hne]]. unfold layout_rule, rule_layout.
  pose proof (rule_offsets_placed ms 0 Hwf) as Hp.
  destruct (rule_offsets ms 0) as [os e]. simpl in *. exists e. split; [exact Hp|]. split.
  - apply align_up_least. destruct force as [fa|]; simpl.
    + destruct Hf as [Hp2 _]. apply pow2_pos; assumption.
    + pose proof (natural_align_ge1 ms). lia.
  - destruct force as [fa|]; simpl.
    + split; [reflexivity|]. intros m Hin. destruct Hf as (_ & _ & Hle).
      destruct (natural_align_max ms Hwf) as [Hmax _]. specialize (Hmax m Hin). lia.
    + apply natural_align_max. assumption.
Qed.

Theorem struct_layout_ok c force ms L : cfg_ok c -> Forall wf_member ms ->
  struct_layout c force ms = Some L -> layout_rule force ms L.
Proof.
  intros Hc Hwf H. apply (struct_layout_iff c force ms L Hc Hwf) in H. destruct H as [Ha ->].
  eapply rule_layout_rule; eassumption.
Qed.

(* the relational rule determines the layout: anything satisfying it is what the compiler computed *)
Theorem layout_rule_unique force ms L L' : layout_rule force ms L -> layout_rule force ms L' ->
  (force = None -> l_align L = l_align L') -> L = L'.
Proof.
  intros (e & Hp & Hs & Ha) (e' & Hp' & Hs' & Ha') Hal.
  destruct (placed_unique _ _ _ _ Hp _ _ Hp') as [Eo Ee]. subst e'.
  assert (l_align L = l_align L') as Eal.
  { destruct force as [fa|]; [destruct Ha as [-> _]; destruct Ha' as [-> _]; reflexivity|apply Hal; reflexivity]. }
  rewrite <- Eal in Hs'. pose proof (least_aligned_unique _ _ _ _ Hs Hs') as Es.
  destruct L, L'; simpl in *; subst; reflexivity.
Qed.

Lemma is_max_align_unique ms a b : is_max_align ms a -> is_max_align ms b -> 1 <= a -> 1 <= b -> a = b.
Proof.
  intros [Ha1 Ha2] [Hb1 Hb2] ? ?.
  destruct Ha2 as [->|[m [Hm <-]]]; destruct Hb2 as [->|[m' [Hm' <-]]]; try reflexivity.
  - specialize (Ha1 m' Hm'). lia.
  - specialize (Hb1 m Hm). lia.
  - specialize (Ha1 m' Hm'). specialize (Hb1 m Hm). lia.
Qed.

(* consequences of [placed] in index form *)
Lemma placed_length e ms os e' : placed e ms os e' -> length os = length ms.
Proof. induction 1; simpl; congruence. Qed.

Lemma placed_end_ge e ms os e' : placed e ms os e' -> Forall wf_member ms -> e <= e'.
Proof.
  induction 1 as [|e m r o os e' [Hl _] Hp IH]; intros Hwf; [lia|].
  inversion Hwf as [|? ? Hm Hr]; subst. pose proof (wf_msize m Hm) as [_ ?]. specialize (IH Hr). lia.
Qed.

Lemma placed_nth e ms os e' : placed e ms os e' -> Forall wf_member ms ->
  forall i m o, nth_error ms i = Some m -> nth_error os i = Some o ->
    e <= o /\ o mod m_align m = 0 /\ o + msize m <= e' /\
    (forall y, y mod m_align m = 0 -> (match i with O => e | S k => match nth_error os k, nth_error ms k with Some po, Some pm => po + msize pm | _, _ => 0 end end) <= y -> o <= y) /\
    forall j m2 o2, (i < j)%nat -> nth_error ms j = Some m2 -> nth_error os j = Some o2 -> o + msize m <= o2.
Proof.
  induction 1 as [|e m r o os e' Hl Hp IH]; intros Hwf i mi oi Hmi Hoi; [destruct i; discriminate|].
  inversion Hwf as [|? ? Hm Hr]; subst. pose proof (wf_msize m Hm) as [_ Hms].
  pose proof (placed_end_ge _ _ _ _ Hp Hr) as Hend. destruct Hl as (Hl1 & Hl2 & Hl3).
  destruct i as [|i]; simpl in Hmi, Hoi.
  - inversion Hmi; inversion Hoi; subst. repeat split; try assumption; try lia.
    + intros y Hy Hge. apply Hl3; assumption.
    + intros j m2 o2 Hj Hm2 Ho2. destruct j as [|j]; [lia|]. simpl in Hm2, Ho2.
      destruct (IH Hr j m2 o2 Hm2 Ho2) as [? _]. lia.
  - destruct (IH Hr i mi oi Hmi Hoi) as (H1 & H2 & H3 & H4 & H5). repeat split; try assumption; try lia.
    + intros y Hy Hge. apply H4; [assumption|]. destruct i as [|k]; simpl in *; [exact Hge|exact Hge].
    + intros j m2 o2 Hj Hm2 Ho2. destruct j as [|j]; [lia|]. simpl in Hm2, Ho2. apply (H5 j m2 o2); [lia|assumption|assumption].
Qed.

(* closure: an accepted struct is itself a well-formed member (nested structs, arrays of structs) *)
Lemma struct_member_wf c force ms L n : cfg_ok c -> Forall wf_member ms ->
  struct_layout c force ms = Some L -> 1 <= n < 2 ^ 32 ->
  wf_member {| m_esize := l_size L; m_ealign := l_align L; m_len := n |}.
Proof.
  intros Hc Hwf H Hn. pose proof Hc as [Hsm Hfm].
  apply (struct_layout_iff c force ms L Hc Hwf) in H. destruct H as [[Hf [He Hne]] ->].
  unfold rule_layout. pose proof (rule_end_pos ms Hwf Hne) as Hpos.
  destruct (rule_offsets ms 0) as [os e]. simpl in *.
  assert (Hap : is_pow2 (rule_align force ms)).
  { destruct force as [fa|]; simpl; [destruct Hf as (? & ? & ?); assumption|apply natural_align_pow2; assumption]. }
  pose proof (pow2_pos _ Hap) as Hapos.
  pose proof (align_up_ge e (rule_align force ms) Hapos).
  destruct (align_up_least e (rule_align force ms) Hapos) as (_ & Hmod & _).
  assert (2 ^ 29 < 2 ^ 31) by (apply Z.pow_lt_mono_r; lia).
  unfold wf_member; simpl. repeat split; try assumption; lia.
Qed.

(* ---------------------------------------------------------------- all structs of a schema *)
Definition smember_ok (sm : smember) : Prop :=
  match sm with
  | SScalar s n => In s [1; 2; 4; 8] /\ 1 <= n < 2 ^ 32
  | SRef _ n => 1 <= n < 2 ^ 32
  end.
Definition as_member (L : layout) (n : Z) : member := {| m_esize := l_size L; m_ealign := l_align L; m_len := n |}.
Definition env_wf (env : list (option layout)) : Prop :=
  Forall (fun o => match o with Some L => forall n, 1 <= n < 2 ^ 32 -> wf_member (as_member L n) | None => True end) env.
Definition resolved (out : list (option layout)) (sm : smember) (m : member) : Prop :=
  match sm with
  | SScalar s n => m = {| m_esize := s; m_ealign := s; m_len := n |}
  | SRef j n => exists Lj, nth_error out j = Some (Some Lj) /\ m = as_member Lj n
  end.

Lemma layout_structs_app c : forall ds env, exists tl, layout_structs c env ds = env ++ tl /\ length tl = length ds.
Proof.
  induction ds as [|d r IH]; intros env; cbn [layout_structs].
  - exists []. rewrite app_nil_r. split; reflexivity.
  - match goal with |- context [layout_structs c (env ++ [?x]) r] => destruct (IH (env ++ [x])) as [tl [E Hl]]; exists (x :: tl) end.
    rewrite E, <- app_assoc. simpl. split; [reflexivity|lia].
Qed.

Lemma scalar_wf s n : In s [1; 2; 4; 8] -> 1 <= n < 2 ^ 32 -> wf_member {| m_esize := s; m_ealign := s; m_len := n |}.
Proof.
  intros Hs Hn. unfold wf_member; cbn [m_esize m_ealign m_len]. change (2 ^ 31) with 2147483648.
  destruct Hs as [<-|[<-|[<-|[<-|[]]]]]; (split; [|split; [lia|split; [reflexivity|assumption]]]).
  - exists 0; split; [lia|reflexivity].
  - exists 1; split; [lia|reflexivity].
  - exists 2; split; [lia|reflexivity].
  - exists 3; split; [lia|reflexivity].
Qed.

Lemma resolve_all_spec env : forall sms ms, env_wf env -> Forall smember_ok sms -> resolve_all env sms = Some ms ->
  Forall2 (resolved env) sms ms /\ Forall wf_member ms.
Proof.
  induction sms as [|sm r IH]; intros ms Henv Hok H; cbn [resolve_all] in H.
  - some_inj H; subst. split; constructor.
  - inversion Hok as [|? ? Hsm Hr]; subst.
    destruct (resolve env sm) as [x|] eqn:Ex; [|discriminate].
    destruct (resolve_all env r) as [xs|] eqn:Exs; [|discriminate]. some_inj H; subst ms.
    destruct (IH xs Henv Hr eq_refl) as [H2 Hw]. destruct sm as [s n|j n]; cbn [resolve] in Ex.
    + some_inj Ex; subst x. split; constructor; try assumption; [reflexivity|]. destruct Hsm. apply scalar_wf; assumption.
    + destruct (nth_error env j) as [[Lj|]|] eqn:Ej; try discriminate. some_inj Ex; subst x. split; constructor; try assumption.
      * exists Lj. split; [exact Ej|reflexivity].
      * unfold env_wf in Henv. rewrite Forall_forall in Henv. apply nth_error_In in Ej. apply (Henv _ Ej). exact Hsm.
Qed.

Lemma resolved_mono env tl sm m : resolved env sm m -> resolved (env ++ tl) sm m.
Proof.
  destruct sm as [s n|j n]; simpl; [auto|]. intros [Lj [Hn ->]]. exists Lj. split; [|reflexivity].
  rewrite nth_error_app1; [exact Hn|]. apply nth_error_Some. congruence.
Qed.

Lemma Forall2_resolved_mono env tl sms ms : Forall2 (resolved env) sms ms -> Forall2 (resolved (env ++ tl)) sms ms.
Proof. induction 1; constructor; [apply resolved_mono; assumption|assumption]. Qed.

Theorem layout_structs_ok c : cfg_ok c -> forall ds env, env_wf env ->
  Forall (fun d => Forall smember_ok (sd_members d)) ds ->
  env_wf (layout_structs c env ds) /\
  forall k d L, nth_error ds k = Some d -> nth_error (layout_structs c env ds) (length env + k) = Some (Some L) ->
    exists ms, Forall2 (resolved (layout_structs c env ds)) (sd_members d) ms /\ Forall wf_member ms /\
               struct_layout c (sd_force d) ms = Some L /\ layout_rule (sd_force d) ms L.
Proof.
  intros Hc. induction ds as [|d r IH]; intros env Henv Hok; cbn [layout_structs].
  - split; [exact Henv|]. intros k ? ? Hk. destruct k; discriminate.
  - inversion Hok as [|? ? Hd Hr]; subst.
    set (L0 := match resolve_all env (sd_members d) with Some ms => struct_layout c (sd_force d) ms | None => None end).
    assert (Henv' : env_wf (env ++ [L0])).
    { unfold env_wf. apply Forall_app. split; [exact Henv|]. constructor; [|constructor].
      unfold L0. destruct (resolve_all env (sd_members d)) as [ms|] eqn:Er; [|exact I].
      destruct (struct_layout c (sd_force d) ms) as [L|] eqn:El; [|exact I].
      intros n Hn. destruct (resolve_all_spec env _ _ Henv Hd Er) as [_ Hw]. eapply struct_member_wf; eassumption. }
    destruct (IH (env ++ [L0]) Henv' Hr) as [Hout Hnth]. split; [exact Hout|].
    destruct (layout_structs_app c r (env ++ [L0])) as [tl [Eout _]].
    intros k dk L Hk Hn. destruct k as [|k]; simpl in Hk.
    + some_inj Hk; subst dk. rewrite Eout in Hn |- *. rewrite <- app_assoc in Hn |- *. simpl in Hn.
      rewrite Nat.add_0_r in Hn. rewrite nth_error_app2 in Hn by lia. rewrite Nat.sub_diag in Hn. simpl in Hn.
      some_inj Hn. unfold L0 in Hn. destruct (resolve_all env (sd_members d)) as [ms|] eqn:Er; [|discriminate].
      destruct (resolve_all_spec env _ _ Henv Hd Er) as [H2 Hw]. exists ms. repeat split; try assumption.
      * apply Forall2_resolved_mono. exact H2.
      * eapply struct_layout_ok; eassumption.
    + apply (Hnth k dk L Hk). rewrite app_length. simpl. replace (length env + 1 + k)%nat with (length env + S k)%nat by lia. exact Hn.
Qed.
