(* C07: struct layout. Transcribes src/compiler/semantics.c fb_align, is_valid_align, the force_align
   part of process_struct and the arithmetic of analyze_struct (offsets, size, alignment, trailing padding,
   overflow / maximum-size rejections). Nested structs and fixed arrays enter as members carrying the
   element size, element alignment and element count the C code reads from the already analysed type
   (member->type.ct->size / ->align, member->type.len). [layout_structs] resolves references to earlier
   structs of a schema the way the depth-first analysis does (a struct is analysed after the ones it uses).
   No proofs in this file. *)
From Flatcc.Common Require Export Wrap.
Local Open Scope Z_scope.

(* configuration constants of config/config.h, passed as arguments (theorems are parametric) *)
Record cfg := { struct_max : Z;          (* FLATCC_STRUCT_MAX_SIZE *)
                force_align_max : Z }.   (* FLATCC_FORCE_ALIGN_MAX *)

(* static inline uint64_t fb_align(uint64_t size, uint64_t align) { return (size + align - 1) & ~(align - 1); }
   [x & ~m] on uint64_t clears the bits of m in x: Z.ldiff. *)
Definition fb_align (size align : Z) : Z := Z.ldiff (u64 (size + align - 1)) (align - 1).

(* is_valid_align: n = 1; while (n <= align) { if (n == align) return 1; n *= 2; } return 0;
   after rejecting 0 and values above FLATCC_FORCE_ALIGN_MAX. 64 iterations exhaust uint64_t. *)
Fixpoint valid_align_loop (fuel : nat) (n align : Z) : bool :=
  match fuel with
  | O => false
  | S f => if n <=? align then (if n =? align then true else valid_align_loop f (u64 (n * 2)) align) else false
  end.
Definition is_valid_align (c : cfg) (align : Z) : bool :=
  if (align =? 0) || (force_align_max c <? align) then false else valid_align_loop 65 1 align.

(* what analyze_struct knows of one member: element size, element alignment, element count
   (scalar / enum: size = align = sizeof, count 1; struct: size and align of the analysed struct;
   fixed array: the same with count = the declared length, 1 .. 2^32-1) *)
Record member := { m_esize : Z; m_ealign : Z; m_len : Z }.

Definition m_align (m : member) : Z := m_ealign m.              (* member->align *)
Definition m_size (m : member) : Z := u64 (m_esize m * m_len m). (* member->size = size * member->type.len *)

Record layout := { l_offsets : list Z; l_size : Z; l_align : Z }.

(* the member loop: [size] is ct->size so far, [align] the running maximum *)
Fixpoint place (c : cfg) (ms : list member) (size align : Z) : option (list Z * Z * Z) :=
  match ms with
  | [] => Some ([], size, align)
  | m :: r =>
    let off := fb_align size (m_align m) in
    if (off <? size) || (u64 (off + m_size m) <? off) then None            (* "struct size overflow" *)
    else
      let size' := u64 (off + m_size m) in
      if (size' <? size) || (struct_max c <? size') then None              (* "... maximum allowed struct size" *)
      else
        match place c r size' (if align <? m_align m then m_align m else align) with
        | Some (os, s, a) => Some (off :: os, s, a)
        | None => None
        end
  end.

(* process_struct (force_align attribute) + analyze_struct; [None] = a diagnostic was counted *)
Definition struct_layout (c : cfg) (force : option Z) (ms : list member) : option layout :=
  match (match force with
         | None => Some 0                                  (* ct->align stays 0 *)
         | Some fa => if is_valid_align c fa then Some fa else None
         end) with
  | None => None
  | Some ct_align =>
    match place c ms 0 1 with
    | None => None
    | Some (os, size, align) =>
      if (0 <? ct_align) && (ct_align <? align) then None   (* force_align smaller than natural alignment *)
      else
        let a := if 0 <? ct_align then ct_align else align in
        let sz := fb_align size a in                         (* trailing padding *)
        if struct_max c <? sz then None                      (* the size limit also covers the padding: corrected behaviour,
                                                                the pinned tree tests the limit only before padding
                                                                (fixes/C08-struct-size-after-padding) *)
        else if sz =? 0 then None                            (* "struct cannot be empty" *)
        else Some {| l_offsets := os; l_size := sz; l_align := a |}
    end
  end.

(* ---- a schema's structs in dependency order: members refer to scalars or to earlier structs *)
Inductive smember :=
| SScalar (size len : Z)        (* scalar or enum of that size, [len] elements (1 = not an array) *)
| SRef (idx : nat) (len : Z).   (* struct number idx of the list, [len] elements *)
Record sdecl := { sd_force : option Z; sd_members : list smember }.

Definition resolve (env : list (option layout)) (m : smember) : option member :=
  match m with
  | SScalar s n => Some {| m_esize := s; m_ealign := s; m_len := n |}
  | SRef i n => match nth_error env i with
                | Some (Some L) => Some {| m_esize := l_size L; m_ealign := l_align L; m_len := n |}
                | _ => None
                end
  end.

Fixpoint resolve_all (env : list (option layout)) (ms : list smember) : option (list member) :=
  match ms with
  | [] => Some []
  | m :: r => match resolve env m, resolve_all env r with
              | Some x, Some xs => Some (x :: xs)
              | _, _ => None
              end
  end.

Fixpoint layout_structs (c : cfg) (env : list (option layout)) (ds : list sdecl) : list (option layout) :=
  match ds with
  | [] => env
  | d :: r =>
    let L := match resolve_all env (sd_members d) with
             | Some ms => struct_layout c (sd_force d) ms
             | None => None
             end in
    layout_structs c (env ++ [L]) r
  end.
