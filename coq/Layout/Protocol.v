(* C06 (thin, labelled so): the return-code / diagnostics protocol of src/compiler/flatcc.c and parser.c as a
   trace automaton over ABSTRACT sub-phases. What the lexer, parser and semantic passes do to memory is not
   modelled at all; a sub-phase is just "reports k diagnostics through error_report". Modelled:
     parser.c:61   error_report        -> one diagnostic to the error callback and ++P->failed
     parser.c:28   fb_print_error used directly by flatcc.c (size limit, include errors): a diagnostic that is
                   counted in P->failed only when [count_direct] (the corrected behaviour; the pinned tree does not)
     parser.c:1228 parse_schema        -> stops when failed >= FLATCC_MAX_ERRORS
     flatcc.c:101  flatcc_parse_buffer -> size limit, fb_parse || fb_build_schema
     flatcc.c:318  flatcc_parse_file   -> read error / size limit / own parse / includes (abstracted to their
                   verdicts) / build
     flatcc.c:449  flatcc_generate_files -> refuses iff P->failed *)
From Coq Require Import List Arith Bool Lia.
Import ListNotations.

Inductive ev := Diag | Out.
Record st := { failed : nat; trace : list ev }.
Definition init : st := {| failed := 0; trace := [] |}.

Definition report (s : st) : st := {| failed := S (failed s); trace := trace s ++ [Diag] |}.
Definition print_direct (count_direct : bool) (s : st) : st :=
  {| failed := if count_direct then S (failed s) else failed s; trace := trace s ++ [Diag] |}.
Fixpoint reports (k : nat) (s : st) : st := match k with O => s | S n => reports n (report s) end.

(* parse_schema: one list element per declaration step, the number of diagnostics it reports *)
Fixpoint parse_loop (cap : nat) (steps : list nat) (s : st) : st :=
  match steps with
  | [] => s
  | k :: r => if cap <=? failed s then s else parse_loop cap r (reports k s)
  end.
(* fb_build_schema: every pass runs, each reports some diagnostics; returns P->failed *)
Definition build (passes : list nat) (s : st) : st := fold_left (fun s k => reports k s) passes s.

(* rc = true means the C function returned 0 *)
Definition parse_buffer (count_direct : bool) (cap : nat) (too_big : bool) (steps passes : list nat) (s : st) : bool * st :=
  if too_big then (false, print_direct count_direct s)
  else
    let s1 := parse_loop cap steps s in
    if failed s1 =? 0 then let s2 := build passes s1 in (failed s2 =? 0, s2) else (false, s1).

(* an included file as seen by the including parser: did its flatcc_parse_file succeed, how many diagnostics did it
   deliver to the (shared) callback. Included parsers have their own failed counter. *)
Record child := { c_ok : bool; c_diags : nat }.
Fixpoint emit (k : nat) (s : st) : st := match k with O => s | S n => emit n {| failed := failed s; trace := trace s ++ [Diag] |} end.
Fixpoint includes (cs : list child) (s : st) : bool * st :=
  match cs with
  | [] => (true, s)
  | c :: r => let s1 := emit (c_diags c) s in if c_ok c then includes r s1 else (false, s1)
  end.

Definition parse_file (count_direct : bool) (cap : nat) (unreadable too_big : bool) (steps : list nat) (cs : list child)
    (passes : list nat) (s : st) : bool * st :=
  let fail s := (false, if count_direct then {| failed := S (failed s); trace := trace s |} else s) in
  if unreadable || too_big then (false, print_direct count_direct s)
  else
    let s1 := parse_loop cap steps s in
    if failed s1 =? 0 then
      let (ok, s2) := includes cs s1 in
      if ok then let s3 := build passes s2 in if failed s3 =? 0 then (true, s3) else fail s3
      else fail s2
    else fail s1.

Fixpoint outs (n : nat) (s : st) : st := match n with O => s | S k => outs k {| failed := failed s; trace := trace s ++ [Out] |} end.
Definition generate (nout : nat) (codegen_fails : bool) (s : st) : bool * st :=
  if failed s =? 0 then (negb codegen_fails, outs nout s) else (false, s).

Definition diags (s : st) : nat := length (filter (fun e => match e with Diag => true | Out => false end) (trace s)).
Definition outputs (s : st) : nat := length (filter (fun e => match e with Out => true | Diag => false end) (trace s)).

(* ---------------------------------------------------------------- lemmas *)
Lemma diags_app s l : length (filter (fun e => match e with Diag => true | Out => false end) (trace s ++ l)) =
  diags s + length (filter (fun e => match e with Diag => true | Out => false end) l).
Proof. unfold diags. rewrite filter_app, app_length. reflexivity. Qed.

Lemma report_spec s : failed (report s) = S (failed s) /\ diags (report s) = S (diags s) /\ outputs (report s) = outputs s.
Proof. unfold report, diags, outputs; simpl. rewrite !filter_app, !app_length. simpl. repeat split; lia. Qed.

Lemma reports_spec k : forall s, failed (reports k s) = failed s + k /\ diags (reports k s) = diags s + k /\ outputs (reports k s) = outputs s.
Proof.
  induction k as [|k IH]; intros s; simpl; [repeat split; lia|].
  destruct (IH (report s)) as (H1 & H2 & H3). destruct (report_spec s) as (R1 & R2 & R3). rewrite H1, H2, H3, R1, R2, R3. repeat split; lia.
Qed.

(* the invariant: the failed counter of a parser equals the diagnostics it reported itself; here in the form needed:
   no diagnostic so far <-> failed = 0, given that it held before *)
Definition inv (s : st) : Prop := (failed s = 0 <-> diags s = 0) /\ outputs s = 0.

Lemma reports_inv k s : inv s -> inv (reports k s).
Proof. intros [H O]. destruct (reports_spec k s) as (H1 & H2 & H3). unfold inv. rewrite H1, H2, H3. split; [lia|exact O]. Qed.

Lemma parse_loop_inv cap : forall steps s, inv s -> inv (parse_loop cap steps s) /\ failed s <= failed (parse_loop cap steps s).
Proof.
  induction steps as [|k r IH]; intros s H; simpl; [split; [exact H|lia]|].
  destruct (cap <=? failed s); [split; [exact H|lia]|].
  destruct (IH (reports k s) (reports_inv k s H)) as [I L]. split; [exact I|]. destruct (reports_spec k s) as (H1 & _). lia.
Qed.

(* the error cap: the loop stops within one step of reaching FLATCC_MAX_ERRORS *)
Lemma parse_loop_cap cap : forall steps s m, Forall (fun k => k <= m) steps -> failed s <= cap + m -> failed (parse_loop cap steps s) <= cap + m.
Proof.
  induction steps as [|k r IH]; intros s m Hf Hs; simpl; [exact Hs|].
  destruct (cap <=? failed s) eqn:E; [exact Hs|]. inversion Hf as [|? ? Hk Hr]; subst. apply IH; [assumption|].
  destruct (reports_spec k s) as (R1 & _). apply Nat.leb_gt in E. lia.
Qed.

Lemma build_inv : forall passes s, inv s -> inv (build passes s) /\ failed s <= failed (build passes s).
Proof.
  unfold build. induction passes as [|k r IH]; intros s H; simpl; [split; [exact H|lia]|].
  destruct (IH (reports k s) (reports_inv k s H)) as [I L]. split; [exact I|]. destruct (reports_spec k s) as (H1 & _). lia.
Qed.

Lemma print_direct_spec b s : diags (print_direct b s) = S (diags s) /\ outputs (print_direct b s) = outputs s /\
  failed (print_direct b s) = (if b then S (failed s) else failed s).
Proof. unfold print_direct, diags, outputs; simpl. rewrite !filter_app, !app_length. simpl. repeat split; lia. Qed.

Lemma outs_spec n : forall s, failed (outs n s) = failed s /\ diags (outs n s) = diags s /\ outputs (outs n s) = outputs s + n.
Proof.
  induction n as [|n IH]; intros s; simpl; [repeat split; lia|].
  destruct (IH {| failed := failed s; trace := trace s ++ [Out] |}) as (H1 & H2 & H3). rewrite H1, H2, H3.
  unfold diags, outputs; simpl. rewrite !filter_app, !app_length. simpl. repeat split; lia.
Qed.

Lemma emit_spec k : forall s, failed (emit k s) = failed s /\ diags (emit k s) = diags s + k /\ outputs (emit k s) = outputs s.
Proof.
  induction k as [|k IH]; intros s; simpl; [repeat split; lia|].
  destruct (IH {| failed := failed s; trace := trace s ++ [Diag] |}) as (H1 & H2 & H3). rewrite H1, H2, H3.
  unfold diags, outputs; simpl. rewrite !filter_app, !app_length. simpl. repeat split; lia.
Qed.

(* children obey the protocol themselves (induction hypothesis over the include tree, stated as a side condition) *)
Definition child_ok (c : child) : Prop := (c_ok c = true -> c_diags c = 0) /\ (c_ok c = false -> 1 <= c_diags c).

Lemma includes_spec : forall cs s, Forall child_ok cs ->
  let (ok, s') := includes cs s in
  failed s' = failed s /\ outputs s' = outputs s /\ (ok = true -> diags s' = diags s) /\ (ok = false -> diags s < diags s').
Proof.
  induction cs as [|c r IH]; intros s Hc; simpl; [repeat split; try lia; discriminate|].
  inversion Hc as [|? ? [Hok Hbad] Hr]; subst. destruct (emit_spec (c_diags c) s) as (E1 & E2 & E3).
  destruct (c_ok c) eqn:Eo.
  - specialize (IH (emit (c_diags c) s) Hr). destruct (includes r (emit (c_diags c) s)) as [ok s'].
    destruct IH as (I1 & I2 & I3 & I4). rewrite (Hok eq_refl) in *. repeat split; try lia; intros H; [specialize (I3 H)|specialize (I4 H)]; lia.
  - specialize (Hbad eq_refl). repeat split; try lia; try discriminate.
Qed.

(* ---------------------------------------------------------------- the protocol *)
Ltac fin := repeat split; intros; try discriminate; try reflexivity; try lia; try assumption; try tauto.

Theorem protocol_consistent_buffer cap too_big steps passes nout cf :
  let (rc, s) := parse_buffer true cap too_big steps passes init in
  (rc = true <-> diags s = 0) /\ outputs s = 0 /\
  let (grc, s') := generate nout cf s in
  (rc = false -> grc = false /\ outputs s' = 0) /\ (grc = true -> diags s' = 0) /\ diags s' = diags s.
Proof.
  assert (Hi : inv init) by (unfold inv, init, diags, outputs; simpl; split; [tauto|reflexivity]).
  unfold parse_buffer. destruct too_big.
  - destruct (print_direct_spec true init) as (P1 & P2 & P3). unfold generate. rewrite P3. simpl.
    rewrite ?P1, ?P2. change (diags init) with 0. change (outputs init) with 0. fin.
  - destruct (parse_loop_inv cap steps init Hi) as [[I1 O1] _]. set (s1 := parse_loop cap steps init) in *.
    destruct (failed s1 =? 0) eqn:E.
    + apply Nat.eqb_eq in E. destruct (build_inv passes s1 (conj I1 O1)) as [[I2 O2] _]. set (s2 := build passes s1) in *.
      unfold generate. destruct (failed s2 =? 0) eqn:E2.
      * apply Nat.eqb_eq in E2. destruct (outs_spec nout s2) as (Q1 & Q2 & Q3). rewrite ?Q2. fin.
      * apply Nat.eqb_neq in E2. fin.
    + apply Nat.eqb_neq in E. unfold generate. destruct (failed s1 =? 0) eqn:E2; [apply Nat.eqb_eq in E2; contradiction|]. fin.
Qed.

Theorem protocol_consistent_file cap unreadable too_big steps cs passes nout cf : Forall child_ok cs ->
  let (rc, s) := parse_file true cap unreadable too_big steps cs passes init in
  (rc = true <-> diags s = 0) /\ outputs s = 0 /\ (rc = false -> 0 < failed s) /\
  let (grc, s') := generate nout cf s in
  (rc = false -> grc = false /\ outputs s' = 0) /\ (grc = true -> diags s' = 0).
Proof.
  intros Hcs.
  assert (Hi : inv init) by (unfold inv, init, diags, outputs; simpl; split; [tauto|reflexivity]).
  unfold parse_file. destruct (unreadable || too_big).
  - destruct (print_direct_spec true init) as (P1 & P2 & P3). unfold generate. rewrite P3. simpl.
    rewrite ?P1, ?P2. change (diags init) with 0. change (outputs init) with 0. fin.
  - destruct (parse_loop_inv cap steps init Hi) as [[I1 O1] _]. set (s1 := parse_loop cap steps init) in *.
    destruct (failed s1 =? 0) eqn:E.
    + apply Nat.eqb_eq in E. pose proof (includes_spec cs s1 Hcs) as Hin. destruct (includes cs s1) as [ok s2].
      destruct Hin as (F2 & O2 & D2ok & D2bad). destruct ok.
      * assert (I2 : inv s2) by (unfold inv; rewrite F2, O2, (D2ok eq_refl); split; assumption).
        destruct (build_inv passes s2 I2) as [[I3 O3] _]. set (s3 := build passes s2) in *. destruct (failed s3 =? 0) eqn:E3.
        -- apply Nat.eqb_eq in E3. unfold generate. rewrite E3. simpl. destruct (outs_spec nout s3) as (Q1 & Q2 & Q3). rewrite ?Q2. fin.
        -- apply Nat.eqb_neq in E3. unfold generate. simpl.
           change (diags {| failed := S (failed s3); trace := trace s3 |}) with (diags s3).
           change (outputs {| failed := S (failed s3); trace := trace s3 |}) with (outputs s3). fin.
      * specialize (D2bad eq_refl). unfold generate. simpl.
        change (diags {| failed := S (failed s2); trace := trace s2 |}) with (diags s2).
        change (outputs {| failed := S (failed s2); trace := trace s2 |}) with (outputs s2). fin.
    + apply Nat.eqb_neq in E. unfold generate. simpl.
      change (diags {| failed := S (failed s1); trace := trace s1 |}) with (diags s1).
      change (outputs {| failed := S (failed s1); trace := trace s1 |}) with (outputs s1). fin.
Qed.

(* with the diagnostics that flatcc.c prints directly NOT counted (the pinned tree), the protocol fails:
   the parse fails with a diagnostic, yet generate succeeds and writes output *)
Theorem protocol_uncounted_refuted :
  exists too_big steps passes nout,
    let (rc, s) := parse_buffer false 10 too_big steps passes init in
    let (grc, s') := generate nout false s in
    rc = false /\ 0 < diags s /\ grc = true /\ 0 < outputs s'.
Proof. exists true, [], [], 1. vm_compute. repeat split; lia. Qed.

Theorem protocol_uncounted_include_refuted :
  exists cs nout, Forall child_ok cs /\
    let (rc, s) := parse_file false 10 false false [0] cs [0] init in
    let (grc, s') := generate nout false s in
    rc = false /\ 0 < diags s /\ grc = true /\ 0 < outputs s'.
Proof.
  exists [{| c_ok := false; c_diags := 1 |}], 1. split.
  - constructor; [|constructor]. split; simpl; [discriminate|lia].
  - vm_compute. repeat split; lia.
Qed.

Theorem error_cap cap steps m : Forall (fun k => k <= m) steps -> failed (parse_loop cap steps init) <= cap + m.
Proof. intros H. apply parse_loop_cap; [exact H|simpl; lia]. Qed.

(* ---------------------------------------------------------------- why the cap test must be `>=`
   parser.c parse_compound_type: `while (P->token->id != '}') { parse_field / parse_method; if (P->failed >= FLATCC_MAX_ERRORS) goto fail; }`
   At end of input the loop makes no token progress: next() keeps returning the EOF token and every turn reports at least one
   diagnostic ("field expected identifier"). The error cap is the ONLY thing that ends the loop, so termination needs a test
   that stays true once the counter has passed the cap. [ks i] = diagnostics reported in turn i (a field can report two);
   [None] = still running when the fuel is exhausted. *)
Fixpoint eof_loop (test : nat -> nat -> bool) (cap : nat) (ks : nat -> nat) (i fuel : nat) (s : st) : option st :=
  match fuel with
  | O => None
  | S f => let s' := reports (ks i) s in
           if test cap (failed s') then Some s' else eof_loop test cap ks (S i) f s'
  end.

Definition cap_ge (cap f : nat) : bool := cap <=? f.      (* P->failed >= FLATCC_MAX_ERRORS *)
Definition cap_eq (cap f : nat) : bool := f =? cap.       (* P->failed == FLATCC_MAX_ERRORS : wrong *)

(* with >= the measure cap - failed strictly decreases: the loop ends within cap - failed + 1 turns, whatever each turn reports *)
Lemma eof_loop_ge_terminates cap ks : (forall i, 1 <= ks i) ->
  forall fuel i s, 0 < fuel -> cap < failed s + fuel -> exists s', eof_loop cap_ge cap ks i fuel s = Some s' /\ cap <= failed s'.
Proof.
  intros Hk. induction fuel as [|f IH]; intros i s H0 Hf; [lia|]. cbn [eof_loop].
  destruct (reports_spec (ks i) s) as (F & _). specialize (Hk i). unfold cap_ge at 1.
  destruct (cap <=? failed (reports (ks i) s)) eqn:E.
  - exists (reports (ks i) s). split; [reflexivity|apply Nat.leb_le; exact E].
  - apply Nat.leb_gt in E. apply IH; lia.
Qed.

Theorem eof_loop_terminates cap ks s : (forall i, 1 <= ks i) ->
  exists s', eof_loop cap_ge cap ks 0 (S cap) s = Some s' /\ cap <= failed s'.
Proof. intros Hk. apply eof_loop_ge_terminates; [exact Hk|lia|lia]. Qed.

(* with == the loop never ends once the counter has stepped over the cap *)
Lemma eof_loop_eq_past cap ks : (forall i, 1 <= ks i) ->
  forall fuel i s, cap < failed s -> eof_loop cap_eq cap ks i fuel s = None.
Proof.
  intros Hk. induction fuel as [|f IH]; intros i s Hs; [reflexivity|]. cbn [eof_loop].
  destruct (reports_spec (ks i) s) as (F & _). specialize (Hk i). unfold cap_eq at 1.
  destruct (failed (reports (ks i) s) =? cap) eqn:E; [apply Nat.eqb_eq in E; lia|]. apply IH. lia.
Qed.

(* nine earlier diagnostics, then a field that reports two (9 -> 11), then end of input inside the body *)
Theorem eof_loop_equality_refuted :
  exists ks s, (forall i, 1 <= ks i) /\ failed s = 9 /\ forall fuel, eof_loop cap_eq 10 ks 0 fuel s = None.
Proof.
  exists (fun i => match i with O => 2 | _ => 1 end), (reports 9 init). split; [intros [|i]; lia|]. split; [reflexivity|].
  intros [|f]; [reflexivity|]. cbn [eof_loop]. destruct (reports_spec 2 (reports 9 init)) as (F & _).
  unfold cap_eq at 1. destruct (failed (reports 2 (reports 9 init)) =? 10) eqn:E; [apply Nat.eqb_eq in E; rewrite F in E; simpl in E; lia|].
  apply eof_loop_eq_past; [intros [|i]; lia|]. rewrite F. simpl. lia.
Qed.

(* the automaton's own cap test in [parse_loop] is the >= form *)
Lemma parse_loop_cap_test_is_ge cap k r s : parse_loop cap (k :: r) s = if cap_ge cap (failed s) then s else parse_loop cap r (reports k s).
Proof. reflexivity. Qed.
