(* C07: table field id assignment. Transcribes the id related statements of src/compiler/semantics.c
   process_table (:988-1002 count / member->id, :1123-1129 and :1209-1215 hidden union type field,
   :1222-1278 explicit `id` attributes and the field_marker checks, :1339-1353 the final range test).
   Every diagnostic of that code increments P->failed, so the schema is rejected: [None].
   A field is abstracted to its `id` attribute (if any; the value as written, possibly negative) and to whether
   its type is a union or a vector of unions. The hidden type field of a union field with id v has id v - 1
   in every backend (reader macro `((ID) - 1)`, builder, verifier, binary schema export).
   No proofs in this file. *)
From Flatcc.Common Require Export Wrap.
Local Open Scope Z_scope.

Record field := { f_id : option Z; f_union : bool }.

Definition unused_field : Z := 0.
Definition normal_field : Z := 1.
Definition type_field : Z := 2.

Definition upd (mk : Z -> Z) (i v : Z) : Z -> Z := fun j => if j =? i then v else mk j.

Record idstate := { s_count : Z; s_need : bool; s_max : Z; s_marker : Z -> Z }.

(* what the backends see of a field: its id and the id of its hidden type field *)
Definition pair_of (f : field) (v : Z) : Z * option Z := (v, if f_union f then Some (v - 1) else None).

Definition id_step (vt_max : Z) (s : idstate) (f : field) : option (idstate * (Z * option Z)) :=
  let has := match f_id f with Some _ => true | None => false end in
  (* m = knowns[fb_attr_id]; if (m && count == 0) { need_id = 1; memset(field_marker, 0, ...); } *)
  let need := if has && (s_count s =? 0) then true else s_need s in
  let mk0 := if has && (s_count s =? 0) then (fun _ => unused_field) else s_marker s in
  (* if (count >= vt_max_count) "too many fields for vtable size" else if (!need_id) member->id = count; ++count; *)
  if vt_max <=? s_count s then None else
  let c1 := s_count s + 1 in
  (* union / union vector: if (!need_id) member->id = count; ++count;   (hidden type field first) *)
  let id_decl := if f_union f then u16 c1 else u16 (s_count s) in
  let c2 := if f_union f then c1 + 1 else c1 in
  match f_id f, need with
  | Some _, false => None     (* "unexpected id attribute, must be used on all fields, or none" *)
  | None, true => None        (* "id attribute missing, must be used on all fields, or none" *)
  | None, false =>
    Some ({| s_count := c2; s_need := false; s_max := s_max s; s_marker := mk0 |}, pair_of f id_decl)
  | Some v, true =>
    if v <? 0 then None                      (* "id attribute cannot be negative" *)
    else if vt_max <=? v then None           (* "id too large to fit in vtable" *)
    else
      let id := u16 v in
      let mx := if s_max s <? id then id else s_max s in
      if mk0 id =? type_field then None      (* conflicts with a hidden type field *)
      else if negb (mk0 id =? unused_field) then None   (* conflicts with another field *)
      else
        let mk1 := upd mk0 id normal_field in
        if f_union f then
          if id <=? 0 then None              (* should be larger to accommodate hidden union type field *)
          else if negb (mk1 (id - 1) =? unused_field) then None  (* hidden type field conflicts *)
          else Some ({| s_count := c2; s_need := true; s_max := mx; s_marker := upd mk1 (id - 1) type_field |}, pair_of f id)
        else Some ({| s_count := c2; s_need := true; s_max := mx; s_marker := mk1 |}, pair_of f id)
  end.

Fixpoint id_loop (vt_max : Z) (s : idstate) (fs : list field) : option (idstate * list (Z * option Z)) :=
  match fs with
  | [] => Some (s, [])
  | f :: r => match id_step vt_max s f with
              | None => None
              | Some (s1, p) => match id_loop vt_max s1 r with
                                | None => None
                                | Some (s2, ps) => Some (s2, p :: ps)
                                end
              end
  end.

Definition id_init : idstate := {| s_count := 0; s_need := false; s_max := 0; s_marker := fun _ => unused_field |}.

(* result: per field (in declaration order) its id and hidden type id, and ct->count *)
Definition assign_ids (vt_max : Z) (fs : list field) : option (list (Z * option Z) * Z) :=
  match id_loop vt_max id_init fs with
  | None => None
  | Some (s, ids) =>
    (* if (need_id && count && max_id >= count) "id range not consequtive from 0, missing id" *)
    if s_need s && negb (s_count s =? 0) && (s_count s <=? s_max s) then None
    else Some (ids, s_count s)
  end.
