(* C20 (small, self-contained): why "sorted by the key the generated find uses" makes every entry findable.
   Model of the generated  __flatbuffers_find_by_field  (codegen_c_reader.c:167; lower-bound binary search over a
   vector, comparing a key extracted from each element) on a list of integer keys. String keys are compared with
   strcmp, a total order on NUL-terminated strings; read the integers as ranks in that order.
   What codegen_schema.c emits is validated per schema by checks/c20.py (level translation_validation); this file
   only proves the search half: sorted + present => found, at the lowest matching index. *)
From Coq Require Import ZArith List Lia Bool.
From Coq Require Import ZifyBool.
Import ListNotations.
Local Open Scope Z_scope.
Ltac Zify.zify_post_hook ::= Z.div_mod_to_equations.

Definition zn (v : list Z) (i : Z) : Z := nth (Z.to_nat i) v 0.
Definition zlen (v : list Z) : Z := Z.of_nat (length v).

(* while (a < b) { m = a + ((b - a) >> 1); if (v[m] < k) a = m + 1; else b = m; } *)
Fixpoint find_loop (fuel : nat) (v : list Z) (k a b : Z) : Z * Z :=
  match fuel with
  | O => (a, b)
  | S f => if a <? b then
             let m := a + (b - a) / 2 in
             if zn v m <? k then find_loop f v k (m + 1) b else find_loop f v k a m
           else (a, b)
  end.

(* if (!(b = len)) return not_found; --b; loop; if (a == b && v[a] == k) return a; return not_found; *)
Definition find (v : list Z) (k : Z) : option Z :=
  if zlen v =? 0 then None
  else let (a, b) := find_loop (length v) v k 0 (zlen v - 1) in
       if a =? b then (if zn v a =? k then Some a else None) else None.

Definition sorted (v : list Z) : Prop := forall i j, 0 <= i <= j -> j < zlen v -> zn v i <= zn v j.

(* p is the lowest index holding k *)
Definition lowest (v : list Z) (k p : Z) : Prop :=
  0 <= p < zlen v /\ zn v p = k /\ forall i, 0 <= i < p -> zn v i < k.

Lemma find_loop_inv v k p : sorted v -> lowest v k p ->
  forall fuel a b, 0 <= a <= p -> p <= b < zlen v -> b - a < Z.of_nat fuel \/ a = b ->
  find_loop fuel v k a b = (p, p).
Proof.
  intros Hs (Hp & Hk & Hlow). induction fuel as [|f IH]; intros a b Ha Hb Hf; cbn [find_loop].
  - assert (a = b) by lia. subst. assert (b = p) by lia. subst. reflexivity.
  - destruct (a <? b) eqn:E.
    + assert (Hm : a <= a + (b - a) / 2 < b) by lia. set (m := a + (b - a) / 2) in *.
      destruct (zn v m <? k) eqn:Ec.
      * (* v[m] < k: p lies right of m *)
        assert (m < p). { destruct (Z_lt_ge_dec m p) as [L|G]; [exact L|]. pose proof (Hs p m ltac:(lia) ltac:(lia)). lia. }
        apply IH; lia.
      * (* v[m] >= k: p is at or left of m *)
        assert (p <= m). { destruct (Z_le_gt_dec p m) as [L|G]; [exact L|]. pose proof (Hlow m ltac:(lia)). lia. }
        apply IH; lia.
    + assert (a = b) by lia. subst. assert (b = p) by lia. subst. reflexivity.
Qed.

Lemma first_or_none (v : list Z) k : forall n : nat,
  (forall i, (i < n)%nat -> nth i v 0 <> k) \/ exists i, (i < n)%nat /\ nth i v 0 = k.
Proof.
  induction n as [|n IH]; [left; intros i Hi; lia|].
  destruct IH as [Hall|[i [Hi Hv]]]; [|right; exists i; split; [lia|exact Hv]].
  destruct (Z.eq_dec (nth n v 0) k) as [E|E]; [right; exists n; split; [lia|exact E]|].
  left. intros i Hi. destruct (Nat.eq_dec i n) as [->|Hne]; [exact E|apply Hall; lia].
Qed.

Lemma in_lowest v k : sorted v -> In k v -> exists p, lowest v k p.
Proof.
  intros Hs Hin. apply In_nth with (d := 0) in Hin. destruct Hin as [n [Hn Hv]].
  revert Hn Hv. induction n as [n IH] using lt_wf_ind. intros Hn Hv.
  destruct (first_or_none v k n) as [Hall|[j [Hj Hvj]]].
  - exists (Z.of_nat n). unfold lowest, zn, zlen. rewrite Nat2Z.id. split; [lia|]. split; [exact Hv|].
    intros i Hi. specialize (Hall (Z.to_nat i) ltac:(lia)).
    pose proof (Hs i (Z.of_nat n) ltac:(lia) ltac:(unfold zlen; lia)) as Hle. unfold zn in Hle. rewrite Nat2Z.id in Hle. lia.
  - apply (IH j Hj); [lia|exact Hvj].
Qed.

(* sorted by key + key present => the generated search returns the lowest index holding it *)
Theorem find_total v k : sorted v -> In k v -> exists p, find v k = Some p /\ lowest v k p.
Proof.
  intros Hs Hin. destruct (in_lowest v k Hs Hin) as [p Hp]. exists p. split; [|exact Hp].
  pose proof Hp as (Hr & Hk & _). unfold find. destruct (zlen v =? 0) eqn:E; [lia|].
  rewrite (find_loop_inv v k p Hs Hp (length v) 0 (zlen v - 1)) by (unfold zlen in *; lia).
  rewrite Z.eqb_refl. rewrite Hk, Z.eqb_refl. reflexivity.
Qed.

(* and never returns a wrong hit *)
Theorem find_sound v k p : find v k = Some p -> zn v p = k.
Proof.
  unfold find. destruct (zlen v =? 0); [discriminate|]. destruct (find_loop (length v) v k 0 (zlen v - 1)) as [a b].
  destruct (a =? b); [|discriminate]. destruct (zn v a =? k) eqn:E; [|discriminate]. intros H. inversion H; subst. lia.
Qed.

(* without sortedness the search misses entries: the reason the schema exporter must sort *)
Theorem find_unsorted_refuted : exists v k, In k v /\ find v k = None.
Proof. exists [3; 1; 2], 3. split; [left; reflexivity|vm_compute; reflexivity]. Qed.
