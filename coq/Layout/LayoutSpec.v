(* C07: the FlatBuffers struct layout rule, stated independently of the C arithmetic.
   Relational form ([placed], [least_aligned_ge]) and a direct functional form ([rule_layout]) that uses
   neither bit operations nor machine-word wraps. *)
From Flatcc.Layout Require Export StructLayout.
Local Open Scope Z_scope.

Definition is_pow2 (a : Z) : Prop := exists k, 0 <= k /\ a = 2 ^ k.

(* o is the least multiple of a that is not below e *)
Definition least_aligned_ge (e a o : Z) : Prop :=
  e <= o /\ o mod a = 0 /\ forall y, e <= y -> y mod a = 0 -> o <= y.

Definition msize (m : member) : Z := m_esize m * m_len m.

(* members are placed in declaration order, each at the least offset aligned to its own alignment that
   is not below the end of the previous member; the last argument is the end of the last member *)
Inductive placed : Z -> list member -> list Z -> Z -> Prop :=
| placed_nil e : placed e [] [] e
| placed_cons e m r o os e' :
    least_aligned_ge e (m_align m) o -> placed (o + msize m) r os e' -> placed e (m :: r) (o :: os) e'.

(* the alignment of a struct: the largest member alignment (1 for none), or the force_align value, which
   must not be smaller *)
Definition natural_align (ms : list member) : Z := fold_right Z.max 1 (map m_align ms).
Definition is_max_align (ms : list member) (a : Z) : Prop :=
  (forall m, In m ms -> m_align m <= a) /\ (a = 1 \/ exists m, In m ms /\ m_align m = a).

(* functional form *)
Definition align_up (x a : Z) : Z := x + (a - x mod a) mod a.
Fixpoint rule_offsets (ms : list member) (e : Z) : list Z * Z :=
  match ms with
  | [] => ([], e)
  | m :: r => let o := align_up e (m_align m) in
              let (os, e') := rule_offsets r (o + msize m) in (o :: os, e')
  end.
Definition rule_align (force : option Z) (ms : list member) : Z :=
  match force with Some fa => fa | None => natural_align ms end.
Definition rule_layout (force : option Z) (ms : list member) : layout :=
  let (os, e) := rule_offsets ms 0 in
  {| l_offsets := os; l_size := align_up e (rule_align force ms); l_align := rule_align force ms |}.

(* when a struct declaration is legal *)
Definition rule_accepts (c : cfg) (force : option Z) (ms : list member) : Prop :=
  match force with
  | Some fa => is_pow2 fa /\ fa <= force_align_max c /\ natural_align ms <= fa
  | None => True
  end /\ align_up (snd (rule_offsets ms 0)) (rule_align force ms) <= struct_max c /\ ms <> [].

(* side conditions on what a member can be *)
Definition wf_member (m : member) : Prop :=
  is_pow2 (m_ealign m) /\ 0 < m_esize m < 2 ^ 31 /\ m_esize m mod m_ealign m = 0 /\ 1 <= m_len m < 2 ^ 32.
Definition cfg_ok (c : cfg) : Prop := 0 <= struct_max c < 2 ^ 29 /\ 0 <= force_align_max c < 2 ^ 29.
