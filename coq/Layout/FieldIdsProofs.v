(* C07: the id assignment of process_table decides exactly the FlatBuffers id rule. *)
From Flatcc.Layout Require Export FieldIds.
From Coq Require Import ZifyBool Permutation.
Local Open Scope Z_scope.

(* ---------------------------------------------------------------- the rule, independently *)
Definition fwidth (f : field) : Z := if f_union f then 2 else 1.
Fixpoint nslots (fs : list field) : Z := match fs with [] => 0 | f :: r => fwidth f + nslots r end.
(* all vtable slots used by a list of (id, hidden type id) *)
Definition slots (r : list (Z * option Z)) : list Z :=
  flat_map (fun p => match snd p with Some t => [t; fst p] | None => [fst p] end) r.
(* no id attributes: declaration order, a union takes two consecutive ids, type field first *)
Fixpoint seq_ids (fs : list field) (k : Z) : list (Z * option Z) :=
  match fs with [] => [] | f :: r => pair_of f (k + fwidth f - 1) :: seq_ids r (k + fwidth f) end.
(* id attributes: as written *)
Fixpoint explicit_ids (fs : list field) : list (Z * option Z) :=
  match fs with [] => [] | f :: r => pair_of f (match f_id f with Some v => v | None => 0 end) :: explicit_ids r end.
Definition no_id (f : field) : Prop := f_id f = None.
Definition has_id (f : field) : Prop := exists v, f_id f = Some v.

(* the decision rule: either no field has an id attribute, or all have and the ids, together with the hidden
   type ids just below the union ids, use every slot of [0, n) exactly once *)
Definition ids_spec (fs : list field) (r : list (Z * option Z)) (n : Z) : Prop :=
  n = nslots fs /\
  ((Forall no_id fs /\ r = seq_ids fs 0) \/
   (fs <> [] /\ Forall has_id fs /\ r = explicit_ids fs /\ NoDup (slots r) /\ forall x, In x (slots r) -> 0 <= x < n)).

(* ---------------------------------------------------------------- helpers *)
Definition memz (j : Z) (l : list Z) : bool := existsb (Z.eqb j) l.
Lemma memz_In j l : memz j l = true <-> In j l.
Proof.
  unfold memz. rewrite existsb_exists. split.
  - intros [x [Hx E]]. apply Z.eqb_eq in E. subst. exact Hx.
  - intros H. exists j. split; [exact H|apply Z.eqb_refl].
Qed.
Lemma memz_false j l : memz j l = false <-> ~ In j l.
Proof. rewrite <- memz_In. destruct (memz j l); split; congruence. Qed.

Definition fslots (f : field) (v : Z) : list Z := if f_union f then [v - 1; v] else [v].
Lemma slots_cons f v r : slots (pair_of f v :: r) = fslots f v ++ slots r.
Proof. unfold slots, pair_of, fslots. simpl. destruct (f_union f); reflexivity. Qed.

Lemma fwidth_pos f : 1 <= fwidth f <= 2.
Proof. unfold fwidth. destruct (f_union f); lia. Qed.
Lemma nslots_nonneg fs : 0 <= nslots fs.
Proof. induction fs as [|f r IH]; simpl; [lia|]. pose proof (fwidth_pos f). lia. Qed.

(* ---------------------------------------------------------------- no id attributes *)
Definition noidb (f : field) : bool := match f_id f with None => true | Some _ => false end.

Lemma noid_loop vt : vt <= 65535 -> forall fs s, s_need s = false -> 0 < s_count s -> s_count s + nslots fs <= vt ->
  id_loop vt s fs =
    if forallb noidb fs
    then Some ({| s_count := s_count s + nslots fs; s_need := false; s_max := s_max s; s_marker := s_marker s |}, seq_ids fs (s_count s))
    else None.
Proof.
  intros Hvt. induction fs as [|f r IH]; intros s Hn Hc Hb.
  - simpl. rewrite Z.add_0_r. destruct s; simpl in *; subst; reflexivity.
  - cbn [id_loop forallb nslots seq_ids] in *. pose proof (fwidth_pos f) as Hw. pose proof (nslots_nonneg r) as Hr.
    unfold id_step, noidb at 1. destruct (f_id f) as [v|] eqn:Ef.
    + assert ((s_count s =? 0) = false) as -> by lia. simpl. rewrite Hn.
      destruct (vt <=? s_count s); reflexivity.
    + simpl. rewrite Hn. destruct (vt <=? s_count s) eqn:E; [lia|].
      rewrite IH; cbn [s_count s_need s_max s_marker]; [|reflexivity|unfold fwidth in *; destruct (f_union f); lia|unfold fwidth in *; destruct (f_union f); lia].
      assert ((if f_union f then u16 (s_count s + 1) else u16 (s_count s)) = s_count s + fwidth f - 1) as ->.
      { unfold fwidth in *. destruct (f_union f); [rewrite u16_id by (unfold in_u16; lia)|rewrite u16_id by (unfold in_u16; lia)]; lia. }
      assert ((if f_union f then s_count s + 1 + 1 else s_count s + 1) = s_count s + fwidth f) as -> by (unfold fwidth; destruct (f_union f); lia).
      destruct (forallb noidb r); [|reflexivity]. rewrite Z.add_assoc. reflexivity.
Qed.

Lemma forallb_noid fs : forallb noidb fs = true <-> Forall no_id fs.
Proof.
  rewrite forallb_forall, Forall_forall. unfold noidb, no_id. split; intros H x Hx; specialize (H x Hx); destruct (f_id x); congruence.
Qed.

(* ---------------------------------------------------------------- id attributes on every field *)
Definition stepok (vt : Z) (prev : list Z) (f : field) (v : Z) : bool :=
  (0 <=? v) && (v <? vt) && negb (memz v prev) && (if f_union f then (1 <=? v) && negb (memz (v - 1) prev) else true).
Fixpoint ex_ok (vt : Z) (prev : list Z) (fs : list field) : bool :=
  match fs with
  | [] => true
  | f :: r => match f_id f with
              | None => false
              | Some v => stepok vt prev f v && ex_ok vt (fslots f v ++ prev) r
              end
  end.
Definition rep (mk : Z -> Z) (prev : list Z) : Prop := forall j, (mk j =? 0) = negb (memz j prev).
Fixpoint vmax (fs : list field) (m : Z) : Z :=
  match fs with [] => m | f :: r => vmax r (match f_id f with Some v => Z.max m v | None => m end) end.

Lemma rep_upd mk prev i x : rep mk prev -> x <> 0 -> rep (upd mk i x) (i :: prev).
Proof.
  intros H Hx j. unfold upd. simpl. specialize (H j). destruct (j =? i) eqn:E; simpl; [lia|exact H].
Qed.

Lemma id_step_explicit vt s f v prev : vt <= 65535 -> f_id f = Some v -> 0 <= s_count s ->
  s_count s + fwidth f <= vt ->
  ((s_count s = 0 /\ prev = []) \/ (s_need s = true /\ 0 < s_count s /\ rep (s_marker s) prev)) ->
  match id_step vt s f with
  | Some (s1, p) => stepok vt prev f v = true /\ p = pair_of f v /\ s_count s1 = s_count s + fwidth f /\
                    s_need s1 = true /\ s_max s1 = Z.max (s_max s) v /\ rep (s_marker s1) (fslots f v ++ prev)
  | None => stepok vt prev f v = false
  end.
Proof.
  intros Hvt Ef Hc0 Hb Hpre. pose proof (fwidth_pos f) as Hw. unfold id_step. rewrite Ef.
  set (need := if true && (s_count s =? 0) then true else s_need s).
  set (mk0 := if true && (s_count s =? 0) then (fun _ : Z => unused_field) else s_marker s).
  assert (Hneed : need = true).
  { unfold need. destruct Hpre as [[-> _]|[-> _]]; [reflexivity|]. destruct (true && (s_count s =? 0)); reflexivity. }
  assert (Hrep : rep mk0 prev).
  { unfold mk0. destruct Hpre as [[-> ->]|[_ [Hp Hr]]]; [intros j; reflexivity|].
    assert ((s_count s =? 0) = false) as -> by lia. exact Hr. }
  rewrite Hneed. clearbody mk0 need. unfold stepok.
  destruct (vt <=? s_count s) eqn:E0; [lia|].
  destruct (v <? 0) eqn:E1; [assert ((0 <=? v) = false) as -> by lia; reflexivity|].
  assert ((0 <=? v) = true) as -> by lia.
  destruct (vt <=? v) eqn:E2; [assert ((v <? vt) = false) as -> by lia; reflexivity|].
  assert ((v <? vt) = true) as -> by lia. cbn [andb].
  rewrite (u16_id v) by (unfold in_u16; lia).
  pose proof (Hrep v) as Hv. unfold type_field, unused_field, normal_field in *.
  destruct (mk0 v =? 2) eqn:E3.
  { assert ((mk0 v =? 0) = false) as Hz by lia. rewrite Hz in Hv. destruct (memz v prev); [reflexivity|discriminate]. }
  destruct (mk0 v =? 0) eqn:E4; cbn [negb].
  2:{ destruct (memz v prev); [reflexivity|discriminate]. }
  assert (memz v prev = false) as -> by (destruct (memz v prev); [discriminate|reflexivity]). cbn [negb andb].
  assert (Hmx : (if s_max s <? v then v else s_max s) = Z.max (s_max s) v) by (destruct (s_max s <? v) eqn:E5; lia).
  unfold fslots. destruct (f_union f) eqn:Eu.
  - destruct (v <=? 0) eqn:E5; [assert ((1 <=? v) = false) as -> by lia; reflexivity|].
    assert ((1 <=? v) = true) as -> by lia. cbn [andb].
    assert (upd mk0 v 1 (v - 1) = mk0 (v - 1)) as -> by (unfold upd; assert ((v - 1 =? v) = false) as -> by lia; reflexivity).
    pose proof (Hrep (v - 1)) as Hv1. destruct (mk0 (v - 1) =? 0) eqn:E6; cbn [negb].
    + assert (memz (v - 1) prev = false) as -> by (destruct (memz (v - 1) prev); [discriminate|reflexivity]).
      cbn [negb s_count s_need s_max s_marker]. unfold fwidth in *. rewrite Eu in *. repeat split; try lia; try reflexivity; try exact Hmx.
      simpl. apply rep_upd; [|lia]. apply rep_upd; [exact Hrep|lia].
    + destruct (memz (v - 1) prev); [reflexivity|discriminate].
  - cbn [s_count s_need s_max s_marker]. unfold fwidth in *. rewrite Eu in *. repeat split; try lia; try reflexivity; try exact Hmx.
    simpl. apply rep_upd; [exact Hrep|lia].
Qed.

Lemma explicit_loop vt : vt <= 65535 -> forall fs s prev, 0 <= s_count s -> s_count s + nslots fs <= vt ->
  ((s_count s = 0 /\ prev = [] /\ match fs with f :: _ => f_id f <> None | [] => True end) \/
   (s_need s = true /\ 0 < s_count s /\ rep (s_marker s) prev)) ->
  match id_loop vt s fs with
  | Some (s', r) => ex_ok vt prev fs = true /\ r = explicit_ids fs /\ s_count s' = s_count s + nslots fs /\
                    s_need s' = (match fs with [] => s_need s | _ => true end) /\ s_max s' = vmax fs (s_max s)
  | None => ex_ok vt prev fs = false
  end.
Proof.
  intros Hvt. induction fs as [|f r IH]; intros s prev Hc0 Hb Hpre.
  - simpl. repeat split; try lia.
  - cbn [id_loop ex_ok nslots explicit_ids vmax] in *. pose proof (fwidth_pos f) as Hw. pose proof (nslots_nonneg r) as Hr.
    destruct (f_id f) as [v|] eqn:Ef.
    + assert (Hpre' : (s_count s = 0 /\ prev = []) \/ (s_need s = true /\ 0 < s_count s /\ rep (s_marker s) prev))
        by (destruct Hpre as [[? [? _]]|?]; [left; split; assumption|right; assumption]).
      pose proof (id_step_explicit vt s f v prev Hvt Ef Hc0 ltac:(lia) Hpre') as Hstep.
      destruct (id_step vt s f) as [[s1 p]|]; [|rewrite Hstep; reflexivity].
      destruct Hstep as (Hok & -> & Hc1 & Hn1 & Hm1 & Hrep1). rewrite Hok. cbn [andb].
      specialize (IH s1 (fslots f v ++ prev) ltac:(lia) ltac:(lia) ltac:(right; split; [exact Hn1|split; [lia|exact Hrep1]])).
      destruct (id_loop vt s1 r) as [[s2 ps]|]; [|exact IH].
      destruct IH as (Hok2 & -> & Hc2 & Hn2 & Hm2). repeat split; try assumption; try lia.
      * rewrite Hn2. destruct r; [exact Hn1|reflexivity].
      * rewrite Hm2, Hm1. reflexivity.
    + destruct Hpre as [(_ & _ & Hne)|(Hn & Hp & _)]; [congruence|].
      unfold id_step. rewrite Ef. assert ((s_count s =? 0) = false) as -> by lia. simpl. rewrite Hn.
      destruct (vt <=? s_count s); reflexivity.
Qed.

(* ---------------------------------------------------------------- list facts *)
Lemma NoDup_app_iff {A} (a b : list A) : NoDup (a ++ b) <-> NoDup a /\ NoDup b /\ forall x, In x a -> ~ In x b.
Proof.
  induction a as [|h t IH]; simpl.
  - split; [intros H; repeat split; [constructor|exact H|intros ? []]|intros (_ & H & _); exact H].
  - split.
    + intros H. inversion H as [|? ? Hn Ht]; subst. apply IH in Ht. destruct Ht as (H1 & H2 & H3).
      repeat split; [constructor; [intros Hin; apply Hn; apply in_or_app; left; exact Hin|exact H1]|exact H2|].
      intros x [<-|Hx]; [intros Hb; apply Hn; apply in_or_app; right; exact Hb|apply H3; exact Hx].
    + intros (H1 & H2 & H3). inversion H1 as [|? ? Hn Ht]; subst. constructor.
      * intros Hin. apply in_app_or in Hin. destruct Hin as [Hin|Hin]; [exact (Hn Hin)|exact (H3 h (or_introl eq_refl) Hin)].
      * apply IH. repeat split; [exact Ht|exact H2|intros x Hx; apply H3; right; exact Hx].
Qed.

Lemma has_id_cons f v r : f_id f = Some v -> (Forall has_id (f :: r) <-> Forall has_id r).
Proof.
  intros Ef. split; [intros H; inversion H; assumption|intros H; constructor; [exists v; exact Ef|exact H]].
Qed.

Lemma fslots_props f v : NoDup (fslots f v) /\ (forall x, In x (fslots f v) -> v - 1 <= x <= v) /\ In v (fslots f v) /\
  (f_union f = true -> In (v - 1) (fslots f v)) /\ (f_union f = false -> forall x, In x (fslots f v) -> x = v).
Proof.
  unfold fslots. destruct (f_union f); simpl; repeat split; try (intros; discriminate).
  - constructor; [simpl; lia|constructor; [simpl; tauto|constructor]].
  - destruct H as [<-|[<-|[]]]; lia.
  - destruct H as [<-|[<-|[]]]; lia.
  - tauto.
  - tauto.
  - constructor; [simpl; tauto|constructor].
  - destruct H as [<-|[]]; lia.
  - destruct H as [<-|[]]; lia.
  - tauto.
  - intros _ x [<-|[]]; reflexivity.
Qed.

Lemma stepok_true vt prev f v :
  stepok vt prev f v = true <-> 0 <= v < vt /\ ~ In v prev /\ (f_union f = true -> 1 <= v /\ ~ In (v - 1) prev).
Proof.
  unfold stepok. rewrite <- !memz_false. destruct (f_union f); destruct (memz v prev); destruct (memz (v - 1) prev);
    rewrite ?andb_true_iff, ?negb_true_iff; split; intros; repeat split; try lia; try tauto; try discriminate;
    try (destruct H as (? & ? & ?); try discriminate; try (destruct (H1 eq_refl); discriminate)).
Qed.

Lemma ex_ok_spec vt : forall fs prev,
  ex_ok vt prev fs = true <->
  Forall has_id fs /\ NoDup (slots (explicit_ids fs)) /\
  forall x, In x (slots (explicit_ids fs)) -> ~ In x prev /\ 0 <= x < vt.
Proof.
  induction fs as [|f r IH]; intros prev; cbn [ex_ok explicit_ids].
  - simpl. split; [intros _|reflexivity]. split; [apply Forall_nil|]. split; [apply NoDup_nil|]. intros ? [].
  - destruct (f_id f) as [v|] eqn:Ef.
    2:{ split; [discriminate|]. intros [H _]. inversion H as [|? ? [v Hv] _]; subst. congruence. }
    rewrite slots_cons, andb_true_iff, IH, (has_id_cons f v r Ef), NoDup_app_iff, stepok_true.
    destruct (fslots_props f v) as (Hnd & Hrange & Hv & Hu & Hnu). split.
    + intros [(Hb & Hnv & Hun) (Hh & Hn & Hx)].
      assert (Hfs : forall x, In x (fslots f v) -> ~ In x prev /\ 0 <= x < vt).
      { intros x Hin. destruct (f_union f) eqn:Eu.
        - destruct (Hun eq_refl) as [H1 Hnv1]. specialize (Hrange x Hin).
          assert (x = v \/ x = v - 1) as [->| ->] by lia; split; try assumption; lia.
        - rewrite (Hnu eq_refl x Hin). split; [assumption|lia]. }
      split; [exact Hh|]. split; [split; [exact Hnd|split; [exact Hn|]]|].
      * intros x Hx1 Hx2. destruct (Hx x Hx2) as [Hni _]. apply Hni. apply in_or_app. left. exact Hx1.
      * intros x Hin. apply in_app_or in Hin. destruct Hin as [Hin|Hin]; [apply Hfs; exact Hin|].
        destruct (Hx x Hin) as [Hni Hbx]. split; [|exact Hbx]. intros Hp. apply Hni. apply in_or_app. right. exact Hp.
    + intros (Hh & (_ & Hn & Hdis) & Hx). split.
      * destruct (Hx v ltac:(apply in_or_app; left; exact Hv)) as [Hnv Hbv]. split; [exact Hbv|]. split; [exact Hnv|].
        intros Eu. destruct (Hx (v - 1) ltac:(apply in_or_app; left; apply Hu; exact Eu)) as [Hnv1 Hbv1]. split; [lia|exact Hnv1].
      * split; [exact Hh|]. split; [exact Hn|]. intros x Hin.
        destruct (Hx x ltac:(apply in_or_app; right; exact Hin)) as [Hni Hbx]. split; [|exact Hbx].
        intros Hp. apply in_app_or in Hp. destruct Hp as [Hp|Hp]; [exact (Hdis x Hp Hin)|exact (Hni Hp)].
Qed.

Lemma vmax_lt n : forall fs m, Forall has_id fs ->
  (vmax fs m < n <-> m < n /\ forall x, In x (slots (explicit_ids fs)) -> x < n).
Proof.
  induction fs as [|f r IH]; intros m Hh; cbn [vmax explicit_ids].
  - simpl. split; [intros; split; [assumption|intros ? []]|intros [? _]; assumption].
  - inversion Hh as [|? ? [v Ef] Hr]; subst. rewrite Ef, slots_cons, (IH _ Hr).
    destruct (fslots_props f v) as (_ & Hrange & Hv & _). split.
    + intros [Hm Hx]. split; [lia|]. intros x Hin. apply in_app_or in Hin. destruct Hin as [Hin|Hin]; [specialize (Hrange x Hin); lia|apply Hx; exact Hin].
    + intros [Hm Hx]. split; [|intros x Hin; apply Hx; apply in_or_app; right; exact Hin].
      specialize (Hx v ltac:(apply in_or_app; left; exact Hv)). lia.
Qed.

(* ---------------------------------------------------------------- decision theorem *)
Theorem assign_ids_iff vt fs r n : vt <= 65535 -> nslots fs <= vt ->
  (assign_ids vt fs = Some (r, n) <-> ids_spec fs r n).
Proof.
  intros Hvt Hfit. unfold assign_ids, ids_spec. destruct fs as [|f rest].
  - simpl. split.
    + intros H; some_inj H. inversion H; subst. split; [reflexivity|left; split; [constructor|reflexivity]].
    + intros [-> [[_ ->]|[Hne _]]]; [reflexivity|congruence].
  - pose proof (fwidth_pos f) as Hw. pose proof (nslots_nonneg rest) as Hr. cbn [nslots] in Hfit.
    destruct (f_id f) as [v|] eqn:Ef.
    + (* explicit ids *)
      pose proof (explicit_loop vt Hvt (f :: rest) id_init [] ltac:(simpl; lia) ltac:(simpl; lia)
                    ltac:(left; repeat split; rewrite Ef; discriminate)) as Hl.
      assert (Hh0 : ~ Forall no_id (f :: rest)) by (intros H; inversion H as [|? ? Hn _]; unfold no_id in Hn; congruence).
      destruct (id_loop vt id_init (f :: rest)) as [[s' r']|].
      * destruct Hl as (Hok & -> & Hc & Hn & Hm). cbn [s_count id_init] in Hc. rewrite Hn.
        apply ex_ok_spec in Hok. destruct Hok as (Hh & Hnd & Hx).
        assert ((s_count s' =? 0) = false) as -> by (cbn [nslots] in Hc; lia). cbn [negb andb].
        pose proof (vmax_lt (s_count s') (f :: rest) 0 Hh) as Hv. cbn [s_max id_init] in Hm. rewrite <- Hm in Hv.
        destruct (s_count s' <=? s_max s') eqn:E.
        -- split; [discriminate|]. intros [-> [[Hno _]|(_ & _ & -> & _ & Hb)]]; [contradiction|].
           assert (s_max s' < s_count s'); [|lia]. rewrite Hc. rewrite Hc in Hv. apply Hv. split; [cbn [nslots]; lia|]. intros x Hin. apply (Hb x Hin).
        -- split.
           ++ intros H; some_inj H. inversion H; subst. split; [exact Hc|]. right. repeat split; try assumption; try discriminate.
              ** apply (Hx x H0).
              ** destruct Hv as [Hv _]. apply Hv; [lia|exact H0].
           ++ intros [-> [[Hno _]|(_ & _ & -> & _)]]; [contradiction|]. rewrite Hc. reflexivity.
      * split; [discriminate|]. intros [-> [[Hno _]|(_ & Hh & -> & Hnd & Hb)]]; [contradiction|].
        assert (ex_ok vt [] (f :: rest) = true); [|congruence]. apply ex_ok_spec. repeat split; try assumption.
        -- intros [].
        -- apply (Hb x H).
        -- specialize (Hb x H). cbn [nslots] in Hb. lia.
    + (* no id on the first field *)
      cbn [id_loop]. unfold id_step at 1. rewrite Ef. cbn [id_init s_count s_need s_max s_marker andb].
      destruct (vt <=? 0) eqn:E0; [lia|].
      assert (Hh0 : ~ Forall has_id (f :: rest)) by (intros H; inversion H as [|? ? [v Hv] _]; congruence).
      rewrite (noid_loop vt Hvt rest); cbn [s_count s_need s_max s_marker]; [|reflexivity|destruct (f_union f); lia|unfold fwidth in *; destruct (f_union f); lia].
      assert ((if f_union f then u16 (0 + 1) else u16 0) = 0 + fwidth f - 1) as -> by (unfold fwidth; destruct (f_union f); reflexivity).
      assert ((if f_union f then 0 + 1 + 1 else 0 + 1) = 0 + fwidth f) as -> by (unfold fwidth; destruct (f_union f); reflexivity).
      destruct (forallb noidb rest) eqn:Efa.
      * cbn [s_need andb]. apply forallb_noid in Efa. split.
        -- intros H; some_inj H. inversion H; subst. split; [cbn [nslots]; lia|]. left. split; [constructor; [exact Ef|exact Efa]|reflexivity].
        -- intros [-> [[_ ->]|(_ & Hh & _)]]; [|contradiction]. cbn [seq_ids nslots]. rewrite Z.add_0_l. reflexivity.
      * split; [discriminate|]. intros [_ [[Hno _]|(_ & Hh & _)]]; [|contradiction].
        inversion Hno as [|? ? _ Hrest]; subst. apply forallb_noid in Hrest. congruence.
Qed.

(* ---------------------------------------------------------------- accepted ids are a bijection onto [0, n) *)
Definition zrange (n : Z) : list Z := map Z.of_nat (seq 0 (Z.to_nat n)).

Lemma In_zrange x n : In x (zrange n) <-> 0 <= x < n.
Proof.
  unfold zrange. rewrite in_map_iff. split.
  - intros [k [<- Hk]]. apply in_seq in Hk. lia.
  - intros H. exists (Z.to_nat x). split; [lia|]. apply in_seq. lia.
Qed.

Lemma NoDup_zrange n : NoDup (zrange n).
Proof.
  unfold zrange. apply FinFun.Injective_map_NoDup; [intros a b; apply Nat2Z.inj|apply seq_NoDup].
Qed.

Lemma NoDup_bounded_perm l n : NoDup l -> (forall x, In x l -> 0 <= x < n) -> Z.of_nat (length l) = n ->
  Permutation l (zrange n).
Proof.
  intros Hnd Hb Hlen. apply NoDup_Permutation; [exact Hnd|apply NoDup_zrange|].
  assert (Hincl : incl l (zrange n)) by (intros x Hx; apply In_zrange; apply Hb; exact Hx).
  intros x. split; [apply Hincl|]. apply (NoDup_length_incl Hnd); [|exact Hincl].
  unfold zrange. rewrite map_length, seq_length. lia.
Qed.

Lemma slots_length_seq : forall fs k, Z.of_nat (length (slots (seq_ids fs k))) = nslots fs.
Proof.
  induction fs as [|f r IH]; intros k; cbn [seq_ids nslots]; [reflexivity|].
  rewrite slots_cons, app_length, Nat2Z.inj_add, IH. unfold fslots, fwidth. destruct (f_union f); reflexivity.
Qed.
Lemma slots_length_explicit : forall fs, Z.of_nat (length (slots (explicit_ids fs))) = nslots fs.
Proof.
  induction fs as [|f r IH]; cbn [explicit_ids nslots]; [reflexivity|].
  rewrite slots_cons, app_length, Nat2Z.inj_add, IH. unfold fslots, fwidth. destruct (f_union f); reflexivity.
Qed.

Lemma seq_ids_slots : forall fs k, NoDup (slots (seq_ids fs k)) /\ forall x, In x (slots (seq_ids fs k)) -> k <= x < k + nslots fs.
Proof.
  induction fs as [|f r IH]; intros k; cbn [seq_ids nslots].
  - split; [apply NoDup_nil|intros ? []].
  - rewrite slots_cons. destruct (IH (k + fwidth f)) as [Hn Hb]. pose proof (nslots_nonneg r).
    destruct (fslots_props f (k + fwidth f - 1)) as (Hnd & Hrange & _ & _ & Hnu). pose proof (fwidth_pos f) as Hw.
    assert (Hfs : forall x, In x (fslots f (k + fwidth f - 1)) -> k <= x < k + fwidth f).
    { intros x Hin. unfold fwidth in *. destruct (f_union f) eqn:Eu; [specialize (Hrange x Hin); lia|rewrite (Hnu eq_refl x Hin); lia]. }
    split.
    + apply NoDup_app_iff. split; [exact Hnd|split; [exact Hn|]]. intros x H1 H2. specialize (Hfs x H1). specialize (Hb x H2). lia.
    + intros x Hin. apply in_app_or in Hin. destruct Hin as [Hin|Hin]; [specialize (Hfs x Hin)|specialize (Hb x Hin)]; lia.
Qed.

Lemma seq_ids_shape : forall fs k, Forall2 (fun f p => p = pair_of f (fst p)) fs (seq_ids fs k).
Proof. induction fs as [|f r IH]; intros k; cbn [seq_ids]; constructor; [reflexivity|apply IH]. Qed.
Lemma explicit_ids_shape : forall fs, Forall2 (fun f p => p = pair_of f (fst p)) fs (explicit_ids fs).
Proof. induction fs as [|f r IH]; cbn [explicit_ids]; constructor; [reflexivity|apply IH]. Qed.

(* accepted => the used slots are exactly 0 .. n-1, each once; each field's hidden type id (unions only) is its id - 1 *)
Theorem ids_spec_bijection fs r n : ids_spec fs r n ->
  Permutation (slots r) (zrange n) /\ Forall2 (fun f p => p = pair_of f (fst p)) fs r.
Proof.
  intros [-> [[_ ->]|(_ & _ & -> & Hnd & Hb)]].
  - destruct (seq_ids_slots fs 0) as [Hn Hb]. split; [|apply seq_ids_shape].
    apply NoDup_bounded_perm; [exact Hn|intros x Hx; specialize (Hb x Hx); lia|apply slots_length_seq].
  - split; [|apply explicit_ids_shape]. apply NoDup_bounded_perm; [exact Hnd|exact Hb|apply slots_length_explicit].
Qed.

Theorem assign_ids_ok vt fs r n : vt <= 65535 -> nslots fs <= vt -> assign_ids vt fs = Some (r, n) ->
  n = nslots fs /\ Permutation (slots r) (zrange n) /\ Forall2 (fun f p => p = pair_of f (fst p)) fs r.
Proof.
  intros Hvt Hfit H. apply (assign_ids_iff vt fs r n Hvt Hfit) in H. split; [destruct H; assumption|].
  apply ids_spec_bijection; assumption.
Qed.

(* a table that does not fit the vtable is rejected *)
Lemma id_step_count vt s f s1 p : id_step vt s f = Some (s1, p) -> s_count s < vt /\ s_count s + 1 <= s_count s1.
Proof.
  unfold id_step. intros Es. destruct (vt <=? s_count s) eqn:E; [discriminate|]. split; [lia|].
  destruct (f_union f); destruct (f_id f) as [v|];
    destruct (if (match f_id f with Some _ => true | None => false end) && (s_count s =? 0) then true else s_need s);
    cbn [andb] in Es;
    repeat match type of Es with context [if ?c then _ else _] => destruct c end;
    try discriminate; some_inj Es; inversion Es; subst; cbn [s_count]; lia.
Qed.

Lemma id_loop_count vt : forall fs s s' r, id_loop vt s fs = Some (s', r) -> Z.of_nat (length fs) <= vt - s_count s \/ fs = [].
Proof.
  induction fs as [|f rest IH]; intros s s' r H; [right; reflexivity|left].
  cbn [id_loop] in H. destruct (id_step vt s f) as [[s1 p]|] eqn:Es; [|discriminate].
  destruct (id_loop vt s1 rest) as [[s2 ps]|] eqn:El; [|discriminate].
  destruct (id_step_count vt s f s1 p Es) as [Hlt Hc1].
  destruct (IH s1 s2 ps El) as [Hle| ->]; simpl length; lia.
Qed.

Theorem too_many_fields_rejected vt fs : 0 <= vt -> vt < Z.of_nat (length fs) -> assign_ids vt fs = None.
Proof.
  intros H0 H. unfold assign_ids. destruct (id_loop vt id_init fs) as [[s r]|] eqn:E; [|reflexivity].
  destruct (id_loop_count vt fs id_init s r E) as [Hle| ->]; [unfold id_init in Hle; cbn [s_count] in Hle; lia|simpl in H; lia].
Qed.
