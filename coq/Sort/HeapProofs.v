(* C16 proofs, part 1: the emitted heap sort, generic over the vector state.
   Everything is proved for ANY state type V with a key read [rd] and a swap [sw] satisfying
     rd (sw v a b) i = rd v b / rd v a / rd v i   for i = a / i = b / otherwise   (a, b in range)
     vlen (sw v a b) = vlen v
   and any diff function that is a total preorder by sign. *)
From Flatcc.Sort Require Import SortModel.
From Coq Require Import Arith ZifyNat.
Local Open Scope nat_scope.

Ltac Zify.zify_post_hook ::= Z.div_mod_to_equations.

Section HeapGeneric.
  Variables (V K : Type).
  Variable vlen : V -> nat.
  Variable rd : V -> nat -> K.
  Variable sw : V -> nat -> nat -> V.
  Variable diff : K -> K -> Z.

  Notation sift := (sift_down V K rd sw diff).
  Notation hpfy := (heapify V K rd sw diff).
  Notation sloop := (sort_loop V K rd sw diff).
  Notation hsort := (heap_sort V K vlen rd sw diff).

  (* the child the loop body selects *)
  Definition sd_child (v : V) (root end_ : nat) : nat :=
    if 2 * root <? end_ then
      if (diff (rd v (2 * root)) (rd v (2 * root + 1)) <? 0)%Z then 2 * root + 1 else 2 * root
    else 2 * root.

  Lemma sift_unfold f v root e :
    sift (S f) v root e =
    if 2 * root <=? e then
      if (diff (rd v root) (rd v (sd_child v root e)) <? 0)%Z
      then sift f (sw v root (sd_child v root e)) (sd_child v root e) e
      else Some v
    else Some v.
  Proof. reflexivity. Qed.

  Lemma sd_child_range v root e : 2 * root <= e ->
    (sd_child v root e = 2 * root \/ sd_child v root e = 2 * root + 1) /\ sd_child v root e <= e.
  Proof.
    intros H. unfold sd_child. destruct (2 * root <? e) eqn:E.
    - apply Nat.ltb_lt in E. destruct (diff _ _ <? 0)%Z; lia.
    - lia.
  Qed.

  (* ---------------------------------------------------------------- every write is a swap inside [0..end] *)
  Lemma sift_swaps (P : V -> Prop) e :
    (forall v a b, a <= e -> b <= e -> P v -> P (sw v a b)) ->
    forall fuel v root v', root <= e -> P v -> sift fuel v root e = Some v' -> P v'.
  Proof.
    intros HP. induction fuel as [|f IH]; intros v root v' Hr Hv H; [discriminate|].
    rewrite sift_unfold in H. destruct (2 * root <=? e) eqn:E; [|some_inj H; subst; assumption].
    apply Nat.leb_le in E. destruct (sd_child_range v root e E) as [_ Hc].
    destruct (diff _ _ <? 0)%Z; [|some_inj H; subst; assumption].
    eapply IH; [exact Hc| |exact H]. apply HP; assumption.
  Qed.

  Lemma heapify_swaps (P : V -> Prop) e :
    (forall v a b, a <= e -> b <= e -> P v -> P (sw v a b)) ->
    forall fuel start v v', start <= e -> P v -> hpfy fuel v start e = Some v' -> P v'.
  Proof.
    intros HP fuel. induction start as [|s IH]; intros v v' Hs Hv H; cbn [heapify] in H.
    - destruct (sift fuel v 0 e) eqn:E1; [|discriminate]. some_inj H; subst.
      eapply sift_swaps; eauto.
    - destruct (sift fuel v (S s) e) eqn:E1; [|discriminate].
      eapply IH; [lia| |exact H]. eapply sift_swaps; eauto.
  Qed.

  Lemma sort_loop_swaps (P : V -> Prop) fuel :
    forall e, (forall v a b, a <= e -> b <= e -> P v -> P (sw v a b)) ->
    forall v v', P v -> sloop fuel v e = Some v' -> P v'.
  Proof.
    induction e as [|e IH]; intros HP v v' Hv H; cbn [sort_loop] in H.
    - some_inj H; subst; assumption.
    - destruct (sift fuel (sw v 0 (S e)) 0 e) eqn:E1; [|discriminate].
      eapply IH; [| |exact H].
      + intros; apply HP; auto; lia.
      + eapply (sift_swaps P e); [| |exact (HP v 0 (S e) ltac:(lia) ltac:(lia) Hv)|exact E1]; [|lia].
        intros; apply HP; auto; lia.
  Qed.

  (* The sort is a composition of swaps of two slots inside the vector: any predicate on the whole
     state that in-range swaps preserve is preserved by the sort. *)
  Lemma heap_sort_swaps (P : V -> Prop) v v' :
    (forall w a b, a < vlen v -> b < vlen v -> P w -> P (sw w a b)) ->
    P v -> hsort v = Some v' -> P v'.
  Proof.
    intros HP Hv H. unfold heap_sort in H.
    destruct (vlen v =? 0) eqn:E0; [some_inj H; subst; assumption|].
    apply Nat.eqb_neq in E0.
    destruct (hpfy _ v _ _) as [v1|] eqn:E1; [|discriminate].
    assert (HP' : forall w a b, a <= vlen v - 1 -> b <= vlen v - 1 -> P w -> P (sw w a b))
      by (intros; apply HP; auto; lia).
    eapply sort_loop_swaps; [exact HP'| |exact H].
    eapply heapify_swaps; [exact HP'| |exact Hv|exact E1].
    rewrite Nat.div2_div. lia.
  Qed.

  (* ---------------------------------------------------------------- order hypotheses *)
  Definition kle (a b : K) : Prop := (diff a b <= 0)%Z.

  Hypothesis diff_antisym : forall a b, (diff a b < 0 <-> 0 < diff b a)%Z.
  Hypothesis diff_trans : forall a b c, kle a b -> kle b c -> kle a c.

  Lemma kle_refl a : kle a a.
  Proof. unfold kle. pose proof (diff_antisym a a). lia. Qed.

  Lemma not_lt_kle a b : (diff a b <? 0)%Z = false -> kle b a.
  Proof. unfold kle. intros H. pose proof (diff_antisym a b). lia. Qed.

  Lemma lt_kle a b : (diff a b <? 0)%Z = true -> kle a b.
  Proof. unfold kle. lia. Qed.

  Lemma lt_irrefl a : (diff a a <? 0)%Z = false.
  Proof. pose proof (diff_antisym a a). lia. Qed.

  (* ---------------------------------------------------------------- state hypotheses *)
  Hypothesis rd_sw : forall v a b i, a < vlen v -> b < vlen v ->
    rd (sw v a b) i = if i =? a then rd v b else if i =? b then rd v a else rd v i.
  Hypothesis len_sw : forall v a b, a < vlen v -> b < vlen v -> vlen (sw v a b) = vlen v.

  (* heap on the index range [lo..e]: the parent of j >= 1 is j/2 (children of r are 2r and 2r+1) *)
  Definition hp (v : V) (lo e : nat) : Prop :=
    forall j, 1 <= j -> j <= e -> lo <= j / 2 -> kle (rd v j) (rd v (j / 2)).

  (* heap everywhere except below r, whose children are dominated by r's parent *)
  Definition hp_except (v : V) (lo e r : nat) : Prop :=
    (forall j, 1 <= j -> j <= e -> lo <= j / 2 -> j / 2 <> r -> kle (rd v j) (rd v (j / 2))) /\
    (forall j, 1 <= j -> j <= e -> j / 2 = r -> 1 <= r -> lo <= r / 2 -> kle (rd v j) (rd v (r / 2))).

  (* the selected child dominates both children *)
  Lemma sd_child_max v root e j : 2 * root <= e ->
    j <= e -> (j = 2 * root \/ j = 2 * root + 1) -> kle (rd v j) (rd v (sd_child v root e)).
  Proof.
    intros H Hj Hjc. unfold sd_child. destruct (2 * root <? e) eqn:E.
    - destruct (diff _ _ <? 0)%Z eqn:D.
      + destruct Hjc as [-> | ->]; [apply lt_kle; assumption|apply kle_refl].
      + destruct Hjc as [-> | ->]; [apply kle_refl|apply not_lt_kle; assumption].
    - apply Nat.ltb_ge in E. assert (j = 2 * root) by lia. subst. apply kle_refl.
  Qed.

  Lemma sift_heap : forall fuel v lo e root,
    root <= e -> e < vlen v -> lo <= root -> e + 2 <= fuel + root ->
    hp_except v lo e root ->
    exists v', sift fuel v root e = Some v' /\ hp v' lo e /\ vlen v' = vlen v.
  Proof.
    induction fuel as [|f IH]; intros v lo e root Hr He Hlo Hf [HA HB]; [lia|].
    rewrite sift_unfold. destruct (2 * root <=? e) eqn:E.
    2:{ apply Nat.leb_gt in E. exists v. split; [reflexivity|]. split; [|reflexivity].
        intros j Hj1 Hje Hjl. apply HA; auto. lia. }
    apply Nat.leb_le in E.
    destruct (sd_child_range v root e E) as [Hc Hce].
    pose proof (sd_child_max v root e) as Hmax.
    set (c := sd_child v root e) in *.
    destruct (diff (rd v root) (rd v c) <? 0)%Z eqn:D.
    2:{ exists v. split; [reflexivity|]. split; [|reflexivity].
        intros j Hj1 Hje Hjl. destruct (Nat.eq_dec (j / 2) root) as [Hp|Hp].
        - rewrite Hp. eapply diff_trans; [apply (Hmax j E Hje); lia|]. apply not_lt_kle; assumption.
        - apply HA; auto. }
    assert (Hcr : c <> root).
    { intros Heq. rewrite Heq in D. rewrite lt_irrefl in D. discriminate. }
    assert (Hcgt : root < c) by lia.
    assert (Hrl : root < vlen v) by lia. assert (Hcl : c < vlen v) by lia.
    destruct (IH (sw v root c) lo e c) as [v' [Hs [Hh Hl]]]; try lia.
    { rewrite len_sw; lia. }
    { split.
      - intros j Hj1 Hje Hjl Hjc. rewrite !rd_sw by assumption.
        destruct (j =? root) eqn:J1.
        + apply Nat.eqb_eq in J1. subst j.
          replace (root / 2 =? root) with false by (symmetry; apply Nat.eqb_neq; lia).
          replace (root / 2 =? c) with false by (symmetry; apply Nat.eqb_neq; lia).
          apply (HB c); try lia.
        + apply Nat.eqb_neq in J1. destruct (j =? c) eqn:J2.
          * apply Nat.eqb_eq in J2. subst j.
            replace (c / 2 =? root) with true by (symmetry; apply Nat.eqb_eq; lia).
            apply lt_kle; assumption.
          * apply Nat.eqb_neq in J2.
            replace (j / 2 =? c) with false by (symmetry; apply Nat.eqb_neq; lia).
            destruct (j / 2 =? root) eqn:J3.
            -- apply Nat.eqb_eq in J3. apply (Hmax j E Hje). lia.
            -- apply Nat.eqb_neq in J3. apply HA; auto.
      - intros j Hj1 Hje Hjc Hc1 Hlc. rewrite !rd_sw by assumption.
        replace (j =? root) with false by (symmetry; apply Nat.eqb_neq; lia).
        replace (j =? c) with false by (symmetry; apply Nat.eqb_neq; lia).
        replace (c / 2 =? root) with true by (symmetry; apply Nat.eqb_eq; lia).
        replace (c / 2) with root in * by lia.
        rewrite <- Hjc. apply HA; try lia. }
    exists v'. split; [exact Hs|]. split; [exact Hh|]. rewrite Hl. apply len_sw; assumption.
  Qed.

  (* ---------------------------------------------------------------- heap construction *)
  Lemma heapify_heap fuel e : forall start v,
    start <= e -> e < vlen v -> e + 2 <= fuel ->
    hp v (S start) e ->
    exists v', hpfy fuel v start e = Some v' /\ hp v' 0 e /\ vlen v' = vlen v.
  Proof.
    induction start as [|s IH]; intros v Hs He Hf Hh; cbn [heapify].
    - destruct (sift_heap fuel v 0 e 0) as [v' [H1 [H2 H3]]]; try lia.
      { split; [|intros; lia]. intros j Hj1 Hje _ Hp. apply Hh; auto. lia. }
      rewrite H1. exists v'. auto.
    - destruct (sift_heap fuel v (S s) e (S s)) as [v1 [H1 [H2 H3]]]; try lia.
      { split; [|intros; lia]. intros j Hj1 Hje Hl Hp. apply Hh; auto. lia. }
      rewrite H1. destruct (IH v1) as [v' [H4 [H5 H6]]]; try lia; [exact H2|].
      exists v'. split; [exact H4|]. split; [exact H5|]. congruence.
  Qed.

  (* slot 0 dominates a heap *)
  Lemma heap_max v e : hp v 0 e -> forall j, j <= e -> kle (rd v j) (rd v 0).
  Proof.
    intros Hh j. induction j as [j IH] using lt_wf_ind. intros Hj.
    destruct (Nat.eq_dec j 0) as [->|Hj0]; [apply kle_refl|].
    eapply diff_trans; [apply Hh; lia|]. apply IH; lia.
  Qed.

  (* the sorted suffix (e..n) and everything before it is below it *)
  Definition sort_inv (v : V) (n e : nat) : Prop :=
    vlen v = n /\ e < n /\ hp v 0 e /\
    (forall i j, e < i -> i <= j -> j < n -> kle (rd v i) (rd v j)) /\
    (forall i j, i <= e -> e < j -> j < n -> kle (rd v i) (rd v j)).

  Definition sorted_upto (v : V) (n : nat) : Prop :=
    forall i j, i <= j -> j < n -> kle (rd v i) (rd v j).

  Lemma sort_loop_sorted fuel n : forall e v,
    n + 1 <= fuel -> sort_inv v n e ->
    exists v', sloop fuel v e = Some v' /\ sorted_upto v' n /\ vlen v' = n.
  Proof.
    induction e as [|e IH]; intros v Hf (Hl & Hen & Hh & Hs & Hc); cbn [sort_loop].
    - exists v. split; [reflexivity|]. split; [|assumption].
      intros i j Hij Hj. destruct (Nat.eq_dec i 0) as [->|Hi].
      + destruct (Nat.eq_dec j 0) as [->|Hj0]; [apply kle_refl|apply Hc; lia].
      + apply Hs; lia.
    - pose proof (heap_max v (S e) Hh) as Hmax.
      assert (H0 : 0 < vlen v) by lia. assert (HSe : S e < vlen v) by lia.
      set (v1 := sw v 0 (S e)).
      assert (Hl1 : vlen v1 = n) by (unfold v1; rewrite len_sw; lia).
      assert (Hrd1 : forall i, rd v1 i = if i =? 0 then rd v (S e) else if i =? S e then rd v 0 else rd v i)
        by (intros i; unfold v1; apply rd_sw; assumption).
      destruct (sift_heap fuel v1 0 e 0) as [v2 [H1 [H2 H3]]]; try lia.
      { split; [|intros; lia]. intros j Hj1 Hje _ Hp. rewrite !Hrd1.
        replace (j =? 0) with false by (symmetry; apply Nat.eqb_neq; lia).
        replace (j =? S e) with false by (symmetry; apply Nat.eqb_neq; lia).
        replace (j / 2 =? 0) with false by (symmetry; apply Nat.eqb_neq; lia).
        replace (j / 2 =? S e) with false by (symmetry; apply Nat.eqb_neq; lia).
        apply Hh; lia. }
      rewrite H1.
      (* slots above e are not touched by the sift; bounds on slots 0..e are kept *)
      assert (Hfr : forall i, e < i -> rd v2 i = rd v1 i).
      { apply (sift_swaps (fun w => vlen w = n /\ forall i, e < i -> rd w i = rd v1 i) e) with (fuel := fuel) (v := v1) (root := 0);
          [|lia|split; [assumption|reflexivity]|exact H1].
        intros w a b Ha Hb [Hw1 Hw2]. split; [rewrite len_sw; lia|].
        intros i Hi. rewrite rd_sw by lia.
        replace (i =? a) with false by (symmetry; apply Nat.eqb_neq; lia).
        replace (i =? b) with false by (symmetry; apply Nat.eqb_neq; lia). apply Hw2; assumption. }
      assert (Hbd : forall x, (forall i, i <= e -> kle (rd v1 i) x) -> forall i, i <= e -> kle (rd v2 i) x).
      { intros x Hx.
        apply (sift_swaps (fun w => vlen w = n /\ forall i, i <= e -> kle (rd w i) x) e) with (fuel := fuel) (v := v1) (root := 0);
          [|lia|split; assumption|exact H1].
        intros w a b Ha Hb [Hw1 Hw2]. split; [rewrite len_sw; lia|].
        intros i Hi. rewrite rd_sw by lia.
        destruct (i =? a); [apply Hw2; assumption|]. destruct (i =? b); apply Hw2; assumption. }
      apply IH; [assumption|]. split; [congruence|]. split; [lia|]. split; [exact H2|]. split.
      + intros i j Hi Hij Hj. rewrite !Hfr by lia. rewrite !Hrd1.
        replace (i =? 0) with false by (symmetry; apply Nat.eqb_neq; lia).
        replace (j =? 0) with false by (symmetry; apply Nat.eqb_neq; lia).
        destruct (i =? S e) eqn:I1.
        * apply Nat.eqb_eq in I1. destruct (j =? S e) eqn:J1; [apply kle_refl|].
          apply Nat.eqb_neq in J1. apply Hc; lia.
        * apply Nat.eqb_neq in I1.
          replace (j =? S e) with false by (symmetry; apply Nat.eqb_neq; lia).
          apply Hs; lia.
      + intros i j Hi Hej Hj. rewrite (Hfr j) by lia. apply Hbd; [|assumption].
        intros i' Hi'. rewrite !Hrd1.
        replace (i' =? S e) with false by (symmetry; apply Nat.eqb_neq; lia).
        replace (j =? 0) with false by (symmetry; apply Nat.eqb_neq; lia).
        destruct (j =? S e) eqn:J1.
        * destruct (i' =? 0); apply Hmax; lia.
        * apply Nat.eqb_neq in J1. destruct (i' =? 0); apply Hc; lia.
  Qed.

  (* heap sort terminates (no out-of-fuel) and leaves the keys in non-decreasing order *)
  Lemma heap_sort_sorted v :
    exists v', hsort v = Some v' /\ vlen v' = vlen v /\ sorted_upto v' (vlen v).
  Proof.
    unfold heap_sort. destruct (vlen v =? 0) eqn:E0.
    - apply Nat.eqb_eq in E0. exists v. split; [reflexivity|]. split; [reflexivity|].
      intros i j _ Hj. lia.
    - apply Nat.eqb_neq in E0.
      assert (Hd : Nat.div2 (vlen v) <= vlen v - 1) by (rewrite Nat.div2_div; lia).
      destruct (heapify_heap (S (S (vlen v))) (vlen v - 1) (Nat.div2 (vlen v)) v) as [v1 [H1 [H2 H3]]]; try lia.
      { intros j Hj1 Hje Hl. rewrite Nat.div2_div in Hl. lia. }
      rewrite H1.
      destruct (sort_loop_sorted (S (S (vlen v))) (vlen v) (vlen v - 1) v1) as [v' [H4 [H5 H6]]]; try lia.
      { split; [assumption|]. split; [lia|]. split; [exact H2|]. split; intros; lia. }
      exists v'. auto.
  Qed.
End HeapGeneric.
