(* C16 proofs, part 2: the two concrete vector states (inline elements with value swap; stored
   offsets with the offset adjusting swap), permutation and frame facts, scalar and string orders. *)
From Flatcc.Sort Require Import SortModel HeapProofs.
From Coq Require Import Arith ZifyNat Permutation Sorting.Sorted.
Local Open Scope nat_scope.

Ltac Zify.zify_post_hook ::= Z.div_mod_to_equations.

(* ------------------------------------------------------------------ upd / nth *)
Lemma length_upd {A} (l : list A) i x : length (upd l i x) = length l.
Proof. revert i. induction l as [|h t IH]; intros [|k]; simpl; auto. Qed.

Lemma nth_upd {A} (l : list A) i x j d :
  nth j (upd l i x) d = if (j =? i) && (i <? length l) then x else nth j l d.
Proof.
  revert i j. induction l as [|h t IH]; intros i j.
  - simpl. rewrite andb_false_r. destruct i; reflexivity.
  - destruct i as [|i]; destruct j as [|j]; simpl; try reflexivity.
    rewrite IH. reflexivity.
Qed.

Lemma nth_upd_in {A} (l : list A) i x j d : i < length l ->
  nth j (upd l i x) d = if j =? i then x else nth j l d.
Proof.
  intros H. rewrite nth_upd. replace (i <? length l) with true by (symmetry; apply Nat.ltb_lt; assumption).
  rewrite andb_true_r. reflexivity.
Qed.

Lemma perm_upd {A} (l : list A) i x d : i < length l ->
  Permutation (nth i l d :: upd l i x) (x :: l).
Proof.
  revert i. induction l as [|h t IH]; intros i Hi; [simpl in Hi; lia|].
  destruct i as [|i]; simpl.
  - apply perm_swap.
  - simpl in Hi. eapply perm_trans; [apply perm_swap|].
    eapply perm_trans; [apply perm_skip; apply IH; lia|]. apply perm_swap.
Qed.

Lemma Forall_upd {A} (P : A -> Prop) l i x : Forall P l -> P x -> Forall P (upd l i x).
Proof.
  intros Hl Hx. revert i. induction Hl as [|h t Hh Ht IH]; intros [|i]; simpl; constructor; auto.
Qed.

(* ------------------------------------------------------------------ value swap *)
Lemma length_value_swap {E} (d : E) l a b : length (value_swap d l a b) = length l.
Proof. unfold value_swap. rewrite !length_upd. reflexivity. Qed.

Lemma nth_value_swap {E} (d d' : E) l a b i : a < length l -> b < length l ->
  nth i (value_swap d l a b) d' = if i =? a then nth b l d' else if i =? b then nth a l d' else nth i l d'.
Proof.
  intros Ha Hb. unfold value_swap. rewrite nth_upd_in by (rewrite length_upd; assumption).
  rewrite nth_upd_in by assumption.
  rewrite (nth_indep l d d' Ha), (nth_indep l d d' Hb). reflexivity.
Qed.

Lemma perm_value_swap {E} (d : E) l a b : a < length l -> b < length l ->
  Permutation l (value_swap d l a b).
Proof.
  intros Ha Hb. unfold value_swap.
  set (xa := nth a l d). set (xb := nth b l d). set (l1 := upd l b xa).
  assert (H1 : Permutation (xb :: l1) (xa :: l)) by (apply perm_upd; assumption).
  assert (H2 : Permutation (nth a l1 d :: upd l1 a xb) (xb :: l1))
    by (apply perm_upd; unfold l1; rewrite length_upd; assumption).
  assert (H3 : nth a l1 d = xa).
  { unfold l1. rewrite nth_upd_in by assumption. destruct (a =? b); reflexivity. }
  rewrite H3 in H2. apply Permutation_sym. eapply Permutation_cons_inv.
  eapply perm_trans; [exact H2|exact H1].
Qed.

(* ------------------------------------------------------------------ offset swap *)
Lemma length_uoffset_swap os a b : length (uoffset_swap os a b) = length os.
Proof. unfold uoffset_swap. rewrite !length_upd. reflexivity. Qed.

Lemma length_targets_from i os : length (targets_from i os) = length os.
Proof. revert i. induction os as [|o t IH]; intros i; simpl; auto. Qed.

Lemma nth_targets_from os : forall i j, j < length os ->
  nth j (targets_from i os) 0%Z = target (i + j) (nth j os 0%Z).
Proof.
  induction os as [|o t IH]; intros i j Hj; [simpl in Hj; lia|].
  destruct j as [|j]; simpl.
  - rewrite Nat.add_0_r. reflexivity.
  - simpl in Hj. rewrite IH by lia. f_equal. lia.
Qed.

Lemma length_targets os : length (targets os) = length os.
Proof. apply length_targets_from. Qed.

Lemma nth_targets os j : j < length os -> nth j (targets os) 0%Z = target j (nth j os 0%Z).
Proof. intros H. unfold targets. rewrite nth_targets_from by assumption. reflexivity. Qed.

(* the slot that receives the other slot's offset, adjusted by the distance, refers to the other slot's target *)
Lemma target_moved a b o :
  target a (u32 (o - u32 ((Z.of_nat a - Z.of_nat b) * 4))) = target b o.
Proof. unfold target, u32. lia. Qed.

Lemma target_moved' a b o :
  target b (u32 (o + u32 ((Z.of_nat a - Z.of_nat b) * 4))) = target a o.
Proof. unfold target, u32. lia. Qed.

Lemma nth_uoffset_swap_target os a b i : a < length os -> b < length os -> i < length os ->
  target i (nth i (uoffset_swap os a b) 0%Z) =
  if i =? a then target b (nth b os 0%Z) else if i =? b then target a (nth a os 0%Z) else target i (nth i os 0%Z).
Proof.
  intros Ha Hb Hi. unfold uoffset_swap.
  rewrite nth_upd_in by (rewrite length_upd; assumption). rewrite nth_upd_in by assumption.
  destruct (i =? b) eqn:Eb.
  - apply Nat.eqb_eq in Eb. subst i. rewrite target_moved'.
    destruct (b =? a) eqn:Eab; [apply Nat.eqb_eq in Eab; subst; reflexivity|reflexivity].
  - destruct (i =? a) eqn:Ea; [|reflexivity].
    apply Nat.eqb_eq in Ea. subst i. apply target_moved.
Qed.

(* On the targets the offset swap is exactly the value swap. *)
Lemma targets_uoffset_swap os a b : a < length os -> b < length os ->
  targets (uoffset_swap os a b) = value_swap 0%Z (targets os) a b.
Proof.
  intros Ha Hb. apply (nth_ext _ _ 0%Z 0%Z).
  - rewrite length_targets, length_uoffset_swap, length_value_swap, length_targets. reflexivity.
  - intros i Hi. rewrite length_targets, length_uoffset_swap in Hi.
    rewrite nth_targets by (rewrite length_uoffset_swap; assumption).
    rewrite nth_uoffset_swap_target by assumption.
    rewrite nth_value_swap by (rewrite length_targets; assumption).
    rewrite !nth_targets by assumption. reflexivity.
Qed.

Lemma uoffset_swap_in_u32 os a b : Forall in_u32 os -> Forall in_u32 (uoffset_swap os a b).
Proof.
  intros H. unfold uoffset_swap. apply Forall_upd; [apply Forall_upd; [assumption|]|]; apply u32_range.
Qed.

(* ------------------------------------------------------------------ instances of the generic theorems *)
Section ListInstance.
  Variables (E K : Type).
  Variable key : E -> K.
  Variable diff : K -> K -> Z.
  Variable d : E.
  Hypothesis diff_antisym : forall a b, (diff a b < 0 <-> 0 < diff b a)%Z.
  Hypothesis diff_trans : forall a b c, (diff a b <= 0 -> diff b c <= 0 -> diff a c <= 0)%Z.

  Let lrd := fun (l : list E) i => key (nth i l d).

  Lemma list_rd_sw : forall v a b i, a < length v -> b < length v ->
    lrd (value_swap d v a b) i = if i =? a then lrd v b else if i =? b then lrd v a else lrd v i.
  Proof.
    intros v a b i Ha Hb. unfold lrd. rewrite nth_value_swap by assumption.
    destruct (i =? a); [reflexivity|]. destruct (i =? b); reflexivity.
  Qed.

  Lemma list_sort_sorted l :
    exists l', heap_sort_list key diff d l = Some l' /\ length l' = length l /\
      forall i j, i <= j -> j < length l -> (diff (key (nth i l' d)) (key (nth j l' d)) <= 0)%Z.
  Proof.
    destruct (heap_sort_sorted (list E) K (@length E) lrd (value_swap d) diff diff_antisym diff_trans
                list_rd_sw (fun v a b _ _ => length_value_swap d v a b) l) as [l' [H1 [H2 H3]]].
    exists l'. split; [exact H1|]. split; [exact H2|]. exact H3.
  Qed.

End ListInstance.

Lemma list_sort_perm {E K} (key : E -> K) (diff : K -> K -> Z) (d : E) l l' :
  heap_sort_list key diff d l = Some l' -> Permutation l l'.
Proof.
  intros H.
  apply (heap_sort_swaps (list E) K (@length E) (fun l i => key (nth i l d)) (value_swap d) diff
           (fun w => Permutation l w /\ length w = length l) l l'); [|split; reflexivity|exact H].
  intros w a b Ha Hb [Hp Hl]. split; [|rewrite length_value_swap; assumption].
  eapply perm_trans; [exact Hp|]. apply perm_value_swap; lia.
Qed.

(* the result does not depend on the out-of-range filler: no slot outside 0..len-1 is ever read *)
Lemma sift_indep {E K} (key : E -> K) diff (d1 d2 : E) :
  forall fuel l root e, root <= e -> e < length l ->
    sift_down (list E) K (fun l i => key (nth i l d1)) (value_swap d1) diff fuel l root e =
    sift_down (list E) K (fun l i => key (nth i l d2)) (value_swap d2) diff fuel l root e.
Proof.
  induction fuel as [|f IH]; intros l root e Hr He; [reflexivity|].
  rewrite !sift_unfold. destruct (2 * root <=? e) eqn:E1; [|reflexivity].
  apply Nat.leb_le in E1.
  assert (Hc : sd_child (list E) K (fun l i => key (nth i l d1)) diff l root e =
               sd_child (list E) K (fun l i => key (nth i l d2)) diff l root e).
  { unfold sd_child. destruct (2 * root <? e) eqn:E2; [|reflexivity]. apply Nat.ltb_lt in E2.
    rewrite (nth_indep l d1 d2 (n := 2 * root)) by lia.
    rewrite (nth_indep l d1 d2 (n := 2 * root + 1)) by lia. reflexivity. }
  rewrite Hc.
  destruct (sd_child_range (list E) K (@length E) (fun l i => key (nth i l d2)) (value_swap d2) diff l root e E1) as [_ Hce].
  set (c := sd_child (list E) K (fun l i => key (nth i l d2)) diff l root e) in *.
  rewrite (nth_indep l d1 d2 (n := root)) by lia. rewrite (nth_indep l d1 d2 (n := c)) by lia.
  destruct (diff _ _ <? 0)%Z; [|reflexivity].
  assert (Hsw : value_swap d1 l root c = value_swap d2 l root c).
  { unfold value_swap. rewrite (nth_indep l d1 d2 (n := root)) by lia.
    rewrite (nth_indep l d1 d2 (n := c)) by lia. reflexivity. }
  rewrite Hsw. apply IH; [exact Hce|]. rewrite length_value_swap. exact He.
Qed.

Lemma sift_length {E K} (key : E -> K) diff (d : E) fuel l root e l' : root <= e -> e < length l ->
  sift_down (list E) K (fun l i => key (nth i l d)) (value_swap d) diff fuel l root e = Some l' ->
  length l' = length l.
Proof.
  intros Hr He H.
  apply (sift_swaps (list E) K (@length E) (fun l i => key (nth i l d)) (value_swap d) diff
           (fun w => length w = length l) e) with (fuel := fuel) (v := l) (root := root); auto.
  intros v a b _ _ Hv. rewrite length_value_swap. exact Hv.
Qed.

Lemma heapify_indep {E K} (key : E -> K) diff (d1 d2 : E) fuel e :
  forall start l, start <= e -> e < length l ->
    heapify (list E) K (fun l i => key (nth i l d1)) (value_swap d1) diff fuel l start e =
    heapify (list E) K (fun l i => key (nth i l d2)) (value_swap d2) diff fuel l start e.
Proof.
  induction start as [|s IH]; intros l Hs He; cbn [heapify].
  - rewrite (sift_indep key diff d1 d2) by lia. reflexivity.
  - rewrite (sift_indep key diff d1 d2) by lia.
    destruct (sift_down _ _ _ (value_swap d2) _ _ _ _ _) as [l1|] eqn:E1; [|reflexivity].
    apply IH; [lia|]. erewrite sift_length; [exact He| | |exact E1]; lia.
Qed.

Lemma sort_loop_indep {E K} (key : E -> K) diff (d1 d2 : E) fuel :
  forall e l, e < length l ->
    sort_loop (list E) K (fun l i => key (nth i l d1)) (value_swap d1) diff fuel l e =
    sort_loop (list E) K (fun l i => key (nth i l d2)) (value_swap d2) diff fuel l e.
Proof.
  induction e as [|e IH]; intros l He; cbn [sort_loop]; [reflexivity|].
  assert (Hsw : value_swap d1 l 0 (S e) = value_swap d2 l 0 (S e)).
  { unfold value_swap. rewrite (nth_indep l d1 d2 (n := 0)) by lia.
    rewrite (nth_indep l d1 d2 (n := S e)) by lia. reflexivity. }
  rewrite Hsw. rewrite (sift_indep key diff d1 d2) by (try rewrite length_value_swap; lia).
  destruct (sift_down _ _ _ (value_swap d2) _ _ _ _ _) as [l1|] eqn:E1; [|reflexivity].
  apply IH. erewrite sift_length; [| | |exact E1]; rewrite ?length_value_swap; lia.
Qed.

Lemma heap_sort_list_indep {E K} (key : E -> K) diff (d1 d2 : E) l :
  heap_sort_list key diff d1 l = heap_sort_list key diff d2 l.
Proof.
  unfold heap_sort_list, heap_sort. destruct (length l =? 0) eqn:E0; [reflexivity|].
  apply Nat.eqb_neq in E0.
  assert (Hd : Nat.div2 (length l) <= length l - 1) by (rewrite Nat.div2_div; lia).
  rewrite (heapify_indep key diff d1 d2) by lia.
  destruct (heapify _ _ _ (value_swap d2) _ _ _ _ _) as [l1|] eqn:E1; [|reflexivity].
  apply sort_loop_indep.
  assert (Hl : length l1 = length l).
  { apply (heapify_swaps (list E) K (@length E) (fun l i => key (nth i l d2)) (value_swap d2) diff
             (fun w => length w = length l) (length l - 1)) with (fuel := S (S (length l))) (start := Nat.div2 (length l)) (v := l); auto.
    intros v a b _ _ Hv. rewrite length_value_swap. exact Hv. }
  lia.
Qed.

Section OffsetInstance.
  Variable K : Type.
  Variable keyof : Z -> K.
  Variable diff : K -> K -> Z.
  Hypothesis diff_antisym : forall a b, (diff a b < 0 <-> 0 < diff b a)%Z.
  Hypothesis diff_trans : forall a b c, (diff a b <= 0 -> diff b c <= 0 -> diff a c <= 0)%Z.

  Let ord := fun (os : list Z) i => keyof (target i (nth i os 0%Z)).

  Lemma offs_rd_sw : forall v a b i, a < length v -> b < length v ->
    ord (uoffset_swap v a b) i = if i =? a then ord v b else if i =? b then ord v a else ord v i.
  Proof.
    intros v a b i Ha Hb. unfold ord. destruct (Nat.lt_ge_cases i (length v)) as [Hi|Hi].
    - rewrite nth_uoffset_swap_target by assumption.
      destruct (i =? a); [reflexivity|]. destruct (i =? b); reflexivity.
    - replace (i =? a) with false by (symmetry; apply Nat.eqb_neq; lia).
      replace (i =? b) with false by (symmetry; apply Nat.eqb_neq; lia).
      rewrite !nth_overflow by (rewrite ?length_uoffset_swap; assumption). reflexivity.
  Qed.

  (* sorted by the keys found at the targets, and no out-of-fuel *)
  Lemma offs_sort_sorted os :
    exists os', heap_sort_offsets keyof diff os = Some os' /\ length os' = length os /\
      forall i j, i <= j -> j < length os ->
        (diff (keyof (nth i (targets os') 0%Z)) (keyof (nth j (targets os') 0%Z)) <= 0)%Z.
  Proof.
    destruct (heap_sort_sorted (list Z) K (@length Z) ord uoffset_swap diff diff_antisym diff_trans
                offs_rd_sw (fun v a b _ _ => length_uoffset_swap v a b) os) as [os' [H1 [H2 H3]]].
    exists os'. split; [exact H1|]. split; [exact H2|].
    intros i j Hij Hj. rewrite !nth_targets by lia. apply (H3 i j Hij Hj).
  Qed.

  (* the targets are permuted; stored words stay 32-bit values *)
  Lemma offs_sort_frame os os' : heap_sort_offsets keyof diff os = Some os' ->
    length os' = length os /\ Permutation (targets os) (targets os') /\
    (Forall in_u32 os -> Forall in_u32 os').
  Proof.
    intros H.
    pose proof (heap_sort_swaps (list Z) K (@length Z) ord uoffset_swap diff
             (fun w => length w = length os /\ Permutation (targets os) (targets w) /\
                       (Forall in_u32 os -> Forall in_u32 w)) os os') as HS.
    apply HS; [|split; [reflexivity|split; [reflexivity|auto]]|exact H].
    intros w a b Ha Hb (Hl & Hp & Hu). split; [rewrite length_uoffset_swap; exact Hl|]. split.
    - rewrite targets_uoffset_swap by lia. eapply perm_trans; [exact Hp|].
      apply perm_value_swap; rewrite length_targets; lia.
    - intros H0. apply uoffset_swap_in_u32. auto.
  Qed.
End OffsetInstance.

(* ------------------------------------------------------------------ scalar keys *)
Lemma scalar_diff_antisym a b : (scalar_diff a b < 0 <-> 0 < scalar_diff b a)%Z.
Proof.
  unfold scalar_diff. destruct (a <? b)%Z eqn:E1; destruct (b <? a)%Z eqn:E2;
  destruct (a >? b)%Z eqn:E3; destruct (b >? a)%Z eqn:E4; lia.
Qed.

Lemma scalar_diff_le a b : (scalar_diff a b <= 0 <-> a <= b)%Z.
Proof. unfold scalar_diff. destruct (a <? b)%Z eqn:E1; destruct (a >? b)%Z eqn:E3; lia. Qed.

Lemma scalar_diff_lt a b : (scalar_diff a b < 0 <-> a < b)%Z.
Proof. unfold scalar_diff. destruct (a <? b)%Z eqn:E1; destruct (a >? b)%Z eqn:E3; lia. Qed.

Lemma scalar_diff_eq a b : (scalar_diff a b = 0 <-> a = b)%Z.
Proof. unfold scalar_diff. destruct (a <? b)%Z eqn:E1; destruct (a >? b)%Z eqn:E3; lia. Qed.

Lemma scalar_diff_trans a b c : (scalar_diff a b <= 0 -> scalar_diff b c <= 0 -> scalar_diff a c <= 0)%Z.
Proof. rewrite !scalar_diff_le. lia. Qed.
