(* C16: the statements used by Properties_C16.v, assembled from HeapProofs / ListProofs / SearchProofs. *)
From Flatcc.Sort Require Import SortModel HeapProofs ListProofs SearchProofs SimProofs.
From Coq Require Import Arith ZifyNat Permutation Sorting.Sorted.
Local Open Scope Z_scope.

Ltac Zify.zify_post_hook ::= Z.div_mod_to_equations.

(* a diff function is a total preorder by sign *)
Definition total_preorder {K} (diff : K -> K -> Z) : Prop :=
  (forall a b, diff a b < 0 <-> 0 < diff b a) /\
  (forall a b c, diff a b <= 0 -> diff b c <= 0 -> diff a c <= 0).

(* non-decreasing keys, by index *)
Definition sorted_by {E K} (key : E -> K) (diff : K -> K -> Z) (d : E) (l : list E) : Prop :=
  forall i j, (i <= j)%nat -> (j < length l)%nat -> diff (key (nth i l d)) (key (nth j l d)) <= 0.

Lemma sorted_by_strongly {E K} (key : E -> K) diff (d : E) l :
  sorted_by key diff d l -> StronglySorted (fun a b => diff (key a) (key b) <= 0) l.
Proof.
  induction l as [|h t IH]; intros H; [constructor|]. constructor.
  - apply IH. intros i j Hij Hj. apply (H (S i) (S j)); simpl; lia.
  - apply Forall_forall. intros x Hx. destruct (In_nth t x d Hx) as [k [Hk Hn]].
    rewrite <- Hn. apply (H 0%nat (S k)); simpl; lia.
Qed.

(* ------------------------------------------------------------------ sort *)
Lemma sort_perm {E K} (key : E -> K) diff (d : E) l l' :
  heap_sort_list key diff d l = Some l' -> Permutation l l'.
Proof. apply list_sort_perm. Qed.

Lemma sort_sorted {E K} (key : E -> K) diff (d : E) l : total_preorder diff ->
  exists l', heap_sort_list key diff d l = Some l' /\ length l' = length l /\
             sorted_by key diff d l' /\ StronglySorted (fun a b => diff (key a) (key b) <= 0) l'.
Proof.
  intros [Ha Ht]. destruct (list_sort_sorted E K key diff d Ha Ht l) as [l' [H1 [H2 H3]]].
  assert (Hs : sorted_by key diff d l') by (intros i j Hij Hj; apply H3; lia).
  exists l'. split; [exact H1|]. split; [exact H2|]. split; [exact Hs|]. apply (sorted_by_strongly key diff d). exact Hs.
Qed.

Lemma sort_reads_in_bounds {E K} (key : E -> K) diff (d1 d2 : E) l :
  heap_sort_list key diff d1 l = heap_sort_list key diff d2 l.
Proof. apply heap_sort_list_indep. Qed.

Lemma sort_frame_swaps (V K : Type) vlen rd sw diff (P : V -> Prop) v v' :
  (forall w a b, (a < vlen v)%nat -> (b < vlen v)%nat -> P w -> P (sw w a b)) ->
  P v -> heap_sort V K vlen rd sw diff v = Some v' -> P v'.
Proof. apply heap_sort_swaps. Qed.

Lemma sort_offsets_sorted {K} (keyof : Z -> K) diff os : total_preorder diff ->
  exists os', heap_sort_offsets keyof diff os = Some os' /\ length os' = length os /\
              sorted_by keyof diff 0 (targets os').
Proof.
  intros [Ha Ht]. destruct (offs_sort_sorted K keyof diff Ha Ht os) as [os' [H1 [H2 H3]]].
  exists os'. split; [exact H1|]. split; [exact H2|].
  intros i j Hij Hj. rewrite length_targets in Hj. apply H3; lia.
Qed.

Lemma sort_offsets_frame {K} (keyof : Z -> K) diff os os' (valid : Z -> Prop) :
  heap_sort_offsets keyof diff os = Some os' ->
  length os' = length os /\ Permutation (targets os) (targets os') /\
  (Forall in_u32 os -> Forall in_u32 os') /\
  (Forall valid (targets os) -> Forall valid (targets os')).
Proof.
  intros H. destruct (offs_sort_frame K keyof diff os os' H) as (H1 & H2 & H3).
  split; [exact H1|]. split; [exact H2|]. split; [exact H3|].
  intros Hv. eapply Permutation_Forall; eassumption.
Qed.

(* one swap: each slot afterwards refers to what the other slot referred to *)
Lemma uoffset_swap_targets os a b : (a < length os)%nat -> (b < length os)%nat ->
  targets (uoffset_swap os a b) = value_swap 0 (targets os) a b.
Proof. apply targets_uoffset_swap. Qed.

(* reading keys by plain pointer arithmetic (as the C accessor does) is the modular model on valid vectors *)
Lemma sort_offsets_ptr_agrees {K} (keyof : Z -> K) diff os : Forall in_u32 os -> targets_behind os ->
  heap_sort_offsets_ptr keyof diff os = heap_sort_offsets keyof diff os.
Proof. apply offsets_ptr_agrees. Qed.

Lemma sort_offsets_no_wrap {K} (keyof : Z -> K) diff os os' : Forall in_u32 os -> targets_behind os ->
  heap_sort_offsets keyof diff os = Some os' ->
  targets_behind os' /\ forall i, (i < length os')%nat -> 4 * Z.of_nat i + nth i os' 0 = nth i (targets os') 0.
Proof. apply offsets_sorted_no_wrap. Qed.

Lemma scalar_total_preorder : total_preorder scalar_diff.
Proof. split; [apply scalar_diff_antisym|apply scalar_diff_trans]. Qed.

Lemma string_total_preorder : total_preorder string_diff.
Proof. split; [apply string_diff_antisym|apply string_diff_trans]. Qed.

(* Z keys with a payload *)
Lemma sort_Z_keys (l : list (Z * Z)) :
  exists l', heap_sort_list fst scalar_diff (0, 0) l = Some l' /\ Permutation l l' /\
             forall i j, (i <= j)%nat -> (j < length l')%nat -> fst (nth i l' (0, 0)) <= fst (nth j l' (0, 0)).
Proof.
  destruct (sort_sorted (@fst Z Z) scalar_diff (0, 0) l scalar_total_preorder) as [l' [H1 [H2 [H3 _]]]].
  exists l'. split; [exact H1|]. split; [eapply sort_perm; exact H1|].
  intros i j Hij Hj. apply scalar_diff_le. apply H3; assumption.
Qed.

(* string keys (any bytes, also embedded NUL) with a payload *)
Lemma sort_string_keys (l : list (list Z * Z)) :
  exists l', heap_sort_list fst string_diff ([], 0) l = Some l' /\ Permutation l l' /\
             sorted_by fst string_diff ([], 0) l'.
Proof.
  destruct (sort_sorted (@fst (list Z) Z) string_diff ([], 0) l string_total_preorder) as [l' [H1 [H2 [H3 _]]]].
  exists l'. split; [exact H1|]. split; [eapply sort_perm; exact H1|]. exact H3.
Qed.

(* ------------------------------------------------------------------ find *)
(* the searched key's diff [dk] respects the order the vector is sorted by *)
Definition compatible {K} (diff : K -> K -> Z) (dk : K -> Z) : Prop :=
  forall a b, diff a b <= 0 -> (dk b < 0 -> dk a < 0) /\ (dk b <= 0 -> dk a <= 0).

Definition lrd {E K} (key : E -> K) (d : E) (l : list E) : Z -> K := fun i => key (nth (Z.to_nat i) l d).

Lemma find_lowest {E K} (key : E -> K) diff dk (d : E) l :
  compatible diff dk -> sorted_by key diff d l ->
  exists r, find_list key dk d l = Some r /\
            first_match K (lrd key d l) dk 0 (Z.of_nat (length l)) r.
Proof.
  intros Hc Hs. unfold find_list. apply find_spec; [|lia].
  intros i j Hi Hij Hj. apply Hc. apply Hs; lia.
Qed.

Lemma scalar_compatible k : compatible scalar_diff (fun x => scalar_diff x k).
Proof.
  intros a b Hab. apply (proj1 (scalar_diff_le a b)) in Hab. cbv beta.
  pose proof (scalar_diff_lt a k). pose proof (scalar_diff_lt b k).
  pose proof (scalar_diff_le a k). pose proof (scalar_diff_le b k). lia.
Qed.

Lemma string_n_compatible s : compatible string_diff (fun v => string_n_cmp v s).
Proof.
  intros a b Hab. change (string_n_cmp b s) with (string_diff b s). change (string_n_cmp a s) with (string_diff a s).
  split; intros H.
  - destruct (Z_lt_le_dec (string_diff a s) 0) as [|Hge]; [assumption|exfalso].
    assert (H1 : string_diff s a <= 0) by (pose proof (string_diff_antisym a s); lia).
    pose proof (string_diff_trans s a b H1 Hab). pose proof (string_diff_antisym b s). lia.
  - eapply string_diff_trans; eassumption.
Qed.

Lemma find_lowest_Z (l : list (Z * Z)) k :
  (forall i j, (i <= j)%nat -> (j < length l)%nat -> fst (nth i l (0, 0)) <= fst (nth j l (0, 0))) ->
  exists r, find_list fst (fun x => scalar_diff x k) (0, 0) l = Some r /\
    ((r = NOT_FOUND /\ forall i, (i < length l)%nat -> fst (nth i l (0, 0)) <> k) \/
     (0 <= r < Z.of_nat (length l) /\ fst (nth (Z.to_nat r) l (0, 0)) = k /\
      forall i, (i < Z.to_nat r)%nat -> fst (nth i l (0, 0)) <> k)).
Proof.
  intros Hs.
  destruct (find_lowest (@fst Z Z) scalar_diff (fun x => scalar_diff x k) (0, 0) l (scalar_compatible k)) as [r [H1 H2]].
  { intros i j Hij Hj. apply scalar_diff_le. apply Hs; assumption. }
  exists r. split; [exact H1|]. unfold first_match, lrd in H2. destruct H2 as [[Hr Hn]|[Hr [Hm Hn]]].
  - left. split; [exact Hr|]. intros i Hi Heq. apply (Hn (Z.of_nat i)); [lia|].
    rewrite Nat2Z.id. apply scalar_diff_eq. exact Heq.
  - right. split; [exact Hr|]. split; [apply scalar_diff_eq; exact Hm|].
    intros i Hi Heq. apply (Hn (Z.of_nat i)); [lia|]. rewrite Nat2Z.id. apply scalar_diff_eq. exact Heq.
Qed.

(* find_n on a vector sorted by the string order: lowest index whose string compares equal to the key
   (for strings without embedded NUL: is the key, lemma scmp_eq_nul_free) *)
Lemma find_lowest_string (l : list (list Z * Z)) s :
  sorted_by fst string_diff ([], 0) l ->
  exists r, find_list fst (fun v => string_n_cmp v s) ([], 0) l = Some r /\
            first_match (list Z) (lrd fst ([], 0) l) (fun v => string_n_cmp v s) 0 (Z.of_nat (length l)) r.
Proof. intros Hs. apply (find_lowest (@fst (list Z) Z) string_diff); [apply string_n_compatible|exact Hs]. Qed.

Lemma string_equal_is_same (a b : list Z) : Forall (fun c => c <> 0) a -> string_n_cmp a b = 0 -> a = b.
Proof. intros Ha H. change (string_diff a b = 0) in H. rewrite string_diff_scmp in H. apply scmp_eq_nul_free; assumption. Qed.

Lemma strcmp_is_string_n_cmp (a b : list Z) : Forall (fun c => 0 < c) a -> Forall (fun c => 0 < c) b ->
  strcmp a b = string_n_cmp a b.
Proof. intros Ha Hb. change (string_n_cmp a b) with (string_diff a b). rewrite string_diff_scmp. apply strcmp_scmp; assumption. Qed.

(* ------------------------------------------------------------------ scan *)
Lemma scan_first {E K} (key : E -> K) dk (d : E) l b e : 0 <= b ->
  exists r, scan_ex_list key dk d l b e = Some r /\
            first_match K (lrd key d l) dk b (Z.min e (Z.of_nat (length l))) r.
Proof. intros Hb. unfold scan_ex_list. apply scan_ex_spec; lia. Qed.

Lemma rscan_last {E K} (key : E -> K) dk (d : E) l b e : 0 <= b ->
  exists r, rscan_ex_list key dk d l b e = Some r /\
            last_match K (lrd key d l) dk b (Z.min e (Z.of_nat (length l))) r.
Proof. intros Hb. unfold rscan_ex_list. apply rscan_ex_spec; lia. Qed.

Lemma scan_whole {E K} (key : E -> K) dk (d : E) l :
  exists r, scan_list key dk d l = Some r /\ first_match K (lrd key d l) dk 0 (Z.of_nat (length l)) r.
Proof. unfold scan_list. apply scan_spec; lia. Qed.

Lemma rscan_whole {E K} (key : E -> K) dk (d : E) l :
  exists r, rscan_list key dk d l = Some r /\ last_match K (lrd key d l) dk 0 (Z.of_nat (length l)) r.
Proof. unfold rscan_list. apply rscan_spec; lia. Qed.

Lemma scan_empty_range {E K} (key : E -> K) dk (d : E) l b e : 0 <= b ->
  Z.min e (Z.of_nat (length l)) <= b ->
  scan_ex_list key dk d l b e = Some NOT_FOUND /\ rscan_ex_list key dk d l b e = Some NOT_FOUND.
Proof.
  intros Hb He. destruct (scan_first key dk d l b e Hb) as [r [H1 H2]].
  destruct (rscan_last key dk d l b e Hb) as [r' [H1' H2']].
  pose proof (first_match_empty _ _ _ _ _ _ He H2). pose proof (last_match_empty _ _ _ _ _ _ He H2'). subst. auto.
Qed.

Lemma scan_end_sentinel {E K} (key : E -> K) dk (d : E) l b :
  Z.of_nat (length l) <= FB_END ->
  scan_ex_list key dk d l b FB_END = scan_ex_list key dk d l b (Z.of_nat (length l)) /\
  rscan_ex_list key dk d l b FB_END = rscan_ex_list key dk d l b (Z.of_nat (length l)).
Proof.
  intros H. unfold scan_ex_list, rscan_ex_list, scan_ex, rscan_ex. rewrite !fb_min_spec.
  replace (Z.min FB_END (Z.of_nat (length l))) with (Z.of_nat (length l)) by lia.
  replace (Z.min (Z.of_nat (length l)) (Z.of_nat (length l))) with (Z.of_nat (length l)) by lia. auto.
Qed.

(* ------------------------------------------------------------------ the hypotheses are satisfiable; sample runs *)
Example sort_example :
  heap_sort_list fst scalar_diff (0, 0) [(3, 0); (1, 1); (3, 2); (-5, 3); (1, 4)] =
  Some [(-5, 3); (1, 1); (1, 4); (3, 2); (3, 0)].
Proof. vm_compute. reflexivity. Qed.

(* three slots referring to the targets 100, 44, 4 (the last stored offset is -4 mod 2^32): after the sort the
   slots refer to 4, 44, 100 *)
Example offsets_example :
  targets [100; 40; 4294967292] = [100; 44; 4] /\
  heap_sort_offsets (fun t => t) scalar_diff [100; 40; 4294967292] = Some [4; 40; 92] /\
  targets [4; 40; 92] = [4; 44; 100].
Proof. vm_compute. auto. Qed.

Example find_example :
  find_list fst (fun x => scalar_diff x 3) (0, 0) [(-5, 3); (1, 1); (1, 4); (3, 2); (3, 0)] = Some 3 /\
  find_list fst (fun x => scalar_diff x 2) (0, 0) [(-5, 3); (1, 1); (1, 4); (3, 2); (3, 0)] = Some NOT_FOUND /\
  rscan_ex_list fst (fun x => scalar_diff x 1) (0, 0) [(-5, 3); (1, 1); (1, 4); (3, 2); (3, 0)] 0 FB_END = Some 2.
Proof. vm_compute. auto. Qed.
