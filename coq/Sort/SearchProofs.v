(* C16 proofs, part 3: binary search (find), scan, rscan; the string order. *)
From Flatcc.Sort Require Import SortModel.
From Coq Require Import Arith ZifyNat.
Local Open Scope Z_scope.

Ltac Zify.zify_post_hook ::= Z.div_mod_to_equations.

Lemma fb_min_spec a b : fb_min a b = Z.min a b.
Proof. unfold fb_min. destruct (a <? b) eqn:E; lia. Qed.

Section SearchProofs.
  Variable K : Type.
  Variable n : Z.
  Variable rd : Z -> K.
  Variable dk : K -> Z.

  Notation floop := (find_loop K rd dk).
  Notation sloop := (scan_loop K rd dk).
  Notation rloop := (rscan_loop K rd dk).

  (* what a search over the index range [lo, hi) may return: the first match or not_found *)
  Definition first_match (lo hi r : Z) : Prop :=
    (r = NOT_FOUND /\ forall j, lo <= j < hi -> dk (rd j) <> 0) \/
    (lo <= r < hi /\ dk (rd r) = 0 /\ forall j, lo <= j < r -> dk (rd j) <> 0).
  (* ... the last match or not_found *)
  Definition last_match (lo hi r : Z) : Prop :=
    (r = NOT_FOUND /\ forall j, lo <= j < hi -> dk (rd j) <> 0) \/
    (lo <= r < hi /\ dk (rd r) = 0 /\ forall j, r < j < hi -> dk (rd j) <> 0).

  (* ---------------------------------------------------------------- scan *)
  Lemma scan_loop_spec e : forall fuel i,
    (1 <= fuel)%nat -> e - i < Z.of_nat fuel ->
    exists r, sloop fuel i e = Some r /\ first_match i e r.
  Proof.
    induction fuel as [|f IH]; intros i Hf1 Hf; [lia|]. cbn [scan_loop].
    destruct (i <? e) eqn:E.
    - destruct (dk (rd i) =? 0) eqn:D.
      + exists i. split; [reflexivity|]. right. split; [lia|]. split; [lia|]. intros; lia.
      + destruct (IH (i + 1)) as [r [Hr Hm]]; [lia|lia|].
        exists r. split; [exact Hr|]. destruct Hm as [[H1 H2]|[H1 [H2 H3]]].
        * left. split; [exact H1|]. intros j Hj. destruct (Z.eq_dec j i) as [->|]; [lia|]. apply H2; lia.
        * right. split; [lia|]. split; [exact H2|].
          intros j Hj. destruct (Z.eq_dec j i) as [->|]; [lia|]. apply H3; lia.
    - exists NOT_FOUND. split; [reflexivity|]. left. split; [reflexivity|]. intros; lia.
  Qed.

  Lemma rscan_loop_spec b : forall fuel i,
    (1 <= fuel)%nat -> i - b < Z.of_nat fuel ->
    exists r, rloop fuel i b = Some r /\ last_match b i r.
  Proof.
    induction fuel as [|f IH]; intros i Hf1 Hf; [lia|]. cbn [rscan_loop].
    destruct (i >? b) eqn:E.
    - destruct (dk (rd (i - 1)) =? 0) eqn:D.
      + exists (i - 1). split; [reflexivity|]. right. split; [lia|]. split; [lia|]. intros; lia.
      + destruct (IH (i - 1)) as [r [Hr Hm]]; [lia|lia|].
        exists r. split; [exact Hr|]. destruct Hm as [[H1 H2]|[H1 [H2 H3]]].
        * left. split; [exact H1|]. intros j Hj. destruct (Z.eq_dec j (i - 1)) as [->|]; [lia|]. apply H2; lia.
        * right. split; [lia|]. split; [exact H2|].
          intros j Hj. destruct (Z.eq_dec j (i - 1)) as [->|]; [lia|]. apply H3; lia.
    - exists NOT_FOUND. split; [reflexivity|]. left. split; [reflexivity|]. intros; lia.
  Qed.

  (* any begin, any end (also begin >= end, end > len, end = flatbuffers_end): the range searched is
     [begin, min(end, len)) *)
  Lemma scan_ex_spec b e : 0 <= n -> 0 <= b ->
    exists r, scan_ex K n rd dk b e = Some r /\ first_match b (Z.min e n) r.
  Proof.
    intros Hn Hb. unfold scan_ex. rewrite fb_min_spec. apply scan_loop_spec; lia.
  Qed.

  Lemma rscan_ex_spec b e : 0 <= n -> 0 <= b ->
    exists r, rscan_ex K n rd dk b e = Some r /\ last_match b (Z.min e n) r.
  Proof.
    intros Hn Hb. unfold rscan_ex. rewrite fb_min_spec. apply rscan_loop_spec; lia.
  Qed.

  Lemma scan_spec : 0 <= n -> exists r, scan K n rd dk = Some r /\ first_match 0 n r.
  Proof. intros Hn. unfold scan. apply scan_loop_spec; lia. Qed.

  Lemma rscan_spec : 0 <= n -> exists r, rscan K n rd dk = Some r /\ last_match 0 n r.
  Proof. intros Hn. unfold rscan. apply rscan_loop_spec; lia. Qed.

  Lemma first_match_empty lo hi r : hi <= lo -> first_match lo hi r -> r = NOT_FOUND.
  Proof. intros H [[H1 _]|[H1 _]]; [exact H1|lia]. Qed.

  Lemma last_match_empty lo hi r : hi <= lo -> last_match lo hi r -> r = NOT_FOUND.
  Proof. intros H [[H1 _]|[H1 _]]; [exact H1|lia]. Qed.

  (* ---------------------------------------------------------------- find *)
  (* the vector is sorted compatibly with the searched key: the sign of D(v_i, key) is monotone in i *)
  Hypothesis mono : forall i j, 0 <= i -> i <= j -> j < n ->
    (dk (rd j) < 0 -> dk (rd i) < 0) /\ (dk (rd j) <= 0 -> dk (rd i) <= 0).

  Lemma find_loop_spec : forall fuel a b,
    0 <= a -> a <= b -> b < n -> b - a < Z.of_nat fuel ->
    (forall i, 0 <= i < a -> dk (rd i) < 0) ->
    (b = n - 1 \/ 0 <= dk (rd b)) ->
    exists c, floop fuel a b = Some (c, c) /\ a <= c <= b /\
      (forall i, 0 <= i < c -> dk (rd i) < 0) /\ (c = n - 1 \/ 0 <= dk (rd c)).
  Proof.
    induction fuel as [|f IH]; intros a b Ha Hab Hb Hf Hlo Hhi; [lia|]. cbn [find_loop].
    destruct (a <? b) eqn:E.
    - set (m := a + (b - a) / 2). assert (Hm : a <= m < b) by (unfold m; lia).
      destruct (dk (rd m) <? 0) eqn:D.
      + assert (Hlo' : forall i, 0 <= i < m + 1 -> dk (rd i) < 0).
        { intros i Hi. destruct (mono i m ltac:(lia) ltac:(lia) ltac:(lia)) as [Hmono _]. apply Hmono. lia. }
        destruct (IH (m + 1) b ltac:(lia) ltac:(lia) ltac:(lia) ltac:(lia) Hlo' Hhi) as [c [H1 [H2 [H3 H4]]]].
        exists c. split; [exact H1|]. split; [lia|]. split; assumption.
      + assert (Hhi' : m = n - 1 \/ 0 <= dk (rd m)) by (right; lia).
        destruct (IH a m ltac:(lia) ltac:(lia) ltac:(lia) ltac:(lia) Hlo Hhi') as [c [H1 [H2 [H3 H4]]]].
        exists c. split; [exact H1|]. split; [lia|]. split; assumption.
    - assert (a = b) by lia. subst b. exists a. split; [reflexivity|]. split; [lia|]. split; assumption.
  Qed.

  Lemma find_spec : 0 <= n -> exists r, find K n rd dk = Some r /\ first_match 0 n r.
  Proof.
    intros Hn. unfold find. destruct (n =? 0) eqn:E0.
    - exists NOT_FOUND. split; [reflexivity|]. left. split; [reflexivity|]. intros; lia.
    - assert (Hlo : forall i, 0 <= i < 0 -> dk (rd i) < 0) by (intros; lia).
      assert (Hhi : n - 1 = n - 1 \/ 0 <= dk (rd (n - 1))) by (left; reflexivity).
      destruct (find_loop_spec (S (Z.to_nat n)) 0 (n - 1) ltac:(lia) ltac:(lia) ltac:(lia) ltac:(lia) Hlo Hhi)
        as [c [H1 [H2 [H3 H4]]]].
      rewrite H1. rewrite Z.eqb_refl. destruct (dk (rd c) =? 0) eqn:D.
      + exists c. split; [reflexivity|]. right. split; [lia|]. split; [lia|].
        intros j Hj. pose proof (H3 j Hj). lia.
      + exists NOT_FOUND. split; [reflexivity|]. left. split; [reflexivity|].
        intros j Hj. destruct (Z_lt_le_dec j c) as [Hlt|Hge].
        * pose proof (H3 j ltac:(lia)). lia.
        * destruct (Z.eq_dec j c) as [->|Hne]; [lia|].
          destruct H4 as [H4|H4]; [lia|].
          destruct (mono c j ltac:(lia) ltac:(lia) ltac:(lia)) as [_ Hm]. lia.
  Qed.
End SearchProofs.

(* ------------------------------------------------------------------ the string order *)
(* string_diff (strncmp over the common prefix, then the lengths) equals this structural comparison *)
Fixpoint scmp (a b : list Z) : Z :=
  match a, b with
  | [], [] => 0
  | [], _ :: _ => -1
  | _ :: _, [] => 1
  | x :: a', y :: b' =>
    if x <? y then -1 else if y <? x then 1 else
    if x =? 0 then
      (if (length a' <? length b')%nat then -1 else if (length b' <? length a')%nat then 1 else 0)
    else scmp a' b'
  end.

Lemma strncmp_sign a b k : strncmp a b k = -1 \/ strncmp a b k = 0 \/ strncmp a b k = 1.
Proof.
  revert a b. induction k as [|k IH]; intros a b; cbn [strncmp]; [auto|].
  destruct (hd 0 a <? hd 0 b); [auto|]. destruct (hd 0 b <? hd 0 a); [auto|].
  destruct (hd 0 a =? 0); [auto|]. apply IH.
Qed.

Lemma string_diff_scmp : forall a b, string_diff a b = scmp a b.
Proof.
  unfold string_diff, string_n_cmp.
  induction a as [|x a IH]; intros [|y b]; cbn [length scmp].
  - reflexivity.
  - reflexivity.
  - reflexivity.
  - specialize (IH b).
    change (S (length a) <? S (length b))%nat with (length a <? length b)%nat.
    change (S (length b) <? S (length a))%nat with (length b <? length a)%nat.
    assert (Hmin : (if (length a <? length b)%nat then S (length a) else S (length b)) =
                   S (if (length a <? length b)%nat then length a else length b))
      by (destruct (length a <? length b)%nat; reflexivity).
    rewrite Hmin. cbn [strncmp hd tl].
    destruct (x <? y) eqn:E1; [reflexivity|]. destruct (y <? x) eqn:E2; [reflexivity|].
    destruct (x =? 0) eqn:E3; [reflexivity|]. exact IH.
Qed.

Lemma scmp_antisym : forall a b, scmp a b < 0 <-> 0 < scmp b a.
Proof.
  induction a as [|x a IH]; intros [|y b]; cbn [scmp]; try lia.
  destruct (x <? y) eqn:E1; destruct (y <? x) eqn:E2; try lia.
  assert (x = y) by lia. subst y. destruct (x =? 0).
  - destruct (length a <? length b)%nat eqn:L1; destruct (length b <? length a)%nat eqn:L2; lia.
  - apply IH.
Qed.

Lemma scmp_trans : forall a b c, scmp a b <= 0 -> scmp b c <= 0 -> scmp a c <= 0.
Proof.
  induction a as [|x a IH]; intros [|y b] [|z c]; cbn [scmp]; try lia.
  destruct (x <? y) eqn:E1; destruct (y <? x) eqn:E2; try lia;
  destruct (y <? z) eqn:E3; destruct (z <? y) eqn:E4; try lia;
  destruct (x <? z) eqn:E5; destruct (z <? x) eqn:E6; try lia.
  assert (x = y) by lia. assert (y = z) by lia. subst y z. destruct (x =? 0).
  - destruct (length a <? length b)%nat eqn:L1; destruct (length b <? length a)%nat eqn:L2;
    destruct (length b <? length c)%nat eqn:L3; destruct (length c <? length b)%nat eqn:L4;
    destruct (length a <? length c)%nat eqn:L5; destruct (length c <? length a)%nat eqn:L6; lia.
  - apply IH.
Qed.

Lemma string_diff_antisym a b : string_diff a b < 0 <-> 0 < string_diff b a.
Proof. rewrite !string_diff_scmp. apply scmp_antisym. Qed.

Lemma string_diff_trans a b c : string_diff a b <= 0 -> string_diff b c <= 0 -> string_diff a c <= 0.
Proof. rewrite !string_diff_scmp. apply scmp_trans. Qed.

(* equal under the order = same bytes, for strings without embedded NUL *)
Lemma scmp_eq_nul_free : forall a b, Forall (fun c => c <> 0) a -> scmp a b = 0 -> a = b.
Proof.
  induction a as [|x a IH]; intros [|y b] Ha; cbn [scmp]; try lia; [reflexivity|].
  inversion Ha as [|? ? Hx Ha']; subst.
  destruct (x <? y) eqn:E1; [lia|]. destruct (y <? x) eqn:E2; [lia|].
  assert (x = y) by lia. subst y. destruct (x =? 0) eqn:E3; [lia|].
  intros H. f_equal. apply IH; assumption.
Qed.

Lemma scmp_refl a : scmp a a = 0.
Proof.
  induction a as [|x a IH]; cbn [scmp]; [reflexivity|].
  rewrite Z.ltb_irrefl. destruct (x =? 0); [|exact IH]. rewrite Nat.ltb_irrefl. reflexivity.
Qed.

(* strcmp against a NUL-free key agrees in sign with the length-aware comparison when the stored
   string has no embedded NUL either *)
Lemma strcmp_scmp : forall a b, Forall (fun c => 0 < c) a -> Forall (fun c => 0 < c) b ->
  strcmp a b = scmp a b.
Proof.
  induction a as [|x a IH]; intros [|y b] Ha Hb; cbn [strcmp scmp].
  - reflexivity.
  - inversion Hb; subst. destruct (0 <? y) eqn:E; [reflexivity|lia].
  - inversion Ha; subst. destruct (0 <? x) eqn:E; [reflexivity|lia].
  - inversion Ha; subst. inversion Hb; subst.
    destruct (x <? y); [reflexivity|]. destruct (y <? x); [reflexivity|].
    destruct (x =? 0) eqn:E; [lia|]. apply IH; assumption.
Qed.
