(* C16: in-place heap sort, binary search (find), linear scans (scan / rscan) as emitted by
   src/compiler/codegen_c_sort.c (gen_sort) and src/compiler/codegen_c_reader.c (gen_find, gen_scan)
   into flatbuffers_common_reader.h.  Executable Gallina, no proofs in this file.

   The emitted code is a family of C macros parameterised by
     N/X  names,  A  key accessor,  E  element accessor,  L  length accessor,
     TK   key type,  TE  raw element type,  D  diff function,  S  swap operation.
   The model is parameterised the same way:
     V     the vector state (whatever memory S writes to)
     vlen  = L(vec)
     rd    = fun v i => A(E(v, i))       (the key read through slot i)
     sw    = fun v a b => S(v, a, b, TE)
     diff  = D
   Indices are size_t in C; vector lengths are stored as a 32-bit uoffset, so no size_t
   computation below can wrap on a platform with 64-bit size_t (root << 1 <= 2 * len < 2^33).
   Indices of the sort are [nat]; find/scan use [Z] because their arguments and results are
   arbitrary size_t values (the [end] sentinel and [not_found] are (size_t)-1). *)
From Flatcc.Common Require Export Wrap.
Local Open Scope Z_scope.

(* ------------------------------------------------------------------ heap sort *)
Section HeapSort.
  Variables (V K : Type).
  Variable vlen : V -> nat.
  Variable rd : V -> nat -> K.
  Variable sw : V -> nat -> nat -> V.
  Variable diff : K -> K -> Z.

  (* static inline void __N##X##__heap_sift_down(vec, start, end)
     { root = start;
       while ((root << 1) <= end) {
         child = root << 1;
         if (child < end) { v1 = A(E(vec, child)); v2 = A(E(vec, child + 1));
                            if (D(v1, v2) < 0) child++; }
         vroot = A(E(vec, root)); v1 = A(E(vec, child));
         if (D(vroot, v1) < 0) { S(vec, root, child, TE); root = child; } else return;
       } }
     [None] = out of fuel (excluded by theorem sift_down_terminates). Note that the children of
     root r are 2r and 2r+1, so slot 0 is its own first child and has the single real child 1. *)
  Fixpoint sift_down (fuel : nat) (v : V) (root end_ : nat) : option V :=
    match fuel with
    | O => None
    | S f =>
      if (2 * root <=? end_)%nat then
        let child0 := (2 * root)%nat in
        let child :=
          if (child0 <? end_)%nat then
            if diff (rd v child0) (rd v (child0 + 1)%nat) <? 0 then (child0 + 1)%nat else child0
          else child0 in
        if diff (rd v root) (rd v child) <? 0
        then sift_down f (sw v root child) child end_
        else Some v
      else Some v
    end.

  (* do { sift_down(vec, start, end); } while (start--); *)
  Fixpoint heapify (fuel : nat) (v : V) (start end_ : nat) {struct start} : option V :=
    match sift_down fuel v start end_ with
    | None => None
    | Some v' => match start with
                 | O => Some v'
                 | S s => heapify fuel v' s end_
                 end
    end.

  (* while (end > 0) { S(vec, 0, end, TE); sift_down(vec, 0, --end); } *)
  Fixpoint sort_loop (fuel : nat) (v : V) (end_ : nat) {struct end_} : option V :=
    match end_ with
    | O => Some v
    | S e => match sift_down fuel (sw v 0%nat end_) 0%nat e with
             | None => None
             | Some v' => sort_loop fuel v' e
             end
    end.

  (* static inline void __N##X##__heap_sort(vec)
     { size = L(vec); if (size == 0) return; end = size - 1; start = size >> 1; ... } *)
  Definition heap_sort (v : V) : option V :=
    let size := vlen v in
    if (size =? 0)%nat then Some v else
    let end_ := (size - 1)%nat in
    let start := Nat.div2 size in
    match heapify (S (S size)) v start end_ with
    | None => None
    | Some v' => sort_loop (S (S size)) v' end_
    end.
End HeapSort.

(* ------------------------------------------------------------------ the two swap operations *)
Fixpoint upd {A} (l : list A) (i : nat) (x : A) : list A :=
  match l, i with
  | [], _ => []
  | _ :: t, O => x :: t
  | h :: t, S k => h :: upd t k x
  end.

(* __flatbuffers_value_swap(vec, a, b, TE) { TE x = vec[b]; vec[b] = vec[a]; vec[a] = x; }
   (scalar vectors and struct vectors: the elements themselves move) *)
Definition value_swap {E} (d : E) (l : list E) (a b : nat) : list E :=
  let x := nth b l d in
  let l1 := upd l b (nth a l d) in
  upd l1 a x.

(* Heap sort of a vector of inline elements (scalars, structs) with key accessor [key]. [d] is only the
   value [nth] would give for an out-of-range index (never read: theorem sort_reads_in_bounds). *)
Definition heap_sort_list {E K} (key : E -> K) (diff : K -> K -> Z) (d : E) (l : list E) : option (list E) :=
  heap_sort (list E) K (@length E) (fun l i => key (nth i l d)) (value_swap d) diff l.

(* __flatbuffers_uoffset_swap(vec, a, b, TE)
   { TE ta, tb, d; d = (TE)((a - b) * sizeof(vec[0]));
     ta = read(vec + b) - d; tb = read(vec + a) + d; write(vec + a, ta); write(vec + b, tb); }
   TE = uoffset_t (32 bit): every operation wraps mod 2^32.  (string and table vectors) *)
Definition uoffset_swap (os : list Z) (a b : nat) : list Z :=
  let d := u32 ((Z.of_nat a - Z.of_nat b) * 4) in
  let ta := u32 (nth b os 0 - d) in
  let tb := u32 (nth a os 0 + d) in
  let os1 := upd os a ta in
  upd os1 b tb.

(* What slot i holding the stored offset o refers to, relative to the address of slot 0:
   E(vec, i) = (uint8_t* )(vec + i) + vec[i]  (__flatbuffers_offset_vec_at) *)
Definition target (i : nat) (o : Z) : Z := u32 (4 * Z.of_nat i + o).

Fixpoint targets_from (i : nat) (os : list Z) : list Z :=
  match os with
  | [] => []
  | o :: t => target i o :: targets_from (S i) t
  end.
Definition targets (os : list Z) : list Z := targets_from 0 os.

(* Heap sort of an offset vector; [keyof t] is the key read at target [t]. *)
Definition heap_sort_offsets {K} (keyof : Z -> K) (diff : K -> K -> Z) (os : list Z) : option (list Z) :=
  heap_sort (list Z) K (@length Z) (fun os i => keyof (target i (nth i os 0))) uoffset_swap diff os.

(* The same sort with the element accessor exactly as C computes it, by pointer arithmetic WITHOUT reduction mod 2^32:
   the key of slot i is read at (address of slot 0) + 4 i + vec[i].  Theorem C16_offsets_ptr_agrees: on a vector whose
   targets all lie behind the vector and below 2^32 (every verified buffer) this is heap_sort_offsets. *)
Definition heap_sort_offsets_ptr {K} (keyof : Z -> K) (diff : K -> K -> Z) (os : list Z) : option (list Z) :=
  heap_sort (list Z) K (@length Z) (fun os i => keyof (4 * Z.of_nat i + nth i os 0)) uoffset_swap diff os.

(* ------------------------------------------------------------------ diff functions *)
(* #define __flatbuffers_scalar_diff(x, y) ((x) < (y) ? -1 : (x) > (y))   (also __flatbuffers_scalar_cmp) *)
Definition scalar_diff (x y : Z) : Z := if x <? y then -1 else if x >? y then 1 else 0.

(* strncmp on unsigned chars, sign only; reading past a list reads the terminator. *)
Fixpoint strncmp (a b : list Z) (n : nat) : Z :=
  match n with
  | O => 0
  | S n' =>
    let x := hd 0 a in let y := hd 0 b in
    if x <? y then -1 else if y <? x then 1 else
    if x =? 0 then 0 else strncmp (tl a) (tl b) n'
  end.

(* static inline int __flatbuffers_string_n_cmp(flatbuffers_string_t v, const char *s, size_t n)
   { size_t nv = flatbuffers_string_len(v); int x = strncmp(v, s, nv < n ? nv : n);
     return x != 0 ? x : nv < n ? -1 : nv > n; }
   [s] is the list of the n key bytes. *)
Definition string_n_cmp (v s : list Z) : Z :=
  let nv := length v in let n := length s in
  let x := strncmp v s (if (nv <? n)%nat then nv else n) in
  if negb (x =? 0) then x else if (nv <? n)%nat then -1 else if (n <? nv)%nat then 1 else 0.

(* #define __flatbuffers_string_diff(x, y) __flatbuffers_string_n_cmp((x), (const char * )(y), flatbuffers_string_len(y)) *)
Definition string_diff (x y : list Z) : Z := string_n_cmp x y.

(* strcmp(v, s) on NUL terminated strings: [v], [s] are the bytes before the terminator as stored
   (a stored string may contain NUL bytes; strcmp stops at the first). Sign only. *)
Fixpoint strcmp (a b : list Z) : Z :=
  match a, b with
  | [], [] => 0
  | [], y :: _ => if 0 <? y then -1 else 0
  | x :: _, [] => if 0 <? x then 1 else 0
  | x :: a', y :: b' =>
    if x <? y then -1 else if y <? x then 1 else if x =? 0 then 0 else strcmp a' b'
  end.

(* ------------------------------------------------------------------ find / scan / rscan *)
Definition NOT_FOUND : Z := 18446744073709551615.   (* flatbuffers_not_found = (size_t)-1 *)
Definition FB_END    : Z := 18446744073709551615.   (* flatbuffers_end       = (size_t)-1 *)

Section Search.
  Variable K : Type.
  Variable n : Z.            (* L(V) *)
  Variable rd : Z -> K.      (* fun i => A(E(V, i)) *)
  Variable dk : K -> Z.      (* fun v => D(v, K, Kn) for the searched key *)

  (* while (a < b) { m = a + ((b - a) >> 1); v = A(E(V, m));
                     if (D(v, K, Kn) < 0) a = m + 1; else b = m; } *)
  Fixpoint find_loop (fuel : nat) (a b : Z) : option (Z * Z) :=
    match fuel with
    | O => None
    | S f =>
      if a <? b then
        let m := a + (b - a) / 2 in
        if dk (rd m) <? 0 then find_loop f (m + 1) b else find_loop f a m
      else Some (a, b)
    end.

  (* __flatbuffers_find_by_field:
     { size_t a = 0, b, m; if (!(b = L(V))) return not_found; --b;
       <loop>
       if (a == b) { v = A(E(V, a)); if (D(v, K, Kn) == 0) return a; }
       return not_found; } *)
  Definition find : option Z :=
    if n =? 0 then Some NOT_FOUND else
    match find_loop (S (Z.to_nat n)) 0 (n - 1) with
    | None => None
    | Some (a, b) =>
      if a =? b then (if dk (rd a) =? 0 then Some a else Some NOT_FOUND) else Some NOT_FOUND
    end.

  (* __flatbuffers_scan_by_field(b, e, ...):
     for (i = b; i < e; ++i) { v = A(E(V, i)); if (D(v, K, Kn) == 0) return i; } return not_found; *)
  Fixpoint scan_loop (fuel : nat) (i e : Z) : option Z :=
    match fuel with
    | O => None
    | S f =>
      if i <? e then (if dk (rd i) =? 0 then Some i else scan_loop f (i + 1) e)
      else Some NOT_FOUND
    end.

  (* __flatbuffers_rscan_by_field(b, e, ...):
     i = e; while (i-- > b) { v = A(E(V, i)); if (D(v, K, Kn) == 0) return i; } return not_found; *)
  Fixpoint rscan_loop (fuel : nat) (i b : Z) : option Z :=
    match fuel with
    | O => None
    | S f =>
      if i >? b then
        let i' := i - 1 in
        if dk (rd i') =? 0 then Some i' else rscan_loop f i' b
      else Some NOT_FOUND
    end.

  (* #define __flatbuffers_min(a, b) ((a) < (b) ? (a) : (b)) *)
  Definition fb_min (a b : Z) : Z := if a <? b then a else b.

  (* N_vec_scan_ex(vec, begin, end, key) = scan_by_field(begin, min(end, len), ...);  N_vec_scan = scan_ex 0 len *)
  Definition scan_ex (begin_ end_ : Z) : option Z :=
    scan_loop (S (Z.to_nat n)) begin_ (fb_min end_ n).
  Definition rscan_ex (begin_ end_ : Z) : option Z :=
    rscan_loop (S (Z.to_nat n)) (fb_min end_ n) begin_.
  Definition scan : option Z := scan_loop (S (Z.to_nat n)) 0 n.
  Definition rscan : option Z := rscan_loop (S (Z.to_nat n)) n 0.
End Search.

(* searches over a list of elements *)
Definition find_list {E K} (key : E -> K) (dk : K -> Z) (d : E) (l : list E) : option Z :=
  find K (Z.of_nat (length l)) (fun i => key (nth (Z.to_nat i) l d)) dk.
Definition scan_ex_list {E K} (key : E -> K) (dk : K -> Z) (d : E) (l : list E) (b e : Z) : option Z :=
  scan_ex K (Z.of_nat (length l)) (fun i => key (nth (Z.to_nat i) l d)) dk b e.
Definition rscan_ex_list {E K} (key : E -> K) (dk : K -> Z) (d : E) (l : list E) (b e : Z) : option Z :=
  rscan_ex K (Z.of_nat (length l)) (fun i => key (nth (Z.to_nat i) l d)) dk b e.
Definition scan_list {E K} (key : E -> K) (dk : K -> Z) (d : E) (l : list E) : option Z :=
  scan K (Z.of_nat (length l)) (fun i => key (nth (Z.to_nat i) l d)) dk.
Definition rscan_list {E K} (key : E -> K) (dk : K -> Z) (d : E) (l : list E) : option Z :=
  rscan K (Z.of_nat (length l)) (fun i => key (nth (Z.to_nat i) l d)) dk.
