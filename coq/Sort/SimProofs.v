(* C16 proofs, part 4: two instances of the emitted heap sort related by a simulation perform the same swaps.
   Used to show that reading keys by plain pointer arithmetic (no reduction mod 2^32) gives the same run as the
   modular model on every vector whose targets lie behind the vector. *)
From Flatcc.Sort Require Import SortModel HeapProofs ListProofs.
From Coq Require Import Arith ZifyNat Permutation.
Local Open Scope nat_scope.

Ltac Zify.zify_post_hook ::= Z.div_mod_to_equations.

Section Simulation.
  Variables (V1 V2 K : Type).
  Variable rd1 : V1 -> nat -> K.
  Variable rd2 : V2 -> nat -> K.
  Variable sw1 : V1 -> nat -> nat -> V1.
  Variable sw2 : V2 -> nat -> nat -> V2.
  Variable diff : K -> K -> Z.
  Variable R : V1 -> V2 -> Prop.
  Variable e : nat.
  Hypothesis Hrd : forall v1 v2 i, R v1 v2 -> i <= e -> rd1 v1 i = rd2 v2 i.
  Hypothesis Hsw : forall v1 v2 a b, R v1 v2 -> a <= e -> b <= e -> R (sw1 v1 a b) (sw2 v2 a b).

  Definition orel (a : option V1) (b : option V2) : Prop :=
    match a, b with
    | Some x, Some y => R x y
    | None, None => True
    | _, _ => False
    end.

  Lemma sift_sim : forall fuel v1 v2 root end_, root <= end_ -> end_ <= e -> R v1 v2 ->
    orel (sift_down V1 K rd1 sw1 diff fuel v1 root end_) (sift_down V2 K rd2 sw2 diff fuel v2 root end_).
  Proof.
    induction fuel as [|f IH]; intros v1 v2 root end_ Hr He HR; [exact I|].
    rewrite !sift_unfold. destruct (2 * root <=? end_) eqn:E1; [|exact HR].
    apply Nat.leb_le in E1.
    assert (Hc : sd_child V1 K rd1 diff v1 root end_ = sd_child V2 K rd2 diff v2 root end_).
    { unfold sd_child. destruct (2 * root <? end_) eqn:E2; [|reflexivity]. apply Nat.ltb_lt in E2.
      rewrite (Hrd v1 v2 (2 * root) HR) by lia. rewrite (Hrd v1 v2 (2 * root + 1) HR) by lia. reflexivity. }
    rewrite Hc.
    assert (Hce : sd_child V2 K rd2 diff v2 root end_ <= end_).
    { unfold sd_child. destruct (2 * root <? end_) eqn:E2; [|lia]. apply Nat.ltb_lt in E2.
      destruct (diff _ _ <? 0)%Z; lia. }
    set (c := sd_child V2 K rd2 diff v2 root end_) in *.
    rewrite (Hrd v1 v2 root HR) by lia. rewrite (Hrd v1 v2 c HR) by lia.
    destruct (diff _ _ <? 0)%Z; [|exact HR].
    apply IH; [exact Hce|exact He|]. apply Hsw; [exact HR|lia|lia].
  Qed.

  Lemma heapify_sim fuel end_ : end_ <= e -> forall start v1 v2, start <= end_ -> R v1 v2 ->
    orel (heapify V1 K rd1 sw1 diff fuel v1 start end_) (heapify V2 K rd2 sw2 diff fuel v2 start end_).
  Proof.
    intros He. induction start as [|s IH]; intros v1 v2 Hs HR; cbn [heapify].
    - pose proof (sift_sim fuel v1 v2 0 end_ Hs He HR) as H. unfold orel in H.
      destruct (sift_down V1 K rd1 sw1 diff fuel v1 0 end_), (sift_down V2 K rd2 sw2 diff fuel v2 0 end_); try contradiction; exact H.
    - pose proof (sift_sim fuel v1 v2 (S s) end_ Hs He HR) as H. unfold orel in H.
      destruct (sift_down V1 K rd1 sw1 diff fuel v1 (S s) end_), (sift_down V2 K rd2 sw2 diff fuel v2 (S s) end_); try contradiction; [|exact I].
      apply IH; [lia|exact H].
  Qed.

  Lemma sort_loop_sim fuel : forall end_ v1 v2, end_ <= e -> R v1 v2 ->
    orel (sort_loop V1 K rd1 sw1 diff fuel v1 end_) (sort_loop V2 K rd2 sw2 diff fuel v2 end_).
  Proof.
    induction end_ as [|n IH]; intros v1 v2 He HR; cbn [sort_loop]; [exact HR|].
    assert (HR' : R (sw1 v1 0 (S n)) (sw2 v2 0 (S n))) by (apply Hsw; [exact HR|lia|lia]).
    pose proof (sift_sim fuel _ _ 0 n ltac:(lia) ltac:(lia) HR') as H. unfold orel in H.
    destruct (sift_down V1 K rd1 sw1 diff fuel (sw1 v1 0 (S n)) 0 n), (sift_down V2 K rd2 sw2 diff fuel (sw2 v2 0 (S n)) 0 n);
      try contradiction; [|exact I].
    apply IH; [lia|exact H].
  Qed.
End Simulation.

Lemma heap_sort_sim (V1 V2 K : Type) vlen1 vlen2 rd1 rd2 sw1 sw2 diff (R : V1 -> V2 -> Prop) v1 v2 :
  vlen1 v1 = vlen2 v2 ->
  (forall w1 w2 i, R w1 w2 -> i < vlen1 v1 -> rd1 w1 i = rd2 w2 i) ->
  (forall w1 w2 a b, R w1 w2 -> a < vlen1 v1 -> b < vlen1 v1 -> R (sw1 w1 a b) (sw2 w2 a b)) ->
  R v1 v2 ->
  orel V1 V2 R (heap_sort V1 K vlen1 rd1 sw1 diff v1) (heap_sort V2 K vlen2 rd2 sw2 diff v2).
Proof.
  intros Hlen Hrd Hsw HR. unfold heap_sort. rewrite <- Hlen.
  destruct (vlen1 v1 =? 0) eqn:E0; [exact HR|]. apply Nat.eqb_neq in E0.
  set (e := vlen1 v1 - 1).
  assert (Hrd' : forall w1 w2 i, R w1 w2 -> i <= e -> rd1 w1 i = rd2 w2 i) by (intros; apply Hrd; [assumption|unfold e; lia]).
  assert (Hsw' : forall w1 w2 a b, R w1 w2 -> a <= e -> b <= e -> R (sw1 w1 a b) (sw2 w2 a b))
    by (intros; apply Hsw; [assumption|unfold e; lia|unfold e; lia]).
  assert (Hd : Nat.div2 (vlen1 v1) <= e) by (rewrite Nat.div2_div; unfold e; lia).
  pose proof (heapify_sim V1 V2 K rd1 rd2 sw1 sw2 diff R e Hrd' Hsw' (S (S (vlen1 v1))) e (le_n e) _ v1 v2 Hd HR) as H.
  unfold orel in H.
  destruct (heapify V1 K rd1 sw1 diff _ v1 _ e), (heapify V2 K rd2 sw2 diff _ v2 _ e); try contradiction; [|exact I].
  apply (sort_loop_sim V1 V2 K rd1 rd2 sw1 sw2 diff R e Hrd' Hsw'); [apply le_n|exact H].
Qed.

(* ------------------------------------------------------------------ pointer arithmetic without wrap *)
Local Open Scope Z_scope.

(* every target lies behind the vector (at or after its end) and below 2^32 *)
Definition targets_behind (os : list Z) : Prop :=
  Forall (fun t => 4 * Z.of_nat (length os) <= t < 4294967296) (targets os).

Lemma target_no_wrap os i : Forall in_u32 os -> targets_behind os -> (i < length os)%nat ->
  4 * Z.of_nat i + nth i os 0 = target i (nth i os 0).
Proof.
  intros Hu Hb Hi.
  assert (Ho : in_u32 (nth i os 0)) by (apply (proj1 (Forall_nth in_u32 os) Hu); assumption).
  assert (Ht : 4 * Z.of_nat (length os) <= nth i (targets os) 0 < 4294967296).
  { apply (proj1 (Forall_nth (fun t => 4 * Z.of_nat (length os) <= t < 4294967296) (targets os)) Hb).
    rewrite length_targets. assumption. }
  rewrite nth_targets in Ht by assumption. revert Ht. unfold target, u32, in_u32 in *. intros Ht. lia.
Qed.

Lemma offsets_ptr_agrees {K} (keyof : Z -> K) diff os : Forall in_u32 os -> targets_behind os ->
  heap_sort_offsets_ptr keyof diff os = heap_sort_offsets keyof diff os.
Proof.
  intros Hu Hb.
  set (R := fun w1 w2 : list Z => w1 = w2 /\ length w1 = length os /\ Forall in_u32 w1 /\
                                  Forall (fun t => 4 * Z.of_nat (length os) <= t < 4294967296) (targets w1)).
  assert (HR : R os os) by (unfold R; auto).
  assert (Hrd : forall w1 w2 i, R w1 w2 -> (i < length os)%nat ->
            keyof (4 * Z.of_nat i + nth i w1 0) = keyof (target i (nth i w2 0))).
  { intros w1 w2 i (-> & Hl & Hu1 & Hb1) Hi. f_equal. apply target_no_wrap; [exact Hu1| |lia].
    unfold targets_behind. rewrite Hl. exact Hb1. }
  assert (Hsw : forall w1 w2 a b, R w1 w2 -> (a < length os)%nat -> (b < length os)%nat ->
            R (uoffset_swap w1 a b) (uoffset_swap w2 a b)).
  { intros w1 w2 a b (-> & Hl & Hu1 & Hb1) Ha Hb'. unfold R. split; [reflexivity|].
    split; [rewrite length_uoffset_swap; exact Hl|]. split; [apply uoffset_swap_in_u32; exact Hu1|].
    rewrite targets_uoffset_swap by lia.
    eapply Permutation_Forall; [|exact Hb1]. apply perm_value_swap; rewrite length_targets; lia. }
  pose proof (heap_sort_sim (list Z) (list Z) K (@length Z) (@length Z)
                (fun os i => keyof (4 * Z.of_nat i + nth i os 0)) (fun os i => keyof (target i (nth i os 0)))
                uoffset_swap uoffset_swap diff R os os eq_refl Hrd Hsw HR) as H.
  unfold heap_sort_offsets_ptr, heap_sort_offsets. unfold orel, R in H.
  destruct (heap_sort (list Z) K (@length Z) (fun os i => keyof (4 * Z.of_nat i + nth i os 0)) uoffset_swap diff os),
           (heap_sort (list Z) K (@length Z) (fun os i => keyof (target i (nth i os 0))) uoffset_swap diff os);
    try contradiction; [|reflexivity].
  destruct H as [-> _]. reflexivity.
Qed.

(* after the sort every slot still reaches its target by plain pointer arithmetic *)
Lemma offsets_sorted_no_wrap {K} (keyof : Z -> K) diff os os' : Forall in_u32 os -> targets_behind os ->
  heap_sort_offsets keyof diff os = Some os' ->
  targets_behind os' /\ forall i, (i < length os')%nat -> 4 * Z.of_nat i + nth i os' 0 = nth i (targets os') 0.
Proof.
  intros Hu Hb H. destruct (offs_sort_frame K keyof diff os os' H) as (Hl & Hp & Hu').
  assert (Hb' : targets_behind os').
  { unfold targets_behind in *. rewrite Hl. eapply Permutation_Forall; eassumption. }
  split; [exact Hb'|]. intros i Hi. rewrite nth_targets by assumption. apply target_no_wrap; auto.
Qed.
