(* The nest id counter (32 bits) cannot wrap in a build that stays below the builder's 2^31 byte limit: every
   end_buffer emits at least 4 bytes and a well-typed script has as many end_buffer as start_buffer calls.
   This removes the side condition [count_starts sc <= U32_MAX] of NestedBuild.xbuild_decodes. *)
From Flatcc.Format Require Import Schema Spec SpecProofs.
From Flatcc.Builder Require Import EmitModel VMem Objects Leaves OffVec TableLayout Table Buffer Script ScriptProofs.
From Flatcc.Builder Require Import NestedBase NestedLeaves UnionVecLeaves NestedTable NestedBuffer NestedScript NestedBuild.
From Coq Require Import ZifyBool Znumtheory.
Local Open Scope Z_scope.
Ltac Zify.zify_post_hook ::= Z.div_mod_to_equations.

Definition is_end (c : cmd) : Z := match c with CEndBuffer _ => 1 | _ => 0 end.
Fixpoint count_ends (sc : list cmd) : Z := match sc with [] => 0 | c :: r => is_end c + count_ends r end.

Lemma count_ends_app a b : count_ends (a ++ b) = count_ends a + count_ends b.
Proof. induction a as [|c r IH]; cbn [count_ends app]; [lia | rewrite IH; lia]. Qed.

Lemma xwt_cmd_not_end Sc G c G' : xwt_cmd Sc G c G' -> is_end c = 0.
Proof. inversion 1; reflexivity. Qed.

Lemma xwt_cmds_balanced Sc b G cmds G' N : xwt_cmds Sc b G cmds G' N -> count_starts cmds = count_ends cmds.
Proof.
  induction 1 as [G | G c G1 r G2 N Hc Hr IH | G id ba fl body rt R v n Gb Nb rest G2 N Hb Hbody IHbody Hroot Hba Hid Hfl Hfl2 Hrest IHrest].
  - reflexivity.
  - cbn [count_starts count_ends]. rewrite (xwt_cmd_not_start _ _ _ _ Hc), (xwt_cmd_not_end _ _ _ _ Hc), IH. reflexivity.
  - cbn [count_starts count_ends is_start is_end]. rewrite count_starts_app, count_ends_app.
    cbn [count_starts count_ends is_start is_end]. lia.
Qed.

Lemma sz_emit_front_eq st b r e st' : emit_front st b = Some (r, e, st') -> sz st' = sz st + lenZ b.
Proof.
  unfold emit_front. destruct (_ || _ || _); [discriminate|]. intros H. injection H as _ _ <-.
  unfold sz. cbn [set_emit_front front back]. rewrite lenZ_app. lia.
Qed.

Lemma sz_create_buffer_strict st id b root a fl r es st' : create_buffer st id b root a fl = Some (r, es, st') -> sz st + 4 <= sz st'.
Proof.
  unfold create_buffer. destruct (align_buffer_end st a b _) as [[[al es0] st1]|] eqn:E1; [|discriminate].
  destruct (emit_front _ _) as [[[r0 e0] st2]|] eqn:E2; [|discriminate]. intros H. injection H as _ _ <-.
  apply sz_align_buffer_end in E1. apply sz_emit_front_eq in E2. rewrite sz_set_min_align in E2.
  assert (Hgen : forall (a b c : list Z) x, 4 <= lenZ (a ++ le32 x ++ b ++ c)).
  { intros a0 b0 c0 x0. rewrite !lenZ_app, lenZ_le32. pose proof (lenZ_nonneg a0). pose proof (lenZ_nonneg b0). pose proof (lenZ_nonneg c0). lia. }
  match type of E2 with _ = _ + lenZ ?l => assert (H4 : 4 <= lenZ l) by apply Hgen end.
  lia.
Qed.

Lemma sz_end_buffer_strict st root r es st' : end_buffer st root = Some (r, es, st') -> sz st + 4 <= sz st'.
Proof.
  unfold end_buffer. destruct (frames st) as [|fr rest]; [discriminate|].
  destruct (create_buffer _ _ _ _ _ _) as [[[r0 es0] st2]|] eqn:E; [|discriminate]. intros H. injection H as _ _ <-.
  apply sz_create_buffer_strict in E. rewrite sz_set_min_align in E. exact E.
Qed.

Lemma sz_run_ends : forall sc st regs regs' es st', run st regs sc = Some (regs', es, st') -> sz st + 4 * count_ends sc <= sz st'.
Proof.
  induction sc as [|c r IH]; intros st regs regs' es st' H; cbn [run] in H.
  - injection H as _ _ <-. cbn [count_ends]. lia.
  - destruct (run_cmd st regs c) as [[[new es1] st1]|] eqn:E1; [|discriminate].
    destruct (run st1 (regs ++ new) r) as [[[regs2 es2] st2]|] eqn:E2; [|discriminate]. injection H as _ _ <-.
    apply IH in E2. cbn [count_ends].
    assert (Hc : sz st + 4 * is_end c <= sz st1).
    { destruct c; cbn [is_end]; try (apply sz_run_cmd in E1; lia).
      cbn [run_cmd] in E1. destruct (reg regs root); [|discriminate].
      destruct (end_buffer st z) as [[[r0 e0] s1]|] eqn:E; [|discriminate]. injection E1 as _ _ <-.
      apply sz_end_buffer_strict in E. lia. }
    lia.
Qed.

Lemma xwt_script_count Sc sc R v ws n N regs ems st :
  xwt_script Sc sc R v ws n N -> run init_state [] sc = Some (regs, ems, st) -> small st -> count_starts sc <= U32_MAX.
Proof.
  intros Hwt E Hsm. pose proof (sz_run_ends _ _ _ _ _ _ E) as Hsz.
  inversion Hwt as [cl ba0 id0 pre id ba fl body r R' v' n' G1 G2 N1 N2 Hba0 Hpre Hbody Hroot Hba Hid Hfl]; subst.
  pose proof (xwt_cmds_balanced _ _ _ _ _ _ Hpre) as Hp. pose proof (xwt_cmds_balanced _ _ _ _ _ _ Hbody) as Hb.
  cbn [count_starts count_ends is_start is_end] in *. rewrite count_starts_app, count_ends_app in *.
  cbn [count_starts count_ends is_start is_end] in *. rewrite count_starts_app, count_ends_app in *.
  cbn [count_starts count_ends is_start is_end] in *.
  unfold small in Hsm. unfold sz in Hsz. cbn [init_state front back lenZ length] in Hsz. unfold U32_MAX. unfold lenZ in *. cbn [length] in Hsz. lia.
Qed.

(* ------------------------------------------------------------------ the final statements *)
Theorem nested_build_decode Sc sc R v ws n N regs ems st :
  xwt_script Sc sc R v ws n N -> run init_state [] sc = Some (regs, ems, st) -> small st ->
  decode_root n Sc R ws (buffer_bytes st) = Some v.
Proof. intros Hwt E Hsm. eapply xbuild_decode; eauto. eapply xwt_script_count; eauto. Qed.

Theorem nested_build_wf Sc sc R v ws n N regs ems st :
  xwt_script Sc sc R v ws n N -> run init_state [] sc = Some (regs, ems, st) -> small st ->
  wf n Sc R ws (buffer_bytes st) = true /\
  wf_aligned n Sc R ws (buffer_alignment st) (buffer_bytes st) = true /\
  pow2 (buffer_alignment st) /\ 4 <= buffer_alignment st.
Proof. intros Hwt E Hsm. eapply xbuild_wf; eauto. eapply xwt_script_count; eauto. Qed.

Theorem nested_build_nested Sc sc R v ws n N regs ems st :
  xwt_script Sc sc R v ws n N -> run init_state [] sc = Some (regs, ems, st) -> small st ->
  Forall (nested_in_bytes Sc (buffer_bytes st) (buffer_alignment st)) N.
Proof. intros Hwt E Hsm. eapply xbuild_nested; eauto. eapply xwt_script_count; eauto. Qed.

(* ------------------------------------------------------------------ C15 in explicit form *)
(* [l]: the finished parent; a record (ri, Rn, vn, k) of the typing: the nested buffer whose vector reference is register ri,
   with root type Rn, root value vn, table depth at most k *)
Definition nested_self_contained (Sc : schema) (l : list Z) (rc : nrec) : Prop :=
  let '(ri, Rn, vn, k) := rc in
  exists off ext,
    4 <= off /\ sub l (off - 4) 4 = le32 (lenZ ext) /\ sub l off (lenZ ext) = ext /\     (* ext is the content of a ubyte vector of l *)
    decode_root k Sc Rn false ext = Some vn /\ wf k Sc Rn false ext = true.              (* on its own: a buffer holding vn *)

Definition nested_aligned (Sc : schema) (l : list Z) (A_parent : Z) (rc : nrec) : Prop :=
  let '(ri, Rn, vn, k) := rc in
  exists off A ext,
    4 <= off /\ sub l (off - 4) 4 = le32 (lenZ ext) /\ sub l off (lenZ ext) = ext /\
    pow2 A /\ 4 <= A /\
    wf_aligned k Sc Rn false A ext = true /\         (* A is an alignment the nested buffer can live with ... *)
    off mod A = 0 /\                                  (* ... its content starts at a multiple of A from the parent's start ... *)
    A <= A_parent /\ (A | A_parent).                  (* ... and the parent reports at least A *)

Theorem nested_build_self_contained Sc sc R v ws n N regs ems st :
  xwt_script Sc sc R v ws n N -> run init_state [] sc = Some (regs, ems, st) -> small st ->
  decode_root n Sc R ws (buffer_bytes st) = Some v /\
  Forall (nested_self_contained Sc (buffer_bytes st)) N.
Proof.
  intros Hwt E Hsm. split; [eapply nested_build_decode; eauto|].
  eapply Forall_impl; [|eapply nested_build_nested; eauto].
  intros [[[ri Rn] vn] k] (off & A & ext & H1 & H2 & H3 & H4 & H5 & _). exists off, ext. tauto.
Qed.

Theorem nested_build_aligned Sc sc R v ws n N regs ems st :
  xwt_script Sc sc R v ws n N -> run init_state [] sc = Some (regs, ems, st) -> small st ->
  pow2 (buffer_alignment st) /\ 4 <= buffer_alignment st /\
  wf_aligned n Sc R ws (buffer_alignment st) (buffer_bytes st) = true /\
  Forall (nested_aligned Sc (buffer_bytes st) (buffer_alignment st)) N.
Proof.
  intros Hwt E Hsm. destruct (nested_build_wf Sc sc R v ws n N regs ems st Hwt E Hsm) as (_ & Hwa & Hp & H4).
  split; [exact Hp|]. split; [exact H4|]. split; [exact Hwa|].
  eapply Forall_impl; [|eapply nested_build_nested; eauto].
  intros [[[ri Rn] vn] k] (off & A & ext & H1 & H2 & H3 & _ & _ & H6 & H7 & H8 & H9 & H10 & H11). exists off, A, ext. tauto.
Qed.
