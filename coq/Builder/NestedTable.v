(* The vtable cache with nest_id isolation, and start_table .. end_table inside the window of the current buffer level,
   for all field kinds (Table.v plus union vectors and nested buffers). *)
From Flatcc.Format Require Import Schema Spec SpecProofs.
From Flatcc.Builder Require Import EmitModel VMem Objects Leaves OffVec TableLayout Table Buffer NestedBase NestedLeaves UnionVecLeaves.
From Coq Require Import ZifyBool Znumtheory.
Local Open Scope Z_scope.
Ltac Zify.zify_post_hook ::= Z.div_mod_to_equations.

(* ------------------------------------------------------------------ buffer levels *)
Fixpoint marks_sorted (mark : Z) (frs : list bframe) : Prop :=
  match frs with
  | [] => True
  | f :: r => mark <= f_mark f /\ marks_sorted (f_mark f) r
  end.

Lemma marks_sorted_all mark frs : marks_sorted mark frs -> Forall (fun f => mark <= f_mark f) frs.
Proof.
  revert mark. induction frs as [|f r IH]; intros mark H; [constructor|]. destruct H as [H1 H2].
  constructor; [exact H1|]. eapply Forall_impl; [|apply (IH _ H2)]. cbn. intros; lia.
Qed.

Definition nid_ok (nc nid : Z) : Prop := 0 <= nid /\ (nid <> 0 -> nid < nc).

Definition lvls_ok (st : est) : Prop :=
  0 <= nest_count st /\ nid_ok (nest_count st) (nest_id st) /\ Forall (fun f => nid_ok (nest_count st) (f_nest_id f)) (frames st) /\
  marks_sorted (buffer_mark st) (frames st).

Lemma lvls_ok_step st st' : step st st' -> lvls_ok st -> lvls_ok st'.
Proof.
  intros H. destruct (s_ctl _ _ H) as (Hn & Hc & Hm & _ & _ & _ & _ & Hf). unfold lvls_ok. rewrite Hn, Hc, Hm, Hf. auto.
Qed.

(* a cached vtable of a nested buffer lies below that buffer's mark *)
Definition lvl_bound (st : est) (nid hi : Z) : Prop :=
  nid <> 0 ->
  (nid = nest_id st -> hi <= buffer_mark st) /\
  Forall (fun f => nid = f_nest_id f -> hi <= f_mark f) (frames st).

Definition xcache_ok (st : est) : Prop :=
  e_end st mod 2 = 0 /\
  forall vt nid r, In (vt, nid, r) (vcache st) ->
    nid_ok (nest_count st) nid /\
    mem_has (vmem st) (r - 1) vt /\ (r - 1) mod 2 = 0 /\ e_start st <= r - 1 /\ r - 1 + lenZ vt <= e_end st /\
    lvl_bound st nid (r - 1 + lenZ vt).

Lemma lvl_bound_ctl st st' nid hi :
  nest_id st' = nest_id st -> buffer_mark st' = buffer_mark st -> frames st' = frames st -> lvl_bound st nid hi -> lvl_bound st' nid hi.
Proof. intros Hn Hm Hf. unfold lvl_bound. rewrite Hn, Hm, Hf. auto. Qed.

Lemma xcache_ok_step st st' : step st st' -> vcache st' = vcache st -> e_end st' = e_end st -> xcache_ok st -> xcache_ok st'.
Proof.
  intros Hst Hc He [H2 H]. split; [congruence|]. intros vt nid r Hin. rewrite Hc in Hin.
  destruct (H vt nid r Hin) as (N & A & B & C & D & L).
  destruct (s_ctl _ _ Hst) as (Hn & Hnc & Hm & _ & _ & _ & _ & Hf).
  split; [rewrite Hnc; exact N|]. split; [eapply mem_has_ext; [exact (s_ext _ _ Hst) | exact A]|]. split; [exact B|].
  split; [pose proof (s_start _ _ Hst); lia|]. split; [lia|]. eapply lvl_bound_ctl; eauto.
Qed.

(* a vtable emitted at the front (nested buffer, or clustering off) *)
Lemma create_vtable_front st vt r e st1 :
  st_ok st -> ma_ok st -> is_top_buffer st && clustering st = false -> 0 <= lenZ vt < 65536 ->
  create_vtable st vt = Some (r, e, st1) -> small st1 ->
  step st st1 /\ min_align st1 = min_align st /\ vcache st1 = vcache st /\ e_end st1 = e_end st /\
  mem_has (vmem st1) (r - 1) vt /\ (r - 1) mod 2 = 0 /\ e_start st1 <= r - 1 /\ r - 1 + lenZ vt <= e_start st.
Proof.
  intros Hok Hma Htop Hl E Hsm. unfold create_vtable in E. rewrite Htop in E.
  destruct (emit_front st (vt ++ zeros (front_pad st (u32 (lenZ vt)) 2))) as [[[ref e'] st'']|] eqn:E'; [|discriminate].
  injection E as <- <- <-.
  destruct (step_emit_front _ _ _ _ _ Hok Hma E' Hsm) as (Hst & Hr & Hs & He & Hm & Hc & Hmem & _).
  rewrite (u32_id (lenZ vt)) in * by (unfold in_u32; lia).
  pose proof (front_pad_range st (lenZ vt) 2 pow2_2) as Hfr.
  pose proof (front_pad_aligned st (lenZ vt) 2 pow2_2) as Hfa.
  rewrite lenZ_app, lenZ_zeros in Hr by lia.
  apply mem_has_app in Hmem. destruct Hmem as [Hmem _].
  replace (ref + 1 - 1) with ref by ring.
  assert (Hev : ref mod 2 = 0) by (rewrite Hr; replace (e_start st - (lenZ vt + front_pad st (lenZ vt) 2)) with
                                   (e_start st - lenZ vt - front_pad st (lenZ vt) 2) by ring; exact Hfa).
  split; [exact Hst|]. split; [exact Hm|]. split; [exact Hc|]. split; [exact He|]. split; [exact Hmem|].
  split; [exact Hev|]. split; [lia|]. clear Hev Hfa. lia.
Qed.

Lemma xcached_vtable_ok st vt r es st1 :
  st_ok st -> ma_ok st -> win_ok st -> lvls_ok st -> xcache_ok st -> 0 <= lenZ vt < 65536 -> lenZ vt mod 2 = 0 ->
  create_cached_vtable st vt = Some (r, es, st1) -> small st1 ->
  step st st1 /\ xcache_ok st1 /\ min_align st1 = min_align st /\
  mem_has (wmem st1) (r - 1) vt /\ (r - 1) mod 2 = 0 /\ e_start st1 <= r - 1 /\ r - 1 + lenZ vt <= e_end st1.
Proof.
  intros Hok Hma Hw Hlv Hc Hl Hl2 E Hsm. unfold create_cached_vtable in E.
  destruct (vcache_find (vcache st) vt (nest_id st)) as [r0|] eqn:F.
  - injection E as <- <- <-. apply vcache_find_in in F. destruct Hc as [H2 H].
    destruct (H _ _ _ F) as (N & A & B & C & D & L).
    split; [apply step_refl; assumption|]. split; [split; assumption|]. split; [reflexivity|].
    split; [|repeat (split; [assumption|]); assumption].
    apply mem_has_wmem; [exact A|]. destruct (Z.eq_dec (nest_id st) 0) as [Hz|Hnz]; [left; exact Hz | right].
    destruct (L Hnz) as [L1 _]. apply L1. reflexivity.
  - destruct (create_vtable st vt) as [[[r0 e0] st0]|] eqn:E0; [|discriminate].
    injection E as <- <- <-.
    assert (Hsm0 : small st0) by exact Hsm.
    assert (Hvm : forall a, vmem (with_vcache st0 ((vt, nest_id st, r0) :: vcache st0)) a = vmem st0 a) by reflexivity.
    assert (Hwm : forall a, wmem (with_vcache st0 ((vt, nest_id st, r0) :: vcache st0)) a = wmem st0 a) by reflexivity.
    (* facts common to both emission sides *)
    assert (Hcommon : step st st0 /\ min_align st0 = min_align st /\ vcache st0 = vcache st /\ e_end st0 mod 2 = 0 /\
              mem_has (vmem st0) (r0 - 1) vt /\ (r0 - 1) mod 2 = 0 /\ e_start st0 <= r0 - 1 /\ r0 - 1 + lenZ vt <= e_end st0 /\
              (nest_id st <> 0 -> r0 - 1 + lenZ vt <= e_start st)).
    { destruct (is_top_buffer st && clustering st) eqn:Etop.
      - destruct (create_vtable_ok st vt r0 e0 st0 Hok Hma (proj1 Hc) Hl Hl2 E0 Hsm0) as (Hst & Hm & Hcc & He2 & Hmem & Hev & Hlo & Hhi).
        repeat (split; [assumption|]). intros Hnz. apply andb_true_iff in Etop. destruct Etop as [Et _].
        unfold is_top_buffer in Et. lia.
      - destruct (create_vtable_front st vt r0 e0 st0 Hok Hma Etop Hl E0 Hsm0) as (Hst & Hm & Hcc & He & Hmem & Hev & Hlo & Hhi).
        destruct Hok as (Hs00 & He0 & _). pose proof (s_start _ _ Hst). destruct (s_ok _ _ Hst) as (Hs0 & _).
        pose proof (lenZ_nonneg (front st)). pose proof (lenZ_nonneg (back st)). destruct Hc as [Hc2 _].
        split; [exact Hst|]. split; [exact Hm|]. split; [exact Hcc|]. split; [congruence|]. split; [exact Hmem|].
        split; [exact Hev|]. split; [exact Hlo|]. split; [|intros _; exact Hhi].
        clear Hev Hc2. lia. }
    destruct Hcommon as (Hst & Hm & Hcc & He2 & Hmem & Hev & Hlo & Hhi & Hfront).
    destruct (s_ctl _ _ Hst) as (Hn & Hnc & Hmk & _ & _ & _ & _ & Hf).
    destruct Hlv as (_ & Hnid & Hfr & Hms). destruct Hw as [Hw1 Hw2].
    pose proof (marks_sorted_all _ _ Hms) as Hmall.
    split.
    { destruct Hst. constructor; auto. }
    split.
    { split; [exact He2|]. cbn [with_vcache vcache e_start e_end nest_count]. intros vt' nid' r' Hin.
      destruct Hin as [Heq|Hin].
      - injection Heq as <- <- <-.
        split; [rewrite Hnc; exact Hnid|]. split; [exact Hmem|]. split; [exact Hev|]. split; [exact Hlo|]. split; [exact Hhi|].
        intros Hnz. specialize (Hfront Hnz). cbn [with_vcache nest_id buffer_mark frames]. rewrite Hmk, Hf.
        split; [intros _; lia|]. eapply Forall_impl; [|exact Hmall]. cbn. intros f Hmf _. lia.
      - rewrite Hcc in Hin. destruct Hc as [_ H]. destruct (H _ _ _ Hin) as (N & A & B & C & D & L).
        split; [rewrite Hnc; exact N|]. split; [eapply mem_has_ext; [exact (s_ext _ _ Hst) | exact A]|]. split; [exact B|].
        pose proof (s_start _ _ Hst). pose proof (s_end _ _ Hst).
        split; [lia|]. split; [lia|]. apply (lvl_bound_ctl st); auto. }
    split; [exact Hm|].
    split; [|repeat (split; [assumption|]); assumption].
    intros i Hi. rewrite Hwm. revert i Hi. apply mem_has_wmem; [exact Hmem|].
    destruct (Z.eq_dec (nest_id st) 0) as [Hz|Hnz]; [left; congruence | right]. rewrite Hmk. specialize (Hfront Hnz). lia.
Qed.

(* ------------------------------------------------------------------ field kinds stored through one offset *)
Definition kcont (n : nat) (Sc : schema) (k : fkind) (m : mem) (o : Z) (ds : list Z) : option (Z -> option value) :=
  match k with
  | FString => Some (dec_string m o ds)
  | FVector es al mc => Some (dec_vector m o ds es al mc)
  | FStringVec => Some (dec_offvec (dec_string m o ds) m o ds)
  | FTable t => Some (dec_table n Sc m o ds t)
  | FTableVec t => Some (dec_offvec (dec_table n Sc m o ds t) m o ds)
  | FNestedTable al t => Some (dec_nested (dec_table n Sc) m o ds (RTable t) al)
  | FNestedStruct size al => Some (dec_nested (dec_table n Sc) m o ds (RStruct size al) al)
  | _ => None
  end.

Lemma dec_kind_off n Sc k m o ds vt vsize tp tsize id c :
  kcont n Sc k m o ds = Some c ->
  dec_kind (dec_table n Sc) Sc m o ds vt vsize tp tsize id k = with_off m o ds vt vsize tp tsize id c.
Proof. destruct k; cbn [kcont dec_kind]; intros H; try discriminate; injection H as <-; reflexivity. Qed.

(* which object type and value a single-offset field kind accepts *)
Inductive off_kind : fkind -> xty -> value -> Prop :=
| OK_string v : off_kind FString (XBase OString) v
| OK_vector es al mc elems : Z.of_nat (length elems) <= mc -> off_kind (FVector es al mc) (XBase (OVec es al)) (VVec elems)
| OK_strvec v : off_kind FStringVec (XBase OStrVec) v
| OK_table t v : off_kind (FTable t) (XBase (OTable t)) v
| OK_tabvec t v : off_kind (FTableVec t) (XBase (OTabVec t)) v
| OK_nested_table al t v : off_kind (FNestedTable al t) (XNested (RTable t)) v
| OK_nested_struct size al v : off_kind (FNestedStruct size al) (XNested (RStruct size al)) v.

Lemma off_kind_cont n Sc k ty v m o ds p :
  off_kind k ty v -> xholds n Sc ty v m o ds p -> exists c, kcont n Sc k m o ds = Some c /\ c p = Some v.
Proof.
  intros Hk Hh. inversion Hk; subst; cbn [xholds obj_holds kcont] in *; try (eexists; split; [reflexivity | exact Hh]).
  - destruct Hh as (el & Heq & Hd). injection Heq as <-. eexists; split; [reflexivity | apply Hd; assumption].
  - destruct Hh as (w & -> & Hd). eexists; split; [reflexivity | apply Hd].
  - destruct Hh as (w & -> & Hd). eexists; split; [reflexivity | apply Hd].
Qed.

Lemma code_elems_inj a b : code_elems a = code_elems b -> a = b.
Proof.
  revert b. induction a as [|x a IH]; destruct b as [|y b]; cbn; intros H; try discriminate; [reflexivity|].
  injection H as <- H. f_equal. apply IH, H.
Qed.

(* how the add list realises one schema field: the value the decoder must find (None: absent) *)
Inductive xfield_built (n : nat) (Sc : schema) (st : est) (adds : list farg) (f : field) : option value -> Prop :=
| XFB_absent :
    (forall a, In a adds -> farg_id a <> fid f) ->
    (match fk f with FUnion _ | FUnionVec _ => forall a, In a adds -> farg_id a <> fid f - 1 | _ => True end) ->
    frequired f = false -> xfield_built n Sc st adds f None
| XFB_scalar size al bytes :
    fk f = FScalar size al -> In (AInline (fid f) size al bytes) adds ->
    xfield_built n Sc st adds f (Some (VBytes bytes))
| XFB_off ty r v :
    off_kind (fk f) ty v -> In (AOffset (fid f) r) adds -> e_start st <= r < 0 ->
    xvalid n Sc st (lvl_align st) ty r v -> xfield_built n Sc st adds f (Some v)
| XFB_union u code r mem v :
    fk f = FUnion u -> code <> 0 -> In (AInline (fid f - 1) 1 1 [code]) adds -> In (AOffset (fid f) r) adds ->
    e_start st <= r < 0 -> union_member Sc u code = Some mem ->
    xvalid n Sc st (lvl_align st) (XBase (member_oty mem)) r v -> xfield_built n Sc st adds f (Some (VUnion code v))
| XFB_union_none u :
    fk f = FUnion u -> In (AInline (fid f - 1) 1 1 [0]) adds -> (forall a, In a adds -> farg_id a <> fid f) ->
    frequired f = false -> xfield_built n Sc st adds f None
| XFB_unionvec u rt rv es :
    (* table_add_union_vector: the type vector under id - 1, the value vector under id *)
    fk f = FUnionVec u -> In (AOffset (fid f - 1) rt) adds -> In (AOffset (fid f) rv) adds ->
    e_start st <= rt < 0 -> e_start st <= rv < 0 ->
    xvalid n Sc st (lvl_align st) XUType rt (VVec (code_elems (codes_of es))) ->
    xvalid n Sc st (lvl_align st) (XUVal u) rv (VUnionVec es) ->
    xfield_built n Sc st adds f (Some (VUnionVec es)).

Inductive xfields_built (n : nat) (Sc : schema) (st : est) (adds : list farg) : list field -> list (Z * value) -> Prop :=
| XFBS_nil : xfields_built n Sc st adds [] []
| XFBS_absent f r fs : xfield_built n Sc st adds f None -> xfields_built n Sc st adds r fs -> xfields_built n Sc st adds (f :: r) fs
| XFBS_present f r v fs : xfield_built n Sc st adds f (Some v) -> xfields_built n Sc st adds r fs ->
                          xfields_built n Sc st adds (f :: r) ((fid f, v) :: fs).

(* ------------------------------------------------------------------ start_table .. end_table *)
Lemma xbuild_table n Sc st adds t flds fs ref es st' :
  st_ok st -> ma_ok st -> win_ok st -> lvls_ok st -> xcache_ok st ->
  Forall farg_wf adds -> Z.of_nat (length adds) <= 32765 -> table_fits adds ->
  table_fields Sc t = Some flds -> xfields_built n Sc st adds flds fs ->
  build_table st adds = Some (ref, es, st') -> small st' ->
  step st st' /\ xcache_ok st' /\ e_start st' = ref /\ ref < e_start st /\
  xvalid (S n) Sc st' (lvl_align st') (XBase (OTable t)) ref (VTable fs).
Proof.
  intros Hok Hma Hwin Hlv Hc Hw Hlen Hfit Hflds Hfb E Hsm. unfold build_table in E.
  destruct (has_dup (map farg_id adds)) eqn:Hdup; [discriminate|].
  apply has_dup_false in Hdup.
  unfold table_fits in Hfit.
  destruct (place adds 0) as [placed size] eqn:Epl. cbn [snd] in Hfit.
  destruct (65535 <? size + 4); [discriminate|].
  pose proof (place_fst_map adds 0) as Hmapf. rewrite Epl in Hmapf. cbn [fst] in Hmapf.
  destruct (place_ok adds 0 placed size Hw ltac:(lia) ltac:(lia) Epl) as (Hsorted & Hsz & Hsz0).
  assert (Hwp : Forall (fun ao => farg_wf (fst ao)) placed).
  { rewrite <- Hmapf in Hw. rewrite Forall_map in Hw. exact Hw. }
  assert (Hndp : NoDup (map (fun ao => farg_id (fst ao)) placed)).
  { rewrite <- Hmapf in Hdup. rewrite map_map in Hdup. exact Hdup. }
  assert (Hie : id_end_of placed 0 <= 32765).
  { apply id_end_of_bound; [lia|]. eapply Forall_impl; [|exact Hwp]. cbn. intros ao (Hid & _). lia. }
  pose proof (id_end_of_ge placed 0) as Hie0.
  destruct (create_cached_vtable st (vtable_bytes placed size)) as [[[vt_ref es1] st1]|] eqn:Ecv; [|discriminate].
  destruct (create_table st1 placed size (table_align adds 4) vt_ref) as [[[ref' e2] st2]|] eqn:Ect; [|discriminate].
  injection E as <- <- <-. rename ref' into ref.
  assert (Hsm1 : small st1) by (eapply create_table_small; eauto).
  pose proof (vtable_bytes_len placed size) as Hvl.
  assert (Hvl1 : 0 <= lenZ (vtable_bytes placed size) < 65536) by lia.
  assert (Hvl2 : lenZ (vtable_bytes placed size) mod 2 = 0) by (rewrite Hvl, Z.mul_comm; apply Z.mod_mul; lia).
  destruct (xcached_vtable_ok st (vtable_bytes placed size) vt_ref es1 st1 Hok Hma Hwin Hlv Hc Hvl1 Hvl2 Ecv Hsm1)
    as (Hst1 & Hc1 & Hm1 & Hvmem & Hvev & Hvlo & Hvhi).
  pose proof (win_ok_step _ _ Hst1 Hwin) as Hwin1.
  (* create_table *)
  unfold create_table in Ect.
  destruct (table_align_ge adds 4 pow2_4 Hw) as (Hpta & Hta4 & Htaf).
  set (AL := align4 (table_align adds 4)) in *.
  assert (HAL : pow2 AL /\ 4 <= AL /\ table_align adds 4 <= AL).
  { subst AL. unfold align4, zmax. destruct (table_align adds 4 <? 4) eqn:X; [split; [apply pow2_4|lia] | split; [exact Hpta|lia]]. }
  destruct HAL as (HpAL & HAL4 & HALta).
  pose proof (step_set_min_align st1 AL (s_ok _ _ Hst1) (s_ma _ _ Hst1) HpAL) as Hst1'.
  pose proof (win_ok_set_min_align st1 AL Hwin1) as Hwin1'.
  destruct (set_min_align_fields st1 AL) as (Hs1' & He1' & _ & _ & Hcc1' & _ & Hmm1').
  destruct (lvl_align_set st1 AL (s_ma _ _ Hst1) HpAL) as [Hd1 _].
  remember (set_min_align st1 AL) as st1' eqn:Hst1'e. clear Hst1'e.
  destruct (negb _) eqn:Echk in Ect; [discriminate|]. clear Echk.
  set (pad := front_pad st1' size AL) in *.
  set (base := u32 (u32 (e_start st1') - u32 (pad + size + 4))) in *.
  destruct (wemit_front _ _ _ _ _ (s_ok _ _ Hst1') (s_ma _ _ Hst1') Hwin1' Ect Hsm) as (Hst2 & Hr & Hs2 & He2 & Hm2 & Hcc2 & Hmem & _ & Hwin2).
  pose proof (front_pad_range st1' size AL HpAL) as Hfr. fold pad in Hfr.
  pose proof (front_pad_aligned st1' size AL HpAL) as Hfa. fold pad in Hfa.
  pose proof (table_data_len base placed 0 Hwp Hsorted) as Htdl. rewrite <- Hsz in Htdl.
  rewrite !lenZ_app, lenZ_le32, Htdl, lenZ_zeros in Hr by lia.
  assert (Hstep : step st st2) by exact (step_trans _ _ _ Hst1 (step_trans _ _ _ Hst1' Hst2)).
  destruct (s_ok _ _ Hst2) as (Hs2' & He2' & Hlo2 & Hhi2).
  destruct (s_ok _ _ Hst1') as (Hs1'' & _ & Hlo1 & _).
  pose proof (lenZ_nonneg (front st1')) as Hf1. pose proof (lenZ_nonneg (front st2)) as Hf2. pose proof (lenZ_nonneg (back st2)) as Hb2.
  assert (Hbase : base = u32 ref).
  { subst base. rewrite Hr. unfold u32. lia. }
  assert (Href4 : (ref + 4) mod AL = 0).
  { rewrite Hr. replace (e_start st1' - (4 + (size - 0 + pad)) + 4) with (e_start st1' - size - pad) by ring. exact Hfa. }
  assert (Hr4 : ref mod 4 = 0).
  { assert (X : (ref + 4) mod 4 = 0).
    { eapply mod_divide_trans; [lia | | apply pow2_pos, HpAL | exact Href4]. apply pow2_le_divide; [apply pow2_4 | exact HpAL | lia]. }
    lia. }
  split; [exact Hstep|].
  split.
  { eapply xcache_ok_step; [exact (step_trans _ _ _ Hst1' Hst2) | congruence | lia | exact Hc1]. }
  split; [exact Hs2|]. split; [pose proof (s_start _ _ Hst1); clear Hfa Href4 Hr4 Hvev; lia|].
  (* decoding *)
  apply mem_has_app in Hmem. destruct Hmem as [Hmso Hmem]. apply mem_has_app in Hmem. destruct Hmem as [Hmdata _].
  rewrite lenZ_le32 in Hmdata.
  assert (Hvmem2 : mem_has (wmem st2) (vt_ref - 1) (vtable_bytes placed size)).
  { eapply mem_has_ext; [exact (wmem_step _ _ (step_trans _ _ _ Hst1' Hst2)) | exact Hvmem]. }
  assert (HALlvl : (AL | lvl_align st2)).
  { eapply Z.divide_trans; [exact Hd1|]. apply lvl_align_divide; [exact (s_ma _ _ Hst1') | exact (s_ma _ _ Hst2) | lia]. }
  intros o ds Ho. cbn [xholds obj_holds dec_table]. unfold dec_table_body. rewrite Hflds. cbn [bind].
  assert (Halg : forall a al, a mod al = 0 -> pow2 al -> al <= AL -> aligned ds (a - o) al = true).
  { intros a al Ha Hpa Hle. apply (aligned_intro st2 (lvl_align st2) o ds a al Ho Ha (pow2_pos _ Hpa)); [|apply lvl_pos].
    eapply Z.divide_trans; [apply (pow2_le_divide al AL Hpa HpAL Hle) | exact HALlvl]. }
  rewrite (Halg ref 4 Hr4 pow2_4 HAL4).
  replace (o + (ref - o)) with ref by ring.
  rewrite (mem_has_le32 _ _ _ (u32_range _) Hmso). cbn [bind].
  destruct (s_ok _ _ Hst1) as (_ & He1s & _ & Hhi1).
  assert (Hso : s32 (u32 (base - u32 (vt_ref - 1))) = ref - (vt_ref - 1)).
  { rewrite Hbase. unfold small in Hsm. unfold s32, u32. cbv zeta.
    destruct (((ref mod 4294967296 - (vt_ref - 1) mod 4294967296) mod 4294967296) mod 4294967296 <? 2147483648) eqn:D; lia. }
  rewrite Hso. replace (ref - o - (ref - (vt_ref - 1))) with (vt_ref - 1 - o) by ring.
  destruct Ho as [Holo Hods].
  replace (0 <=? vt_ref - 1 - o) with true by lia. cbn [andb].
  rewrite (Halg (vt_ref - 1) 2 Hvev pow2_2 ltac:(lia)).
  replace (o + (vt_ref - 1 - o)) with (vt_ref - 1) by ring.
  pose proof Hvmem2 as Hvm3. unfold vtable_bytes in Hvm3.
  apply mem_has_app in Hvm3. destruct Hvm3 as [Hv0 Hvm3]. apply mem_has_app in Hvm3. destruct Hvm3 as [Hv1 _].
  rewrite lenZ_le16 in Hv1.
  rewrite (mem_has_le16 _ _ _ (u16_range _) Hv0). cbn [bind].
  rewrite (mem_has_le16 _ _ _ (u16_range _) Hv1). cbn [bind].
  rewrite (u16_id (2 * (id_end_of placed 0 + 2))) by (unfold in_u16; lia).
  rewrite (u16_id (size + 4)) by (unfold in_u16; lia).
  replace (4 <=? 2 * (id_end_of placed 0 + 2)) with true by lia.
  replace (2 * (id_end_of placed 0 + 2) mod 2 =? 0) with true by (rewrite Z.mul_comm, Z.mod_mul by lia; reflexivity).
  replace (4 <=? size + 4) with true by lia. cbn [andb].
  destruct (mem_has_some _ _ _ (2 * (id_end_of placed 0 + 2) - 1) Hvmem2 ltac:(lia)) as [b1 Hb1].
  replace (vt_ref - 1 + 2 * (id_end_of placed 0 + 2) - 1) with (vt_ref - 1 + (2 * (id_end_of placed 0 + 2) - 1)) by ring.
  rewrite Hb1. cbn [bind].
  assert (Hlast : exists b, wmem st2 (ref + size + 4 - 1) = Some b).
  { destruct (Z.eq_dec size 0) as [Hz|Hnz].
    - destruct (mem_has_some _ _ _ 3 Hmso ltac:(rewrite lenZ_le32; lia)) as [b Hb]. exists b. rewrite Hz. replace (ref + 0 + 4 - 1) with (ref + 3) by ring. exact Hb.
    - destruct (mem_has_some _ _ _ (size - 1) Hmdata ltac:(rewrite Htdl; lia)) as [b Hb]. exists b.
      replace (ref + size + 4 - 1) with (ref + 4 + (size - 1)) by ring. exact Hb. }
  destruct Hlast as [bl Hbl].
  replace (ref + (size + 4) - 1) with (ref + size + 4 - 1) by ring. rewrite Hbl. cbn [bind].
  (* the context of the table-reading lemmas *)
  assert (HAL' : pow2 AL /\ 4 <= AL /\ (ref + 4) mod AL = 0) by (repeat split; assumption).
  assert (Hdata' : forall a off, In (a, off) placed -> mem_has (wmem st2) (ref + 4 + off) (payload a base off)).
  { apply (table_data_has (wmem st2) base (ref + 4) placed 0 Hwp Hsorted). rewrite Z.add_0_r. exact Hmdata. }
  assert (Hbounds' : forall a off, In (a, off) placed -> 0 <= off /\ off mod farg_align a = 0 /\ off + farg_size a <= size).
  { intros a off Hin. rewrite Hsz. apply (sorted_in_bounds placed 0 a off Hwp Hsorted Hin). }
  assert (Hwf' : forall a off, In (a, off) placed -> farg_wf a /\ farg_align a <= AL).
  { intros a off Hin. rewrite Forall_forall in Hwp. pose proof (Hwp _ Hin) as Hwa. cbn [fst] in Hwa. split; [exact Hwa|].
    assert (Hina : In a adds) by (apply (in_placed_adds adds placed Hmapf); eauto).
    pose proof (Htaf a Hina) as Hta. destruct a; cbn [farg_align]; lia. }
  assert (Hsize' : 0 <= size /\ size + 4 <= 65535) by lia.
  assert (HT : -2147483648 <= ref < 0) by lia.
  assert (Hfield : forall f ov, xfield_built n Sc st adds f ov ->
            dec_field (dec_table n Sc) Sc (wmem st2) o ds (vt_ref - 1 - o) (2 * (id_end_of placed 0 + 2)) (ref - o) (size + 4) f = Some ov).
  { assert (Hord : org_ok st2 (lvl_align st2) o ds) by (split; assumption).
    assert (Hoff : forall id r, In (AOffset id r) adds -> e_start st <= r < 0 ->
              exists off, In (AOffset id r, off) placed /\ ref + 4 + off < r < 0).
    { intros id r Hin Hr'. apply (in_placed_adds adds placed Hmapf) in Hin. destruct Hin as [off Hin]. exists off. split; [exact Hin|].
      destruct (Hbounds' _ _ Hin) as (H0 & _ & Hle). cbn [farg_size] in Hle.
      pose proof (s_start _ _ Hst1). clear Hfa Href4 Hr4 Hvev. lia. }
    assert (Hwo : forall id r (k : Z -> option value) v, In (AOffset id r) adds -> e_start st <= r < 0 -> k (r - o) = Some v ->
              with_off (wmem st2) o ds (vt_ref - 1 - o) (2 * (id_end_of placed 0 + 2)) (ref - o) (size + 4) id k = Some (Some v)).
    { intros id r k v Hin Hr' Hk. destruct (Hoff id r Hin Hr') as (off & Hin' & Hlt).
      exact (ctx_with_off (wmem st2) o ds ref (vt_ref - 1) placed size base AL Halg HAL' Hvmem2 Hdata' Hbounds' Hwf' Hsize' Hie Hndp Hbase HT
               id r off k v Hin' Hlt Hk). }
    assert (Hfo : forall id r, In (AOffset id r) adds -> e_start st <= r < 0 ->
              field_pos (wmem st2) o ds (vt_ref - 1 - o) (2 * (id_end_of placed 0 + 2)) (ref - o) (size + 4) id 4 4 = Some (Some (ref - o + (0 + 4))) \/ True).
    { intros. right. exact I. }
    assert (Habs : forall id fsz fal, (forall a, In a adds -> farg_id a <> id) ->
              field_pos (wmem st2) o ds (vt_ref - 1 - o) (2 * (id_end_of placed 0 + 2)) (ref - o) (size + 4) id fsz fal = Some None).
    { intros id fsz fal Hno. apply (ctx_field_pos_absent (wmem st2) o ds ref (vt_ref - 1) placed size base AL Halg Hvmem2 Hdata' Hbounds' Hwf' Hie).
      intros a off Hin. apply Hno. apply (in_placed_adds adds placed Hmapf). eauto. }
    intros f ov Hf. unfold dec_field.
    inversion Hf as [Hno Hno1 Hreq | fsz fal bytes Hk Hin | ty r v Hk Hin Hr' Hv
                     | u code r mem v Hk Hcode Hint Hin Hr' Hmem Hv | u Hk Hint Hno Hreq
                     | u rt rv ues Hk Hint Hinv Hrt Hrv Hvt Hvv]; subst ov.
    - (* absent *)
      assert (Hdk : dec_kind (dec_table n Sc) Sc (wmem st2) o ds (vt_ref - 1 - o) (2 * (id_end_of placed 0 + 2)) (ref - o) (size + 4) (fid f) (fk f) = Some None).
      { revert Hno1. destruct (fk f); intros Hno1; cbn [dec_kind]; unfold with_off; rewrite ?(Habs (fid f) _ _ Hno); try reflexivity.
        - rewrite (Habs (fid f - 1) _ _ Hno1). reflexivity.
        - rewrite (Habs (fid f - 1) _ _ Hno1). reflexivity. }
      rewrite Hdk. cbn [bind]. rewrite Hreq. reflexivity.
    - (* scalar / struct *)
      rewrite Hk. apply (in_placed_adds adds placed Hmapf) in Hin. destruct Hin as [off Hin].
      rewrite (ctx_scalar n Sc (wmem st2) o ds ref (vt_ref - 1) placed size base AL Halg HAL' Hvmem2 Hdata' Hbounds' Hwf' Hsize' Hie Hndp
                 (fid f) fsz fal bytes off Hin). reflexivity.
    - (* any field stored through one offset *)
      pose proof (step_xvalid n Sc st st2 _ _ _ Hma Hstep Hv o ds Hord) as Hv'.
      destruct (off_kind_cont n Sc (fk f) ty v (wmem st2) o ds (r - o) Hk Hv') as (c & Hc' & Hcv).
      rewrite (dec_kind_off n Sc (fk f) _ _ _ _ _ _ _ (fid f) c Hc').
      rewrite (Hwo (fid f) r c v Hin Hr' Hcv). reflexivity.
    - (* union with a member *)
      rewrite Hk. cbn [dec_kind].
      apply (in_placed_adds adds placed Hmapf) in Hint. destruct Hint as [offt Hint].
      destruct (ctx_type_byte (wmem st2) o ds ref (vt_ref - 1) placed size base AL Halg HAL' Hvmem2 Hdata' Hbounds' Hwf' Hsize' Hie Hndp
                  (fid f - 1) code offt Hint) as [Hfp Hbyte].
      rewrite Hfp. cbn [bind]. rewrite Hbyte. cbn [bind].
      destruct (Hoff (fid f) r Hin Hr') as (off & Hin' & Hlt).
      pose proof (ctx_field_pos_present (wmem st2) o ds ref (vt_ref - 1) placed size base AL Halg HAL' Hvmem2 Hdata' Hbounds' Hwf' Hsize' Hie Hndp
                    _ _ Hin') as Hvp. cbn [farg_id farg_size farg_align] in Hvp. rewrite Hvp. cbn [bind].
      replace (code =? 0) with false by lia.
      rewrite (ctx_follow (wmem st2) o ds ref (vt_ref - 1) placed size base AL Halg HAL' Hdata' Hbounds' Hwf' Hbase HT (fid f) r off Hin' Hlt). cbn [bind].
      pose proof (step_xvalid n Sc st st2 _ _ _ Hma Hstep Hv o ds Hord) as Hv'.
      unfold dec_member. rewrite Hmem. destruct mem; cbn [member_oty xholds obj_holds] in Hv'; rewrite Hv'; reflexivity.
    - (* union NONE with an explicit type byte 0 *)
      rewrite Hk. cbn [dec_kind].
      apply (in_placed_adds adds placed Hmapf) in Hint. destruct Hint as [offt Hint].
      destruct (ctx_type_byte (wmem st2) o ds ref (vt_ref - 1) placed size base AL Halg HAL' Hvmem2 Hdata' Hbounds' Hwf' Hsize' Hie Hndp
                  (fid f - 1) 0 offt Hint) as [Hfp Hbyte].
      rewrite Hfp. cbn [bind]. rewrite Hbyte. cbn [bind]. rewrite (Habs (fid f) _ _ Hno). cbn [bind Z.eqb].
      rewrite Hreq. reflexivity.
    - (* union vector *)
      rewrite Hk. cbn [dec_kind].
      destruct (Hoff (fid f - 1) rt Hint Hrt) as (offt & Hint' & Hltt).
      destruct (Hoff (fid f) rv Hinv Hrv) as (offv & Hinv' & Hltv).
      pose proof (ctx_field_pos_present (wmem st2) o ds ref (vt_ref - 1) placed size base AL Halg HAL' Hvmem2 Hdata' Hbounds' Hwf' Hsize' Hie Hndp
                    _ _ Hint') as Hpt. cbn [farg_id farg_size farg_align] in Hpt. rewrite Hpt. cbn [bind].
      pose proof (ctx_field_pos_present (wmem st2) o ds ref (vt_ref - 1) placed size base AL Halg HAL' Hvmem2 Hdata' Hbounds' Hwf' Hsize' Hie Hndp
                    _ _ Hinv') as Hpv. cbn [farg_id farg_size farg_align] in Hpv. rewrite Hpv. cbn [bind].
      rewrite (ctx_follow (wmem st2) o ds ref (vt_ref - 1) placed size base AL Halg HAL' Hdata' Hbounds' Hwf' Hbase HT (fid f - 1) rt offt Hint' Hltt). cbn [bind].
      rewrite (ctx_follow (wmem st2) o ds ref (vt_ref - 1) placed size base AL Halg HAL' Hdata' Hbounds' Hwf' Hbase HT (fid f) rv offv Hinv' Hltv). cbn [bind].
      pose proof (step_xvalid n Sc st st2 _ _ _ Hma Hstep Hvt o ds Hord) as Hvt'.
      pose proof (step_xvalid n Sc st st2 _ _ _ Hma Hstep Hvv o ds Hord) as Hvv'.
      cbn [xholds] in Hvt', Hvv'.
      destruct Hvt' as (cs & Hcs & Hth). injection Hcs as Hcs. apply code_elems_inj in Hcs. subst cs.
      destruct Hvv' as (es' & Hes & Hvh). injection Hes as <-.
      rewrite (dec_uvec_join n Sc (wmem st2) o ds u ues (rt - o) (rv - o) Hth Hvh). reflexivity. }
  assert (Hdf : dec_fields (dec_table n Sc) Sc (wmem st2) o ds (vt_ref - 1 - o) (2 * (id_end_of placed 0 + 2)) (ref - o) (size + 4) flds = Some fs).
  { clear Hflds. induction Hfb as [|f r fs0 Hf Hr' IH|f r v fs0 Hf Hr' IH]; cbn [dec_fields].
    - reflexivity.
    - rewrite (Hfield _ _ Hf). cbn [bind]. rewrite IH. reflexivity.
    - rewrite (Hfield _ _ Hf). cbn [bind]. rewrite IH. reflexivity. }
  rewrite Hdf. reflexivity.
Qed.
