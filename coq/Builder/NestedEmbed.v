(* Every script typed by Script.wt_script is typed by NestedScript.xwt_script (with no nested buffer): the theorems of
   NestedCount.v contain those of ScriptProofs.v. *)
From Flatcc.Format Require Import Schema Spec SpecProofs.
From Flatcc.Builder Require Import EmitModel VMem Objects Leaves OffVec TableLayout Table Buffer Script ScriptProofs.
From Flatcc.Builder Require Import NestedBase NestedLeaves UnionVecLeaves NestedTable NestedBuffer NestedScript.
Local Open Scope Z_scope.

Definition xe (e : entry) : xentry := {| xe_ty := XBase (en_ty e); xe_val := en_val e; xe_depth := en_depth e |}.
Definition xG (G : env) : xenv := map (option_map xe) G.

Lemma xlookup_xG G r e : lookup G r = Some e -> xlookup (xG G) r = Some (xe e).
Proof.
  unfold lookup, xlookup, xG. rewrite nth_error_map. destruct (nth_error G r) as [[e'|]|]; cbn; intros H; try discriminate.
  injection H as <-. reflexivity.
Qed.

Lemma xG_snoc G ty v n : xG (G ++ [mk ty v n]) = xG G ++ [xmk (XBase ty) v n].
Proof. unfold xG. rewrite map_app. reflexivity. Qed.

Lemma wt_field_x Sc G n adds f ov : wt_field Sc G n adds f ov -> xwt_field Sc (xG G) n adds f ov.
Proof.
  intros H. inversion H as [Hno Hno1 Hreq | size al bytes Hk Hin | r v k Hk Hin Hl Hkn | es al mc r elems k Hk Hin Hl Hkn Hmc
                   | r v k Hk Hin Hl Hkn | t r v k Hk Hin Hl Hkn | t r v k Hk Hin Hl Hkn
                   | u code r mem v k Hk Hcode Hint Hin Hmem Hl Hkn | u Hk Hint Hno Hreq]; subst ov.
  - apply XWF_absent; assumption.
  - eapply XWF_scalar; eauto.
  - eapply (XWF_off Sc _ n adds f (XBase OString) r v k); [rewrite Hk; constructor | exact Hin | exact (xlookup_xG _ _ _ Hl) | exact Hkn].
  - eapply (XWF_off Sc _ n adds f (XBase (OVec es al)) r (VVec elems) k); [rewrite Hk; constructor; exact Hmc | exact Hin | exact (xlookup_xG _ _ _ Hl) | exact Hkn].
  - eapply (XWF_off Sc _ n adds f (XBase OStrVec) r v k); [rewrite Hk; constructor | exact Hin | exact (xlookup_xG _ _ _ Hl) | exact Hkn].
  - eapply (XWF_off Sc _ n adds f (XBase (OTable t)) r v k); [rewrite Hk; constructor | exact Hin | exact (xlookup_xG _ _ _ Hl) | exact Hkn].
  - eapply (XWF_off Sc _ n adds f (XBase (OTabVec t)) r v k); [rewrite Hk; constructor | exact Hin | exact (xlookup_xG _ _ _ Hl) | exact Hkn].
  - eapply (XWF_union Sc _ n adds f u code r mem v k); try eassumption. exact (xlookup_xG _ _ _ Hl).
  - eapply XWF_union_none; eauto.
Qed.

Lemma wt_fields_x Sc G n adds flds fs : wt_fields Sc G n adds flds fs -> xwt_fields Sc (xG G) n adds flds fs.
Proof. induction 1; [constructor | apply XWFS_absent | apply XWFS_present]; auto using wt_field_x. Qed.

Lemma wt_cmd_x Sc G c G' : wt_cmd Sc G c G' -> xwt_cmd Sc (xG G) c (xG G').
Proof.
  intros H. inversion H; subst; rewrite xG_snoc.
  - apply XT_string.
  - apply XT_vector; assumption.
  - apply XT_struct; assumption.
  - apply XT_offvec; [assumption|]. eapply Forall2_imp; [|eassumption]. cbn. intros r v (k & Hl & Hk). exists k. split; [exact (xlookup_xG _ _ _ Hl) | exact Hk].
  - eapply XT_table; eauto using wt_fields_x.
Qed.

Lemma wt_cmds_x Sc b G cmds G' : wt_cmds Sc G cmds G' -> xwt_cmds Sc b (xG G) cmds (xG G') [].
Proof. induction 1; [apply XS_nil | eapply XS_cmd; eauto using wt_cmd_x]. Qed.

Theorem xwt_of_wt Sc sc R v ws n : wt_script Sc sc R v ws n -> xwt_script Sc sc R v ws n [].
Proof.
  intros H. inversion H as [cl ba0 id0 pre id ba fl body r R' v' n' G1 G2 Hba0 Hpre Hbody Hroot Hba Hid Hfl]; subst.
  eapply (XT_top Sc cl ba0 id0 pre id ba fl body r R v n (xG G1) (xG G2) [] []); try assumption.
  - exact (wt_cmds_x Sc false [] pre G1 Hpre).
  - exact (wt_cmds_x Sc true G1 body G2 Hbody).
  - exact (xlookup_xG _ _ _ Hroot).
Qed.
