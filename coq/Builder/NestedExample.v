(* The hypotheses of the nested-buffer / union-vector build theorems are satisfiable: a schema with a nested table root
   (two levels deep), a nested struct root and a union vector; a well-typed script; its run.
   The table built at top level (r7) has byte-for-byte the vtable of the table inside the innermost nested buffer (r0):
   the nest_id key of the vtable cache keeps them apart. *)
From Flatcc.Format Require Import Schema Spec SpecProofs.
From Flatcc.Builder Require Import EmitModel VMem Objects Leaves OffVec TableLayout Table Buffer Script ScriptProofs Example.
From Flatcc.Builder Require Import NestedBase NestedLeaves UnionVecLeaves NestedTable NestedBuffer NestedScript NestedBuild.
Local Open Scope Z_scope.

(* table T0 { a:int; d:double; }
   table T1 { n:[ubyte] (nested_flatbuffer: T0); s:string; }
   union U { T0, string }
   struct S4 { x:int; }
   table T2 { m:[ubyte] (nested_flatbuffer: T1); uv:[U]; ns:[ubyte] (nested_flatbuffer: S4); } *)
Definition nx_schema : schema :=
  {| tables := [ [ {| fid := 0; frequired := false; fk := FScalar 4 4 |};
                   {| fid := 1; frequired := false; fk := FScalar 8 8 |} ];
                 [ {| fid := 0; frequired := true; fk := FNestedTable 8 0 |};
                   {| fid := 1; frequired := false; fk := FString |} ];
                 [ {| fid := 0; frequired := false; fk := FNestedTable 8 1 |};
                   {| fid := 2; frequired := false; fk := FUnionVec 0 |};
                   {| fid := 3; frequired := false; fk := FNestedStruct 4 4 |} ] ];
     unions := [ [ (1, UTable 0); (2, UString) ] ] |}.

Definition t0_adds : list targ := [TInline 1 8 8 [1; 2; 3; 4; 5; 6; 7; 8]; TInline 0 4 4 [7; 0; 0; 0]].

Definition nx_script : list cmd :=
  [ CSettings true 0 0;
    CStartBuffer 0 0 0;
      CStartBuffer 0 0 0;                                       (* nested T1 *)
        CStartBuffer 0 0 0;                                     (* nested T0 inside the nested T1 *)
          CTable t0_adds;                                       (* r0 *)
        CEndBuffer 0%nat;                                       (* r1 : the innermost nested vector *)
        CString [104; 105];                                     (* r2 *)
        CTable [TOffset 0 1%nat; TOffset 1 2%nat];              (* r3 : T1 *)
      CEndBuffer 3%nat;                                         (* r4 : nested T1 *)
      CStartBuffer 0 0 0;
        CStruct 4 [9; 9; 9; 9];                                 (* r5 *)
      CEndBuffer 5%nat;                                         (* r6 : nested struct root *)
      CTable t0_adds;                                           (* r7 : a T0 of the parent with the vtable of r0 *)
      CString [120];                                            (* r8 *)
      CUnionVec [(1, Some 7%nat); (0, None); (2, Some 8%nat)];  (* r9 value vector, r10 type vector *)
      CTable [TOffset 0 4%nat; TOffset 1 10%nat; TOffset 2 9%nat; TOffset 3 6%nat];   (* r11 : T2 *)
    CEndBuffer 11%nat ].

Definition v0 : value := VTable [ (0, VBytes [7; 0; 0; 0]); (1, VBytes [1; 2; 3; 4; 5; 6; 7; 8]) ].
Definition v1 : value := VTable [ (0, VNested v0); (1, VString [104; 105]) ].
Definition uv_elems : list (Z * option value) := [ (1, Some v0); (0, None); (2, Some (VString [120])) ].
Definition nx_value : value :=
  VTable [ (0, VNested v1); (2, VUnionVec uv_elems); (3, VNested (VBytes [9; 9; 9; 9])) ].

Definition nx_nested : list nrec :=
  [ (1%nat, RTable 0, v0, 1%nat); (4%nat, RTable 1, v1, 2%nat); (6%nat, RStruct 4 4, VBytes [9; 9; 9; 9], 0%nat) ].

Lemma t0_typed G : xwt_cmd nx_schema G (CTable t0_adds) (G ++ [xmk (XBase (OTable 0)) v0 1]).
Proof.
  eapply (XT_table nx_schema G t0_adds 0%nat _ [(0, VBytes [7; 0; 0; 0]); (1, VBytes [1; 2; 3; 4; 5; 6; 7; 8])] 0%nat).
  - repeat constructor; cbn; try lia; try (apply (p2 3); lia); try (apply (p2 2); lia).
  - cbn; lia.
  - vm_compute. discriminate.
  - reflexivity.
  - apply XWFS_present; [eapply XWF_scalar; [reflexivity | cbn; tauto]|].
    apply XWFS_present; [eapply XWF_scalar; [reflexivity | cbn; tauto]|].
    apply XWFS_nil.
Qed.

Example nx_wt : xwt_script nx_schema nx_script (RTable 2) nx_value false 3%nat nx_nested.
Proof.
  unfold nx_script.
  change false with (negb (Z.land 0 2 =? 0)).
  eapply (XT_top nx_schema true 0 0 [] 0 0 0
            [ CStartBuffer 0 0 0; CStartBuffer 0 0 0; CTable t0_adds; CEndBuffer 0%nat; CString [104; 105];
              CTable [TOffset 0 1%nat; TOffset 1 2%nat]; CEndBuffer 3%nat;
              CStartBuffer 0 0 0; CStruct 4 [9; 9; 9; 9]; CEndBuffer 5%nat;
              CTable t0_adds; CString [120]; CUnionVec [(1, Some 7%nat); (0, None); (2, Some 8%nat)];
              CTable [TOffset 0 4%nat; TOffset 1 10%nat; TOffset 2 9%nat; TOffset 3 6%nat] ]
            11%nat (RTable 2) nx_value 3%nat [] _ [] nx_nested).
  - left; reflexivity.
  - apply XS_nil.
  - (* the body of the top-level buffer *)
    unfold nx_nested.
    change [(1%nat, RTable 0, v0, 1%nat); (4%nat, RTable 1, v1, 2%nat); (6%nat, RStruct 4 4, VBytes [9; 9; 9; 9], 0%nat)]
      with ([(1%nat, RTable 0, v0, 1%nat)] ++ (4%nat, RTable 1, v1, 2%nat) :: [(6%nat, RStruct 4 4, VBytes [9; 9; 9; 9], 0%nat)]).
    eapply (XS_nest nx_schema true [] 0 0 0
              [ CStartBuffer 0 0 0; CTable t0_adds; CEndBuffer 0%nat; CString [104; 105]; CTable [TOffset 0 1%nat; TOffset 1 2%nat] ]
              3%nat (RTable 1) v1 2%nat
              [None; xmk (XNested (RTable 0)) (VNested v0) 1; xmk (XBase OString) (VString [104; 105]) 0; xmk (XBase (OTable 1)) v1 2]
              [(1%nat, RTable 0, v0, 1%nat)]).
    + reflexivity.
    + (* nested T1: first the nested T0 block *)
      change [(1%nat, RTable 0, v0, 1%nat)] with ([] ++ (1%nat, RTable 0, v0, 1%nat) :: []).
      eapply (XS_nest nx_schema true [] 0 0 0 [CTable t0_adds] 0%nat (RTable 0) v0 1%nat [xmk (XBase (OTable 0)) v0 1] []).
      * reflexivity.
      * eapply XS_cmd; [apply (t0_typed []) | apply XS_nil].
      * reflexivity.
      * left; reflexivity.
      * unfold in_u32; lia.
      * lia.
      * reflexivity.
      * cbn [hide skipn length app map].
        eapply XS_cmd; [apply XT_string|]. cbn [app].
        eapply XS_cmd; [|apply XS_nil].
        eapply (XT_table nx_schema [None; xmk (XNested (RTable 0)) (VNested v0) 1; xmk (XBase OString) (VString [104; 105]) 0]
                 [TOffset 0 1%nat; TOffset 1 2%nat] 1%nat _ [(0, VNested v0); (1, VString [104; 105])] 1%nat).
        -- repeat constructor; cbn; try lia; try (apply (p2 2); lia).
        -- cbn; lia.
        -- vm_compute. discriminate.
        -- reflexivity.
        -- apply XWFS_present; [eapply (XWF_off _ _ _ _ _ (XNested (RTable 0)) 1%nat (VNested v0) 1%nat); [apply OK_nested_table | cbn; tauto | reflexivity | lia]|].
           apply XWFS_present; [eapply (XWF_off _ _ _ _ _ (XBase OString) 2%nat (VString [104; 105]) 0%nat); [apply OK_string | cbn; tauto | reflexivity | lia]|].
           apply XWFS_nil.
    + reflexivity.
    + left; reflexivity.
    + unfold in_u32; lia.
    + lia.
    + reflexivity.
    + (* back in the top-level buffer *)
      cbn [hide skipn length app map].
      change [(6%nat, RStruct 4 4, VBytes [9; 9; 9; 9], 0%nat)] with ([] ++ (6%nat, RStruct 4 4, VBytes [9; 9; 9; 9], 0%nat) :: []).
      eapply (XS_nest nx_schema true _ 0 0 0 [CStruct 4 [9; 9; 9; 9]] 5%nat (RStruct 4 4) (VBytes [9; 9; 9; 9]) 0%nat
                [None; None; None; None; None; xmk (XBase (OStruct 4 4)) (VBytes [9; 9; 9; 9]) 0] []).
      * reflexivity.
      * eapply XS_cmd; [|apply XS_nil].
        apply (XT_struct nx_schema [None; None; None; None; None] 4 [9; 9; 9; 9]). apply (p2 2); lia.
      * reflexivity.
      * left; reflexivity.
      * unfold in_u32; lia.
      * lia.
      * reflexivity.
      * cbn [hide skipn length app map].
        eapply XS_cmd; [apply t0_typed|]. cbn [app].
        eapply XS_cmd; [apply XT_string|]. cbn [app].
        eapply XS_cmd.
        { apply (XT_unionvec nx_schema _ 0%nat [(1, Some 7%nat); (0, None); (2, Some 8%nat)] uv_elems 1%nat).
          constructor.
          { cbn. split; [reflexivity|]. split; [lia|]. exists (UTable 0), 1%nat. split; [reflexivity|]. split; [reflexivity | lia]. }
          constructor; [cbn; split; reflexivity|].
          constructor; [|constructor].
          cbn. split; [reflexivity|]. split; [lia|]. exists UString, 0%nat. split; [reflexivity|]. split; [reflexivity | lia]. }
        cbn [app].
        eapply XS_cmd; [|apply XS_nil].
        eapply (XT_table nx_schema _ [TOffset 0 4%nat; TOffset 1 10%nat; TOffset 2 9%nat; TOffset 3 6%nat] 2%nat _
                  [(0, VNested v1); (2, VUnionVec uv_elems); (3, VNested (VBytes [9; 9; 9; 9]))] 2%nat).
        -- repeat constructor; cbn; try lia; try (apply (p2 2); lia).
        -- cbn; lia.
        -- vm_compute. discriminate.
        -- reflexivity.
        -- apply XWFS_present; [eapply (XWF_off _ _ _ _ _ (XNested (RTable 1)) 4%nat (VNested v1) 2%nat); [apply OK_nested_table | cbn; tauto | reflexivity | lia]|].
           apply XWFS_present; [eapply (XWF_unionvec _ _ _ _ _ 0%nat 10%nat 9%nat uv_elems 0%nat 1%nat); [reflexivity | cbn; tauto | cbn; tauto | reflexivity | reflexivity | lia]|].
           apply XWFS_present; [eapply (XWF_off _ _ _ _ _ (XNested (RStruct 4 4)) 6%nat (VNested (VBytes [9; 9; 9; 9])) 0%nat); [apply OK_nested_struct | cbn; tauto | reflexivity | lia]|].
           apply XWFS_nil.
  - reflexivity.
  - left; reflexivity.
  - unfold in_u32; lia.
  - lia.
Qed.

Example nx_runs : exists regs ems st,
  run init_state [] nx_script = Some (regs, ems, st) /\ small st /\ count_starts nx_script <= U32_MAX /\
  buffer_alignment st = 8 /\ lenZ (buffer_bytes st) = 192.
Proof.
  destruct (run init_state [] nx_script) as [[[regs ems] st]|] eqn:E; [|vm_compute in E; discriminate].
  exists regs, ems, st. split; [reflexivity|].
  vm_compute in E. injection E as <- <- <-. vm_compute. repeat split; congruence.
Qed.

(* ------------------------------------------------------------------ size-prefixed NESTED buffers: what holds *)
(* With flatcc_builder_with_size on the nested level, create_buffer(is_nested) emits ONE length word - the ubyte vector
   length doubles as the size prefix - and pads so that the LENGTH WORD (not the content) is aligned to the nested
   alignment.  Computed on a nested table with a double:
   - the parent still decodes (Spec.dec_nested asks for alignment relative to the enclosing starts only),
   - the vector CONTENT, copied out, is NOT a buffer on its own when the nested alignment exceeds 4 (it starts 4 bytes
     after an 8-aligned address),
   - the bytes taken FROM THE LENGTH WORD are a size-prefixed buffer of the nested root type on their own, and that start is
     aligned.  So for size-prefixed nested buffers C15's "bytes of the vector verify standalone" holds in the second
     reading only (this is how checks/c15.py extracts them; the verifier's nested rule disagrees: known finding). *)
Definition sz_schema : schema :=
  {| tables := [ [ {| fid := 0; frequired := false; fk := FScalar 4 4 |}; {| fid := 1; frequired := false; fk := FScalar 8 8 |} ];
                 [ {| fid := 0; frequired := true; fk := FNestedTable 8 0 |} ] ];
     unions := [] |}.
Definition sz_script (fl : Z) : list cmd :=
  [ CSettings true 0 0; CStartBuffer 0 0 0;
      CStartBuffer 0 0 fl; CTable t0_adds; CEndBuffer 0%nat;
      CTable [TOffset 0 1%nat];
    CEndBuffer 2%nat ].

Example sized_nested_view : exists regs ems st x,
  run init_state [] (sz_script 2) = Some (regs, ems, st) /\ nth_error regs 1 = Some x /\
  let l := buffer_bytes st in
  let off := x + 4 - e_start st in
  decode_root 2 sz_schema (RTable 1) false l = Some (VTable [(0, VNested v0)]) /\
  mrd32 (mem_of_list l) (off - 4) = Some 36 /\ off mod 8 = 4 /\ buffer_alignment st = 8 /\
  decode_root 1 sz_schema (RTable 0) false (sub l off 36) = None /\
  decode_root 1 sz_schema (RTable 0) true (sub l (off - 4) 40) = Some v0 /\ (off - 4) mod 8 = 0.
Proof.
  destruct (run init_state [] (sz_script 2)) as [[[regs ems] st]|] eqn:E; [|vm_compute in E; discriminate].
  vm_compute in E. injection E as <- <- <-.
  eexists _, _, _, _. split; [reflexivity|]. split; [vm_compute; reflexivity|].
  vm_compute. repeat split; reflexivity.
Qed.

(* the same script without the size flag: the content is aligned and decodes on its own (an instance of the theorem) *)
Example plain_nested_view : exists regs ems st x,
  run init_state [] (sz_script 0) = Some (regs, ems, st) /\ nth_error regs 1 = Some x /\
  let l := buffer_bytes st in
  let off := x + 4 - e_start st in
  mrd32 (mem_of_list l) (off - 4) = Some 32 /\ off mod 8 = 0 /\
  decode_root 1 sz_schema (RTable 0) false (sub l off 32) = Some v0.
Proof.
  destruct (run init_state [] (sz_script 0)) as [[[regs ems] st]|] eqn:E; [|vm_compute in E; discriminate].
  vm_compute in E. injection E as <- <- <-.
  eexists _, _, _, _. split; [reflexivity|]. split; [vm_compute; reflexivity|].
  vm_compute. repeat split; reflexivity.
Qed.
