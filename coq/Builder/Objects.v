(* Validity of emitted objects in the builder's virtual address space, and the leaf constructors:
   create_string, create_struct, create_vector. *)
From Flatcc.Format Require Import Schema Spec SpecProofs.
From Flatcc.Builder Require Import EmitModel VMem.
From Coq Require Import ZifyBool Znumtheory.
Local Open Scope Z_scope.
Ltac Zify.zify_post_hook ::= Z.div_mod_to_equations.

(* ------------------------------------------------------------------ origins *)
(* A buffer origin o (the virtual address where the buffer will start) with alignment references ds is admissible
   for a buffer level whose alignment is M when it lies at or below everything emitted and every reference start
   o + d' (d' = d - o ... expressed as d - o being a multiple of M) is M-aligned in the virtual address space. *)
Definition org_ok (st : est) (M : Z) (o : Z) (ds : list Z) : Prop :=
  o <= e_start st /\ Forall (fun d => (d - o) mod M = 0) ds.

Lemma org_ok_mono st st' M M' o ds :
  e_start st' <= e_start st -> 0 < M -> (M | M') -> 0 < M' -> org_ok st' M' o ds -> org_ok st M o ds.
Proof.
  intros He HM Hd HM' [Ho Hf]. split; [lia|].
  eapply Forall_impl; [|exact Hf]. cbn. intros d Hd'. eapply mod_divide_trans; eauto.
Qed.

Lemma aligned_intro st M o ds a al :
  org_ok st M o ds -> a mod al = 0 -> 0 < al -> (al | M) -> 0 < M -> aligned ds (a - o) al = true.
Proof.
  intros [_ Hf] Ha Hal Hd HM. unfold aligned. apply forallb_forall. intros d Hin.
  rewrite Forall_forall in Hf. specialize (Hf d Hin).
  assert (Hd' : (d - o) mod al = 0) by (eapply mod_divide_trans; eauto).
  apply Z.eqb_eq. replace (d + (a - o)) with ((d - o) + a) by ring.
  rewrite Z.add_mod by lia. rewrite Hd', Ha. reflexivity.
Qed.

(* the alignment of the current buffer level as far as the invariant is concerned: every buffer ends up
   at least 4-aligned (align_buffer_end) *)
Definition lvl_align (st : est) : Z := zmax (min_align st) 4.
Definition ma_ok (st : est) : Prop := min_align st = 0 \/ pow2 (min_align st).

Lemma lvl_align_pow2 st : ma_ok st -> pow2 (lvl_align st).
Proof.
  unfold lvl_align, zmax. intros [H|H].
  - rewrite H. cbn. apply pow2_4.
  - destruct (min_align st <? 4); [apply pow2_4 | exact H].
Qed.

Lemma lvl_align_ge4 st : 4 <= lvl_align st.
Proof. unfold lvl_align, zmax. destruct (min_align st <? 4) eqn:E; lia. Qed.

Lemma lvl_align_divide st st' : ma_ok st -> ma_ok st' -> min_align st <= min_align st' -> (lvl_align st | lvl_align st').
Proof.
  intros A B Hle. apply pow2_le_divide; try (apply lvl_align_pow2; assumption).
  unfold lvl_align, zmax. destruct (min_align st <? 4) eqn:E1, (min_align st' <? 4) eqn:E2; lia.
Qed.

Lemma ma_ok_set st a : ma_ok st -> pow2 a -> ma_ok (set_min_align st a).
Proof.
  intros H Ha. unfold ma_ok. destruct (set_min_align_fields st a) as (_ & _ & _ & _ & _ & _ & ->).
  right. unfold zmax. destruct (min_align st <? a) eqn:E; [exact Ha|].
  destruct H as [H|H]; [|exact H]. pose proof (pow2_pos a Ha). lia.
Qed.

Lemma lvl_align_set st a : ma_ok st -> pow2 a -> (a | lvl_align (set_min_align st a)) /\ (lvl_align st | lvl_align (set_min_align st a)).
Proof.
  intros H Ha. pose proof (ma_ok_set st a H Ha) as H'.
  destruct (set_min_align_fields st a) as (_ & _ & _ & _ & _ & _ & Hm).
  split.
  - apply pow2_le_divide; [exact Ha | apply lvl_align_pow2; exact H' |].
    unfold lvl_align. rewrite Hm. unfold zmax.
    destruct (min_align st <? a) eqn:E1; [destruct (a <? 4) eqn:E2; lia|].
    destruct (min_align st <? 4) eqn:E2; lia.
  - apply lvl_align_divide; [exact H | exact H' |]. rewrite Hm. unfold zmax. destruct (min_align st <? a) eqn:E; lia.
Qed.

(* ------------------------------------------------------------------ object types and validity *)
Inductive oty :=
| OString
| OVec (esize align : Z)
| OStruct (size align : Z)
| OTable (t : nat)
| OStrVec
| OTabVec (t : nat).

(* what it means for memory m, seen from origin o with alignment references ds, to hold value v of type ty at offset p *)
Definition obj_holds (n : nat) (Sc : schema) (ty : oty) (v : value) (m : mem) (o : Z) (ds : list Z) (p : Z) : Prop :=
  match ty with
  | OString => dec_string m o ds p = Some v
  | OVec es al => exists elems, v = VVec elems /\ forall mc, Z.of_nat (length elems) <= mc -> dec_vector m o ds es al mc p = Some v
  | OStruct size al => dec_struct m o ds size al p = Some v
  | OTable t => dec_table n Sc m o ds t p = Some v
  | OStrVec => dec_offvec (dec_string m o ds) m o ds p = Some v
  | OTabVec t => dec_offvec (dec_table n Sc m o ds t) m o ds p = Some v
  end.

Lemma obj_holds_mono n n' Sc ty v m o m' o' ds p :
  (n <= n')%nat -> mle m o m' o' -> obj_holds n Sc ty v m o ds p -> obj_holds n' Sc ty v m' o' ds p.
Proof.
  intros Hn H. destruct ty; cbn [obj_holds].
  - apply dec_string_mono, H.
  - intros (el & -> & Hd). exists el. split; [reflexivity|]. intros mc Hmc. eapply dec_vector_mono; eauto.
  - apply dec_struct_mono, H.
  - apply (dec_table_mono Sc n n' Hn); exact H.
  - apply dec_offvec_mono; [exact H|]. intros q w. apply dec_string_mono, H.
  - apply dec_offvec_mono; [exact H|]. intros q w. apply (dec_table_mono Sc n n' Hn); exact H.
Qed.

(* an object of the buffer level with alignment M, emitted at virtual address ref, holds value v: for every
   admissible origin *)
Definition valid (n : nat) (Sc : schema) (st : est) (M : Z) (ty : oty) (ref : Z) (v : value) : Prop :=
  forall o ds, org_ok st M o ds -> obj_holds n Sc ty v (vmem st) o ds (ref - o).

Lemma valid_mono n n' Sc st st' M M' ty ref v :
  (n <= n')%nat -> mext (vmem st) (vmem st') -> e_start st' <= e_start st -> 0 < M -> (M | M') -> 0 < M' ->
  valid n Sc st M ty ref v -> valid n' Sc st' M' ty ref v.
Proof.
  intros Hn Hm He HM Hd HM' Hv o ds Ho.
  eapply obj_holds_mono; [exact Hn | apply mext_mle, Hm |].
  apply Hv. eapply org_ok_mono; eauto.
Qed.

(* ------------------------------------------------------------------ what every create step preserves *)
Record step (st st' : est) : Prop := {
  s_ok : st_ok st';
  s_ext : mext (vmem st) (vmem st');
  s_start : e_start st' <= e_start st;
  s_end : e_end st <= e_end st';
  s_ctl : same_ctl st st';
  s_ma : ma_ok st';
  s_min : min_align st <= min_align st' }.

Lemma step_refl st : st_ok st -> ma_ok st -> step st st.
Proof. intros. constructor; auto using mext_refl, same_ctl_refl; lia. Qed.

Lemma step_trans a b c : step a b -> step b c -> step a c.
Proof.
  intros [] []. constructor; auto.
  - eapply mext_trans; eauto.
  - lia.
  - lia.
  - eapply same_ctl_trans; eauto.
  - lia.
Qed.

Lemma step_valid n Sc st st' ty ref v :
  ma_ok st -> step st st' -> valid n Sc st (lvl_align st) ty ref v -> valid n Sc st' (lvl_align st') ty ref v.
Proof.
  intros Hma [] Hv. eapply valid_mono; try exact Hv; auto.
  - pose proof (lvl_align_ge4 st). lia.
  - apply lvl_align_divide; auto.
  - pose proof (lvl_align_ge4 st'). lia.
Qed.

Lemma step_set_min_align st a : st_ok st -> ma_ok st -> pow2 a -> step st (set_min_align st a).
Proof.
  intros Hok Hma Ha. destruct (set_min_align_fields st a) as (Hs & He & Hf & Hb & Hc & Hctl & Hm).
  constructor.
  - apply st_ok_set_min_align, Hok.
  - rewrite vmem_set_min_align. apply mext_refl.
  - lia.
  - lia.
  - exact Hctl.
  - apply ma_ok_set; auto.
  - rewrite Hm. unfold zmax. destruct (min_align st <? a) eqn:E; lia.
Qed.

Lemma step_emit_front st bytes ref e st' :
  st_ok st -> ma_ok st -> emit_front st bytes = Some (ref, e, st') -> small st' ->
  step st st' /\ ref = e_start st - lenZ bytes /\ e_start st' = ref /\ e_end st' = e_end st /\
  min_align st' = min_align st /\ vcache st' = vcache st /\ mem_has (vmem st') ref bytes /\
  ref < e_start st.
Proof.
  intros Hok Hma E Hsm. destruct (emit_front_ok st bytes ref e st' Hok E Hsm) as (Hr & -> & Hok' & He & Hlt).
  pose proof (lenZ_nonneg bytes).
  split.
  { constructor; auto.
    - exact (vmem_front_old st ref bytes Hok Hr).
    - cbn. lia.
    - cbn. lia.
    - unfold same_ctl. cbn. tauto.
    - cbn. lia. }
  split; [exact Hr|]. split; [reflexivity|]. split; [reflexivity|]. split; [reflexivity|]. split; [reflexivity|].
  split; [exact (vmem_front_new st ref bytes Hok Hr) | exact Hlt].
Qed.

Lemma step_emit_back st bytes ref e st' :
  st_ok st -> ma_ok st -> emit_back st bytes = Some (ref, e, st') -> small st' ->
  step st st' /\ ref = e_end st + 1 /\ e_start st' = e_start st /\ e_end st' = e_end st + lenZ bytes /\
  min_align st' = min_align st /\ vcache st' = vcache st /\ mem_has (vmem st') (e_end st) bytes /\
  e = {| em_off := e_end st; em_bytes := bytes |}.
Proof.
  intros Hok Hma E Hsm. destruct (emit_back_ok st bytes ref e st' Hok E Hsm) as (Hr & -> & Hok' & He).
  pose proof (lenZ_nonneg bytes).
  split.
  { constructor; auto.
    - exact (vmem_back_old st _ bytes).
    - cbn. lia.
    - cbn. lia.
    - unfold same_ctl. cbn. tauto.
    - cbn. lia. }
  split; [exact Hr|]. split; [reflexivity|]. split; [reflexivity|]. split; [reflexivity|]. split; [reflexivity|].
  split; [exact (vmem_back_new st _ bytes Hok) | exact He].
Qed.
