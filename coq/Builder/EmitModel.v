(* C02/C03/C15: src/runtime/builder.c as pure functions on an explicit state.
   - the CREATE layer: front_pad, back_pad, emit_front, emit_back, align_buffer_end, embed_buffer,
     create_buffer, create_struct, create_string, create_vector, _create_offset_vector_direct,
     create_union_vector_direct, create_vtable, create_cached_vtable, create_table,
   - the buffer frames of start_buffer / end_buffer (min_align, block_align, flags, mark, nest_id, identifier),
   - the table frame of the STACK layer (start_table, table_add, table_add_offset, end_table) as the pure
     layout function [table_layout]: the data area, the vtable and the patch list built by the add calls.
   References are flatcc_builder_ref_t = int32: every computation writes its C type's wrap.
   [None] is the failure value (0 / -1 / null) of the C function.  No proofs in this file. *)
From Flatcc.Common Require Export Bytes.
Local Open Scope Z_scope.

(* ------------------------------------------------------------------ little-endian encoders *)
Definition le16 (x : Z) : list Z := [x mod 256; (x / 256) mod 256].
Definition le32 (x : Z) : list Z := [x mod 256; (x / 256) mod 256; (x / 65536) mod 256; (x / 16777216) mod 256].
Definition zeros (n : Z) : list Z := repeat 0 (Z.to_nat n).
Definition lenZ (l : list Z) : Z := Z.of_nat (length l).
Definition zmax (a b : Z) : Z := if a <? b then b else a.

(* ------------------------------------------------------------------ state *)
Record bframe := {
  f_min_align : Z;       (* parent's min_align (enter_frame(B, B->min_align) keeps it in B->align) *)
  f_block_align : Z; f_flags : Z; f_mark : Z; f_nest_id : Z; f_ident : Z }.

Record est := {
  e_start : Z; e_end : Z;            (* emit_start <= 0 <= emit_end *)
  front : list Z;                    (* the bytes at [emit_start, 0) *)
  back : list Z;                     (* the bytes at [0, emit_end) *)
  min_align : Z;
  nest_id : Z; nest_count : Z;
  buffer_mark : Z;
  ident : Z;                         (* B->identifier read as a little-endian word; 0 = none *)
  block_align : Z; buffer_flags : Z;
  vcache : list (list Z * Z * Z);    (* vtable bytes, nest_id, vt_ref: the observable content of the vtable hash *)
  clustering : bool;                 (* !disable_vt_clustering *)
  frames : list bframe }.

Definition init_state : est :=
  {| e_start := 0; e_end := 0; front := []; back := []; min_align := 0; nest_id := 0; nest_count := 0;
     buffer_mark := 0; ident := 0; block_align := 0; buffer_flags := 0; vcache := []; clustering := true; frames := [] |}.

(* one call of the emitter: offset and the concatenated iov content *)
Record emit := { em_off : Z; em_bytes : list Z }.

Definition set_emit_front (st : est) (ref : Z) (bytes : list Z) : est :=
  {| e_start := ref; e_end := e_end st; front := bytes ++ front st; back := back st; min_align := min_align st;
     nest_id := nest_id st; nest_count := nest_count st; buffer_mark := buffer_mark st; ident := ident st;
     block_align := block_align st; buffer_flags := buffer_flags st; vcache := vcache st;
     clustering := clustering st; frames := frames st |}.
Definition set_emit_back (st : est) (e : Z) (bytes : list Z) : est :=
  {| e_start := e_start st; e_end := e; front := front st; back := back st ++ bytes; min_align := min_align st;
     nest_id := nest_id st; nest_count := nest_count st; buffer_mark := buffer_mark st; ident := ident st;
     block_align := block_align st; buffer_flags := buffer_flags st; vcache := vcache st;
     clustering := clustering st; frames := frames st |}.
Definition with_min_align (st : est) (a : Z) : est :=
  {| e_start := e_start st; e_end := e_end st; front := front st; back := back st; min_align := a;
     nest_id := nest_id st; nest_count := nest_count st; buffer_mark := buffer_mark st; ident := ident st;
     block_align := block_align st; buffer_flags := buffer_flags st; vcache := vcache st;
     clustering := clustering st; frames := frames st |}.
Definition with_vcache (st : est) (c : list (list Z * Z * Z)) : est :=
  {| e_start := e_start st; e_end := e_end st; front := front st; back := back st; min_align := min_align st;
     nest_id := nest_id st; nest_count := nest_count st; buffer_mark := buffer_mark st; ident := ident st;
     block_align := block_align st; buffer_flags := buffer_flags st; vcache := c;
     clustering := clustering st; frames := frames st |}.
Definition with_settings (st : est) (cl : bool) (ba : Z) (id : Z) : est :=
  {| e_start := e_start st; e_end := e_end st; front := front st; back := back st; min_align := min_align st;
     nest_id := nest_id st; nest_count := nest_count st; buffer_mark := buffer_mark st; ident := id;
     block_align := ba; buffer_flags := buffer_flags st; vcache := vcache st;
     clustering := cl; frames := frames st |}.

(* set_min_align *)
Definition set_min_align (st : est) (a : Z) : est :=
  if min_align st <? a then with_min_align st a else st.

(* ------------------------------------------------------------------ emit_front / emit_back *)
(* front_pad: (uoffset_t)(B->emit_start - (flatcc_builder_ref_t)size) & (align - 1u) *)
Definition front_pad (st : est) (size align : Z) : Z := Z.land (u32 (e_start st - size)) (align - 1).
(* back_pad: (uoffset_t)(B->emit_end) & (align - 1u).  align_buffer_end emits that many zero bytes at the end, i.e.
   emit_end mod align of them: the end reaches a multiple of align only when that remainder is 0 or align/2 (pinned by
   /repo's emit_test; the property does not ask for a block multiple). *)
Definition back_pad (st : est) (align : Z) : Z := Z.land (u32 (e_end st)) (align - 1).

(* emit_front: the range is tested in 64 bits before the reference is computed (iov->len == 0,
   iov->len > SOFFSET_MAX, emit_start - len < SOFFSET_MIN fail) *)
Definition SOFFSET_MAX : Z := 2147483647.
Definition SOFFSET_MIN : Z := -2147483648.

Definition emit_front (st : est) (bytes : list Z) : option (Z * emit * est) :=
  let len := lenZ bytes in
  if (len =? 0) || (SOFFSET_MAX <? len) || (e_start st - len <? SOFFSET_MIN) then None
  else let ref := e_start st - len in
       Some (ref, {| em_off := ref; em_bytes := bytes |}, set_emit_front st ref bytes).

(* emit_back: ref < 0 or len > SOFFSET_MAX - ref fail; returns ref + 1 *)
Definition emit_back (st : est) (bytes : list Z) : option (Z * emit * est) :=
  let ref := e_end st in
  if (ref <? 0) || (SOFFSET_MAX - ref <? lenZ bytes) then None
  else Some (ref + 1, {| em_off := ref; em_bytes := bytes |}, set_emit_back st (ref + lenZ bytes) bytes).

(* ------------------------------------------------------------------ leaves *)
Definition MAX_STRING_LEN : Z := 4294967295.        (* FLATBUFFERS_COUNT_MAX(1) *)
Definition MAX_OFFSET_COUNT : Z := 1073741823.      (* FLATBUFFERS_COUNT_MAX(4) *)
Definition MAX_UTYPE_COUNT : Z := 4294967295.

Definition create_string (st : est) (s : list Z) : option (Z * emit * est) :=
  let len := lenZ s in
  if MAX_STRING_LEN <? len then None else
  let s_pad := front_pad st (u32 (len + 1)) 4 + 1 in
  emit_front st (le32 len ++ s ++ zeros s_pad).

Definition create_struct (st : est) (data : list Z) (align : Z) : option (Z * emit * est) :=
  let st1 := set_min_align st align in
  let pad := front_pad st1 (u32 (lenZ data)) align in
  emit_front st1 (data ++ zeros pad).

(* get_min_align(&align, field_size) on uint16_t *)
Definition align4 (a : Z) : Z := zmax a 4.

Definition create_vector (st : est) (data : list Z) (count esize align maxcount : Z) : option (Z * emit * est) :=
  if maxcount <? count then None else
  let al := align4 align in
  let st1 := set_min_align st al in
  let vec_size := u32 (u32 count * u32 esize) in
  let pad := front_pad st1 vec_size al in
  emit_front st1 (le32 (u32 count) ++ firstn (Z.to_nat vec_size) data ++ zeros pad).

(* _create_offset_vector_direct: refs are patched in place; a null reference stays 0 (union NONE) *)
Fixpoint patch_offsets (base : Z) (i : Z) (refs : list Z) : list Z :=
  match refs with
  | [] => []
  | r :: t => (if r =? 0 then le32 0 else le32 (u32 (r - base - i * 4 - 4))) ++ patch_offsets base (i + 1) t
  end.

Definition create_offset_vector (st : est) (refs : list Z) : option (Z * emit * est) :=
  let count := lenZ refs in
  if MAX_OFFSET_COUNT <? u32 count then None else
  let st1 := set_min_align st 4 in
  let vec_size := u32 (count * 4) in
  let pad := front_pad st1 vec_size 4 in
  let base := s32 (e_start st1 - (4 + vec_size + pad)) in
  emit_front st1 (le32 (u32 count) ++ patch_offsets base 0 refs ++ zeros pad).

(* create_union_vector_direct: value vector first, then the type vector; returns (type ref, value ref) *)
Definition create_union_vector (st : est) (types refs : list Z) : option (Z * Z * list emit * est) :=
  match create_offset_vector st refs with
  | None => None
  | Some (vref, e1, st1) =>
    match create_vector st1 types (lenZ types) 1 1 MAX_UTYPE_COUNT with
    | None => None
    | Some (tref, e2, st2) => Some (tref, vref, [e1; e2], st2)
    end
  end.

(* ------------------------------------------------------------------ vtables *)
Definition is_top_buffer (st : est) : bool := nest_id st =? 0.

(* a vtable emitted at the front is padded to voffset alignment (fix 0b32e2d, fixes/C02-inline-vtable-unaligned.patch:
   before it the vtable landed on an odd address after a create_struct of odd size and alignment 1) *)
Definition create_vtable (st : est) (vt : list Z) : option (Z * emit * est) :=
  if is_top_buffer st && clustering st then emit_back st vt
  else match emit_front st (vt ++ zeros (front_pad st (u32 (lenZ vt)) 2)) with
       | None => None
       | Some (ref, e, st1) => Some (ref + 1, e, st1)
       end.

Fixpoint list_eqb (a b : list Z) : bool :=
  match a, b with
  | [], [] => true
  | x :: a', y :: b' => (x =? y) && list_eqb a' b'
  | _, _ => false
  end.

Fixpoint vcache_find (c : list (list Z * Z * Z)) (vt : list Z) (nid : Z) : option Z :=
  match c with
  | [] => None
  | (v, n, r) :: t => if list_eqb v vt && (n =? nid) then Some r else vcache_find t vt nid
  end.

(* create_cached_vtable: the emitted vtable of the same buffer (nest_id) is reused; the hash and the
   collision chains do not influence the result (vb_flush_limit = 0: the cache is never flushed) *)
Definition create_cached_vtable (st : est) (vt : list Z) : option (Z * list emit * est) :=
  match vcache_find (vcache st) vt (nest_id st) with
  | Some r => Some (r, [], st)
  | None =>
    match create_vtable st vt with
    | None => None
    | Some (r, e, st1) => Some (r, [e], with_vcache st1 ((vt, nest_id st, r) :: vcache st1))
    end
  end.

(* ------------------------------------------------------------------ tables: the table frame *)
Inductive farg :=
| AInline (id size align : Z) (bytes : list Z)     (* table_add(id, size, align) and the bytes stored there *)
| AOffset (id : Z) (ref : Z).                      (* table_add_offset(id) and the reference stored there *)

Definition farg_id (a : farg) : Z := match a with AInline id _ _ _ => id | AOffset id _ => id end.

(* alignup_uoffset *)
Definition alignup (x align : Z) : Z := Z.land (u32 (x + align - 1)) (u32 (Z.lnot (u32 (align - 1)))).

(* push_ds_field / push_ds_offset_field: where each added field lands in the data area (relative to the
   first field, i.e. table start + 4), in the order of the add calls *)
Fixpoint place (adds : list farg) (off : Z) : list (farg * Z) * Z :=
  match adds with
  | [] => ([], off)
  | a :: r =>
    let '(o, sz) := match a with
                    | AInline _ size align _ => (alignup off align, size)
                    | AOffset _ _ => (alignup off 4, 4)
                    end in
    let '(pl, fin) := place r (u32 (o + sz)) in ((a, o) :: pl, fin)
  end.

(* B->align after the adds: starts as field_size; table_add raises it, table_add_offset does not *)
Fixpoint table_align (adds : list farg) (al : Z) : Z :=
  match adds with
  | [] => al
  | AInline _ _ align _ :: r => table_align r (if al <? align then align else al)
  | AOffset _ _ :: r => table_align r al
  end.

Fixpoint has_dup (ids : list Z) : bool :=
  match ids with
  | [] => false
  | x :: t => existsb (Z.eqb x) t || has_dup t
  end.

(* B->vs[id] = (voffset_t)(offset + field_size) *)
Fixpoint vs_lookup (placed : list (farg * Z)) (id : Z) : Z :=
  match placed with
  | [] => 0
  | (a, o) :: r => if farg_id a =? id then u16 (o + 4) else vs_lookup r id
  end.

Fixpoint id_end_of (placed : list (farg * Z)) (e : Z) : Z :=
  match placed with
  | [] => e
  | (a, _) :: r => id_end_of r (if e <=? farg_id a then farg_id a + 1 else e)
  end.

Fixpoint vs_entries (placed : list (farg * Z)) (id : Z) (n : nat) : list Z :=
  match n with
  | O => []
  | S k => le16 (vs_lookup placed id) ++ vs_entries placed (id + 1) k
  end.

(* end_table: vt[0] = 2 * (id_end + 2), vt[1] = ds_offset + field_size, then vs[0 .. id_end) *)
Definition vtable_bytes (placed : list (farg * Z)) (ds_size : Z) : list Z :=
  let id_end := id_end_of placed 0 in
  le16 (u16 (2 * (id_end + 2))) ++ le16 (u16 (ds_size + 4)) ++ vs_entries placed 0 (Z.to_nat id_end).

(* the data area handed to create_table, offsets patched relative to [base] (the table start) *)
Fixpoint table_data (placed : list (farg * Z)) (base : Z) (cur : Z) : list Z :=
  match placed with
  | [] => []
  | (a, o) :: r =>
    let payload := match a with
                   | AInline _ size _ bytes => firstn (Z.to_nat size) (bytes ++ zeros size)
                   | AOffset _ ref => le32 (u32 (u32 ref - base - o - 4))
                   end in
    zeros (o - cur) ++ payload ++ table_data r base (o + lenZ payload)
  end.

(* create_table *)
Definition create_table (st : est) (placed : list (farg * Z)) (size align vt_ref : Z) : option (Z * emit * est) :=
  let al := align4 align in
  let st1 := set_min_align st al in
  let pad := front_pad st1 size al in
  let base := u32 (u32 (e_start st1) - u32 (pad + size + 4)) in
  let vt_base := u32 (vt_ref - 1) in
  let vt_offset := u32 (base - vt_base) in
  if negb (u32 (base - vt_offset) =? vt_base) then None else
  emit_front st1 (le32 vt_offset ++ table_data placed base 0 ++ zeros pad).

(* start_table; the add calls in order; end_table.
   The table size stored in the vtable is ds_offset + field_size and every field position is below it, all 16 bit
   (voffset_t): a table whose inline data does not fit is refused (table_add / table_add_offset fail at the field that
   crosses the limit; the positions only grow, so this is the same as testing the final size). *)
Definition build_table (st : est) (adds : list farg) : option (Z * list emit * est) :=
  if has_dup (map farg_id adds) then None else
  let '(placed, size) := place adds 0 in
  if 65535 <? size + 4 then None else
  let align := table_align adds 4 in
  match create_cached_vtable st (vtable_bytes placed size) with
  | None => None
  | Some (vt_ref, es, st1) =>
    match create_table st1 placed size align vt_ref with
    | None => None
    | Some (ref, e, st2) => Some (ref, es ++ [e], st2)
    end
  end.

(* ------------------------------------------------------------------ buffers *)
Definition with_buffer_frame (st : est) (ma ba fl mark nid nc id : Z) (fr : list bframe) : est :=
  {| e_start := e_start st; e_end := e_end st; front := front st; back := back st; min_align := ma;
     nest_id := nid; nest_count := nc; buffer_mark := mark; ident := id;
     block_align := ba; buffer_flags := fl; vcache := vcache st;
     clustering := clustering st; frames := fr |}.

(* align_buffer_end: returns the adjusted align *)
Definition align_buffer_end (st : est) (align b_align : Z) (is_nested : bool) : option (Z * list emit * est) :=
  let ba := if b_align =? 0 then (if block_align st =? 0 then 1 else block_align st) else b_align in
  let al := zmax (zmax align 4) ba in
  if is_nested then Some (al, [], st) else
  let end_pad := back_pad st al in
  if end_pad =? 0 then Some (al, [], st) else
  match emit_back st (zeros end_pad) with
  | None => None
  | Some (_, e, st1) => Some (al, [e], st1)
  end.

(* flatcc_builder_create_buffer; [id] is the identifier as a word (0 when the pointer is null) *)
Definition create_buffer (st : est) (id b_align object_ref align flags : Z) : option (Z * list emit * est) :=
  let is_nested := negb (Z.land flags 1 =? 0) in
  let with_size := negb (Z.land flags 2 =? 0) in
  match align_buffer_end st align b_align is_nested with
  | None => None
  | Some (al, es, st1) =>
    let st2 := set_min_align st1 al in
    let id_size := if id =? 0 then 0 else 4 in
    let header_pad := front_pad st2 (4 + id_size + (if with_size then 4 else 0)) al in
    let has_size := is_nested || with_size in
    let iov_len := (if has_size then 4 else 0) + 4 + id_size + header_pad in
    let buffer_base := u32 (u32 (e_start st2) - u32 iov_len + (if has_size then 4 else 0)) in
    let buffer_size := if is_nested then u32 (u32 (buffer_mark st2) - buffer_base)
                       else u32 (u32 (e_end st2) - buffer_base) in
    let object_offset := u32 (u32 object_ref - buffer_base) in
    match emit_front st2 ((if has_size then le32 buffer_size else []) ++ le32 object_offset
                          ++ (if id =? 0 then [] else le32 id) ++ zeros header_pad) with
    | None => None
    | Some (ref, e, st3) => Some (ref, es ++ [e], st3)
    end
  end.

(* B->level (flatcc_builder.h: "Level 0 means no buffer is started, otherwise it increments with start calls and
   decrements with end calls").  A script is a list of COMPLETED object creations: no table / vector / string frame stays
   open from one command to the next, so the frames of the model are exactly the open buffer frames and the level seen by
   a command is their number.  (In the stack-layer call styles of the harness embed_buffer may run with further object
   frames open inside a buffer: the level is larger there, but it is positive in the model iff it is positive in C as
   long as no object frame is opened outside every buffer.) *)
Definition level (st : est) : Z := Z.of_nat (length (frames st)).

(* flatcc_builder_embed_buffer.  "Nested" = some frame is open (B->level > 0), i.e. there is a parent to hold the bytes
   as a ubyte vector: fixes/C15-embed-buffer-inside-top-level-buffer.patch.  Before it the test was !is_top_buffer(B)
   (nest_id <> 0), which is false INSIDE the open top-level buffer as well: there the bytes were emitted without the
   vector length and the parent's end was padded. *)
Definition embed_buffer (st : est) (b_align : Z) (data : list Z) (align flags : Z) : option (Z * list emit * est) :=
  let with_size := negb (Z.land flags 2 =? 0) in
  let nested := 0 <? level st in
  match align_buffer_end st align b_align nested with
  | None => None
  | Some (al, es, st0) =>
    (* set_min_align(B, align): the enclosing buffer reports at least the embedded buffer's alignment (fix f496f3b,
       fixes/C15-embed-buffer-min-align.patch; before it min_align was left unchanged) *)
    let st1 := set_min_align st0 al in
    let size := lenZ data in
    let pad := front_pad st1 (u32 (size + (if with_size then 4 else 0))) al in
    match emit_front st1 ((if nested then le32 (u32 (size + pad)) else []) ++ data ++ zeros pad) with
    | None => None
    | Some (ref, e, st2) => Some (ref, es ++ [e], st2)
    end
  end.

(* flatcc_builder_start_buffer *)
Definition start_buffer (st : est) (id b_align flags : Z) : est :=
  let fr := {| f_min_align := min_align st; f_block_align := block_align st; f_flags := buffer_flags st;
               f_mark := buffer_mark st; f_nest_id := nest_id st; f_ident := ident st |} in
  let ma := if negb (is_top_buffer st) || (min_align st =? 0) then 1 else min_align st in
  with_buffer_frame st ma b_align (u16 flags) (e_start st) (nest_count st) (u32 (nest_count st + 1)) id (fr :: frames st).

(* flatcc_builder_end_buffer *)
Definition end_buffer (st : est) (root : Z) : option (Z * list emit * est) :=
  match frames st with
  | [] => None
  | fr :: rest =>
    let flags := Z.lor (Z.land (buffer_flags st) 2) (if is_top_buffer st then 0 else 1) in
    let st1 := set_min_align st (block_align st) in
    match create_buffer st1 (ident st1) (block_align st1) root (min_align st1) flags with
    | None => None
    | Some (ref, es, st2) =>
      (* restore the frame; exit_frame: set_min_align(B, B->align) with B->align = the parent's min_align *)
      let ma := if min_align st2 <? f_min_align fr then f_min_align fr else min_align st2 in
      Some (ref, es, with_buffer_frame st2 ma (f_block_align fr) (f_flags fr) (f_mark fr) (f_nest_id fr)
                                      (nest_count st2) (f_ident fr) rest)
    end
  end.

(* ------------------------------------------------------------------ scripts *)
(* A script is a list of completed-object creations; arguments name the results of earlier commands by
   index into the register list (0 = first result). *)
Inductive targ :=
| TInline (id size align : Z) (bytes : list Z)
| TOffset (id : Z) (r : nat).

Inductive cmd :=
| CString (s : list Z)
| CVector (esize align maxcount count : Z) (data : list Z)
| CStruct (align : Z) (data : list Z)
| COffVec (rs : list nat)
| CUnionVec (elems : list (Z * option nat))           (* pushes the value vector ref, then the type vector ref *)
| CTable (adds : list targ)
| CStartBuffer (id block_align flags : Z)
| CEndBuffer (root : nat)
| CCreateBuffer (id block_align : Z) (root : nat) (align flags : Z)
| CEmbedBuffer (block_align : Z) (data : list Z) (align flags : Z)
| CSettings (clustering : bool) (block_align : Z) (id : Z).   (* set_vtable_clustering / set_block_align / set_identifier *)

Definition reg (regs : list Z) (r : nat) : option Z := nth_error regs r.

Fixpoint regs_get (regs : list Z) (rs : list nat) : option (list Z) :=
  match rs with
  | [] => Some []
  | r :: t => match reg regs r, regs_get regs t with Some x, Some l => Some (x :: l) | _, _ => None end
  end.

Fixpoint uelems_get (regs : list Z) (es : list (Z * option nat)) : option (list Z * list Z) :=
  match es with
  | [] => Some ([], [])
  | (c, None) :: t => match uelems_get regs t with Some (cs, rs) => Some (c :: cs, 0 :: rs) | None => None end
  | (c, Some r) :: t =>
    match reg regs r, uelems_get regs t with Some x, Some (cs, rs) => Some (c :: cs, x :: rs) | _, _ => None end
  end.

Fixpoint targs_get (regs : list Z) (adds : list targ) : option (list farg) :=
  match adds with
  | [] => Some []
  | TInline id size align bytes :: t =>
    match targs_get regs t with Some l => Some (AInline id size align bytes :: l) | None => None end
  | TOffset id r :: t =>
    match reg regs r, targs_get regs t with Some x, Some l => Some (AOffset id x :: l) | _, _ => None end
  end.

Definition one (r : option (Z * emit * est)) : option (list Z * list emit * est) :=
  match r with Some (ref, e, st) => Some ([ref], [e], st) | None => None end.
Definition many (r : option (Z * list emit * est)) : option (list Z * list emit * est) :=
  match r with Some (ref, es, st) => Some ([ref], es, st) | None => None end.

(* new references, emitter calls, new state *)
Definition run_cmd (st : est) (regs : list Z) (c : cmd) : option (list Z * list emit * est) :=
  match c with
  | CString s => one (create_string st s)
  | CVector esize align maxcount count data => one (create_vector st data count esize align maxcount)
  | CStruct align data => one (create_struct st data align)
  | COffVec rs => match regs_get regs rs with Some refs => one (create_offset_vector st refs) | None => None end
  | CUnionVec es =>
    match uelems_get regs es with
    | Some (types, refs) =>
      match create_union_vector st types refs with
      | Some (tref, vref, ems, st1) => Some ([vref; tref], ems, st1)
      | None => None
      end
    | None => None
    end
  | CTable adds => match targs_get regs adds with Some a => many (build_table st a) | None => None end
  | CStartBuffer id ba fl => Some ([], [], start_buffer st id ba fl)
  | CEndBuffer r => match reg regs r with Some root => many (end_buffer st root) | None => None end
  | CCreateBuffer id ba r align fl =>
    (* script convention: align 0 = pass flatcc_builder_get_buffer_alignment(), as the API documentation suggests *)
    match reg regs r with
    | Some root => many (create_buffer st id ba root (if align =? 0 then min_align st else align) fl)
    | None => None
    end
  | CEmbedBuffer ba data align fl => many (embed_buffer st ba data align fl)
  | CSettings cl ba id => Some ([], [], with_settings st cl ba id)
  end.

Fixpoint run (st : est) (regs : list Z) (sc : list cmd) : option (list Z * list emit * est) :=
  match sc with
  | [] => Some (regs, [], st)
  | c :: r =>
    match run_cmd st regs c with
    | None => None
    | Some (new, es, st1) =>
      match run st1 (regs ++ new) r with
      | None => None
      | Some (regs', es', st') => Some (regs', es ++ es', st')
      end
    end
  end.

(* what the emitter has received: the finished buffer, and the alignment the builder reports *)
Definition buffer_bytes (st : est) : list Z := front st ++ back st.
Definition buffer_alignment (st : est) : Z := min_align st.
