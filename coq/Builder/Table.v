(* create_vtable, create_cached_vtable, create_table / end_table: the emitted table decodes to its fields. *)
From Flatcc.Format Require Import Schema Spec SpecProofs.
From Flatcc.Builder Require Import EmitModel VMem Objects Leaves TableLayout.
From Coq Require Import ZifyBool Znumtheory.
Local Open Scope Z_scope.
Ltac Zify.zify_post_hook ::= Z.div_mod_to_equations.

(* ------------------------------------------------------------------ the vtable cache *)
Definition cache_ok (st : est) : Prop :=
  e_end st mod 2 = 0 /\
  forall vt nid r, In (vt, nid, r) (vcache st) ->
    mem_has (vmem st) (r - 1) vt /\ (r - 1) mod 2 = 0 /\ e_start st <= r - 1 /\ r - 1 + lenZ vt <= e_end st.

Lemma cache_ok_step st st' : step st st' -> vcache st' = vcache st -> e_end st' = e_end st -> cache_ok st -> cache_ok st'.
Proof.
  intros Hst Hc He [H2 H]. split; [congruence|]. intros vt nid r Hin. rewrite Hc in Hin.
  destruct (H vt nid r Hin) as (A & B & C & D). split; [|split; [exact B|split]].
  - eapply mem_has_ext; [exact (s_ext _ _ Hst) | exact A].
  - pose proof (s_start _ _ Hst). lia.
  - lia.
Qed.

Lemma list_eqb_eq : forall a b, list_eqb a b = true -> a = b.
Proof.
  induction a as [|x a IH]; destruct b as [|y b]; cbn [list_eqb]; intros H; try discriminate; [reflexivity|].
  apply andb_true_iff in H. destruct H as [H1 H2]. apply Z.eqb_eq in H1. f_equal; [exact H1 | apply IH, H2].
Qed.

Lemma vcache_find_in c vt nid r : vcache_find c vt nid = Some r -> In (vt, nid, r) c.
Proof.
  induction c as [|[[v n'] r'] t IH]; cbn [vcache_find]; [discriminate|].
  destruct (list_eqb v vt && (n' =? nid)) eqn:E.
  - intros H. injection H as <-. apply andb_true_iff in E. destruct E as [E1 E2].
    apply list_eqb_eq in E1. apply Z.eqb_eq in E2. subst. left. reflexivity.
  - intros H. right. apply IH, H.
Qed.

Lemma create_vtable_ok st vt r e st1 :
  st_ok st -> ma_ok st -> e_end st mod 2 = 0 -> 0 <= lenZ vt < 65536 -> lenZ vt mod 2 = 0 ->
  create_vtable st vt = Some (r, e, st1) -> small st1 ->
  step st st1 /\ min_align st1 = min_align st /\ vcache st1 = vcache st /\ e_end st1 mod 2 = 0 /\
  mem_has (vmem st1) (r - 1) vt /\ (r - 1) mod 2 = 0 /\ e_start st1 <= r - 1 /\ r - 1 + lenZ vt <= e_end st1.
Proof.
  intros Hok Hma He2 Hl Hl2 E Hsm. unfold create_vtable in E.
  destruct (is_top_buffer st && clustering st).
  - destruct (step_emit_back _ _ _ _ _ Hok Hma E Hsm) as (Hst & Hr & Hs & He & Hm & Hc & Hmem & _).
    subst r. replace (e_end st + 1 - 1) with (e_end st) by ring.
    destruct Hok as (Hs0 & He0 & _). pose proof (lenZ_nonneg (front st)). pose proof (lenZ_nonneg (back st)).
    repeat (split; [first [exact Hst | exact Hm | exact Hc | exact Hmem | exact He2 | lia]|]). lia.
  - destruct (emit_front st (vt ++ zeros (front_pad st (u32 (lenZ vt)) 2))) as [[[ref e'] st'']|] eqn:E'; [|discriminate].
    injection E as <- <- <-.
    destruct (step_emit_front _ _ _ _ _ Hok Hma E' Hsm) as (Hst & Hr & Hs & He & Hm & Hc & Hmem & _).
    rewrite (u32_id (lenZ vt)) in * by (unfold in_u32; lia).
    pose proof (front_pad_range st (lenZ vt) 2 pow2_2) as Hfr.
    pose proof (front_pad_aligned st (lenZ vt) 2 pow2_2) as Hfa.
    rewrite lenZ_app, lenZ_zeros in Hr by lia.
    apply mem_has_app in Hmem. destruct Hmem as [Hmem _].
    replace (ref + 1 - 1) with ref by ring.
    assert (Hev : ref mod 2 = 0) by (rewrite Hr; replace (e_start st - (lenZ vt + front_pad st (lenZ vt) 2)) with
                                     (e_start st - lenZ vt - front_pad st (lenZ vt) 2) by ring; exact Hfa).
    destruct Hok as (Hs0 & He0 & _). pose proof (lenZ_nonneg (front st)). pose proof (lenZ_nonneg (back st)).
    split; [exact Hst|]. split; [exact Hm|]. split; [exact Hc|]. split; [congruence|]. split; [exact Hmem|].
    split; [exact Hev|]. split; [lia|]. clear Hev Hfa Hl2 He2. lia.
Qed.

Lemma cached_vtable_ok st vt r es st1 :
  st_ok st -> ma_ok st -> cache_ok st -> 0 <= lenZ vt < 65536 -> lenZ vt mod 2 = 0 ->
  create_cached_vtable st vt = Some (r, es, st1) -> small st1 ->
  step st st1 /\ cache_ok st1 /\ min_align st1 = min_align st /\
  mem_has (vmem st1) (r - 1) vt /\ (r - 1) mod 2 = 0 /\ e_start st1 <= r - 1 /\ r - 1 + lenZ vt <= e_end st1.
Proof.
  intros Hok Hma Hc Hl Hl2 E Hsm. unfold create_cached_vtable in E.
  destruct (vcache_find (vcache st) vt (nest_id st)) as [r0|] eqn:F.
  - injection E as <- <- <-. apply vcache_find_in in F. destruct Hc as [H2 H].
    destruct (H _ _ _ F) as (A & B & C & D).
    split; [apply step_refl; assumption|]. split; [split; assumption|]. repeat (split; [first [reflexivity | assumption]|]). assumption.
  - destruct (create_vtable st vt) as [[[r0 e0] st0]|] eqn:E0; [|discriminate].
    injection E as <- <- <-.
    assert (Hsm0 : small st0) by exact Hsm.
    destruct (create_vtable_ok st vt r0 e0 st0 Hok Hma (proj1 Hc) Hl Hl2 E0 Hsm0) as (Hst & Hm & Hcc & He2 & Hmem & Hev & Hlo & Hhi).
    assert (Hvm : vmem (with_vcache st0 ((vt, nest_id st, r0) :: vcache st0)) = vmem st0) by reflexivity.
    split.
    { destruct Hst. constructor; auto. }
    split.
    { split; [exact He2|]. cbn [with_vcache vcache e_start e_end]. intros vt' nid' r' Hin.
      destruct Hin as [Heq|Hin].
      - injection Heq as <- <- <-. rewrite Hvm. repeat (split; [assumption|]). assumption.
      - rewrite Hcc in Hin. destruct Hc as [_ H]. destruct (H _ _ _ Hin) as (A & B & C & D).
        rewrite Hvm. split; [eapply mem_has_ext; [exact (s_ext _ _ Hst) | exact A]|]. split; [exact B|].
        pose proof (s_start _ _ Hst). pose proof (s_end _ _ Hst). lia. }
    split; [exact Hm|]. rewrite Hvm. repeat (split; [assumption|]). assumption.
Qed.

(* ------------------------------------------------------------------ reading the fields of an emitted table *)
Section TableCtx.
Variables (n : nat) (Sc : schema) (m : mem) (o : Z) (ds : list Z).
Variables (T VT : Z) (placed : list (farg * Z)) (size base AL : Z).
(* alignment of virtual addresses carries over to offsets from the origin *)
Hypothesis Hal : forall a al, a mod al = 0 -> pow2 al -> al <= AL -> aligned ds (a - o) al = true.
Hypothesis HAL : pow2 AL /\ 4 <= AL /\ (T + 4) mod AL = 0.
Hypothesis Hvt : mem_has m VT (vtable_bytes placed size).
Hypothesis Hdata : forall a off, In (a, off) placed -> mem_has m (T + 4 + off) (payload a base off).
Hypothesis Hbounds : forall a off, In (a, off) placed -> 0 <= off /\ off mod farg_align a = 0 /\ off + farg_size a <= size.
Hypothesis Hwf : forall a off, In (a, off) placed -> farg_wf a /\ farg_align a <= AL.
Hypothesis Hsize : 0 <= size /\ size + 4 <= 65535.
Hypothesis Hie : id_end_of placed 0 <= 32765.
Hypothesis Hnd : NoDup (map (fun ao => farg_id (fst ao)) placed).
Hypothesis Hbase : base = u32 T.
Hypothesis HT : - 2147483648 <= T < 0.

Let vt := VT - o.
Let tp := T - o.
Let vsize := 2 * (id_end_of placed 0 + 2).
Let tsize := size + 4.

Lemma ctx_vt_entry id : 0 <= id -> vt_entry m o vt vsize id = Some (vs_lookup placed id).
Proof.
  intros Hid. apply (vt_entry_vtable m o vt placed size id); [|exact Hie|exact Hid].
  unfold vt. replace (o + (VT - o)) with VT by ring. exact Hvt.
Qed.

Lemma ctx_field_pos_absent id fs fa :
  (forall a off, In (a, off) placed -> farg_id a <> id) ->
  field_pos m o ds vt vsize tp tsize id fs fa = Some None.
Proof.
  intros Hno. unfold field_pos. destruct (Z.ltb_spec id 0) as [Hneg|Hid].
  - unfold vt_entry. replace (0 <=? id) with false by lia. reflexivity.
  - rewrite (ctx_vt_entry id Hid). cbn [bind]. rewrite (vs_lookup_none placed id Hno). reflexivity.
Qed.

Lemma ctx_field_pos_present a off :
  In (a, off) placed ->
  field_pos m o ds vt vsize tp tsize (farg_id a) (farg_size a) (farg_align a) = Some (Some (tp + (off + 4))).
Proof.
  intros Hin. destruct (Hbounds a off Hin) as (H0 & Hmod & Hle). destruct (Hwf a off Hin) as [(Hid & Hsz & Hpa & _ & _) HleAL].
  unfold field_pos. rewrite (ctx_vt_entry (farg_id a)) by lia. cbn [bind].
  rewrite (vs_lookup_in placed a off Hnd Hin).
  rewrite (u16_id (off + 4)) by (unfold in_u16; lia).
  replace (off + 4 =? 0) with false by lia.
  replace (4 <=? off + 4) with true by lia. unfold tsize. replace (off + 4 + farg_size a <=? size + 4) with true by lia.
  cbn [andb]. unfold tp. replace (T - o + (off + 4)) with (T + 4 + off - o) by ring.
  rewrite Hal; [reflexivity | | exact Hpa | exact HleAL].
  destruct HAL as (HpA & H4 & HTA).
  assert (Hd : (farg_align a | AL)) by (apply pow2_le_divide; assumption).
  assert (HT4 : (T + 4) mod farg_align a = 0) by (eapply mod_divide_trans; [apply pow2_pos, Hpa | exact Hd | apply pow2_pos, HpA | exact HTA]).
  pose proof (pow2_pos _ Hpa). rewrite Z.add_mod by lia. rewrite HT4, Hmod. reflexivity.
Qed.

(* following the offset stored by table_add_offset *)
Lemma ctx_follow id r off :
  In (AOffset id r, off) placed -> T + 4 + off < r < 0 ->
  follow m o (tp + (off + 4)) = Some (r - o).
Proof.
  intros Hin Hr. unfold follow. pose proof (Hdata _ _ Hin) as Hd. cbn [payload] in Hd.
  destruct (Hbounds _ _ Hin) as (H0 & _ & _).
  unfold tp. replace (o + (T - o + (off + 4))) with (T + 4 + off) by ring.
  rewrite (mem_has_le32 _ _ _ (u32_range _) Hd). cbn [bind].
  assert (Hv : u32 (u32 r - base - off - 4) = r - T - off - 4).
  { rewrite Hbase. unfold u32. lia. }
  rewrite Hv. replace (r - T - off - 4 =? 0) with false by lia. f_equal. ring.
Qed.

Lemma ctx_with_off id r off (k : Z -> option value) v :
  In (AOffset id r, off) placed -> T + 4 + off < r < 0 -> k (r - o) = Some v ->
  with_off m o ds vt vsize tp tsize id k = Some (Some v).
Proof.
  intros Hin Hr Hk. unfold with_off.
  pose proof (ctx_field_pos_present _ _ Hin) as Hp. cbn [farg_id farg_size farg_align] in Hp. rewrite Hp. cbn [bind].
  rewrite (ctx_follow id r off Hin Hr). cbn [bind]. rewrite Hk. reflexivity.
Qed.

Lemma ctx_scalar id sz al bytes off :
  In (AInline id sz al bytes, off) placed ->
  dec_kind (dec_table n Sc) Sc m o ds vt vsize tp tsize id (FScalar sz al) = Some (Some (VBytes bytes)).
Proof.
  intros Hin. cbn [dec_kind].
  pose proof (ctx_field_pos_present _ _ Hin) as Hp. cbn [farg_id farg_size farg_align] in Hp. rewrite Hp. cbn [bind].
  destruct (Hwf _ _ Hin) as [(Hid & Hsz & Hpa & _ & Hlen) _]. cbn in Hlen.
  pose proof (Hdata _ _ Hin) as Hd. rewrite (payload_inline _ _ _ _ _ _ Hlen) in Hd.
  unfold tp. replace (o + (T - o + (off + 4))) with (T + 4 + off) by ring.
  rewrite <- Hlen. unfold lenZ. rewrite Nat2Z.id. rewrite (mem_has_rdbytes _ _ _ Hd). reflexivity.
Qed.
(* the one-byte union type field *)
Lemma ctx_type_byte id code off :
  In (AInline id 1 1 [code], off) placed ->
  field_pos m o ds vt vsize tp tsize id 1 1 = Some (Some (tp + (off + 4))) /\ m (o + (tp + (off + 4))) = Some code.
Proof.
  intros Hin. pose proof (ctx_field_pos_present _ _ Hin) as Hp. cbn [farg_id farg_size farg_align] in Hp. split; [exact Hp|].
  pose proof (Hdata _ _ Hin) as Hd. rewrite (payload_inline id 1 1 [code] base off eq_refl) in Hd.
  unfold tp. replace (o + (T - o + (off + 4))) with (T + 4 + off) by ring.
  pose proof (Hd 0%nat ltac:(cbn; lia)) as H0. cbn in H0. rewrite Z.add_0_r in H0. exact H0.
Qed.
End TableCtx.

(* ------------------------------------------------------------------ typing of the add list against the schema *)
Definition member_oty (mem : umember) : oty :=
  match mem with UTable t => OTable t | UStruct size al => OStruct size al | UString => OString end.

(* how the add list realises one schema field: the value the decoder must find (None: absent) *)
Inductive field_built (n : nat) (Sc : schema) (st : est) (adds : list farg) (f : field) : option value -> Prop :=
| FB_absent :
    (forall a, In a adds -> farg_id a <> fid f) ->
    (match fk f with FUnion _ | FUnionVec _ => forall a, In a adds -> farg_id a <> fid f - 1 | _ => True end) ->
    frequired f = false -> field_built n Sc st adds f None
| FB_scalar size al bytes :
    fk f = FScalar size al -> In (AInline (fid f) size al bytes) adds ->
    field_built n Sc st adds f (Some (VBytes bytes))
| FB_string r v :
    fk f = FString -> In (AOffset (fid f) r) adds -> e_start st <= r < 0 ->
    valid n Sc st (lvl_align st) OString r v -> field_built n Sc st adds f (Some v)
| FB_vector es al mc r elems :
    fk f = FVector es al mc -> In (AOffset (fid f) r) adds -> e_start st <= r < 0 ->
    valid n Sc st (lvl_align st) (OVec es al) r (VVec elems) -> Z.of_nat (length elems) <= mc ->
    field_built n Sc st adds f (Some (VVec elems))
| FB_strvec r v :
    fk f = FStringVec -> In (AOffset (fid f) r) adds -> e_start st <= r < 0 ->
    valid n Sc st (lvl_align st) OStrVec r v -> field_built n Sc st adds f (Some v)
| FB_table t r v :
    fk f = FTable t -> In (AOffset (fid f) r) adds -> e_start st <= r < 0 ->
    valid n Sc st (lvl_align st) (OTable t) r v -> field_built n Sc st adds f (Some v)
| FB_tabvec t r v :
    fk f = FTableVec t -> In (AOffset (fid f) r) adds -> e_start st <= r < 0 ->
    valid n Sc st (lvl_align st) (OTabVec t) r v -> field_built n Sc st adds f (Some v)
| FB_union u code r mem v :
    fk f = FUnion u -> code <> 0 -> In (AInline (fid f - 1) 1 1 [code]) adds -> In (AOffset (fid f) r) adds ->
    e_start st <= r < 0 -> union_member Sc u code = Some mem ->
    valid n Sc st (lvl_align st) (member_oty mem) r v -> field_built n Sc st adds f (Some (VUnion code v))
| FB_union_none u :
    (* table_add_union with type NONE: only the type byte 0 is stored *)
    fk f = FUnion u -> In (AInline (fid f - 1) 1 1 [0]) adds -> (forall a, In a adds -> farg_id a <> fid f) ->
    frequired f = false -> field_built n Sc st adds f None.

Inductive fields_built (n : nat) (Sc : schema) (st : est) (adds : list farg) : list field -> list (Z * value) -> Prop :=
| FBS_nil : fields_built n Sc st adds [] []
| FBS_absent f r fs : field_built n Sc st adds f None -> fields_built n Sc st adds r fs -> fields_built n Sc st adds (f :: r) fs
| FBS_present f r v fs : field_built n Sc st adds f (Some v) -> fields_built n Sc st adds r fs ->
                         fields_built n Sc st adds (f :: r) ((fid f, v) :: fs).

Lemma table_align_ge : forall adds al0, pow2 al0 -> Forall farg_wf adds ->
  pow2 (table_align adds al0) /\ al0 <= table_align adds al0 /\
  (forall a, In a adds -> match a with AInline _ _ al _ => al <= table_align adds al0 | AOffset _ _ => True end).
Proof.
  induction adds as [|a r IH]; intros al0 Hp Hw; cbn [table_align].
  - split; [exact Hp|]. split; [lia|]. intros a [].
  - inversion Hw as [|? ? Hwa Hwr]; subst. destruct a as [id size al bytes|id ref].
    + destruct Hwa as (_ & _ & Hpa & _). cbn in Hpa.
      destruct (IH (if al0 <? al then al else al0) ltac:(destruct (al0 <? al); assumption) Hwr) as (A & B & C).
      split; [exact A|]. split; [destruct (al0 <? al) eqn:E; lia|].
      intros a' [<-|Hin]; [destruct (al0 <? al) eqn:E; lia | apply C, Hin].
    + destruct (IH al0 Hp Hwr) as (A & B & C). split; [exact A|]. split; [exact B|].
      intros a' [<-|Hin]; [exact I | apply C, Hin].
Qed.

Lemma mem_has_some m a l i : mem_has m a l -> 0 <= i < lenZ l -> exists b, m (a + i) = Some b.
Proof.
  intros H Hi. unfold lenZ in Hi. specialize (H (Z.to_nat i) ltac:(lia)).
  replace (Z.of_nat (Z.to_nat i)) with i in H by lia.
  destruct (nth_error l (Z.to_nat i)) eqn:E; [eauto|]. apply nth_error_None in E. lia.
Qed.

Lemma in_placed_adds (adds : list farg) (placed : list (farg * Z)) :
  map fst placed = adds -> forall a, In a adds <-> exists off, In (a, off) placed.
Proof.
  intros <- a. split.
  - intros Hin. apply in_map_iff in Hin. destruct Hin as ([a' off] & <- & Hin). exists off. exact Hin.
  - intros [off Hin]. apply (in_map fst) in Hin. exact Hin.
Qed.

Definition table_fits (adds : list farg) : Prop := snd (place adds 0) + 4 <= 65535.

Lemma emit_front_small st b r e st' : emit_front st b = Some (r, e, st') -> small st' -> small st.
Proof.
  unfold emit_front. destruct (_ || _ || _); [discriminate|]. intros H. injection H as _ _ <-.
  unfold small. cbn [set_emit_front front back]. rewrite lenZ_app. pose proof (lenZ_nonneg b). lia.
Qed.

Lemma emit_back_small st b r e st' : emit_back st b = Some (r, e, st') -> small st' -> small st.
Proof.
  unfold emit_back. destruct (_ || _); [discriminate|]. intros H. injection H as _ _ <-.
  unfold small. cbn [set_emit_back front back]. rewrite lenZ_app. pose proof (lenZ_nonneg b). lia.
Qed.

Lemma small_set_min_align st a : small (set_min_align st a) <-> small st.
Proof. unfold small. destruct (set_min_align_fields st a) as (_ & _ & -> & -> & _). tauto. Qed.

Lemma create_table_small st placed size al vt r e st' : create_table st placed size al vt = Some (r, e, st') -> small st' -> small st.
Proof.
  unfold create_table. destruct (negb _); [discriminate|]. intros H Hs.
  apply emit_front_small in H; [|exact Hs]. apply small_set_min_align in H. exact H.
Qed.

(* ------------------------------------------------------------------ start_table .. end_table *)
Lemma build_table_valid n Sc st adds t flds fs ref es st' :
  st_ok st -> ma_ok st -> cache_ok st ->
  Forall farg_wf adds -> Z.of_nat (length adds) <= 32765 -> table_fits adds ->
  table_fields Sc t = Some flds -> fields_built n Sc st adds flds fs ->
  build_table st adds = Some (ref, es, st') -> small st' ->
  step st st' /\ cache_ok st' /\ e_start st' = ref /\ ref < e_start st /\ ref mod 4 = 0 /\
  valid (S n) Sc st' (lvl_align st') (OTable t) ref (VTable fs).
Proof.
  intros Hok Hma Hc Hw Hlen Hfit Hflds Hfb E Hsm. unfold build_table in E.
  destruct (has_dup (map farg_id adds)) eqn:Hdup; [discriminate|].
  apply has_dup_false in Hdup.
  unfold table_fits in Hfit.
  destruct (place adds 0) as [placed size] eqn:Epl. cbn [snd] in Hfit.
  destruct (65535 <? size + 4); [discriminate|].
  pose proof (place_fst_map adds 0) as Hmapf. rewrite Epl in Hmapf. cbn [fst] in Hmapf.
  destruct (place_ok adds 0 placed size Hw ltac:(lia) ltac:(lia) Epl) as (Hsorted & Hsz & Hsz0).
  assert (Hwp : Forall (fun ao => farg_wf (fst ao)) placed).
  { rewrite <- Hmapf in Hw. rewrite Forall_map in Hw. exact Hw. }
  assert (Hndp : NoDup (map (fun ao => farg_id (fst ao)) placed)).
  { rewrite <- Hmapf in Hdup. rewrite map_map in Hdup. exact Hdup. }
  assert (Hie : id_end_of placed 0 <= 32765).
  { apply id_end_of_bound; [lia|]. eapply Forall_impl; [|exact Hwp]. cbn. intros ao (Hid & _). lia. }
  pose proof (id_end_of_ge placed 0) as Hie0.
  destruct (create_cached_vtable st (vtable_bytes placed size)) as [[[vt_ref es1] st1]|] eqn:Ecv; [|discriminate].
  destruct (create_table st1 placed size (table_align adds 4) vt_ref) as [[[ref' e2] st2]|] eqn:Ect; [|discriminate].
  injection E as <- <- <-. rename ref' into ref.
  (* sizes shrink towards the past *)
  assert (Hsm1 : small st1) by (eapply create_table_small; eauto).
  pose proof (vtable_bytes_len placed size) as Hvl.
  assert (Hvl1 : 0 <= lenZ (vtable_bytes placed size) < 65536) by lia.
  assert (Hvl2 : lenZ (vtable_bytes placed size) mod 2 = 0) by (rewrite Hvl, Z.mul_comm; apply Z.mod_mul; lia).
  destruct (cached_vtable_ok st (vtable_bytes placed size) vt_ref es1 st1 Hok Hma Hc Hvl1 Hvl2 Ecv Hsm1)
    as (Hst1 & Hc1 & Hm1 & Hvmem & Hvev & Hvlo & Hvhi).
  (* create_table *)
  unfold create_table in Ect.
  destruct (table_align_ge adds 4 pow2_4 Hw) as (Hpta & Hta4 & Htaf).
  set (AL := align4 (table_align adds 4)) in *.
  assert (HAL : pow2 AL /\ 4 <= AL /\ table_align adds 4 <= AL).
  { subst AL. unfold align4, zmax. destruct (table_align adds 4 <? 4) eqn:X; [split; [apply pow2_4|lia] | split; [exact Hpta|lia]]. }
  destruct HAL as (HpAL & HAL4 & HALta).
  pose proof (step_set_min_align st1 AL (s_ok _ _ Hst1) (s_ma _ _ Hst1) HpAL) as Hst1'.
  destruct (set_min_align_fields st1 AL) as (Hs1' & He1' & _ & _ & Hcc1' & _ & Hmm1').
  destruct (lvl_align_set st1 AL (s_ma _ _ Hst1) HpAL) as [Hd1 _].
  remember (set_min_align st1 AL) as st1' eqn:Hst1'e. clear Hst1'e.
  destruct (negb _) eqn:Echk in Ect; [discriminate|]. clear Echk.
  set (pad := front_pad st1' size AL) in *.
  set (base := u32 (u32 (e_start st1') - u32 (pad + size + 4))) in *.
  destruct (step_emit_front _ _ _ _ _ (s_ok _ _ Hst1') (s_ma _ _ Hst1') Ect Hsm) as (Hst2 & Hr & Hs2 & He2 & Hm2 & Hcc2 & Hmem & _).
  pose proof (front_pad_range st1' size AL HpAL) as Hfr. fold pad in Hfr.
  pose proof (front_pad_aligned st1' size AL HpAL) as Hfa. fold pad in Hfa.
  pose proof (table_data_len base placed 0 Hwp Hsorted) as Htdl. rewrite <- Hsz in Htdl.
  rewrite !lenZ_app, lenZ_le32, Htdl, lenZ_zeros in Hr by lia.
  assert (Hstep : step st st2) by exact (step_trans _ _ _ Hst1 (step_trans _ _ _ Hst1' Hst2)).
  destruct (s_ok _ _ Hst2) as (Hs2' & He2' & Hlo2 & Hhi2).
  destruct (s_ok _ _ Hst1') as (Hs1'' & _ & Hlo1 & _).
  pose proof (lenZ_nonneg (front st1')) as Hf1. pose proof (lenZ_nonneg (front st2)) as Hf2. pose proof (lenZ_nonneg (back st2)) as Hb2.
  assert (Hbase : base = u32 ref).
  { subst base. rewrite Hr. unfold u32. lia. }
  assert (Href4 : (ref + 4) mod AL = 0).
  { rewrite Hr. replace (e_start st1' - (4 + (size - 0 + pad)) + 4) with (e_start st1' - size - pad) by ring. exact Hfa. }
  assert (Hr4 : ref mod 4 = 0).
  { assert (X : (ref + 4) mod 4 = 0).
    { eapply mod_divide_trans; [lia | | apply pow2_pos, HpAL | exact Href4]. apply pow2_le_divide; [apply pow2_4 | exact HpAL | lia]. }
    lia. }
  split; [exact Hstep|].
  split.
  { eapply cache_ok_step; [exact (step_trans _ _ _ Hst1' Hst2) | congruence | lia | exact Hc1]. }
  split; [exact Hs2|]. split; [pose proof (s_start _ _ Hst1); clear Hfa Href4 Hr4 Hvev; lia|]. split; [exact Hr4|].
  (* decoding *)
  apply mem_has_app in Hmem. destruct Hmem as [Hmso Hmem]. apply mem_has_app in Hmem. destruct Hmem as [Hmdata _].
  rewrite lenZ_le32 in Hmdata.
  assert (Hvmem2 : mem_has (vmem st2) (vt_ref - 1) (vtable_bytes placed size)).
  { eapply mem_has_ext; [exact (s_ext _ _ (step_trans _ _ _ Hst1' Hst2)) | exact Hvmem]. }
  assert (HALlvl : (AL | lvl_align st2)).
  { eapply Z.divide_trans; [exact Hd1|]. apply lvl_align_divide; [exact (s_ma _ _ Hst1') | exact (s_ma _ _ Hst2) | lia]. }
  intros o ds Ho. cbn [obj_holds dec_table]. unfold dec_table_body. rewrite Hflds. cbn [bind].
  assert (Halg : forall a al, a mod al = 0 -> pow2 al -> al <= AL -> aligned ds (a - o) al = true).
  { intros a al Ha Hpa Hle. apply (aligned_intro st2 (lvl_align st2) o ds a al Ho Ha (pow2_pos _ Hpa)); [|apply lvl_pos].
    eapply Z.divide_trans; [apply (pow2_le_divide al AL Hpa HpAL Hle) | exact HALlvl]. }
  rewrite (Halg ref 4 Hr4 pow2_4 HAL4).
  replace (o + (ref - o)) with ref by ring.
  rewrite (mem_has_le32 _ _ _ (u32_range _) Hmso). cbn [bind].
  destruct (s_ok _ _ Hst1) as (_ & He1s & _ & Hhi1).
  assert (Hso : s32 (u32 (base - u32 (vt_ref - 1))) = ref - (vt_ref - 1)).
  { rewrite Hbase. unfold small in Hsm. unfold s32, u32. cbv zeta.
    destruct (((ref mod 4294967296 - (vt_ref - 1) mod 4294967296) mod 4294967296) mod 4294967296 <? 2147483648) eqn:D; lia. }
  rewrite Hso. replace (ref - o - (ref - (vt_ref - 1))) with (vt_ref - 1 - o) by ring.
  destruct Ho as [Holo Hods].
  replace (0 <=? vt_ref - 1 - o) with true by lia. cbn [andb].
  rewrite (Halg (vt_ref - 1) 2 Hvev pow2_2 ltac:(lia)).
  replace (o + (vt_ref - 1 - o)) with (vt_ref - 1) by ring.
  pose proof Hvmem2 as Hvm3. unfold vtable_bytes in Hvm3.
  apply mem_has_app in Hvm3. destruct Hvm3 as [Hv0 Hvm3]. apply mem_has_app in Hvm3. destruct Hvm3 as [Hv1 _].
  rewrite lenZ_le16 in Hv1.
  rewrite (mem_has_le16 _ _ _ (u16_range _) Hv0). cbn [bind].
  rewrite (mem_has_le16 _ _ _ (u16_range _) Hv1). cbn [bind].
  rewrite (u16_id (2 * (id_end_of placed 0 + 2))) by (unfold in_u16; lia).
  rewrite (u16_id (size + 4)) by (unfold in_u16; lia).
  replace (4 <=? 2 * (id_end_of placed 0 + 2)) with true by lia.
  replace (2 * (id_end_of placed 0 + 2) mod 2 =? 0) with true by (rewrite Z.mul_comm, Z.mod_mul by lia; reflexivity).
  replace (4 <=? size + 4) with true by lia. cbn [andb].
  destruct (mem_has_some _ _ _ (2 * (id_end_of placed 0 + 2) - 1) Hvmem2 ltac:(lia)) as [b1 Hb1].
  replace (vt_ref - 1 + 2 * (id_end_of placed 0 + 2) - 1) with (vt_ref - 1 + (2 * (id_end_of placed 0 + 2) - 1)) by ring.
  rewrite Hb1. cbn [bind].
  assert (Hlast : exists b, vmem st2 (ref + size + 4 - 1) = Some b).
  { destruct (Z.eq_dec size 0) as [Hz|Hnz].
    - destruct (mem_has_some _ _ _ 3 Hmso ltac:(rewrite lenZ_le32; lia)) as [b Hb]. exists b. rewrite Hz. replace (ref + 0 + 4 - 1) with (ref + 3) by ring. exact Hb.
    - destruct (mem_has_some _ _ _ (size - 1) Hmdata ltac:(rewrite Htdl; lia)) as [b Hb]. exists b.
      replace (ref + size + 4 - 1) with (ref + 4 + (size - 1)) by ring. exact Hb. }
  destruct Hlast as [bl Hbl].
  replace (ref + (size + 4) - 1) with (ref + size + 4 - 1) by ring. rewrite Hbl. cbn [bind].
  (* the context of the table-reading lemmas *)
  assert (HAL' : pow2 AL /\ 4 <= AL /\ (ref + 4) mod AL = 0) by (repeat split; assumption).
  assert (Hdata' : forall a off, In (a, off) placed -> mem_has (vmem st2) (ref + 4 + off) (payload a base off)).
  { apply (table_data_has (vmem st2) base (ref + 4) placed 0 Hwp Hsorted). rewrite Z.add_0_r. exact Hmdata. }
  assert (Hbounds' : forall a off, In (a, off) placed -> 0 <= off /\ off mod farg_align a = 0 /\ off + farg_size a <= size).
  { intros a off Hin. rewrite Hsz. apply (sorted_in_bounds placed 0 a off Hwp Hsorted Hin). }
  assert (Hwf' : forall a off, In (a, off) placed -> farg_wf a /\ farg_align a <= AL).
  { intros a off Hin. rewrite Forall_forall in Hwp. pose proof (Hwp _ Hin) as Hwa. cbn [fst] in Hwa. split; [exact Hwa|].
    assert (Hina : In a adds) by (apply (in_placed_adds adds placed Hmapf); eauto).
    pose proof (Htaf a Hina) as Hta. destruct a; cbn [farg_align]; lia. }
  assert (Hsize' : 0 <= size /\ size + 4 <= 65535) by lia.
  assert (HT : -2147483648 <= ref < 0) by lia.
  assert (Hfield : forall f ov, field_built n Sc st adds f ov ->
            dec_field (dec_table n Sc) Sc (vmem st2) o ds (vt_ref - 1 - o) (2 * (id_end_of placed 0 + 2)) (ref - o) (size + 4) f = Some ov).
  { assert (Hord : org_ok st2 (lvl_align st2) o ds) by (split; assumption).
    assert (Hoff : forall id r, In (AOffset id r) adds -> e_start st <= r < 0 ->
              exists off, In (AOffset id r, off) placed /\ ref + 4 + off < r < 0).
    { intros id r Hin Hr'. apply (in_placed_adds adds placed Hmapf) in Hin. destruct Hin as [off Hin]. exists off. split; [exact Hin|].
      destruct (Hbounds' _ _ Hin) as (H0 & _ & Hle). cbn [farg_size] in Hle.
      pose proof (s_start _ _ Hst1). clear Hfa Href4 Hr4 Hvev. lia. }
    assert (Hwo : forall id r (k : Z -> option value) v, In (AOffset id r) adds -> e_start st <= r < 0 -> k (r - o) = Some v ->
              with_off (vmem st2) o ds (vt_ref - 1 - o) (2 * (id_end_of placed 0 + 2)) (ref - o) (size + 4) id k = Some (Some v)).
    { intros id r k v Hin Hr' Hk. destruct (Hoff id r Hin Hr') as (off & Hin' & Hlt).
      exact (ctx_with_off (vmem st2) o ds ref (vt_ref - 1) placed size base AL Halg HAL' Hvmem2 Hdata' Hbounds' Hwf' Hsize' Hie Hndp Hbase HT
               id r off k v Hin' Hlt Hk). }
    assert (Habs : forall id fsz fal, (forall a, In a adds -> farg_id a <> id) ->
              field_pos (vmem st2) o ds (vt_ref - 1 - o) (2 * (id_end_of placed 0 + 2)) (ref - o) (size + 4) id fsz fal = Some None).
    { intros id fsz fal Hno. apply (ctx_field_pos_absent (vmem st2) o ds ref (vt_ref - 1) placed size base AL Halg Hvmem2 Hdata' Hbounds' Hwf' Hie).
      intros a off Hin. apply Hno. apply (in_placed_adds adds placed Hmapf). eauto. }
    intros f ov Hf. unfold dec_field.
    inversion Hf as [Hno Hno1 Hreq | fsz fal bytes Hk Hin | r v Hk Hin Hr' Hv | es al mc r elems Hk Hin Hr' Hv Hmc
                     | r v Hk Hin Hr' Hv | t' r v Hk Hin Hr' Hv | t' r v Hk Hin Hr' Hv
                     | u code r mem v Hk Hcode Hint Hin Hr' Hmem Hv | u Hk Hint Hno Hreq]; subst ov.
    - (* absent *)
      assert (Hdk : dec_kind (dec_table n Sc) Sc (vmem st2) o ds (vt_ref - 1 - o) (2 * (id_end_of placed 0 + 2)) (ref - o) (size + 4) (fid f) (fk f) = Some None).
      { revert Hno1. destruct (fk f); intros Hno1; cbn [dec_kind]; unfold with_off; rewrite ?(Habs (fid f) _ _ Hno); try reflexivity.
        - rewrite (Habs (fid f - 1) _ _ Hno1). reflexivity.
        - rewrite (Habs (fid f - 1) _ _ Hno1). reflexivity. }
      rewrite Hdk. cbn [bind]. rewrite Hreq. reflexivity.
    - (* scalar / struct *)
      rewrite Hk. apply (in_placed_adds adds placed Hmapf) in Hin. destruct Hin as [off Hin].
      rewrite (ctx_scalar n Sc (vmem st2) o ds ref (vt_ref - 1) placed size base AL Halg HAL' Hvmem2 Hdata' Hbounds' Hwf' Hsize' Hie Hndp
                 (fid f) fsz fal bytes off Hin). reflexivity.
    - rewrite Hk. cbn [dec_kind].
      pose proof (step_valid n Sc st st2 _ _ _ Hma Hstep Hv o ds Hord) as Hv'. cbn [obj_holds] in Hv'.
      rewrite (Hwo (fid f) r _ v Hin Hr' Hv'). reflexivity.
    - rewrite Hk. cbn [dec_kind].
      pose proof (step_valid n Sc st st2 _ _ _ Hma Hstep Hv o ds Hord) as Hv'. cbn [obj_holds] in Hv'.
      destruct Hv' as (el' & Heq & Hd'). injection Heq as <-.
      rewrite (Hwo (fid f) r _ (VVec elems) Hin Hr' (Hd' mc Hmc)). reflexivity.
    - rewrite Hk. cbn [dec_kind].
      pose proof (step_valid n Sc st st2 _ _ _ Hma Hstep Hv o ds Hord) as Hv'. cbn [obj_holds] in Hv'.
      rewrite (Hwo (fid f) r _ v Hin Hr' Hv'). reflexivity.
    - rewrite Hk. cbn [dec_kind].
      pose proof (step_valid n Sc st st2 _ _ _ Hma Hstep Hv o ds Hord) as Hv'. cbn [obj_holds] in Hv'.
      rewrite (Hwo (fid f) r _ v Hin Hr' Hv'). reflexivity.
    - rewrite Hk. cbn [dec_kind].
      pose proof (step_valid n Sc st st2 _ _ _ Hma Hstep Hv o ds Hord) as Hv'. cbn [obj_holds] in Hv'.
      rewrite (Hwo (fid f) r _ v Hin Hr' Hv'). reflexivity.
    - (* union with a member *)
      rewrite Hk. cbn [dec_kind].
      apply (in_placed_adds adds placed Hmapf) in Hint. destruct Hint as [offt Hint].
      destruct (ctx_type_byte (vmem st2) o ds ref (vt_ref - 1) placed size base AL Halg HAL' Hvmem2 Hdata' Hbounds' Hwf' Hsize' Hie Hndp
                  (fid f - 1) code offt Hint) as [Hfp Hbyte].
      rewrite Hfp. cbn [bind]. rewrite Hbyte. cbn [bind].
      destruct (Hoff (fid f) r Hin Hr') as (off & Hin' & Hlt).
      pose proof (ctx_field_pos_present (vmem st2) o ds ref (vt_ref - 1) placed size base AL Halg HAL' Hvmem2 Hdata' Hbounds' Hwf' Hsize' Hie Hndp
                    _ _ Hin') as Hvp. cbn [farg_id farg_size farg_align] in Hvp. rewrite Hvp. cbn [bind].
      replace (code =? 0) with false by lia.
      rewrite (ctx_follow (vmem st2) o ds ref (vt_ref - 1) placed size base AL Halg HAL' Hdata' Hbounds' Hwf' Hbase HT (fid f) r off Hin' Hlt). cbn [bind].
      pose proof (step_valid n Sc st st2 _ _ _ Hma Hstep Hv o ds Hord) as Hv'.
      unfold dec_member. rewrite Hmem. destruct mem; cbn [member_oty obj_holds] in Hv'; rewrite Hv'; reflexivity.
    - (* union NONE with an explicit type byte 0 *)
      rewrite Hk. cbn [dec_kind].
      apply (in_placed_adds adds placed Hmapf) in Hint. destruct Hint as [offt Hint].
      destruct (ctx_type_byte (vmem st2) o ds ref (vt_ref - 1) placed size base AL Halg HAL' Hvmem2 Hdata' Hbounds' Hwf' Hsize' Hie Hndp
                  (fid f - 1) 0 offt Hint) as [Hfp Hbyte].
      rewrite Hfp. cbn [bind]. rewrite Hbyte. cbn [bind]. rewrite (Habs (fid f) _ _ Hno). cbn [bind Z.eqb].
      rewrite Hreq. reflexivity. }
  assert (Hdf : dec_fields (dec_table n Sc) Sc (vmem st2) o ds (vt_ref - 1 - o) (2 * (id_end_of placed 0 + 2)) (ref - o) (size + 4) flds = Some fs).
  { clear Hflds. induction Hfb as [|f r fs0 Hf Hr' IH|f r v fs0 Hf Hr' IH]; cbn [dec_fields].
    - reflexivity.
    - rewrite (Hfield _ _ Hf). cbn [bind]. rewrite IH. reflexivity.
    - rewrite (Hfield _ _ Hf). cbn [bind]. rewrite IH. reflexivity. }
  rewrite Hdf. reflexivity.
Qed.

(* a table whose inline data does not fit the 16-bit size field of the vtable is refused, never emitted truncated *)
Lemma build_table_fits st adds r : build_table st adds = Some r -> table_fits adds.
Proof.
  unfold build_table, table_fits. destruct (has_dup _); [discriminate|].
  destruct (place adds 0) as [placed size]. cbn [snd].
  destruct (65535 <? size + 4) eqn:E; [discriminate|]. intros _. apply Z.ltb_ge in E. exact E.
Qed.
