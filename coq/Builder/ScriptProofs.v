(* Execution of a well-typed script maintains: every register that names an object holds a valid object. *)
From Flatcc.Format Require Import Schema Spec SpecProofs.
From Flatcc.Builder Require Import EmitModel VMem Objects Leaves OffVec TableLayout Table Buffer Script.
From Coq Require Import ZifyBool Znumtheory.
Local Open Scope Z_scope.
Ltac Zify.zify_post_hook ::= Z.div_mod_to_equations.

Definition entry_ok (Sc : schema) (st : est) (r : Z) (e : option entry) : Prop :=
  match e with
  | None => True
  | Some en => e_start st <= r < 0 /\ valid (en_depth en) Sc st (lvl_align st) (en_ty en) r (en_val en)
  end.

Record Inv (Sc : schema) (st : est) (regs : list Z) (G : env) : Prop := {
  i_ok : st_ok st; i_ma : ma_ok st; i_cache : cache_ok st;
  i_ents : Forall2 (entry_ok Sc st) regs G;
  i_top : nest_id st = 0;
  i_ba : balign_ok (block_align st) }.

Lemma entry_ok_step Sc st st' r e : ma_ok st -> step st st' -> entry_ok Sc st r e -> entry_ok Sc st' r e.
Proof.
  intros Hma Hst. destruct e as [en|]; [|auto]. cbn. intros [Hr Hv]. split.
  - pose proof (s_start _ _ Hst). lia.
  - eapply step_valid; eauto.
Qed.

Lemma Forall2_entry_step Sc st st' regs G : ma_ok st -> step st st' ->
  Forall2 (entry_ok Sc st) regs G -> Forall2 (entry_ok Sc st') regs G.
Proof. intros Hma Hst. apply Forall2_imp. intros r e. apply entry_ok_step; assumption. Qed.

Lemma lookup_ok Sc st regs G r en : Forall2 (entry_ok Sc st) regs G -> lookup G r = Some en ->
  exists x, reg regs r = Some x /\ e_start st <= x < 0 /\ valid (en_depth en) Sc st (lvl_align st) (en_ty en) x (en_val en).
Proof.
  intros HF. revert r. induction HF as [|x e regs' G' He HF IH]; intros r Hl.
  - unfold lookup in Hl. destruct r; discriminate.
  - destruct r as [|r].
    + unfold lookup in Hl. cbn in Hl. destruct e as [e|]; [|discriminate]. injection Hl as <-.
      exists x. split; [reflexivity | exact He].
    + unfold lookup in Hl. cbn [nth_error] in Hl. apply (IH r Hl).
Qed.

(* ------------------------------------------------------------------ table arguments *)
Definition targ_rel (regs : list Z) (ta : targ) (fa : farg) : Prop :=
  match ta, fa with
  | TInline i s a b, AInline i' s' a' b' => i = i' /\ s = s' /\ a = a' /\ b = b'
  | TOffset i r, AOffset i' x => i = i' /\ reg regs r = Some x
  | _, _ => False
  end.

Lemma targs_get_rel regs : forall adds fargs, targs_get regs adds = Some fargs -> Forall2 (targ_rel regs) adds fargs.
Proof.
  induction adds as [|a r IH]; intros fargs E; cbn [targs_get] in E.
  - injection E as <-. constructor.
  - destruct a as [id size al bytes|id rr].
    + destruct (targs_get regs r) as [l|] eqn:El; [|discriminate]. injection E as <-.
      constructor; [cbn; tauto | apply IH; reflexivity].
    + destruct (reg regs rr) as [x|] eqn:Er; [|discriminate].
      destruct (targs_get regs r) as [l|] eqn:El; [|discriminate]. injection E as <-.
      constructor; [cbn; tauto | apply IH; reflexivity].
Qed.

Lemma rel_in_l regs adds fargs ta : Forall2 (targ_rel regs) adds fargs -> In ta adds -> exists fa, In fa fargs /\ targ_rel regs ta fa.
Proof.
  induction 1 as [|a f adds' fargs' Hr HF IH]; intros Hin; [destruct Hin|].
  destruct Hin as [<-|Hin]; [exists f; split; [left; reflexivity | exact Hr]|].
  destruct (IH Hin) as (fa & Hfa & Hrel). exists fa. split; [right; exact Hfa | exact Hrel].
Qed.

Lemma rel_in_r regs adds fargs fa : Forall2 (targ_rel regs) adds fargs -> In fa fargs -> exists ta, In ta adds /\ targ_rel regs ta fa.
Proof.
  induction 1 as [|a f adds' fargs' Hr HF IH]; intros Hin; [destruct Hin|].
  destruct Hin as [<-|Hin]; [exists a; split; [left; reflexivity | exact Hr]|].
  destruct (IH Hin) as (ta & Hta & Hrel). exists ta. split; [right; exact Hta | exact Hrel].
Qed.

Lemma rel_id regs ta fa : targ_rel regs ta fa -> farg_id fa = targ_id ta /\ farg_size fa = targ_size ta /\ farg_align fa = targ_align ta.
Proof. destruct ta, fa; cbn; intuition congruence. Qed.

Lemma rel_wf regs ta fa : targ_rel regs ta fa -> targ_wf ta -> farg_wf fa.
Proof.
  intros Hr Hw. destruct (rel_id _ _ _ Hr) as (Hi & Hs & Ha). unfold farg_wf, targ_wf in *. rewrite Hi, Hs, Ha.
  destruct Hw as (A & B & C & D & E). repeat (split; [assumption|]).
  destruct ta, fa; cbn in Hr; try contradiction; [|exact I]. destruct Hr as (_ & <- & _ & <-). exact E.
Qed.

Lemma place_end_rel regs : forall adds fargs off, Forall2 (targ_rel regs) adds fargs -> snd (place fargs off) = tplace_end adds off.
Proof.
  induction adds as [|a r IH]; intros fargs off HF; inversion HF as [|? fa ? fr Hr HF']; subst; [reflexivity|].
  destruct (rel_id _ _ _ Hr) as (_ & Hs & Ha). cbn [place tplace_end]. rewrite <- Hs, <- Ha.
  destruct fa; cbn [farg_align farg_size].
  - destruct (place fr _) as [pl fin] eqn:E. cbn [snd]. rewrite <- (IH fr _ HF'). rewrite E. reflexivity.
  - destruct (place fr _) as [pl fin] eqn:E. cbn [snd]. rewrite <- (IH fr _ HF'). rewrite E. reflexivity.
Qed.

Lemma wt_field_built Sc st regs G n adds fargs f ov :
  Forall2 (entry_ok Sc st) regs G -> Forall2 (targ_rel regs) adds fargs ->
  wt_field G n adds f ov -> field_built n Sc st fargs f ov.
Proof.
  intros HE HR Hw.
  assert (Habs : forall id, (forall a, In a adds -> targ_id a <> id) -> forall a, In a fargs -> farg_id a <> id).
  { intros id Hno fa Hin. destruct (rel_in_r _ _ _ _ HR Hin) as (ta & Hta & Hrel).
    destruct (rel_id _ _ _ Hrel) as (-> & _). apply Hno, Hta. }
  assert (Hoff : forall id r en, In (TOffset id r) adds -> lookup G r = Some en -> (en_depth en <= n)%nat ->
            exists x, In (AOffset id x) fargs /\ e_start st <= x < 0 /\ valid n Sc st (lvl_align st) (en_ty en) x (en_val en)).
  { intros id r en Hin Hl Hk. destruct (rel_in_l _ _ _ _ HR Hin) as (fa & Hfa & Hrel).
    destruct fa as [|id' x]; cbn in Hrel; [contradiction|]. destruct Hrel as [<- Hreg].
    destruct (lookup_ok Sc st regs G r en HE Hl) as (x' & Hreg' & Hx & Hv).
    rewrite Hreg in Hreg'. injection Hreg' as <-. exists x. split; [exact Hfa|]. split; [exact Hx|].
    eapply valid_mono; try exact Hv; auto using mext_refl, Z.divide_refl; try lia; apply lvl_pos. }
  inversion Hw as [Hno Hno1 Hreq | size al bytes Hk Hin | r v k Hk Hin Hl Hkn | es al mc r elems k Hk Hin Hl Hkn Hmc
                   | r v k Hk Hin Hl Hkn | t r v k Hk Hin Hl Hkn | t r v k Hk Hin Hl Hkn]; subst ov.
  - apply FB_absent; [apply Habs, Hno | | exact Hreq].
    destruct (fk f); try exact I; apply Habs, Hno1.
  - destruct (rel_in_l _ _ _ _ HR Hin) as (fa & Hfa & Hrel).
    destruct fa as [i' s' a' b'|]; cbn in Hrel; [|contradiction]. destruct Hrel as (<- & <- & <- & <-).
    eapply FB_scalar; eauto.
  - destruct (Hoff _ _ _ Hin Hl Hkn) as (x & Hx & Hr & Hv). eapply FB_string; eauto.
  - destruct (Hoff _ _ _ Hin Hl Hkn) as (x & Hx & Hr & Hv). eapply FB_vector; eauto.
  - destruct (Hoff _ _ _ Hin Hl Hkn) as (x & Hx & Hr & Hv). eapply FB_strvec; eauto.
  - destruct (Hoff _ _ _ Hin Hl Hkn) as (x & Hx & Hr & Hv). eapply FB_table; eauto.
  - destruct (Hoff _ _ _ Hin Hl Hkn) as (x & Hx & Hr & Hv). eapply FB_tabvec; eauto.
Qed.

Lemma wt_fields_built Sc st regs G n adds fargs flds fs :
  Forall2 (entry_ok Sc st) regs G -> Forall2 (targ_rel regs) adds fargs ->
  wt_fields G n adds flds fs -> fields_built n Sc st fargs flds fs.
Proof.
  intros HE HR. induction 1; [constructor | apply FBS_absent | apply FBS_present]; auto; eapply wt_field_built; eauto.
Qed.

(* ------------------------------------------------------------------ one command *)
Lemma Forall2_snoc {A B} (P : A -> B -> Prop) l1 l2 a b : Forall2 P l1 l2 -> P a b -> Forall2 P (l1 ++ [a]) (l2 ++ [b]).
Proof. intros H Hab. apply Forall2_app; [exact H | constructor; [exact Hab | constructor]]. Qed.

Lemma inv_extend Sc st st' regs G ref ty v n :
  Inv Sc st regs G -> step st st' -> cache_ok st' ->
  e_start st' <= ref < 0 -> valid n Sc st' (lvl_align st') ty ref v ->
  Inv Sc st' (regs ++ [ref]) (G ++ [mk ty v n]).
Proof.
  intros [Hok Hma Hc He Ht Hb] Hst Hc' Hr Hv. constructor.
  - exact (s_ok _ _ Hst).
  - exact (s_ma _ _ Hst).
  - exact Hc'.
  - apply Forall2_snoc; [eapply Forall2_entry_step; eauto | cbn; split; assumption].
  - destruct (s_ctl _ _ Hst) as (-> & _). exact Ht.
  - destruct (s_ctl _ _ Hst) as (_ & _ & _ & _ & -> & _). exact Hb.
Qed.

Lemma st_ok_start_nonpos st : st_ok st -> e_start st <= 0.
Proof. intros (Hs & _). pose proof (lenZ_nonneg (front st)). lia. Qed.

Lemma run_cmd_inv Sc G c G' st regs new ems st' :
  wt_cmd Sc G c G' -> Inv Sc st regs G -> run_cmd st regs c = Some (new, ems, st') -> small st' ->
  Inv Sc st' (regs ++ new) G' /\ step st st'.
Proof.
  intros Hwt HI E Hsm. pose proof HI as [Hok Hma Hc He Ht Hb]. pose proof (st_ok_start_nonpos st Hok) as Hs0.
  inversion Hwt as [G0 s | G0 es al mc elems Hal Hes Hel Hmc | G0 al data Hal | G0 rs ety vs n Hety Hrs
                    | G0 adds t flds fs n Hw Hlen Hfit Hfl Hfs]; subst; cbn [run_cmd] in E.
  - (* create_string *)
    destruct (create_string st s) as [[[ref e] st1]|] eqn:Ec; [|discriminate]. cbn [one] in E. injection E as <- <- <-. rename st1 into st'.
    destruct (create_string_valid 0 Sc st s ref e st' Hok Hma Ec Hsm) as (Hst & Hs & Hlt & Hee & Hm & Hcc & _ & Hv).
    split; [|exact Hst]. apply (inv_extend Sc st st' regs G ref _ _ _ HI Hst); [eapply cache_ok_step; eauto | lia | exact Hv].
  - (* create_vector *)
    destruct (create_vector st (concat elems) (Z.of_nat (length elems)) es al mc) as [[[ref e] st1]|] eqn:Ec; [|discriminate].
    cbn [one] in E. injection E as <- <- <-. rename st1 into st'.
    destruct (create_vector_valid 0 Sc st elems _ es al mc ref e st' Hok Hma Hal Hes Hel eq_refl Hmc Ec Hsm)
      as (Hst & Hs & Hlt & Hee & Hcc & _ & _ & Hv).
    split; [|exact Hst]. apply (inv_extend Sc st st' regs G ref _ _ _ HI Hst); [eapply cache_ok_step; eauto | lia | exact Hv].
  - (* create_struct *)
    destruct (create_struct st data al) as [[[ref e] st1]|] eqn:Ec; [|discriminate]. cbn [one] in E. injection E as <- <- <-. rename st1 into st'.
    destruct (create_struct_valid 0 Sc st data al ref e st' Hok Hma Hal Ec Hsm) as (Hst & Hs & Hlt & Hee & Hcc & _ & Hv).
    split; [|exact Hst]. apply (inv_extend Sc st st' regs G ref _ _ _ HI Hst); [eapply cache_ok_step; eauto | lia | exact Hv].
  - (* offset vector *)
    destruct (regs_get regs rs) as [refs|] eqn:Eg; [|discriminate].
    destruct (create_offset_vector st refs) as [[[ref e] st1]|] eqn:Ec; [|discriminate]. cbn [one] in E. injection E as <- <- <-. rename st1 into st'.
    assert (Hch : Forall2 (fun r v => e_start st <= r < 0 /\ valid n Sc st (lvl_align st) ety r v) refs vs).
    { clear Ec. revert refs Eg. induction Hrs as [|r v rs' vs' (k & Hl & Hk) Hrs IH]; intros refs Eg; cbn [regs_get] in Eg.
      - injection Eg as <-. constructor.
      - destruct (reg regs r) as [x|] eqn:Er; [|discriminate]. destruct (regs_get regs rs') as [l|] eqn:El; [|discriminate].
        injection Eg as <-. constructor; [|apply IH; reflexivity].
        destruct (lookup_ok Sc st regs G r _ He Hl) as (x' & Hreg' & Hx & Hv). rewrite Er in Hreg'. injection Hreg' as <-.
        cbn in Hv. split; [exact Hx|].
        eapply valid_mono; try exact Hv; auto using mext_refl, Z.divide_refl; try lia; apply lvl_pos. }
    destruct (create_offset_vector_valid n Sc st ety refs vs ref e st' Hok Hma Hety Hch Ec Hsm) as (Hst & Hs & Hlt & Hee & Hcc & _ & Hv).
    split; [|exact Hst]. apply (inv_extend Sc st st' regs G ref _ _ _ HI Hst); [eapply cache_ok_step; eauto | lia | exact Hv].
  - (* table *)
    destruct (targs_get regs adds) as [fargs|] eqn:Eg; [|discriminate].
    destruct (build_table st fargs) as [[[ref es] st1]|] eqn:Ec; [|discriminate]. cbn [many] in E. injection E as <- <- <-. rename st1 into st'. rename es into ems.
    pose proof (targs_get_rel regs adds fargs Eg) as HR.
    assert (Hwf : Forall farg_wf fargs).
    { rewrite Forall_forall. intros fa Hin. destruct (rel_in_r _ _ _ _ HR Hin) as (ta & Hta & Hrel).
      rewrite Forall_forall in Hw. exact (rel_wf _ _ _ Hrel (Hw _ Hta)). }
    assert (Hlen' : Z.of_nat (length fargs) <= 32765) by (rewrite <- (Forall2_length HR); exact Hlen).
    assert (Hfit' : table_fits fargs) by (unfold table_fits; rewrite (place_end_rel regs adds fargs 0 HR); exact Hfit).
    pose proof (wt_fields_built Sc st regs G n adds fargs flds fs He HR Hfs) as Hfb.
    destruct (build_table_valid n Sc st fargs t flds fs ref ems st' Hok Hma Hc Hwf Hlen' Hfit' Hfl Hfb Ec Hsm)
      as (Hst & Hc' & Hs & Hlt & _ & Hv).
    split; [|exact Hst]. apply (inv_extend Sc st st' regs G ref _ _ _ HI Hst); [exact Hc' | lia | exact Hv].
Qed.

