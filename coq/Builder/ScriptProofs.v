(* Execution of a well-typed script maintains: every register that names an object holds a valid object. *)
From Flatcc.Format Require Import Schema Spec SpecProofs.
From Flatcc.Builder Require Import EmitModel VMem Objects Leaves OffVec TableLayout Table Buffer Script.
From Coq Require Import ZifyBool Znumtheory.
Local Open Scope Z_scope.
Ltac Zify.zify_post_hook ::= Z.div_mod_to_equations.

Definition entry_ok (Sc : schema) (st : est) (r : Z) (e : option entry) : Prop :=
  match e with
  | None => True
  | Some en => e_start st <= r < 0 /\ valid (en_depth en) Sc st (lvl_align st) (en_ty en) r (en_val en)
  end.

Record Inv (Sc : schema) (st : est) (regs : list Z) (G : env) : Prop := {
  i_ok : st_ok st; i_ma : ma_ok st; i_cache : cache_ok st;
  i_ents : Forall2 (entry_ok Sc st) regs G;
  i_top : nest_id st = 0;
  i_ba : balign_ok (block_align st) }.

Lemma entry_ok_step Sc st st' r e : ma_ok st -> step st st' -> entry_ok Sc st r e -> entry_ok Sc st' r e.
Proof.
  intros Hma Hst. destruct e as [en|]; [|auto]. cbn. intros [Hr Hv]. split.
  - pose proof (s_start _ _ Hst). lia.
  - eapply step_valid; eauto.
Qed.

Lemma Forall2_entry_step Sc st st' regs G : ma_ok st -> step st st' ->
  Forall2 (entry_ok Sc st) regs G -> Forall2 (entry_ok Sc st') regs G.
Proof. intros Hma Hst. apply Forall2_imp. intros r e. apply entry_ok_step; assumption. Qed.

Lemma lookup_ok Sc st regs G r en : Forall2 (entry_ok Sc st) regs G -> lookup G r = Some en ->
  exists x, reg regs r = Some x /\ e_start st <= x < 0 /\ valid (en_depth en) Sc st (lvl_align st) (en_ty en) x (en_val en).
Proof.
  intros HF. revert r. induction HF as [|x e regs' G' He HF IH]; intros r Hl.
  - unfold lookup in Hl. destruct r; discriminate.
  - destruct r as [|r].
    + unfold lookup in Hl. cbn in Hl. destruct e as [e|]; [|discriminate]. injection Hl as <-.
      exists x. split; [reflexivity | exact He].
    + unfold lookup in Hl. cbn [nth_error] in Hl. apply (IH r Hl).
Qed.

(* ------------------------------------------------------------------ table arguments *)
Definition targ_rel (regs : list Z) (ta : targ) (fa : farg) : Prop :=
  match ta, fa with
  | TInline i s a b, AInline i' s' a' b' => i = i' /\ s = s' /\ a = a' /\ b = b'
  | TOffset i r, AOffset i' x => i = i' /\ reg regs r = Some x
  | _, _ => False
  end.

Lemma targs_get_rel regs : forall adds fargs, targs_get regs adds = Some fargs -> Forall2 (targ_rel regs) adds fargs.
Proof.
  induction adds as [|a r IH]; intros fargs E; cbn [targs_get] in E.
  - injection E as <-. constructor.
  - destruct a as [id size al bytes|id rr].
    + destruct (targs_get regs r) as [l|] eqn:El; [|discriminate]. injection E as <-.
      constructor; [cbn; tauto | apply IH; reflexivity].
    + destruct (reg regs rr) as [x|] eqn:Er; [|discriminate].
      destruct (targs_get regs r) as [l|] eqn:El; [|discriminate]. injection E as <-.
      constructor; [cbn; tauto | apply IH; reflexivity].
Qed.

Lemma rel_in_l regs adds fargs ta : Forall2 (targ_rel regs) adds fargs -> In ta adds -> exists fa, In fa fargs /\ targ_rel regs ta fa.
Proof.
  induction 1 as [|a f adds' fargs' Hr HF IH]; intros Hin; [destruct Hin|].
  destruct Hin as [<-|Hin]; [exists f; split; [left; reflexivity | exact Hr]|].
  destruct (IH Hin) as (fa & Hfa & Hrel). exists fa. split; [right; exact Hfa | exact Hrel].
Qed.

Lemma rel_in_r regs adds fargs fa : Forall2 (targ_rel regs) adds fargs -> In fa fargs -> exists ta, In ta adds /\ targ_rel regs ta fa.
Proof.
  induction 1 as [|a f adds' fargs' Hr HF IH]; intros Hin; [destruct Hin|].
  destruct Hin as [<-|Hin]; [exists a; split; [left; reflexivity | exact Hr]|].
  destruct (IH Hin) as (ta & Hta & Hrel). exists ta. split; [right; exact Hta | exact Hrel].
Qed.

Lemma rel_id regs ta fa : targ_rel regs ta fa -> farg_id fa = targ_id ta /\ farg_size fa = targ_size ta /\ farg_align fa = targ_align ta.
Proof. destruct ta, fa; cbn; intuition congruence. Qed.

Lemma rel_wf regs ta fa : targ_rel regs ta fa -> targ_wf ta -> farg_wf fa.
Proof.
  intros Hr Hw. destruct (rel_id _ _ _ Hr) as (Hi & Hs & Ha). unfold farg_wf, targ_wf in *. rewrite Hi, Hs, Ha.
  destruct Hw as (A & B & C & D & E). repeat (split; [assumption|]).
  destruct ta, fa; cbn in Hr; try contradiction; [|exact I]. destruct Hr as (_ & <- & _ & <-). exact E.
Qed.

Lemma place_end_rel regs : forall adds fargs off, Forall2 (targ_rel regs) adds fargs -> snd (place fargs off) = tplace_end adds off.
Proof.
  induction adds as [|a r IH]; intros fargs off HF; inversion HF as [|? fa ? fr Hr HF']; subst; [reflexivity|].
  destruct (rel_id _ _ _ Hr) as (_ & Hs & Ha). cbn [place tplace_end]. rewrite <- Hs, <- Ha.
  destruct fa; cbn [farg_align farg_size].
  - destruct (place fr _) as [pl fin] eqn:E. cbn [snd]. rewrite <- (IH fr _ HF'). rewrite E. reflexivity.
  - destruct (place fr _) as [pl fin] eqn:E. cbn [snd]. rewrite <- (IH fr _ HF'). rewrite E. reflexivity.
Qed.

Lemma wt_field_built Sc st regs G n adds fargs f ov :
  Forall2 (entry_ok Sc st) regs G -> Forall2 (targ_rel regs) adds fargs ->
  wt_field Sc G n adds f ov -> field_built n Sc st fargs f ov.
Proof.
  intros HE HR Hw.
  assert (Habs : forall id, (forall a, In a adds -> targ_id a <> id) -> forall a, In a fargs -> farg_id a <> id).
  { intros id Hno fa Hin. destruct (rel_in_r _ _ _ _ HR Hin) as (ta & Hta & Hrel).
    destruct (rel_id _ _ _ Hrel) as (-> & _). apply Hno, Hta. }
  assert (Hoff : forall id r en, In (TOffset id r) adds -> lookup G r = Some en -> (en_depth en <= n)%nat ->
            exists x, In (AOffset id x) fargs /\ e_start st <= x < 0 /\ valid n Sc st (lvl_align st) (en_ty en) x (en_val en)).
  { intros id r en Hin Hl Hk. destruct (rel_in_l _ _ _ _ HR Hin) as (fa & Hfa & Hrel).
    destruct fa as [|id' x]; cbn in Hrel; [contradiction|]. destruct Hrel as [<- Hreg].
    destruct (lookup_ok Sc st regs G r en HE Hl) as (x' & Hreg' & Hx & Hv).
    rewrite Hreg in Hreg'. injection Hreg' as <-. exists x. split; [exact Hfa|]. split; [exact Hx|].
    eapply valid_mono; try exact Hv; auto using mext_refl, Z.divide_refl; try lia; apply lvl_pos. }
  inversion Hw as [Hno Hno1 Hreq | size al bytes Hk Hin | r v k Hk Hin Hl Hkn | es al mc r elems k Hk Hin Hl Hkn Hmc
                   | r v k Hk Hin Hl Hkn | t r v k Hk Hin Hl Hkn | t r v k Hk Hin Hl Hkn
                   | u code r mem v k Hk Hcode Hint Hin Hmem Hl Hkn | u Hk Hint Hno Hreq]; subst ov.
  - apply FB_absent; [apply Habs, Hno | | exact Hreq].
    destruct (fk f); try exact I; apply Habs, Hno1.
  - destruct (rel_in_l _ _ _ _ HR Hin) as (fa & Hfa & Hrel).
    destruct fa as [i' s' a' b'|]; cbn in Hrel; [|contradiction]. destruct Hrel as (<- & <- & <- & <-).
    eapply FB_scalar; eauto.
  - destruct (Hoff _ _ _ Hin Hl Hkn) as (x & Hx & Hr & Hv). eapply FB_string; eauto.
  - destruct (Hoff _ _ _ Hin Hl Hkn) as (x & Hx & Hr & Hv). eapply FB_vector; eauto.
  - destruct (Hoff _ _ _ Hin Hl Hkn) as (x & Hx & Hr & Hv). eapply FB_strvec; eauto.
  - destruct (Hoff _ _ _ Hin Hl Hkn) as (x & Hx & Hr & Hv). eapply FB_table; eauto.
  - destruct (Hoff _ _ _ Hin Hl Hkn) as (x & Hx & Hr & Hv). eapply FB_tabvec; eauto.
  - destruct (Hoff _ _ _ Hin Hl Hkn) as (x & Hx & Hr & Hv). cbn [en_ty en_val] in Hv.
    destruct (rel_in_l _ _ _ _ HR Hint) as (fa & Hfa & Hrel).
    destruct fa as [i' s' a' b'|]; cbn in Hrel; [|contradiction]. destruct Hrel as (<- & <- & <- & <-).
    eapply FB_union; eauto.
  - destruct (rel_in_l _ _ _ _ HR Hint) as (fa & Hfa & Hrel).
    destruct fa as [i' s' a' b'|]; cbn in Hrel; [|contradiction]. destruct Hrel as (<- & <- & <- & <-).
    eapply FB_union_none; eauto.
Qed.

Lemma wt_fields_built Sc st regs G n adds fargs flds fs :
  Forall2 (entry_ok Sc st) regs G -> Forall2 (targ_rel regs) adds fargs ->
  wt_fields Sc G n adds flds fs -> fields_built n Sc st fargs flds fs.
Proof.
  intros HE HR. induction 1; [constructor | apply FBS_absent | apply FBS_present]; auto; eapply wt_field_built; eauto.
Qed.

(* ------------------------------------------------------------------ one command *)
Lemma Forall2_len {A B} (P : A -> B -> Prop) l1 l2 : Forall2 P l1 l2 -> length l1 = length l2.
Proof. induction 1; cbn; congruence. Qed.

Lemma Forall2_snoc {A B} (P : A -> B -> Prop) l1 l2 a b : Forall2 P l1 l2 -> P a b -> Forall2 P (l1 ++ [a]) (l2 ++ [b]).
Proof. intros H Hab. apply Forall2_app; [exact H | constructor; [exact Hab | constructor]]. Qed.

Lemma inv_extend Sc st st' regs G ref ty v n :
  Inv Sc st regs G -> step st st' -> cache_ok st' ->
  e_start st' <= ref < 0 -> valid n Sc st' (lvl_align st') ty ref v ->
  Inv Sc st' (regs ++ [ref]) (G ++ [mk ty v n]).
Proof.
  intros [Hok Hma Hc He Ht Hb] Hst Hc' Hr Hv. constructor.
  - exact (s_ok _ _ Hst).
  - exact (s_ma _ _ Hst).
  - exact Hc'.
  - apply Forall2_snoc; [eapply Forall2_entry_step; eauto | cbn; split; assumption].
  - destruct (s_ctl _ _ Hst) as (-> & _). exact Ht.
  - destruct (s_ctl _ _ Hst) as (_ & _ & _ & _ & -> & _). exact Hb.
Qed.

Lemma st_ok_start_nonpos st : st_ok st -> e_start st <= 0.
Proof. intros (Hs & _). pose proof (lenZ_nonneg (front st)). lia. Qed.

Lemma run_cmd_inv Sc G c G' st regs new ems st' :
  wt_cmd Sc G c G' -> Inv Sc st regs G -> run_cmd st regs c = Some (new, ems, st') -> small st' ->
  Inv Sc st' (regs ++ new) G' /\ step st st'.
Proof.
  intros Hwt HI E Hsm. pose proof HI as [Hok Hma Hc He Ht Hb]. pose proof (st_ok_start_nonpos st Hok) as Hs0.
  inversion Hwt as [G0 s | G0 es al mc elems Hal Hes Hel Hmc | G0 al data Hal | G0 rs ety vs n Hety Hrs
                    | G0 adds t flds fs n Hw Hlen Hfit Hfl Hfs]; subst; cbn [run_cmd] in E.
  - (* create_string *)
    destruct (create_string st s) as [[[ref e] st1]|] eqn:Ec; [|discriminate]. cbn [one] in E. injection E as <- <- <-. rename st1 into st'.
    destruct (create_string_valid 0 Sc st s ref e st' Hok Hma Ec Hsm) as (Hst & Hs & Hlt & Hee & Hm & Hcc & _ & Hv).
    split; [|exact Hst]. apply (inv_extend Sc st st' regs G ref _ _ _ HI Hst); [eapply cache_ok_step; eauto | lia | exact Hv].
  - (* create_vector *)
    destruct (create_vector st (concat elems) (Z.of_nat (length elems)) es al mc) as [[[ref e] st1]|] eqn:Ec; [|discriminate].
    cbn [one] in E. injection E as <- <- <-. rename st1 into st'.
    destruct (create_vector_valid 0 Sc st elems _ es al mc ref e st' Hok Hma Hal Hes Hel eq_refl Hmc Ec Hsm)
      as (Hst & Hs & Hlt & Hee & Hcc & _ & _ & Hv).
    split; [|exact Hst]. apply (inv_extend Sc st st' regs G ref _ _ _ HI Hst); [eapply cache_ok_step; eauto | lia | exact Hv].
  - (* create_struct *)
    destruct (create_struct st data al) as [[[ref e] st1]|] eqn:Ec; [|discriminate]. cbn [one] in E. injection E as <- <- <-. rename st1 into st'.
    destruct (create_struct_valid 0 Sc st data al ref e st' Hok Hma Hal Ec Hsm) as (Hst & Hs & Hlt & Hee & Hcc & _ & Hv).
    split; [|exact Hst]. apply (inv_extend Sc st st' regs G ref _ _ _ HI Hst); [eapply cache_ok_step; eauto | lia | exact Hv].
  - (* offset vector *)
    destruct (regs_get regs rs) as [refs|] eqn:Eg; [|discriminate].
    destruct (create_offset_vector st refs) as [[[ref e] st1]|] eqn:Ec; [|discriminate]. cbn [one] in E. injection E as <- <- <-. rename st1 into st'.
    assert (Hch : Forall2 (fun r v => e_start st <= r < 0 /\ valid n Sc st (lvl_align st) ety r v) refs vs).
    { clear Ec Hwt. revert refs Eg. induction Hrs as [|r v rs' vs' (k & Hl & Hk) Hrs IH]; intros refs Eg; cbn [regs_get] in Eg.
      - injection Eg as <-. constructor.
      - destruct (reg regs r) as [x|] eqn:Er; [|discriminate]. destruct (regs_get regs rs') as [l|] eqn:El; [|discriminate].
        injection Eg as <-. constructor; [|apply IH; reflexivity].
        destruct (lookup_ok Sc st regs G r _ He Hl) as (x' & Hreg' & Hx & Hv). rewrite Er in Hreg'. injection Hreg' as <-.
        cbn in Hv. split; [exact Hx|].
        eapply valid_mono; try exact Hv; auto using mext_refl, Z.divide_refl; try lia; apply lvl_pos. }
    destruct (create_offset_vector_valid n Sc st ety refs vs ref e st' Hok Hma Hety Hch Ec Hsm) as (Hst & Hs & Hlt & Hee & Hcc & _ & Hv).
    split; [|exact Hst]. apply (inv_extend Sc st st' regs G ref _ _ _ HI Hst); [eapply cache_ok_step; eauto | lia | exact Hv].
  - (* table *)
    destruct (targs_get regs adds) as [fargs|] eqn:Eg; [|discriminate].
    destruct (build_table st fargs) as [[[ref es] st1]|] eqn:Ec; [|discriminate]. cbn [many] in E. injection E as <- <- <-. rename st1 into st'. rename es into ems.
    pose proof (targs_get_rel regs adds fargs Eg) as HR.
    assert (Hwf : Forall farg_wf fargs).
    { rewrite Forall_forall. intros fa Hin. destruct (rel_in_r _ _ _ _ HR Hin) as (ta & Hta & Hrel).
      rewrite Forall_forall in Hw. exact (rel_wf _ _ _ Hrel (Hw _ Hta)). }
    assert (Hlen' : Z.of_nat (length fargs) <= 32765) by (rewrite <- (Forall2_len _ _ _ HR); exact Hlen).
    assert (Hfit' : table_fits fargs) by (unfold table_fits; rewrite (place_end_rel regs adds fargs 0 HR); exact Hfit).
    pose proof (wt_fields_built Sc st regs G n adds fargs flds fs He HR Hfs) as Hfb.
    destruct (build_table_valid n Sc st fargs t flds fs ref ems st' Hok Hma Hc Hwf Hlen' Hfit' Hfl Hfb Ec Hsm)
      as (Hst & Hc' & Hs & Hlt & _ & Hv).
    split; [|exact Hst]. apply (inv_extend Sc st st' regs G ref _ _ _ HI Hst); [exact Hc' | lia | exact Hv].
Qed.


(* ------------------------------------------------------------------ the emitted byte count only grows *)
Definition sz (st : est) : Z := lenZ (front st) + lenZ (back st).

Lemma sz_emit_front st b r e st' : emit_front st b = Some (r, e, st') -> sz st <= sz st'.
Proof.
  unfold emit_front. destruct (_ || _ || _); [discriminate|]. intros H. injection H as _ _ <-.
  unfold sz. cbn [set_emit_front front back]. rewrite lenZ_app. pose proof (lenZ_nonneg b). lia.
Qed.
Lemma sz_emit_back st b r e st' : emit_back st b = Some (r, e, st') -> sz st <= sz st'.
Proof.
  unfold emit_back. destruct (_ || _); [discriminate|]. intros H. injection H as _ _ <-.
  unfold sz. cbn [set_emit_back front back]. rewrite lenZ_app. pose proof (lenZ_nonneg b). lia.
Qed.
Lemma sz_set_min_align st a : sz (set_min_align st a) = sz st.
Proof. unfold sz. destruct (set_min_align_fields st a) as (_ & _ & -> & -> & _). reflexivity. Qed.

Lemma sz_create_string st s r e st' : create_string st s = Some (r, e, st') -> sz st <= sz st'.
Proof. unfold create_string. destruct (_ <? _); [discriminate|]. apply sz_emit_front. Qed.
Lemma sz_create_struct st d a r e st' : create_struct st d a = Some (r, e, st') -> sz st <= sz st'.
Proof. unfold create_struct. intros H. apply sz_emit_front in H. rewrite sz_set_min_align in H. exact H. Qed.
Lemma sz_create_vector st d c es a mc r e st' : create_vector st d c es a mc = Some (r, e, st') -> sz st <= sz st'.
Proof. unfold create_vector. destruct (_ <? _); [discriminate|]. intros H. apply sz_emit_front in H. rewrite sz_set_min_align in H. exact H. Qed.
Lemma sz_create_offset_vector st refs r e st' : create_offset_vector st refs = Some (r, e, st') -> sz st <= sz st'.
Proof. unfold create_offset_vector. destruct (_ <? _); [discriminate|]. intros H. apply sz_emit_front in H. rewrite sz_set_min_align in H. exact H. Qed.
Lemma sz_create_union_vector st ts rs a b es st' : create_union_vector st ts rs = Some (a, b, es, st') -> sz st <= sz st'.
Proof.
  unfold create_union_vector. destruct (create_offset_vector st rs) as [[[v e1] st1]|] eqn:E1; [|discriminate].
  destruct (create_vector st1 ts _ 1 1 _) as [[[t e2] st2]|] eqn:E2; [|discriminate]. intros H. injection H as _ _ _ <-.
  apply sz_create_offset_vector in E1. apply sz_create_vector in E2. lia.
Qed.
Lemma sz_create_vtable st vt r e st' : create_vtable st vt = Some (r, e, st') -> sz st <= sz st'.
Proof.
  unfold create_vtable. destruct (_ && _); [apply sz_emit_back|].
  destruct (emit_front st _) as [[[r0 e0] st0]|] eqn:E; [|discriminate]. intros H. injection H as _ _ <-. apply sz_emit_front in E. exact E.
Qed.
Lemma sz_cached_vtable st vt r es st' : create_cached_vtable st vt = Some (r, es, st') -> sz st <= sz st'.
Proof.
  unfold create_cached_vtable. destruct (vcache_find _ _ _); [intros H; injection H as _ _ <-; lia|].
  destruct (create_vtable st vt) as [[[r0 e0] st0]|] eqn:E; [|discriminate]. intros H. injection H as _ _ <-.
  apply sz_create_vtable in E. exact E.
Qed.
Lemma sz_create_table st p s a v r e st' : create_table st p s a v = Some (r, e, st') -> sz st <= sz st'.
Proof. unfold create_table. destruct (negb _); [discriminate|]. intros H. apply sz_emit_front in H. rewrite sz_set_min_align in H. exact H. Qed.
Lemma sz_build_table st adds r es st' : build_table st adds = Some (r, es, st') -> sz st <= sz st'.
Proof.
  unfold build_table. destruct (has_dup _); [discriminate|]. destruct (place adds 0) as [pl s].
  destruct (_ <? _); [discriminate|].
  destruct (create_cached_vtable st _) as [[[v es1] st1]|] eqn:E1; [|discriminate].
  destruct (create_table st1 _ _ _ _) as [[[r0 e0] st2]|] eqn:E2; [|discriminate]. intros H. injection H as _ _ <-.
  apply sz_cached_vtable in E1. apply sz_create_table in E2. lia.
Qed.
Lemma sz_align_buffer_end st a b n al es st' : align_buffer_end st a b n = Some (al, es, st') -> sz st <= sz st'.
Proof.
  unfold align_buffer_end. destruct n; [intros H; injection H as _ _ <-; lia|].
  destruct (_ =? 0); [intros H; injection H as _ _ <-; lia|].
  destruct (emit_back st _) as [[[r0 e0] st0]|] eqn:E; [|discriminate]. intros H. injection H as _ _ <-. apply sz_emit_back in E. exact E.
Qed.
Lemma sz_create_buffer st id b root a fl r es st' : create_buffer st id b root a fl = Some (r, es, st') -> sz st <= sz st'.
Proof.
  unfold create_buffer. destruct (align_buffer_end st a b _) as [[[al es0] st1]|] eqn:E1; [|discriminate].
  destruct (emit_front _ _) as [[[r0 e0] st2]|] eqn:E2; [|discriminate]. intros H. injection H as _ _ <-.
  apply sz_align_buffer_end in E1. apply sz_emit_front in E2. rewrite sz_set_min_align in E2. lia.
Qed.
Lemma sz_embed_buffer st b d a fl r es st' : embed_buffer st b d a fl = Some (r, es, st') -> sz st <= sz st'.
Proof.
  unfold embed_buffer. destruct (align_buffer_end st a b _) as [[[al es0] st1]|] eqn:E1; [|discriminate].
  destruct (emit_front _ _) as [[[r0 e0] st2]|] eqn:E2; [|discriminate]. intros H. injection H as _ _ <-.
  apply sz_align_buffer_end in E1. apply sz_emit_front in E2. rewrite sz_set_min_align in E2. lia.
Qed.
Lemma sz_end_buffer st root r es st' : end_buffer st root = Some (r, es, st') -> sz st <= sz st'.
Proof.
  unfold end_buffer. destruct (frames st) as [|fr rest]; [discriminate|].
  destruct (create_buffer _ _ _ _ _ _) as [[[r0 es0] st2]|] eqn:E; [|discriminate]. intros H. injection H as _ _ <-.
  apply sz_create_buffer in E. rewrite sz_set_min_align in E. exact E.
Qed.

Lemma sz_run_cmd st regs c new es st' : run_cmd st regs c = Some (new, es, st') -> sz st <= sz st'.
Proof.
  destruct c; cbn [run_cmd]; intros H.
  - destruct (create_string st s) as [[[r e] s1]|] eqn:E; [|discriminate]. injection H as _ _ <-. eapply sz_create_string; eauto.
  - destruct (create_vector _ _ _ _ _ _) as [[[r e] s1]|] eqn:E; [|discriminate]. injection H as _ _ <-. eapply sz_create_vector; eauto.
  - destruct (create_struct _ _ _) as [[[r e] s1]|] eqn:E; [|discriminate]. injection H as _ _ <-. eapply sz_create_struct; eauto.
  - destruct (regs_get regs rs); [|discriminate].
    destruct (create_offset_vector _ _) as [[[r e] s1]|] eqn:E; [|discriminate]. injection H as _ _ <-. eapply sz_create_offset_vector; eauto.
  - destruct (uelems_get regs elems) as [[ts rs]|]; [|discriminate].
    destruct (create_union_vector _ _ _) as [[[[a b] e] s1]|] eqn:E; [|discriminate]. injection H as _ _ <-. eapply sz_create_union_vector; eauto.
  - destruct (targs_get regs adds); [|discriminate].
    destruct (build_table _ _) as [[[r e] s1]|] eqn:E; [|discriminate]. injection H as _ _ <-. eapply sz_build_table; eauto.
  - injection H as _ _ <-. unfold sz. reflexivity.
  - destruct (reg regs root); [|discriminate].
    destruct (end_buffer _ _) as [[[r e] s1]|] eqn:E; [|discriminate]. injection H as _ _ <-. eapply sz_end_buffer; eauto.
  - destruct (reg regs root); [|discriminate].
    destruct (create_buffer _ _ _ _ _ _) as [[[r e] s1]|] eqn:E; [|discriminate]. injection H as _ _ <-. eapply sz_create_buffer; eauto.
  - destruct (embed_buffer _ _ _ _ _) as [[[r e] s1]|] eqn:E; [|discriminate]. injection H as _ _ <-. eapply sz_embed_buffer; eauto.
  - injection H as _ _ <-. unfold sz. reflexivity.
Qed.

Lemma sz_run : forall sc st regs regs' es st', run st regs sc = Some (regs', es, st') -> sz st <= sz st'.
Proof.
  induction sc as [|c r IH]; intros st regs regs' es st' H; cbn [run] in H.
  - injection H as _ _ <-. lia.
  - destruct (run_cmd st regs c) as [[[new es1] st1]|] eqn:E1; [|discriminate].
    destruct (run st1 (regs ++ new) r) as [[[regs2 es2] st2]|] eqn:E2; [|discriminate]. injection H as _ _ <-.
    apply sz_run_cmd in E1. apply IH in E2. lia.
Qed.

(* ------------------------------------------------------------------ command lists *)
Lemma run_cmds_inv Sc : forall cmds G G' st regs regs' ems st',
  wt_cmds Sc G cmds G' -> Inv Sc st regs G -> run st regs cmds = Some (regs', ems, st') -> small st' ->
  Inv Sc st' regs' G' /\ step st st'.
Proof.
  induction cmds as [|c r IH]; intros G G' st regs regs' ems st' Hwt HI E Hsm; inversion Hwt as [|? ? G1 ? ? Hc Hr]; subst; cbn [run] in E.
  - injection E as <- <- <-. split; [exact HI | apply step_refl; [exact (i_ok _ _ _ _ HI) | exact (i_ma _ _ _ _ HI)]].
  - destruct (run_cmd st regs c) as [[[new es1] st1]|] eqn:E1; [|discriminate].
    destruct (run st1 (regs ++ new) r) as [[[regs2 es2] st2]|] eqn:E2; [|discriminate]. injection E as <- <- <-.
    assert (Hsm1 : small st1) by (pose proof (sz_run _ _ _ _ _ _ E2); unfold small, sz in *; lia).
    destruct (run_cmd_inv Sc G c G1 st regs new es1 st1 Hc HI E1 Hsm1) as [HI1 Hst1].
    destruct (IH G1 G' st1 (regs ++ new) regs2 es2 st2 Hr HI1 E2 Hsm) as [HI2 Hst2].
    split; [exact HI2 | exact (step_trans _ _ _ Hst1 Hst2)].
Qed.

Lemma run_app : forall a b st regs regs' es st',
  run st regs (a ++ b) = Some (regs', es, st') ->
  exists regs1 es1 st1 es2, run st regs a = Some (regs1, es1, st1) /\ run st1 regs1 b = Some (regs', es2, st') /\ es = es1 ++ es2.
Proof.
  induction a as [|c r IH]; intros b st regs regs' es st' H.
  - cbn [app] in H. exists regs, [], st, es. split; [reflexivity|]. split; [exact H | reflexivity].
  - cbn [app run] in H. destruct (run_cmd st regs c) as [[[new e1] s1]|] eqn:E1; [|discriminate].
    destruct (run s1 (regs ++ new) (r ++ b)) as [[[regs2 e2] s2]|] eqn:E2; [|discriminate]. injection H as <- <- <-.
    destruct (IH _ _ _ _ _ _ E2) as (regs1 & es1 & st1 & es2 & Ha & Hb & He).
    exists regs1, (e1 ++ es1), st1, es2. cbn [run]. rewrite E1, Ha. split; [reflexivity|]. split; [exact Hb|].
    rewrite He, app_assoc. reflexivity.
Qed.

Lemma valid_same n Sc st st' M ty r v :
  vmem st = vmem st' -> e_start st = e_start st' -> valid n Sc st M ty r v -> valid n Sc st' M ty r v.
Proof.
  intros Hm He Hv o ds [Ho Hd]. rewrite <- Hm. apply Hv. split; [lia | exact Hd].
Qed.

Lemma set_min_align_0 st : 0 <= min_align st -> set_min_align st 0 = st.
Proof. intros H. unfold set_min_align. replace (min_align st <? 0) with false by lia. reflexivity. Qed.

Lemma ma_ok_nonneg st : ma_ok st -> 0 <= min_align st.
Proof. intros [->|H]; [lia | pose proof (pow2_pos _ H); lia]. Qed.

Lemma land_flags fl : 0 <= fl -> Z.land (Z.lor (Z.land fl 2) 0) 1 = 0 /\ Z.land (Z.lor (Z.land fl 2) 0) 2 = Z.land fl 2.
Proof.
  intros H. rewrite Z.lor_0_r. split.
  - rewrite <- Z.land_assoc. change (Z.land 2 1) with 0. apply Z.land_0_r.
  - rewrite <- Z.land_assoc. change (Z.land 2 2) with 2. reflexivity.
Qed.

(* ------------------------------------------------------------------ the whole build *)
Theorem build_decodes Sc sc R v ws n regs ems st :
  wt_script Sc sc R v ws n -> run init_state [] sc = Some (regs, ems, st) -> small st ->
  (forall ds0, Forall (fun d => d mod buffer_alignment st = 0) ds0 ->
     decode_mem n Sc R ws ds0 (mem_of_list (buffer_bytes st)) (lenZ (buffer_bytes st)) = Some v) /\
  pow2 (buffer_alignment st) /\ 4 <= buffer_alignment st.
Proof.
  intros Hwt E Hsm.
  inversion Hwt as [cl ba0 id0 pre id ba fl body r R' v' n' G1 G2 Hba0 Hpre Hbody Hroot Hba Hid Hfl]; subst.
  cbn [run run_cmd] in E. cbn [app] in E.
  set (st0 := with_settings init_state cl ba0 id0) in E.
  destruct (run st0 [] (pre ++ CStartBuffer id ba fl :: body ++ [CEndBuffer r])) as [[[regs' es'] st']|] eqn:E0; [|discriminate].
  injection E as <- <- <-.
  assert (HI0 : Inv Sc st0 [] []).
  { constructor; cbn.
    - repeat split; cbn; lia.
    - left. reflexivity.
    - split; [reflexivity | intros ? ? ? []].
    - constructor.
    - reflexivity.
    - exact Hba0. }
  destruct (run_app _ _ _ _ _ _ _ E0) as (regs1 & es1 & st1 & es2 & Ea & Eb & _).
  assert (Hsm1 : small st1) by (pose proof (sz_run _ _ _ _ _ _ Eb); unfold small, sz in *; lia).
  destruct (run_cmds_inv Sc pre [] G1 st0 [] regs1 es1 st1 Hpre HI0 Ea Hsm1) as [HI1 Hst1].
  cbn [run run_cmd] in Eb.
  set (st2 := start_buffer st1 id ba fl) in Eb.
  destruct (run st2 (regs1 ++ []) (body ++ [CEndBuffer r])) as [[[regs2 es3] st3']|] eqn:Ec; [|discriminate].
  injection Eb as <- _ <-. rewrite app_nil_r in Ec.
  destruct (run_app _ _ _ _ _ _ _ Ec) as (regs3 & es4 & st3 & es5 & Ed & Ee & _).
  assert (Hnc1 : nest_count st1 = 0) by (destruct (s_ctl _ _ Hst1) as (_ & -> & _); reflexivity).
  pose proof HI1 as [Hok1 Hma1 Hc1 He1 Ht1 Hb1].
  assert (Hm2 : min_align st2 = if min_align st1 =? 0 then 1 else min_align st1).
  { subst st2. unfold start_buffer. cbn [with_buffer_frame min_align]. unfold is_top_buffer. rewrite Ht1. cbn. reflexivity. }
  assert (Hlvl2 : lvl_align st2 = lvl_align st1).
  { unfold lvl_align. rewrite Hm2. destruct (min_align st1 =? 0) eqn:X; [|reflexivity]. apply Z.eqb_eq in X. rewrite X. reflexivity. }
  assert (HI2 : Inv Sc st2 regs1 G1).
  { constructor.
    - exact Hok1.
    - unfold ma_ok. rewrite Hm2. destruct (min_align st1 =? 0); [right; apply pow2_1 | exact Hma1].
    - exact Hc1.
    - eapply Forall2_imp; [|exact He1]. intros x e. destruct e as [en|]; [|auto]. cbn. intros [Hx Hv]. split; [exact Hx|].
      rewrite Hlvl2. eapply valid_same; [| |exact Hv]; reflexivity.
    - subst st2. cbn. exact Hnc1.
    - subst st2. cbn. exact Hba. }
  assert (Hsm3 : small st3) by (pose proof (sz_run _ _ _ _ _ _ Ee); unfold small, sz in *; lia).
  destruct (run_cmds_inv Sc body G1 G2 st2 regs1 regs3 es4 st3 Hbody HI2 Ed Hsm3) as [HI3 Hst3].
  cbn [run run_cmd] in Ee.
  destruct (lookup_ok Sc st3 regs3 G2 r _ (i_ents _ _ _ _ HI3) Hroot) as (x & Hreg & Hx & Hv). cbn [en_ty en_val en_depth] in Hv.
  rewrite Hreg in Ee.
  destruct (end_buffer st3 x) as [[[ref es6] st4]|] eqn:Ef; [|discriminate]. cbn [many] in Ee. injection Ee as _ _ <-.
  pose proof HI3 as [Hok3 Hma3 Hc3 He3 Ht3 Hb3].
  destruct (s_ctl _ _ Hst3) as (Hnid & Hnc & Hmk & Hidn & Hbal & Hbf & Hcl & Hfr).
  unfold end_buffer in Ef. rewrite Hfr in Ef. subst st2. cbn [start_buffer with_buffer_frame frames] in Ef.
  unfold is_top_buffer in Ef. rewrite Ht3 in Ef. cbn [Z.eqb] in Ef.
  cbn [start_buffer with_buffer_frame block_align buffer_flags ident] in Hbal, Hbf, Hidn.
  assert (Hmin3 : 1 <= min_align st3).
  { pose proof (s_min _ _ Hst3) as Hle. rewrite Hm2 in Hle. pose proof (ma_ok_nonneg _ Hma1). destruct (min_align st1 =? 0) eqn:X; lia. }
  assert (Hst4 : step st3 (set_min_align st3 (block_align st3)) /\ 1 <= min_align (set_min_align st3 (block_align st3))).
  { rewrite Hbal. destruct Hba as [->|Hpb].
    - rewrite set_min_align_0 by lia. split; [apply step_refl; assumption | exact Hmin3].
    - pose proof (step_set_min_align st3 ba Hok3 Hma3 Hpb) as Hs. split; [exact Hs | pose proof (s_min _ _ Hs); lia]. }
  destruct Hst4 as [Hst4 Hmin4].
  remember (set_min_align st3 (block_align st3)) as st3b eqn:Est3b.
  assert (Hctl4 : same_ctl st3 st3b) by exact (s_ctl _ _ Hst4).
  destruct Hctl4 as (Hnid4 & _ & _ & Hidn4 & Hbal4 & Hbf4 & _).
  destruct (create_buffer st3b (ident st3b) (block_align st3b) x (min_align st3b) _) as [[[ref5 es7] st5]|] eqn:Eg; [|discriminate].
  injection Ef as _ _ <-.
  assert (Hpm : pow2 (min_align st3b)) by (destruct (s_ma _ _ Hst4) as [X|X]; [lia | exact X]).
  assert (Hc3b : cache_ok st3b).
  { subst st3b. destruct (set_min_align_fields st3 (block_align st3)) as (_ & Hee & _ & _ & Hcc & _). eapply cache_ok_step; eauto. }
  assert (Hu16 : u16 fl = fl) by (apply u16_id; exact Hfl).
  rewrite Hbf, Hu16 in Eg.
  destruct (land_flags fl ltac:(lia)) as [Hl1 Hl2].
  assert (Hx' : e_start st3b <= x < 0) by (pose proof (s_start _ _ Hst4); lia).
  assert (Hsm5 : small st5) by (unfold small in *; exact Hsm).
  destruct (create_buffer_top n Sc st3b (ident st3b) (block_align st3b) x (min_align st3b) _ R v ref5 es7 st5
              (s_ok _ _ Hst4) (s_ma _ _ Hst4) Hc3b Hpm ltac:(lia)
              ltac:(rewrite Hbal4, Hbal; exact Hba) ltac:(rewrite Hbal4, Hbal; exact Hba)
              ltac:(rewrite Hidn4, Hidn; exact Hid) Hl1 Hx'
              (step_valid _ _ _ _ _ _ _ Hma3 Hst4 Hv) Eg Hsm5)
    as (Hok5 & Hs5 & Hp5 & H45 & Hle5 & Hrm5 & Hdec & _).
  (* the restored frame does not lower the alignment *)
  assert (Hfm : min_align st1 <= min_align st5).
  { pose proof (s_min _ _ Hst3) as A. pose proof (s_min _ _ Hst4) as B. rewrite Hm2 in A.
    destruct (min_align st1 =? 0) eqn:X; lia. }
  unfold buffer_alignment, buffer_bytes in *. cbn [with_buffer_frame min_align front back f_min_align].
  replace (min_align st5 <? min_align st1) with false by lia.
  split; [|split; [exact Hp5 | exact H45]].
  intros ds0 Hds0. rewrite <- Hl2. apply Hdec. exact Hds0.
Qed.

(* ------------------------------------------------------------------ the statements of C02 / C03 *)
Corollary build_decode Sc sc R v ws n regs ems st :
  wt_script Sc sc R v ws n -> run init_state [] sc = Some (regs, ems, st) -> small st ->
  decode_root n Sc R ws (buffer_bytes st) = Some v.
Proof.
  intros Hwt E Hsm. destruct (build_decodes Sc sc R v ws n regs ems st Hwt E Hsm) as [H _].
  unfold decode_root. apply H. constructor.
Qed.

Corollary build_wf Sc sc R v ws n regs ems st :
  wt_script Sc sc R v ws n -> run init_state [] sc = Some (regs, ems, st) -> small st ->
  wf n Sc R ws (buffer_bytes st) = true /\
  wf_aligned n Sc R ws (buffer_alignment st) (buffer_bytes st) = true /\
  pow2 (buffer_alignment st) /\ 4 <= buffer_alignment st.
Proof.
  intros Hwt E Hsm. destruct (build_decodes Sc sc R v ws n regs ems st Hwt E Hsm) as (H & Hp & H4).
  pose proof (H [] (Forall_nil _)) as H0. unfold lenZ in H0.
  assert (HA : Forall (fun d => d mod buffer_alignment st = 0) [buffer_alignment st]).
  { constructor; [|constructor]. apply Z.mod_same. pose proof (pow2_pos _ Hp). lia. }
  pose proof (H _ HA) as H1. unfold lenZ in H1.
  split; [unfold wf, decode_root; rewrite H0; reflexivity|].
  split; [unfold wf_aligned; rewrite H1; reflexivity | auto].
Qed.

