(* C12/C02 leaves (T5): alignup_uoffset, front_pad, back_pad and the range tests at the head of emit_front / emit_back,
   as TRANSLATED from the current src/runtime/builder.c (Flatcc.Generated.Leaf_builder), equal the hand-written
   functions of Builder/EmitModel.v for all arguments in the ranges of the C types (conventions: LeafConvB.v). *)
From Flatcc.Verifier Require Import LeafTac.
From Flatcc.Builder Require Import EmitModel LeafConvB.
From Flatcc.Generated Require Import Leaf_builder.
From Coq Require Import ZifyBool.
Local Open Scope Z_scope.
Ltac Zify.zify_post_hook ::= Z.div_mod_to_equations.

(* x & m stays within the range of a non-negative x *)
Lemma land_u32 a b : u32 (Z.land a b) = Z.land (u32 a) (u32 b).
Proof.
  unfold u32. change 4294967296 with (2 ^ 32). rewrite <- !Z.land_ones by lia.
  apply Z.bits_inj'. intros n Hn. rewrite !Z.land_spec. destruct (Z.testbit a n), (Z.testbit b n), (Z.testbit (Z.ones 32) n); reflexivity.
Qed.

Lemma c_front_pad_eq st size align : in_s32 (e_start st) -> in_u32 size -> pow2_16 align ->
  c_front_pad (B_of st) size align = front_pad st size align.
Proof.
  unfold in_s32, in_u32. intros Hs Hz Ha. unfold c_front_pad, front_pad, B_of, s32, u32. cbn [B_emit_start].
  leaf_auto.
Qed.

Lemma c_back_pad_eq st align : in_s32 (e_end st) -> pow2_16 align ->
  c_back_pad (B_of st) align = back_pad st align.
Proof.
  unfold in_s32. intros Hs Ha. unfold c_back_pad, back_pad, B_of, s32, u32. cbn [B_emit_end].
  leaf_auto.
Qed.

(* the C receives align as size_t and narrows it to uoffset_t; same mask, same sum modulo 2^32 *)
Lemma c_alignup_uoffset_eq x align : in_u32 x -> pow2_16 align ->
  c_alignup_uoffset x align = alignup x align.
Proof.
  intros Hx Ha. pose proof (pow2_16_bound align Ha) as Hb. unfold in_u32 in Hx.
  unfold c_alignup_uoffset, alignup.
  rewrite (u32_id align) by (unfold in_u32; lia).
  rewrite land_u32. f_equal.
  - unfold u32. lia.
  - unfold u32. rewrite Z.mod_mod by lia. reflexivity.
Qed.

Lemma c_emit_front_guard_eq st len count : in_s32 (e_start st) -> in_u64 len ->
  c_emit_front_guard (B_of st) (iov_of len count) = emit_front_guard st len.
Proof.
  unfold in_s32, in_u64. intros Hs Hl.
  unfold c_emit_front_guard, emit_front_guard, B_of, iov_of, SOFFSET_MAX, SOFFSET_MIN, s64, s32, u64, u32.
  cbn [B_emit_start iov_len].
  leaf_auto.
Qed.

Lemma c_emit_back_guard_eq st len count : in_s32 (e_end st) -> in_u64 len ->
  c_emit_back_guard (B_of st) (iov_of len count) = emit_back_guard st len.
Proof.
  unfold in_s32, in_u64. intros Hs Hl.
  unfold c_emit_back_guard, emit_back_guard, B_of, iov_of, SOFFSET_MAX, SOFFSET_MIN, s64, s32, u64, u32.
  cbn [B_emit_end iov_len].
  leaf_auto.
Qed.

(* the guards are what decides whether the model's emit_front / emit_back fail *)
Lemma emit_front_fails_iff st bytes count : in_s32 (e_start st) -> in_u64 (lenZ bytes) ->
  (emit_front st bytes = None <-> c_emit_front_guard (B_of st) (iov_of (lenZ bytes) count) = true).
Proof.
  intros Hs Hl. rewrite c_emit_front_guard_eq by assumption. unfold emit_front, emit_front_guard. cbv zeta.
  destruct ((lenZ bytes =? 0) || (SOFFSET_MAX <? lenZ bytes) || (e_start st - lenZ bytes <? SOFFSET_MIN)); split; congruence.
Qed.

Lemma emit_back_fails_iff st bytes count : in_s32 (e_end st) -> in_u64 (lenZ bytes) ->
  (emit_back st bytes = None <-> c_emit_back_guard (B_of st) (iov_of (lenZ bytes) count) = true).
Proof.
  intros Hs Hl. rewrite c_emit_back_guard_eq by assumption. unfold emit_back, emit_back_guard. cbv zeta.
  destruct ((e_end st <? 0) || (SOFFSET_MAX - e_end st <? lenZ bytes)); split; congruence.
Qed.

Lemma leafB_example :
  pow2_16 8 /\ c_front_pad (B_of (st_of (-5) 0)) 6 8 = 5 /\ c_back_pad (B_of (st_of 0 13)) 4 = 1 /\
  c_alignup_uoffset 13 8 = 16 /\ c_emit_front_guard (B_of (st_of (-2147483640) 0)) (iov_of 9 1) = true /\
  c_emit_front_guard (B_of (st_of (-2147483640) 0)) (iov_of 8 1) = false /\
  c_emit_back_guard (B_of (st_of 0 2147483640)) (iov_of 8 1) = true /\
  c_emit_back_guard (B_of (st_of 0 2147483640)) (iov_of 7 1) = false.
Proof.
  split; [unfold pow2_16; cbn [In]; tauto|]. repeat split; vm_compute; reflexivity.
Qed.
