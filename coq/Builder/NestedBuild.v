(* The whole-build theorems for scripts with union vectors and nested buffers. *)
From Flatcc.Format Require Import Schema Spec SpecProofs.
From Flatcc.Builder Require Import EmitModel VMem Objects Leaves OffVec TableLayout Table Buffer Script ScriptProofs.
From Flatcc.Builder Require Import NestedBase NestedLeaves UnionVecLeaves NestedTable NestedBuffer NestedScript.
From Coq Require Import ZifyBool Znumtheory.
Local Open Scope Z_scope.
Ltac Zify.zify_post_hook ::= Z.div_mod_to_equations.

(* flatcc_builder_create_buffer at top level only adds bytes *)
Lemma create_buffer_top_step st id b_align root align flags ref es st' :
  st_ok st -> ma_ok st -> cache_ok st -> pow2 align -> balign_ok b_align -> balign_ok (block_align st) ->
  Z.land flags 1 = 0 ->
  create_buffer st id b_align root align flags = Some (ref, es, st') -> small st' -> step st st'.
Proof.
  intros Hok Hma Hc Hal Hb Hbs Hfl E Hsm. unfold create_buffer in E.
  rewrite Hfl in E. cbn [Z.eqb negb orb] in E.
  destruct (align_buffer_end st align b_align false) as [[[al es0] st1]|] eqn:Ea; [|discriminate].
  destruct (emit_front (set_min_align st1 al) _) as [[[r e] st3]|] eqn:Ef; [|discriminate].
  injection E as <- <- <-.
  assert (Hsm2 : small (set_min_align st1 al)) by (eapply emit_front_small; eauto).
  assert (Hsm1 : small st1) by (apply (small_set_min_align st1 al); exact Hsm2).
  destruct (align_buffer_end_top st align b_align al es0 st1 Hok Hma Hc Hal Hb Hbs Ea Hsm1) as (Hst1 & Hpal & _).
  pose proof (step_set_min_align st1 al (s_ok _ _ Hst1) (s_ma _ _ Hst1) Hpal) as Hst2.
  destruct (step_emit_front _ _ _ _ _ (s_ok _ _ Hst2) (s_ma _ _ Hst2) Ef Hsm) as (Hst3 & _).
  exact (step_trans _ _ _ Hst1 (step_trans _ _ _ Hst2 Hst3)).
Qed.

Lemma xwt_cmd_not_start Sc G c G' : xwt_cmd Sc G c G' -> is_start c = 0.
Proof. inversion 1; reflexivity. Qed.

Lemma xwt_cmds_no_block Sc G cmds G' N : xwt_cmds Sc false G cmds G' N -> count_starts cmds = 0 /\ N = [].
Proof.
  induction 1 as [G | G c G1 r G2 N Hc Hr IH | ]; [split; reflexivity | | discriminate].
  destruct IH as [IH1 IH2]. cbn [count_starts]. rewrite (xwt_cmd_not_start _ _ _ _ Hc), IH1. split; [reflexivity | exact IH2].
Qed.

(* ------------------------------------------------------------------ the whole build *)
Theorem xbuild_decodes Sc sc R v ws n N regs ems st :
  xwt_script Sc sc R v ws n N -> count_starts sc <= U32_MAX ->
  run init_state [] sc = Some (regs, ems, st) -> small st ->
  (forall ds0, Forall (fun d => d mod buffer_alignment st = 0) ds0 ->
     decode_mem n Sc R ws ds0 (mem_of_list (buffer_bytes st)) (lenZ (buffer_bytes st)) = Some v) /\
  pow2 (buffer_alignment st) /\ 4 <= buffer_alignment st /\
  st_ok st /\ e_start st mod buffer_alignment st = 0 /\
  Forall (nested_ok Sc st regs) N.
Proof.
  intros Hwt Hcnt E Hsm.
  inversion Hwt as [cl ba0 id0 pre id ba fl body r R' v' n' G1 G2 N1 N2 Hba0 Hpre Hbody Hroot Hba Hid Hfl]; subst.
  cbn [count_starts is_start] in Hcnt. rewrite count_starts_app in Hcnt. cbn [count_starts is_start] in Hcnt.
  rewrite count_starts_app in Hcnt. cbn [count_starts is_start] in Hcnt.
  destruct (xwt_cmds_no_block _ _ _ _ _ Hpre) as [Hcp _].
  pose proof (count_starts_nonneg body) as Hcb.
  cbn [run run_cmd] in E. cbn [app] in E.
  set (st0 := with_settings init_state cl ba0 id0) in E.
  destruct (run st0 [] (pre ++ CStartBuffer id ba fl :: body ++ [CEndBuffer r])) as [[[regs' es'] st']|] eqn:E0; [|discriminate].
  injection E as <- <- <-.
  assert (HI0 : XInv Sc st0 [] []).
  { constructor; cbn.
    - repeat split; cbn; lia.
    - left. reflexivity.
    - unfold win_ok; cbn; lia.
    - unfold lvls_ok, nid_ok; cbn. repeat split; try lia; constructor.
    - split; [reflexivity | intros ? ? ? []].
    - constructor.
    - exact Hba0. }
  destruct (run_app _ _ _ _ _ _ _ E0) as (regs1 & es1 & st1 & es2 & Ea & Eb & _).
  assert (Hsm1 : small st1) by (pose proof (sz_run _ _ _ _ _ _ Eb); unfold small, sz in *; lia).
  destruct (xrun_cmds_inv Sc false [] pre G1 N1 Hpre st0 [] regs1 es1 st1 HI0 ltac:(discriminate) ltac:(cbn; unfold U32_MAX; lia) Ea Hsm1)
    as (HI1 & Hst1 & _ & _ & Hnc1le).
  cbn [run run_cmd] in Eb.
  set (st2 := start_buffer st1 id ba fl) in Eb.
  destruct (run st2 (regs1 ++ []) (body ++ [CEndBuffer r])) as [[[regs2 es3] st3']|] eqn:Ec; [|discriminate].
  injection Eb as <- _ <-. rewrite app_nil_r in Ec.
  destruct (run_app _ _ _ _ _ _ _ Ec) as (regs3 & es4 & st3 & es5 & Ed & Ee & _).
  pose proof HI1 as [Hok1 Hma1 Hwin1 Hlv1 Hc1 He1 Hb1].
  destruct (x_ctl _ _ Hst1) as (Hnid1 & _).
  assert (Ht1 : nest_id st1 = 0) by (rewrite Hnid1; reflexivity).
  assert (Hnc1 : nest_count st1 = 0).
  { destruct Hlv1 as (H0 & _). change (nest_count st0) with 0 in Hnc1le. lia. }
  destruct (start_buffer_levels st1 id ba fl Hok1 Hwin1 Hlv1 Hc1 ltac:(unfold U32_MAX; lia)) as (Hwin2 & Hlv2 & Hc2 & Hnid2 & Hncount2).
  fold st2 in Hwin2, Hlv2, Hc2, Hnid2, Hncount2.
  assert (Hm2 : min_align st2 = if min_align st1 =? 0 then 1 else min_align st1).
  { subst st2. unfold start_buffer. cbn [with_buffer_frame min_align]. unfold is_top_buffer. rewrite Ht1. cbn. reflexivity. }
  assert (Hlvl2 : lvl_align st2 = lvl_align st1).
  { unfold lvl_align. rewrite Hm2. destruct (min_align st1 =? 0) eqn:X; [|reflexivity]. apply Z.eqb_eq in X. rewrite X. reflexivity. }
  assert (HI2 : XInv Sc st2 regs1 G1).
  { constructor.
    - exact Hok1.
    - unfold ma_ok. rewrite Hm2. destruct (min_align st1 =? 0); [right; apply pow2_1 | exact Hma1].
    - exact Hwin2.
    - exact Hlv2.
    - exact Hc2.
    - eapply Forall2_imp; [|exact He1]. intros x e. destruct e as [en|]; [|auto]. cbn. intros [Hx Hv]. split; [exact Hx|].
      rewrite Hlvl2. eapply xvalid_mono; [apply le_n | | | apply lvl_pos | apply Z.divide_refl | apply lvl_pos | exact Hv].
      + intros a bb. unfold wmem, in_win. rewrite Ht1, Hnid2, Hnc1. cbn [Z.eqb orb]. auto.
      + change (e_start st2) with (e_start st1). lia.
    - subst st2. cbn. exact Hba. }
  assert (Hsm3 : small st3) by (pose proof (sz_run _ _ _ _ _ _ Ee); unfold small, sz in *; lia).
  destruct (xrun_cmds_inv Sc true G1 body G2 N Hbody st2 regs1 regs3 es4 st3 HI2 ltac:(intros _; lia) ltac:(lia) Ed Hsm3)
    as (HI3 & Hst3 & _ & HN3 & _).
  cbn [run run_cmd] in Ee.
  destruct (xlookup_ok Sc st3 regs3 G2 r _ (xi_ents _ _ _ _ HI3) Hroot) as (x & Hreg & Hx & Hv). cbn [xe_ty xe_val xe_depth] in Hv.
  rewrite Hreg in Ee.
  destruct (end_buffer st3 x) as [[[ref es6] st4]|] eqn:Ef; [|discriminate]. cbn [many] in Ee. injection Ee as <- _ <-.
  pose proof HI3 as [Hok3 Hma3 Hwin3 Hlv3 Hc3 He3 Hb3].
  destruct (x_ctl _ _ Hst3) as (Hnid & Hnc & Hmk & Hidn & Hbal & Hbf & Hcl & Hfr).
  assert (Ht3 : nest_id st3 = 0) by (rewrite Hnid, Hnid2; exact Hnc1).
  unfold end_buffer in Ef. rewrite Hfr in Ef. subst st2. cbn [start_buffer with_buffer_frame frames] in Ef.
  unfold is_top_buffer in Ef. rewrite Ht3 in Ef. cbn [Z.eqb] in Ef.
  cbn [start_buffer with_buffer_frame block_align buffer_flags ident] in Hbal, Hbf, Hidn.
  assert (Hmin3 : 1 <= min_align st3).
  { pose proof (x_min _ _ Hst3) as Hle. rewrite Hm2 in Hle. pose proof (ma_ok_nonneg _ Hma1). destruct (min_align st1 =? 0) eqn:X; lia. }
  assert (Hst4 : step st3 (set_min_align st3 (block_align st3)) /\ 1 <= min_align (set_min_align st3 (block_align st3))).
  { rewrite Hbal. destruct Hba as [->|Hpb].
    - rewrite set_min_align_0 by lia. split; [apply step_refl; assumption | exact Hmin3].
    - pose proof (step_set_min_align st3 ba Hok3 Hma3 Hpb) as Hs. split; [exact Hs | pose proof (s_min _ _ Hs); lia]. }
  destruct Hst4 as [Hst4 Hmin4].
  remember (set_min_align st3 (block_align st3)) as st3b eqn:Est3b.
  assert (Hctl4 : same_ctl st3 st3b) by exact (s_ctl _ _ Hst4).
  destruct Hctl4 as (Hnid4 & _ & _ & Hidn4 & Hbal4 & Hbf4 & _).
  destruct (create_buffer st3b (ident st3b) (block_align st3b) x (min_align st3b) _) as [[[ref5 es7] st5]|] eqn:Eg; [|discriminate].
  injection Ef as _ _ <-.
  assert (Hpm : pow2 (min_align st3b)) by (destruct (s_ma _ _ Hst4) as [X|X]; [lia | exact X]).
  assert (Hc3b : cache_ok st3b).
  { apply xcache_cache. subst st3b. destruct (set_min_align_fields st3 (block_align st3)) as (_ & Hee & _ & _ & Hcc & _). eapply xcache_ok_step; eauto. }
  assert (Hu16 : u16 fl = fl) by (apply u16_id; exact Hfl).
  rewrite Hbf, Hu16 in Eg.
  destruct (land_flags fl ltac:(lia)) as [Hl1 Hl2].
  assert (Hx' : e_start st3b <= x < 0) by (pose proof (s_start _ _ Hst4); lia).
  assert (Hsm5 : small st5) by (unfold small in *; exact Hsm).
  assert (Hvold : valid n Sc st3b (lvl_align st3b) (root_oty R) x v).
  { apply xvalid_valid_top; [rewrite Hnid4; exact Ht3|]. exact (step_xvalid _ _ _ _ _ _ _ Hma3 Hst4 Hv). }
  destruct (create_buffer_top n Sc st3b (ident st3b) (block_align st3b) x (min_align st3b) _ R v ref5 es7 st5
              (s_ok _ _ Hst4) (s_ma _ _ Hst4) Hc3b Hpm ltac:(lia)
              ltac:(rewrite Hbal4, Hbal; exact Hba) ltac:(rewrite Hbal4, Hbal; exact Hba)
              ltac:(rewrite Hidn4, Hidn; exact Hid) Hl1 Hx' Hvold Eg Hsm5)
    as (Hok5 & Hs5 & Hp5 & H45 & Hle5 & Hrm5 & Hdec & _).
  pose proof (create_buffer_top_step st3b (ident st3b) (block_align st3b) x (min_align st3b) _ ref5 es7 st5
              (s_ok _ _ Hst4) (s_ma _ _ Hst4) Hc3b Hpm
              ltac:(rewrite Hbal4, Hbal; exact Hba) ltac:(rewrite Hbal4, Hbal; exact Hba) Hl1 Eg Hsm5) as Hst5.
  (* the restored frame does not lower the alignment *)
  assert (Hfm : min_align st1 <= min_align st5).
  { pose proof (x_min _ _ Hst3) as A. pose proof (s_min _ _ Hst4) as B. rewrite Hm2 in A.
    destruct (min_align st1 =? 0) eqn:X; lia. }
  unfold buffer_alignment, buffer_bytes in *. cbn [with_buffer_frame min_align front back f_min_align e_start].
  replace (min_align st5 <? min_align st1) with false by lia.
  split; [intros ds0 Hds0; rewrite <- Hl2; apply Hdec; exact Hds0|].
  split; [exact Hp5|]. split; [exact H45|].
  split; [exact Hok5|]. split; [rewrite Hs5; exact Hrm5|].
  eapply Forall_nested_mono; [| | |exact HN3].
  - intros a bb Hab. apply (s_ext _ _ Hst5), (s_ext _ _ Hst4). exact Hab.
  - cbn [with_buffer_frame e_start]. pose proof (s_start _ _ Hst5). pose proof (s_start _ _ Hst4). lia.
  - cbn [with_buffer_frame min_align]. pose proof (s_min _ _ Hst5). pose proof (s_min _ _ Hst4). lia.
Qed.

(* ------------------------------------------------------------------ byte-level view of the finished buffer *)
Definition sub (l : list Z) (off len : Z) : list Z := firstn (Z.to_nat len) (skipn (Z.to_nat off) l).

Lemma skipn_nth {A} (l : list A) : forall n b, nth_error l n = Some b -> skipn n l = b :: skipn (S n) l.
Proof.
  induction l as [|a t IH]; intros n b H; destruct n; try discriminate.
  - cbn in H. injection H as <-. reflexivity.
  - cbn [nth_error] in H. cbn [skipn]. rewrite (IH n b H). reflexivity.
Qed.

Lemma mem_has_sub l : forall ext a, 0 <= a -> mem_has (mem_of_list l) a ext -> sub l a (lenZ ext) = ext.
Proof.
  unfold sub, lenZ. induction ext as [|b t IH]; intros a Ha H; [rewrite Nat2Z.id; reflexivity|].
  rewrite Nat2Z.id. cbn [length firstn].
  pose proof (H 0%nat ltac:(cbn; lia)) as H0. cbn [nth_error] in H0. rewrite Z.add_0_r in H0.
  unfold mem_of_list in H0. replace (a <? 0) with false in H0 by lia.
  rewrite (skipn_nth l _ b H0). cbn [firstn]. f_equal.
  specialize (IH (a + 1) ltac:(lia)). rewrite Nat2Z.id in IH. replace (Z.to_nat (a + 1)) with (S (Z.to_nat a)) in IH by lia.
  apply IH. intros i Hi. replace (a + 1 + Z.of_nat i) with (a + Z.of_nat (S i)) by lia. apply (H (S i)). cbn. lia.
Qed.

Lemma vmem_has_bytes st a ext : st_ok st -> e_start st <= a -> mem_has (vmem st) a ext ->
  sub (buffer_bytes st) (a - e_start st) (lenZ ext) = ext.
Proof.
  intros Hok Ha H. apply mem_has_sub; [lia|].
  eapply mem_has_mle; [eapply mle_trans; [apply (vmem_bytes st Hok) | apply mle_restrict_sub] | | exact H]. lia.
Qed.

(* what the finished parent shows about a nested buffer: [off] is the offset of the vector content in the finished bytes *)
Definition nested_in_bytes (Sc : schema) (l : list Z) (A_parent : Z) (rc : nrec) : Prop :=
  let '(ri, R, v, k) := rc in
  exists off A ext,
    4 <= off /\ sub l (off - 4) 4 = le32 (lenZ ext) /\ sub l off (lenZ ext) = ext /\
    decode_root k Sc R false ext = Some v /\ wf k Sc R false ext = true /\ wf_aligned k Sc R false A ext = true /\
    pow2 A /\ 4 <= A /\ off mod A = 0 /\ A <= A_parent /\ (A | A_parent).

Lemma nested_ok_bytes Sc st regs rc :
  st_ok st -> pow2 (buffer_alignment st) -> e_start st mod buffer_alignment st = 0 ->
  nested_ok Sc st regs rc -> nested_in_bytes Sc (buffer_bytes st) (buffer_alignment st) rc.
Proof.
  intros Hok Hp Hes (x & A & ext & H). destruct rc as [[[ri R] v] k]. cbn [nested_at nested_in_bytes] in *.
  destruct H as (Hr & Hx & Hhi & Hl & Hext & HpA & HA4 & HAm & Hmod & Hdec).
  unfold buffer_alignment in *.
  assert (Hdiv : (A | min_align st)) by (apply pow2_le_divide; assumption).
  exists (x + 4 - e_start st), A, ext.
  split; [lia|]. split.
  { replace (x + 4 - e_start st - 4) with (x - e_start st) by ring.
    apply (vmem_has_bytes st x (le32 (lenZ ext)) Hok Hx Hl). }
  split; [apply (vmem_has_bytes st (x + 4) ext Hok ltac:(lia) Hext)|].
  pose proof (Hdec [] (Forall_nil _)) as H0.
  assert (HA : Forall (fun d => d mod A = 0) [A]).
  { constructor; [|constructor]. apply Z.mod_same. pose proof (pow2_pos _ HpA). lia. }
  pose proof (Hdec [A] HA) as H1.
  split; [exact H0|]. split; [unfold wf, decode_root; unfold lenZ in H0; rewrite H0; reflexivity|].
  split; [unfold wf_aligned; unfold lenZ in H1; rewrite H1; reflexivity|].
  split; [exact HpA|]. split; [exact HA4|]. split; [|split; [exact HAm | exact Hdiv]].
  assert (He : e_start st mod A = 0).
  { eapply mod_divide_trans; [apply pow2_pos, HpA | exact Hdiv | apply pow2_pos, Hp | exact Hes]. }
  pose proof (pow2_pos _ HpA). rewrite Zminus_mod, Hmod, He by lia. reflexivity.
Qed.

(* ------------------------------------------------------------------ the statements *)
Corollary xbuild_decode Sc sc R v ws n N regs ems st :
  xwt_script Sc sc R v ws n N -> count_starts sc <= U32_MAX -> run init_state [] sc = Some (regs, ems, st) -> small st ->
  decode_root n Sc R ws (buffer_bytes st) = Some v.
Proof.
  intros Hwt Hc E Hsm. destruct (xbuild_decodes Sc sc R v ws n N regs ems st Hwt Hc E Hsm) as [H _].
  unfold decode_root. apply H. constructor.
Qed.

Corollary xbuild_wf Sc sc R v ws n N regs ems st :
  xwt_script Sc sc R v ws n N -> count_starts sc <= U32_MAX -> run init_state [] sc = Some (regs, ems, st) -> small st ->
  wf n Sc R ws (buffer_bytes st) = true /\
  wf_aligned n Sc R ws (buffer_alignment st) (buffer_bytes st) = true /\
  pow2 (buffer_alignment st) /\ 4 <= buffer_alignment st.
Proof.
  intros Hwt Hc E Hsm. destruct (xbuild_decodes Sc sc R v ws n N regs ems st Hwt Hc E Hsm) as (H & Hp & H4 & _).
  pose proof (H [] (Forall_nil _)) as H0. unfold lenZ in H0.
  assert (HA : Forall (fun d => d mod buffer_alignment st = 0) [buffer_alignment st]).
  { constructor; [|constructor]. apply Z.mod_same. pose proof (pow2_pos _ Hp). lia. }
  pose proof (H _ HA) as H1. unfold lenZ in H1.
  split; [unfold wf, decode_root; rewrite H0; reflexivity|].
  split; [unfold wf_aligned; rewrite H1; reflexivity | auto].
Qed.

Corollary xbuild_nested Sc sc R v ws n N regs ems st :
  xwt_script Sc sc R v ws n N -> count_starts sc <= U32_MAX -> run init_state [] sc = Some (regs, ems, st) -> small st ->
  Forall (nested_in_bytes Sc (buffer_bytes st) (buffer_alignment st)) N.
Proof.
  intros Hwt Hc E Hsm. destruct (xbuild_decodes Sc sc R v ws n N regs ems st Hwt Hc E Hsm) as (_ & Hp & _ & Hok & Hes & HN).
  eapply Forall_impl; [|exact HN]. intros rc. apply nested_ok_bytes; assumption.
Qed.
