(* The builder's virtual address space: what the emitter has received so far, as a memory indexed by
   flatcc_builder_ref_t values.  front emits prepend, back emits append: nothing already emitted ever changes. *)
From Flatcc.Format Require Import Schema Spec SpecProofs.
From Flatcc.Builder Require Import EmitModel.
From Coq Require Import ZifyBool Znumtheory.
Local Open Scope Z_scope.
Ltac Zify.zify_post_hook ::= Z.div_mod_to_equations.

Definition vmem (st : est) : mem := fun a =>
  if a <? 0 then (if e_start st <=? a then nth_error (front st) (Z.to_nat (a - e_start st)) else None)
  else nth_error (back st) (Z.to_nat a).

(* the emit cursor agrees with what was emitted and lies in the int32 range *)
Definition st_ok (st : est) : Prop :=
  e_start st = - lenZ (front st) /\ e_end st = lenZ (back st) /\ - 2147483648 <= e_start st /\ e_end st < 2147483648.

Definition small (st : est) : Prop := lenZ (front st) + lenZ (back st) < 2147483648.

(* memory m holds the byte list l at address a *)
Definition mem_has (m : mem) (a : Z) (l : list Z) : Prop :=
  forall i, (i < length l)%nat -> m (a + Z.of_nat i) = nth_error l i.

Definition mext (m m' : mem) : Prop := forall a b, m a = Some b -> m' a = Some b.

Lemma mext_refl m : mext m m. Proof. intros a b H; exact H. Qed.
Lemma mext_trans m1 m2 m3 : mext m1 m2 -> mext m2 m3 -> mext m1 m3.
Proof. intros A B a b H. apply B, A, H. Qed.
Lemma mext_mle m m' o : mext m m' -> mle m o m' o.
Proof. intros H i b E. apply H, E. Qed.

Lemma lenZ_app (a b : list Z) : lenZ (a ++ b) = lenZ a + lenZ b.
Proof. unfold lenZ. rewrite app_length. lia. Qed.
Lemma lenZ_nonneg (a : list Z) : 0 <= lenZ a.
Proof. unfold lenZ. lia. Qed.
Lemma lenZ_zeros n : 0 <= n -> lenZ (zeros n) = n.
Proof. intros. unfold lenZ, zeros. rewrite repeat_length. lia. Qed.
Lemma lenZ_le32 x : lenZ (le32 x) = 4. Proof. reflexivity. Qed.
Lemma lenZ_le16 x : lenZ (le16 x) = 2. Proof. reflexivity. Qed.

Lemma mem_has_ext m m' a l : mext m m' -> mem_has m a l -> mem_has m' a l.
Proof.
  intros H Hm i Hi. specialize (Hm i Hi).
  destruct (nth_error l i) eqn:E.
  - apply H. exact Hm.
  - apply nth_error_None in E. lia.
Qed.

Lemma mem_has_app m a l1 l2 : mem_has m a (l1 ++ l2) <-> mem_has m a l1 /\ mem_has m (a + lenZ l1) l2.
Proof.
  unfold mem_has, lenZ. split.
  - intros H. split; intros i Hi.
    + rewrite (H i) by (rewrite app_length; lia). apply nth_error_app1. exact Hi.
    + replace (a + Z.of_nat (length l1) + Z.of_nat i) with (a + Z.of_nat (length l1 + i)) by lia.
      rewrite (H (length l1 + i)%nat) by (rewrite app_length; lia).
      rewrite nth_error_app2 by lia. f_equal. lia.
  - intros [H1 H2] i Hi. rewrite app_length in Hi.
    destruct (Nat.lt_ge_cases i (length l1)) as [Hlt|Hge].
    + rewrite nth_error_app1 by exact Hlt. apply H1. exact Hlt.
    + rewrite nth_error_app2 by exact Hge.
      rewrite <- (H2 (i - length l1)%nat) by lia. f_equal. lia.
Qed.

Lemma mem_has_nil m a : mem_has m a [].
Proof. intros i Hi. cbn in Hi. lia. Qed.

Lemma mem_has_byte m a l i b : mem_has m a l -> nth_error l i = Some b -> m (a + Z.of_nat i) = Some b.
Proof.
  intros H E. rewrite (H i); [exact E|]. apply nth_error_Some. congruence.
Qed.

Lemma mem_has_rdbytes m l : forall a, mem_has m a l -> mrdbytes m a (length l) = Some l.
Proof.
  induction l as [|b t IH]; intros a H; cbn [mrdbytes length]; [reflexivity|].
  pose proof (H 0%nat ltac:(cbn; lia)) as H0. cbn in H0. rewrite Z.add_0_r in H0. rewrite H0. cbn [bind].
  rewrite IH; [reflexivity|].
  intros i Hi. replace (a + 1 + Z.of_nat i) with (a + Z.of_nat (S i)) by lia.
  rewrite (H (S i)) by (cbn; lia). reflexivity.
Qed.

Lemma mem_has_le32 m a x : in_u32 x -> mem_has m a (le32 x) -> mrd32 m a = Some x.
Proof.
  intros Hx H. unfold mrd32.
  pose proof (H 0%nat ltac:(cbn; lia)) as H0. pose proof (H 1%nat ltac:(cbn; lia)) as H1.
  pose proof (H 2%nat ltac:(cbn; lia)) as H2. pose proof (H 3%nat ltac:(cbn; lia)) as H3.
  cbn in H0, H1, H2, H3. rewrite Z.add_0_r in H0. rewrite H0, H1, H2, H3. cbn [bind].
  f_equal. unfold in_u32 in Hx. lia.
Qed.

Lemma mem_has_le16 m a x : 0 <= x < 65536 -> mem_has m a (le16 x) -> mrd16 m a = Some x.
Proof.
  intros Hx H. unfold mrd16.
  pose proof (H 0%nat ltac:(cbn; lia)) as H0. pose proof (H 1%nat ltac:(cbn; lia)) as H1.
  cbn in H0, H1. rewrite Z.add_0_r in H0. rewrite H0, H1. cbn [bind]. f_equal. lia.
Qed.

Lemma mem_has_zero m a n i : 0 <= i < n -> mem_has m a (zeros n) -> m (a + i) = Some 0.
Proof.
  intros Hi H. replace i with (Z.of_nat (Z.to_nat i)) by lia.
  apply (mem_has_byte m a (zeros n)); [exact H|].
  unfold zeros. apply nth_error_repeat. lia.
Qed.

(* ------------------------------------------------------------------ powers of two, padding *)
Definition pow2 (a : Z) : Prop := exists k, 0 <= k <= 15 /\ a = 2 ^ k.

Lemma pow2_pos a : pow2 a -> 0 < a.
Proof. intros [k [Hk ->]]. apply Z.pow_pos_nonneg; lia. Qed.

Lemma pow2_le_divide a b : pow2 a -> pow2 b -> a <= b -> (a | b).
Proof.
  intros [k [Hk ->]] [j [Hj ->]] Hle.
  assert (k <= j) by (apply (Z.pow_le_mono_r_iff 2); lia).
  exists (2 ^ (j - k)). rewrite <- Z.pow_add_r by lia. f_equal. lia.
Qed.

Lemma pow2_divide_u32 a : pow2 a -> (a | 4294967296).
Proof.
  intros [k [Hk ->]]. exists (2 ^ (32 - k)). rewrite <- Z.pow_add_r by lia.
  replace (32 - k + k) with 32 by lia. reflexivity.
Qed.

Lemma pow2_max a b : pow2 a -> pow2 b -> pow2 (zmax a b).
Proof. intros. unfold zmax. destruct (a <? b); assumption. Qed.

Lemma pow2_4 : pow2 4. Proof. exists 2. split; [lia|reflexivity]. Qed.
Lemma pow2_2 : pow2 2. Proof. exists 1. split; [lia|reflexivity]. Qed.
Lemma pow2_1 : pow2 1. Proof. exists 0. split; [lia|reflexivity]. Qed.

Lemma land_pow2 x a : pow2 a -> 0 <= x -> Z.land x (a - 1) = x mod a.
Proof.
  intros [k [Hk ->]] Hx. replace (2 ^ k - 1) with (Z.ones k) by (rewrite Z.ones_equiv; lia).
  apply Z.land_ones. lia.
Qed.

Lemma u32_mod_pow2 x a : pow2 a -> u32 x mod a = x mod a.
Proof.
  intros Ha. unfold u32. symmetry. apply Zmod_div_mod.
  - apply pow2_pos, Ha.
  - lia.
  - apply pow2_divide_u32, Ha.
Qed.

Lemma front_pad_spec st size a : pow2 a ->
  front_pad st size a = (e_start st - size) mod a.
Proof.
  intros Ha. unfold front_pad. rewrite land_pow2 by (auto; unfold u32; lia).
  apply u32_mod_pow2, Ha.
Qed.

Lemma front_pad_range st size a : pow2 a -> 0 <= front_pad st size a < a.
Proof. intros Ha. rewrite front_pad_spec by exact Ha. pose proof (pow2_pos a Ha). lia. Qed.

Lemma front_pad_aligned st size a : pow2 a -> (e_start st - size - front_pad st size a) mod a = 0.
Proof.
  intros Ha. rewrite front_pad_spec by exact Ha. pose proof (pow2_pos a Ha).
  rewrite Zminus_mod_idemp_r. rewrite Z.sub_diag. reflexivity.
Qed.

Lemma back_pad_spec st a : pow2 a -> back_pad st a = e_end st mod a.
Proof.
  intros Ha. unfold back_pad. rewrite land_pow2 by (auto; unfold u32; lia).
  apply u32_mod_pow2, Ha.
Qed.

(* what the end padding guarantees: fewer than [a] bytes, and the end stays even (vtables stay 2-aligned) *)
Lemma back_pad_range st a : pow2 a -> 0 <= back_pad st a < a.
Proof. intros Ha. rewrite back_pad_spec by exact Ha. pose proof (pow2_pos a Ha). lia. Qed.

Lemma mod_divide_down x a b : 0 < a -> (a | b) -> 0 < b -> x mod b = 0 -> x mod a = 0.
Proof. intros. eapply mod_divide_trans; eauto. Qed.

(* ------------------------------------------------------------------ emit_front / emit_back *)
Definition same_ctl (st st' : est) : Prop :=
  nest_id st' = nest_id st /\ nest_count st' = nest_count st /\ buffer_mark st' = buffer_mark st /\
  ident st' = ident st /\ block_align st' = block_align st /\ buffer_flags st' = buffer_flags st /\
  clustering st' = clustering st /\ frames st' = frames st.

Lemma same_ctl_refl st : same_ctl st st.
Proof. unfold same_ctl; tauto. Qed.
Lemma same_ctl_trans a b c : same_ctl a b -> same_ctl b c -> same_ctl a c.
Proof. unfold same_ctl. intuition congruence. Qed.

Lemma vmem_front_new st ref bytes :
  st_ok st -> ref = e_start st - lenZ bytes ->
  mem_has (vmem (set_emit_front st ref bytes)) ref bytes.
Proof.
  intros [Hs [He [Hlo Hhi]]] Hr i Hi. unfold vmem. cbn [set_emit_front e_start front back].
  pose proof (lenZ_nonneg (front st)). unfold lenZ in *.
  replace (ref + Z.of_nat i <? 0) with true by lia.
  replace (ref <=? ref + Z.of_nat i) with true by lia.
  replace (Z.to_nat (ref + Z.of_nat i - ref)) with i by lia.
  apply nth_error_app1. exact Hi.
Qed.

Lemma vmem_front_old st ref bytes :
  st_ok st -> ref = e_start st - lenZ bytes -> mext (vmem st) (vmem (set_emit_front st ref bytes)).
Proof.
  intros [Hs [He [Hlo Hhi]]] Hr a b. unfold vmem. cbn [set_emit_front e_start front back].
  pose proof (lenZ_nonneg (front st)). pose proof (lenZ_nonneg bytes). unfold lenZ in *.
  destruct (a <? 0) eqn:Ea; [|auto].
  destruct (e_start st <=? a) eqn:Eb; [|discriminate].
  replace (ref <=? a) with true by lia. intros E.
  rewrite nth_error_app2 by lia.
  rewrite <- E. f_equal. lia.
Qed.

Lemma emit_front_ok st bytes ref e st' :
  st_ok st -> emit_front st bytes = Some (ref, e, st') -> small st' ->
  ref = e_start st - lenZ bytes /\ st' = set_emit_front st ref bytes /\ st_ok st' /\
  e = {| em_off := ref; em_bytes := bytes |} /\ ref < e_start st.
Proof.
  intros Hok E Hsm. unfold emit_front, SOFFSET_MAX, SOFFSET_MIN in E.
  destruct ((lenZ bytes =? 0) || (2147483647 <? lenZ bytes) || (e_start st - lenZ bytes <? -2147483648)) eqn:C;
    [discriminate|].
  injection E as <- <- <-.
  destruct Hok as [Hs [He [Hlo Hhi]]].
  pose proof (lenZ_nonneg bytes). pose proof (lenZ_nonneg (front st)). pose proof (lenZ_nonneg (back st)).
  split; [reflexivity|]. split; [reflexivity|]. split; [|split; [reflexivity|lia]].
  repeat split; cbn [set_emit_front e_start e_end front back].
  - rewrite lenZ_app. lia.
  - exact He.
  - lia.
  - exact Hhi.
Qed.

Lemma vmem_back_new st e bytes :
  st_ok st -> mem_has (vmem (set_emit_back st e bytes)) (e_end st) bytes.
Proof.
  intros [Hs [He [Hlo Hhi]]] i Hi. unfold vmem. cbn [set_emit_back e_start front back].
  pose proof (lenZ_nonneg (back st)). unfold lenZ in *.
  replace (e_end st + Z.of_nat i <? 0) with false by lia.
  rewrite nth_error_app2 by lia. f_equal. lia.
Qed.

Lemma vmem_back_old st e bytes : mext (vmem st) (vmem (set_emit_back st e bytes)).
Proof.
  intros a b. unfold vmem. cbn [set_emit_back e_start front back].
  destruct (a <? 0); [auto|]. intros E.
  rewrite nth_error_app1; [exact E|]. apply nth_error_Some. congruence.
Qed.

Lemma emit_back_ok st bytes ref e st' :
  st_ok st -> emit_back st bytes = Some (ref, e, st') -> small st' ->
  ref = e_end st + 1 /\ st' = set_emit_back st (e_end st + lenZ bytes) bytes /\ st_ok st' /\
  e = {| em_off := e_end st; em_bytes := bytes |}.
Proof.
  intros Hok E Hsm. unfold emit_back, SOFFSET_MAX in E.
  destruct ((e_end st <? 0) || (2147483647 - e_end st <? lenZ bytes)) eqn:C; [discriminate|].
  injection E as <- <- <-.
  destruct Hok as [Hs [He [Hlo Hhi]]].
  pose proof (lenZ_nonneg bytes). pose proof (lenZ_nonneg (front st)). pose proof (lenZ_nonneg (back st)).
  repeat split; try reflexivity; cbn [set_emit_back e_start e_end front back].
  - exact Hs.
  - rewrite lenZ_app. lia.
  - exact Hlo.
  - lia.
Qed.

(* set_min_align does not touch memory *)
Lemma vmem_set_min_align st a : vmem (set_min_align st a) = vmem st.
Proof. unfold set_min_align. destruct (min_align st <? a); reflexivity. Qed.

Lemma st_ok_set_min_align st a : st_ok st -> st_ok (set_min_align st a).
Proof. unfold set_min_align. destruct (min_align st <? a); auto. Qed.

Lemma set_min_align_fields st a :
  e_start (set_min_align st a) = e_start st /\ e_end (set_min_align st a) = e_end st /\
  front (set_min_align st a) = front st /\ back (set_min_align st a) = back st /\
  vcache (set_min_align st a) = vcache st /\ same_ctl st (set_min_align st a) /\
  min_align (set_min_align st a) = zmax (min_align st) a.
Proof.
  unfold set_min_align, zmax, same_ctl. destruct (min_align st <? a) eqn:E; cbn; repeat split; reflexivity.
Qed.
