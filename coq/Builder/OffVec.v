(* _create_offset_vector_direct: vectors of strings and of tables. *)
From Flatcc.Format Require Import Schema Spec SpecProofs.
From Flatcc.Builder Require Import EmitModel VMem Objects Leaves.
From Coq Require Import ZifyBool Znumtheory.
Local Open Scope Z_scope.
Ltac Zify.zify_post_hook ::= Z.div_mod_to_equations.

Lemma Forall2_imp {A B} (P Q : A -> B -> Prop) l1 l2 :
  (forall a b, P a b -> Q a b) -> Forall2 P l1 l2 -> Forall2 Q l1 l2.
Proof. intros H. induction 1; constructor; auto. Qed.

Lemma patch_offsets_len base : forall refs i, lenZ (patch_offsets base i refs) = 4 * lenZ refs.
Proof.
  induction refs as [|r t IH]; intros i; [reflexivity|].
  cbn [patch_offsets]. rewrite lenZ_app, IH. unfold lenZ. cbn [length].
  destruct (r =? 0); cbn [length le32]; lia.
Qed.

(* reading back the patched offsets: element j leads to refs[j] *)
Lemma dec_offs_patch (f : Z -> option value) m o base top : forall refs vs i,
  0 <= i -> - 2147483648 <= base ->
  base + 4 + 4 * (i + lenZ refs) <= top ->
  mem_has m (base + 4 + 4 * i) (patch_offsets base i refs) ->
  Forall2 (fun r v => top <= r < 0 /\ f (r - o) = Some v) refs vs ->
  dec_offs f m o (base + 4 + 4 * i - o) (length refs) = Some vs.
Proof.
  induction refs as [|r t IH]; intros vs i Hi Hb Htop Hm Hf.
  - inversion Hf. reflexivity.
  - inversion Hf as [|? v ? vs' [Hr Hfv] Hf']; subst. cbn [patch_offsets] in Hm.
    apply mem_has_app in Hm. destruct Hm as [Hm1 Hm2].
    assert (Hl : lenZ (r :: t) = 1 + lenZ t) by (unfold lenZ; cbn [length]; lia).
    pose proof (lenZ_nonneg t) as Hlt.
    replace (r =? 0) with false in * by lia.
    cbn [dec_offs length]. unfold follow.
    replace (o + (base + 4 + 4 * i - o)) with (base + 4 + 4 * i) by ring.
    rewrite (mem_has_le32 _ _ (u32 (r - base - i * 4 - 4))) by (try apply u32_range; exact Hm1). cbn [bind].
    rewrite (u32_id (r - base - i * 4 - 4)) by (unfold in_u32; lia).
    replace (r - base - i * 4 - 4 =? 0) with false by lia.
    replace (base + 4 + 4 * i - o + (r - base - i * 4 - 4)) with (r - o) by ring.
    cbn [bind]. rewrite Hfv. cbn [bind].
    replace (base + 4 + 4 * i - o + 4) with (base + 4 + 4 * (i + 1) - o) by ring.
    rewrite (IH vs' (i + 1)); [reflexivity | lia | lia | lia | | exact Hf'].
    rewrite lenZ_le32 in Hm2. replace (base + 4 + 4 * (i + 1)) with (base + 4 + 4 * i + 4) by ring. exact Hm2.
Qed.

(* element type of an offset vector *)
Definition elem_holds (n : nat) (Sc : schema) (ety : oty) : mem -> Z -> list Z -> Z -> option value :=
  fun m o ds p => match ety with
                  | OTable t => dec_table n Sc m o ds t p
                  | _ => dec_string m o ds p
                  end.

Definition offvec_ty (ety : oty) : oty := match ety with OTable t => OTabVec t | _ => OStrVec end.

Lemma create_offset_vector_valid n Sc st ety refs vs ref e st' :
  st_ok st -> ma_ok st -> (ety = OString \/ exists t, ety = OTable t) ->
  Forall2 (fun r v => e_start st <= r < 0 /\ valid n Sc st (lvl_align st) ety r v) refs vs ->
  create_offset_vector st refs = Some (ref, e, st') -> small st' ->
  step st st' /\ e_start st' = ref /\ ref < e_start st /\ e_end st' = e_end st /\ vcache st' = vcache st /\ ref mod 4 = 0 /\
  valid n Sc st' (lvl_align st') (offvec_ty ety) ref (VOffVec vs).
Proof.
  intros Hok Hma Hety Hch E Hsm. unfold create_offset_vector in E.
  destruct (MAX_OFFSET_COUNT <? u32 (lenZ refs)) eqn:Emc; [discriminate|].
  pose proof (step_set_min_align st 4 Hok Hma pow2_4) as Hst1.
  destruct (set_min_align_fields st 4) as (Hs1 & He1 & _ & _ & Hc1 & _ & Hm1).
  remember (set_min_align st 4) as st1 eqn:Hst1e. clear Hst1e.
  pose proof (lenZ_nonneg refs) as Hl0.
  set (vs_ := u32 (lenZ refs * 4)) in E. set (pad := front_pad st1 vs_ 4) in E.
  destruct (step_emit_front _ _ _ _ _ (s_ok _ _ Hst1) (s_ma _ _ Hst1) E Hsm) as (Hst & Hr & Hs & He & Hm & Hc & Hmem & Hlt).
  pose proof (emitted_small st1 st' ref _ (s_ok _ _ Hst) Hsm Hs (s_ok _ _ Hst1) Hr) as Hsmall.
  rewrite !lenZ_app, lenZ_le32, patch_offsets_len in Hsmall.
  pose proof (lenZ_nonneg (zeros pad)) as Hz0.
  assert (Hvs : vs_ = lenZ refs * 4) by (subst vs_; apply u32_id; unfold in_u32; lia).
  assert (Hpe : pad = front_pad st1 (lenZ refs * 4) 4) by (subst pad; rewrite Hvs; reflexivity).
  clearbody pad. clearbody vs_. subst vs_.
  pose proof (front_pad_range st1 (lenZ refs * 4) 4 pow2_4) as Hfr. rewrite <- Hpe in Hfr.
  rewrite !lenZ_app, lenZ_le32, patch_offsets_len, lenZ_zeros in Hr by lia.
  assert (Hcu : u32 (lenZ refs) = lenZ refs) by (apply u32_id; unfold in_u32; lia).
  rewrite Hcu in *.
  destruct (s_ok _ _ Hst1) as (Hs1' & _ & Hlo1 & _). pose proof (lenZ_nonneg (front st1)) as Hf1.
  assert (Hbase : s32 (e_start st1 - (4 + lenZ refs * 4 + pad)) = ref).
  { rewrite Hr. replace (4 + (4 * lenZ refs + pad)) with (4 + lenZ refs * 4 + pad) by ring.
    destruct (s_ok _ _ Hst) as (Hs' & _ & Hlo' & _).
    unfold s32, u32. cbv zeta. rewrite Hs in Hlo'. rewrite Hr in Hlo'.
    destruct ((e_start st1 - (4 + lenZ refs * 4 + pad)) mod 4294967296 <? 2147483648) eqn:D; lia. }
  rewrite Hbase in Hmem.
  assert (Href4 : ref mod 4 = 0).
  { rewrite Hr. pose proof (front_pad_aligned st1 (lenZ refs * 4) 4 pow2_4) as Ha. rewrite <- Hpe in Ha. lia. }
  split; [exact (step_trans _ _ _ Hst1 Hst)|]. split; [exact Hs|]. split; [lia|]. split; [lia|]. split; [congruence|].
  split; [exact Href4|].
  assert (Hdiv4 : (4 | lvl_align st')) by (apply div4_lvl; exact (s_ma _ _ Hst)).
  apply mem_has_app in Hmem. destruct Hmem as [Hm2 Hm3]. apply mem_has_app in Hm3. destruct Hm3 as [Hm3 _].
  rewrite lenZ_le32 in Hm3.
  assert (Hstep : step st st') by exact (step_trans _ _ _ Hst1 Hst).
  assert (Hgen : forall o ds, org_ok st' (lvl_align st') o ds ->
            dec_offvec (elem_holds n Sc ety (vmem st') o ds) (vmem st') o ds (ref - o) = Some (VOffVec vs)).
  { intros o ds Ho. unfold dec_offvec.
    rewrite (aligned_intro st' (lvl_align st') o ds ref 4 Ho Href4 ltac:(lia) Hdiv4 (lvl_pos st')).
    replace (o + (ref - o)) with ref by ring.
    rewrite (mem_has_le32 _ _ (lenZ refs)) by (unfold in_u32; try lia; exact Hm2). cbn [bind].
    unfold Spec.MAX_OFFSET_COUNT. unfold MAX_OFFSET_COUNT in Emc. replace (lenZ refs <=? 1073741823) with true by lia.
    unfold lenZ at 1. rewrite Nat2Z.id.
    replace (ref - o + 4) with (ref + 4 + 4 * 0 - o) by ring.
    rewrite (dec_offs_patch _ (vmem st') o ref (e_start st) refs vs 0); [reflexivity | lia | | | | ].
    - destruct (s_ok _ _ Hst) as (_ & _ & Hlo' & _). lia.
    - lia.
    - replace (ref + 4 + 4 * 0) with (ref + 4) by ring. exact Hm3.
    - eapply Forall2_imp; [|exact Hch]. cbn. intros r v [Hrr Hv]. split; [lia|].
      pose proof (step_valid n Sc st st' ety r v Hma Hstep Hv o ds Ho) as Hv'.
      destruct Hety as [->|[t ->]]; cbn [obj_holds elem_holds] in *; exact Hv'. }
  intros o ds Ho. specialize (Hgen o ds Ho).
  destruct Hety as [->|[t ->]]; cbn [obj_holds offvec_ty elem_holds] in *; exact Hgen.
Qed.
