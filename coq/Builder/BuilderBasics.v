(* Basic facts about the little-endian encoders (kept for the shared Makefile's file list). *)
From Flatcc.Format Require Import Schema Spec.
From Flatcc.Builder Require Import EmitModel.
From Coq Require Import ZifyBool.
Local Open Scope Z_scope.
Ltac Zify.zify_post_hook ::= Z.div_mod_to_equations.

Lemma le32_length x : length (le32 x) = 4%nat. Proof. reflexivity. Qed.
Lemma le16_length x : length (le16 x) = 2%nat. Proof. reflexivity. Qed.

Lemma le32_value x : in_u32 x ->
  x mod 256 + 256 * ((x / 256) mod 256) + 65536 * ((x / 65536) mod 256) + 16777216 * ((x / 16777216) mod 256) = x.
Proof. unfold in_u32. intros. lia. Qed.

Lemma le16_value x : 0 <= x < 65536 -> x mod 256 + 256 * ((x / 256) mod 256) = x.
Proof. intros. lia. Qed.
