(* flatcc_builder_create_buffer with is_nested, as called by end_buffer for a nested buffer, given a root that is valid
   in the WINDOW of the nested level (NestedBase.wmem).  Strengthens Buffer.create_buffer_nested: the conclusions hold in
   every memory that agrees with the emitted bytes on the vector alone (so in particular in the parent's window), and the
   bytes copied out decode relative to a start that is only as aligned as the nested buffer itself demands. *)
From Flatcc.Format Require Import Schema Spec SpecProofs.
From Flatcc.Builder Require Import EmitModel VMem Objects Leaves OffVec TableLayout Table Buffer NestedBase NestedLeaves NestedTable.
From Coq Require Import ZifyBool Znumtheory.
Local Open Scope Z_scope.
Ltac Zify.zify_post_hook ::= Z.div_mod_to_equations.

Lemma xvalid_valid_top n Sc st M ty ref v : nest_id st = 0 ->
  xvalid n Sc st M (XBase ty) ref v -> valid n Sc st M ty ref v.
Proof.
  intros Hn Hv o ds Ho. eapply obj_holds_mono; [apply le_n | apply mext_mle, wmem_sub | exact (Hv o ds Ho)].
Qed.

Lemma xcache_cache st : xcache_ok st -> cache_ok st.
Proof.
  intros [H2 H]. split; [exact H2|]. intros vt nid r Hin. destruct (H vt nid r Hin) as (_ & A & B & C & D & _). tauto.
Qed.

Lemma mrdbytes_agree m m' : forall n a, (forall i, 0 <= i < Z.of_nat n -> m' (a + i) = m (a + i)) -> mrdbytes m' a n = mrdbytes m a n.
Proof.
  induction n; intros a H; cbn [mrdbytes]; [reflexivity|].
  rewrite (IHn (a + 1)).
  - pose proof (H 0 ltac:(lia)) as H0. rewrite Z.add_0_r in H0. rewrite H0. reflexivity.
  - intros i Hi. replace (a + 1 + i) with (a + (i + 1)) by ring. apply H. lia.
Qed.

Lemma xcreate_buffer_nested n Sc st id b_align root align flags R v ref es st' :
  st_ok st -> ma_ok st -> win_ok st -> nest_id st <> 0 -> pow2 align -> min_align st <= align ->
  balign_ok b_align -> balign_ok (block_align st) -> in_u32 id ->
  Z.land flags 1 <> 0 -> Z.land flags 2 = 0 ->
  e_start st <= root < 0 ->
  xvalid n Sc st (lvl_align st) (XBase (root_oty R)) root v ->
  create_buffer st id b_align root align flags = Some (ref, es, st') -> small st' ->
  let al := min_align st' in
  let nb := ref + 4 in
  step st st' /\ e_start st' = ref /\ ref + 8 <= e_start st /\ e_end st' = e_end st /\ vcache st' = vcache st /\
  pow2 al /\ 4 <= al /\ align <= al /\ nb mod al = 0 /\ ref mod 4 = 0 /\
  mem_has (vmem st') ref (le32 (buffer_mark st - nb)) /\
  (* in any memory that agrees with the emitted bytes on the vector: a nested buffer, decoded inside the vector only *)
  (forall (m' : mem), (forall a, ref <= a < buffer_mark st -> m' a = vmem st' a) ->
     forall o ds al', o <= ref -> Forall (fun d => (d - o) mod al = 0) ds ->
     dec_nested (dec_table n Sc) m' o ds R al' (ref - o) = Some (VNested v)) /\
  (* copied out: a buffer of its own, relative to any start that is a multiple of al *)
  (forall ext ds0, mem_has (vmem st') nb ext -> lenZ ext = buffer_mark st - nb -> Forall (fun d => d mod al = 0) ds0 ->
     decode_mem n Sc R false ds0 (mem_of_list ext) (lenZ ext) = Some v).
Proof.
  intros Hok Hma Hwin Hnid Hal Hmin Hb Hbs Hid Hf1 Hf2 Hroot Hv E Hsm. unfold create_buffer in E.
  destruct Hwin as [Hmk1 Hmk2].
  replace (Z.land flags 1 =? 0) with false in E by lia. rewrite Hf2 in E. cbn [negb Z.eqb orb] in E.
  unfold align_buffer_end in E.
  set (ba := if b_align =? 0 then if block_align st =? 0 then 1 else block_align st else b_align) in E.
  assert (Hba : pow2 ba).
  { subst ba. destruct Hb as [->|Hb]; cbn.
    - destruct Hbs as [->|Hbs]; cbn; [apply pow2_1|]. pose proof (pow2_pos _ Hbs). replace (block_align st =? 0) with false by lia. exact Hbs.
    - pose proof (pow2_pos _ Hb). replace (b_align =? 0) with false by lia. exact Hb. }
  clearbody ba.
  assert (Hpal : pow2 (zmax (zmax align 4) ba)) by (apply pow2_max; [apply pow2_max; [exact Hal | apply pow2_4] | exact Hba]).
  assert (Hge : 4 <= zmax (zmax align 4) ba /\ align <= zmax (zmax align 4) ba).
  { unfold zmax. destruct (align <? 4) eqn:X; destruct (_ <? ba) eqn:Y; lia. }
  remember (zmax (zmax align 4) ba) as AL eqn:HAL. clear HAL. destruct Hge as [HAL4 HALa].
  set (st2 := set_min_align st AL) in E.
  set (id_size := if id =? 0 then 0 else 4) in E.
  set (pad := front_pad st2 (4 + id_size + 0) AL) in E.
  set (iov_len := 4 + 4 + id_size + pad) in E.
  set (bbase := u32 (u32 (e_start st2) - u32 iov_len + 4)) in E.
  destruct (emit_front st2 _) as [[[r e] st3]|] eqn:Ef; [|discriminate].
  injection E as <- <- <-.
  pose proof (step_set_min_align st AL Hok Hma Hpal) as Hst2. fold st2 in Hst2.
  destruct (set_min_align_fields st AL) as (Hs2 & He2 & _ & _ & Hvc2 & Hctl2 & Hm2). fold st2 in Hs2, He2, Hm2, Hctl2, Hvc2.
  assert (Hm2' : min_align st2 = AL) by (rewrite Hm2; unfold zmax; destruct (min_align st <? AL) eqn:X; lia).
  destruct (step_emit_front _ _ _ _ _ (s_ok _ _ Hst2) (s_ma _ _ Hst2) Ef Hsm) as (Hst3 & Hr & Hs3 & He3 & Hm3 & Hvc3 & Hmem & Hlt).
  assert (Hids : id_size = 0 \/ id_size = 4) by (subst id_size; destruct (id =? 0); lia).
  pose proof (front_pad_range st2 (4 + id_size + 0) AL Hpal) as Hpr. fold pad in Hpr.
  pose proof (front_pad_aligned st2 (4 + id_size + 0) AL Hpal) as Hpa. fold pad in Hpa.
  assert (Hlen : lenZ (le32 (u32 (u32 (buffer_mark st2) - bbase)) ++ le32 (u32 (u32 root - bbase)) ++
                        (if id =? 0 then [] else le32 id) ++ zeros pad) = iov_len).
  { subst iov_len id_size. destruct (id =? 0); rewrite ?lenZ_app, ?lenZ_le32, ?lenZ_zeros by lia; change (lenZ []) with 0; clear Hpa; lia. }
  rewrite Hlen in Hr.
  destruct (s_ok _ _ Hst3) as (Hs3' & He3' & Hlo3 & Hhi3).
  destruct (s_ok _ _ Hst2) as (Hs2' & He2' & Hlo2 & Hhi2).
  pose proof (lenZ_nonneg (front st2)) as Hf2'. pose proof (lenZ_nonneg (back st2)) as Hb2'.
  pose proof (lenZ_nonneg (front st3)) as Hf3. pose proof (lenZ_nonneg (back st3)) as Hb3.
  assert (Hmk2' : buffer_mark st2 = buffer_mark st) by (destruct Hctl2 as (_ & _ & -> & _); reflexivity).
  assert (Hnbm : (r + 4) mod AL = 0).
  { rewrite Hr. replace (e_start st2 - iov_len + 4) with (e_start st2 - (4 + id_size + 0) - pad) by (subst iov_len; ring). exact Hpa. }
  pose proof (pow2_pos _ Hpal) as Hpp.
  assert (HAL4d : AL mod 4 = 0).
  { eapply mod_divide_trans; [lia | apply (pow2_le_divide 4 AL pow2_4 Hpal HAL4) | exact Hpp | apply Z.mod_same; lia]. }
  assert (Hr4 : r mod 4 = 0).
  { assert (X : (r + 4) mod 4 = 0).
    { eapply mod_divide_trans; [lia | apply (pow2_le_divide 4 AL pow2_4 Hpal HAL4) | exact Hpp | exact Hnbm]. }
    lia. }
  assert (Hbb : bbase = u32 (r + 4)).
  { subst bbase. rewrite Hr. unfold u32. clear Hpa Hnbm HAL4d Hr4. lia. }
  assert (Hm3' : min_align st3 = AL) by congruence.
  cbn zeta. rewrite Hm3'.
  assert (Hstep : step st st3) by exact (step_trans _ _ _ Hst2 Hst3).
  assert (Hr8 : r + 8 <= e_start st) by (subst iov_len; clear Hpa Hnbm HAL4d Hr4; lia).
  split; [exact Hstep|]. split; [exact Hs3|]. split; [exact Hr8|]. split; [lia|]. split; [congruence|].
  split; [exact Hpal|]. split; [exact HAL4|].
  split; [exact HALa|]. split; [exact Hnbm|]. split; [exact Hr4|].
  apply mem_has_app in Hmem. destruct Hmem as [Hmsz Hmem]. apply mem_has_app in Hmem. destruct Hmem as [Hmoff _].
  rewrite lenZ_le32 in Hmoff.
  assert (Hszv : u32 (u32 (buffer_mark st2) - bbase) = buffer_mark st - (r + 4)).
  { rewrite Hbb, Hmk2'. unfold u32. clear Hpa Hnbm HAL4d Hr4. lia. }
  assert (Hoo : u32 (u32 root - bbase) = root - (r + 4)).
  { rewrite Hbb. unfold u32. clear Hpa Hnbm HAL4d Hr4. lia. }
  rewrite Hszv in Hmsz.
  split; [exact Hmsz|].
  (* the child's level alignment divides AL *)
  assert (HMdiv : (lvl_align st | AL)).
  { apply pow2_le_divide; [apply lvl_align_pow2, Hma | exact Hpal |]. unfold lvl_align, zmax. destruct (min_align st <? 4); lia. }
  (* the root inside the window [r + 4, mark), origin r + 4, any admissible references, in any agreeing memory *)
  assert (Hin : forall (m' : mem), (forall a, r <= a < buffer_mark st -> m' a = vmem st3 a) ->
            forall ds', Forall (fun d => (d - (r + 4)) mod lvl_align st = 0) ds' ->
            dec_buffer (dec_table n Sc) (restrict m' (r + 4) (buffer_mark st)) (r + 4) ds' R 0 = Some v).
  { intros m' Hagree ds' Hds'.
    assert (Ho : org_ok st (lvl_align st) (r + 4) ds') by (split; [lia | exact Hds']).
    pose proof (Hv _ _ Ho) as Hrv. cbn [xholds] in Hrv.
    assert (Hm' : mle (wmem st) (r + 4) (restrict m' (r + 4) (buffer_mark st)) (r + 4)).
    { intros i b Hb'. pose proof (wmem_restrict st (r + 4) Hok Hnid i b Hb') as Hb''. unfold restrict in Hb''.
      destruct ((e_start st <=? r + 4 + i) && (r + 4 + i <? buffer_mark st)) eqn:X; [|discriminate].
      unfold restrict. replace ((r + 4 <=? r + 4 + i) && (r + 4 + i <? buffer_mark st)) with true by lia.
      rewrite Hagree by lia. apply (s_ext _ _ Hstep). exact Hb''. }
    pose proof (obj_holds_mono n n Sc _ _ _ _ _ _ ds' _ (le_n n) Hm' Hrv) as Hrv'.
    eapply dec_buffer_root; [| | exact Hrv'].
    - unfold aligned. apply forallb_forall. intros d Hd. apply Z.eqb_eq. rewrite Forall_forall in Hds'. specialize (Hds' d Hd).
      assert (X : (d - (r + 4)) mod 4 = 0).
      { eapply mod_divide_trans; [lia | apply div4_lvl, Hma | apply lvl_pos | exact Hds']. }
      clear Hpa Hnbm. lia.
    - unfold follow. rewrite Z.add_0_r. rewrite mrd32_restrict by lia.
      assert (Hrd : mrd32 m' (r + 4) = mrd32 (vmem st3) (r + 4)).
      { unfold mrd32. rewrite !Hagree by lia. reflexivity. }
      rewrite Hrd.
      rewrite (mem_has_le32 _ _ _ (u32_range _) Hmoff). cbn [bind].
      rewrite Hoo. replace (root - (r + 4) =? 0) with false by lia. rewrite Z.add_0_l. reflexivity. }
  split.
  - (* nested in the parent *)
    intros m' Hagree o ds al' Holo Hods. unfold dec_nested.
    assert (Ha4 : aligned ds (r - o) 4 = true).
    { unfold aligned. apply forallb_forall. intros d Hd. apply Z.eqb_eq. rewrite Forall_forall in Hods. specialize (Hods d Hd).
      assert (X : (d - o) mod 4 = 0) by (eapply mod_divide_trans; [lia | apply (pow2_le_divide 4 AL pow2_4 Hpal HAL4) | exact Hpp | exact Hods]).
      clear Hpa Hnbm. lia. }
    rewrite Ha4. replace (o + (r - o)) with r by ring.
    assert (Hrd : mrd32 m' r = mrd32 (vmem st3) r).
    { unfold mrd32. rewrite !Hagree by lia. reflexivity. }
    rewrite Hrd.
    rewrite (mem_has_le32 _ _ (buffer_mark st - (r + 4))) by (unfold in_u32; try lia; exact Hmsz). cbn [bind].
    replace (o + (r - o + 4)) with (r + 4) by ring.
    destruct (mrdbytes_defined (vmem st3) (Z.to_nat (buffer_mark st - (r + 4))) (r + 4)) as [l Hl].
    { intros i Hi. apply vmem_defined; [exact (s_ok _ _ Hst3)|]. lia. }
    rewrite (mrdbytes_agree (vmem st3) m') by (intros i Hi; apply Hagree; lia).
    rewrite Hl. cbn [bind].
    replace (r + 4 + (buffer_mark st - (r + 4))) with (buffer_mark st) by ring.
    rewrite (Hin m' Hagree (map (Z.add (r - o + 4)) ds)); [reflexivity|].
    rewrite Forall_map. eapply Forall_impl; [|exact Hods]. cbn. intros d Hd.
    replace (r - o + 4 + d - (r + 4)) with (d - o) by ring.
    eapply mod_divide_trans; [apply lvl_pos | exact HMdiv | exact Hpp | exact Hd].
  - (* copied out *)
    intros ext ds0 Hext Hlenx Hds0. unfold decode_mem.
    eapply dec_buffer_mono; [apply rle_refl | | apply (Hin (vmem st3) ltac:(reflexivity) (0 :: ds0))].
    + intros i b. unfold restrict, mem_of_list. destruct ((r + 4 <=? r + 4 + i) && (r + 4 + i <? buffer_mark st)) eqn:X; [|discriminate].
      intros Hb'. replace ((0 <=? 0 + i) && (0 + i <? lenZ ext)) with true by lia. replace (0 + i <? 0) with false by lia.
      assert (Hi : (Z.to_nat i < length ext)%nat) by (unfold lenZ in Hlenx; lia).
      pose proof (Hext (Z.to_nat i) Hi) as Hx. replace (Z.of_nat (Z.to_nat i)) with i in Hx by lia.
      rewrite Z.add_0_l. rewrite <- Hx. exact Hb'.
    + assert (X : (r + 4) mod lvl_align st = 0) by (eapply mod_divide_trans; [apply lvl_pos | exact HMdiv | exact Hpp | exact Hnbm]).
      pose proof (lvl_pos st) as Hlp.
      constructor.
      * replace (0 - (r + 4)) with ((-1) * (r + 4)) by ring. rewrite Z.mul_mod, X by lia. rewrite Z.mul_0_r. reflexivity.
      * eapply Forall_impl; [|exact Hds0]. cbn. intros d Hd.
        assert (Y : d mod lvl_align st = 0) by (eapply mod_divide_trans; [apply lvl_pos | exact HMdiv | exact Hpp | exact Hd]).
        rewrite Zminus_mod, Y, X by lia. reflexivity.
Qed.
