(* create_string, create_struct, create_vector, _create_offset_vector_direct inside the window of the current buffer
   level (NestedBase.wmem): the proofs of Leaves.v / OffVec.v with the emitted bytes read through the window. *)
From Flatcc.Format Require Import Schema Spec SpecProofs.
From Flatcc.Builder Require Import EmitModel VMem Objects Leaves OffVec TableLayout Table Buffer NestedBase.
From Coq Require Import ZifyBool Znumtheory.
Local Open Scope Z_scope.
Ltac Zify.zify_post_hook ::= Z.div_mod_to_equations.

(* ------------------------------------------------------------------ create_string *)
Lemma xcreate_string n Sc st s ref e st' :
  st_ok st -> ma_ok st -> win_ok st -> create_string st s = Some (ref, e, st') -> small st' ->
  step st st' /\ e_start st' = ref /\ ref < e_start st /\ e_end st' = e_end st /\ vcache st' = vcache st /\
  xvalid n Sc st' (lvl_align st') (XBase OString) ref (VString s).
Proof.
  intros Hok Hma Hw E Hsm. unfold create_string in E.
  destruct (MAX_STRING_LEN <? lenZ s) eqn:El; [discriminate|].
  set (pad := front_pad st (u32 (lenZ s + 1)) 4 + 1) in E.
  destruct (wemit_front _ _ _ _ _ Hok Hma Hw E Hsm) as (Hst & Hr & Hs & He & Hm & Hc & Hmem & Hlt & Hw').
  pose proof (lenZ_nonneg s) as Hls.
  pose proof (front_pad_range st (u32 (lenZ s + 1)) 4 pow2_4) as Hfr.
  assert (Hpe : pad = front_pad st (u32 (lenZ s + 1)) 4 + 1) by reflexivity. clearbody pad.
  assert (Hpr : 1 <= pad <= 4) by lia.
  pose proof (emitted_small st st' ref _ (s_ok _ _ Hst) Hsm Hs Hok Hr) as Hsmall.
  rewrite !lenZ_app, lenZ_le32, lenZ_zeros in Hsmall by lia.
  assert (Href4 : ref mod 4 = 0).
  { rewrite Hr. rewrite !lenZ_app, lenZ_le32, lenZ_zeros by lia.
    pose proof (front_pad_aligned st (u32 (lenZ s + 1)) 4 pow2_4) as Ha.
    rewrite (u32_id (lenZ s + 1)) in * by (unfold in_u32; lia).
    replace (e_start st - (4 + (lenZ s + pad))) with
            (e_start st - (lenZ s + 1) - front_pad st (lenZ s + 1) 4 + (-1) * 4) by (rewrite Hpe; ring).
    rewrite Z.mod_add by lia. exact Ha. }
  split; [exact Hst|]. split; [exact Hs|]. split; [exact Hlt|]. split; [exact He|]. split; [exact Hc|].
  intros o ds Ho. cbn [xholds obj_holds]. unfold dec_string.
  apply mem_has_app in Hmem. destruct Hmem as [Hm1 Hm2]. apply mem_has_app in Hm2. destruct Hm2 as [Hm2 Hm3].
  rewrite lenZ_le32 in *.
  rewrite (aligned_intro st' (lvl_align st') o ds ref 4 Ho Href4 ltac:(lia) (div4_lvl st' (s_ma _ _ Hst)) (lvl_pos st')).
  replace (o + (ref - o)) with ref by ring.
  rewrite (mem_has_le32 _ _ (lenZ s)) by (unfold in_u32; try lia; exact Hm1). cbn [bind].
  unfold lenZ at 1. rewrite Nat2Z.id. rewrite (mem_has_rdbytes _ _ _ Hm2). cbn [bind].
  pose proof (mem_has_zero _ (ref + 4 + lenZ s) pad 0 ltac:(lia) Hm3) as Hz.
  rewrite Z.add_0_r in Hz. fold (lenZ s). rewrite Hz. cbn [bind]. reflexivity.
Qed.

(* ------------------------------------------------------------------ create_struct *)
Lemma xcreate_struct n Sc st data al ref e st' :
  st_ok st -> ma_ok st -> win_ok st -> pow2 al -> create_struct st data al = Some (ref, e, st') -> small st' ->
  step st st' /\ e_start st' = ref /\ ref < e_start st /\ e_end st' = e_end st /\ vcache st' = vcache st /\
  xvalid n Sc st' (lvl_align st') (XBase (OStruct (lenZ data) al)) ref (VBytes data).
Proof.
  intros Hok Hma Hw Hal E Hsm. unfold create_struct in E.
  pose proof (step_set_min_align st al Hok Hma Hal) as Hst1.
  pose proof (win_ok_set_min_align st al Hw) as Hw1.
  destruct (set_min_align_fields st al) as (Hs1 & He1 & _ & _ & Hc1 & _ & Hm1).
  destruct (lvl_align_set st al Hma Hal) as [Hd1 _].
  remember (set_min_align st al) as st1 eqn:Hst1e. clear Hst1e.
  destruct (wemit_front _ _ _ _ _ (s_ok _ _ Hst1) (s_ma _ _ Hst1) Hw1 E Hsm) as (Hst & Hr & Hs & He & Hm & Hc & Hmem & Hlt & Hw').
  pose proof (lenZ_nonneg data) as Hld.
  pose proof (emitted_small st1 st' ref _ (s_ok _ _ Hst) Hsm Hs (s_ok _ _ Hst1) Hr) as Hsmall.
  rewrite lenZ_app in Hsmall. pose proof (lenZ_nonneg (zeros (front_pad st1 (u32 (lenZ data)) al))) as Hz.
  assert (Hu : u32 (lenZ data) = lenZ data) by (apply u32_id; unfold in_u32; lia).
  rewrite Hu in *. clear Hz.
  pose proof (front_pad_range st1 (lenZ data) al Hal) as Hfr.
  assert (Hrefa : ref mod al = 0).
  { rewrite Hr. rewrite !lenZ_app, lenZ_zeros by lia.
    pose proof (front_pad_aligned st1 (lenZ data) al Hal) as Ha.
    replace (e_start st1 - (lenZ data + front_pad st1 (lenZ data) al)) with
            (e_start st1 - lenZ data - front_pad st1 (lenZ data) al) by ring. exact Ha. }
  split; [exact (step_trans _ _ _ Hst1 Hst)|]. split; [exact Hs|]. split; [lia|]. split; [lia|]. split; [congruence|].
  intros o ds Ho. cbn [xholds obj_holds]. unfold dec_struct.
  apply mem_has_app in Hmem. destruct Hmem as [Hm2 _].
  assert (Hdiv : (al | lvl_align st')).
  { eapply Z.divide_trans; [exact Hd1|]. apply lvl_align_divide; [exact (s_ma _ _ Hst1) | exact (s_ma _ _ Hst) | lia]. }
  rewrite (aligned_intro st' (lvl_align st') o ds ref al Ho Hrefa (pow2_pos _ Hal) Hdiv (lvl_pos st')).
  replace (o + (ref - o)) with ref by ring.
  unfold lenZ at 1. rewrite Nat2Z.id. rewrite (mem_has_rdbytes _ _ _ Hm2). reflexivity.
Qed.

(* ------------------------------------------------------------------ create_vector *)
Lemma xcreate_vector n Sc st elems count esize align maxcount ref e st' :
  st_ok st -> ma_ok st -> win_ok st -> pow2 align -> 1 <= esize <= U32_MAX ->
  Forall (fun e => lenZ e = esize) elems -> count = Z.of_nat (length elems) ->
  maxcount * esize <= U32_MAX ->
  create_vector st (concat elems) count esize align maxcount = Some (ref, e, st') -> small st' ->
  step st st' /\ e_start st' = ref /\ ref < e_start st /\ e_end st' = e_end st /\ vcache st' = vcache st /\
  xvalid n Sc st' (lvl_align st') (XBase (OVec esize align)) ref (VVec elems) /\
  (* the raw layout, for the type vector of a union vector *)
  ref mod 4 = 0 /\ mem_has (wmem st') ref (le32 count) /\ mem_has (wmem st') (ref + 4) (concat elems).
Proof.
  intros Hok Hma Hw Hal Hes Hel Hcnt Hmax E Hsm. unfold create_vector in E.
  destruct (maxcount <? count) eqn:Emc; [discriminate|].
  assert (Hal4 : pow2 (align4 align)) by (apply pow2_max; [exact Hal | apply pow2_4]).
  assert (Hge4 : 4 <= align4 align /\ align <= align4 align) by (unfold align4, zmax; destruct (align <? 4) eqn:X; lia).
  pose proof (step_set_min_align st _ Hok Hma Hal4) as Hst1.
  pose proof (win_ok_set_min_align st (align4 align) Hw) as Hw1.
  destruct (set_min_align_fields st (align4 align)) as (Hs1 & He1 & _ & _ & Hc1 & _ & Hm1).
  destruct (lvl_align_set st _ Hma Hal4) as [Hd1 _].
  remember (set_min_align st (align4 align)) as st1 eqn:Hst1e. clear Hst1e.
  pose proof (concat_lenZ elems esize Hel) as Hlen. rewrite <- Hcnt in Hlen.
  assert (Hc0 : 0 <= count) by lia.
  assert (Hprod : 0 <= count * esize <= U32_MAX).
  { split; [apply Z.mul_nonneg_nonneg; lia|].
    eapply Z.le_trans; [|exact Hmax]. apply Z.mul_le_mono_nonneg_r; lia. }
  unfold U32_MAX in *.
  assert (Hcu : u32 count = count) by (apply u32_id; unfold in_u32; nia).
  assert (Heu : u32 esize = esize) by (apply u32_id; unfold in_u32; nia).
  rewrite Hcu, Heu in E.
  assert (Hvu : u32 (count * esize) = count * esize) by (apply u32_id; unfold in_u32; lia).
  rewrite Hvu in E. rewrite <- Hlen in E.
  replace (Z.to_nat (lenZ (concat elems))) with (length (concat elems)) in E by (unfold lenZ; lia).
  rewrite firstn_all in E.
  destruct (wemit_front _ _ _ _ _ (s_ok _ _ Hst1) (s_ma _ _ Hst1) Hw1 E Hsm) as (Hst & Hr & Hs & He & Hm & Hc & Hmem & Hlt & Hw').
  pose proof (front_pad_range st1 (lenZ (concat elems)) _ Hal4) as Hfr.
  rewrite !lenZ_app, lenZ_le32, lenZ_zeros in Hr by lia.
  assert (Hdata : (ref + 4) mod (align4 align) = 0).
  { rewrite Hr. pose proof (front_pad_aligned st1 (lenZ (concat elems)) _ Hal4) as Ha.
    match goal with |- ?x mod _ = 0 => replace x with
      (e_start st1 - lenZ (concat elems) - front_pad st1 (lenZ (concat elems)) (align4 align)) by ring end.
    exact Ha. }
  assert (Href4 : ref mod 4 = 0).
  { assert (X : (ref + 4) mod 4 = 0).
    { eapply mod_divide_trans; [lia | | apply pow2_pos, Hal4 | exact Hdata].
      apply pow2_le_divide; [apply pow2_4 | exact Hal4 | lia]. }
    lia. }
  assert (Hdataa : (ref + 4) mod align = 0).
  { eapply mod_divide_trans; [apply pow2_pos, Hal | | apply pow2_pos, Hal4 | exact Hdata].
    apply pow2_le_divide; [exact Hal | exact Hal4 | lia]. }
  apply mem_has_app in Hmem. destruct Hmem as [Hm2 Hm3]. apply mem_has_app in Hm3. destruct Hm3 as [Hm3 _].
  rewrite lenZ_le32 in Hm3.
  split; [exact (step_trans _ _ _ Hst1 Hst)|]. split; [exact Hs|]. split; [lia|]. split; [lia|]. split; [congruence|].
  split; [|split; [exact Href4 | split; [exact Hm2 | exact Hm3]]].
  intros o ds Ho. cbn [xholds obj_holds]. exists elems. split; [reflexivity|]. intros mc Hmc.
  unfold dec_vector.
  assert (Hdiv4 : (4 | lvl_align st')) by (apply div4_lvl; exact (s_ma _ _ Hst)).
  assert (Hdiv : (align | lvl_align st')).
  { eapply Z.divide_trans; [apply (pow2_le_divide align (align4 align)); [exact Hal | exact Hal4 | lia]|].
    eapply Z.divide_trans; [exact Hd1|]. apply lvl_align_divide; [exact (s_ma _ _ Hst1) | exact (s_ma _ _ Hst) | lia]. }
  rewrite (aligned_intro st' (lvl_align st') o ds ref 4 Ho Href4 ltac:(lia) Hdiv4 (lvl_pos st')).
  replace (o + (ref - o)) with ref by ring.
  rewrite (mem_has_le32 _ _ count) by (unfold in_u32; try lia; exact Hm2). cbn [bind].
  replace (count <=? mc) with true by lia. cbn [andb].
  replace (ref - o + 4) with (ref + 4 - o) by ring.
  rewrite (aligned_intro st' (lvl_align st') o ds (ref + 4) align Ho Hdataa (pow2_pos _ Hal) Hdiv (lvl_pos st')).
  rewrite Hcnt, Nat2Z.id.
  rewrite (mem_has_rd_elems _ (Z.to_nat esize) elems (ref + 4)); [reflexivity | | exact Hm3].
  eapply Forall_impl; [|exact Hel]. cbn. unfold lenZ. intros. lia.
Qed.

(* ------------------------------------------------------------------ the common part of the offset vector creators *)
(* layout facts of _create_offset_vector_direct (refs may contain 0 = NONE) *)
Lemma xcreate_offvec_layout st refs ref e st' :
  st_ok st -> ma_ok st -> win_ok st ->
  create_offset_vector st refs = Some (ref, e, st') -> small st' ->
  step st st' /\ e_start st' = ref /\ ref < e_start st /\ e_end st' = e_end st /\ vcache st' = vcache st /\ ref mod 4 = 0 /\
  lenZ refs <= MAX_OFFSET_COUNT /\ - 2147483648 <= ref /\ ref + 4 + 4 * lenZ refs <= e_start st /\
  mem_has (wmem st') ref (le32 (lenZ refs)) /\ mem_has (wmem st') (ref + 4) (patch_offsets ref 0 refs).
Proof.
  intros Hok Hma Hw E Hsm. unfold create_offset_vector in E.
  destruct (MAX_OFFSET_COUNT <? u32 (lenZ refs)) eqn:Emc; [discriminate|].
  pose proof (step_set_min_align st 4 Hok Hma pow2_4) as Hst1.
  pose proof (win_ok_set_min_align st 4 Hw) as Hw1.
  destruct (set_min_align_fields st 4) as (Hs1 & He1 & _ & _ & Hc1 & _ & Hm1).
  remember (set_min_align st 4) as st1 eqn:Hst1e. clear Hst1e.
  pose proof (lenZ_nonneg refs) as Hl0.
  set (vs_ := u32 (lenZ refs * 4)) in E. set (pad := front_pad st1 vs_ 4) in E.
  destruct (wemit_front _ _ _ _ _ (s_ok _ _ Hst1) (s_ma _ _ Hst1) Hw1 E Hsm) as (Hst & Hr & Hs & He & Hm & Hc & Hmem & Hlt & Hw').
  pose proof (emitted_small st1 st' ref _ (s_ok _ _ Hst) Hsm Hs (s_ok _ _ Hst1) Hr) as Hsmall.
  rewrite !lenZ_app, lenZ_le32, patch_offsets_len in Hsmall.
  pose proof (lenZ_nonneg (zeros pad)) as Hz0.
  assert (Hvs : vs_ = lenZ refs * 4) by (subst vs_; apply u32_id; unfold in_u32; lia).
  assert (Hpe : pad = front_pad st1 (lenZ refs * 4) 4) by (subst pad; rewrite Hvs; reflexivity).
  clearbody pad. clearbody vs_. subst vs_.
  pose proof (front_pad_range st1 (lenZ refs * 4) 4 pow2_4) as Hfr. rewrite <- Hpe in Hfr.
  rewrite !lenZ_app, lenZ_le32, patch_offsets_len, lenZ_zeros in Hr by lia.
  assert (Hcu : u32 (lenZ refs) = lenZ refs) by (apply u32_id; unfold in_u32; lia).
  rewrite Hcu in *.
  destruct (s_ok _ _ Hst1) as (Hs1' & _ & Hlo1 & _). pose proof (lenZ_nonneg (front st1)) as Hf1.
  assert (Hbase : s32 (e_start st1 - (4 + lenZ refs * 4 + pad)) = ref).
  { rewrite Hr. replace (4 + (4 * lenZ refs + pad)) with (4 + lenZ refs * 4 + pad) by ring.
    destruct (s_ok _ _ Hst) as (Hs' & _ & Hlo' & _).
    unfold s32, u32. cbv zeta. rewrite Hs in Hlo'. rewrite Hr in Hlo'.
    destruct ((e_start st1 - (4 + lenZ refs * 4 + pad)) mod 4294967296 <? 2147483648) eqn:D; lia. }
  rewrite Hbase in Hmem.
  assert (Href4 : ref mod 4 = 0).
  { rewrite Hr. pose proof (front_pad_aligned st1 (lenZ refs * 4) 4 pow2_4) as Ha. rewrite <- Hpe in Ha. lia. }
  apply mem_has_app in Hmem. destruct Hmem as [Hm2 Hm3]. apply mem_has_app in Hm3. destruct Hm3 as [Hm3 _].
  rewrite lenZ_le32 in Hm3.
  destruct (s_ok _ _ Hst) as (_ & _ & Hlo' & _).
  split; [exact (step_trans _ _ _ Hst1 Hst)|]. split; [exact Hs|]. split; [lia|]. split; [lia|]. split; [congruence|].
  split; [exact Href4|]. unfold MAX_OFFSET_COUNT in *.
  split; [lia|]. split; [lia|]. split; [lia|]. split; [exact Hm2 | exact Hm3].
Qed.

Lemma xcreate_offset_vector n Sc st ety refs vs ref e st' :
  st_ok st -> ma_ok st -> win_ok st -> (ety = OString \/ exists t, ety = OTable t) ->
  Forall2 (fun r v => e_start st <= r < 0 /\ xvalid n Sc st (lvl_align st) (XBase ety) r v) refs vs ->
  create_offset_vector st refs = Some (ref, e, st') -> small st' ->
  step st st' /\ e_start st' = ref /\ ref < e_start st /\ e_end st' = e_end st /\ vcache st' = vcache st /\
  xvalid n Sc st' (lvl_align st') (XBase (offvec_ty ety)) ref (VOffVec vs).
Proof.
  intros Hok Hma Hw Hety Hch E Hsm.
  destruct (xcreate_offvec_layout st refs ref e st' Hok Hma Hw E Hsm)
    as (Hstep & Hs & Hlt & He & Hc & Href4 & Hcnt & Hlo & Htop & Hm2 & Hm3).
  repeat (split; [assumption|]).
  assert (Hdiv4 : (4 | lvl_align st')) by (apply div4_lvl; exact (s_ma _ _ Hstep)).
  pose proof (lenZ_nonneg refs) as Hl0.
  assert (Hgen : forall o ds, org_ok st' (lvl_align st') o ds ->
            dec_offvec (elem_holds n Sc ety (wmem st') o ds) (wmem st') o ds (ref - o) = Some (VOffVec vs)).
  { intros o ds Ho. unfold dec_offvec.
    rewrite (aligned_intro st' (lvl_align st') o ds ref 4 Ho Href4 ltac:(lia) Hdiv4 (lvl_pos st')).
    replace (o + (ref - o)) with ref by ring.
    rewrite (mem_has_le32 _ _ (lenZ refs)) by (unfold in_u32; unfold MAX_OFFSET_COUNT in Hcnt; try lia; exact Hm2). cbn [bind].
    unfold Spec.MAX_OFFSET_COUNT. unfold MAX_OFFSET_COUNT in Hcnt. replace (lenZ refs <=? 1073741823) with true by lia.
    unfold lenZ at 1. rewrite Nat2Z.id.
    replace (ref - o + 4) with (ref + 4 + 4 * 0 - o) by ring.
    rewrite (dec_offs_patch _ (wmem st') o ref (e_start st) refs vs 0); [reflexivity | lia | lia | lia | | ].
    - replace (ref + 4 + 4 * 0) with (ref + 4) by ring. exact Hm3.
    - eapply Forall2_imp; [|exact Hch]. cbn. intros r v [Hrr Hv]. split; [lia|].
      pose proof (step_xvalid n Sc st st' _ r v Hma Hstep Hv o ds Ho) as Hv'.
      destruct Hety as [->|[t ->]]; cbn [xholds obj_holds elem_holds] in *; exact Hv'. }
  intros o ds Ho. specialize (Hgen o ds Ho).
  destruct Hety as [->|[t ->]]; cbn [xholds obj_holds offvec_ty elem_holds] in *; exact Hgen.
Qed.
