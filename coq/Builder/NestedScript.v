(* Well-typed build scripts with union vectors and NESTED BUFFERS (start_buffer .. end_buffer blocks at any depth inside
   the top-level buffer), the invariant their execution maintains per buffer level, and the whole-build theorems.
   Extends Script.v / ScriptProofs.v (which are left untouched): every script typed there is typed here
   (NestedEmbed.xwt_of_wt). *)
From Flatcc.Format Require Import Schema Spec SpecProofs.
From Flatcc.Builder Require Import EmitModel VMem Objects Leaves OffVec TableLayout Table Buffer Script ScriptProofs.
From Flatcc.Builder Require Import NestedBase NestedLeaves UnionVecLeaves NestedTable NestedBuffer.
From Coq Require Import ZifyBool Znumtheory.
Local Open Scope Z_scope.
Ltac Zify.zify_post_hook ::= Z.div_mod_to_equations.

(* ------------------------------------------------------------------ typing *)
Record xentry := { xe_ty : xty; xe_val : value; xe_depth : nat }.
Definition xenv := list (option xentry).     (* one slot per register; None: not an object of the buffer being built *)

Definition xlookup (G : xenv) (r : nat) : option xentry :=
  match nth_error G r with Some (Some e) => Some e | _ => None end.
Definition xmk (ty : xty) (v : value) (n : nat) : option xentry := Some {| xe_ty := ty; xe_val := v; xe_depth := n |}.
Definition hide (G : xenv) : xenv := map (fun _ => None) G.

Inductive xwt_field (Sc : schema) (G : xenv) (n : nat) (adds : list targ) (f : field) : option value -> Prop :=
| XWF_absent :
    (forall a, In a adds -> targ_id a <> fid f) ->
    (match fk f with FUnion _ | FUnionVec _ => forall a, In a adds -> targ_id a <> fid f - 1 | _ => True end) ->
    frequired f = false -> xwt_field Sc G n adds f None
| XWF_scalar size al bytes :
    fk f = FScalar size al -> In (TInline (fid f) size al bytes) adds -> xwt_field Sc G n adds f (Some (VBytes bytes))
| XWF_off ty r v k :
    (* string, vector, string vector, table, table vector, nested buffer (table or struct root) *)
    off_kind (fk f) ty v -> In (TOffset (fid f) r) adds ->
    xlookup G r = Some {| xe_ty := ty; xe_val := v; xe_depth := k |} -> (k <= n)%nat ->
    xwt_field Sc G n adds f (Some v)
| XWF_union u code r mem v k :
    fk f = FUnion u -> code <> 0 -> In (TInline (fid f - 1) 1 1 [code]) adds -> In (TOffset (fid f) r) adds ->
    union_member Sc u code = Some mem ->
    xlookup G r = Some {| xe_ty := XBase (member_oty mem); xe_val := v; xe_depth := k |} -> (k <= n)%nat ->
    xwt_field Sc G n adds f (Some (VUnion code v))
| XWF_union_none u :
    fk f = FUnion u -> In (TInline (fid f - 1) 1 1 [0]) adds -> (forall a, In a adds -> targ_id a <> fid f) ->
    frequired f = false -> xwt_field Sc G n adds f None
| XWF_unionvec u rt rv es kt kv :
    fk f = FUnionVec u -> In (TOffset (fid f - 1) rt) adds -> In (TOffset (fid f) rv) adds ->
    xlookup G rt = Some {| xe_ty := XUType; xe_val := VVec (code_elems (codes_of es)); xe_depth := kt |} ->
    xlookup G rv = Some {| xe_ty := XUVal u; xe_val := VUnionVec es; xe_depth := kv |} -> (kv <= n)%nat ->
    xwt_field Sc G n adds f (Some (VUnionVec es)).

Inductive xwt_fields (Sc : schema) (G : xenv) (n : nat) (adds : list targ) : list field -> list (Z * value) -> Prop :=
| XWFS_nil : xwt_fields Sc G n adds [] []
| XWFS_absent f r fs : xwt_field Sc G n adds f None -> xwt_fields Sc G n adds r fs -> xwt_fields Sc G n adds (f :: r) fs
| XWFS_present f r v fs : xwt_field Sc G n adds f (Some v) -> xwt_fields Sc G n adds r fs -> xwt_fields Sc G n adds (f :: r) ((fid f, v) :: fs).

(* one element of a union vector: (type code, register of the member) against (type code, value) *)
Definition uelem_wt (Sc : schema) (G : xenv) (u : nat) (n : nat) (e : Z * option nat) (ev : Z * option value) : Prop :=
  match e, ev with
  | (c, None), (c', None) => c = 0 /\ c' = 0
  | (c, Some r), (c', Some v) =>
    c = c' /\ c <> 0 /\ exists mem k, union_member Sc u c = Some mem /\
      xlookup G r = Some {| xe_ty := XBase (member_oty mem); xe_val := v; xe_depth := k |} /\ (k <= n)%nat
  | _, _ => False
  end.

Inductive xwt_cmd (Sc : schema) : xenv -> cmd -> xenv -> Prop :=
| XT_string G s : xwt_cmd Sc G (CString s) (G ++ [xmk (XBase OString) (VString s) 0])
| XT_vector G es al mc elems :
    pow2 al -> 1 <= es <= U32_MAX -> Forall (fun e => lenZ e = es) elems -> mc * es <= U32_MAX ->
    xwt_cmd Sc G (CVector es al mc (Z.of_nat (length elems)) (concat elems)) (G ++ [xmk (XBase (OVec es al)) (VVec elems) 0])
| XT_struct G al data :
    pow2 al -> xwt_cmd Sc G (CStruct al data) (G ++ [xmk (XBase (OStruct (lenZ data) al)) (VBytes data) 0])
| XT_offvec G rs ety vs n :
    (ety = OString \/ exists t, ety = OTable t) ->
    Forall2 (fun r v => exists k, xlookup G r = Some {| xe_ty := XBase ety; xe_val := v; xe_depth := k |} /\ (k <= n)%nat) rs vs ->
    xwt_cmd Sc G (COffVec rs) (G ++ [xmk (XBase (offvec_ty ety)) (VOffVec vs) n])
| XT_unionvec G u elems es n :
    (* pushes the value vector, then the type vector *)
    Forall2 (uelem_wt Sc G u n) elems es ->
    xwt_cmd Sc G (CUnionVec elems) (G ++ [xmk (XUVal u) (VUnionVec es) n; xmk XUType (VVec (code_elems (codes_of es))) 0])
| XT_table G adds t flds fs n :
    Forall targ_wf adds -> Z.of_nat (length adds) <= 32765 -> tplace_end adds 0 + 4 <= 65535 ->
    table_fields Sc t = Some flds -> xwt_fields Sc G n adds flds fs ->
    xwt_cmd Sc G (CTable adds) (G ++ [xmk (XBase (OTable t)) (VTable fs) (S n)]).

(* a nested buffer the script builds: register index of its ubyte vector, root type, root value, depth bound *)
Definition nrec := (nat * root * value * nat)%type.

(* command lists; [b]: nested buffer blocks allowed (we are inside a started buffer).  A block hides every object of
   the enclosing buffer (a nested buffer may not refer to them) and leaves one new object: the nested ubyte vector. *)
Inductive xwt_cmds (Sc : schema) (b : bool) : xenv -> list cmd -> xenv -> list nrec -> Prop :=
| XS_nil G : xwt_cmds Sc b G [] G []
| XS_cmd G c G1 r G2 N : xwt_cmd Sc G c G1 -> xwt_cmds Sc b G1 r G2 N -> xwt_cmds Sc b G (c :: r) G2 N
| XS_nest G id ba fl body rt R v n Gb Nb rest G2 N :
    b = true ->
    xwt_cmds Sc b (hide G) body Gb Nb ->
    xlookup Gb rt = Some {| xe_ty := XBase (root_oty R); xe_val := v; xe_depth := n |} ->
    balign_ok ba -> in_u32 id -> 0 <= fl < 65536 -> Z.land fl 2 = 0 ->
    xwt_cmds Sc b (G ++ hide (skipn (length G) Gb) ++ [xmk (XNested R) (VNested v) n]) rest G2 N ->
    xwt_cmds Sc b G (CStartBuffer id ba fl :: body ++ CEndBuffer rt :: rest) G2 (Nb ++ (length Gb, R, v, n) :: N).

Inductive xwt_script (Sc : schema) : list cmd -> root -> value -> bool -> nat -> list nrec -> Prop :=
| XT_top cl ba0 id0 pre id ba fl body r R v n G1 G2 N1 N2 :
    balign_ok ba0 -> xwt_cmds Sc false [] pre G1 N1 -> xwt_cmds Sc true G1 body G2 N2 ->
    xlookup G2 r = Some {| xe_ty := XBase (root_oty R); xe_val := v; xe_depth := n |} ->
    balign_ok ba -> in_u32 id -> 0 <= fl < 65536 ->
    xwt_script Sc (CSettings cl ba0 id0 :: pre ++ CStartBuffer id ba fl :: body ++ [CEndBuffer r]) R v (negb (Z.land fl 2 =? 0)) n N2.

(* number of start_buffer calls (nest ids are 32-bit) *)
Definition is_start (c : cmd) : Z := match c with CStartBuffer _ _ _ => 1 | _ => 0 end.
Fixpoint count_starts (sc : list cmd) : Z := match sc with [] => 0 | c :: r => is_start c + count_starts r end.

Lemma count_starts_app a b : count_starts (a ++ b) = count_starts a + count_starts b.
Proof. induction a as [|c r IH]; cbn [count_starts app]; [lia | rewrite IH; lia]. Qed.
Lemma count_starts_nonneg a : 0 <= count_starts a.
Proof. induction a as [|c r IH]; cbn [count_starts]; [lia | destruct c; cbn [is_start]; lia]. Qed.

(* ------------------------------------------------------------------ the invariant of one buffer level *)
Definition xentry_ok (Sc : schema) (st : est) (r : Z) (e : option xentry) : Prop :=
  match e with
  | None => True
  | Some en => e_start st <= r < 0 /\ xvalid (xe_depth en) Sc st (lvl_align st) (xe_ty en) r (xe_val en)
  end.

Record XInv (Sc : schema) (st : est) (regs : list Z) (G : xenv) : Prop := {
  xi_ok : st_ok st; xi_ma : ma_ok st; xi_win : win_ok st; xi_lv : lvls_ok st; xi_cache : xcache_ok st;
  xi_ents : Forall2 (xentry_ok Sc st) regs G;
  xi_ba : balign_ok (block_align st) }.

Lemma xentry_ok_xstep Sc st st' r e : ma_ok st -> xstep st st' -> xentry_ok Sc st r e -> xentry_ok Sc st' r e.
Proof.
  intros Hma Hst. destruct e as [en|]; [|auto]. cbn. intros [Hr Hv]. split.
  - pose proof (x_start _ _ Hst). lia.
  - eapply xstep_valid; eauto.
Qed.

Lemma Forall2_xentry_xstep Sc st st' regs G : ma_ok st -> xstep st st' ->
  Forall2 (xentry_ok Sc st) regs G -> Forall2 (xentry_ok Sc st') regs G.
Proof. intros Hma Hst. apply Forall2_imp. intros r e. apply xentry_ok_xstep; assumption. Qed.

Lemma xlookup_ok Sc st regs G r en : Forall2 (xentry_ok Sc st) regs G -> xlookup G r = Some en ->
  exists x, reg regs r = Some x /\ e_start st <= x < 0 /\ xvalid (xe_depth en) Sc st (lvl_align st) (xe_ty en) x (xe_val en).
Proof.
  intros HF. revert r. induction HF as [|x e regs' G' He HF IH]; intros r Hl.
  - unfold xlookup in Hl. destruct r; discriminate.
  - destruct r as [|r].
    + unfold xlookup in Hl. cbn in Hl. destruct e as [e|]; [|discriminate]. injection Hl as <-.
      exists x. split; [reflexivity | exact He].
    + unfold xlookup in Hl. cbn [nth_error] in Hl. apply (IH r Hl).
Qed.

Lemma xwt_field_built Sc st regs G n adds fargs f ov :
  Forall2 (xentry_ok Sc st) regs G -> Forall2 (targ_rel regs) adds fargs ->
  xwt_field Sc G n adds f ov -> xfield_built n Sc st fargs f ov.
Proof.
  intros HE HR Hw.
  assert (Habs : forall id, (forall a, In a adds -> targ_id a <> id) -> forall a, In a fargs -> farg_id a <> id).
  { intros id Hno fa Hin. destruct (rel_in_r _ _ _ _ HR Hin) as (ta & Hta & Hrel).
    destruct (rel_id _ _ _ Hrel) as (-> & _). apply Hno, Hta. }
  assert (Hoff : forall id r en, In (TOffset id r) adds -> xlookup G r = Some en -> (xe_depth en <= n)%nat ->
            exists x, In (AOffset id x) fargs /\ e_start st <= x < 0 /\ xvalid n Sc st (lvl_align st) (xe_ty en) x (xe_val en)).
  { intros id r en Hin Hl Hk. destruct (rel_in_l _ _ _ _ HR Hin) as (fa & Hfa & Hrel).
    destruct fa as [|id' x]; cbn in Hrel; [contradiction|]. destruct Hrel as [<- Hreg].
    destruct (xlookup_ok Sc st regs G r en HE Hl) as (x' & Hreg' & Hx & Hv).
    rewrite Hreg in Hreg'. injection Hreg' as <-. exists x. split; [exact Hfa|]. split; [exact Hx|].
    eapply xvalid_depth; [exact Hk | apply lvl_pos | exact Hv]. }
  inversion Hw as [Hno Hno1 Hreq | size al bytes Hk Hin | ty r v k Hk Hin Hl Hkn
                   | u code r mem v k Hk Hcode Hint Hin Hmem Hl Hkn | u Hk Hint Hno Hreq
                   | u rt rv es kt kv Hk Hint Hinv Hlt Hlv Hkv]; subst ov.
  - apply XFB_absent; [apply Habs, Hno | | exact Hreq].
    destruct (fk f); try exact I; apply Habs, Hno1.
  - destruct (rel_in_l _ _ _ _ HR Hin) as (fa & Hfa & Hrel).
    destruct fa as [i' s' a' b'|]; cbn in Hrel; [|contradiction]. destruct Hrel as (<- & <- & <- & <-).
    eapply XFB_scalar; eauto.
  - destruct (Hoff _ _ _ Hin Hl Hkn) as (x & Hx & Hr & Hv). eapply XFB_off; eauto.
  - destruct (Hoff _ _ _ Hin Hl Hkn) as (x & Hx & Hr & Hv). cbn [xe_ty xe_val] in Hv.
    destruct (rel_in_l _ _ _ _ HR Hint) as (fa & Hfa & Hrel).
    destruct fa as [i' s' a' b'|]; cbn in Hrel; [|contradiction]. destruct Hrel as (<- & <- & <- & <-).
    eapply XFB_union; eauto.
  - destruct (rel_in_l _ _ _ _ HR Hint) as (fa & Hfa & Hrel).
    destruct fa as [i' s' a' b'|]; cbn in Hrel; [|contradiction]. destruct Hrel as (<- & <- & <- & <-).
    eapply XFB_union_none; eauto.
  - (* the type vector's depth is irrelevant: it holds no references *)
    destruct (rel_in_l _ _ _ _ HR Hint) as (fat & Hfat & Hrelt).
    destruct fat as [|idt xt]; cbn in Hrelt; [contradiction|]. destruct Hrelt as [<- Hregt].
    destruct (xlookup_ok Sc st regs G rt _ HE Hlt) as (xt' & Hregt' & Hxt & Hvt). rewrite Hregt in Hregt'. injection Hregt' as <-.
    cbn [xe_ty xe_val xe_depth] in Hvt.
    destruct (Hoff _ _ _ Hinv Hlv Hkv) as (xv & Hxv & Hrv & Hvv). cbn [xe_ty xe_val] in Hvv.
    eapply (XFB_unionvec n Sc st fargs f u xt xv es); eauto.
Qed.

Lemma xwt_fields_built Sc st regs G n adds fargs flds fs :
  Forall2 (xentry_ok Sc st) regs G -> Forall2 (targ_rel regs) adds fargs ->
  xwt_fields Sc G n adds flds fs -> xfields_built n Sc st fargs flds fs.
Proof.
  intros HE HR. induction 1; [constructor | apply XFBS_absent | apply XFBS_present]; auto; eapply xwt_field_built; eauto.
Qed.

Lemma xinv_extend Sc st st' regs G ref ty v n :
  XInv Sc st regs G -> step st st' -> xcache_ok st' ->
  e_start st' <= ref < 0 -> xvalid n Sc st' (lvl_align st') ty ref v ->
  XInv Sc st' (regs ++ [ref]) (G ++ [xmk ty v n]).
Proof.
  intros [Hok Hma Hw Hlv Hc He Hb] Hst Hc' Hr Hv. constructor.
  - exact (s_ok _ _ Hst).
  - exact (s_ma _ _ Hst).
  - eapply win_ok_step; eauto.
  - eapply lvls_ok_step; eauto.
  - exact Hc'.
  - apply Forall2_snoc; [eapply Forall2_xentry_xstep; [exact Hma | apply step_xstep, Hst | exact He] | cbn; split; assumption].
  - destruct (s_ctl _ _ Hst) as (_ & _ & _ & _ & -> & _). exact Hb.
Qed.

(* the registers and type codes of a union vector *)
Lemma uelems_get_ok Sc st regs G u n : Forall2 (xentry_ok Sc st) regs G ->
  forall elems es types refs, Forall2 (uelem_wt Sc G u n) elems es -> uelems_get regs elems = Some (types, refs) ->
  types = codes_of es /\ Forall2 (uelem_ok n Sc st u) refs es.
Proof.
  intros HE. induction elems as [|[c [r|]] t IH]; intros es types refs HF E; inversion HF as [|? ev ? es' Hev HF']; subst; cbn [uelems_get] in E.
  - injection E as <- <-. split; [reflexivity | constructor].
  - destruct (reg regs r) as [x|] eqn:Er; [|discriminate].
    destruct (uelems_get regs t) as [[cs rs]|] eqn:Et; [|discriminate]. injection E as <- <-.
    destruct (IH es' cs rs HF' eq_refl) as [-> Hrs].
    destruct ev as [c' [v|]]; cbn [uelem_wt] in Hev; [|contradiction].
    destruct Hev as (<- & Hc & mem & k & Hmem & Hl & Hk).
    split; [reflexivity|]. constructor; [|exact Hrs]. cbn [uelem_ok]. split; [exact Hc|].
    destruct (xlookup_ok Sc st regs G r _ HE Hl) as (x' & Hreg' & Hx & Hv). rewrite Er in Hreg'. injection Hreg' as <-.
    split; [exact Hx|]. exists mem. split; [exact Hmem|]. cbn [xe_ty xe_val xe_depth] in Hv.
    eapply xvalid_depth; [exact Hk | apply lvl_pos | exact Hv].
  - destruct (uelems_get regs t) as [[cs rs]|] eqn:Et; [|discriminate]. injection E as <- <-.
    destruct (IH es' cs rs HF' eq_refl) as [-> Hrs].
    destruct ev as [c' [v|]]; cbn [uelem_wt] in Hev; [contradiction|]. destruct Hev as [-> ->].
    split; [reflexivity|]. constructor; [|exact Hrs]. cbn [uelem_ok]. split; reflexivity.
Qed.

Lemma xrun_cmd_inv Sc G c G' st regs new ems st' :
  xwt_cmd Sc G c G' -> XInv Sc st regs G -> run_cmd st regs c = Some (new, ems, st') -> small st' ->
  XInv Sc st' (regs ++ new) G' /\ step st st' /\ is_start c = 0.
Proof.
  intros Hwt HI E Hsm. pose proof HI as [Hok Hma Hwin Hlv Hc He Hb]. pose proof (st_ok_start_nonpos st Hok) as Hs0.
  inversion Hwt as [G0 s | G0 es al mc elems Hal Hes Hel Hmc | G0 al data Hal | G0 rs ety vs n Hety Hrs
                    | G0 u elems es n Hel | G0 adds t flds fs n Hw Hlen Hfit Hfl Hfs]; subst; cbn [run_cmd] in E; (split; [|split; [|reflexivity]]).
  - destruct (create_string st s) as [[[ref e] st1]|] eqn:Ec; [|discriminate]. cbn [one] in E. injection E as <- <- <-.
    destruct (xcreate_string 0 Sc st s ref e st1 Hok Hma Hwin Ec Hsm) as (Hst & Hs & Hlt & Hee & Hcc & Hv).
    apply (xinv_extend Sc st st1 regs G ref _ _ _ HI Hst); [eapply xcache_ok_step; eauto | lia | exact Hv].
  - destruct (create_string st s) as [[[ref e] st1]|] eqn:Ec; [|discriminate]. cbn [one] in E. injection E as <- <- <-.
    exact (proj1 (xcreate_string 0 Sc st s ref e st1 Hok Hma Hwin Ec Hsm)).
  - destruct (create_vector st (concat elems) (Z.of_nat (length elems)) es al mc) as [[[ref e] st1]|] eqn:Ec; [|discriminate].
    cbn [one] in E. injection E as <- <- <-.
    destruct (xcreate_vector 0 Sc st elems _ es al mc ref e st1 Hok Hma Hwin Hal Hes Hel eq_refl Hmc Ec Hsm)
      as (Hst & Hs & Hlt & Hee & Hcc & Hv & _).
    apply (xinv_extend Sc st st1 regs G ref _ _ _ HI Hst); [eapply xcache_ok_step; eauto | lia | exact Hv].
  - destruct (create_vector st (concat elems) (Z.of_nat (length elems)) es al mc) as [[[ref e] st1]|] eqn:Ec; [|discriminate].
    cbn [one] in E. injection E as <- <- <-.
    exact (proj1 (xcreate_vector 0 Sc st elems _ es al mc ref e st1 Hok Hma Hwin Hal Hes Hel eq_refl Hmc Ec Hsm)).
  - destruct (create_struct st data al) as [[[ref e] st1]|] eqn:Ec; [|discriminate]. cbn [one] in E. injection E as <- <- <-.
    destruct (xcreate_struct 0 Sc st data al ref e st1 Hok Hma Hwin Hal Ec Hsm) as (Hst & Hs & Hlt & Hee & Hcc & Hv).
    apply (xinv_extend Sc st st1 regs G ref _ _ _ HI Hst); [eapply xcache_ok_step; eauto | lia | exact Hv].
  - destruct (create_struct st data al) as [[[ref e] st1]|] eqn:Ec; [|discriminate]. cbn [one] in E. injection E as <- <- <-.
    exact (proj1 (xcreate_struct 0 Sc st data al ref e st1 Hok Hma Hwin Hal Ec Hsm)).
  - destruct (regs_get regs rs) as [refs|] eqn:Eg; [|discriminate].
    destruct (create_offset_vector st refs) as [[[ref e] st1]|] eqn:Ec; [|discriminate]. cbn [one] in E. injection E as <- <- <-.
    assert (Hch : Forall2 (fun r v => e_start st <= r < 0 /\ xvalid n Sc st (lvl_align st) (XBase ety) r v) refs vs).
    { clear Ec Hwt. revert refs Eg. induction Hrs as [|r v rs' vs' (k & Hl & Hk) Hrs IH]; intros refs Eg; cbn [regs_get] in Eg.
      - injection Eg as <-. constructor.
      - destruct (reg regs r) as [x|] eqn:Er; [|discriminate]. destruct (regs_get regs rs') as [l|] eqn:El; [|discriminate].
        injection Eg as <-. constructor; [|apply IH; reflexivity].
        destruct (xlookup_ok Sc st regs G r _ He Hl) as (x' & Hreg' & Hx & Hv). rewrite Er in Hreg'. injection Hreg' as <-.
        cbn in Hv. split; [exact Hx|]. eapply xvalid_depth; [exact Hk | apply lvl_pos | exact Hv]. }
    destruct (xcreate_offset_vector n Sc st ety refs vs ref e st1 Hok Hma Hwin Hety Hch Ec Hsm) as (Hst & Hs & Hlt & Hee & Hcc & Hv).
    apply (xinv_extend Sc st st1 regs G ref _ _ _ HI Hst); [eapply xcache_ok_step; eauto | lia | exact Hv].
  - destruct (regs_get regs rs) as [refs|] eqn:Eg; [|discriminate].
    destruct (create_offset_vector st refs) as [[[ref e] st1]|] eqn:Ec; [|discriminate]. cbn [one] in E. injection E as <- <- <-.
    exact (proj1 (xcreate_offvec_layout st refs ref e st1 Hok Hma Hwin Ec Hsm)).
  - (* union vector *)
    destruct (uelems_get regs elems) as [[types refs]|] eqn:Eg; [|discriminate].
    destruct (create_union_vector st types refs) as [[[[tref vref] ems1] st1]|] eqn:Ec; [|discriminate]. injection E as <- <- <-.
    destruct (uelems_get_ok Sc st regs G u n He elems es types refs Hel Eg) as [-> Hch].
    destruct (xcreate_union_vector n Sc st u es refs tref vref ems1 st1 Hok Hma Hwin Hch Ec Hsm)
      as (Hst & Hs & Hlt1 & Hlt2 & Hee & Hcc & Hvv & Hvt).
    constructor.
    + exact (s_ok _ _ Hst).
    + exact (s_ma _ _ Hst).
    + eapply win_ok_step; eauto.
    + eapply lvls_ok_step; eauto.
    + eapply xcache_ok_step; eauto.
    + apply Forall2_app; [eapply Forall2_xentry_xstep; [exact Hma | apply step_xstep, Hst | exact He]|].
      constructor; [cbn; split; [lia | exact Hvv]|]. constructor; [cbn; split; [lia | exact Hvt] | constructor].
    + destruct (s_ctl _ _ Hst) as (_ & _ & _ & _ & -> & _). exact Hb.
  - destruct (uelems_get regs elems) as [[types refs]|] eqn:Eg; [|discriminate].
    destruct (create_union_vector st types refs) as [[[[tref vref] ems1] st1]|] eqn:Ec; [|discriminate]. injection E as <- <- <-.
    destruct (uelems_get_ok Sc st regs G u n He elems es types refs Hel Eg) as [-> Hch].
    exact (proj1 (xcreate_union_vector n Sc st u es refs tref vref ems1 st1 Hok Hma Hwin Hch Ec Hsm)).
  - (* table *)
    destruct (targs_get regs adds) as [fargs|] eqn:Eg; [|discriminate].
    destruct (build_table st fargs) as [[[ref es] st1]|] eqn:Ec; [|discriminate]. cbn [many] in E. injection E as <- <- <-.
    pose proof (targs_get_rel regs adds fargs Eg) as HR.
    assert (Hwf : Forall farg_wf fargs).
    { rewrite Forall_forall. intros fa Hin. destruct (rel_in_r _ _ _ _ HR Hin) as (ta & Hta & Hrel).
      rewrite Forall_forall in Hw. exact (rel_wf _ _ _ Hrel (Hw _ Hta)). }
    assert (Hlen' : Z.of_nat (length fargs) <= 32765) by (rewrite <- (Forall2_len _ _ _ HR); exact Hlen).
    assert (Hfit' : table_fits fargs) by (unfold table_fits; rewrite (place_end_rel regs adds fargs 0 HR); exact Hfit).
    pose proof (xwt_fields_built Sc st regs G n adds fargs flds fs He HR Hfs) as Hfb.
    destruct (xbuild_table n Sc st fargs t flds fs ref es st1 Hok Hma Hwin Hlv Hc Hwf Hlen' Hfit' Hfl Hfb Ec Hsm)
      as (Hst & Hc' & Hs & Hlt & Hv).
    apply (xinv_extend Sc st st1 regs G ref _ _ _ HI Hst); [exact Hc' | lia | exact Hv].
  - destruct (targs_get regs adds) as [fargs|] eqn:Eg; [|discriminate].
    destruct (build_table st fargs) as [[[ref es] st1]|] eqn:Ec; [|discriminate]. cbn [many] in E. injection E as <- <- <-.
    pose proof (targs_get_rel regs adds fargs Eg) as HR.
    assert (Hwf : Forall farg_wf fargs).
    { rewrite Forall_forall. intros fa Hin. destruct (rel_in_r _ _ _ _ HR Hin) as (ta & Hta & Hrel).
      rewrite Forall_forall in Hw. exact (rel_wf _ _ _ Hrel (Hw _ Hta)). }
    assert (Hlen' : Z.of_nat (length fargs) <= 32765) by (rewrite <- (Forall2_len _ _ _ HR); exact Hlen).
    assert (Hfit' : table_fits fargs) by (unfold table_fits; rewrite (place_end_rel regs adds fargs 0 HR); exact Hfit).
    pose proof (xwt_fields_built Sc st regs G n adds fargs flds fs He HR Hfs) as Hfb.
    exact (proj1 (xbuild_table n Sc st fargs t flds fs ref es st1 Hok Hma Hwin Hlv Hc Hwf Hlen' Hfit' Hfl Hfb Ec Hsm)).
Qed.

(* ------------------------------------------------------------------ what is recorded about a finished nested buffer *)
(* the vector reference x (register ri), the nested buffer's own alignment A, the vector content ext: in the builder's
   address space the content starts at a multiple of A, the level that holds the vector reports at least A, and the
   content copied out decodes on its own to the nested value, relative to any start that is a multiple of A. *)
Definition nested_at (Sc : schema) (st : est) (regs : list Z) (rc : nrec) (x A : Z) (ext : list Z) : Prop :=
  let '(ri, R, v, k) := rc in
  reg regs ri = Some x /\ e_start st <= x /\ x + 4 + lenZ ext <= 0 /\
  mem_has (vmem st) x (le32 (lenZ ext)) /\ mem_has (vmem st) (x + 4) ext /\
  pow2 A /\ 4 <= A /\ A <= min_align st /\ (x + 4) mod A = 0 /\
  (forall ds0, Forall (fun d => d mod A = 0) ds0 -> decode_mem k Sc R false ds0 (mem_of_list ext) (lenZ ext) = Some v).

Definition nested_ok (Sc : schema) (st : est) (regs : list Z) (rc : nrec) : Prop :=
  exists x A ext, nested_at Sc st regs rc x A ext.

Lemma nested_ok_mono Sc st st' regs news rc :
  mext (vmem st) (vmem st') -> e_start st' <= e_start st -> min_align st <= min_align st' ->
  nested_ok Sc st regs rc -> nested_ok Sc st' (regs ++ news) rc.
Proof.
  intros Hm He Hma (x & A & ext & H). exists x, A, ext. destruct rc as [[[ri R] v] k]. cbn [nested_at] in *.
  destruct H as (Hr & Hx & Hhi & Hl & Hext & HpA & HA4 & HAm & Hmod & Hdec).
  split.
  { unfold reg in *. rewrite nth_error_app1; [exact Hr|]. apply nth_error_Some. congruence. }
  split; [lia|]. split; [exact Hhi|]. split; [eapply mem_has_ext; eauto|]. split; [eapply mem_has_ext; eauto|].
  split; [exact HpA|]. split; [exact HA4|]. split; [lia|]. split; [exact Hmod | exact Hdec].
Qed.

Lemma Forall_nested_mono Sc st st' regs news N :
  mext (vmem st) (vmem st') -> e_start st' <= e_start st -> min_align st <= min_align st' ->
  Forall (nested_ok Sc st regs) N -> Forall (nested_ok Sc st' (regs ++ news)) N.
Proof. intros Hm He Hma. apply Forall_impl. intros rc. apply nested_ok_mono; assumption. Qed.

Lemma mrdbytes_mem_has m : forall n a l, mrdbytes m a n = Some l -> mem_has m a l /\ length l = n.
Proof.
  induction n; intros a l E; cbn [mrdbytes] in E.
  - injection E as <-. split; [apply mem_has_nil | reflexivity].
  - bd E. bd E. injection E as <-. destruct (IHn _ _ E1) as [Hm Hl]. split; [|cbn; congruence].
    intros i Hi. destruct i as [|i]; cbn [nth_error].
    + rewrite Z.add_0_r. exact E0.
    + replace (a + Z.of_nat (S i)) with (a + 1 + Z.of_nat i) by lia. apply Hm. cbn in Hi. lia.
Qed.

(* ------------------------------------------------------------------ start_buffer *)
Lemma u32_nest_count nc : 0 <= nc -> nc < U32_MAX -> u32 (nc + 1) = nc + 1.
Proof. intros. apply u32_id. unfold in_u32, U32_MAX in *. lia. Qed.

Lemma nid_ok_mono nc nc' nid : nc <= nc' -> nid_ok nc nid -> nid_ok nc' nid.
Proof. unfold nid_ok. intros. intuition lia. Qed.

Lemma start_buffer_levels st id ba fl :
  st_ok st -> win_ok st -> lvls_ok st -> xcache_ok st -> nest_count st < U32_MAX ->
  let st1 := start_buffer st id ba fl in
  win_ok st1 /\ lvls_ok st1 /\ xcache_ok st1 /\ nest_id st1 = nest_count st /\ nest_count st1 = nest_count st + 1.
Proof.
  intros Hok [Hw1 Hw2] (Hnc0 & Hnid & Hfr & Hms) [Hc2 Hc] Hnc. cbn zeta.
  pose proof (st_ok_start_nonpos st Hok) as Hs0.
  pose proof (u32_nest_count _ Hnc0 Hnc) as Hu.
  unfold start_buffer, with_buffer_frame, win_ok, lvls_ok, xcache_ok, lvl_bound.
  cbn [e_start e_end front back min_align nest_id nest_count buffer_mark ident block_align buffer_flags vcache clustering frames].
  split; [lia|].
  split.
  { rewrite Hu.
    split; [lia|]. split; [unfold nid_ok; lia|]. split.
    - constructor; [cbn [f_nest_id]; eapply nid_ok_mono; [|exact Hnid]; lia|].
      eapply Forall_impl; [|exact Hfr]. cbn. intros f. apply nid_ok_mono. lia.
    - cbn [marks_sorted f_mark]. split; [lia | exact Hms]. }
  split; [|split; [reflexivity | exact Hu]].
  split; [exact Hc2|]. rewrite Hu. intros vt nid r Hin.
  destruct (Hc vt nid r Hin) as (N & A & B & C & D & L).
  split; [eapply nid_ok_mono; [|exact N]; lia|]. split; [exact A|]. split; [exact B|]. split; [exact C|]. split; [exact D|].
  intros Hnz. destruct (L Hnz) as [L1 L2]. split.
  - intros Heq. destruct N as [_ N]. specialize (N Hnz). lia.
  - constructor; [cbn [f_nest_id f_mark]; exact L1 | exact L2].
Qed.

(* ------------------------------------------------------------------ command lists with nested blocks *)
Lemma xrun_cmds_inv Sc b : forall G cmds G' N,
  xwt_cmds Sc b G cmds G' N ->
  forall st regs regs' ems st',
  XInv Sc st regs G -> (b = true -> 1 <= nest_count st) -> nest_count st + count_starts cmds <= U32_MAX ->
  run st regs cmds = Some (regs', ems, st') -> small st' ->
  XInv Sc st' regs' G' /\ xstep st st' /\ (exists news, regs' = regs ++ news) /\
  Forall (nested_ok Sc st' regs') N /\ nest_count st' <= nest_count st + count_starts cmds.
Proof.
  induction 1 as [G | G c G1 r G2 N Hc Hr IH
                  | G id ba fl body rt R v n Gb Nb rest G2 N Hb Hbody IHbody Hroot Hba Hid Hfl Hfl2 Hrest IHrest];
    intros st regs regs' ems st' HI Hnc1 Hcnt E Hsm.
  - cbn [run] in E. injection E as <- <- <-. cbn [count_starts].
    split; [exact HI|]. split; [apply xstep_refl; [exact (xi_ok _ _ _ _ HI) | exact (xi_ma _ _ _ _ HI)]|].
    split; [exists []; rewrite app_nil_r; reflexivity|]. split; [constructor | lia].
  - cbn [run] in E.
    destruct (run_cmd st regs c) as [[[new es1] st1]|] eqn:E1; [|discriminate].
    destruct (run st1 (regs ++ new) r) as [[[regs2 es2] st2]|] eqn:E2; [|discriminate]. injection E as <- <- <-.
    assert (Hsm1 : small st1) by (pose proof (sz_run _ _ _ _ _ _ E2); unfold small, sz in *; lia).
    destruct (xrun_cmd_inv Sc G c G1 st regs new es1 st1 Hc HI E1 Hsm1) as (HI1 & Hst1 & Hns).
    cbn [count_starts] in Hcnt |- *. rewrite Hns in *.
    destruct (s_ctl _ _ Hst1) as (_ & Hnc & _).
    destruct (IH st1 (regs ++ new) regs2 es2 st2 HI1 ltac:(rewrite Hnc; exact Hnc1) ltac:(rewrite Hnc; lia) E2 Hsm)
      as (HI2 & Hst2 & (news & Hnews) & HN & Hc2).
    split; [exact HI2|]. split; [exact (xstep_trans _ _ _ (step_xstep _ _ Hst1) Hst2)|].
    split; [exists (new ++ news); rewrite Hnews, app_assoc; reflexivity|]. split; [exact HN | lia].
  - (* a nested buffer block *)
    specialize (Hnc1 Hb).
    cbn [run run_cmd] in E.
    set (st1 := start_buffer st id ba fl) in E.
    destruct (run st1 (regs ++ []) (body ++ CEndBuffer rt :: rest)) as [[[regs9 es9] st9]|] eqn:E0; [|discriminate].
    injection E as <- <- <-. rewrite app_nil_r in E0.
    destruct (run_app _ _ _ _ _ _ _ E0) as (regs2 & es2 & st2 & es3 & Ebody & Eend & _).
    cbn [run run_cmd] in Eend.
    destruct (reg regs2 rt) as [root|] eqn:Ereg; [|discriminate].
    destruct (end_buffer st2 root) as [[[ref es4] st3]|] eqn:Eeb; [|discriminate]. cbn [many] in Eend.
    destruct (run st3 (regs2 ++ [ref]) rest) as [[[regs4 es5] st4]|] eqn:Erest; [|discriminate].
    injection Eend as <- _ <-.
    assert (Hsm3 : small st3) by (pose proof (sz_run _ _ _ _ _ _ Erest); unfold small, sz in *; lia).
    assert (Hsm2 : small st2) by (pose proof (sz_end_buffer _ _ _ _ _ Eeb); unfold small, sz in *; lia).
    pose proof HI as [Hok Hma Hwin Hlv Hc He Hbal].
    cbn [count_starts is_start] in Hcnt |- *. rewrite count_starts_app in Hcnt |- *. cbn [count_starts is_start] in Hcnt |- *.
    pose proof (count_starts_nonneg body) as Hcb. pose proof (count_starts_nonneg rest) as Hcr.
    destruct Hlv as (Hnc0 & Hlv').
    destruct (start_buffer_levels st id ba fl Hok Hwin (conj Hnc0 Hlv') Hc ltac:(lia)) as (Hwin1 & Hlv1 & Hc1 & Hnid1 & Hncount1).
    fold st1 in Hwin1, Hlv1, Hc1, Hnid1, Hncount1.
    (* the child level starts with no visible object *)
    (* the child level starts at alignment 1 - except directly inside the top-level buffer, where start_buffer tests
       is_top_buffer BEFORE the nest id changes and the child inherits the parent's current min_align *)
    assert (Hm1 : pow2 (min_align st1) /\ 1 <= min_align st1).
    { subst st1. unfold start_buffer. cbn [with_buffer_frame min_align]. unfold is_top_buffer.
      destruct (nest_id st =? 0) eqn:X; cbn [negb orb]; [|split; [apply pow2_1 | lia]].
      destruct (min_align st =? 0) eqn:Y; [split; [apply pow2_1 | lia]|].
      destruct Hma as [Hz|Hp]; [lia|]. split; [exact Hp | pose proof (pow2_pos _ Hp); lia]. }
    assert (HI1 : XInv Sc st1 regs (hide G)).
    { constructor.
      - exact Hok.
      - right. exact (proj1 Hm1).
      - exact Hwin1.
      - exact Hlv1.
      - exact Hc1.
      - clear - He. unfold hide. induction He; cbn [map]; constructor; [exact I | assumption].
      - subst st1. cbn. exact Hba. }
    destruct (IHbody st1 regs regs2 es2 st2 HI1 ltac:(intros _; lia) ltac:(lia) Ebody Hsm2)
      as (HI2 & Hst2 & (news2 & Hnews2) & HNb & Hcnt2).
    pose proof HI2 as [Hok2 Hma2 Hwin2 Hlv2 Hc2 He2 Hbal2].
    destruct (xlookup_ok Sc st2 regs2 Gb rt _ He2 Hroot) as (x & Hreg & Hx & Hv). cbn [xe_ty xe_val xe_depth] in Hv.
    rewrite Ereg in Hreg. injection Hreg as <-.
    destruct (x_ctl _ _ Hst2) as (Hnid2 & Hnc2 & Hmk2 & Hidn2 & Hbal2' & Hbf2 & Hcl2 & Hfr2).
    (* end_buffer of the nested level *)
    unfold end_buffer in Eeb. rewrite Hfr2 in Eeb.
    assert (Hfr1 : frames st1 = {| f_min_align := min_align st; f_block_align := block_align st; f_flags := buffer_flags st;
                                   f_mark := buffer_mark st; f_nest_id := nest_id st; f_ident := ident st |} :: frames st) by reflexivity.
    rewrite Hfr1 in Eeb.
    assert (Hnz2 : nest_id st2 <> 0) by (rewrite Hnid2, Hnid1; lia).
    unfold is_top_buffer in Eeb. replace (nest_id st2 =? 0) with false in Eeb by lia.
    assert (Hbf2' : buffer_flags st2 = fl).
    { rewrite Hbf2. subst st1. cbn. apply u16_id. exact Hfl. }
    rewrite Hbf2', Hfl2 in Eeb. change (Z.lor 0 1) with 1 in Eeb.
    assert (Hbal2'' : block_align st2 = ba) by (rewrite Hbal2'; reflexivity).
    assert (Hidn2' : ident st2 = id) by (rewrite Hidn2; reflexivity).
    assert (Hmk2' : buffer_mark st2 = e_start st) by (rewrite Hmk2; reflexivity).
    assert (Hmin2 : 1 <= min_align st2) by (pose proof (x_min _ _ Hst2); lia).
    assert (Hst2b : step st2 (set_min_align st2 (block_align st2)) /\ 1 <= min_align (set_min_align st2 (block_align st2))).
    { rewrite Hbal2''. destruct Hba as [->|Hpb].
      - rewrite set_min_align_0 by lia. split; [apply step_refl; assumption | exact Hmin2].
      - pose proof (step_set_min_align st2 ba Hok2 Hma2 Hpb) as Hs. split; [exact Hs | pose proof (s_min _ _ Hs); lia]. }
    destruct Hst2b as [Hst2b Hmin2b].
    remember (set_min_align st2 (block_align st2)) as st2b eqn:Est2b.
    destruct (s_ctl _ _ Hst2b) as (Hnid2b & Hnc2b & Hmk2b & Hidn2b & Hbal2b & Hbf2b & _ & Hfr2b).
    destruct (create_buffer st2b (ident st2b) (block_align st2b) root (min_align st2b) 1) as [[[ref5 es7] st5]|] eqn:Ecb; [|discriminate].
    injection Eeb as <- _ <-.
    assert (Hpm : pow2 (min_align st2b)) by (destruct (s_ma _ _ Hst2b) as [X|X]; [lia | exact X]).
    assert (Hvc2b : vcache st2b = vcache st2 /\ e_end st2b = e_end st2 /\ e_start st2b = e_start st2).
    { subst st2b. destruct (set_min_align_fields st2 (block_align st2)) as (A1 & A2 & _ & _ & A3 & _). auto. }
    destruct Hvc2b as (Hvc2b & Hee2b & Hes2b).
    assert (Hsm5 : small st5) by (unfold small in *; exact Hsm3).
    destruct (xcreate_buffer_nested n Sc st2b (ident st2b) (block_align st2b) root (min_align st2b) 1 R v ref5 es7 st5
                (s_ok _ _ Hst2b) (s_ma _ _ Hst2b) (win_ok_step _ _ Hst2b Hwin2) ltac:(lia) Hpm ltac:(lia)
                ltac:(rewrite Hbal2b, Hbal2''; exact Hba) ltac:(rewrite Hbal2b, Hbal2''; exact Hba)
                ltac:(rewrite Hidn2b, Hidn2'; exact Hid) ltac:(cbn; lia) ltac:(reflexivity) ltac:(lia)
                (step_xvalid _ _ _ _ _ _ _ Hma2 Hst2b Hv) Ecb Hsm5)
      as (Hst5 & Hs5 & Hr8 & He5 & Hvc5 & HpA & HA4 & HAa & Hnbm & Hr4 & Hhdr & Hnest & Hout).
    rewrite Hmk2b, Hmk2' in Hhdr, Hnest, Hout.
    set (A := min_align st5) in *.
    (* the state after the frame is restored *)
    set (st3 := with_buffer_frame st5 (if A <? min_align st then min_align st else A) (block_align st) (buffer_flags st)
                                  (buffer_mark st) (nest_id st) (nest_count st5) (ident st) (frames st)) in *.
    assert (Hstep25 : step st2 st5) by exact (step_trans _ _ _ Hst2b Hst5).
    assert (Hnc5 : nest_count st5 = nest_count st2).
    { destruct (s_ctl _ _ Hstep25) as (_ & X & _). exact X. }
    assert (Hes1 : e_start st1 = e_start st) by reflexivity.
    assert (Hee1 : e_end st1 = e_end st) by reflexivity.
    pose proof (x_start _ _ Hst2) as Hxs2. pose proof (x_end _ _ Hst2) as Hxe2.
    assert (Hvm13 : mext (vmem st) (vmem st3)).
    { intros a bb Hab. change (vmem st3 a) with (vmem st5 a). apply (s_ext _ _ Hstep25). apply (x_ext _ _ Hst2).
      change (vmem st1 a) with (vmem st a). exact Hab. }
    assert (Hma3 : ma_ok st3 /\ min_align st <= min_align st3 /\ A <= min_align st3).
    { subst st3. unfold ma_ok. cbn [with_buffer_frame min_align]. destruct (A <? min_align st) eqn:X.
      - split; [|lia]. destruct Hma as [Hz|Hp]; [pose proof (pow2_pos _ HpA); lia | right; exact Hp].
      - split; [right; exact HpA | lia]. }
    destruct Hma3 as (Hma3 & Hmin3 & HA3).
    assert (Hx3 : xstep st st3).
    { constructor.
      - exact (s_ok _ _ Hst5).
      - exact Hvm13.
      - change (e_start st3) with (e_start st5). pose proof (s_start _ _ Hstep25). lia.
      - change (e_end st3) with (e_end st5). pose proof (s_end _ _ Hstep25). lia.
      - unfold xctl. subst st3. cbn [with_buffer_frame nest_id nest_count buffer_mark ident block_align buffer_flags clustering frames].
        repeat split; try reflexivity; [lia|].
        destruct (s_ctl _ _ Hstep25) as (_ & _ & _ & _ & _ & _ & X & _). rewrite X, Hcl2. reflexivity.
      - exact Hma3.
      - exact Hmin3. }
    assert (Hwin3 : win_ok st3).
    { unfold win_ok. change (e_start st3) with (e_start st5). change (buffer_mark st3) with (buffer_mark st).
      destruct Hwin. pose proof (s_start _ _ Hstep25). lia. }
    assert (Hlv3 : lvls_ok st3).
    { destruct Hlv' as (Hnid & Hfr & Hms). unfold lvls_ok.
      change (nest_count st3) with (nest_count st5). change (nest_id st3) with (nest_id st).
      change (frames st3) with (frames st). change (buffer_mark st3) with (buffer_mark st).
      split; [lia|]. split; [eapply nid_ok_mono; [|exact Hnid]; lia|]. split; [|exact Hms].
      eapply Forall_impl; [|exact Hfr]. cbn. intros f. apply nid_ok_mono. lia. }
    assert (Hc5 : xcache_ok st5) by (eapply xcache_ok_step; [exact Hstep25 | congruence | lia | exact Hc2]).
    assert (Hc3 : xcache_ok st3).
    { destruct Hc5 as [H52 H5]. split; [exact H52|]. intros vt nid r Hin. change (vcache st3) with (vcache st5) in Hin.
      destruct (H5 vt nid r Hin) as (N5 & A5 & B5 & C5 & D5 & L5).
      split; [exact N5|]. split; [exact A5|]. split; [exact B5|]. split; [exact C5|]. split; [exact D5|].
      intros Hnz. destruct (L5 Hnz) as [_ L52].
      destruct (s_ctl _ _ Hstep25) as (_ & _ & _ & _ & _ & _ & _ & Hfr5). rewrite Hfr5, Hfr2, Hfr1 in L52.
      inversion L52 as [|? ? Lp Lr]; subst. cbn [f_nest_id f_mark] in Lp.
      change (nest_id st3) with (nest_id st). change (buffer_mark st3) with (buffer_mark st). change (frames st3) with (frames st).
      split; [exact Lp | exact Lr]. }
    assert (Hlen2 : length regs2 = length Gb) by exact (Forall2_len _ _ _ He2).
    assert (HlenG : length regs = length G) by exact (Forall2_len _ _ _ He).
    assert (HI3 : XInv Sc st3 (regs2 ++ [ref5]) (G ++ hide (skipn (length G) Gb) ++ [xmk (XNested R) (VNested v) n])).
    { constructor.
      - exact (s_ok _ _ Hst5).
      - exact Hma3.
      - exact Hwin3.
      - exact Hlv3.
      - exact Hc3.
      - rewrite Hnews2. rewrite <- app_assoc. apply Forall2_app; [eapply Forall2_xentry_xstep; [exact Hma | exact Hx3 | exact He]|].
        apply Forall2_app.
        + assert (Hl : length news2 = length (skipn (length G) Gb)).
          { rewrite skipn_length. rewrite <- Hlen2, Hnews2, app_length. lia. }
          clear - Hl. unfold hide. revert Hl. generalize (skipn (length G) Gb). induction news2 as [|a t IH]; intros [|y l] Hl; cbn in Hl; try discriminate; cbn [map]; constructor; [exact I|].
          apply IH. congruence.
        + constructor; [|constructor]. cbn [xentry_ok xmk xe_ty xe_val xe_depth].
          change (e_start st3) with (e_start st5). split; [lia|].
          intros o ds [Holo Hods]. cbn [xholds]. exists v. split; [reflexivity|]. intros al'.
          change (e_start st3) with (e_start st5) in Holo.
          apply (Hnest (wmem st3)); [|lia|].
          * intros a Ha. unfold wmem, in_win. change (nest_id st3) with (nest_id st). change (buffer_mark st3) with (buffer_mark st).
            replace ((nest_id st =? 0) || (a <? buffer_mark st)) with true; [reflexivity|].
            symmetry. apply orb_true_iff. right. destruct Hwin. lia.
          * eapply Forall_impl; [|exact Hods]. cbn. intros d Hd.
            eapply mod_divide_trans; [apply pow2_pos, HpA | | apply lvl_pos | exact Hd].
            apply pow2_le_divide; [exact HpA | apply lvl_align_pow2, Hma3 |]. unfold lvl_align, zmax. destruct (min_align st3 <? 4) eqn:X4; lia.
      - change (block_align st3) with (block_align st). exact Hbal. }
    (* the record of this nested buffer *)
    assert (Hrec : nested_ok Sc st3 (regs2 ++ [ref5]) (length Gb, R, v, n)).
    { destruct (mrdbytes_defined (vmem st5) (Z.to_nat (e_start st - (ref5 + 4))) (ref5 + 4)) as [ext Hext].
      { intros i Hi. apply vmem_defined; [exact (s_ok _ _ Hst5)|]. destruct (s_ok _ _ Hst5) as (_ & Hee & _). pose proof (lenZ_nonneg (back st5)). pose proof (st_ok_start_nonpos st Hok). lia. }
      destruct (mrdbytes_mem_has _ _ _ _ Hext) as [Hmext Hlext].
      assert (Hlx : lenZ ext = e_start st - (ref5 + 4)) by (unfold lenZ; lia).
      pose proof (st_ok_start_nonpos st Hok) as Hst0. exists ref5, A, ext. cbn [nested_at].
      split; [unfold reg; rewrite nth_error_app2 by lia; rewrite Hlen2, Nat.sub_diag; reflexivity|].
      change (e_start st3) with (e_start st5). split; [lia|]. split; [rewrite Hlx; lia|].
      split; [rewrite Hlx; exact Hhdr|]. split; [exact Hmext|].
      split; [exact HpA|]. split; [exact HA4|]. split; [exact HA3|]. split; [exact Hnbm|].
      intros ds0 Hds0. apply Hout; assumption. }
    assert (HNb3 : Forall (nested_ok Sc st3 (regs2 ++ [ref5])) Nb).
    { eapply Forall_nested_mono; [| | |exact HNb].
      - intros a bb Hab. change (vmem st3 a) with (vmem st5 a). apply (s_ext _ _ Hstep25). exact Hab.
      - change (e_start st3) with (e_start st5). exact (s_start _ _ Hstep25).
      - pose proof (s_min _ _ Hst2b). lia. }
    assert (Hnc3 : nest_count st3 = nest_count st2) by exact Hnc5.
    destruct (IHrest st3 (regs2 ++ [ref5]) regs4 es5 st4 HI3 ltac:(intros _; rewrite Hnc3; lia) ltac:(rewrite Hnc3; lia) Erest Hsm)
      as (HI4 & Hst4 & (news4 & Hnews4) & HN4 & Hcnt4).
    split; [exact HI4|]. split; [exact (xstep_trans _ _ _ Hx3 Hst4)|].
    split; [exists (news2 ++ [ref5] ++ news4); rewrite Hnews4, Hnews2, <- !app_assoc; reflexivity|].
    split; [|lia].
    apply Forall_app. split; [|constructor; [|exact HN4]].
    + rewrite Hnews4. eapply Forall_nested_mono; [exact (x_ext _ _ Hst4) | exact (x_start _ _ Hst4) | exact (x_min _ _ Hst4) | exact HNb3].
    + rewrite Hnews4. eapply nested_ok_mono; [exact (x_ext _ _ Hst4) | exact (x_start _ _ Hst4) | exact (x_min _ _ Hst4) | exact Hrec].
Qed.
