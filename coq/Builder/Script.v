(* Well-typed build scripts (correct uses of the create-level API) and the invariant their execution maintains. *)
From Flatcc.Format Require Import Schema Spec SpecProofs.
From Flatcc.Builder Require Import EmitModel VMem Objects Leaves OffVec TableLayout Table Buffer.
From Coq Require Import ZifyBool Znumtheory.
Local Open Scope Z_scope.
Ltac Zify.zify_post_hook ::= Z.div_mod_to_equations.

(* ------------------------------------------------------------------ typing *)
Record entry := { en_ty : oty; en_val : value; en_depth : nat }.
Definition env := list (option entry).       (* one slot per register; None: not an object of the current buffer *)

Definition lookup (G : env) (r : nat) : option entry :=
  match nth_error G r with Some (Some e) => Some e | _ => None end.

Definition targ_id (a : targ) : Z := match a with TInline id _ _ _ => id | TOffset id _ => id end.
Definition targ_size (a : targ) : Z := match a with TInline _ s _ _ => s | TOffset _ _ => 4 end.
Definition targ_align (a : targ) : Z := match a with TInline _ _ al _ => al | TOffset _ _ => 4 end.

Definition targ_wf (a : targ) : Prop :=
  0 <= targ_id a < 32765 /\ 0 <= targ_size a <= 65535 /\ pow2 (targ_align a) /\ targ_align a <= 256 /\
  match a with TInline _ s _ bytes => lenZ bytes = s | TOffset _ _ => True end.

(* size of the data area the add calls produce (depends on sizes and alignments only) *)
Fixpoint tplace_end (adds : list targ) (off : Z) : Z :=
  match adds with
  | [] => off
  | a :: r => tplace_end r (u32 (alignup off (targ_align a) + targ_size a))
  end.

Inductive wt_field (Sc : schema) (G : env) (n : nat) (adds : list targ) (f : field) : option value -> Prop :=
| WF_absent :
    (forall a, In a adds -> targ_id a <> fid f) ->
    (match fk f with FUnion _ | FUnionVec _ => forall a, In a adds -> targ_id a <> fid f - 1 | _ => True end) ->
    frequired f = false -> wt_field Sc G n adds f None
| WF_scalar size al bytes :
    fk f = FScalar size al -> In (TInline (fid f) size al bytes) adds -> wt_field Sc G n adds f (Some (VBytes bytes))
| WF_string r v k :
    fk f = FString -> In (TOffset (fid f) r) adds -> lookup G r = Some {| en_ty := OString; en_val := v; en_depth := k |} -> (k <= n)%nat ->
    wt_field Sc G n adds f (Some v)
| WF_vector es al mc r elems k :
    fk f = FVector es al mc -> In (TOffset (fid f) r) adds ->
    lookup G r = Some {| en_ty := OVec es al; en_val := VVec elems; en_depth := k |} -> (k <= n)%nat ->
    Z.of_nat (length elems) <= mc -> wt_field Sc G n adds f (Some (VVec elems))
| WF_strvec r v k :
    fk f = FStringVec -> In (TOffset (fid f) r) adds -> lookup G r = Some {| en_ty := OStrVec; en_val := v; en_depth := k |} -> (k <= n)%nat ->
    wt_field Sc G n adds f (Some v)
| WF_table t r v k :
    fk f = FTable t -> In (TOffset (fid f) r) adds -> lookup G r = Some {| en_ty := OTable t; en_val := v; en_depth := k |} -> (k <= n)%nat ->
    wt_field Sc G n adds f (Some v)
| WF_tabvec t r v k :
    fk f = FTableVec t -> In (TOffset (fid f) r) adds -> lookup G r = Some {| en_ty := OTabVec t; en_val := v; en_depth := k |} -> (k <= n)%nat ->
    wt_field Sc G n adds f (Some v)
| WF_union u code r mem v k :
    fk f = FUnion u -> code <> 0 -> In (TInline (fid f - 1) 1 1 [code]) adds -> In (TOffset (fid f) r) adds ->
    union_member Sc u code = Some mem ->
    lookup G r = Some {| en_ty := member_oty mem; en_val := v; en_depth := k |} -> (k <= n)%nat ->
    wt_field Sc G n adds f (Some (VUnion code v))
| WF_union_none u :
    fk f = FUnion u -> In (TInline (fid f - 1) 1 1 [0]) adds -> (forall a, In a adds -> targ_id a <> fid f) ->
    frequired f = false -> wt_field Sc G n adds f None.

Inductive wt_fields (Sc : schema) (G : env) (n : nat) (adds : list targ) : list field -> list (Z * value) -> Prop :=
| WFS_nil : wt_fields Sc G n adds [] []
| WFS_absent f r fs : wt_field Sc G n adds f None -> wt_fields Sc G n adds r fs -> wt_fields Sc G n adds (f :: r) fs
| WFS_present f r v fs : wt_field Sc G n adds f (Some v) -> wt_fields Sc G n adds r fs -> wt_fields Sc G n adds (f :: r) ((fid f, v) :: fs).

Definition mk (ty : oty) (v : value) (n : nat) : option entry := Some {| en_ty := ty; en_val := v; en_depth := n |}.

(* object-creating commands: what they need from the environment and what they add *)
Inductive wt_cmd (Sc : schema) : env -> cmd -> env -> Prop :=
| WT_string G s : wt_cmd Sc G (CString s) (G ++ [mk OString (VString s) 0])
| WT_vector G es al mc elems :
    pow2 al -> 1 <= es <= U32_MAX -> Forall (fun e => lenZ e = es) elems -> mc * es <= U32_MAX ->
    wt_cmd Sc G (CVector es al mc (Z.of_nat (length elems)) (concat elems)) (G ++ [mk (OVec es al) (VVec elems) 0])
| WT_struct G al data :
    pow2 al -> wt_cmd Sc G (CStruct al data) (G ++ [mk (OStruct (lenZ data) al) (VBytes data) 0])
| WT_offvec G rs ety vs n :
    (ety = OString \/ exists t, ety = OTable t) ->
    Forall2 (fun r v => exists k, lookup G r = Some {| en_ty := ety; en_val := v; en_depth := k |} /\ (k <= n)%nat) rs vs ->
    wt_cmd Sc G (COffVec rs) (G ++ [mk (offvec_ty ety) (VOffVec vs) n])
| WT_table G adds t flds fs n :
    Forall targ_wf adds -> Z.of_nat (length adds) <= 32765 -> tplace_end adds 0 + 4 <= 65535 ->
    table_fields Sc t = Some flds -> wt_fields Sc G n adds flds fs ->
    wt_cmd Sc G (CTable adds) (G ++ [mk (OTable t) (VTable fs) (S n)]).

Inductive wt_cmds (Sc : schema) : env -> list cmd -> env -> Prop :=
| WTS_nil G : wt_cmds Sc G [] G
| WTS_cons G c G1 r G2 : wt_cmd Sc G c G1 -> wt_cmds Sc G1 r G2 -> wt_cmds Sc G (c :: r) G2.

(* A complete top-level build: optional settings, objects created before the buffer is started, start_buffer,
   more objects, end_buffer with a root of the right type. *)
Inductive wt_script (Sc : schema) : list cmd -> root -> value -> bool -> nat -> Prop :=
| WT_top cl ba0 id0 pre id ba fl body r R v n G1 G2 :
    balign_ok ba0 -> wt_cmds Sc [] pre G1 -> wt_cmds Sc G1 body G2 ->
    lookup G2 r = Some {| en_ty := root_oty R; en_val := v; en_depth := n |} ->
    balign_ok ba -> in_u32 id -> 0 <= fl < 65536 ->
    wt_script Sc (CSettings cl ba0 id0 :: pre ++ CStartBuffer id ba fl :: body ++ [CEndBuffer r]) R v (negb (Z.land fl 2 =? 0)) n.
