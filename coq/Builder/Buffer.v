(* flatcc_builder_create_buffer / end_buffer for top-level buffers: the finished byte list decodes to the root value. *)
From Flatcc.Format Require Import Schema Spec SpecProofs.
From Flatcc.Builder Require Import EmitModel VMem Objects Leaves TableLayout Table.
From Coq Require Import ZifyBool Znumtheory.
Local Open Scope Z_scope.
Ltac Zify.zify_post_hook ::= Z.div_mod_to_equations.

(* the finished bytes are the virtual memory seen from emit_start *)
Lemma vmem_bytes st : st_ok st ->
  mle (vmem st) (e_start st) (restrict (mem_of_list (buffer_bytes st)) 0 (lenZ (buffer_bytes st))) 0.
Proof.
  intros (Hs & He & _) i b. unfold vmem, restrict, mem_of_list, buffer_bytes. rewrite lenZ_app.
  pose proof (lenZ_nonneg (front st)) as Hf. pose proof (lenZ_nonneg (back st)) as Hb. unfold lenZ in *.
  destruct (e_start st + i <? 0) eqn:E1.
  - destruct (e_start st <=? e_start st + i) eqn:E2; [|discriminate]. intros E.
    assert (Hi : (Z.to_nat (e_start st + i - e_start st) < length (front st))%nat) by (apply nth_error_Some; congruence).
    replace ((0 <=? 0 + i) && (0 + i <? Z.of_nat (length (front st)) + Z.of_nat (length (back st)))) with true by lia.
    replace (0 + i <? 0) with false by lia.
    rewrite nth_error_app1 by lia. rewrite <- E. f_equal. lia.
  - intros E.
    assert (Hi : (Z.to_nat (e_start st + i) < length (back st))%nat) by (apply nth_error_Some; congruence).
    replace ((0 <=? 0 + i) && (0 + i <? Z.of_nat (length (front st)) + Z.of_nat (length (back st)))) with true by lia.
    replace (0 + i <? 0) with false by lia.
    rewrite nth_error_app2 by lia. rewrite <- E. f_equal. lia.
Qed.

(* root types *)
Definition root_oty (R : root) : oty := match R with RTable t => OTable t | RStruct size al => OStruct size al end.

Lemma dec_buffer_root n Sc R v m o ds hp tgt :
  aligned ds hp 4 = true -> follow m o hp = Some tgt -> obj_holds n Sc (root_oty R) v m o ds tgt ->
  dec_buffer (dec_table n Sc) m o ds R hp = Some v.
Proof.
  intros Ha Hf Hv. unfold dec_buffer. rewrite Ha, Hf. cbn [bind]. destruct R; cbn [root_oty obj_holds] in Hv; exact Hv.
Qed.

Definition balign_ok (b : Z) : Prop := b = 0 \/ pow2 b.

Lemma zmax_pow2 a b : pow2 a -> balign_ok b -> pow2 (zmax a (if b =? 0 then 1 else b)).
Proof.
  intros Ha [->|Hb]; cbn.
  - apply pow2_max; [exact Ha | apply pow2_1].
  - pose proof (pow2_pos b Hb). replace (b =? 0) with false by lia. apply pow2_max; assumption.
Qed.

(* align_buffer_end at top level *)
Lemma align_buffer_end_top st align b_align al es st1 :
  st_ok st -> ma_ok st -> cache_ok st -> pow2 align -> balign_ok b_align -> balign_ok (block_align st) ->
  align_buffer_end st align b_align false = Some (al, es, st1) -> small st1 ->
  step st st1 /\ pow2 al /\ 4 <= al /\ align <= al /\ e_start st1 = e_start st /\ min_align st1 = min_align st /\
  e_end st1 mod al = 0 /\ (b_align <> 0 -> b_align <= al).
Proof.
  intros Hok Hma Hc Hal Hb Hbs E Hsm. unfold align_buffer_end in E.
  set (ba := if b_align =? 0 then if block_align st =? 0 then 1 else block_align st else b_align) in E.
  assert (Hba : pow2 ba).
  { subst ba. destruct Hb as [->|Hb]; cbn.
    - destruct Hbs as [->|Hbs]; cbn; [apply pow2_1|]. pose proof (pow2_pos _ Hbs). replace (block_align st =? 0) with false by lia. exact Hbs.
    - pose proof (pow2_pos _ Hb). replace (b_align =? 0) with false by lia. exact Hb. }
  assert (Hbb : b_align <> 0 -> b_align <= ba) by (intros Hne; subst ba; replace (b_align =? 0) with false by lia; lia).
  clearbody ba.
  assert (Hpal : pow2 (zmax (zmax align 4) ba)) by (apply pow2_max; [apply pow2_max; [exact Hal | apply pow2_4] | exact Hba]).
  assert (Hge : 4 <= zmax (zmax align 4) ba /\ align <= zmax (zmax align 4) ba /\ ba <= zmax (zmax align 4) ba).
  { unfold zmax. destruct (align <? 4) eqn:X; destruct (_ <? ba) eqn:Y; lia. }
  remember (zmax (zmax align 4) ba) as AL eqn:HAL. clear HAL.
  destruct (back_pad_aligned st AL Hpal) as [Hbr Hbm].
  destruct (back_pad st AL =? 0) eqn:Ep.
  - injection E as <- <- <-.
    split; [apply step_refl; assumption|].
    split; [exact Hpal|]. split; [lia|]. split; [lia|]. split; [reflexivity|]. split; [reflexivity|].
    split; [|lia]. replace (back_pad st AL) with 0 in Hbm by lia. rewrite Z.add_0_r in Hbm. exact Hbm.
  - destruct (emit_back st (zeros (back_pad st AL))) as [[[r e] st0]|] eqn:Eb; [|discriminate].
    injection E as <- <- <-.
    destruct (step_emit_back _ _ _ _ _ Hok Hma Eb Hsm) as (Hst & _ & Hs & He & Hm & Hcc & _ & _).
    rewrite lenZ_zeros in He by lia.
    split; [exact Hst|]. split; [exact Hpal|]. split; [lia|]. split; [lia|]. split; [exact Hs|]. split; [exact Hm|].
    split; [rewrite He; exact Hbm | lia].
Qed.

Lemma mle_restrict_sub m lo hi o : mle (restrict m lo hi) o m o.
Proof. intros i b. unfold restrict. destruct (_ && _); [auto|discriminate]. Qed.

Lemma rle_refl n Sc : rle (dec_table n Sc) (dec_table n Sc).
Proof. apply dec_table_mono. lia. Qed.

(* flatcc_builder_create_buffer, top level (not nested) *)
Lemma create_buffer_top n Sc st id b_align root align flags R v ref es st' :
  st_ok st -> ma_ok st -> cache_ok st -> pow2 align -> min_align st <= align ->
  balign_ok b_align -> balign_ok (block_align st) -> in_u32 id ->
  Z.land flags 1 = 0 ->
  e_start st <= root < 0 -> valid n Sc st (lvl_align st) (root_oty R) root v ->
  create_buffer st id b_align root align flags = Some (ref, es, st') -> small st' ->
  st_ok st' /\ e_start st' = ref /\ pow2 (min_align st') /\ 4 <= min_align st' /\ align <= min_align st' /\
  ref mod min_align st' = 0 /\
  decode_mem n Sc R (negb (Z.land flags 2 =? 0)) [min_align st'] (mem_of_list (buffer_bytes st')) (lenZ (buffer_bytes st')) = Some v /\
  lenZ (buffer_bytes st') mod min_align st' = 0 /\ (b_align <> 0 -> b_align <= min_align st').
Proof.
  intros Hok Hma Hc Hal Hmin Hb Hbs Hid Hfl Hroot Hv E Hsm. unfold create_buffer in E.
  rewrite Hfl in E. cbn [Z.eqb negb orb] in E.
  set (ws := negb (Z.land flags 2 =? 0)) in *.
  destruct (align_buffer_end st align b_align false) as [[[al es0] st1]|] eqn:Ea; [|discriminate].
  set (st2 := set_min_align st1 al) in E.
  set (id_size := if id =? 0 then 0 else 4) in E.
  set (ws4 := if ws then 4 else 0) in E.
  set (pad := front_pad st2 (4 + id_size + ws4) al) in E.
  set (iov_len := ws4 + 4 + id_size + pad) in E.
  set (bbase := u32 (u32 (e_start st2) - u32 iov_len + ws4)) in E.
  destruct (emit_front st2 _) as [[[r e] st3]|] eqn:Ef; [|discriminate].
  injection E as <- <- <-.
  assert (Hsm2 : small st2) by (eapply emit_front_small; eauto).
  assert (Hsm1 : small st1) by (apply (small_set_min_align st1 al); exact Hsm2).
  destruct (align_buffer_end_top st align b_align al es0 st1 Hok Hma Hc Hal Hb Hbs Ea Hsm1)
    as (Hst1 & Hpal & Hal4 & Hala & Hs1 & Hm1 & He1m & Hbal).
  pose proof (step_set_min_align st1 al (s_ok _ _ Hst1) (s_ma _ _ Hst1) Hpal) as Hst2. fold st2 in Hst2.
  destruct (set_min_align_fields st1 al) as (Hs2 & He2 & _ & _ & _ & _ & Hm2). fold st2 in Hs2, He2, Hm2.
  assert (Hm2' : min_align st2 = al) by (rewrite Hm2; unfold zmax; destruct (min_align st1 <? al) eqn:X; lia).
  destruct (step_emit_front _ _ _ _ _ (s_ok _ _ Hst2) (s_ma _ _ Hst2) Ef Hsm) as (Hst3 & Hr & Hs3 & He3 & Hm3 & _ & Hmem & _).
  assert (Hids : id_size = 0 \/ id_size = 4) by (subst id_size; destruct (id =? 0); lia).
  assert (Hws4 : ws4 = 0 \/ ws4 = 4) by (subst ws4; destruct ws; lia).
  pose proof (front_pad_range st2 (4 + id_size + ws4) al Hpal) as Hpr. fold pad in Hpr.
  pose proof (front_pad_aligned st2 (4 + id_size + ws4) al Hpal) as Hpa. fold pad in Hpa.
  assert (Hlen : lenZ ((if ws then le32 (u32 (u32 (e_end st2) - bbase)) else []) ++ le32 (u32 (u32 root - bbase)) ++
                        (if id =? 0 then [] else le32 id) ++ zeros pad) = iov_len).
  { subst iov_len ws4 id_size. destruct ws, (id =? 0); rewrite ?lenZ_app, ?lenZ_le32, ?lenZ_zeros by lia;
      change (lenZ []) with 0; clear Hpa; lia. }
  rewrite Hlen in Hr.
  assert (Hstep : step st st3) by exact (step_trans _ _ _ Hst1 (step_trans _ _ _ Hst2 Hst3)).
  destruct (s_ok _ _ Hst3) as (Hs3' & He3' & Hlo3 & Hhi3).
  destruct (s_ok _ _ Hst2) as (Hs2' & He2' & Hlo2 & Hhi2).
  pose proof (lenZ_nonneg (front st2)) as Hf2. pose proof (lenZ_nonneg (back st2)) as Hb2.
  pose proof (lenZ_nonneg (front st3)) as Hf3. pose proof (lenZ_nonneg (back st3)) as Hb3.
  assert (Hrm : r mod al = 0).
  { rewrite Hr. replace (e_start st2 - iov_len) with (e_start st2 - (4 + id_size + ws4) - pad) by (subst iov_len; ring). exact Hpa. }
  assert (Hbb : bbase = u32 (r + ws4)).
  { subst bbase. rewrite Hr. unfold u32. clear Hpa Hrm He1m. lia. }
  assert (Hm3' : min_align st3 = al) by congruence.
  assert (Hlvl : lvl_align st3 = al) by (unfold lvl_align; rewrite Hm3'; unfold zmax; destruct (al <? 4) eqn:X; lia).
  assert (Hblen : lenZ (buffer_bytes st3) = e_end st3 - r) by (unfold buffer_bytes; rewrite lenZ_app; lia).
  assert (Hal4d : al mod 4 = 0).
  { eapply mod_divide_trans; [lia | apply (pow2_le_divide 4 al pow2_4 Hpal Hal4) | apply pow2_pos, Hpal | apply Z.mod_same; pose proof (pow2_pos _ Hpal); lia]. }
  split; [exact (s_ok _ _ Hst3)|]. split; [exact Hs3|]. rewrite Hm3'.
  split; [exact Hpal|]. split; [exact Hal4|]. split; [exact Hala|]. split; [exact Hrm|].
  split.
  2:{ split; [|exact Hbal]. rewrite Hblen, He3, He2.
      pose proof (pow2_pos _ Hpal). rewrite Zminus_mod, He1m, Hrm. reflexivity. }
  (* decoding *)
  pose proof (vmem_bytes st3 (s_ok _ _ Hst3)) as Hmle. rewrite Hs3 in Hmle.
  assert (Hord : org_ok st3 (lvl_align st3) r [0; al]).
  { split; [lia|]. rewrite Hlvl. pose proof (pow2_pos _ Hpal).
    constructor; [|constructor; [|constructor]].
    - replace (0 - r) with ((-1) * r) by ring. rewrite Z.mul_mod, Hrm by lia. rewrite Z.mul_0_r. reflexivity.
    - rewrite Zminus_mod, Hrm, Z.mod_same by lia. reflexivity. }
  pose proof (step_valid n Sc st st3 _ _ _ Hma Hstep Hv r [0; al] Hord) as Hroot'.
  assert (Hal_lst : forall hp, hp mod 4 = 0 -> aligned [0; al] hp 4 = true).
  { intros hp Hhp. unfold aligned. cbn [forallb]. rewrite Z.add_0_l. rewrite Hhp.
    rewrite Z.add_mod, Hal4d, Hhp by lia. reflexivity. }
  assert (Hoo : u32 (u32 root - bbase) = root - r - ws4).
  { rewrite Hbb. unfold u32. clear Hpa Hrm He1m Hal4d. lia. }
  unfold decode_mem. destruct ws eqn:Ews.
  - (* size prefixed *)
    assert (Hws44 : ws4 = 4) by (subst ws4; reflexivity).
    cbn [app] in Hmem. apply mem_has_app in Hmem. destruct Hmem as [Hmsz Hmem]. apply mem_has_app in Hmem. destruct Hmem as [Hmoff _].
    rewrite lenZ_le32 in Hmoff.
    assert (Hsz : u32 (u32 (e_end st2) - bbase) = e_end st3 - r - 4).
    { rewrite Hbb, Hws44, He3. unfold u32. unfold small in Hsm. clear Hpa Hrm He1m Hal4d. lia. }
    assert (Hrd0 : mrd32 (mem_of_list (buffer_bytes st3)) 0 = Some (e_end st3 - r - 4)).
    { eapply (mrd32_at (vmem st3) r); [eapply mle_trans; [exact Hmle | apply mle_restrict_sub] | | ].
      2:{ rewrite <- Hsz. apply mem_has_le32; [apply u32_range | exact Hmsz]. }
      lia. }
    rewrite Hrd0. cbn [bind]. rewrite Hblen.
    replace (4 + (e_end st3 - r - 4) <=? e_end st3 - r) with true by lia.
    replace (4 + (e_end st3 - r - 4)) with (e_end st3 - r) by ring. rewrite <- Hblen.
    eapply dec_buffer_mono; [apply rle_refl | exact Hmle |].
    eapply dec_buffer_root; [apply Hal_lst; reflexivity | | exact Hroot'].
    unfold follow. rewrite (mem_has_le32 _ _ _ (u32_range _) Hmoff). cbn [bind].
    rewrite Hoo, Hws44. replace (root - r - 4 =? 0) with false by lia. f_equal. ring.
  - assert (Hws40 : ws4 = 0) by (subst ws4; reflexivity).
    cbn [app] in Hmem. apply mem_has_app in Hmem. destruct Hmem as [Hmoff _].
    eapply dec_buffer_mono; [apply rle_refl | exact Hmle |].
    eapply dec_buffer_root; [apply Hal_lst; reflexivity | | exact Hroot'].
    unfold follow. rewrite Z.add_0_r. rewrite (mem_has_le32 _ _ _ (u32_range _) Hmoff). cbn [bind].
    rewrite Hoo, Hws40. replace (root - r - 0 =? 0) with false by lia. f_equal. ring.
Qed.
