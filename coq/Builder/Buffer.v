(* flatcc_builder_create_buffer / end_buffer for top-level buffers: the finished byte list decodes to the root value. *)
From Flatcc.Format Require Import Schema Spec SpecProofs.
From Flatcc.Builder Require Import EmitModel VMem Objects Leaves TableLayout Table.
From Coq Require Import ZifyBool Znumtheory.
Local Open Scope Z_scope.
Ltac Zify.zify_post_hook ::= Z.div_mod_to_equations.

(* the finished bytes are the virtual memory seen from emit_start *)
Lemma vmem_bytes st : st_ok st ->
  mle (vmem st) (e_start st) (restrict (mem_of_list (buffer_bytes st)) 0 (lenZ (buffer_bytes st))) 0.
Proof.
  intros (Hs & He & _) i b. unfold vmem, restrict, mem_of_list, buffer_bytes. rewrite lenZ_app.
  pose proof (lenZ_nonneg (front st)) as Hf. pose proof (lenZ_nonneg (back st)) as Hb. unfold lenZ in *.
  destruct (e_start st + i <? 0) eqn:E1.
  - destruct (e_start st <=? e_start st + i) eqn:E2; [|discriminate]. intros E.
    assert (Hi : (Z.to_nat (e_start st + i - e_start st) < length (front st))%nat) by (apply nth_error_Some; congruence).
    replace ((0 <=? 0 + i) && (0 + i <? Z.of_nat (length (front st)) + Z.of_nat (length (back st)))) with true by lia.
    replace (0 + i <? 0) with false by lia.
    rewrite nth_error_app1 by lia. rewrite <- E. f_equal. lia.
  - intros E.
    assert (Hi : (Z.to_nat (e_start st + i) < length (back st))%nat) by (apply nth_error_Some; congruence).
    replace ((0 <=? 0 + i) && (0 + i <? Z.of_nat (length (front st)) + Z.of_nat (length (back st)))) with true by lia.
    replace (0 + i <? 0) with false by lia.
    rewrite nth_error_app2 by lia. rewrite <- E. f_equal. lia.
Qed.

(* root types *)
Definition root_oty (R : root) : oty := match R with RTable t => OTable t | RStruct size al => OStruct size al end.

Lemma dec_buffer_root n Sc R v m o ds hp tgt :
  aligned ds hp 4 = true -> follow m o hp = Some tgt -> obj_holds n Sc (root_oty R) v m o ds tgt ->
  dec_buffer (dec_table n Sc) m o ds R hp = Some v.
Proof.
  intros Ha Hf Hv. unfold dec_buffer. rewrite Ha, Hf. cbn [bind]. destruct R; cbn [root_oty obj_holds] in Hv; exact Hv.
Qed.

Definition balign_ok (b : Z) : Prop := b = 0 \/ pow2 b.

Lemma zmax_pow2 a b : pow2 a -> balign_ok b -> pow2 (zmax a (if b =? 0 then 1 else b)).
Proof.
  intros Ha [->|Hb]; cbn.
  - apply pow2_max; [exact Ha | apply pow2_1].
  - pose proof (pow2_pos b Hb). replace (b =? 0) with false by lia. apply pow2_max; assumption.
Qed.

(* align_buffer_end at top level *)
Lemma align_buffer_end_top st align b_align al es st1 :
  st_ok st -> ma_ok st -> cache_ok st -> pow2 align -> balign_ok b_align -> balign_ok (block_align st) ->
  align_buffer_end st align b_align false = Some (al, es, st1) -> small st1 ->
  step st st1 /\ pow2 al /\ 4 <= al /\ align <= al /\ e_start st1 = e_start st /\ min_align st1 = min_align st /\
  e_end st <= e_end st1 < e_end st + al /\ (b_align <> 0 -> b_align <= al).
Proof.
  intros Hok Hma Hc Hal Hb Hbs E Hsm. unfold align_buffer_end in E.
  set (ba := if b_align =? 0 then if block_align st =? 0 then 1 else block_align st else b_align) in E.
  assert (Hba : pow2 ba).
  { subst ba. destruct Hb as [->|Hb]; cbn.
    - destruct Hbs as [->|Hbs]; cbn; [apply pow2_1|]. pose proof (pow2_pos _ Hbs). replace (block_align st =? 0) with false by lia. exact Hbs.
    - pose proof (pow2_pos _ Hb). replace (b_align =? 0) with false by lia. exact Hb. }
  assert (Hbb : b_align <> 0 -> b_align <= ba) by (intros Hne; subst ba; replace (b_align =? 0) with false by lia; lia).
  clearbody ba.
  assert (Hpal : pow2 (zmax (zmax align 4) ba)) by (apply pow2_max; [apply pow2_max; [exact Hal | apply pow2_4] | exact Hba]).
  assert (Hge : 4 <= zmax (zmax align 4) ba /\ align <= zmax (zmax align 4) ba /\ ba <= zmax (zmax align 4) ba).
  { unfold zmax. destruct (align <? 4) eqn:X; destruct (_ <? ba) eqn:Y; lia. }
  remember (zmax (zmax align 4) ba) as AL eqn:HAL. clear HAL.
  pose proof (back_pad_range st AL Hpal) as Hbr. pose proof (pow2_pos _ Hpal) as Hpp.
  destruct (back_pad st AL =? 0) eqn:Ep.
  - injection E as <- <- <-.
    split; [apply step_refl; assumption|].
    split; [exact Hpal|]. split; [lia|]. split; [lia|]. split; [reflexivity|]. split; [reflexivity|].
    split; lia.
  - destruct (emit_back st (zeros (back_pad st AL))) as [[[r e] st0]|] eqn:Eb; [|discriminate].
    injection E as <- <- <-.
    destruct (step_emit_back _ _ _ _ _ Hok Hma Eb Hsm) as (Hst & _ & Hs & He & Hm & Hcc & _ & _).
    rewrite lenZ_zeros in He by lia.
    split; [exact Hst|]. split; [exact Hpal|]. split; [lia|]. split; [lia|]. split; [exact Hs|]. split; [exact Hm|].
    split; lia.
Qed.

Lemma mle_restrict_sub m lo hi o : mle (restrict m lo hi) o m o.
Proof. intros i b. unfold restrict. destruct (_ && _); [auto|discriminate]. Qed.

Lemma rle_refl n Sc : rle (dec_table n Sc) (dec_table n Sc).
Proof. apply dec_table_mono. lia. Qed.

(* flatcc_builder_create_buffer, top level (not nested) *)
Lemma create_buffer_top n Sc st id b_align root align flags R v ref es st' :
  st_ok st -> ma_ok st -> cache_ok st -> pow2 align -> min_align st <= align ->
  balign_ok b_align -> balign_ok (block_align st) -> in_u32 id ->
  Z.land flags 1 = 0 ->
  e_start st <= root < 0 -> valid n Sc st (lvl_align st) (root_oty R) root v ->
  create_buffer st id b_align root align flags = Some (ref, es, st') -> small st' ->
  st_ok st' /\ e_start st' = ref /\ pow2 (min_align st') /\ 4 <= min_align st' /\ align <= min_align st' /\
  ref mod min_align st' = 0 /\
  (forall ds0, Forall (fun d => d mod min_align st' = 0) ds0 ->
     decode_mem n Sc R (negb (Z.land flags 2 =? 0)) ds0 (mem_of_list (buffer_bytes st')) (lenZ (buffer_bytes st')) = Some v) /\
  (b_align <> 0 -> b_align <= min_align st').
Proof.
  intros Hok Hma Hc Hal Hmin Hb Hbs Hid Hfl Hroot Hv E Hsm. unfold create_buffer in E.
  rewrite Hfl in E. cbn [Z.eqb negb orb] in E.
  set (ws := negb (Z.land flags 2 =? 0)) in *.
  destruct (align_buffer_end st align b_align false) as [[[al es0] st1]|] eqn:Ea; [|discriminate].
  set (st2 := set_min_align st1 al) in E.
  set (id_size := if id =? 0 then 0 else 4) in E.
  set (ws4 := if ws then 4 else 0) in E.
  set (pad := front_pad st2 (4 + id_size + ws4) al) in E.
  set (iov_len := ws4 + 4 + id_size + pad) in E.
  set (bbase := u32 (u32 (e_start st2) - u32 iov_len + ws4)) in E.
  destruct (emit_front st2 _) as [[[r e] st3]|] eqn:Ef; [|discriminate].
  injection E as <- <- <-.
  assert (Hsm2 : small st2) by (eapply emit_front_small; eauto).
  assert (Hsm1 : small st1) by (apply (small_set_min_align st1 al); exact Hsm2).
  destruct (align_buffer_end_top st align b_align al es0 st1 Hok Hma Hc Hal Hb Hbs Ea Hsm1)
    as (Hst1 & Hpal & Hal4 & Hala & Hs1 & Hm1 & _ & Hbal).
  pose proof (step_set_min_align st1 al (s_ok _ _ Hst1) (s_ma _ _ Hst1) Hpal) as Hst2. fold st2 in Hst2.
  destruct (set_min_align_fields st1 al) as (Hs2 & He2 & _ & _ & _ & _ & Hm2). fold st2 in Hs2, He2, Hm2.
  assert (Hm2' : min_align st2 = al) by (rewrite Hm2; unfold zmax; destruct (min_align st1 <? al) eqn:X; lia).
  destruct (step_emit_front _ _ _ _ _ (s_ok _ _ Hst2) (s_ma _ _ Hst2) Ef Hsm) as (Hst3 & Hr & Hs3 & He3 & Hm3 & _ & Hmem & _).
  assert (Hids : id_size = 0 \/ id_size = 4) by (subst id_size; destruct (id =? 0); lia).
  assert (Hws4 : ws4 = 0 \/ ws4 = 4) by (subst ws4; destruct ws; lia).
  pose proof (front_pad_range st2 (4 + id_size + ws4) al Hpal) as Hpr. fold pad in Hpr.
  pose proof (front_pad_aligned st2 (4 + id_size + ws4) al Hpal) as Hpa. fold pad in Hpa.
  assert (Hlen : lenZ ((if ws then le32 (u32 (u32 (e_end st2) - bbase)) else []) ++ le32 (u32 (u32 root - bbase)) ++
                        (if id =? 0 then [] else le32 id) ++ zeros pad) = iov_len).
  { subst iov_len ws4 id_size. destruct ws, (id =? 0); rewrite ?lenZ_app, ?lenZ_le32, ?lenZ_zeros by lia;
      change (lenZ []) with 0; clear Hpa; lia. }
  rewrite Hlen in Hr.
  assert (Hstep : step st st3) by exact (step_trans _ _ _ Hst1 (step_trans _ _ _ Hst2 Hst3)).
  destruct (s_ok _ _ Hst3) as (Hs3' & He3' & Hlo3 & Hhi3).
  destruct (s_ok _ _ Hst2) as (Hs2' & He2' & Hlo2 & Hhi2).
  pose proof (lenZ_nonneg (front st2)) as Hf2. pose proof (lenZ_nonneg (back st2)) as Hb2.
  pose proof (lenZ_nonneg (front st3)) as Hf3. pose proof (lenZ_nonneg (back st3)) as Hb3.
  assert (Hrm : r mod al = 0).
  { rewrite Hr. replace (e_start st2 - iov_len) with (e_start st2 - (4 + id_size + ws4) - pad) by (subst iov_len; ring). exact Hpa. }
  assert (Hbb : bbase = u32 (r + ws4)).
  { subst bbase. rewrite Hr. unfold u32. clear Hpa Hrm. lia. }
  assert (Hm3' : min_align st3 = al) by congruence.
  assert (Hlvl : lvl_align st3 = al) by (unfold lvl_align; rewrite Hm3'; unfold zmax; destruct (al <? 4) eqn:X; lia).
  assert (Hblen : lenZ (buffer_bytes st3) = e_end st3 - r) by (unfold buffer_bytes; rewrite lenZ_app; lia).
  assert (Hal4d : al mod 4 = 0).
  { eapply mod_divide_trans; [lia | apply (pow2_le_divide 4 al pow2_4 Hpal Hal4) | apply pow2_pos, Hpal | apply Z.mod_same; pose proof (pow2_pos _ Hpal); lia]. }
  split; [exact (s_ok _ _ Hst3)|]. split; [exact Hs3|]. rewrite Hm3'.
  split; [exact Hpal|]. split; [exact Hal4|]. split; [exact Hala|]. split; [exact Hrm|].
  split; [|exact Hbal].
  (* decoding *)
  intros ds0 Hds0.
  pose proof (vmem_bytes st3 (s_ok _ _ Hst3)) as Hmle. rewrite Hs3 in Hmle.
  pose proof (pow2_pos _ Hpal) as Hpp.
  assert (Hord : org_ok st3 (lvl_align st3) r (0 :: ds0)).
  { split; [lia|]. rewrite Hlvl.
    constructor.
    - replace (0 - r) with ((-1) * r) by ring. rewrite Z.mul_mod, Hrm by lia. rewrite Z.mul_0_r. reflexivity.
    - eapply Forall_impl; [|exact Hds0]. cbn. intros d Hd. rewrite Zminus_mod, Hrm, Hd by lia. reflexivity. }
  pose proof (step_valid n Sc st st3 _ _ _ Hma Hstep Hv r (0 :: ds0) Hord) as Hroot'.
  assert (Hal_lst : forall hp, hp mod 4 = 0 -> aligned (0 :: ds0) hp 4 = true).
  { intros hp Hhp. unfold aligned. apply forallb_forall. intros d Hin. apply Z.eqb_eq.
    assert (Hd4 : d mod 4 = 0).
    { destruct Hin as [<-|Hin]; [reflexivity|]. rewrite Forall_forall in Hds0. specialize (Hds0 d Hin).
      eapply mod_divide_trans; [lia | apply (pow2_le_divide 4 al pow2_4 Hpal Hal4) | exact Hpp | exact Hds0]. }
    rewrite Z.add_mod, Hd4, Hhp by lia. reflexivity. }
  assert (Hoo : u32 (u32 root - bbase) = root - r - ws4).
  { rewrite Hbb. unfold u32. clear Hpa Hrm Hal4d. lia. }
  unfold decode_mem. destruct ws eqn:Ews.
  - (* size prefixed *)
    assert (Hws44 : ws4 = 4) by (subst ws4; reflexivity).
    cbn [app] in Hmem. apply mem_has_app in Hmem. destruct Hmem as [Hmsz Hmem]. apply mem_has_app in Hmem. destruct Hmem as [Hmoff _].
    rewrite lenZ_le32 in Hmoff.
    assert (Hsz : u32 (u32 (e_end st2) - bbase) = e_end st3 - r - 4).
    { rewrite Hbb, Hws44, He3. unfold u32. unfold small in Hsm. clear Hpa Hrm Hal4d. lia. }
    assert (Hrd0 : mrd32 (mem_of_list (buffer_bytes st3)) 0 = Some (e_end st3 - r - 4)).
    { eapply (mrd32_at (vmem st3) r); [eapply mle_trans; [exact Hmle | apply mle_restrict_sub] | | ].
      2:{ rewrite <- Hsz. apply mem_has_le32; [apply u32_range | exact Hmsz]. }
      lia. }
    rewrite Hrd0. cbn [bind]. rewrite Hblen.
    replace (4 + (e_end st3 - r - 4) <=? e_end st3 - r) with true by lia.
    replace (4 + (e_end st3 - r - 4)) with (e_end st3 - r) by ring. rewrite <- Hblen.
    eapply dec_buffer_mono; [apply rle_refl | exact Hmle |].
    eapply dec_buffer_root; [apply Hal_lst; reflexivity | | exact Hroot'].
    unfold follow. rewrite (mem_has_le32 _ _ _ (u32_range _) Hmoff). cbn [bind].
    rewrite Hoo, Hws44. replace (root - r - 4 =? 0) with false by lia. f_equal. ring.
  - assert (Hws40 : ws4 = 0) by (subst ws4; reflexivity).
    cbn [app] in Hmem. apply mem_has_app in Hmem. destruct Hmem as [Hmoff _].
    eapply dec_buffer_mono; [apply rle_refl | exact Hmle |].
    eapply dec_buffer_root; [apply Hal_lst; reflexivity | | exact Hroot'].
    unfold follow. rewrite Z.add_0_r. rewrite (mem_has_le32 _ _ _ (u32_range _) Hmoff). cbn [bind].
    rewrite Hoo, Hws40. replace (root - r - 0 =? 0) with false by lia. f_equal. ring.
Qed.

(* ------------------------------------------------------------------ C15: create_buffer with is_nested *)
(* flatcc_builder_create_buffer with is_nested (the call end_buffer makes for a nested buffer): the ubyte vector
   header, its length taken from buffer_mark, the alignment of the vector data.  Given a root object that is valid
   within the window [emit_start, buffer_mark) of the nested buffer, the emitted vector
   - decodes as a nested buffer of the parent (in the memory restricted to the vector: self contained),
   - copied out, decodes on its own as a buffer of the nested root type,
   - has its data start at a virtual address that is a multiple of the nested buffer's alignment. *)
(* every address of the emitted range holds a byte *)
Lemma vmem_defined st a : st_ok st -> e_start st <= a < e_end st -> exists b, vmem st a = Some b.
Proof.
  intros (Hs & He & _) Ha. unfold vmem. pose proof (lenZ_nonneg (front st)). pose proof (lenZ_nonneg (back st)). unfold lenZ in *.
  destruct (a <? 0) eqn:E.
  - replace (e_start st <=? a) with true by lia.
    destruct (nth_error (front st) (Z.to_nat (a - e_start st))) eqn:N; [eauto|]. apply nth_error_None in N. lia.
  - destruct (nth_error (back st) (Z.to_nat a)) eqn:N; [eauto|]. apply nth_error_None in N. lia.
Qed.

Lemma mrdbytes_defined m : forall n a, (forall i, 0 <= i < Z.of_nat n -> exists b, m (a + i) = Some b) -> exists l, mrdbytes m a n = Some l.
Proof.
  induction n; intros a H; cbn [mrdbytes]; [eauto|].
  destruct (H 0 ltac:(lia)) as [b Hb]. rewrite Z.add_0_r in Hb. rewrite Hb. cbn [bind].
  destruct (IHn (a + 1)) as [l Hl].
  { intros i Hi. destruct (H (i + 1) ltac:(lia)) as [b' Hb']. exists b'. rewrite <- Hb'. f_equal. lia. }
  rewrite Hl. cbn [bind]. eauto.
Qed.

Lemma mrd32_restrict m lo hi a : lo <= a -> a + 4 <= hi -> mrd32 (restrict m lo hi) a = mrd32 m a.
Proof.
  intros H1 H2. unfold mrd32, restrict.
  replace ((lo <=? a) && (a <? hi)) with true by lia.
  replace ((lo <=? a + 1) && (a + 1 <? hi)) with true by lia.
  replace ((lo <=? a + 2) && (a + 2 <? hi)) with true by lia.
  replace ((lo <=? a + 3) && (a + 3 <? hi)) with true by lia. reflexivity.
Qed.

Lemma create_buffer_nested n Sc st id b_align root align flags R v ref es st' :
  st_ok st -> ma_ok st -> pow2 align -> min_align st <= align ->
  balign_ok b_align -> balign_ok (block_align st) -> in_u32 id ->
  Z.land flags 1 <> 0 -> Z.land flags 2 = 0 ->
  e_start st <= root < 0 -> e_start st <= buffer_mark st <= 0 ->
  (* the root is valid within the nested buffer's own window *)
  (forall o ds, org_ok st (lvl_align st) o ds ->
     obj_holds n Sc (root_oty R) v (restrict (vmem st) (e_start st) (buffer_mark st)) o ds (root - o)) ->
  create_buffer st id b_align root align flags = Some (ref, es, st') -> small st' ->
  let al := min_align st' in
  let nb := ref + 4 in
  st_ok st' /\ e_start st' = ref /\ e_end st' = e_end st /\ pow2 al /\ 4 <= al /\ align <= al /\
  nb mod al = 0 /\ ref mod 4 = 0 /\
  (* in the parent: a nested buffer, decoded in the memory restricted to the vector *)
  (forall o ds al', org_ok st' al o ds ->
     dec_nested (dec_table n Sc) (vmem st') o ds R al' (ref - o) = Some (VNested v)) /\
  (* copied out: a buffer of its own *)
  (forall ext, mem_has (vmem st') nb ext -> lenZ ext = buffer_mark st - nb ->
     decode_root n Sc R false ext = Some v).
Proof.
  intros Hok Hma Hal Hmin Hb Hbs Hid Hf1 Hf2 Hroot Hmark Hv E Hsm. unfold create_buffer in E.
  replace (Z.land flags 1 =? 0) with false in E by lia. rewrite Hf2 in E. cbn [negb Z.eqb orb] in E.
  unfold align_buffer_end in E.
  set (ba := if b_align =? 0 then if block_align st =? 0 then 1 else block_align st else b_align) in E.
  assert (Hba : pow2 ba).
  { subst ba. destruct Hb as [->|Hb]; cbn.
    - destruct Hbs as [->|Hbs]; cbn; [apply pow2_1|]. pose proof (pow2_pos _ Hbs). replace (block_align st =? 0) with false by lia. exact Hbs.
    - pose proof (pow2_pos _ Hb). replace (b_align =? 0) with false by lia. exact Hb. }
  clearbody ba.
  assert (Hpal : pow2 (zmax (zmax align 4) ba)) by (apply pow2_max; [apply pow2_max; [exact Hal | apply pow2_4] | exact Hba]).
  assert (Hge : 4 <= zmax (zmax align 4) ba /\ align <= zmax (zmax align 4) ba).
  { unfold zmax. destruct (align <? 4) eqn:X; destruct (_ <? ba) eqn:Y; lia. }
  remember (zmax (zmax align 4) ba) as AL eqn:HAL. clear HAL. destruct Hge as [HAL4 HALa].
  set (st2 := set_min_align st AL) in E.
  set (id_size := if id =? 0 then 0 else 4) in E.
  set (pad := front_pad st2 (4 + id_size + 0) AL) in E.
  set (iov_len := 4 + 4 + id_size + pad) in E.
  set (bbase := u32 (u32 (e_start st2) - u32 iov_len + 4)) in E.
  destruct (emit_front st2 _) as [[[r e] st3]|] eqn:Ef; [|discriminate].
  injection E as <- <- <-.
  pose proof (step_set_min_align st AL Hok Hma Hpal) as Hst2. fold st2 in Hst2.
  destruct (set_min_align_fields st AL) as (Hs2 & He2 & _ & _ & _ & Hctl2 & Hm2). fold st2 in Hs2, He2, Hm2, Hctl2.
  assert (Hm2' : min_align st2 = AL) by (rewrite Hm2; unfold zmax; destruct (min_align st <? AL) eqn:X; lia).
  destruct (step_emit_front _ _ _ _ _ (s_ok _ _ Hst2) (s_ma _ _ Hst2) Ef Hsm) as (Hst3 & Hr & Hs3 & He3 & Hm3 & _ & Hmem & Hlt).
  assert (Hids : id_size = 0 \/ id_size = 4) by (subst id_size; destruct (id =? 0); lia).
  pose proof (front_pad_range st2 (4 + id_size + 0) AL Hpal) as Hpr. fold pad in Hpr.
  pose proof (front_pad_aligned st2 (4 + id_size + 0) AL Hpal) as Hpa. fold pad in Hpa.
  assert (Hlen : lenZ (le32 (u32 (u32 (buffer_mark st2) - bbase)) ++ le32 (u32 (u32 root - bbase)) ++
                        (if id =? 0 then [] else le32 id) ++ zeros pad) = iov_len).
  { subst iov_len id_size. destruct (id =? 0); rewrite ?lenZ_app, ?lenZ_le32, ?lenZ_zeros by lia; change (lenZ []) with 0; clear Hpa; lia. }
  rewrite Hlen in Hr.
  destruct (s_ok _ _ Hst3) as (Hs3' & He3' & Hlo3 & Hhi3).
  destruct (s_ok _ _ Hst2) as (Hs2' & He2' & Hlo2 & Hhi2).
  pose proof (lenZ_nonneg (front st2)) as Hf2'. pose proof (lenZ_nonneg (back st2)) as Hb2'.
  pose proof (lenZ_nonneg (front st3)) as Hf3. pose proof (lenZ_nonneg (back st3)) as Hb3.
  assert (Hmk2 : buffer_mark st2 = buffer_mark st) by (destruct Hctl2 as (_ & _ & -> & _); reflexivity).
  assert (Hnbm : (r + 4) mod AL = 0).
  { rewrite Hr. replace (e_start st2 - iov_len + 4) with (e_start st2 - (4 + id_size + 0) - pad) by (subst iov_len; ring). exact Hpa. }
  pose proof (pow2_pos _ Hpal) as Hpp.
  assert (HAL4d : AL mod 4 = 0).
  { eapply mod_divide_trans; [lia | apply (pow2_le_divide 4 AL pow2_4 Hpal HAL4) | exact Hpp | apply Z.mod_same; lia]. }
  assert (Hr4 : r mod 4 = 0).
  { assert (X : (r + 4) mod 4 = 0).
    { eapply mod_divide_trans; [lia | apply (pow2_le_divide 4 AL pow2_4 Hpal HAL4) | exact Hpp | exact Hnbm]. }
    lia. }
  assert (Hbb : bbase = u32 (r + 4)).
  { subst bbase. rewrite Hr. unfold u32. clear Hpa Hnbm HAL4d Hr4. lia. }
  assert (Hm3' : min_align st3 = AL) by congruence.
  cbn zeta. rewrite Hm3'.
  split; [exact (s_ok _ _ Hst3)|]. split; [exact Hs3|]. split; [lia|]. split; [exact Hpal|]. split; [exact HAL4|].
  split; [exact HALa|]. split; [exact Hnbm|]. split; [exact Hr4|].
  apply mem_has_app in Hmem. destruct Hmem as [Hmsz Hmem]. apply mem_has_app in Hmem. destruct Hmem as [Hmoff _].
  rewrite lenZ_le32 in Hmoff.
  assert (Hszv : u32 (u32 (buffer_mark st2) - bbase) = buffer_mark st - (r + 4)).
  { rewrite Hbb, Hmk2. unfold u32. clear Hpa Hnbm HAL4d Hr4. lia. }
  assert (Hoo : u32 (u32 root - bbase) = root - (r + 4)).
  { rewrite Hbb. unfold u32. clear Hpa Hnbm HAL4d Hr4. lia. }
  assert (Hstep : step st st3) by exact (step_trans _ _ _ Hst2 Hst3).
  (* the child's level alignment divides AL *)
  assert (HMdiv : (lvl_align st | AL)).
  { apply pow2_le_divide; [apply lvl_align_pow2, Hma | exact Hpal |]. unfold lvl_align, zmax. destruct (min_align st <? 4); lia. }
  (* the root inside the window [r + 4, mark), origin r + 4, any admissible references *)
  assert (Hin : forall ds', Forall (fun d => (d - (r + 4)) mod lvl_align st = 0) ds' ->
            dec_buffer (dec_table n Sc) (restrict (vmem st3) (r + 4) (buffer_mark st)) (r + 4) ds' R 0 = Some v).
  { intros ds' Hds'.
    assert (Ho : org_ok st (lvl_align st) (r + 4) ds') by (split; [lia | exact Hds']).
    pose proof (Hv _ _ Ho) as Hrv.
    assert (Hm' : mle (restrict (vmem st) (e_start st) (buffer_mark st)) (r + 4) (restrict (vmem st3) (r + 4) (buffer_mark st)) (r + 4)).
    { intros i b. unfold restrict. destruct ((e_start st <=? r + 4 + i) && (r + 4 + i <? buffer_mark st)) eqn:X; [|discriminate].
      replace ((r + 4 <=? r + 4 + i) && (r + 4 + i <? buffer_mark st)) with true by lia. apply (s_ext _ _ Hstep). }
    pose proof (obj_holds_mono n n Sc _ _ _ _ _ _ ds' _ (le_n n) Hm' Hrv) as Hrv'.
    eapply dec_buffer_root; [| | exact Hrv'].
    - unfold aligned. apply forallb_forall. intros d Hd. apply Z.eqb_eq. rewrite Forall_forall in Hds'. specialize (Hds' d Hd).
      assert (X : (d - (r + 4)) mod 4 = 0).
      { eapply mod_divide_trans; [lia | apply div4_lvl, Hma | apply lvl_pos | exact Hds']. }
      clear Hpa Hnbm. lia.
    - unfold follow. rewrite Z.add_0_r. rewrite mrd32_restrict by lia.
      rewrite (mem_has_le32 _ _ _ (u32_range _) Hmoff). cbn [bind].
      rewrite Hoo. replace (root - (r + 4) =? 0) with false by lia. rewrite Z.add_0_l. reflexivity. }
  split.
  - (* nested in the parent *)
    intros o ds al' [Holo Hods]. unfold dec_nested.
    assert (Ha4 : aligned ds (r - o) 4 = true).
    { unfold aligned. apply forallb_forall. intros d Hd. apply Z.eqb_eq. rewrite Forall_forall in Hods. specialize (Hods d Hd).
      assert (X : (d - o) mod 4 = 0) by (eapply mod_divide_trans; [lia | apply (pow2_le_divide 4 AL pow2_4 Hpal HAL4) | exact Hpp | exact Hods]).
      clear Hpa Hnbm. lia. }
    rewrite Ha4. replace (o + (r - o)) with r by ring.
    rewrite (mem_has_le32 _ _ _ (u32_range _) Hmsz). cbn [bind]. rewrite Hszv.
    replace (o + (r - o + 4)) with (r + 4) by ring.
    destruct (mrdbytes_defined (vmem st3) (Z.to_nat (buffer_mark st - (r + 4))) (r + 4)) as [l Hl].
    { intros i Hi. apply vmem_defined; [exact (s_ok _ _ Hst3)|]. lia. }
    rewrite Hl. cbn [bind].
    replace (r + 4 + (buffer_mark st - (r + 4))) with (buffer_mark st) by ring.
    rewrite (Hin (map (Z.add (r - o + 4)) ds)); [reflexivity|].
    rewrite Forall_map. eapply Forall_impl; [|exact Hods]. cbn. intros d Hd.
    replace (r - o + 4 + d - (r + 4)) with (d - o) by ring.
    eapply mod_divide_trans; [apply lvl_pos | exact HMdiv | exact Hpp | exact Hd].
  - (* copied out *)
    intros ext Hext Hlenx. unfold decode_root, decode_mem. fold (lenZ ext).
    eapply dec_buffer_mono; [apply rle_refl | | apply (Hin [0])].
    + intros i b. unfold restrict, mem_of_list. destruct ((r + 4 <=? r + 4 + i) && (r + 4 + i <? buffer_mark st)) eqn:X; [|discriminate].
      intros Hb'. replace ((0 <=? 0 + i) && (0 + i <? lenZ ext)) with true by lia. replace (0 + i <? 0) with false by lia.
      assert (Hi : (Z.to_nat i < length ext)%nat) by (unfold lenZ in Hlenx; lia).
      pose proof (Hext (Z.to_nat i) Hi) as Hx. replace (Z.of_nat (Z.to_nat i)) with i in Hx by lia.
      rewrite Z.add_0_l. rewrite <- Hx. exact Hb'.
    + constructor; [|constructor]. replace (0 - (r + 4)) with ((-1) * (r + 4)) by ring.
      assert (X : (r + 4) mod lvl_align st = 0) by (eapply mod_divide_trans; [apply lvl_pos | exact HMdiv | exact Hpp | exact Hnbm]).
      pose proof (lvl_pos st). rewrite Z.mul_mod, X by lia. rewrite Z.mul_0_r. reflexivity.
Qed.
