(* flatcc_builder_create_buffer / end_buffer for top-level buffers: the finished byte list decodes to the root value. *)
From Flatcc.Format Require Import Schema Spec SpecProofs.
From Flatcc.Builder Require Import EmitModel VMem Objects Leaves TableLayout Table.
From Coq Require Import ZifyBool Znumtheory.
Local Open Scope Z_scope.
Ltac Zify.zify_post_hook ::= Z.div_mod_to_equations.

(* the finished bytes are the virtual memory seen from emit_start *)
Lemma vmem_bytes st : st_ok st ->
  mle (vmem st) (e_start st) (restrict (mem_of_list (buffer_bytes st)) 0 (lenZ (buffer_bytes st))) 0.
Proof.
  intros (Hs & He & _) i b. unfold vmem, restrict, mem_of_list, buffer_bytes. rewrite lenZ_app.
  pose proof (lenZ_nonneg (front st)) as Hf. pose proof (lenZ_nonneg (back st)) as Hb. unfold lenZ in *.
  destruct (e_start st + i <? 0) eqn:E1.
  - destruct (e_start st <=? e_start st + i) eqn:E2; [|discriminate]. intros E.
    assert (Hi : (Z.to_nat (e_start st + i - e_start st) < length (front st))%nat) by (apply nth_error_Some; congruence).
    replace ((0 <=? 0 + i) && (0 + i <? Z.of_nat (length (front st)) + Z.of_nat (length (back st)))) with true by lia.
    replace (0 + i <? 0) with false by lia.
    rewrite nth_error_app1 by lia. rewrite <- E. f_equal. lia.
  - intros E.
    assert (Hi : (Z.to_nat (e_start st + i) < length (back st))%nat) by (apply nth_error_Some; congruence).
    replace ((0 <=? 0 + i) && (0 + i <? Z.of_nat (length (front st)) + Z.of_nat (length (back st)))) with true by lia.
    replace (0 + i <? 0) with false by lia.
    rewrite nth_error_app2 by lia. rewrite <- E. f_equal. lia.
Qed.

(* root types *)
Definition root_oty (R : root) : oty := match R with RTable t => OTable t | RStruct size al => OStruct size al end.

Lemma dec_buffer_root n Sc R v m o ds hp tgt :
  aligned ds hp 4 = true -> follow m o hp = Some tgt -> obj_holds n Sc (root_oty R) v m o ds tgt ->
  dec_buffer (dec_table n Sc) m o ds R hp = Some v.
Proof.
  intros Ha Hf Hv. unfold dec_buffer. rewrite Ha, Hf. cbn [bind]. destruct R; cbn [root_oty obj_holds] in Hv; exact Hv.
Qed.

Definition balign_ok (b : Z) : Prop := b = 0 \/ pow2 b.

Lemma zmax_pow2 a b : pow2 a -> balign_ok b -> pow2 (zmax a (if b =? 0 then 1 else b)).
Proof.
  intros Ha [->|Hb]; cbn.
  - apply pow2_max; [exact Ha | apply pow2_1].
  - pose proof (pow2_pos b Hb). replace (b =? 0) with false by lia. apply pow2_max; assumption.
Qed.

(* align_buffer_end at top level *)
Lemma align_buffer_end_top st align b_align al es st1 :
  st_ok st -> ma_ok st -> cache_ok st -> pow2 align -> balign_ok b_align -> balign_ok (block_align st) ->
  align_buffer_end st align b_align false = Some (al, es, st1) -> small st1 ->
  step st st1 /\ pow2 al /\ 4 <= al /\ align <= al /\ e_start st1 = e_start st /\ min_align st1 = min_align st /\
  e_end st1 mod al = 0 /\ (b_align <> 0 -> b_align <= al).
Proof.
  intros Hok Hma Hc Hal Hb Hbs E Hsm. unfold align_buffer_end in E.
  set (ba := if b_align =? 0 then if block_align st =? 0 then 1 else block_align st else b_align) in E.
  assert (Hba : pow2 ba).
  { subst ba. destruct Hb as [->|Hb]; cbn.
    - destruct Hbs as [->|Hbs]; cbn; [apply pow2_1|]. pose proof (pow2_pos _ Hbs). replace (block_align st =? 0) with false by lia. exact Hbs.
    - pose proof (pow2_pos _ Hb). replace (b_align =? 0) with false by lia. exact Hb. }
  assert (Hbb : b_align <> 0 -> b_align <= ba) by (intros Hne; subst ba; replace (b_align =? 0) with false by lia; lia).
  clearbody ba.
  assert (Hpal : pow2 (zmax (zmax align 4) ba)) by (apply pow2_max; [apply pow2_max; [exact Hal | apply pow2_4] | exact Hba]).
  assert (Hge : 4 <= zmax (zmax align 4) ba /\ align <= zmax (zmax align 4) ba /\ ba <= zmax (zmax align 4) ba).
  { unfold zmax. destruct (align <? 4) eqn:X; destruct (_ <? ba) eqn:Y; lia. }
  remember (zmax (zmax align 4) ba) as AL eqn:HAL. clear HAL.
  destruct (back_pad_aligned st AL Hpal) as [Hbr Hbm].
  destruct (back_pad st AL =? 0) eqn:Ep.
  - injection E as <- <- <-.
    split; [apply step_refl; assumption|].
    split; [exact Hpal|]. split; [lia|]. split; [lia|]. split; [reflexivity|]. split; [reflexivity|].
    split; [|lia]. replace (back_pad st AL) with 0 in Hbm by lia. rewrite Z.add_0_r in Hbm. exact Hbm.
  - destruct (emit_back st (zeros (back_pad st AL))) as [[[r e] st0]|] eqn:Eb; [|discriminate].
    injection E as <- <- <-.
    destruct (step_emit_back _ _ _ _ _ Hok Hma Eb Hsm) as (Hst & _ & Hs & He & Hm & Hcc & _ & _).
    rewrite lenZ_zeros in He by lia.
    split; [exact Hst|]. split; [exact Hpal|]. split; [lia|]. split; [lia|]. split; [exact Hs|]. split; [exact Hm|].
    split; [rewrite He; exact Hbm | lia].
Qed.
