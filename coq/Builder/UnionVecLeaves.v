(* flatcc_builder_create_union_vector_direct: the value vector (offset vector with 0 for NONE) and the type vector,
   and how the two halves combine into Spec.dec_uvec. *)
From Flatcc.Format Require Import Schema Spec SpecProofs.
From Flatcc.Builder Require Import EmitModel VMem Objects Leaves OffVec TableLayout Table Buffer NestedBase NestedLeaves.
From Coq Require Import ZifyBool Znumtheory.
Local Open Scope Z_scope.
Ltac Zify.zify_post_hook ::= Z.div_mod_to_equations.

Lemma concat_code_elems cs : concat (code_elems cs) = cs.
Proof. induction cs as [|c t IH]; [reflexivity|]. cbn. f_equal. exact IH. Qed.

Lemma length_code_elems cs : length (code_elems cs) = length cs.
Proof. apply map_length. Qed.

(* ------------------------------------------------------------------ reading the patched value vector *)
Definition uelem_rd (rec : tdec) (Sc : schema) (m : mem) (o : Z) (ds : list Z) (u : nat) (top : Z) (r : Z) (e : Z * option value) : Prop :=
  match e with
  | (c, None) => c = 0 /\ r = 0
  | (c, Some v) => c <> 0 /\ top <= r < 0 /\ dec_member rec Sc m o ds u c (r - o) = Some v
  end.

Lemma uval_elems_patch rec Sc m o ds u base top : forall refs es i,
  0 <= i -> - 2147483648 <= base ->
  base + 4 + 4 * (i + lenZ refs) <= top ->
  mem_has m (base + 4 + 4 * i) (patch_offsets base i refs) ->
  Forall2 (uelem_rd rec Sc m o ds u top) refs es ->
  uval_elems rec Sc m o ds u (base + 4 + 4 * i - o) es.
Proof.
  induction refs as [|r t IH]; intros es i Hi Hb Htop Hm Hf.
  - inversion Hf. exact I.
  - inversion Hf as [|? e ? es' He Hf']; subst. cbn [patch_offsets] in Hm.
    apply mem_has_app in Hm. destruct Hm as [Hm1 Hm2].
    assert (Hl : lenZ (r :: t) = 1 + lenZ t) by (unfold lenZ; cbn [length]; lia).
    pose proof (lenZ_nonneg t) as Hlt.
    assert (Hrest : uval_elems rec Sc m o ds u (base + 4 + 4 * i - o + 4) es').
    { replace (base + 4 + 4 * i - o + 4) with (base + 4 + 4 * (i + 1) - o) by ring.
      apply (IH es' (i + 1)); [lia | lia | lia | | exact Hf'].
      assert (Hl4 : lenZ (if r =? 0 then le32 0 else le32 (u32 (r - base - i * 4 - 4))) = 4) by (destruct (r =? 0); reflexivity).
      rewrite Hl4 in Hm2. replace (base + 4 + 4 * (i + 1)) with (base + 4 + 4 * i + 4) by ring. exact Hm2. }
    destruct e as [c [v|]]; cbn [uelem_rd] in He; cbn [uval_elems].
    + destruct He as (Hc & Hr & Hd). split; [exact Hc|]. split; [|exact Hrest].
      replace (r =? 0) with false in Hm1 by lia.
      exists (r - base - i * 4 - 4).
      replace (o + (base + 4 + 4 * i - o)) with (base + 4 + 4 * i) by ring.
      split.
      { rewrite <- (u32_id (r - base - i * 4 - 4)) at 1 by (unfold in_u32; lia).
        apply mem_has_le32; [apply u32_range | exact Hm1]. }
      split; [lia|].
      replace (base + 4 + 4 * i - o + (r - base - i * 4 - 4)) with (r - o) by ring. exact Hd.
    + destruct He as (Hc & ->). split; [exact Hc|]. split; [|exact Hrest].
      cbn [Z.eqb] in Hm1. replace (o + (base + 4 + 4 * i - o)) with (base + 4 + 4 * i) by ring.
      apply mem_has_le32; [unfold in_u32; lia | exact Hm1].
Qed.

(* ------------------------------------------------------------------ the two halves give dec_uvec *)
Lemma dec_uelems_join rec Sc m o ds u : forall es tp vp,
  mem_has m (o + tp) (codes_of es) -> uval_elems rec Sc m o ds u vp es ->
  dec_uelems rec Sc m o ds u tp vp (length es) = Some es.
Proof.
  induction es as [|[c ov] t IH]; intros tp vp Ht Hv; [reflexivity|].
  cbn [length dec_uelems].
  assert (Hc0 : codes_of ((c, ov) :: t) = c :: codes_of t) by reflexivity. rewrite Hc0 in Ht.
  pose proof (Ht 0%nat ltac:(cbn; lia)) as H0. cbn in H0. rewrite Z.add_0_r in H0. rewrite H0. cbn [bind].
  assert (Ht' : mem_has m (o + (tp + 1)) (codes_of t)).
  { intros i Hi. replace (o + (tp + 1) + Z.of_nat i) with (o + tp + Z.of_nat (S i)) by lia.
    rewrite (Ht (S i)) by (cbn [length]; lia). reflexivity. }
  destruct ov as [v|]; cbn [uval_elems] in Hv.
  - destruct Hv as (Hc & (off & Ho & Hnz & Hd) & Hr). rewrite Ho. cbn [bind].
    replace (c =? 0) with false by lia. replace (off =? 0) with false by lia. rewrite Hd. cbn [bind].
    rewrite (IH _ _ Ht' Hr). reflexivity.
  - destruct Hv as (-> & Ho & Hr). rewrite Ho. cbn [bind Z.eqb].
    rewrite (IH _ _ Ht' Hr). reflexivity.
Qed.

Lemma dec_uvec_join n Sc m o ds u es tp vp :
  utype_holds (codes_of es) m o ds tp -> uval_holds n Sc u es m o ds vp ->
  dec_uvec (dec_table n Sc) Sc m o ds u tp vp = Some (VUnionVec es).
Proof.
  intros (Hat & Hlt & Hmt) (Hav & Hlv & Hmx & Hev). unfold dec_uvec. rewrite Hat, Hav. cbn [andb].
  rewrite Hlt, Hlv. cbn [bind].
  assert (Hl : lenZ (codes_of es) = Z.of_nat (length es)) by (unfold lenZ, codes_of; rewrite map_length; reflexivity).
  rewrite Hl. rewrite Z.eqb_refl. replace (Z.of_nat (length es) <=? Spec.MAX_OFFSET_COUNT) with true by lia. cbn [andb].
  rewrite Nat2Z.id.
  rewrite (dec_uelems_join (dec_table n Sc) Sc m o ds u es (tp + 4) (vp + 4)); [reflexivity | | exact Hev].
  replace (o + (tp + 4)) with (o + tp + 4) by ring. exact Hmt.
Qed.

Lemma F2_len {A B} (P : A -> B -> Prop) l1 l2 : Forall2 P l1 l2 -> length l1 = length l2.
Proof. induction 1; cbn; congruence. Qed.

(* ------------------------------------------------------------------ create_union_vector_direct *)
Definition uelem_ok (n : nat) (Sc : schema) (st : est) (u : nat) (r : Z) (e : Z * option value) : Prop :=
  match e with
  | (c, None) => c = 0 /\ r = 0
  | (c, Some v) => c <> 0 /\ e_start st <= r < 0 /\
                   exists mem, union_member Sc u c = Some mem /\ xvalid n Sc st (lvl_align st) (XBase (member_oty mem)) r v
  end.

Lemma xcreate_union_vector n Sc st u es refs tref vref ems st' :
  st_ok st -> ma_ok st -> win_ok st ->
  Forall2 (uelem_ok n Sc st u) refs es ->
  create_union_vector st (codes_of es) refs = Some (tref, vref, ems, st') -> small st' ->
  step st st' /\ e_start st' = tref /\ tref < vref /\ vref < e_start st /\ e_end st' = e_end st /\ vcache st' = vcache st /\
  xvalid n Sc st' (lvl_align st') (XUVal u) vref (VUnionVec es) /\
  xvalid n Sc st' (lvl_align st') XUType tref (VVec (code_elems (codes_of es))).
Proof.
  intros Hok Hma Hw Hch E Hsm. unfold create_union_vector in E.
  destruct (create_offset_vector st refs) as [[[vr e1] st1]|] eqn:E1; [|discriminate].
  destruct (create_vector st1 (codes_of es) (lenZ (codes_of es)) 1 1 MAX_UTYPE_COUNT) as [[[tr e2] st2]|] eqn:E2; [|discriminate].
  injection E as <- <- <- <-.
  assert (Hsm1 : small st1).
  { unfold create_vector in E2. destruct (_ <? _); [discriminate|]. apply emit_front_small in E2; [|exact Hsm].
    apply small_set_min_align in E2. exact E2. }
  destruct (xcreate_offvec_layout st refs vr e1 st1 Hok Hma Hw E1 Hsm1)
    as (Hst1 & Hs1 & Hlt1 & He1 & Hc1 & Hr4 & Hcnt & Hlo & Htop & Hm2 & Hm3).
  pose proof (win_ok_step _ _ Hst1 Hw) as Hw1.
  assert (Hlen : lenZ refs = Z.of_nat (length es)) by (unfold lenZ; rewrite (F2_len _ _ _ Hch); reflexivity).
  (* the value vector, in st1 *)
  assert (Hval : xvalid n Sc st1 (lvl_align st1) (XUVal u) vr (VUnionVec es)).
  { intros o ds Ho. cbn [xholds]. exists es. split; [reflexivity|]. unfold uval_holds.
    assert (Hdiv4 : (4 | lvl_align st1)) by (apply div4_lvl; exact (s_ma _ _ Hst1)).
    split; [exact (aligned_intro st1 (lvl_align st1) o ds vr 4 Ho Hr4 ltac:(lia) Hdiv4 (lvl_pos st1))|].
    replace (o + (vr - o)) with vr by ring.
    pose proof (lenZ_nonneg refs) as Hl0. unfold MAX_OFFSET_COUNT in Hcnt.
    split; [rewrite <- Hlen; apply mem_has_le32; [unfold in_u32; lia | exact Hm2]|].
    split; [unfold Spec.MAX_OFFSET_COUNT; lia|].
    replace (vr - o + 4) with (vr + 4 + 4 * 0 - o) by ring.
    apply (uval_elems_patch (dec_table n Sc) Sc (wmem st1) o ds u vr (e_start st) refs es 0); [lia | lia | lia | | ].
    - replace (vr + 4 + 4 * 0) with (vr + 4) by ring. exact Hm3.
    - eapply Forall2_imp; [|exact Hch]. intros r [c [v|]]; cbn [uelem_ok uelem_rd]; [|tauto].
      intros (Hc & Hr & mem & Hmem & Hv). split; [exact Hc|]. split; [lia|].
      pose proof (step_xvalid n Sc st st1 _ r v Hma Hst1 Hv o ds Ho) as Hv'.
      unfold dec_member. rewrite Hmem. destruct mem; cbn [member_oty xholds obj_holds] in Hv'; exact Hv'. }
  (* the type vector *)
  assert (Hce : Forall (fun e => lenZ e = 1) (code_elems (codes_of es))).
  { unfold code_elems. rewrite Forall_map. apply Forall_forall. intros; reflexivity. }
  rewrite <- (concat_code_elems (codes_of es)) in E2 at 1.
  destruct (xcreate_vector n Sc st1 (code_elems (codes_of es)) (lenZ (codes_of es)) 1 1 MAX_UTYPE_COUNT tr e2 st2
              (s_ok _ _ Hst1) (s_ma _ _ Hst1) Hw1 pow2_1 ltac:(unfold U32_MAX; lia) Hce
              ltac:(unfold lenZ; rewrite length_code_elems; reflexivity) ltac:(unfold MAX_UTYPE_COUNT, U32_MAX; lia) E2 Hsm)
    as (Hst2 & Hs2 & Hlt2 & He2 & Hc2 & _ & Hr4' & Hmc & Hmd).
  rewrite concat_code_elems in Hmd.
  split; [exact (step_trans _ _ _ Hst1 Hst2)|]. split; [exact Hs2|]. split; [lia|]. split; [lia|]. split; [lia|].
  split; [congruence|]. split.
  - exact (step_xvalid n Sc st1 st2 _ _ _ (s_ma _ _ Hst1) Hst2 Hval).
  - intros o ds Ho. cbn [xholds]. exists (codes_of es). split; [reflexivity|]. unfold utype_holds.
    assert (Hdiv4 : (4 | lvl_align st2)) by (apply div4_lvl; exact (s_ma _ _ Hst2)).
    split; [exact (aligned_intro st2 (lvl_align st2) o ds tr 4 Ho Hr4' ltac:(lia) Hdiv4 (lvl_pos st2))|].
    replace (o + (tr - o)) with tr by ring.
    pose proof (lenZ_nonneg refs) as Hl0. unfold MAX_OFFSET_COUNT in Hcnt.
    assert (Hlc : lenZ (codes_of es) = Z.of_nat (length es)) by (unfold lenZ, codes_of; rewrite map_length; reflexivity).
    split; [apply mem_has_le32; [unfold in_u32; lia | exact Hmc] | exact Hmd].
Qed.
