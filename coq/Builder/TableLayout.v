(* The table frame: where table_add / table_add_offset put the fields (place), the data area (table_data) and the
   vtable (vtable_bytes) built from them. *)
From Flatcc.Format Require Import Schema Spec SpecProofs.
From Flatcc.Builder Require Import EmitModel VMem Objects.
From Coq Require Import ZifyBool Znumtheory.
Local Open Scope Z_scope.
Ltac Zify.zify_post_hook ::= Z.div_mod_to_equations.

(* ------------------------------------------------------------------ alignup_uoffset *)
Lemma land_u32_r y z : 0 <= y < 4294967296 -> Z.land y (u32 z) = Z.land y z.
Proof.
  intros Hy. unfold u32. change 4294967296 with (2 ^ 32).
  rewrite <- (Z.land_ones z 32) by lia. rewrite (Z.land_comm z), Z.land_assoc.
  rewrite (Z.land_ones y 32) by lia. rewrite Z.mod_small by (change (2 ^ 32) with 4294967296; lia). reflexivity.
Qed.

Lemma alignup_spec x a : pow2 a -> 0 <= x -> x + a <= 4294967296 ->
  alignup x a = (x + a - 1) / a * a.
Proof.
  intros [k [Hk ->]] Hx Hxa. unfold alignup.
  assert (Hp : 0 < 2 ^ k) by (apply Z.pow_pos_nonneg; lia).
  assert (Hpk : 2 ^ k <= 2 ^ 15) by (apply Z.pow_le_mono_r; lia). change (2 ^ 15) with 32768 in Hpk.
  rewrite (u32_id (x + 2 ^ k - 1)) by (unfold in_u32; lia).
  rewrite (u32_id (2 ^ k - 1)) by (unfold in_u32; lia).
  rewrite land_u32_r by lia.
  replace (2 ^ k - 1) with (Z.ones k) by (rewrite Z.ones_equiv; lia).
  rewrite <- Z.ldiff_land. rewrite Z.ldiff_ones_r by lia.
  rewrite Z.shiftr_div_pow2, Z.shiftl_mul_pow2 by lia. reflexivity.
Qed.

Lemma alignup_facts x a : pow2 a -> 0 <= x -> x + a <= 4294967296 ->
  x <= alignup x a < x + a /\ alignup x a mod a = 0.
Proof.
  intros Ha Hx Hxa. rewrite alignup_spec by assumption. pose proof (pow2_pos a Ha) as Hp.
  split; [|apply Z.mod_mul; lia].
  pose proof (Z.div_mod (x + a - 1) a ltac:(lia)). pose proof (Z.mod_pos_bound (x + a - 1) a Hp). nia.
Qed.

(* ------------------------------------------------------------------ well formed add lists *)
Definition farg_size (a : farg) : Z := match a with AInline _ s _ _ => s | AOffset _ _ => 4 end.
Definition farg_align (a : farg) : Z := match a with AInline _ _ al _ => al | AOffset _ _ => 4 end.

Definition farg_wf (a : farg) : Prop :=
  0 <= farg_id a < 32765 /\ 0 <= farg_size a <= 65535 /\ pow2 (farg_align a) /\ farg_align a <= 256 /\
  match a with AInline _ s _ bytes => lenZ bytes = s | AOffset _ _ => True end.

Definition payload (a : farg) (base o : Z) : list Z :=
  match a with
  | AInline _ size _ bytes => firstn (Z.to_nat size) (bytes ++ zeros size)
  | AOffset _ ref => le32 (u32 (u32 ref - base - o - 4))
  end.

Lemma payload_len a base o : farg_wf a -> lenZ (payload a base o) = farg_size a.
Proof.
  intros (Hid & Hs & Hal & _ & Hb). destruct a; cbn [payload farg_size] in *; [|reflexivity].
  unfold lenZ in *. rewrite firstn_length, app_length. unfold zeros. rewrite repeat_length. lia.
Qed.

Lemma payload_inline id size al bytes base o : lenZ bytes = size -> payload (AInline id size al bytes) base o = bytes.
Proof.
  intros H. cbn [payload]. unfold lenZ in H. rewrite <- H, Nat2Z.id.
  rewrite firstn_app, Nat.sub_diag, firstn_all. cbn [firstn]. apply app_nil_r.
Qed.

(* placements in increasing, non overlapping order starting at or after cur *)
Fixpoint sorted_from (cur : Z) (placed : list (farg * Z)) : Prop :=
  match placed with
  | [] => True
  | (a, o) :: r => cur <= o /\ o mod farg_align a = 0 /\ sorted_from (o + farg_size a) r
  end.

Fixpoint placed_end (cur : Z) (placed : list (farg * Z)) : Z :=
  match placed with
  | [] => cur
  | (a, o) :: r => placed_end (o + farg_size a) r
  end.

Lemma sorted_from_end cur placed : sorted_from cur placed -> Forall (fun ao => farg_wf (fst ao)) placed -> cur <= placed_end cur placed.
Proof.
  revert cur. induction placed as [|[a o] r IH]; intros cur Hs Hw; cbn in *; [lia|].
  destruct Hs as (H1 & _ & H3). inversion Hw as [|? ? Hwa Hwr]; subst. cbn in Hwa.
  destruct Hwa as (_ & Hsz & _). specialize (IH _ H3 Hwr). lia.
Qed.

Lemma place_fst_map adds : forall off, map fst (fst (place adds off)) = adds.
Proof.
  induction adds as [|a r IH]; intros off; [reflexivity|].
  cbn [place]. destruct a; cbn.
  - destruct (place r _) as [pl fin] eqn:E. cbn. f_equal. rewrite <- (IH (u32 (alignup off align + size))). rewrite E. reflexivity.
  - destruct (place r _) as [pl fin] eqn:E. cbn. f_equal. rewrite <- (IH (u32 (alignup off 4 + 4))). rewrite E. reflexivity.
Qed.

(* no wrap as long as the running offset stays far below 2^32; 65790 bounds one step (padding < 256, size <= 65535) *)
Lemma place_ok : forall adds off placed fin,
  Forall farg_wf adds -> 0 <= off -> off + 65790 * Z.of_nat (length adds) < 4294967296 ->
  place adds off = (placed, fin) ->
  sorted_from off placed /\ fin = placed_end off placed /\ off <= fin.
Proof.
  induction adds as [|a r IH]; intros off placed fin Hw Hoff Hb E.
  - cbn in E. injection E as <- <-. cbn. lia.
  - inversion Hw as [|? ? Hwa Hwr]; subst.
    destruct Hwa as (Hid & Hsz & Hal & Hal256 & Hb').
    cbn [length] in Hb. cbn [place] in E.
    assert (Hstep : forall o sz, (o, sz) = (alignup off (farg_align a), farg_size a) ->
              match a with AInline _ size align _ => (alignup off align, size) | AOffset _ _ => (alignup off 4, 4) end = (o, sz)).
    { intros o sz Hq. destruct a; cbn in Hq; congruence. }
    rewrite (Hstep _ _ eq_refl) in E.
    destruct (alignup_facts off (farg_align a) Hal Hoff ltac:(lia)) as [Hrange Hmod].
    rewrite (u32_id (alignup off (farg_align a) + farg_size a)) in E by (unfold in_u32; clear Hmod; lia).
    destruct (place r (alignup off (farg_align a) + farg_size a)) as [pl f'] eqn:E'.
    injection E as <- <-.
    assert (Hn1 : 0 <= alignup off (farg_align a) + farg_size a) by (clear Hmod; lia).
    assert (Hn2 : alignup off (farg_align a) + farg_size a + 65790 * Z.of_nat (length r) < 4294967296) by (clear Hmod; lia).
    destruct (IH _ _ _ Hwr Hn1 Hn2 E') as (Hs & Hf & Hle).
    cbn [sorted_from placed_end]. split; [|split; [exact Hf | clear Hmod; lia]].
    split; [lia|]. split; [exact Hmod | exact Hs].
Qed.

(* ------------------------------------------------------------------ the data area *)
Lemma table_data_len base : forall placed cur,
  Forall (fun ao => farg_wf (fst ao)) placed -> sorted_from cur placed ->
  lenZ (table_data placed base cur) = placed_end cur placed - cur.
Proof.
  induction placed as [|[a o] r IH]; intros cur Hw Hs; cbn [table_data placed_end]; [unfold lenZ; cbn; lia|].
  inversion Hw as [|? ? Hwa Hwr]; subst. cbn [fst] in Hwa. destruct Hs as (H1 & H2 & H3).
  fold (payload a base o). rewrite !lenZ_app, lenZ_zeros by lia.
  rewrite (payload_len a base o Hwa). rewrite (IH _ Hwr H3). lia.
Qed.

Lemma table_data_has m base A : forall placed cur,
  Forall (fun ao => farg_wf (fst ao)) placed -> sorted_from cur placed ->
  mem_has m (A + cur) (table_data placed base cur) ->
  forall a o, In (a, o) placed -> mem_has m (A + o) (payload a base o).
Proof.
  induction placed as [|[a0 o0] r IH]; intros cur Hw Hs Hm a o Hin; [destruct Hin|].
  inversion Hw as [|? ? Hwa Hwr]; subst. cbn [fst] in Hwa. destruct Hs as (H1 & H2 & H3).
  cbn [table_data] in Hm. fold (payload a0 base o0) in Hm.
  apply mem_has_app in Hm. destruct Hm as [_ Hm]. rewrite lenZ_zeros in Hm by lia.
  apply mem_has_app in Hm. destruct Hm as [Hp Hrest].
  replace (A + cur + (o0 - cur)) with (A + o0) in * by ring.
  destruct Hin as [Heq|Hin].
  - injection Heq as <- <-. exact Hp.
  - eapply (IH (o0 + lenZ (payload a0 base o0))); eauto.
    + rewrite (payload_len a0 base o0 Hwa). exact H3.
    + replace (A + (o0 + lenZ (payload a0 base o0))) with (A + o0 + lenZ (payload a0 base o0)) by ring. exact Hrest.
Qed.

Lemma sorted_in_bounds : forall placed cur a o,
  Forall (fun ao => farg_wf (fst ao)) placed -> sorted_from cur placed -> In (a, o) placed ->
  cur <= o /\ o mod farg_align a = 0 /\ o + farg_size a <= placed_end cur placed.
Proof.
  induction placed as [|[a0 o0] r IH]; intros cur a o Hw Hs Hin; [destruct Hin|].
  inversion Hw as [|? ? Hwa Hwr]; subst. cbn [fst] in Hwa. destruct Hs as (H1 & H2 & H3). cbn [placed_end].
  destruct Hin as [Heq|Hin].
  - injection Heq as <- <-. pose proof (sorted_from_end _ _ H3 Hwr). lia.
  - destruct (IH _ _ _ Hwr H3 Hin) as (Ha & Hb & Hc). destruct Hwa as (_ & Hsz & _). lia.
Qed.

(* ------------------------------------------------------------------ the vtable *)
Lemma vs_lookup_range placed id : 0 <= vs_lookup placed id < 65536.
Proof.
  induction placed as [|[a o] r IH]; cbn [vs_lookup]; [lia|].
  destruct (farg_id a =? id); [unfold u16; lia | exact IH].
Qed.

Lemma vs_entries_len placed : forall n i, lenZ (vs_entries placed i n) = 2 * Z.of_nat n.
Proof.
  induction n; intros i; [reflexivity|]. cbn [vs_entries]. rewrite lenZ_app, IHn, lenZ_le16. lia.
Qed.

Lemma vs_entries_rd m placed : forall n i a j,
  mem_has m a (vs_entries placed i n) -> 0 <= j < Z.of_nat n ->
  mrd16 m (a + 2 * j) = Some (vs_lookup placed (i + j)).
Proof.
  induction n; intros i a j Hm Hj; [lia|].
  cbn [vs_entries] in Hm. apply mem_has_app in Hm. destruct Hm as [H1 H2]. rewrite lenZ_le16 in H2.
  destruct (Z.eq_dec j 0) as [->|Hne].
  - rewrite Z.mul_0_r, !Z.add_0_r. apply mem_has_le16; [apply vs_lookup_range | exact H1].
  - replace (a + 2 * j) with (a + 2 + 2 * (j - 1)) by ring. replace (i + j) with (i + 1 + (j - 1)) by ring.
    apply IHn; [exact H2 | lia].
Qed.

Lemma id_end_of_ge placed : forall e, e <= id_end_of placed e.
Proof.
  induction placed as [|[a o] r IH]; intros e; cbn [id_end_of]; [lia|].
  destruct (e <=? farg_id a) eqn:E; [specialize (IH (farg_id a + 1)) | specialize (IH e)]; lia.
Qed.

Lemma id_end_of_in placed : forall e a o, In (a, o) placed -> farg_id a < id_end_of placed e.
Proof.
  induction placed as [|[a0 o0] r IH]; intros e a o Hin; [destruct Hin|].
  cbn [id_end_of]. destruct Hin as [Heq|Hin].
  - injection Heq as <- <-. destruct (e <=? farg_id a0) eqn:E.
    + pose proof (id_end_of_ge r (farg_id a0 + 1)). lia.
    + pose proof (id_end_of_ge r e). lia.
  - eapply IH; eauto.
Qed.

Lemma id_end_of_bound placed B : forall e, e <= B -> Forall (fun ao => farg_id (fst ao) < B) placed -> id_end_of placed e <= B.
Proof.
  induction placed as [|[a o] r IH]; intros e He Hf; cbn [id_end_of]; [lia|].
  inversion Hf as [|? ? Ha Hr]; subst. cbn in Ha.
  destruct (e <=? farg_id a); apply IH; auto; lia.
Qed.

Lemma vs_lookup_none placed id : (forall a o, In (a, o) placed -> farg_id a <> id) -> vs_lookup placed id = 0.
Proof.
  induction placed as [|[a o] r IH]; intros H; cbn [vs_lookup]; [reflexivity|].
  destruct (farg_id a =? id) eqn:E.
  - exfalso. apply (H a o); [left; reflexivity | lia].
  - apply IH. intros a' o' Hin. apply (H a' o'). right. exact Hin.
Qed.

Lemma vs_lookup_in placed : forall a o,
  NoDup (map (fun ao => farg_id (fst ao)) placed) -> In (a, o) placed -> vs_lookup placed (farg_id a) = u16 (o + 4).
Proof.
  induction placed as [|[a0 o0] r IH]; intros a o Hnd Hin; [destruct Hin|].
  cbn [map fst] in Hnd. inversion Hnd as [|? ? Hni Hnd']; subst. cbn [vs_lookup].
  destruct Hin as [Heq|Hin].
  - injection Heq as <- <-. rewrite Z.eqb_refl. reflexivity.
  - destruct (farg_id a0 =? farg_id a) eqn:E.
    + exfalso. apply Hni. apply Z.eqb_eq in E. rewrite E.
      apply (in_map (fun ao => farg_id (fst ao)) r (a, o)). exact Hin.
    + apply IH; assumption.
Qed.

Lemma vt_entry_vtable m org vt placed size id :
  let id_end := id_end_of placed 0 in
  mem_has m (org + vt) (vtable_bytes placed size) -> id_end <= 32765 -> 0 <= id ->
  vt_entry m org vt (2 * (id_end + 2)) id = Some (vs_lookup placed id).
Proof.
  intros id_end Hm Hie Hid. unfold vt_entry.
  pose proof (id_end_of_ge placed 0) as Hge. fold id_end in Hge.
  unfold vtable_bytes in Hm. fold id_end in Hm.
  apply mem_has_app in Hm. destruct Hm as [_ Hm]. apply mem_has_app in Hm. destruct Hm as [_ Hm].
  rewrite !lenZ_le16 in Hm.
  destruct (4 + 2 * id + 2 <=? 2 * (id_end + 2)) eqn:E.
  - replace (0 <=? id) with true by lia. cbn [andb].
    replace (org + vt + 4 + 2 * id) with (org + vt + 2 + 2 + 2 * id) by ring.
    rewrite (vs_entries_rd m placed (Z.to_nat id_end) 0 _ id Hm) by lia. reflexivity.
  - rewrite andb_false_r. f_equal. symmetry. apply vs_lookup_none.
    intros a o Hin Heq. pose proof (id_end_of_in placed 0 a o Hin). fold id_end in H. lia.
Qed.

Lemma vtable_bytes_len placed size : lenZ (vtable_bytes placed size) = 2 * (id_end_of placed 0 + 2).
Proof.
  unfold vtable_bytes. rewrite !lenZ_app, !lenZ_le16, vs_entries_len.
  pose proof (id_end_of_ge placed 0). lia.
Qed.

Lemma has_dup_false ids : has_dup ids = false -> NoDup ids.
Proof.
  induction ids as [|x t IH]; intros H; [constructor|].
  cbn [has_dup] in H. apply orb_false_iff in H. destruct H as [H1 H2].
  constructor; [|apply IH, H2].
  intros Hin. assert (existsb (Z.eqb x) t = true); [|congruence].
  apply existsb_exists. exists x. split; [exact Hin | apply Z.eqb_refl].
Qed.
