(* The hypotheses of the build theorems are satisfiable: a concrete schema, a well-typed script, its run. *)
From Flatcc.Format Require Import Schema Spec SpecProofs.
From Flatcc.Builder Require Import EmitModel VMem Objects Leaves OffVec TableLayout Table Buffer Script ScriptProofs.
Local Open Scope Z_scope.

(* table T0 { a:int; s:string; v:[short]; }   table T1 { child:T0; names:[string]; } *)
Definition ex_schema : schema :=
  {| tables := [ [ {| fid := 0; frequired := false; fk := FScalar 4 4 |};
                   {| fid := 1; frequired := false; fk := FString |};
                   {| fid := 2; frequired := false; fk := FVector 2 2 2147483647 |} ];
                 [ {| fid := 0; frequired := true; fk := FTable 0 |};
                   {| fid := 1; frequired := false; fk := FStringVec |};
                   {| fid := 3; frequired := false; fk := FUnion 0 |} ] ];
     unions := [ [ (1, UTable 0) ] ] |}.

Definition ex_script : list cmd :=
  [ CSettings false 0 0;
    CString [97; 98];                                            (* r0, created before the buffer is started *)
    CStartBuffer 1145258561 16 2;                                (* identifier "ABCD", block_align 16, with_size *)
    CVector 2 2 2147483647 2 [1; 0; 2; 0];                        (* r1 *)
    CTable [TOffset 2 1%nat; TInline 0 4 4 [42; 0; 0; 0]; TOffset 1 0%nat];   (* r2 : T0 *)
    COffVec [0%nat; 0%nat];                                       (* r3 : the string shared twice *)
    CTable [TOffset 1 3%nat; TOffset 0 2%nat; TInline 2 1 1 [1]; TOffset 3 2%nat];   (* r4 : T1, the child also as union member *)
    CEndBuffer 4%nat ].

Definition ex_value : value :=
  VTable [ (0, VTable [ (0, VBytes [42; 0; 0; 0]); (1, VString [97; 98]); (2, VVec [[1; 0]; [2; 0]]) ]);
           (1, VOffVec [VString [97; 98]; VString [97; 98]]);
           (3, VUnion 1 (VTable [ (0, VBytes [42; 0; 0; 0]); (1, VString [97; 98]); (2, VVec [[1; 0]; [2; 0]]) ])) ].

Lemma p2 k : 0 <= k <= 15 -> pow2 (2 ^ k).
Proof. intros. exists k. split; [assumption | reflexivity]. Qed.

Example ex_wt : wt_script ex_schema ex_script (RTable 1) ex_value true 2%nat.
Proof.
  unfold ex_script.
  change [CSettings false 0 0; CString [97; 98]; CStartBuffer 1145258561 16 2; CVector 2 2 2147483647 2 [1; 0; 2; 0];
          CTable [TOffset 2 1%nat; TInline 0 4 4 [42; 0; 0; 0]; TOffset 1 0%nat]; COffVec [0%nat; 0%nat];
          CTable [TOffset 1 3%nat; TOffset 0 2%nat; TInline 2 1 1 [1]; TOffset 3 2%nat]; CEndBuffer 4%nat]
    with (CSettings false 0 0 :: [CString [97; 98]] ++ CStartBuffer 1145258561 16 2 ::
          [CVector 2 2 2147483647 (Z.of_nat (length [[1; 0]; [2; 0]])) (concat [[1; 0]; [2; 0]]);
           CTable [TOffset 2 1%nat; TInline 0 4 4 [42; 0; 0; 0]; TOffset 1 0%nat]; COffVec [0%nat; 0%nat];
           CTable [TOffset 1 3%nat; TOffset 0 2%nat; TInline 2 1 1 [1]; TOffset 3 2%nat]] ++ [CEndBuffer 4%nat]).
  change true with (negb (Z.land 2 2 =? 0)).
  eapply (WT_top ex_schema false 0 0 [CString [97; 98]] 1145258561 16 2 _ 4%nat (RTable 1) ex_value 2%nat _ _).
  - left; reflexivity.
  - eapply WTS_cons; [apply WT_string | apply WTS_nil].
  - eapply WTS_cons; [apply (WT_vector ex_schema _ 2 2 2147483647 [[1; 0]; [2; 0]]) |].
    { apply (p2 1); lia. } { unfold U32_MAX; lia. } { repeat constructor. } { unfold U32_MAX; lia. }
    eapply WTS_cons.
    { eapply (WT_table ex_schema _ [TOffset 2 1%nat; TInline 0 4 4 [42; 0; 0; 0]; TOffset 1 0%nat] 0%nat _
               [(0, VBytes [42; 0; 0; 0]); (1, VString [97; 98]); (2, VVec [[1; 0]; [2; 0]])] 0%nat).
      - repeat constructor; cbn; try lia; try (apply (p2 2); lia).
      - cbn; lia.
      - vm_compute. discriminate.
      - reflexivity.
      - apply WFS_present; [eapply WF_scalar; [reflexivity | cbn; tauto]|].
        apply WFS_present; [eapply (WF_string _ _ _ _ _ 0%nat); [reflexivity | cbn; tauto | reflexivity | lia]|].
        apply WFS_present; [eapply (WF_vector _ _ _ _ _ 2 2 2147483647 1%nat [[1; 0]; [2; 0]]); [reflexivity | cbn; tauto | reflexivity | lia | cbn; lia]|].
        apply WFS_nil. }
    eapply WTS_cons.
    { apply (WT_offvec ex_schema _ [0%nat; 0%nat] OString [VString [97; 98]; VString [97; 98]] 0%nat).
      - left; reflexivity.
      - constructor; [exists 0%nat; split; [reflexivity | lia]|]. constructor; [exists 0%nat; split; [reflexivity | lia]|]. constructor. }
    eapply WTS_cons; [|apply WTS_nil].
    eapply (WT_table ex_schema _ [TOffset 1 3%nat; TOffset 0 2%nat; TInline 2 1 1 [1]; TOffset 3 2%nat] 1%nat _
               [(0, VTable [(0, VBytes [42; 0; 0; 0]); (1, VString [97; 98]); (2, VVec [[1; 0]; [2; 0]])]);
                (1, VOffVec [VString [97; 98]; VString [97; 98]]);
                (3, VUnion 1 (VTable [(0, VBytes [42; 0; 0; 0]); (1, VString [97; 98]); (2, VVec [[1; 0]; [2; 0]])]))] 1%nat).
    + repeat constructor; cbn; try lia; try (apply (p2 2); lia); try (apply (p2 0); lia).
    + cbn; lia.
    + vm_compute. discriminate.
    + reflexivity.
    + apply WFS_present; [eapply (WF_table _ _ _ _ _ 0%nat 2%nat); [reflexivity | cbn; tauto | reflexivity | lia]|].
      apply WFS_present; [eapply (WF_strvec _ _ _ _ _ 3%nat); [reflexivity | cbn; tauto | reflexivity | lia]|].
      apply WFS_present; [|apply WFS_nil].
      eapply (WF_union _ _ _ _ _ 0%nat 1 2%nat (UTable 0) _ 1%nat); [reflexivity | lia | cbn; tauto | cbn; tauto | reflexivity | reflexivity | lia].
  - reflexivity.
  - right. apply (p2 4); lia.
  - unfold in_u32; lia.
  - lia.
Qed.

Example ex_runs : exists regs ems st,
  run init_state [] ex_script = Some (regs, ems, st) /\ small st /\
  buffer_alignment st = 16 /\ lenZ (buffer_bytes st) = 112.
Proof.
  destruct (run init_state [] ex_script) as [[[regs ems] st]|] eqn:E; [|vm_compute in E; discriminate].
  exists regs, ems, st. split; [reflexivity|].
  vm_compute in E. injection E as <- <- <-. vm_compute. repeat split; congruence.
Qed.
