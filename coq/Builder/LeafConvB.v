(* C12/C02 leaves (T5): reading conventions that relate the Gallina GENERATED from src/runtime/builder.c
   (Flatcc.Generated.Leaf_builder: alignup_uoffset, front_pad, back_pad and the range tests at the head of emit_front /
   emit_back) to the hand-written Builder/EmitModel.v, and an executable boundary-grid search for an argument tuple on
   which a regenerated leaf and the hand model differ (used by checks/c01c_util.py when LeafEquivB.v stops checking).
   * flatcc_builder_t *B is [B_of st]: only emit_start / emit_end are read by the translated code;
   * iov_state_t *iov is [iov_of len count]: the model's emit_front / emit_back take the byte list, len = lenZ bytes;
   * `uint16_t align` / `size_t align` is a power of two up to 32768 ([pow2_16]). *)
From Flatcc.Verifier Require Export LeafTac.
From Flatcc.Builder Require Export EmitModel.
From Flatcc.Generated Require Import Leaf_builder.
Local Open Scope Z_scope.

Definition B_of (st : est) : c_builder := {| B_emit_start := e_start st; B_emit_end := e_end st |}.
Definition iov_of (len count : Z) : c_iov := {| iov_len := len; iov_count := count |}.

(* the model's own guards (what emit_front / emit_back test before anything else) *)
Definition emit_front_guard (st : est) (len : Z) : bool :=
  (len =? 0) || (SOFFSET_MAX <? len) || (e_start st - len <? SOFFSET_MIN).
Definition emit_back_guard (st : est) (len : Z) : bool :=
  (e_end st <? 0) || (SOFFSET_MAX - e_end st <? len).

(* ---- search: witness = ([], arguments ++ [C result; model result]) *)
Fixpoint first_some {A B} (f : A -> option B) (l : list A) : option B :=
  match l with
  | [] => None
  | x :: r => match f x with Some y => Some y | None => first_some f r end
  end.
Definition wit (args : list Z) (c m : Z) : option (list Z * list Z) :=
  if c =? m then None else Some ([], args ++ [c; m]).

Definition st_of (s e : Z) : est :=
  {| e_start := s; e_end := e; front := []; back := []; min_align := 1; nest_id := 0; nest_count := 0; buffer_mark := 0;
     ident := 0; block_align := 0; buffer_flags := 0; vcache := []; clustering := true; frames := [] |}.

Definition Gx : list Z := [0; 1; 2; 3; 4; 5; 7; 8; 9; 15; 16; 17; 65535; 65536; 2147483647; 2147483648; 4294967288; 4294967289; 4294967295].
Definition Gal : list Z := [1; 2; 4; 8; 16; 256; 32768].
Definition Gref : list Z := [0; 1; -1; 4; -4; -7; 8; -8; 12; 2147483647; 2147483640; -2147483648; -2147483647; -2147483641].
Definition Glen : list Z := [0; 1; 2; 4; 7; 8; 2147483640; 2147483646; 2147483647; 2147483648; 2147483655; 4294967295; 4294967296;
                             9223372036854775807; 9223372036854775808; 18446744073709551615].

Definition search_alignup_uoffset :=
  first_some (fun x => first_some (fun al => wit [x; al] (c_alignup_uoffset x al) (alignup x al)) Gal) Gx.
Definition search_front_pad :=
  first_some (fun s => first_some (fun size => first_some (fun al =>
    wit [s; size; al] (c_front_pad (B_of (st_of s 0)) size al) (front_pad (st_of s 0) size al)) Gal) Gx) Gref.
Definition search_back_pad :=
  first_some (fun e => first_some (fun al =>
    wit [e; al] (c_back_pad (B_of (st_of 0 e)) al) (back_pad (st_of 0 e) al)) Gal) Gref.
Definition search_emit_front :=
  first_some (fun s => first_some (fun len =>
    wit [s; len] (Z.b2z (c_emit_front_guard (B_of (st_of s 0)) (iov_of len 1))) (Z.b2z (emit_front_guard (st_of s 0) len))) Glen) Gref.
Definition search_emit_back :=
  first_some (fun e => first_some (fun len =>
    wit [e; len] (Z.b2z (c_emit_back_guard (B_of (st_of 0 e)) (iov_of len 1))) (Z.b2z (emit_back_guard (st_of 0 e) len))) Glen) Gref.
