(* C15 / C02 (union vectors): the window of the buffer level being built.
   While a nested buffer (nest_id <> 0) is under construction, only the bytes below its buffer_mark belong to it: the
   memory [wmem] is the builder's virtual memory cut at the mark.  Every create step of the builder extends [wmem] of
   the current level; an object valid in [wmem] never consults the parent or a sibling.  At top level (nest_id = 0)
   [wmem] is the whole virtual memory.
   Also: the object types the whole-build theorems of Script.v left out (union vector halves, nested buffer vectors). *)
From Flatcc.Format Require Import Schema Spec SpecProofs.
From Flatcc.Builder Require Import EmitModel VMem Objects Leaves OffVec TableLayout Table Buffer.
From Coq Require Import ZifyBool Znumtheory.
Local Open Scope Z_scope.
Ltac Zify.zify_post_hook ::= Z.div_mod_to_equations.

(* ------------------------------------------------------------------ the window *)
Definition in_win (st : est) (a : Z) : bool := (nest_id st =? 0) || (a <? buffer_mark st).
Definition wmem (st : est) : mem := fun a => if in_win st a then vmem st a else None.
Definition win_ok (st : est) : Prop := e_start st <= buffer_mark st <= 0.

Lemma wmem_sub st : mext (wmem st) (vmem st).
Proof. intros a b. unfold wmem. destruct (in_win st a); [auto | discriminate]. Qed.

Lemma wmem_top st a : nest_id st = 0 -> wmem st a = vmem st a.
Proof. intros H. unfold wmem, in_win. rewrite H. reflexivity. Qed.

Lemma wmem_ext st st' : mext (vmem st) (vmem st') -> nest_id st' = nest_id st -> buffer_mark st' = buffer_mark st ->
  mext (wmem st) (wmem st').
Proof.
  intros H Hn Hm a b. unfold wmem, in_win. rewrite Hn, Hm.
  destruct ((nest_id st =? 0) || (a <? buffer_mark st)); [apply H | discriminate].
Qed.

Lemma wmem_step st st' : step st st' -> mext (wmem st) (wmem st').
Proof.
  intros H. destruct (s_ctl _ _ H) as (Hn & _ & Hm & _). apply wmem_ext; [exact (s_ext _ _ H) | exact Hn | exact Hm].
Qed.

Lemma win_ok_step st st' : step st st' -> win_ok st -> win_ok st'.
Proof.
  intros H [A B]. destruct (s_ctl _ _ H) as (_ & _ & Hm & _). pose proof (s_start _ _ H). unfold win_ok. rewrite Hm. lia.
Qed.

Lemma mem_has_wmem st a l : mem_has (vmem st) a l -> nest_id st = 0 \/ a + lenZ l <= buffer_mark st -> mem_has (wmem st) a l.
Proof.
  intros H Hw i Hi. unfold wmem, in_win.
  replace ((nest_id st =? 0) || (a + Z.of_nat i <? buffer_mark st)) with true; [apply H, Hi|].
  unfold lenZ in Hw. destruct Hw as [->|Hw]; [reflexivity|]. symmetry. apply orb_true_iff. right. lia.
Qed.

(* the window seen as a restriction (the form Buffer.create_buffer_nested asks for) *)
Lemma wmem_restrict st o : st_ok st -> nest_id st <> 0 ->
  mle (wmem st) o (restrict (vmem st) (e_start st) (buffer_mark st)) o.
Proof.
  intros Hok Hn i b. unfold wmem, in_win, restrict. replace (nest_id st =? 0) with false by lia. cbn [orb].
  destruct (o + i <? buffer_mark st) eqn:E; [|discriminate]. intros Hv.
  replace (e_start st <=? o + i) with true; [exact Hv|].
  unfold vmem in Hv. destruct (o + i <? 0) eqn:E0.
  - destruct (e_start st <=? o + i); [reflexivity | discriminate].
  - destruct Hok as (Hs & _). pose proof (lenZ_nonneg (front st)). lia.
Qed.

(* ------------------------------------------------------------------ steps across buffer levels *)
(* like Objects.step, but a completed nested block has consumed nest ids *)
Definition xctl (st st' : est) : Prop :=
  nest_id st' = nest_id st /\ nest_count st <= nest_count st' /\ buffer_mark st' = buffer_mark st /\
  ident st' = ident st /\ block_align st' = block_align st /\ buffer_flags st' = buffer_flags st /\
  clustering st' = clustering st /\ frames st' = frames st.

Record xstep (st st' : est) : Prop := {
  x_ok : st_ok st';
  x_ext : mext (vmem st) (vmem st');
  x_start : e_start st' <= e_start st;
  x_end : e_end st <= e_end st';
  x_ctl : xctl st st';
  x_ma : ma_ok st';
  x_min : min_align st <= min_align st' }.

Lemma step_xstep st st' : step st st' -> xstep st st'.
Proof.
  intros []. constructor; auto. unfold same_ctl in s_ctl. unfold xctl. intuition lia.
Qed.

Lemma xstep_refl st : st_ok st -> ma_ok st -> xstep st st.
Proof. intros. apply step_xstep, step_refl; assumption. Qed.

Lemma xstep_trans a b c : xstep a b -> xstep b c -> xstep a c.
Proof.
  intros [] []. constructor; auto; try lia.
  - eapply mext_trans; eauto.
  - unfold xctl in *. intuition (try congruence; try lia).
Qed.

Lemma xstep_wext st st' : xstep st st' -> mext (wmem st) (wmem st').
Proof.
  intros H. destruct (x_ctl _ _ H) as (Hn & _ & Hm & _). apply wmem_ext; [exact (x_ext _ _ H) | exact Hn | exact Hm].
Qed.

Lemma win_ok_xstep st st' : xstep st st' -> win_ok st -> win_ok st'.
Proof.
  intros H [A B]. destruct (x_ctl _ _ H) as (_ & _ & Hm & _). pose proof (x_start _ _ H). unfold win_ok. rewrite Hm. lia.
Qed.

(* ------------------------------------------------------------------ object types *)
Inductive xty :=
| XBase (ty : oty)           (* the kinds of Objects.v *)
| XUType                     (* type vector of a union vector *)
| XUVal (u : nat)            (* value vector of a union vector (offset vector with 0 for NONE) *)
| XNested (R : root).        (* ubyte vector holding a finished nested buffer *)

Definition codes_of (es : list (Z * option value)) : list Z := map fst es.
Definition code_elems (cs : list Z) : list (list Z) := map (fun c => [c]) cs.

(* the value vector: element i is 0 exactly when the code is 0, otherwise it leads to a member of that code *)
Fixpoint uval_elems (rec : tdec) (Sc : schema) (m : mem) (o : Z) (ds : list Z) (u : nat) (vp : Z)
         (es : list (Z * option value)) : Prop :=
  match es with
  | [] => True
  | (c, None) :: r => c = 0 /\ mrd32 m (o + vp) = Some 0 /\ uval_elems rec Sc m o ds u (vp + 4) r
  | (c, Some v) :: r =>
    c <> 0 /\ (exists off, mrd32 m (o + vp) = Some off /\ off <> 0 /\ dec_member rec Sc m o ds u c (vp + off) = Some v) /\
    uval_elems rec Sc m o ds u (vp + 4) r
  end.

Definition uval_holds (n : nat) (Sc : schema) (u : nat) (es : list (Z * option value)) (m : mem) (o : Z) (ds : list Z) (p : Z) : Prop :=
  aligned ds p 4 = true /\ mrd32 m (o + p) = Some (Z.of_nat (length es)) /\ Z.of_nat (length es) <= Spec.MAX_OFFSET_COUNT /\
  uval_elems (dec_table n Sc) Sc m o ds u (p + 4) es.

Definition utype_holds (cs : list Z) (m : mem) (o : Z) (ds : list Z) (p : Z) : Prop :=
  aligned ds p 4 = true /\ mrd32 m (o + p) = Some (lenZ cs) /\ mem_has m (o + p + 4) cs.

Definition xholds (n : nat) (Sc : schema) (ty : xty) (v : value) (m : mem) (o : Z) (ds : list Z) (p : Z) : Prop :=
  match ty with
  | XBase t => obj_holds n Sc t v m o ds p
  | XUType => exists cs, v = VVec (code_elems cs) /\ utype_holds cs m o ds p
  | XUVal u => exists es, v = VUnionVec es /\ uval_holds n Sc u es m o ds p
  | XNested R => exists w, v = VNested w /\ forall al, dec_nested (dec_table n Sc) m o ds R al p = Some (VNested w)
  end.

Lemma mem_has_mle m o m' o' a a' l : mle m o m' o' -> a' - o' = a - o -> mem_has m a l -> mem_has m' a' l.
Proof.
  intros H Ha Hm i Hi. specialize (Hm i Hi).
  destruct (nth_error l i) eqn:E; [|apply nth_error_None in E; lia].
  eapply (mle_at _ _ _ _ H); [|exact Hm]. lia.
Qed.

Lemma uval_elems_mono r r' Sc m o m' o' ds u : rle r r' -> mle m o m' o' ->
  forall es vp, uval_elems r Sc m o ds u vp es -> uval_elems r' Sc m' o' ds u vp es.
Proof.
  intros Hr H. induction es as [|[c [v|]] t IH]; intros vp He; cbn [uval_elems] in *; [exact I| |].
  - destruct He as (Hc & (off & Ho & Hnz & Hd) & Ht). split; [exact Hc|]. split; [|apply IH, Ht].
    exists off. split; [eapply (mrd32_at _ _ _ _ H); [|exact Ho]; lia|]. split; [exact Hnz|].
    eapply dec_member_mono; eauto.
  - destruct He as (Hc & Ho & Ht). split; [exact Hc|]. split; [|apply IH, Ht].
    eapply (mrd32_at _ _ _ _ H); [|exact Ho]; lia.
Qed.

Lemma xholds_mono n n' Sc ty v m o m' o' ds p :
  (n <= n')%nat -> mle m o m' o' -> xholds n Sc ty v m o ds p -> xholds n' Sc ty v m' o' ds p.
Proof.
  intros Hn H. destruct ty; cbn [xholds].
  - apply obj_holds_mono; assumption.
  - intros (cs & -> & Ha & Hl & Hm). exists cs. split; [reflexivity|]. split; [exact Ha|]. split.
    + eapply (mrd32_at _ _ _ _ H); [|exact Hl]; lia.
    + eapply mem_has_mle; [exact H | | exact Hm]. lia.
  - intros (es & -> & Ha & Hl & Hmx & He). exists es. split; [reflexivity|]. split; [exact Ha|]. split.
    + eapply (mrd32_at _ _ _ _ H); [|exact Hl]; lia.
    + split; [exact Hmx|]. eapply uval_elems_mono; [apply dec_table_mono; exact Hn | exact H | exact He].
  - intros (w & -> & Hd). exists w. split; [reflexivity|]. intros al.
    eapply dec_nested_mono; [apply dec_table_mono; exact Hn | exact H | apply Hd].
Qed.

(* ------------------------------------------------------------------ validity in the window *)
Definition xvalid (n : nat) (Sc : schema) (st : est) (M : Z) (ty : xty) (ref : Z) (v : value) : Prop :=
  forall o ds, org_ok st M o ds -> xholds n Sc ty v (wmem st) o ds (ref - o).

Lemma xvalid_mono n n' Sc st st' M M' ty ref v :
  (n <= n')%nat -> mext (wmem st) (wmem st') -> e_start st' <= e_start st -> 0 < M -> (M | M') -> 0 < M' ->
  xvalid n Sc st M ty ref v -> xvalid n' Sc st' M' ty ref v.
Proof.
  intros Hn Hm He HM Hd HM' Hv o ds Ho.
  eapply xholds_mono; [exact Hn | apply mext_mle, Hm |].
  apply Hv. eapply org_ok_mono; eauto.
Qed.

Lemma xvalid_depth n n' Sc st M ty ref v : (n <= n')%nat -> 0 < M -> xvalid n Sc st M ty ref v -> xvalid n' Sc st M ty ref v.
Proof. intros Hn HM. apply xvalid_mono; auto using mext_refl, Z.divide_refl; lia. Qed.

Lemma xstep_valid n Sc st st' ty ref v :
  ma_ok st -> xstep st st' -> xvalid n Sc st (lvl_align st) ty ref v -> xvalid n Sc st' (lvl_align st') ty ref v.
Proof.
  intros Hma Hx Hv. eapply xvalid_mono; try exact Hv; auto.
  - apply xstep_wext, Hx.
  - exact (x_start _ _ Hx).
  - apply lvl_pos.
  - apply lvl_align_divide; [exact Hma | exact (x_ma _ _ Hx) | exact (x_min _ _ Hx)].
  - apply lvl_pos.
Qed.

Lemma step_xvalid n Sc st st' ty ref v :
  ma_ok st -> step st st' -> xvalid n Sc st (lvl_align st) ty ref v -> xvalid n Sc st' (lvl_align st') ty ref v.
Proof. intros Hma Hs. apply xstep_valid; [exact Hma | apply step_xstep, Hs]. Qed.

(* ------------------------------------------------------------------ emitting inside the window *)
Lemma wemit_front st bytes ref e st' :
  st_ok st -> ma_ok st -> win_ok st -> emit_front st bytes = Some (ref, e, st') -> small st' ->
  step st st' /\ ref = e_start st - lenZ bytes /\ e_start st' = ref /\ e_end st' = e_end st /\
  min_align st' = min_align st /\ vcache st' = vcache st /\ mem_has (wmem st') ref bytes /\
  ref < e_start st /\ win_ok st'.
Proof.
  intros Hok Hma Hw E Hsm.
  destruct (step_emit_front _ _ _ _ _ Hok Hma E Hsm) as (Hst & Hr & Hs & He & Hm & Hc & Hmem & Hlt).
  repeat (split; [assumption|]). split; [|split; [exact Hlt | eapply win_ok_step; eauto]].
  apply mem_has_wmem; [exact Hmem|]. right.
  destruct (s_ctl _ _ Hst) as (_ & _ & Hmk & _). rewrite Hmk. destruct Hw. lia.
Qed.

Lemma win_ok_set_min_align st a : win_ok st -> win_ok (set_min_align st a).
Proof.
  unfold win_ok. destruct (set_min_align_fields st a) as (-> & _ & _ & _ & _ & (_ & _ & -> & _) & _). auto.
Qed.
