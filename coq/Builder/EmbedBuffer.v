(* flatcc_builder_embed_buffer, one call (C15: "... or embedded from existing bytes").
   The call treats "some frame is open" (B->level > 0, [level st] in the model) as "there is a parent":
   - with a parent, at ANY depth - in particular depth 1, directly inside the open top-level buffer where nest_id = 0 -
     exactly one emitter call is made, at the front: ubyte vector length, the bytes, padding.  The length covers bytes
     and padding, the bytes start 4 above the returned reference at a multiple of the embedded alignment (with the
     with_size flag the LENGTH WORD is at that multiple: it doubles as the size prefix), the enclosing buffer's
     min_align is raised to that alignment and nothing is appended at the parent's end;
   - without a parent (level 0) the bytes are emitted as they are (no length word), after the end was padded.
   The content of [data] is arbitrary here: that it decodes on its own is the caller's business, that it then decodes
   inside the parent is checked on every run by checks/c15.py. *)
From Flatcc.Format Require Import Schema Spec SpecProofs.
From Flatcc.Builder Require Import EmitModel VMem Objects Leaves OffVec TableLayout Table Buffer Script ScriptProofs.
From Coq Require Import ZifyBool Znumtheory.
Local Open Scope Z_scope.
Ltac Zify.zify_post_hook ::= Z.div_mod_to_equations.

(* align after align_buffer_end: max(align, field_size, block alignment in force) *)
Definition embed_align (st : est) (align b_align : Z) : Z :=
  zmax (zmax align 4) (if b_align =? 0 then if block_align st =? 0 then 1 else block_align st else b_align).

Lemma embed_align_ok st align b_align :
  pow2 align -> balign_ok b_align -> balign_ok (block_align st) ->
  pow2 (embed_align st align b_align) /\ 4 <= embed_align st align b_align /\ align <= embed_align st align b_align /\
  (b_align <> 0 -> b_align <= embed_align st align b_align).
Proof.
  intros Hal Hb Hbs. unfold embed_align.
  set (ba := if b_align =? 0 then if block_align st =? 0 then 1 else block_align st else b_align).
  assert (Hba : pow2 ba).
  { subst ba. destruct Hb as [->|Hb]; cbn.
    - destruct Hbs as [->|Hbs]; cbn; [apply pow2_1|]. pose proof (pow2_pos _ Hbs). replace (block_align st =? 0) with false by lia. exact Hbs.
    - pose proof (pow2_pos _ Hb). replace (b_align =? 0) with false by lia. exact Hb. }
  assert (Hbb : b_align <> 0 -> b_align <= ba) by (intros Hne; subst ba; replace (b_align =? 0) with false by lia; lia).
  clearbody ba.
  split; [apply pow2_max; [apply pow2_max; [exact Hal | apply pow2_4] | exact Hba]|].
  unfold zmax. destruct (align <? 4) eqn:X; destruct (_ <? ba) eqn:Y; lia.
Qed.

Lemma front_pad_u32 st size a : pow2 a -> front_pad st (u32 size) a = (e_start st - size) mod a.
Proof.
  intros Ha. rewrite front_pad_spec by exact Ha. pose proof (pow2_pos a Ha).
  unfold u32. rewrite Zminus_mod.
  rewrite <- (Zmod_div_mod a 4294967296 size) by (try lia; apply pow2_divide_u32, Ha).
  rewrite <- Zminus_mod. reflexivity.
Qed.

(* ------------------------------------------------------------------ with a parent: any depth >= 1 *)
Lemma embed_buffer_nested st b_align data align flags ref es st' :
  st_ok st -> ma_ok st -> pow2 align -> balign_ok b_align -> balign_ok (block_align st) ->
  0 < level st ->
  embed_buffer st b_align data align flags = Some (ref, es, st') -> small st' ->
  let al := embed_align st align b_align in
  let ws := negb (Z.land flags 2 =? 0) in
  exists pad, 0 <= pad < al /\
    step st st' /\ pow2 al /\ 4 <= al /\ align <= al /\ al <= min_align st' /\
    (* one emitter call, at the front; the parent's end is untouched *)
    es = [{| em_off := ref; em_bytes := le32 (lenZ data + pad) ++ data ++ zeros pad |}] /\
    e_start st' = ref /\ ref + 4 + lenZ data + pad = e_start st /\ e_end st' = e_end st /\ back st' = back st /\
    front st' = le32 (lenZ data + pad) ++ data ++ zeros pad ++ front st /\
    (* the ubyte vector in the builder's address space *)
    mrd32 (vmem st') ref = Some (lenZ data + pad) /\ mem_has (vmem st') (ref + 4) data /\
    (if ws then ref else ref + 4) mod al = 0 /\ ref mod 4 = 0.
Proof.
  intros Hok Hma Hal Hb Hbs Hlv E Hsm al ws. unfold embed_buffer in E.
  replace (0 <? level st) with true in E by lia.
  unfold align_buffer_end in E. fold (embed_align st align b_align) in E. fold al in E. fold ws in E.
  destruct (embed_align_ok st align b_align Hal Hb Hbs) as (Hpal & Hal4 & Hala & _). fold al in Hpal, Hal4, Hala.
  clearbody al.
  set (st1 := set_min_align st al) in E.
  set (pad := front_pad st1 (u32 (lenZ data + (if ws then 4 else 0))) al) in E.
  destruct (emit_front st1 _) as [[[r e] st2]|] eqn:Ef; [|discriminate].
  injection E as <- <- <-.
  assert (Hst1 : step st st1) by (apply step_set_min_align; assumption).
  destruct (set_min_align_fields st al) as (Hs1 & He1 & Hf1 & Hb1 & _ & _ & Hm1). fold st1 in Hs1, He1, Hf1, Hb1, Hm1.
  destruct (step_emit_front st1 _ r e st2 (s_ok _ _ Hst1) (s_ma _ _ Hst1) Ef Hsm)
    as (Hst2 & Hr & Hs2 & He2 & Hm2 & _ & Hmem & _).
  destruct (emit_front_ok st1 _ r e st2 (s_ok _ _ Hst1) Ef Hsm) as (_ & Hset & _ & Hemit & _).
  assert (Hpr : 0 <= pad < al) by (subst pad; apply front_pad_range, Hpal).
  pose proof (lenZ_nonneg data) as Hd0.
  (* sizes stay below 2^31: the new front holds header, bytes and padding *)
  assert (Hfront : front st2 = (le32 (u32 (lenZ data + pad)) ++ data ++ zeros pad) ++ front st).
  { rewrite Hset. cbn [set_emit_front front]. rewrite Hf1. reflexivity. }
  assert (Hlen : 4 + lenZ data + pad < 2147483648).
  { unfold small in Hsm. rewrite Hfront in Hsm. rewrite !lenZ_app, lenZ_le32, lenZ_zeros in Hsm by lia.
    pose proof (lenZ_nonneg (front st)). pose proof (lenZ_nonneg (back st2)). lia. }
  assert (Hu : u32 (lenZ data + pad) = lenZ data + pad) by (apply u32_id; unfold in_u32; lia).
  rewrite Hu in *.
  assert (Hlb : lenZ (le32 (lenZ data + pad) ++ data ++ zeros pad) = 4 + lenZ data + pad)
    by (rewrite !lenZ_app, lenZ_le32, lenZ_zeros by lia; lia).
  rewrite Hlb in Hr.
  assert (Hpad : (e_start st - (lenZ data + (if ws then 4 else 0)) - pad) mod al = 0).
  { subst pad. rewrite front_pad_u32 by exact Hpal. rewrite Hs1. pose proof (pow2_pos al Hpal).
    rewrite Zminus_mod_idemp_r. rewrite Z.sub_diag. reflexivity. }
  exists pad. split; [exact Hpr|].
  split; [eapply step_trans; eassumption|].
  split; [exact Hpal|]. split; [exact Hal4|]. split; [exact Hala|].
  split; [rewrite Hm2, Hm1; unfold zmax; destruct (min_align st <? al) eqn:X; lia|].
  split; [cbn [app]; rewrite Hemit; reflexivity|].
  split; [exact Hs2|]. split; [lia|]. split; [lia|].
  split; [rewrite Hset; cbn [set_emit_front back]; exact Hb1|].
  split; [rewrite Hfront, <- !app_assoc; reflexivity|].
  apply mem_has_app in Hmem. destruct Hmem as [Hh Hrest]. rewrite lenZ_le32 in Hrest.
  apply mem_has_app in Hrest. destruct Hrest as [Hdat _].
  split; [apply mem_has_le32; [unfold in_u32; lia | exact Hh]|].
  split; [exact Hdat|].
  assert (H4 : (4 | al)) by (apply pow2_le_divide; [apply pow2_4 | exact Hpal | exact Hal4]).
  destruct H4 as [q Hq].
  destruct ws.
  - replace r with (e_start st - (lenZ data + 4) - pad) by lia. split; [exact Hpad|].
    apply (mod_divide_down _ 4 al); [lia | exists q; exact Hq | lia | exact Hpad].
  - replace (r + 4) with (e_start st - (lenZ data + 0) - pad) by lia. split; [exact Hpad|].
    assert (H : (r + 4) mod 4 = 0).
    { replace (r + 4) with (e_start st - (lenZ data + 0) - pad) by lia.
      apply (mod_divide_down _ 4 al); [lia | exists q; exact Hq | lia | exact Hpad]. }
    lia.
Qed.

(* ------------------------------------------------------------------ without a parent *)
Lemma embed_buffer_top st b_align data align flags ref es st' :
  st_ok st -> ma_ok st -> cache_ok st -> pow2 align -> balign_ok b_align -> balign_ok (block_align st) ->
  level st = 0 ->
  embed_buffer st b_align data align flags = Some (ref, es, st') -> small st' ->
  let al := embed_align st align b_align in
  let ws := negb (Z.land flags 2 =? 0) in
  exists pad, 0 <= pad < al /\
    step st st' /\ pow2 al /\ 4 <= al /\ align <= al /\ al <= min_align st' /\
    e_start st' = ref /\ ref + lenZ data + pad = e_start st /\ e_end st <= e_end st' < e_end st + al /\
    (* no size field header: the bytes as they are, then padding up to the old emit_start *)
    mem_has (vmem st') ref data /\
    (if ws then ref - 4 else ref) mod al = 0.
Proof.
  intros Hok Hma Hc Hal Hb Hbs Hlv E Hsm al ws. unfold embed_buffer in E.
  replace (0 <? level st) with false in E by lia. fold ws in E.
  destruct (align_buffer_end st align b_align false) as [[[al0 es0] st0]|] eqn:Ea; [|discriminate].
  assert (Hal0 : al0 = al).
  { unfold align_buffer_end in Ea. fold (embed_align st align b_align) in Ea. fold al in Ea.
    destruct (back_pad st al =? 0); [injection Ea as <- _ _; reflexivity|].
    destruct (emit_back st _) as [[[r1 e1] s1]|]; [injection Ea as <- _ _; reflexivity | discriminate]. }
  subst al0.
  set (st1 := set_min_align st0 al) in E.
  set (pad := front_pad st1 (u32 (lenZ data + (if ws then 4 else 0))) al) in E.
  destruct (emit_front st1 _) as [[[r e] st2]|] eqn:Ef; [|discriminate].
  injection E as <- <- <-.
  destruct (embed_align_ok st align b_align Hal Hb Hbs) as (Hpal & Hal4 & Hala & _). fold al in Hpal, Hal4, Hala.
  assert (Hsm0 : small st0).
  { pose proof (sz_emit_front _ _ _ _ _ Ef) as Hz. unfold st1 in Hz. rewrite sz_set_min_align in Hz.
    unfold small, sz in *. lia. }
  destruct (align_buffer_end_top st align b_align al es0 st0 Hok Hma Hc Hal Hb Hbs Ea Hsm0)
    as (Hst0 & _ & _ & _ & Hs0 & Hm0 & He0 & _).
  clearbody al.
  assert (Hst1 : step st0 st1) by (apply step_set_min_align; [exact (s_ok _ _ Hst0) | exact (s_ma _ _ Hst0) | exact Hpal]).
  destruct (set_min_align_fields st0 al) as (Hs1 & He1 & Hf1 & Hb1 & _ & _ & Hm1). fold st1 in Hs1, He1, Hf1, Hb1, Hm1.
  destruct (step_emit_front st1 _ r e st2 (s_ok _ _ Hst1) (s_ma _ _ Hst1) Ef Hsm)
    as (Hst2 & Hr & Hs2 & He2 & Hm2 & _ & Hmem & _).
  destruct (emit_front_ok st1 _ r e st2 (s_ok _ _ Hst1) Ef Hsm) as (_ & Hset & _ & _ & _).
  assert (Hpr : 0 <= pad < al) by (subst pad; apply front_pad_range, Hpal).
  pose proof (lenZ_nonneg data) as Hd0.
  cbn [app] in *.
  assert (Hlb : lenZ (data ++ zeros pad) = lenZ data + pad) by (rewrite lenZ_app, lenZ_zeros by lia; lia).
  rewrite Hlb in Hr.
  assert (Hpad : (e_start st - (lenZ data + (if ws then 4 else 0)) - pad) mod al = 0).
  { subst pad. rewrite front_pad_u32 by exact Hpal. rewrite Hs1, Hs0. pose proof (pow2_pos al Hpal).
    rewrite Zminus_mod_idemp_r. rewrite Z.sub_diag. reflexivity. }
  exists pad. split; [exact Hpr|].
  split; [eapply step_trans; [exact Hst0 | eapply step_trans; eassumption]|].
  split; [exact Hpal|]. split; [exact Hal4|]. split; [exact Hala|].
  split; [rewrite Hm2, Hm1; unfold zmax; destruct (min_align st0 <? al) eqn:X; lia|].
  split; [exact Hs2|]. split; [lia|]. split; [lia|].
  apply mem_has_app in Hmem. destruct Hmem as [Hdat _].
  split; [exact Hdat|].
  destruct ws.
  - replace (r - 4) with (e_start st - (lenZ data + 4) - pad) by lia. exact Hpad.
  - replace r with (e_start st - (lenZ data + 0) - pad) by lia. exact Hpad.
Qed.

(* ------------------------------------------------------------------ depth 1 *)
(* every start_buffer opens a frame: inside ANY open buffer - the top-level one included, whose nest id is 0 when it is
   the first buffer of the builder - the level is positive, so [embed_buffer_nested] applies *)
Lemma level_start_buffer st id ba fl : level (start_buffer st id ba fl) = level st + 1 /\ 0 < level (start_buffer st id ba fl).
Proof.
  unfold level, start_buffer. cbn [with_buffer_frame frames length]. lia.
Qed.

Lemma nest_id_first_buffer id ba fl : nest_id (start_buffer init_state id ba fl) = 0 /\ is_top_buffer (start_buffer init_state id ba fl) = true.
Proof. split; reflexivity. Qed.

(* the replay of fixes/C15-embed-buffer-inside-top-level-buffer.md: a 32 byte buffer (root struct N16 at offset 16)
   embedded with alignment 16 directly inside the top-level buffer *)
Definition ex_data : list Z := [16; 0; 0; 0] ++ zeros 12 ++ [1; 2; 3; 4; 5; 6; 7; 8; 9; 10; 11; 12; 13; 14; 15; 16].
Definition ex_state : est := start_buffer (with_settings init_state true 0 0) 0 0 0.

Lemma embed_depth1_example :
  nest_id ex_state = 0 /\ level ex_state = 1 /\ st_ok ex_state /\ ma_ok ex_state /\
  exists st', embed_buffer ex_state 0 ex_data 16 0 = Some (-36, [{| em_off := -36; em_bytes := le32 32 ++ ex_data |}], st') /\
              min_align st' = 16 /\ e_end st' = 0 /\ small st'.
Proof.
  split; [reflexivity|]. split; [reflexivity|].
  split; [unfold st_ok; cbn; lia|]. split; [right; apply pow2_1|].
  eexists. split; [vm_compute; reflexivity|]. split; [reflexivity|]. split; [reflexivity|]. unfold small. cbn. lia.
Qed.
