(* Fixed-width C integer arithmetic as explicit wrap-around on Z.
   Every model in this development that transcribes C arithmetic writes the
   wrap of the C type it was computed in; nothing widens silently. *)
From Coq Require Export ZArith List Lia Bool.
From Coq Require Import ZifyBool.
Export ListNotations.
Local Open Scope Z_scope.

Ltac Zify.zify_post_hook ::= Z.div_mod_to_equations.

Lemma Some_inj {A} (a b : A) : Some a = Some b -> a = b.
Proof. congruence. Qed.
(* [intros [= <-]] simplifies [256 * x] into a match on x; use this instead *)
Ltac some_inj H := apply Some_inj in H.

Definition u8  (x : Z) : Z := x mod 256.
Definition u16 (x : Z) : Z := x mod 65536.
Definition u32 (x : Z) : Z := x mod 4294967296.
Definition u64 (x : Z) : Z := x mod 18446744073709551616.

(* two's complement reinterpretation *)
Definition s8  (x : Z) : Z := let y := u8 x  in if y <? 128 then y else y - 256.
Definition s16 (x : Z) : Z := let y := u16 x in if y <? 32768 then y else y - 65536.
Definition s32 (x : Z) : Z := let y := u32 x in if y <? 2147483648 then y else y - 4294967296.
Definition s64 (x : Z) : Z := let y := u64 x in if y <? 9223372036854775808 then y else y - 18446744073709551616.

Definition U8_MAX  : Z := 255.
Definition U16_MAX : Z := 65535.
Definition U32_MAX : Z := 4294967295.
Definition U64_MAX : Z := 18446744073709551615.

(* x & (a-1) == 0 for a power of two a is x mod a == 0 *)
Definition is_aligned (x a : Z) : bool := x mod a =? 0.

Definition in_u8  (x : Z) : Prop := 0 <= x < 256.
Definition in_u16 (x : Z) : Prop := 0 <= x < 65536.
Definition in_u32 (x : Z) : Prop := 0 <= x < 4294967296.
Definition in_u64 (x : Z) : Prop := 0 <= x < 18446744073709551616.

Lemma u8_range  x : in_u8 (u8 x).   Proof. unfold in_u8, u8; lia. Qed.
Lemma u16_range x : in_u16 (u16 x). Proof. unfold in_u16, u16; lia. Qed.
Lemma u32_range x : in_u32 (u32 x). Proof. unfold in_u32, u32; lia. Qed.
Lemma u64_range x : in_u64 (u64 x). Proof. unfold in_u64, u64; lia. Qed.

Lemma u8_id  x : in_u8 x  -> u8 x = x.  Proof. unfold in_u8, u8; intros; apply Z.mod_small; lia. Qed.
Lemma u16_id x : in_u16 x -> u16 x = x. Proof. unfold in_u16, u16; intros; apply Z.mod_small; lia. Qed.
Lemma u32_id x : in_u32 x -> u32 x = x. Proof. unfold in_u32, u32; intros; apply Z.mod_small; lia. Qed.
Lemma u64_id x : in_u64 x -> u64 x = x. Proof. unfold in_u64, u64; intros; apply Z.mod_small; lia. Qed.

Lemma u32_add_nowrap a b : 0 <= a -> 0 <= b -> a + b < 4294967296 -> u32 (a + b) = a + b.
Proof. intros; apply u32_id; unfold in_u32; lia. Qed.

(* u32 (a + b) when it wraps exactly once *)
Lemma u32_add_wrap a b : in_u32 a -> in_u32 b -> 4294967296 <= a + b -> u32 (a + b) = a + b - 4294967296.
Proof. unfold in_u32, u32; intros. lia. Qed.

Lemma u32_sub_nowrap a b : 0 <= b <= a -> a < 4294967296 -> u32 (a - b) = a - b.
Proof. intros; apply u32_id; unfold in_u32; lia. Qed.

Lemma u32_sub_wrap a b : in_u32 a -> in_u32 b -> a < b -> u32 (a - b) = a - b + 4294967296.
Proof. unfold in_u32, u32; intros. lia. Qed.

Lemma is_aligned_true x a : is_aligned x a = true <-> x mod a = 0.
Proof. unfold is_aligned; apply Z.eqb_eq. Qed.

Lemma is_aligned_add x y a : 0 < a -> x mod a = 0 -> (x + y) mod a = y mod a.
Proof.
  intros Ha Hx. rewrite Z.add_mod by lia. rewrite Hx, Z.add_0_l. apply Z.mod_mod; lia.
Qed.

(* a divides b, x aligned to b  ==> x aligned to a *)
Lemma mod_divide_trans x a b : 0 < a -> (a | b) -> 0 < b -> x mod b = 0 -> x mod a = 0.
Proof.
  intros Ha [k Hk] Hb Hx. apply Z.mod_divide in Hx; [|lia]. destruct Hx as [q Hq].
  apply Z.mod_divide; [lia|]. exists (q * k). subst. ring.
Qed.
