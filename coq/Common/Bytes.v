(* Buffers: a length and a total byte function; every read is guarded.
   [None] from a read IS the memory-safety violation the theorems exclude. *)
From Flatcc.Common Require Export Wrap.
Local Open Scope Z_scope.

Record buf := { blen : Z; bget : Z -> Z }.

Definition wf_buf (b : buf) : Prop := 0 <= blen b /\ forall i, 0 <= bget b i < 256.

Definition inb (b : buf) (i w : Z) : bool := (0 <=? i) && (i + w <=? blen b).

Definition rd8 (b : buf) (i : Z) : option Z :=
  if inb b i 1 then Some (bget b i) else None.
Definition rd16 (b : buf) (i : Z) : option Z :=
  if inb b i 2 then Some (bget b i + 256 * bget b (i + 1)) else None.
Definition rd32 (b : buf) (i : Z) : option Z :=
  if inb b i 4 then
    Some (bget b i + 256 * bget b (i + 1) + 65536 * bget b (i + 2) + 16777216 * bget b (i + 3))
  else None.

(* list-backed buffers (builder / emitter outputs, extracted driver inputs for small cases) *)
Fixpoint nthZ (l : list Z) (n : nat) : Z :=
  match l, n with
  | [], _ => 0
  | x :: _, O => x
  | _ :: t, S k => nthZ t k
  end.

Definition of_list (l : list Z) : buf :=
  {| blen := Z.of_nat (length l);
     bget := fun i => if i <? 0 then 0 else u8 (nthZ l (Z.to_nat i)) |}.

Lemma inb_true b i w : inb b i w = true <-> 0 <= i /\ i + w <= blen b.
Proof. unfold inb. rewrite andb_true_iff, !Z.leb_le. tauto. Qed.

Lemma rd8_Some b i v : rd8 b i = Some v -> 0 <= i /\ i + 1 <= blen b /\ v = bget b i.
Proof. unfold rd8. destruct (inb b i 1) eqn:E; [|discriminate]. apply inb_true in E. intros [= <-]. tauto. Qed.

Lemma rd16_Some b i v : rd16 b i = Some v -> 0 <= i /\ i + 2 <= blen b.
Proof. unfold rd16. destruct (inb b i 2) eqn:E; [|discriminate]. apply inb_true in E. tauto. Qed.

Lemma rd32_Some b i v : rd32 b i = Some v -> 0 <= i /\ i + 4 <= blen b.
Proof. unfold rd32. destruct (inb b i 4) eqn:E; [|discriminate]. apply inb_true in E. tauto. Qed.

Lemma rd8_inb b i : inb b i 1 = true -> rd8 b i = Some (bget b i).
Proof. unfold rd8. intros ->. reflexivity. Qed.

Lemma rd16_range b i v : wf_buf b -> rd16 b i = Some v -> 0 <= v < 65536.
Proof.
  intros [_ Hb]. unfold rd16. destruct (inb b i 2); [|discriminate]. intros H; some_inj H; subst v.
  pose proof (Hb i). pose proof (Hb (i + 1)). lia.
Qed.

Lemma rd32_range b i v : wf_buf b -> rd32 b i = Some v -> 0 <= v < 4294967296.
Proof.
  intros [_ Hb]. unfold rd32. destruct (inb b i 4); [|discriminate]. intros H; some_inj H; subst v.
  pose proof (Hb i). pose proof (Hb (i + 1)). pose proof (Hb (i + 2)). pose proof (Hb (i + 3)). lia.
Qed.

Lemma rd8_range b i v : wf_buf b -> rd8 b i = Some v -> 0 <= v < 256.
Proof.
  intros [_ Hb]. unfold rd8. destruct (inb b i 1); [|discriminate]. intros [= <-]. apply Hb.
Qed.

Lemma of_list_wf l : wf_buf (of_list l).
Proof.
  split; simpl; [lia|]. intros i. destruct (i <? 0); [lia|]. apply u8_range.
Qed.
