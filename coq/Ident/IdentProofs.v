(* Proofs about IdentModel (C17). *)
From Flatcc.Ident Require Import IdentModel.
Local Open Scope Z_scope.

Definition nul_free (s : list Z) : Prop := Forall (fun c => c <> 0) s.

Lemma cstr_app_nul s rest : nul_free s -> cstr (s ++ 0 :: rest) = s.
Proof.
  induction s as [|c s IH]; intros H; simpl.
  - reflexivity.
  - inversion H as [|? ? Hc Hs]; subst. destruct (c =? 0) eqn:E; [apply Z.eqb_eq in E; contradiction|].
    f_equal. apply IH; assumption.
Qed.

Lemma cstr_nil_end s : nul_free s -> cstr s = s.
Proof.
  induction s as [|c s IH]; intros H; simpl; [reflexivity|].
  inversion H as [|? ? Hc Hs]; subst. destruct (c =? 0) eqn:E; [apply Z.eqb_eq in E; contradiction|].
  f_equal; auto.
Qed.

Lemma fnv_append_app h a b : fnv_append h (a ++ b) = fnv_append (fnv_append h a) b.
Proof. unfold fnv_append. apply fold_left_app. Qed.

Lemma compile_scope_fold scope h :
  fold_left (fun h comp => fnv_step (fnv_append h comp) 46) scope h
  = fnv_append h (concat (map (fun c => c ++ [46]) scope)).
Proof.
  revert h. induction scope as [|c scope IH]; intros h; simpl; [reflexivity|].
  rewrite IH. rewrite fnv_append_app. f_equal. rewrite fnv_append_app. reflexivity.
Qed.

(* compile-time hash = FNV-1a-32 of the dot-qualified name *)
Lemma compile_hash_is_fnv scope name :
  compile_type_hash scope name = fnv1a32 (qualified_name scope name).
Proof.
  unfold compile_type_hash, fnv1a32, qualified_name.
  rewrite compile_scope_fold, fnv_append_app. reflexivity.
Qed.

(* runtime hash of the NUL-terminated qualified name = the same *)
Lemma runtime_hash_is_fnv s rest : nul_free s -> type_hash_from_name (s ++ 0 :: rest) = fnv1a32 s.
Proof. intros H. unfold type_hash_from_name. rewrite cstr_app_nul by assumption. reflexivity. Qed.

Lemma nul_free_qualified scope name :
  Forall nul_free scope -> nul_free name -> nul_free (qualified_name scope name).
Proof.
  intros Hs Hn. unfold qualified_name, nul_free in *. apply Forall_app; split; [|assumption].
  induction Hs as [|c scope Hc Hs IH]; simpl; [constructor|].
  apply Forall_app; split; [|assumption]. apply Forall_app; split; [assumption|].
  constructor; [lia|constructor].
Qed.

Lemma hash_agree scope name rest :
  Forall nul_free scope -> nul_free name ->
  compile_type_hash scope name = fnv1a32 (qualified_name scope name) /\
  type_hash_from_name (qualified_name scope name ++ 0 :: rest) = compile_type_hash scope name.
Proof.
  intros Hs Hn. split; [apply compile_hash_is_fnv|].
  rewrite runtime_hash_is_fnv by (apply nul_free_qualified; assumption).
  symmetry; apply compile_hash_is_fnv.
Qed.

Lemma fnv_step_range h c : in_u32 (fnv_step h c).
Proof. apply u32_range. Qed.

Lemma fnv_append_range h s : in_u32 h -> in_u32 (fnv_append h s).
Proof.
  revert h; induction s as [|c s IH]; intros h Hh; simpl; [assumption|].
  apply IH. apply fnv_step_range.
Qed.

Lemma fnv1a32_nonzero s : 0 < fnv1a32 s < 4294967296.
Proof.
  unfold fnv1a32, fnv_fix.
  assert (H : in_u32 (fnv_append FNV_INIT s)) by (apply fnv_append_range; unfold in_u32, FNV_INIT; lia).
  unfold in_u32 in H. destruct (fnv_append FNV_INIT s =? 0) eqn:E; unfold FNV_INIT in *; lia.
Qed.

(* ------------------------------------------------------------ identifier <-> hash *)
Lemma identifier_roundtrip h : in_u32 h -> type_hash_from_identifier (identifier_from_type_hash h) = h.
Proof.
  unfold in_u32, type_hash_from_identifier, identifier_from_type_hash, u32. intros H. lia.
Qed.

Lemma identifier_bytes h : Forall (fun c => 0 <= c < 256) (identifier_from_type_hash h).
Proof. unfold identifier_from_type_hash. repeat constructor; lia. Qed.

Lemma rd32_of_list_0 a b c d rest :
  0 <= a < 256 -> 0 <= b < 256 -> 0 <= c < 256 -> 0 <= d < 256 ->
  rd32 (of_list (a :: b :: c :: d :: rest)) 0 = Some (a + 256 * b + 65536 * c + 16777216 * d).
Proof.
  intros Ha Hb Hc Hd. unfold rd32, inb, of_list. cbn [blen bget length].
  replace ((0 <=? 0) && (0 + 4 <=? Z.of_nat (S (S (S (S (length rest))))))) with true
    by (symmetry; apply andb_true_iff; split; apply Z.leb_le; lia).
  cbv iota. change (0 <? 0) with false. change (0 + 1 <? 0) with false. change (0 + 2 <? 0) with false.
  change (0 + 3 <? 0) with false. cbv iota.
  change (Z.to_nat 0) with 0%nat. change (Z.to_nat (0 + 1)) with 1%nat. change (Z.to_nat (0 + 2)) with 2%nat.
  change (Z.to_nat (0 + 3)) with 3%nat. cbn [nthZ].
  unfold u8. repeat rewrite Z.mod_small by lia. reflexivity.
Qed.

(* the identifier is the hash in little-endian bytes *)
Lemma identifier_le_bytes h rest : in_u32 h ->
  rd32 (of_list (identifier_from_type_hash h ++ rest)) 0 = Some h.
Proof.
  intros H. unfold identifier_from_type_hash. cbn [app].
  rewrite rd32_of_list_0 by lia. f_equal. unfold in_u32 in H. lia.
Qed.

(* the string form agrees with the byte form when no zero byte truncates it *)
Lemma string_form_agrees a b c d rest :
  0 < a < 256 -> 0 < b < 256 -> 0 < c < 256 -> 0 <= d < 256 ->
  type_hash_from_string (a :: b :: c :: d :: rest) = type_hash_from_identifier [a; b; c; d].
Proof.
  intros Ha Hb Hc Hd. unfold type_hash_from_string, memb, type_hash_from_identifier. cbn [nthZ].
  replace (a =? 0) with false by lia. replace (b =? 0) with false by lia. replace (c =? 0) with false by lia.
  unfold u32. lia.
Qed.

(* short identifiers ("X", "AB", "ABC") are zero padded *)
Lemma string_form_short1 a : 0 < a < 256 -> type_hash_from_string [a] = type_hash_from_identifier [a; 0; 0; 0].
Proof. intros. unfold type_hash_from_string, memb, type_hash_from_identifier, u32. cbn [nthZ].
  replace (a =? 0) with false by lia. change (0 =? 0) with true. cbv iota. lia. Qed.
Lemma string_form_short2 a b : 0 < a < 256 -> 0 < b < 256 ->
  type_hash_from_string [a; b] = type_hash_from_identifier [a; b; 0; 0].
Proof. intros. unfold type_hash_from_string, memb, type_hash_from_identifier, u32. cbn [nthZ].
  replace (a =? 0) with false by lia. replace (b =? 0) with false by lia. change (0 =? 0) with true. cbv iota. lia. Qed.
Lemma string_form_short3 a b c : 0 < a < 256 -> 0 < b < 256 -> 0 < c < 256 ->
  type_hash_from_string [a; b; c] = type_hash_from_identifier [a; b; c; 0].
Proof. intros. unfold type_hash_from_string, memb, type_hash_from_identifier, u32. cbn [nthZ].
  replace (a =? 0) with false by lia. replace (b =? 0) with false by lia. replace (c =? 0) with false by lia. lia. Qed.

(* ------------------------------------------------------------ what the builder stores *)
Lemma nthZ_app_r (l1 l2 : list Z) n : nthZ (l1 ++ l2) (length l1 + n) = nthZ l2 n.
Proof. induction l1; simpl; auto. Qed.

Lemma rd32_of_list_skip pre l :
  rd32 (of_list (pre ++ l)) (Z.of_nat (length pre)) = rd32 (of_list l) 0.
Proof.
  unfold rd32, inb, of_list. cbn [blen bget]. rewrite app_length.
  replace ((0 <=? Z.of_nat (length pre)) && (Z.of_nat (length pre) + 4 <=? Z.of_nat (length pre + length l)))
    with ((0 <=? 0) && (0 + 4 <=? Z.of_nat (length l))).
  2:{ f_equal; [symmetry; apply Z.leb_le; lia|]. destruct (0 + 4 <=? Z.of_nat (length l)) eqn:E; symmetry;
      [apply Z.leb_le; apply Z.leb_le in E; lia | apply Z.leb_gt; apply Z.leb_gt in E; lia]. }
  destruct ((0 <=? 0) && (0 + 4 <=? Z.of_nat (length l))); [|reflexivity].
  assert (K : forall k, 0 <= k -> (if Z.of_nat (length pre) + k <? 0 then 0 else u8 (nthZ (pre ++ l) (Z.to_nat (Z.of_nat (length pre) + k))))
                      = (if 0 + k <? 0 then 0 else u8 (nthZ l (Z.to_nat (0 + k))))).
  { intros k Hk. replace (Z.of_nat (length pre) + k <? 0) with false by lia. replace (0 + k <? 0) with false by lia.
    replace (Z.to_nat (Z.of_nat (length pre) + k)) with (length pre + Z.to_nat (0 + k))%nat by lia.
    rewrite nthZ_app_r. reflexivity. }
  pose proof (K 0) as K0. pose proof (K 1) as K1. pose proof (K 2) as K2. pose proof (K 3) as K3.
  rewrite Z.add_0_r in K0. rewrite Z.add_0_r in K0.
  rewrite K0, K1, K2, K3 by lia. reflexivity.
Qed.

Lemma length_identifier h : length (identifier_from_type_hash h) = 4%nat.
Proof. reflexivity. Qed.

(* A buffer finished with a non-zero identifier carries exactly it at id_pos; none otherwise *)
Lemma stored_identifier_spec with_size size_field root_off id rest :
  Forall (fun c => 0 <= c < 256) id -> length id = 4%nat ->
  type_hash_from_identifier id <> 0 ->
  stored_identifier (of_list (header_bytes with_size size_field root_off (Some id) ++ rest)) with_size
  = Some (type_hash_from_identifier id).
Proof.
  intros Hb Hl Hnz. unfold stored_identifier, header_bytes, builder_id_field, builder_id_out.
  destruct (type_hash_from_identifier id =? 0) eqn:E; [apply Z.eqb_eq in E; contradiction|].
  assert (Hu : in_u32 (type_hash_from_identifier id)).
  { destruct id as [|a [|b [|c [|d [|]]]]]; try discriminate. unfold type_hash_from_identifier. apply u32_range. }
  destruct with_size; cbn [id_pos].
  - rewrite <- !app_assoc.
    rewrite (app_assoc (identifier_from_type_hash size_field)).
    replace 8 with (Z.of_nat (length (identifier_from_type_hash size_field ++ identifier_from_type_hash root_off))) by reflexivity.
    rewrite rd32_of_list_skip. apply identifier_le_bytes; assumption.
  - cbn [app]. rewrite <- !app_assoc.
    replace 4 with (Z.of_nat (length (identifier_from_type_hash root_off))) by reflexivity.
    rewrite rd32_of_list_skip. apply identifier_le_bytes; assumption.
Qed.

Lemma no_identifier_field_when_zero with_size size_field root_off identifier :
  builder_id_out identifier = 0 ->
  Z.of_nat (length (header_bytes with_size size_field root_off identifier)) = id_pos with_size.
Proof.
  intros H. unfold header_bytes, builder_id_field. rewrite H. cbn.
  destruct with_size; reflexivity.
Qed.

(* ------------------------------------------------------------ acceptors *)
Definition accept_spec (req : idreq) (stored : Z) : Prop := requested req = 0 \/ stored = requested req.

Lemma id_accepts_spec req stored : id_accepts req stored = true <-> accept_spec req stored.
Proof.
  unfold id_accepts, accept_spec. rewrite orb_true_iff, !Z.eqb_eq. tauto.
Qed.

Definition header_pre (addr : Z) (b : buf) (minlen : Z) : Prop :=
  addr mod 4 = 0 /\ blen b <= U32_MAX - 8 /\ minlen <= blen b.

Lemma verify_buffer_header_iff addr b req stored :
  header_pre addr b 8 -> stored_identifier b false = Some stored ->
  (verify_buffer_header addr b req = HOk (blen b) <-> accept_spec req stored) /\
  (verify_buffer_header addr b req <> HOk (blen b) -> verify_buffer_header addr b req = HErr E_identifier_mismatch).
Proof.
  intros (Ha & Hs & Hl) Hst. unfold stored_identifier, id_pos in Hst. unfold verify_buffer_header.
  replace (is_aligned addr 4) with true by (symmetry; apply is_aligned_true; assumption).
  replace (U32_MAX - 8 <? blen b) with false by lia. replace (blen b <? 8) with false by lia.
  cbn [negb]. rewrite Hst.
  destruct req as [|m|h].
  - unfold accept_spec; cbn. split; [tauto|congruence].
  - destruct (id_accepts (ReqString m) stored) eqn:E.
    + apply id_accepts_spec in E. split; [tauto|congruence].
    + split; [|reflexivity]. split; [discriminate|]. intros H. apply id_accepts_spec in H. congruence.
  - destruct h as [|p|p].
    + unfold accept_spec; cbn. split; [tauto|congruence].
    + destruct (id_accepts (ReqHash (Z.pos p)) stored) eqn:E.
      * apply id_accepts_spec in E. split; [tauto|congruence].
      * split; [|reflexivity]. split; [discriminate|]. intros H. apply id_accepts_spec in H. congruence.
    + destruct (id_accepts (ReqHash (Z.neg p)) stored) eqn:E.
      * apply id_accepts_spec in E. split; [tauto|congruence].
      * split; [|reflexivity]. split; [discriminate|]. intros H. apply id_accepts_spec in H. congruence.
Qed.

Lemma verify_buffer_header_with_size_iff addr b req stored size_field :
  header_pre addr b 12 -> rd32 b 0 = Some size_field -> size_field <= blen b - 4 ->
  stored_identifier b true = Some stored ->
  (verify_buffer_header_with_size addr b req = HOk (size_field + 4) <-> accept_spec req stored).
Proof.
  intros (Ha & Hs & Hl) Hsz Hle Hst. unfold stored_identifier, id_pos in Hst.
  unfold verify_buffer_header_with_size, verify_buffer_header_with_size_at.
  replace (is_aligned addr 4) with true by (symmetry; apply is_aligned_true; assumption).
  replace (U32_MAX - 8 <? blen b) with false by lia. replace (blen b <? 12) with false by lia.
  cbn [negb]. rewrite Hsz. replace (blen b - 4 <? size_field) with false by lia. rewrite Hst.
  destruct req as [|m|h].
  - unfold accept_spec; cbn. tauto.
  - destruct (id_accepts (ReqString m) stored) eqn:E.
    + apply id_accepts_spec in E. tauto.
    + split; [discriminate|]. intros H. apply id_accepts_spec in H. congruence.
  - destruct h as [|p|p].
    + unfold accept_spec; cbn. tauto.
    + destruct (id_accepts (ReqHash (Z.pos p)) stored) eqn:E.
      * apply id_accepts_spec in E. tauto.
      * split; [discriminate|]. intros H. apply id_accepts_spec in H. congruence.
    + destruct (id_accepts (ReqHash (Z.neg p)) stored) eqn:E.
      * apply id_accepts_spec in E. tauto.
      * split; [discriminate|]. intros H. apply id_accepts_spec in H. congruence.
Qed.

(* reading the identifier at the position of a plain buffer (4) in a size-prefixed buffer is wrong:
   a buffer exists that carries identifier X, is asked for X, and is rejected (and vice versa). *)
Lemma with_size_wrong_position_refuted :
  exists b req stored, header_pre 0 b 12 /\ stored_identifier b true = Some stored /\ accept_spec req stored /\
     verify_buffer_header_with_size_at 4 0 b req = HErr E_identifier_mismatch.
Proof.
  exists (of_list [12;0;0;0; 12;0;0;0; 77;79;78;83; 1;0;0;0]), (ReqString [77;79;78;83]), 1397641037.
  split; [|split; [|split]].
  - unfold header_pre. cbn. lia.
  - vm_compute. reflexivity.
  - right. vm_compute. reflexivity.
  - vm_compute. reflexivity.
Qed.

Lemma has_identifier_iff b base req stored :
  rd32 b (base + 4) = Some stored ->
  (has_identifier b base req = Some true <-> accept_spec req stored) /\
  (has_identifier b base req = Some true \/ has_identifier b base req = Some false).
Proof.
  intros Hst. unfold has_identifier. rewrite Hst.
  destruct req as [|m|h].
  - unfold accept_spec; cbn. tauto.
  - destruct (id_accepts (ReqString m) stored) eqn:E.
    + apply id_accepts_spec in E. tauto.
    + split; [|tauto]. split; [discriminate|]. intros H. apply id_accepts_spec in H. congruence.
  - destruct h as [|p|p].
    + unfold accept_spec; cbn. tauto.
    + destruct (id_accepts (ReqHash (Z.pos p)) stored) eqn:E.
      * apply id_accepts_spec in E. tauto.
      * split; [|tauto]. split; [discriminate|]. intros H. apply id_accepts_spec in H. congruence.
    + destruct (id_accepts (ReqHash (Z.neg p)) stored) eqn:E.
      * apply id_accepts_spec in E. tauto.
      * split; [|tauto]. split; [discriminate|]. intros H. apply id_accepts_spec in H. congruence.
Qed.

Lemma printer_accept_iff b req stored :
  8 <= blen b -> stored_identifier b false = Some stored ->
  (printer_accept_header b req = Some true <-> accept_spec req stored).
Proof.
  intros Hl Hst. unfold stored_identifier, id_pos in Hst. unfold printer_accept_header.
  replace (blen b <? 8) with false by lia. rewrite Hst.
  destruct req as [|m|h].
  - unfold accept_spec; cbn. tauto.
  - destruct (id_accepts (ReqString m) stored) eqn:E.
    + apply id_accepts_spec in E. tauto.
    + split; [discriminate|]. intros H. apply id_accepts_spec in H. congruence.
  - destruct (id_accepts (ReqHash h) stored) eqn:E.
    + apply id_accepts_spec in E. tauto.
    + split; [discriminate|]. intros H. apply id_accepts_spec in H. congruence.
Qed.

(* non-vacuity: a concrete finished buffer meets the hypotheses *)
Example header_pre_example :
  let b := of_list (header_bytes true 12 12 (Some [77;79;78;83]) ++ [1;0;0;0]) in
  header_pre 16 b 12 /\ stored_identifier b true = Some 1397641037 /\ rd32 b 0 = Some 12.
Proof. cbn zeta. split; [unfold header_pre; cbn; lia|]. split; vm_compute; reflexivity. Qed.

(* runtime identifier of a name = the generated type identifier (also for names whose raw FNV is zero) *)
Lemma identifier_from_name_agrees : forall scope name rest,
  Forall nul_free scope -> nul_free name ->
  identifier_from_name (qualified_name scope name ++ 0 :: rest) = compile_type_identifier scope name.
Proof.
  intros scope name rest Hs Hn. unfold identifier_from_name, compile_type_identifier.
  destruct (hash_agree scope name rest Hs Hn) as [_ H]. rewrite H. reflexivity.
Qed.
