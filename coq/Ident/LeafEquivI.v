(* C17 leaves (T5): the identifier conversions of flatcc_identifier.h and the four buffer-header acceptors of
   src/runtime/verifier.c, as TRANSLATED from the current source (Flatcc.Generated.Leaf_ident), equal the hand-written
   functions of Ident/IdentModel.v for all arguments (conventions: LeafConvI.v).  Proof pattern: the reads of a C string /
   identifier array are rewritten to conditions on the bytes (str_rd8_*, arr_rd8), the rest is the generic [leaf_auto]. *)
From Flatcc.Verifier Require Import LeafTac.
From Flatcc.Ident Require Import IdentModel LeafConvI.
From Flatcc.Generated Require Import Leaf_ident.
From Coq Require Import ZifyBool.
Local Open Scope Z_scope.
Ltac Zify.zify_post_hook ::= Z.div_mod_to_equations.

(* ---- reads of a C string: byte k is readable iff no earlier byte is NUL *)
Lemma str_rd8_0 mem a : p_rd8 (str_ptr mem a) 0 = Some (memb mem 0).
Proof. reflexivity. Qed.
Lemma str_rd8_1 mem a : p_rd8 (str_ptr mem a) 1 = if memb mem 0 =? 0 then None else Some (memb mem 1).
Proof. unfold str_ptr, memb, nul_before. cbn [p_rd8]. change (Z.to_nat 1) with 1%nat. change (1 <? 0) with false. cbn [seq existsb orb].
  rewrite orb_false_r. reflexivity. Qed.
Lemma str_rd8_2 mem a : p_rd8 (str_ptr mem a) 2 =
  if (memb mem 0 =? 0) || (memb mem 1 =? 0) then None else Some (memb mem 2).
Proof. unfold str_ptr, memb, nul_before. cbn [p_rd8]. change (Z.to_nat 2) with 2%nat. change (2 <? 0) with false. cbn [seq existsb orb].
  rewrite orb_false_r. reflexivity. Qed.
Lemma str_rd8_3 mem a : p_rd8 (str_ptr mem a) 3 =
  if (memb mem 0 =? 0) || ((memb mem 1 =? 0) || (memb mem 2 =? 0)) then None else Some (memb mem 3).
Proof. unfold str_ptr, memb, nul_before. cbn [p_rd8]. change (Z.to_nat 3) with 3%nat. change (3 <? 0) with false. cbn [seq existsb orb].
  rewrite orb_false_r. reflexivity. Qed.

Lemma memb_range mem i : bytes mem -> 0 <= memb mem i < 256.
Proof.
  unfold bytes, memb. intros H. revert i. induction H as [|c t Hc Ht IH]; intros i.
  - destruct i; cbn; lia.
  - destruct i; cbn [nthZ]; [assumption|apply IH].
Qed.

Lemma c_type_hash_from_string_eq mem a : bytes mem ->
  c_flatbuffers_type_hash_from_string (str_ptr mem a) = Some (type_hash_from_string mem).
Proof.
  intros Hb. unfold c_flatbuffers_type_hash_from_string, type_hash_from_string.
  rewrite !str_rd8_0, !str_rd8_1, !str_rd8_2, !str_rd8_3.
  pose proof (memb_range mem 0 Hb). pose proof (memb_range mem 1 Hb).
  pose proof (memb_range mem 2 Hb). pose proof (memb_range mem 3 Hb).
  generalize dependent (memb mem 0). generalize dependent (memb mem 1).
  generalize dependent (memb mem 2). generalize dependent (memb mem 3). intros p3 H3 p2 H2 p1 H1 p0 H0.
  unfold u32. leaf_auto.
Qed.

Lemma c_read_thash_identifier_eq mem a : bytes mem ->
  c_read_thash_identifier (str_ptr mem a) = Some (type_hash_from_string mem).
Proof. intros Hb. unfold c_read_thash_identifier. rewrite c_type_hash_from_string_eq by assumption. reflexivity. Qed.

(* a non-null identifier array of four bytes; the null pointer gives 0 (IdentModel.builder_id_out None) *)
Lemma c_type_hash_from_identifier_eq a b c d addr : bytes [a; b; c; d] -> addr <> 0 ->
  c_flatbuffers_type_hash_from_identifier (arr_ptr [a; b; c; d] addr) = Some (type_hash_from_identifier [a; b; c; d]).
Proof.
  intros Hb Ha. unfold bytes in Hb.
  inversion Hb as [|? ? H0 Hb1]; subst. inversion Hb1 as [|? ? H1 Hb2]; subst.
  inversion Hb2 as [|? ? H2 Hb3]; subst. inversion Hb3 as [|? ? H3 _]; subst.
  unfold c_flatbuffers_type_hash_from_identifier, type_hash_from_identifier.
  change (p_rd8 (arr_ptr [a; b; c; d] addr) 0) with (Some a). change (p_rd8 (arr_ptr [a; b; c; d] addr) 1) with (Some b).
  change (p_rd8 (arr_ptr [a; b; c; d] addr) 2) with (Some c). change (p_rd8 (arr_ptr [a; b; c; d] addr) 3) with (Some d).
  cbn [arr_ptr p_addr]. destruct (addr =? 0) eqn:E; [lia|]. cbn [negb].
  unfold u32. leaf_auto.
Qed.

Lemma c_type_hash_from_identifier_null :
  c_flatbuffers_type_hash_from_identifier null_ptr = Some (builder_id_out None).
Proof. reflexivity. Qed.

(* the four chars written to out_identifier, read as bytes, are the little-endian identifier *)
Lemma c_identifier_from_type_hash_eq h : in_u32 h ->
  (let '(a, b, c, d) := c_flatbuffers_identifier_from_type_hash h in [u8 a; u8 b; u8 c; u8 d]) = identifier_from_type_hash h.
Proof.
  intros Hh. unfold c_flatbuffers_identifier_from_type_hash, identifier_from_type_hash. cbv zeta. rewrite !u8_s8. unfold u8, u32.
  leaf_auto.
Qed.

(* ---- header acceptors *)
Definition req_ok (r : idreq) : Prop :=
  match r with ReqNull => True | ReqString m => bytes m | ReqHash _ => False end.

Ltac header_prelude :=
  unfold hres_of, hres2_of, buf_ptr, is_aligned, id_accepts, U32_MAX, u64, u32; cbn [p_addr p_rd32 p_rd8 p_rd16 requested].

Lemma c_verify_buffer_header_eq b addr req faddr :
  wf_buf b -> in_u64 (blen b) -> req_ok req -> faddr <> 0 ->
  hres_of (blen b) (c_flatcc_verify_buffer_header (buf_ptr b addr) (blen b) (fid_ptr req faddr)) = verify_buffer_header addr b req.
Proof.
  intros Hwf Hl Hr Hf. unfold c_flatcc_verify_buffer_header, verify_buffer_header.
  destruct req as [|mem|h]; [| |contradiction]; cbn [fid_ptr req_ok] in *.
  - header_prelude. cbn [null_ptr p_addr]. change (0 =? 0) with true. cbn [negb]. leaf_auto.
  - rewrite c_read_thash_identifier_eq by assumption.
    assert (Ha : (p_addr (str_ptr mem faddr) =? 0) = false) by (cbn [str_ptr p_addr]; lia). rewrite Ha. cbn [negb].
    header_prelude. generalize (type_hash_from_string mem). intros id2. leaf_auto.
Qed.

Lemma c_verify_typed_buffer_header_eq b addr h :
  wf_buf b -> in_u64 (blen b) -> in_u32 h ->
  hres_of (blen b) (c_flatcc_verify_typed_buffer_header (buf_ptr b addr) (blen b) h) = verify_buffer_header addr b (ReqHash h).
Proof.
  intros Hwf Hl Hh. unfold c_flatcc_verify_typed_buffer_header, verify_buffer_header.
  destruct (Z.eq_dec h 0) as [->|Hn].
  - header_prelude. leaf_auto.
  - unfold in_u32 in Hh. destruct h as [|p|p]; [congruence| |lia]. header_prelude. leaf_auto.
Qed.

Lemma c_verify_buffer_header_with_size_eq b addr req faddr :
  wf_buf b -> in_u64 (blen b) -> req_ok req -> faddr <> 0 ->
  hres2_of (c_flatcc_verify_buffer_header_with_size (buf_ptr b addr) (blen b) (fid_ptr req faddr)) = verify_buffer_header_with_size addr b req.
Proof.
  intros Hwf Hl Hr Hf. unfold c_flatcc_verify_buffer_header_with_size, verify_buffer_header_with_size, verify_buffer_header_with_size_at.
  destruct req as [|mem|h]; [| |contradiction]; cbn [fid_ptr req_ok] in *.
  - header_prelude. cbn [null_ptr p_addr]. change (0 =? 0) with true. cbn [negb]. leaf_auto.
  - rewrite c_read_thash_identifier_eq by assumption.
    assert (Ha : (p_addr (str_ptr mem faddr) =? 0) = false) by (cbn [str_ptr p_addr]; lia). rewrite Ha. cbn [negb].
    header_prelude. generalize (type_hash_from_string mem). intros id2. leaf_auto.
Qed.

Lemma c_verify_typed_buffer_header_with_size_eq b addr h :
  wf_buf b -> in_u64 (blen b) -> in_u32 h ->
  hres2_of (c_flatcc_verify_typed_buffer_header_with_size (buf_ptr b addr) (blen b) h) = verify_buffer_header_with_size addr b (ReqHash h).
Proof.
  intros Hwf Hl Hh. unfold c_flatcc_verify_typed_buffer_header_with_size, verify_buffer_header_with_size, verify_buffer_header_with_size_at.
  destruct (Z.eq_dec h 0) as [->|Hn].
  - header_prelude. leaf_auto.
  - unfold in_u32 in Hh. destruct h as [|p|p]; [congruence| |lia]. header_prelude. leaf_auto.
Qed.

Lemma leafI_example :
  bytes [77; 79; 78; 83] /\ req_ok (ReqString [77; 79; 78; 83]) /\
  c_flatbuffers_type_hash_from_string (str_ptr [77; 79] 64) = Some 20301 /\
  c_flatbuffers_type_hash_from_string (str_ptr [77; 0; 78; 83] 64) = Some 77 /\
  p_rd8 (str_ptr [77; 0; 78; 83] 64) 2 = None /\
  hres_of 8 (c_flatcc_verify_buffer_header (buf_ptr (of_list [4; 0; 0; 0; 77; 79; 78; 83]) 0) 8 (str_ptr [77; 79; 78; 83] 64)) = HOk 8 /\
  hres_of 8 (c_flatcc_verify_buffer_header (buf_ptr (of_list [4; 0; 0; 0; 77; 79; 78; 83]) 0) 8 (str_ptr [77; 79; 78; 84] 64)) = HErr E_identifier_mismatch.
Proof.
  split; [repeat constructor; lia|]. split; [repeat constructor; lia|]. repeat split; vm_compute; reflexivity.
Qed.
