(* C17 leaves (T5): reading conventions that relate the Gallina GENERATED from flatcc_identifier.h and the buffer-header
   acceptors of src/runtime/verifier.c (Flatcc.Generated.Leaf_ident, translators/cleaf_to_coq.py, family `ident`) to
   the hand-written Ident/IdentModel.v, and the executable boundary-grid searches used by checks/c01c_util.py.
   * a buffer is [buf_ptr b addr]: numeric value u64 addr, reads are the guarded reads of [b] (a read outside is None);
     the size argument is [blen b];
   * a C string is [str_ptr mem addr] with addr <> 0: [mem] is what lies at the pointer (IdentModel's convention: reading
     past the list reads 0); byte k can be read iff none of the bytes before it is NUL - a read BEYOND the terminator is
     None, so an equality with a Some result also says that the C does not read past the end of the string;
   * a 4-byte identifier array is [arr_ptr l addr] (bytes 0 .. length l - 1 readable); the null pointer is [null_ptr];
   * fid = NULL is ReqNull, a string is ReqString mem, a type hash h is ReqHash h;
   * an int result r with the buffer size bs reads as [hres_of bs (Some r)]: 0 -> HOk bs, else HErr r; None -> HOob;
   * `char out_identifier[4]` is four results of type char; as bytes they are [u8] of them. *)
From Flatcc.Verifier Require Export LeafTac.
From Flatcc.Ident Require Export IdentModel.
From Flatcc.Generated Require Import Leaf_ident.
Local Open Scope Z_scope.

Definition no_rd : Z -> option Z := fun _ => None.

Definition buf_ptr (b : buf) (addr : Z) : cptr :=
  {| p_addr := u64 addr; p_rd8 := rd8 b; p_rd16 := rd16 b; p_rd32 := rd32 b |}.

Definition nul_before (mem : list Z) (n : nat) : bool := existsb (fun j => nthZ mem j =? 0) (seq 0 n).

Definition str_ptr (mem : list Z) (addr : Z) : cptr :=
  {| p_addr := addr;
     p_rd8 := fun k => if (k <? 0) || nul_before mem (Z.to_nat k) then None else Some (nthZ mem (Z.to_nat k));
     p_rd16 := no_rd; p_rd32 := no_rd |}.

Definition arr_ptr (l : list Z) (addr : Z) : cptr :=
  {| p_addr := addr;
     p_rd8 := fun k => if (0 <=? k) && (k <? Z.of_nat (length l)) then Some (nthZ l (Z.to_nat k)) else None;
     p_rd16 := no_rd; p_rd32 := no_rd |}.

Definition null_ptr : cptr := {| p_addr := 0; p_rd8 := no_rd; p_rd16 := no_rd; p_rd32 := no_rd |}.

Definition fid_ptr (r : idreq) (addr : Z) : cptr :=
  match r with ReqString m => str_ptr m addr | _ => null_ptr end.

Definition hres_of (bs : Z) (r : option Z) : hres :=
  match r with None => HOob | Some c => if c =? 0 then HOk bs else HErr c end.
Definition hres2_of (r : option (Z * Z)) : hres :=
  match r with None => HOob | Some (c, bs) => if c =? 0 then HOk bs else HErr c end.

Definition bytes (l : list Z) : Prop := Forall (fun c => 0 <= c < 256) l.

(* ---- search: witness = (bytes of the buffer / string, arguments ++ [C result; model result]);
   results are coded: HOk bs -> 1000000 + bs, HErr c -> c, HOob / None -> -1 *)
Definition hcode (r : hres) : Z := match r with HOk bs => 1000000 + bs | HErr c => c | HOob => -1 end.
Definition ocode (r : option Z) : Z := match r with None => -1 | Some v => v end.
Fixpoint first_some {A B} (f : A -> option B) (l : list A) : option B :=
  match l with
  | [] => None
  | x :: r => match f x with Some y => Some y | None => first_some f r end
  end.
Definition wit (bts args : list Z) (c m : Z) : option (list Z * list Z) :=
  if c =? m then None else Some (bts, args ++ [c; m]).

Definition Gstr : list (list Z) :=
  [ []; [65]; [65; 66]; [65; 66; 67]; [65; 66; 67; 68]; [65; 66; 67; 68; 69]; [255; 254; 253; 252];
    [65; 0; 66; 67]; [65; 66; 0; 67]; [65; 66; 67; 0]; [0; 65]; [1; 1; 1; 128] ].
Definition Gh : list Z := [0; 1; 255; 256; 65535; 65536; 16777215; 16777216; 1145258561; 2147483648; 4294967295; 3405691582].

Definition search_flatbuffers_type_hash_from_string :=
  first_some (fun m => wit m [] (ocode (c_flatbuffers_type_hash_from_string (str_ptr m 4096))) (type_hash_from_string m)) Gstr.

(* the loop runs on fuel = length of the list + 1 (enough for every C string in it); out of fuel is coded -2 *)
Definition fcode (r : option (fres Z)) : Z := match r with None => -1 | Some OutOfFuel => -2 | Some (Ret v) => v end.
Definition Gname : list (list Z) :=
  Gstr ++ [[77; 111; 110; 115; 116; 101; 114]; [77; 121; 71; 97; 109; 101; 46; 69; 120; 97; 109; 112; 108; 101; 46; 77; 111; 110; 115; 116; 101; 114];
           [255; 128; 127; 1]; [65; 66; 0; 67; 68; 69; 70; 71]].
Definition search_flatbuffers_type_hash_from_name :=
  first_some (fun m => wit m [] (fcode (c_flatbuffers_type_hash_from_name (S (length m)) (str_ptr m 4096))) (type_hash_from_name m)) Gname.

Definition search_flatbuffers_type_hash_from_identifier :=
  first_some (fun m => if (length m =? 4)%nat then
      wit m [] (ocode (c_flatbuffers_type_hash_from_identifier (arr_ptr m 4096))) (type_hash_from_identifier m) else None) Gstr.

Definition search_flatbuffers_identifier_from_type_hash :=
  first_some (fun h => let '(a, b, c, d) := c_flatbuffers_identifier_from_type_hash h in
    wit [] [h] (type_hash_from_identifier [u8 a; u8 b; u8 c; u8 d]) (type_hash_from_identifier (identifier_from_type_hash h))) Gh.

(* header buffers: [size field]? root offset, identifier, ... *)
Definition Ghb : list (list Z) :=
  [ [4; 0; 0; 0; 65; 66; 67; 68];
    [4; 0; 0; 0; 65; 66; 67; 68; 0; 0; 0; 0];
    [8; 0; 0; 0; 4; 0; 0; 0; 65; 66; 67; 68];
    [12; 0; 0; 0; 4; 0; 0; 0; 65; 66; 67; 68; 0; 0; 0; 0];
    [9; 0; 0; 0; 4; 0; 0; 0; 65; 66; 67; 68];
    [8; 0; 0; 0; 65; 66; 67; 68; 65; 0; 0; 0];
    [4; 0; 0; 0; 65; 0; 0; 0];
    [4; 0; 0; 0; 0; 0; 0; 0];
    [4; 0; 0; 0; 65; 66; 67];
    [4; 0; 0; 0; 65; 66; 67; 68; 1; 2; 3];
    [4; 0; 0; 0];
    [] ].
Definition Gaddr : list Z := [0; 4; 1; 2; 18446744073709551612].
Definition Greqs : list idreq := ReqNull :: map ReqString [[65; 66; 67; 68]; [65]; []; [65; 66; 67; 68; 69]; [66; 66; 67; 68]; [65; 66; 67]].
Definition Greqh : list Z := [1145258561; 0; 65; 1145258562; 4294967295].
Definition req_args (r : idreq) : list Z :=
  match r with ReqNull => [-1] | ReqString m => 0 :: m | ReqHash h => [1; h] end.

Definition search_flatcc_verify_buffer_header :=
  first_some (fun l => let b := of_list l in first_some (fun addr => first_some (fun req =>
    wit l (addr :: req_args req)
      (hcode (hres_of (blen b) (c_flatcc_verify_buffer_header (buf_ptr b addr) (blen b) (fid_ptr req 4096))))
      (hcode (verify_buffer_header addr b req))) Greqs) Gaddr) Ghb.
Definition search_flatcc_verify_buffer_header_with_size :=
  first_some (fun l => let b := of_list l in first_some (fun addr => first_some (fun req =>
    wit l (addr :: req_args req)
      (hcode (hres2_of (c_flatcc_verify_buffer_header_with_size (buf_ptr b addr) (blen b) (fid_ptr req 4096))))
      (hcode (verify_buffer_header_with_size addr b req))) Greqs) Gaddr) Ghb.
Definition search_flatcc_verify_typed_buffer_header :=
  first_some (fun l => let b := of_list l in first_some (fun addr => first_some (fun h =>
    wit l [addr; 1; h]
      (hcode (hres_of (blen b) (c_flatcc_verify_typed_buffer_header (buf_ptr b addr) (blen b) h)))
      (hcode (verify_buffer_header addr b (ReqHash h)))) Greqh) Gaddr) Ghb.
Definition search_flatcc_verify_typed_buffer_header_with_size :=
  first_some (fun l => let b := of_list l in first_some (fun addr => first_some (fun h =>
    wit l [addr; 1; h]
      (hcode (hres2_of (c_flatcc_verify_typed_buffer_header_with_size (buf_ptr b addr) (blen b) h)))
      (hcode (verify_buffer_header_with_size addr b (ReqHash h)))) Greqh) Gaddr) Ghb.
