(* C17: type hashes, identifiers, header acceptors.
   Transcribes include/flatcc/flatcc_identifier.h, src/compiler/semantics.c set_type_hash
   (FNV-1a from external/hash), the identifier part of
   flatcc_builder_create_buffer, src/runtime/verifier.c header checks, the generated
   flatbuffers_has_identifier / has_type_hash / __read_root, and json_printer.c accept_header.
   No proofs in this file. *)
From Flatcc.Common Require Export Bytes.
From Flatcc.Generated Require Export Consts.
Local Open Scope Z_scope.

Definition FNV_INIT  : Z := 2166136261.
Definition FNV_PRIME : Z := 16777619.

(* hash ^= c; hash *= prime  (uint32_t) *)
Definition fnv_step (h c : Z) : Z := u32 (Z.lxor h c * FNV_PRIME).
Definition fnv_append (h : Z) (s : list Z) : Z := fold_left fnv_step s h.
Definition fnv_fix (h : Z) : Z := if h =? 0 then FNV_INIT else h.

(* FNV-1a-32 of a byte string, zero mapped to hash("") : the property's reference function *)
Definition fnv1a32 (s : list Z) : Z := fnv_fix (fnv_append FNV_INIT s).

(* A C string in memory: the bytes before the first NUL (the list is what lies at the pointer;
   reading past the list reads the terminator). *)
Fixpoint cstr (mem : list Z) : list Z :=
  match mem with
  | [] => []
  | c :: t => if c =? 0 then [] else c :: cstr t
  end.

(* flatbuffers_type_hash_from_name(const char *name) *)
Definition type_hash_from_name (mem : list Z) : Z := fnv1a32 (cstr mem).

(* semantics.c set_type_hash: every scope component followed by ".", then the symbol *)
Definition compile_type_hash (scope : list (list Z)) (name : list Z) : Z :=
  let h := fold_left (fun h comp => fnv_step (fnv_append h comp) 46) scope FNV_INIT in
  fnv_fix (fnv_append h name).

Definition qualified_name (scope : list (list Z)) (name : list Z) : list Z :=
  concat (map (fun c => c ++ [46]) scope) ++ name.

(* flatbuffers_identifier_from_type_hash *)
Definition identifier_from_type_hash (h : Z) : list Z :=
  [ h mod 256; (h / 256) mod 256; (h / 65536) mod 256; (h / 16777216) mod 256 ].

(* flatbuffers_type_hash_from_identifier (non-null, 4 bytes) *)
Definition type_hash_from_identifier (id : list Z) : Z :=
  match id with
  | [a; b; c; d] => u32 (a + 256 * b + 65536 * c + 16777216 * d)
  | _ => 0
  end.

(* the generated  #define N_type_identifier "\xNN\xNN\xNN\xNN"  is identifier_from_type_hash *)
Definition compile_type_identifier (scope : list (list Z)) (name : list Z) : list Z :=
  identifier_from_type_hash (compile_type_hash scope name).

(* flatbuffers_identifier_from_name(const char *name, flatbuffers_fid_t out): the runtime counterpart of the
   generated N_type_identifier, = identifier_from_type_hash (type_hash_from_name name) *)
Definition identifier_from_name (mem : list Z) : list Z :=
  identifier_from_type_hash (type_hash_from_name mem).

(* flatbuffers_type_hash_from_string: a NUL terminated string, at most 4 significant bytes,
   stops at the first NUL among p[0..2]; p[3] is added untested. [mem] is the memory at the pointer,
   reads beyond it give the terminator 0. *)
Definition memb (mem : list Z) (i : nat) : Z := nthZ mem i.
Definition type_hash_from_string (mem : list Z) : Z :=
  let p0 := memb mem 0 in let p1 := memb mem 1 in let p2 := memb mem 2 in let p3 := memb mem 3 in
  if p0 =? 0 then 0 else
  if p1 =? 0 then p0 else
  if p2 =? 0 then p0 + 256 * p1 else
  p0 + 256 * p1 + 65536 * p2 + 16777216 * p3.

(* ---------------------------------------------------------------- requested identifiers *)
Inductive idreq :=
| ReqNull                       (* fid == NULL *)
| ReqString (mem : list Z)      (* const char *fid *)
| ReqHash (h : Z).              (* flatbuffers_thash_t *)

(* the value an acceptor compares with; 0 means "accept anything" *)
Definition requested (r : idreq) : Z :=
  match r with
  | ReqNull => 0
  | ReqString m => type_hash_from_string m
  | ReqHash h => h
  end.

(* ---------------------------------------------------------------- what the builder stores *)
(* flatcc_builder_create_buffer: identifier argument (NULL or 4 bytes) -> id_out; the field is
   emitted only when id_out <> 0, directly after the root offset. *)
Definition builder_id_out (identifier : option (list Z)) : Z :=
  match identifier with
  | None => 0
  | Some id => type_hash_from_identifier id
  end.
Definition builder_id_field (identifier : option (list Z)) : list Z :=
  let v := builder_id_out identifier in
  if v =? 0 then [] else identifier_from_type_hash v.

(* position of the identifier field relative to the start of the bytes handed to the user *)
Definition id_pos (with_size : bool) : Z := if with_size then 8 else 4.

(* header of a finished top-level buffer: [size]? root-offset identifier? ; the rest is opaque *)
Definition header_bytes (with_size : bool) (size_field root_off : Z) (identifier : option (list Z)) : list Z :=
  (if with_size then identifier_from_type_hash size_field else [])
  ++ identifier_from_type_hash root_off ++ builder_id_field identifier.

(* the identifier a buffer carries (0 = none / unknown) *)
Definition stored_identifier (b : buf) (with_size : bool) : option Z := rd32 b (id_pos with_size).

(* ---------------------------------------------------------------- acceptors *)
(* error codes: Generated/Consts.v (T1, from FLATCC_VERIFY_ERROR_MAP on every run) *)

Definition id_accepts (req : idreq) (stored : Z) : bool :=
  let id2 := requested req in (id2 =? 0) || (stored =? id2).

Inductive hres := HOk (bufsiz : Z) | HErr (code : Z) | HOob.

(* flatcc_verify_buffer_header / flatcc_verify_typed_buffer_header *)
Definition verify_buffer_header (addr : Z) (b : buf) (req : idreq) : hres :=
  if negb (is_aligned addr 4) then HErr E_runtime_buffer_header_not_aligned else
  if U32_MAX - 8 <? blen b then HErr E_runtime_buffer_size_too_large else
  if blen b <? 8 then HErr E_buffer_header_too_small else
  match req with
  | ReqNull => HOk (blen b)
  | ReqHash 0 => HOk (blen b)
  | _ => match rd32 b 4 with
         | None => HOob
         | Some id => if id_accepts req id then HOk (blen b) else HErr E_identifier_mismatch
         end
  end.

(* flatcc_verify_buffer_header_with_size / typed variant. [idpos] is where the identifier is
   read: the property demands 8 (after size field and root offset). *)
Definition verify_buffer_header_with_size_at (idpos : Z) (addr : Z) (b : buf) (req : idreq) : hres :=
  if negb (is_aligned addr 4) then HErr E_runtime_buffer_header_not_aligned else
  if U32_MAX - 8 <? blen b then HErr E_runtime_buffer_size_too_large else
  if blen b <? 12 then HErr E_buffer_header_too_small else
  match rd32 b 0 with
  | None => HOob
  | Some size_field =>
    if blen b - 4 <? size_field then HErr E_runtime_buffer_size_less_than_size_field else
    match req with
    | ReqNull => HOk (size_field + 4)
    | ReqHash 0 => HOk (size_field + 4)
    | _ => match rd32 b idpos with
           | None => HOob
           | Some id => if id_accepts req id then HOk (size_field + 4) else HErr E_identifier_mismatch
           end
    end
  end.
Definition verify_buffer_header_with_size := verify_buffer_header_with_size_at 8.

(* generated flatbuffers_has_identifier(buffer, fid) / has_type_hash(buffer, thash); buffer points at
   the root offset (after read_size_prefix for size-prefixed buffers) *)
Definition has_identifier (b : buf) (base : Z) (req : idreq) : option bool :=
  match req with
  | ReqNull => Some true
  | ReqHash 0 => Some true
  | _ => match rd32 b (base + 4) with
         | None => None
         | Some id => Some (id_accepts req id)
         end
  end.

(* json_printer.c accept_header (fid is a string or NULL) *)
Definition printer_accept_header (b : buf) (req : idreq) : option bool :=
  if blen b <? 8 then Some false else
  match req with
  | ReqNull => Some true
  | _ => match rd32 b 4 with
         | None => None
         | Some id => Some (id_accepts req id)
         end
  end.
