(* C17 leaves (T5), loops: flatbuffers_type_hash_from_name (the FNV-1a loop over a NUL-terminated name), as TRANSLATED
   from the current flatcc_identifier.h into a Fixpoint on explicit fuel (Flatcc.Generated.Leaf_ident), equals
   IdentModel.type_hash_from_name whenever the fuel exceeds the length of the name; in particular it does not run out of
   fuel and never reads past the terminator ([str_ptr]: such a read is None). *)
From Flatcc.Verifier Require Import LeafTac.
From Flatcc.Ident Require Import IdentModel LeafConvI.
From Flatcc.Generated Require Import Leaf_ident.
From Coq Require Import ZifyBool.
Local Open Scope Z_scope.
Ltac Zify.zify_post_hook ::= Z.div_mod_to_equations.

Lemma nul_seq_cons c t : forall n s,
  existsb (fun j => nthZ (c :: t) j =? 0) (seq (S s) n) = existsb (fun j => nthZ t j =? 0) (seq s n).
Proof. induction n as [|n IH]; intros s; [reflexivity|]. cbn [seq existsb nthZ]. rewrite IH. reflexivity. Qed.

(* reading a string one byte further is reading its tail, provided the first byte is not NUL *)
Lemma str_rd8_cons c t a a' k : 0 <= k ->
  p_rd8 (str_ptr (c :: t) a) (k + 1) = if c =? 0 then None else p_rd8 (str_ptr t a') k.
Proof.
  intros Hk. unfold str_ptr, nul_before. cbn [p_rd8].
  replace (Z.to_nat (k + 1)) with (S (Z.to_nat k)) by lia.
  cbn [seq existsb]. rewrite nul_seq_cons. cbn [nthZ].
  destruct (k + 1 <? 0) eqn:E1; [lia|]. destruct (k <? 0) eqn:E2; [lia|]. cbn [orb].
  destruct (c =? 0); reflexivity.
Qed.

Lemma str_rd8_at0 mem a : p_rd8 (str_ptr mem a) 0 = Some (memb mem 0).
Proof. reflexivity. Qed.

Lemma u32_mul_idem x p : u32 (u32 x * p) = u32 (x * p).
Proof. unfold u32. rewrite Z.mul_mod_idemp_l by lia. reflexivity. Qed.

Lemma u8_s8_byte c : 0 <= c < 256 -> u8 (s8 c) = c.
Proof. intros H. rewrite u8_s8. apply u8_id. exact H. Qed.
Lemma s8_zero c : 0 <= c < 256 -> (s8 c =? 0) = (c =? 0).
Proof. intros H. unfold s8, u8. destruct (c mod 256 <? 128) eqn:E; lia. Qed.

(* the loop, started at offset k of any pointer that reads like the string [mem] from there on.
   The proof does not follow the shape of the loop body: the loop condition is decided from the byte just read
   ([byte_cond]), the new state is identified with (fnv_step h c, k + 1) by arithmetic ([lxor_arith]: wraps around an
   xor whose operands are in range are removed, the rest is lia with the xor as an atom). *)
Lemma u32_lxor a b : u32 (Z.lxor a b) = Z.lxor (u32 a) (u32 b).
Proof.
  unfold u32. change 4294967296 with (2 ^ 32). rewrite <- !Z.land_ones by lia.
  apply Z.bits_inj'. intros n Hn. rewrite !Z.lxor_spec, !Z.land_spec, !Z.lxor_spec.
  destruct (Z.testbit a n), (Z.testbit b n), (Z.testbit (Z.ones 32) n); reflexivity.
Qed.
Lemma u32_lxor_small h c : in_u32 h -> 0 <= c < 256 -> u32 (Z.lxor h c) = Z.lxor h c.
Proof. intros Hh Hc. rewrite u32_lxor, (u32_id h Hh), (u32_id c) by (unfold in_u32; lia). reflexivity. Qed.

Ltac byte_norm c Hc :=
  rewrite ?(u8_s8_byte c Hc); rewrite ?(u32_id c) by (unfold in_u32; lia); rewrite ?(u8_id c) by (unfold in_u8; lia).

Lemma hash_loop_spec p : forall mem fuel k h,
  bytes mem -> 0 <= k -> in_u32 h ->
  (forall i, 0 <= i -> p_rd8 p (k + i) = p_rd8 (str_ptr mem 1) i) ->
  (length (cstr mem) < fuel)%nat ->
  c_flatbuffers_type_hash_from_name_loop1 fuel p k h
  = Some (Ret (fnv_append h (cstr mem), k + Z.of_nat (length (cstr mem)))).
Proof.
  induction mem as [|c t IH]; intros fuel k h Hb Hk Hh Hrd Hf; (destruct fuel as [|fuel]; [cbn in Hf; lia|]).
  - cbn [c_flatbuffers_type_hash_from_name_loop1]. pose proof (Hrd 0 ltac:(lia)) as R0. rewrite Z.add_0_r in R0.
    rewrite ?R0, ?str_rd8_at0. cbn [memb nthZ cstr length fnv_append fold_left]. cbv zeta.
    match goal with |- (if ?cnd then _ else _) = _ => replace cnd with false by (vm_compute; reflexivity) end.
    do 2 f_equal. apply f_equal2; [reflexivity|lia].
  - inversion Hb as [|? ? Hc Ht]; subst.
    cbn [c_flatbuffers_type_hash_from_name_loop1]. pose proof (Hrd 0 ltac:(lia)) as R0. rewrite Z.add_0_r in R0.
    rewrite ?R0, ?str_rd8_at0. cbn [memb nthZ]. cbn [cstr] in *. cbv zeta.
    (* the loop condition, whatever its form, is a test of the byte against 0 *)
    match goal with |- (if ?cnd then _ else _) = _ =>
      assert (Ecnd : cnd = negb (c =? 0)) by (unfold s8, s32, s16, u8, u16, u32; destruct (c =? 0) eqn:?;
            repeat match goal with |- context [if ?b then _ else _] => destruct b eqn:? end; lia); rewrite Ecnd end.
    destruct (c =? 0) eqn:Ec; cbn [negb].
    + cbn [length fnv_append fold_left]. do 2 f_equal. apply f_equal2; [reflexivity|lia].
    + cbn [length] in Hf.
      assert (Hk1 : 0 <= k + 1) by lia.
      assert (Hf1 : (length (cstr t) < fuel)%nat) by lia.
      assert (Hrd1 : forall i, 0 <= i -> p_rd8 p (k + 1 + i) = p_rd8 (str_ptr t 1) i).
      { intros i Hi. replace (k + 1 + i) with (k + (i + 1)) by lia. rewrite (Hrd (i + 1)) by lia.
        rewrite (str_rd8_cons c t 1 1 i Hi), Ec. reflexivity. }
      assert (Hh1 : in_u32 (fnv_step h c)) by (unfold fnv_step; apply u32_range).
      (* the new state is (fnv_step h c, k + 1), whatever sequence of assignments computed it *)
      match goal with |- c_flatbuffers_type_hash_from_name_loop1 _ _ ?kk ?hh = _ =>
        replace kk with (k + 1) by lia;
        replace hh with (fnv_step h c);
        [| unfold fnv_step, FNV_PRIME; byte_norm c Hc; rewrite ?(u32_lxor_small h c Hh Hc); unfold u32; lia ]
      end.
      rewrite (IH fuel (k + 1) (fnv_step h c) Ht Hk1 Hh1 Hrd1 Hf1).
      cbn [length fnv_append fold_left]. do 2 f_equal. apply f_equal2; [reflexivity|lia].
Qed.

Lemma c_type_hash_from_name_eq mem a fuel : bytes mem -> (length (cstr mem) < fuel)%nat ->
  c_flatbuffers_type_hash_from_name fuel (str_ptr mem a) = Some (Ret (type_hash_from_name mem)).
Proof.
  intros Hb Hf. unfold c_flatbuffers_type_hash_from_name. cbv zeta.
  rewrite (hash_loop_spec (str_ptr mem a) mem fuel 0 2166136261 Hb ltac:(lia) ltac:(unfold in_u32; lia)); [|intros i Hi; reflexivity|assumption].
  unfold type_hash_from_name, fnv1a32, fnv_fix, FNV_INIT.
  destruct (fnv_append 2166136261 (cstr mem) =? 0); reflexivity.
Qed.

Lemma leafIN_example :
  c_flatbuffers_type_hash_from_name 8 (str_ptr [77; 111; 110; 115; 116; 101; 114] 64) = Some (Ret (fnv1a32 [77; 111; 110; 115; 116; 101; 114])) /\
  c_flatbuffers_type_hash_from_name 7 (str_ptr [77; 111; 110; 115; 116; 101; 114] 64) = Some OutOfFuel /\
  c_flatbuffers_type_hash_from_name 9 (str_ptr [] 64) = Some (Ret 2166136261).
Proof. repeat split; vm_compute; reflexivity. Qed.
