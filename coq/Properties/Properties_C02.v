(* C02 - Whatever the builder finishes is a valid FlatBuffer that the verifier accepts.
   Only statements, each closed by [exact] of a lemma proved in Format/SpecProofs.v and Builder/*.v.

   Models: Builder/EmitModel.v (src/runtime/builder.c: the create layer, the table frame of the stack layer, the
   buffer frames; tied to /repo on every run by byte-exact emit-stream correspondence, checks/c02.py) and
   Format/Spec.v (the binary format as a checking decoder, independent of flatcc's verifier).

   Proved here (for ALL schemas, scripts, settings; no size bound other than the 2^31 byte limit of the builder):
   the whole-build theorem for scripts whose tables carry scalar / struct / string / vector / table / vector-of-strings /
   vector-of-tables / union (table, struct and string members, NONE) fields (union-vector and nested-buffer fields of
   the schema left absent), created in any order the API allows, with any sharing of references, objects created before
   or after start_buffer, vtable clustering on or off, any block alignment, plain or size-prefixed, with or without
   identifier, table or struct root.
   NOT proved (kept as statements in comments below; decided by the correspondence and the independent oracles of
   checks/c02.py, c03.py, c15.py on every run): union vectors, nested buffers, the stack-layer call styles
   (start/push/extend/append/truncate: their emit streams are compared with the create-level model), and the
   link "Spec.wf implies flatcc's verifier accepts" (the lead's verify_complete over Verifier/VerifierModel.v). *)
From Flatcc.Format Require Import Schema Spec SpecProofs.
From Flatcc.Builder Require Import EmitModel VMem Objects Leaves OffVec TableLayout Table Buffer Script ScriptProofs Example.
Local Open Scope Z_scope.

(* The finished bytes of every well-typed build are well formed by the independent format rules: offsets forward and
   in range, vtables well formed, every element aligned for its type relative to the buffer start - also when the start is
   only as aligned as the builder reports -, strings terminated, required fields present; the reported alignment is a
   power of two >= 4 (and at least the block alignment, C02_create_buffer).  The end padding of align_buffer_end adds
   emit_end mod align zero bytes: the size is NOT in general a multiple of the block alignment (pinned by /repo's emit_test). *)
Theorem C02_build_wf : forall Sc sc R v ws n regs ems st,
  wt_script Sc sc R v ws n -> run init_state [] sc = Some (regs, ems, st) -> small st ->
  wf n Sc R ws (buffer_bytes st) = true /\
  wf_aligned n Sc R ws (buffer_alignment st) (buffer_bytes st) = true /\
  pow2 (buffer_alignment st) /\ 4 <= buffer_alignment st.
Proof. exact build_wf. Qed.
Print Assumptions C02_build_wf.

(* Nothing already emitted ever changes: a decoded object stays decoded when bytes are added before or after it, when
   the buffer is moved, and when the depth bound grows (the invariant behind the build theorem; also what makes a
   finished buffer position independent). *)
Theorem C02_decode_stable : forall Sc n n', (n <= n')%nat ->
  forall m o m' o' ds t p v, mle m o m' o' -> dec_table n Sc m o ds t p = Some v -> dec_table n' Sc m' o' ds t p = Some v.
Proof. exact dec_table_mono. Qed.
Print Assumptions C02_decode_stable.

(* One start_table .. end_table: with valid children the emitted table is valid at the returned reference, in every
   buffer that will contain it; the vtable cache stays sound (a reused vtable is byte-identical, lies in the buffer and is
   2-aligned). *)
Theorem C02_table_valid : forall n Sc st adds t flds fs ref es st',
  st_ok st -> ma_ok st -> cache_ok st ->
  Forall farg_wf adds -> Z.of_nat (length adds) <= 32765 -> table_fits adds ->
  table_fields Sc t = Some flds -> fields_built n Sc st adds flds fs ->
  build_table st adds = Some (ref, es, st') -> small st' ->
  step st st' /\ cache_ok st' /\ e_start st' = ref /\ ref < e_start st /\ ref mod 4 = 0 /\
  valid (S n) Sc st' (lvl_align st') (OTable t) ref (VTable fs).
Proof. exact build_table_valid. Qed.
Print Assumptions C02_table_valid.

(* A table whose inline data does not fit the 16-bit table size of its vtable (4 + data <= 65535) is refused by
   start_table .. end_table; it is never finished with truncated vtable entries. *)
Theorem C02_table_too_large_refused : forall st adds r, build_table st adds = Some r -> table_fits adds.
Proof. exact build_table_fits. Qed.
Print Assumptions C02_table_too_large_refused.

(* create_buffer (the header: size prefix, root offset, identifier, padding that aligns the start; end padding) *)
Theorem C02_create_buffer : forall n Sc st id b_align root align flags R v ref es st',
  st_ok st -> ma_ok st -> cache_ok st -> pow2 align -> min_align st <= align ->
  balign_ok b_align -> balign_ok (block_align st) -> in_u32 id ->
  Z.land flags 1 = 0 ->
  e_start st <= root < 0 -> valid n Sc st (lvl_align st) (root_oty R) root v ->
  create_buffer st id b_align root align flags = Some (ref, es, st') -> small st' ->
  st_ok st' /\ e_start st' = ref /\ pow2 (min_align st') /\ 4 <= min_align st' /\ align <= min_align st' /\
  ref mod min_align st' = 0 /\
  (forall ds0, Forall (fun d => d mod min_align st' = 0) ds0 ->
     decode_mem n Sc R (negb (Z.land flags 2 =? 0)) ds0 (mem_of_list (buffer_bytes st')) (lenZ (buffer_bytes st')) = Some v) /\
  (b_align <> 0 -> b_align <= min_align st').
Proof. exact create_buffer_top. Qed.
Print Assumptions C02_create_buffer.

(* The hypotheses are satisfiable: a concrete schema and script (shared string, object created before start_buffer,
   inline vtables, block_align 16, size prefix, identifier) that is well typed and runs. *)
Theorem C02_example_well_typed : wt_script ex_schema ex_script (RTable 1) ex_value true 2.
Proof. exact ex_wt. Qed.
Print Assumptions C02_example_well_typed.

Theorem C02_example_runs : exists regs ems st,
  run init_state [] ex_script = Some (regs, ems, st) /\ small st /\ buffer_alignment st = 16 /\ lenZ (buffer_bytes st) = 112.
Proof. exact ex_runs. Qed.
Print Assumptions C02_example_runs.

(* Full statements not yet proved (decided by checks/c02.py on every run):
   build_wf_full      : as C02_build_wf with wt_script extended by union-vector / nested-buffer fields and by the
                        stack-layer call styles;
   build_verifies     : wt_script ... -> verify_root S R variant fid addr (buffer_bytes st) = Ok  (addr aligned to the
                        reported alignment) - needs the lead's VerifierModel and verify_complete;
   verify_complete    : wf n S R ws b = true -> n <= MAX_LEVELS -> 8 <= len b <= 2^32 - 9 -> verify_root ... b = Ok. *)
