(* C02 - Whatever the builder finishes is a valid FlatBuffer that the verifier accepts.
   Only statements, each closed by [exact] of a lemma proved in Builder/*.v. *)
From Flatcc.Format Require Import Schema Spec.
From Flatcc.Builder Require Import EmitModel BuilderBasics.
Local Open Scope Z_scope.

Theorem C02_le32_value : forall x, in_u32 x ->
  x mod 256 + 256 * ((x / 256) mod 256) + 65536 * ((x / 65536) mod 256) + 16777216 * ((x / 16777216) mod 256) = x.
Proof. exact le32_value. Qed.
Print Assumptions C02_le32_value.
