(* C02, completeness direction - the verifier accepts every format-conforming buffer within its documented limits,
   whichever writer laid it out; in particular every buffer finished through correct use of the builder API.
   Only statements, each closed by [exact] of a lemma proved in Verifier/Complete*.v.

   Two independently built developments are connected here:
     Format/Spec.v            the FlatBuffers binary format as a checking decoder (wf, wf_aligned), written without
                              reference to flatcc's verifier;
     Verifier/VerifierModel.v the transcription of src/runtime/verifier.c + generated verifiers (verify_root), validated
                              against the C code by bin/check C01.
   [to_vschema] / [to_vroot] translate the format-side schema to the verifier-side schema constructor by constructor.

   Fragment proved ([schema_in_fragment]): ALL field kinds except nested buffers: scalars / structs, strings, scalar /
   struct vectors, string vectors, tables, table vectors, unions (table, struct, string members, NONE, unknown type codes),
   union vectors; table and struct roots; plain and size-prefixed.
   Hypotheses, each forced (see design.d/C02-complete.md, and the [_needed] examples below):
     schema_wf (to_vschema Sc)   what the schema compiler guarantees (ids < 32764, sizes < 65536, alignments powers of two
                                 <= 32768, element sizes > 0, union ids >= 1, union codes in 1..255);
     members_nonempty, root_ok   struct union members / struct roots are not empty (root alignment a power of two);
     byte_list l                 the input is a list of bytes;
     levels_needed Sc n <= VERIFIER_MAX_LEVELS
                                 n = the specification's depth bound (number of tables on a path); the verifier spends one
                                 level per table and one more per table vector / union vector, and demands that the level
                                 counter stays positive after the decrement: n + 1 <= 100 for schemas without such vectors,
                                 2 * n <= 100 otherwise (both tight);
     header_room                 struct roots only: 8 bytes (12 size-prefixed) - the verifier reserves identifier space;
     length l <= 2^31            the verifier refuses vtables at offsets >= 2^31;
     addr mod A = 0, 0 < A       the buffer is placed at an address aligned to the A relative to which the specification
                                 demanded alignment (the builder's reported buffer alignment).
   FLATCC_ENFORCE_ALIGNED_EMPTY_VECTORS = 0 and = 1 are both covered (the specification demands element alignment of
   empty vectors too).  Required fields, union type/value pairing and the fixed union-vector presence rule are demanded
   by the specification as well. *)
From Flatcc.Format Require Schema Spec.
From Flatcc.Builder Require EmitModel VMem Script Example.
From Flatcc.Verifier Require Import Schema VerifierModel VerifierProofsBase CompleteBase CompleteTable Complete CompleteBuild CompleteBytes CompleteLimits.
Local Open Scope Z_scope.

(* 1. Completeness relative to the independent format specification. *)
Theorem C02_verify_complete_partial : forall n Sc R ws l A addr fuel,
  schema_wf (to_vschema Sc) = true -> schema_in_fragment Sc = true -> members_nonempty Sc = true -> root_ok R ->
  byte_list l = true ->
  Sp.wf_aligned n Sc R ws A l = true ->
  levels_needed Sc n <= VERIFIER_MAX_LEVELS -> (n <= fuel)%nat ->
  header_room R ws (Z.of_nat (length l)) -> Z.of_nat (length l) <= 2147483648 ->
  0 < A -> addr mod A = 0 ->
  verify_root (of_list l) addr (to_vschema Sc) fuel (to_vroot R) (to_variant ws) = VOk.
Proof. exact verify_complete_partial. Qed.
Print Assumptions C02_verify_complete_partial.

(* 1'. The same for Spec.wf (alignment demanded relative to the buffer start only), the buffer placed at an address that
   is as aligned as any element can need (32768 = the largest alignment schema_wf allows). *)
Theorem C02_verify_complete_wf_partial : forall n Sc R ws l addr fuel,
  schema_wf (to_vschema Sc) = true -> schema_in_fragment Sc = true -> members_nonempty Sc = true -> root_ok R ->
  byte_list l = true ->
  Sp.wf n Sc R ws l = true ->
  levels_needed Sc n <= VERIFIER_MAX_LEVELS -> (n <= fuel)%nat ->
  header_room R ws (Z.of_nat (length l)) -> Z.of_nat (length l) <= 2147483648 ->
  addr mod 32768 = 0 ->
  verify_root (of_list l) addr (to_vschema Sc) fuel (to_vroot R) (to_variant ws) = VOk.
Proof. exact verify_complete_wf_partial. Qed.
Print Assumptions C02_verify_complete_wf_partial.

(* Full statement, not proved: the same without [schema_in_fragment].  It is FALSE as it stands for nested buffers
   (C02_nested_start_stricter below): the specification demands alignment inside a nested buffer relative to the
   enclosing buffers only, the verifier demands the nested start aligned to the alignment argument of the generated
   call and alignment of vectors / member structs relative to the nested start. *)

(* 2. The builder emits bytes when it is given bytes (string contents, vector / struct / inline field data, union type
      codes, embedded buffers): for EVERY script, well typed or not. *)
Theorem C02_build_emits_bytes : forall sc regs es st,
  EM.run EM.init_state [] sc = Some (regs, es, st) -> script_bytes sc = true -> byte_list (EM.buffer_bytes st) = true.
Proof. exact build_emits_bytes. Qed.
Print Assumptions C02_build_emits_bytes.

(* 2'. Every well-typed create-level build is accepted by the generated verifier, at every address aligned to the
      alignment the builder reports. *)
Theorem C02_build_verifies : forall Sc sc R v ws n regs ems st addr fuel,
  BS.wt_script Sc sc R v ws n -> EM.run EM.init_state [] sc = Some (regs, ems, st) -> VMem.small st ->
  schema_wf (to_vschema Sc) = true -> schema_in_fragment Sc = true -> members_nonempty Sc = true -> root_ok R ->
  script_bytes sc = true ->
  levels_needed Sc n <= VERIFIER_MAX_LEVELS -> (n <= fuel)%nat ->
  header_room R ws (EM.lenZ (EM.buffer_bytes st)) ->
  addr mod EM.buffer_alignment st = 0 ->
  verify_root (of_list (EM.buffer_bytes st)) addr (to_vschema Sc) fuel (to_vroot R) (to_variant ws) = VOk.
Proof. exact build_verifies'. Qed.
Print Assumptions C02_build_verifies.

(* 3. ... and (with C01) every read of the generated reader API over a builder output is in bounds and aligned. *)
Theorem C02_build_reads_safely : forall Sc sc R v ws n regs ems st addr fuel ra,
  BS.wt_script Sc sc R v ws n -> EM.run EM.init_state [] sc = Some (regs, ems, st) -> VMem.small st ->
  schema_wf (to_vschema Sc) = true -> schema_in_fragment Sc = true -> members_nonempty Sc = true -> root_ok R ->
  script_bytes sc = true ->
  levels_needed Sc n <= VERIFIER_MAX_LEVELS -> (n <= fuel)%nat ->
  header_room R ws (EM.lenZ (EM.buffer_bytes st)) ->
  addr mod EM.buffer_alignment st = 0 ->
  ra_ok (to_vschema Sc) ra = true -> root_aligned ra addr (to_vroot R) ->
  walk_root (of_list (EM.buffer_bytes st)) addr (to_vschema Sc) fuel (to_vroot R) ws = WOk.
Proof. exact build_reads_safely'. Qed.
Print Assumptions C02_build_reads_safely.

(* 4. Non-vacuity: the script of Builder/Example.v (shared string, object created before start_buffer, union with a
      table member, block alignment 16, size prefix, identifier) satisfies every hypothesis; acceptance also by
      computation on the 112 bytes. *)
Theorem C02_example_build_verifies : exists regs ems st,
  BS.wt_script Example.ex_schema Example.ex_script (FS.RTable 1) Example.ex_value true 2 /\
  EM.run EM.init_state [] Example.ex_script = Some (regs, ems, st) /\ VMem.small st /\
  schema_wf (to_vschema Example.ex_schema) = true /\ schema_in_fragment Example.ex_schema = true /\
  members_nonempty Example.ex_schema = true /\ script_bytes Example.ex_script = true /\
  levels_needed Example.ex_schema 2 = 3 /\ EM.buffer_alignment st = 16 /\
  ra_ok (to_vschema Example.ex_schema) (fun _ => 16) = true /\
  verify_root (of_list (EM.buffer_bytes st)) 0 (to_vschema Example.ex_schema) 2 (RTable 1) WithSize = VOk /\
  walk_root (of_list (EM.buffer_bytes st)) 0 (to_vschema Example.ex_schema) 2 (RTable 1) true = WOk.
Proof. exact ex_build_verifies. Qed.
Print Assumptions C02_example_build_verifies.

Theorem C02_example_build_verifies_computed :
  EM.lenZ ex_bytes = 112 /\
  verify_root (of_list ex_bytes) 0 (to_vschema Example.ex_schema) (Z.to_nat VERIFIER_MAX_LEVELS) (RTable 1) WithSize = VOk.
Proof. exact ex_build_verifies_computed. Qed.
Print Assumptions C02_example_build_verifies_computed.

(* 5. The limits are real: format-conforming buffers the verifier refuses when a hypothesis of 1 is dropped. *)
Theorem C02_header_room_needed : exists Sc R l A,
  schema_wf (to_vschema Sc) = true /\ schema_in_fragment Sc = true /\ members_nonempty Sc = true /\ root_ok R /\
  byte_list l = true /\ Sp.wf_aligned 0 Sc R false A l = true /\ 0 < A /\
  verify_root (of_list l) 0 (to_vschema Sc) 0 (to_vroot R) Plain = VErr E_buffer_header_too_small.
Proof. exact header_room_needed. Qed.
Print Assumptions C02_header_room_needed.

Theorem C02_members_nonempty_needed : exists Sc l,
  schema_wf (to_vschema Sc) = true /\ schema_in_fragment Sc = true /\ byte_list l = true /\
  Sp.wf_aligned 1 Sc (FS.RTable 0) false 4 l = true /\
  verify_root (of_list l) 0 (to_vschema Sc) 1 (RTable 0) Plain = VErr E_offset_out_of_range.
Proof. exact members_nonempty_needed. Qed.
Print Assumptions C02_members_nonempty_needed.

(* The level bound is tight, with the real constant VERIFIER_MAX_LEVELS = 100: chains of tables T { c : [T] } (1216
   bytes for 51 tables) and T { c : T }. *)
Theorem C02_levels_needed_tight :
  levels_needed vchain_schema 50 = 100 /\
  Sp.wf_aligned 50 vchain_schema (FS.RTable 0) false 4 (chain vblock 50) = true /\
  verify_root (of_list (chain vblock 50)) 0 (to_vschema vchain_schema) 100 (RTable 0) Plain = VOk /\
  levels_needed vchain_schema 51 = 102 /\
  Sp.wf_aligned 51 vchain_schema (FS.RTable 0) false 4 (chain vblock 51) = true /\
  verify_root (of_list (chain vblock 51)) 0 (to_vschema vchain_schema) 100 (RTable 0) Plain = VErr E_max_nesting_level_reached /\
  levels_needed tchain_schema 99 = 100 /\
  Sp.wf_aligned 99 tchain_schema (FS.RTable 0) false 4 (chain tblock 99) = true /\
  verify_root (of_list (chain tblock 99)) 0 (to_vschema tchain_schema) 100 (RTable 0) Plain = VOk /\
  levels_needed tchain_schema 100 = 101 /\
  Sp.wf_aligned 100 tchain_schema (FS.RTable 0) false 4 (chain tblock 100) = true /\
  verify_root (of_list (chain tblock 100)) 0 (to_vschema tchain_schema) 100 (RTable 0) Plain = VErr E_max_nesting_level_reached.
Proof. exact levels_needed_tight. Qed.
Print Assumptions C02_levels_needed_tight.

(* Outside the fragment: a nested buffer the specification accepts and the verifier refuses (nested start 4-aligned
   but not aligned to the alignment argument 8 of the generated nested-root call). *)
Theorem C02_nested_start_stricter : exists Sc l,
  schema_wf (to_vschema Sc) = true /\ byte_list l = true /\
  Sp.wf_aligned 2 Sc (FS.RTable 0) false 8 l = true /\
  verify_root (of_list l) 0 (to_vschema Sc) 2 (RTable 0) Plain = VErr E_vector_header_out_of_range_or_unaligned.
Proof. exact nested_start_stricter. Qed.
Print Assumptions C02_nested_start_stricter.
