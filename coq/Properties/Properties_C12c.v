(* C12 / C02, leaf tie (T5) - the arithmetic leaves of src/runtime/builder.c that place every emitted block
   (alignup_uoffset, front_pad, back_pad) and the range tests at the head of emit_front / emit_back, TRANSLATED from
   the current source on every run (translators/cleaf_to_coq.py -> Flatcc.Generated.Leaf_builder), are equal to the
   hand-written functions of Builder/EmitModel.v for ALL arguments in the ranges of the C types.
   Conventions (Builder/LeafConvB.v): B is [B_of st] (emit_start, emit_end), iov is [iov_of len count] with
   len = lenZ bytes, align is a power of two up to 32768.
   Only statements, each closed by [exact] of a lemma proved in Builder/LeafEquivB.v. *)
From Flatcc.Verifier Require Import LeafTac.
From Flatcc.Builder Require Import EmitModel LeafConvB LeafEquivB.
From Flatcc.Generated Require Import Leaf_builder.
Local Open Scope Z_scope.

Theorem C12_leaf_front_pad_eq : forall st size align,
  in_s32 (e_start st) -> in_u32 size -> pow2_16 align ->
  c_front_pad (B_of st) size align = front_pad st size align.
Proof. exact c_front_pad_eq. Qed.
Print Assumptions C12_leaf_front_pad_eq.

Theorem C12_leaf_back_pad_eq : forall st align,
  in_s32 (e_end st) -> pow2_16 align ->
  c_back_pad (B_of st) align = back_pad st align.
Proof. exact c_back_pad_eq. Qed.
Print Assumptions C12_leaf_back_pad_eq.

Theorem C12_leaf_alignup_uoffset_eq : forall x align,
  in_u32 x -> pow2_16 align ->
  c_alignup_uoffset x align = alignup x align.
Proof. exact c_alignup_uoffset_eq. Qed.
Print Assumptions C12_leaf_alignup_uoffset_eq.

(* the 64-bit range test of emit_front: iov->len == 0, iov->len > SOFFSET_MAX, emit_start - len < SOFFSET_MIN *)
Theorem C12_leaf_emit_front_guard_eq : forall st len count,
  in_s32 (e_start st) -> in_u64 len ->
  c_emit_front_guard (B_of st) (iov_of len count) = emit_front_guard st len.
Proof. exact c_emit_front_guard_eq. Qed.
Print Assumptions C12_leaf_emit_front_guard_eq.

Theorem C12_leaf_emit_back_guard_eq : forall st len count,
  in_s32 (e_end st) -> in_u64 len ->
  c_emit_back_guard (B_of st) (iov_of len count) = emit_back_guard st len.
Proof. exact c_emit_back_guard_eq. Qed.
Print Assumptions C12_leaf_emit_back_guard_eq.

(* ... and these tests are exactly when the model's emit_front / emit_back refuse *)
Theorem C12_leaf_emit_front_fails_iff : forall st bytes count,
  in_s32 (e_start st) -> in_u64 (lenZ bytes) ->
  (emit_front st bytes = None <-> c_emit_front_guard (B_of st) (iov_of (lenZ bytes) count) = true).
Proof. exact emit_front_fails_iff. Qed.
Print Assumptions C12_leaf_emit_front_fails_iff.

Theorem C12_leaf_emit_back_fails_iff : forall st bytes count,
  in_s32 (e_end st) -> in_u64 (lenZ bytes) ->
  (emit_back st bytes = None <-> c_emit_back_guard (B_of st) (iov_of (lenZ bytes) count) = true).
Proof. exact emit_back_fails_iff. Qed.
Print Assumptions C12_leaf_emit_back_fails_iff.

Example C12_leaf_example :
  pow2_16 8 /\ c_front_pad (B_of (st_of (-5) 0)) 6 8 = 5 /\ c_back_pad (B_of (st_of 0 13)) 4 = 1 /\
  c_alignup_uoffset 13 8 = 16 /\ c_emit_front_guard (B_of (st_of (-2147483640) 0)) (iov_of 9 1) = true /\
  c_emit_front_guard (B_of (st_of (-2147483640) 0)) (iov_of 8 1) = false /\
  c_emit_back_guard (B_of (st_of 0 2147483640)) (iov_of 8 1) = true /\
  c_emit_back_guard (B_of (st_of 0 2147483640)) (iov_of 7 1) = false.
Proof. exact leafB_example. Qed.
Print Assumptions C12_leaf_example.
