(* C18 - Clone and pick preserve content and sharing; the reference map is a map.
   Only statements, each closed by [exact] of a lemma proved in Refmap/RefmapProofs.v / Refmap/CloneProofs.v.
   Model: Refmap/RefmapModel.v (transcription of src/runtime/refmap.c with size_t wraps; the hash is ANY function;
   the GROWTH POLICY is an oracle: every insert / resize carries "allocation refused" or the bucket count the
   implementation was observed to have after the operation, and the model brings its table to that size).
   Vocabulary: [inv hash m] table invariant (buckets 0 or a power of two, count = occupied slots < buckets, every key
   reachable from its home slot over occupied slots, keys distinct); [holds m k r] key k is stored with reference r;
   [rep hash m A] = inv + (holds m k r <-> A k = Some r) for an abstract map A : Z -> option Z;
   [policy_ok c A o] THE SIDE CONDITION on an observed bucket count nb (c = stored keys): nb is a power of two <= 2^60,
   c < nb, and for an insert of a new key c + 1 < nb (an empty slot remains, so every probe loop ends);
   [trace_ok A ops outs] every result in the run is the one the abstract map dictates;
   [last_stored h k] the last reference successfully inserted under k since the last reset / clear (h newest first).
   The growth policy of refmap.c itself is a separate obligation: Properties_C18p.v. *)
From Flatcc.Refmap Require Import RefmapModel RefmapProofs CloneProofs.
Local Open Scope Z_scope.

(* For EVERY hash function, EVERY sequence of inserts / finds / resizes / resets / clears and EVERY growth oracle: no loop
   runs out of steps, every intermediate result is the abstract map's (an oracle that violates the side condition gives
   BadPolicy and changes nothing), the invariant holds at the end, and find returns for each key the last reference stored
   under it since the last reset / clear, not_found otherwise. *)
Theorem C18_refmap_refines : forall (hash : Z -> Z) ops,
  exists m outs, run hash rm_init ops = Some (m, outs) /\
    trace_ok aempty ops outs /\
    inv hash m /\
    forall k, find hash m k =
              Some (match last_stored (rev (combine ops outs)) k with Some r => r | None => RM_NOT_FOUND end).
Proof. exact refmap_refines. Qed.
Print Assumptions C18_refmap_refines.

(* the same from any state that represents an abstract map *)
Theorem C18_run_refines : forall (hash : Z -> Z) ops m A,
  rep hash m A ->
  exists m' outs, run hash m ops = Some (m', outs) /\ trace_ok A ops outs /\ rep hash m' (abs_run A ops outs).
Proof. exact run_refines. Qed.
Print Assumptions C18_run_refines.

(* one step: the result is BadPolicy exactly when the oracle violates the side condition; refusal and BadPolicy change nothing *)
Theorem C18_step_refines : forall (hash : Z -> Z) m A o,
  rep hash m A ->
  exists m' out, run_op hash m o = Some (m', out) /\ out_ok A o out /\ rep hash m' (abs_step A o out) /\
                 (out = BadPolicy <-> policy_ok (count m) A o = false) /\
                 (forall r, out = AllocFailed r \/ out = BadPolicy -> m' = m).
Proof. exact step_refines. Qed.
Print Assumptions C18_step_refines.

Theorem C18_find_is_lookup : forall (hash : Z -> Z) m A k,
  rep hash m A -> find hash m k = Some (alook A k).
Proof. exact rep_find. Qed.
Print Assumptions C18_find_is_lookup.

(* a refused allocation (insert then answers not_found, resize -1) and a rejected policy leave the map as it was *)
Theorem C18_failure_unchanged : forall (hash : Z -> Z) m A o m' out,
  rep hash m A -> run_op hash m o = Some (m', out) -> (exists x, out = AllocFailed x) \/ out = BadPolicy ->
  m' = m /\ match o, out with
            | OInsert _ _ ORefused, AllocFailed x => x = RM_NOT_FOUND
            | OResize ORefused, AllocFailed x => x = -1
            | OInsert _ _ (OBuckets _), BadPolicy | OResize (OBuckets _), BadPolicy => policy_ok (count m) A o = false
            | _, _ => False
            end.
Proof. exact failure_unchanged. Qed.
Print Assumptions C18_failure_unchanged.

(* a policy that satisfies the side condition is never rejected *)
Theorem C18_policy_ok_accepted : forall (hash : Z -> Z) m A o m' out,
  rep hash m A -> policy_ok (count m) A o = true -> run_op hash m o = Some (m', out) -> out <> BadPolicy.
Proof. exact policy_ok_accepted. Qed.
Print Assumptions C18_policy_ok_accepted.

(* insert under an existing key REPLACES the reference (the C does `return T[j].ref = ref`) and keeps count, whatever the
   table size; a new key increments count; the new reference is returned and found; the table has the observed size *)
Theorem C18_insert_replaces : forall (hash : Z -> Z) m A s r nb m' x,
  rep hash m A -> s <> 0 -> insert hash m s r (OBuckets nb) = Some (m', Done x) ->
  x = r /\ find hash m' s = Some r /\ buckets m' = nb /\
  count m' = (if present A s then count m else count m + 1).
Proof. exact insert_count. Qed.
Print Assumptions C18_insert_replaces.

Theorem C18_null_key : forall (hash : Z -> Z) m A r g,
  rep hash m A -> insert hash m 0 r g = Some (m, Done r) /\ find hash m 0 = Some RM_NOT_FOUND.
Proof. exact null_key. Qed.
Print Assumptions C18_null_key.

(* an empty slot always exists (so the probe ends): count < buckets whenever a table exists *)
Theorem C18_empty_slot_exists : forall (hash : Z -> Z) m,
  inv hash m -> buckets m <> 0 -> bucket_ok (buckets m) /\ count m < buckets m.
Proof. exact inv_pos. Qed.
Print Assumptions C18_empty_slot_exists.

(* the stored content is a function of the key *)
Theorem C18_keys_distinct : forall (hash : Z -> Z) m k r r',
  inv hash m -> holds m k r -> holds m k r' -> r = r'.
Proof. exact holds_fun. Qed.
Print Assumptions C18_keys_distinct.

(* Part B. Memoized clone over any memo that is a map, on an acyclic source: every distinct source object is emitted
   once; the reference of an object is its position; any later visit returns the same reference and emits nothing. *)
Theorem C18_clone_shares : forall (M : Type) (mfind : M -> Z -> Z) (minsert : M -> Z -> Z -> M) (children : Z -> list Z),
  (forall m k r, mfind (minsert m k r) k = r) ->
  (forall m k r k', k' <> k -> mfind (minsert m k r) k' = mfind m k') ->
  forall rank : Z -> nat, (forall n c, In c (children n) -> (rank c < rank n)%nat) ->
  forall fuel st n st' r,
  W mfind st -> clone mfind minsert children fuel st n = Some (st', r) ->
  NoDup (emitted st') /\
  r <> 0 /\ nth_error (emitted st') (Z.to_nat (r - 1)) = Some n /\
  (exists l, emitted st' = emitted st ++ l) /\
  (forall x, In x (emitted st') -> forall f, clone mfind minsert children (S f) st' x = Some (st', mfind (memo st') x)) /\
  clone mfind minsert children (S fuel) st' n = Some (st', r).
Proof. exact @clone_shares. Qed.
Print Assumptions C18_clone_shares.

Theorem C18_clone_total : forall (M : Type) (mfind : M -> Z -> Z) (minsert : M -> Z -> Z -> M) (children : Z -> list Z),
  (forall m k r, mfind (minsert m k r) k = r) ->
  (forall m k r k', k' <> k -> mfind (minsert m k r) k' = mfind m k') ->
  forall rank : Z -> nat, (forall n c, In c (children n) -> (rank c < rank n)%nat) ->
  forall f st n, W mfind st -> (rank n < f)%nat -> exists st' r, clone mfind minsert children f st n = Some (st', r).
Proof. exact @clone_total. Qed.
Print Assumptions C18_clone_total.

(* hypotheses are satisfiable; the transcribed Murmur3 finalizer is one instance of [hash]; 16 -> 8 is a shrink, the last
   insert asks for a table that is already full *)
Example C18_instance :
  match run refmap_hash rm_init
          [OInsert 4096 5 (OBuckets 8); OInsert 4096 7 (OBuckets 8); OInsert 0 9 (OBuckets 8); OInsert 8192 0 (OBuckets 16); OFind 4096;
           OFind 8192; OFind 12; OResize ORefused; OResize (OBuckets 2048); OFind 4096; OInsert 12 1 ORefused; OInsert 12 1 (OBuckets 2);
           OReset; OFind 4096; OInsert 1 1 (OBuckets 12)] with
  | Some (m, outs) => (count m, buckets m, outs)
  | None => (0, 0, [])
  end = (0, 2048, [Done 5; Done 7; Done 9; Done 0; Done 7; Done 0; Done 0; AllocFailed (-1); Done 0; Done 7; AllocFailed 0;
                   BadPolicy; Done 0; Done 0; BadPolicy]).
Proof. vm_compute. reflexivity. Qed.

Example C18_clone_instance : W ffind {| memo := fun _ => 0; emitted := [] |} /\
  match clone ffind finsert diamond 5 {| memo := fun _ => 0; emitted := [] |} 1 with
  | Some (st, r) => (emitted st, r) | None => ([], 0) end = ([4; 2; 3; 1], 4).
Proof. split; [exact W_empty|exact clone_diamond]. Qed.
