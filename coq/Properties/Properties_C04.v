(* C04 - JSON parser is memory-safe on any text (scanner layer).
   Only statements, each closed by [exact] of a lemma proved in Json/ScannerProofs.v.
   Model: Json/Scanner.v transcribes json_parser.c / flatcc_json_parser.h guard for guard; every C read of the
   input is [get], which yields [Oob] outside [0, blen b) - the C receives [buf, end) and must never read *end.
   [safe b c i r] (ScannerProofs.v) says: the call returned (so no read was out of bounds and the loop fuel,
   an explicit function of the remaining length, sufficed), the returned position is in [i, end], the error
   location is inside the input, flags are unchanged and an error already recorded is kept.
   The main theorems are about the code WITH the two missing `buf != end` guards (fixes/C04-*.patch);
   the code as it stands is refuted below on "1." and on `{"a":`.
   The whole-parser clause (success => finished buffer verifies; builder reusable after failure) is NOT proved
   here: checks/c04.py decides it by observation. *)
From Flatcc.Json Require Import Scanner ScannerProofs.
Local Open Scope Z_scope.

(* Every modelled scanner function, on every byte string, position and context state: all reads guarded,
   terminates, position and error location stay inside the input, first error wins. *)
Theorem C04_scan_safe : forall f, In f scanners ->
  forall b c i, 0 <= i <= blen b -> 0 <= cerrloc c <= blen b -> safe b c i (f b c i).
Proof. exact scanners_safe. Qed.
Print Assumptions C04_scan_safe.

(* The matchers generated code calls with a compile-time offset into the symbol. *)
Theorem C04_match_safe : forall pos f, 0 <= pos -> In f (matchers pos) ->
  forall b c i, 0 <= i <= blen b -> 0 <= cerrloc c <= blen b -> safe b c i (f b c i).
Proof. exact matchers_safe. Qed.
Print Assumptions C04_match_safe.

(* Look-ahead helpers that return no context: symbol_part (8-byte trie word), match_scope, null. *)
Theorem C04_lookahead_safe : forall b i pos, 0 <= i <= blen b -> 0 <= pos ->
  (exists w, symbol_part b i = Some w) /\
  (exists p, match_scope b i pos = Some p /\ i <= p <= blen b) /\
  (exists p, null b i = Some p /\ i <= p <= blen b).
Proof. exact lookahead_safe. Qed.
Print Assumptions C04_lookahead_safe.

(* Fixed length char arrays: safe as above, and never more than n bytes are written into s[0..n). *)
Theorem C04_char_array_safe : forall b c i n, 0 <= i <= blen b -> 0 <= cerrloc c <= blen b -> 0 <= n ->
  safe b c i (char_array b c i n) /\
  (forall c' p v, char_array b c i n = Ok c' p v -> Z.of_nat (length v) <= n).
Proof. exact char_array_safe. Qed.
Print Assumptions C04_char_array_safe.

(* The same, as seen by a caller that starts from flatcc_json_parser_init. *)
Theorem C04_scan_no_oob : forall f, In f scanners ->
  forall b flags i, 0 <= i <= blen b -> observe (f b (ctx_init flags) i) <> SOob.
Proof. exact scan_no_oob. Qed.
Print Assumptions C04_scan_no_oob.

Theorem C04_scan_terminates : forall f, In f scanners ->
  forall b flags i, 0 <= i <= blen b -> observe (f b (ctx_init flags) i) <> SFuel.
Proof. exact scan_no_fuel. Qed.
Print Assumptions C04_scan_terminates.

Theorem C04_error_loc_in_input : forall f, In f scanners ->
  forall b flags i code loc, 0 <= i <= blen b ->
  observe (f b (ctx_init flags) i) = SErr code loc -> 0 <= loc <= blen b.
Proof. exact error_loc_in_input. Qed.
Print Assumptions C04_error_loc_in_input.

Theorem C04_result_pos_in_input : forall f, In f scanners ->
  forall b flags i p v, 0 <= i <= blen b ->
  observe (f b (ctx_init flags) i) = SOk p v -> i <= p <= blen b.
Proof. exact result_pos_in_input. Qed.
Print Assumptions C04_result_pos_in_input.

(* The generic skipper with its explicit stack: 2 * (remaining bytes) + 2 rounds of its two labels always suffice
   (the stack write `*sp++` is inside stack[512]: a write past it is [Oob] in the model). *)
Theorem C04_generic_json_terminates : forall b c i fuel, 0 <= i <= blen b -> 0 <= cerrloc c <= blen b ->
  Z.of_nat fuel >= 2 * (blen b - i) + 2 ->
  exists c' p, generic_go true fuel b c i [] GAgain = Ok c' p tt /\ i <= p <= blen b.
Proof. exact generic_json_terminates. Qed.
Print Assumptions C04_generic_json_terminates.

(* Progress of the steps the loops rely on (before the end of the input). *)
Theorem C04_scan_progress : forall b c i, 0 <= i < blen b -> 0 <= cerrloc c <= blen b ->
  progress i (string_start b c i) /\ progress i (string_escape b c i) /\ progress i (number b c i) /\
  progress i (gstring b c i) /\ progress i (array_end b c i) /\ progress i (object_end b c i).
Proof. exact scan_progress. Qed.
Print Assumptions C04_scan_progress.

(* flatcc_json_parser_set_error *)
Theorem C04_first_error_wins : forall c loc e, cerr c <> 0 -> set_error c loc e = c.
Proof. exact first_error_wins. Qed.
Print Assumptions C04_first_error_wins.
Theorem C04_set_error_records : forall c loc e, cerr c = 0 ->
  cerr (set_error c loc e) = e /\ cerrloc (set_error c loc e) = loc.
Proof. exact set_error_records. Qed.
Print Assumptions C04_set_error_records.

(* The code as it stands: json_parser.c:541 reads the byte after "1." and :667 the byte after `{"a":`. *)
Theorem C04_number_dot_at_end_refuted :
  exists b, observe (number_current b (ctx_init 0) 0) = SOob /\ observe (generic_json_current b (ctx_init 0) 0) = SOob.
Proof. exact number_dot_at_end_refuted. Qed.
Print Assumptions C04_number_dot_at_end_refuted.

Theorem C04_generic_after_colon_refuted :
  exists b, observe (generic_json_current b (ctx_init 0) 0) = SOob.
Proof. exact generic_after_colon_refuted. Qed.
Print Assumptions C04_generic_after_colon_refuted.

(* With the guards the same inputs are rejected with an error located at the end of the input ... *)
Theorem C04_fixed_on_witnesses :
  observe (number in_dot (ctx_init 0) 0) = SErr JE_invalid_numeric 2 /\
  observe (generic_json in_dot (ctx_init 0) 0) = SErr JE_invalid_numeric 2 /\
  observe (generic_json in_colon (ctx_init 0) 0) = SErr JE_unbalanced_object 5 /\
  observe (generic_json in_arr_dot (ctx_init 0) 0) = SErr JE_invalid_numeric 3.
Proof. exact fixed_on_witnesses. Qed.
Print Assumptions C04_fixed_on_witnesses.

(* ... and the guards change nothing else: the present code either performs the out-of-bounds read or
   returns exactly what the guarded code returns. *)
Theorem C04_fix_is_conservative : forall b c i, 0 <= i <= blen b -> 0 <= cerrloc c <= blen b ->
  (number_current b c i = Oob \/ number_current b c i = number b c i) /\
  (generic_json_current b c i = Oob \/ generic_json_current b c i = generic_json b c i).
Proof. exact fix_is_conservative. Qed.
Print Assumptions C04_fix_is_conservative.

Example C04_hypotheses_satisfiable : exists b c i, 0 <= i <= blen b /\ 0 <= cerrloc c <= blen b /\ blen b = 5.
Proof. exact hyps_satisfiable. Qed.
