(* C14 - A reset builder behaves like a fresh one, with bounded memory.

   Model: Flatcc.Reset.BuilderState (transcription of src/runtime/builder.c's persistent state, every API call that
   touches it, flatcc_builder_custom_reset, the default allocator's growth policy and the page accounting of
   flatcc_emitter_reset).  [step true] is the behaviour with the defects found by this property repaired
   (fixes/C14-*.patch), [step false] the faithful transcription of the pinned commit; the check ties the model to
   /repo's current sources on every run (extracted model vs. harness/reset_hist.c).

   Only `Theorem ... exact lemma` here; the lemmas are in Reset/ResetProofs.v. *)
From Flatcc.Reset Require Import BuilderState ResetProofs.
From Flatcc.Generated Require Import ResetConsts.
Local Open Scope Z_scope.

(* ---- 1. custom_reset = custom_init on everything that can influence a later call.
   [core s] is the state with the fields custom_reset deliberately keeps blanked out (buffer capacities, limit_level,
   ds_limit, the frame pointer, hash table width, descriptor fill, the emitter's page pool); [fresh_like d s] is a
   freshly initialised builder carrying s's settings (or the defaults when set_defaults = d is given).
   For EVERY state s (reachable or not) whose allocator is not set up to fail: *)
Theorem reset_equiv : forall d r s, fa s < 0 -> fe s < 0 ->
  exists t, custom_reset true d r s = Ret 0 t [] /\ core t = core (fresh_like d s) /\ Inv t.
Proof. exact reset_spec. Qed.
Print Assumptions reset_equiv.

(* ---- 2. the kept part never influences a call: two builders that agree on [core] (and satisfy the frame-stack
   invariant) make every API call return the same value, emit the same bytes at the same references, and agree on
   [core] afterwards - or both violate the API contract at the same call. *)
Theorem step_noninterference : forall o s1 s2, core s1 = core s2 -> Inv s1 -> Inv s2 ->
  orelJ Inv (step true o s1) (step true o s2).
Proof. exact step_respects. Qed.
Print Assumptions step_noninterference.

(* ---- 3. the bisimulation: after ANY earlier activity (completed, abandoned inside any object, failed, any settings;
   s is arbitrary) a reset builder and a freshly initialised builder answer every call sequence identically:
   same return values (references), same emitted bytes. *)
Theorem reset_bisim : forall d r s sc, fa s < 0 -> fe s < 0 ->
  exists t, custom_reset true d r s = Ret 0 t [] /\
            run_rel (run true sc t) (run true sc (fresh_like d s)).
Proof.
  intros d r s sc Hfa Hfe. destruct (reset_spec d r s Hfa Hfe) as (t & E & C & I).
  exists t. split; [exact E|]. apply run_respects; [exact C | exact I | apply Inv_fresh_like].
Qed.
Print Assumptions reset_bisim.

(* ---- 4. the frame stack is memory safe: with the invariant, entering a frame never steps through a null or
   out-of-range frame pointer; it fails exactly when max_level forbids the new level. *)
Theorem frame_stack_safe : forall a s, Inv s ->
  if blocked s
  then exists t, enter_frame a s = Ret false t [] /\ core t = core (set_level (level s + 1) s) /\ Inv t
  else exists t, enter_frame a s = Ret true t [] /\ core t = core (enter_core a s) /\ Inv t.
Proof. exact enter_frame_spec. Qed.
Print Assumptions frame_stack_safe.

(* ---- 5. footprint: after any number of builds, each followed by custom_reset (with or without reduce_buffers),
   the capacity of every builder buffer with a per-build demand (vs ds vb pl fs us) is at most
   max(default block, 2 * B) where B bounds what ONE build needs on a freshly initialised builder.
   The length of the history does not occur in the bound. *)
Theorem footprint_bounded : forall B h t,
  Forall (fun b : build => no_reset (fst (fst b)) /\ fresh_demand_le B (fst (fst b))) h ->
  hist_run h st_init = Some t ->
  forall k, k <> HT -> k <> VD -> cap_get k (caps t) <= Z.max (alloc_min k) (2 * B k).
Proof. exact footprint_bounded_lemma. Qed.
Print Assumptions footprint_bounded.

(* within one build capacities only follow the demand *)
Theorem footprint_one_build : forall c0 ops s rs es t, no_reset ops -> FP c0 s -> run true ops s = Some (rs, es, t) -> FP c0 t.
Proof. intros; eapply footprint_build; eauto. Qed.
Print Assumptions footprint_one_build.

(* the emitter's pool after reset: one page, or twice the largest single-build output *)
Theorem emitter_pool_bounded : forall U s, 0 <= e_cap s -> 0 <= e_used s <= U -> 0 <= e_avg s <= U ->
  let t := emitter_reset s in
  e_cap t <= Z.max (e_cap s) 0 /\ (e_cap s <> 0 -> e_cap t <= Z.max PAGE_SIZE (2 * U)) /\ 0 <= e_avg t <= U /\ e_used t = 0
  \/ e_cap s = 0 /\ t = s.
Proof. exact emitter_reset_bound. Qed.
Print Assumptions emitter_pool_bounded.

(* ---- 6. each distinct vtable is emitted once per buffer when no cache limit is set: among the vtable emits of a run
   (from any state with the limit unset, e.g. right after reset; no explicit flush / limit call in the run; the
   end_table calls returned references) no (nest id of the buffer, vtable bytes) pair occurs twice. *)
Theorem vtable_once_per_buffer : forall ops s rs es t,
  vb_flush_limit s = 0 -> fa s < 0 -> fe s < 0 -> no_flush ops ->
  run true ops s = Some (rs, es, t) -> end_tables_ok ops rs ->
  NoDup (map vkey (filter is_vt es)).
Proof. exact vtable_once. Qed.
Print Assumptions vtable_once_per_buffer.

(* ---- hypotheses are satisfiable *)
Definition abandoned_union_parse : list op :=
  [OStartBuffer 0 0 0; OStartTable 4; OEnterUserFrame 100; OTableAdd 0 4 4 [1;0;0;0]; OStartTable 2].
Example reset_bisim_applies :
  match run true abandoned_union_parse st_init with
  | Some (_, _, s) => fa s < 0 /\ fe s < 0 /\ user_frame_end s <> 0 /\ ds_first s <> 0 /\ level s = 3
  | None => False
  end.
Proof. vm_compute. repeat split; congruence. Qed.

Example footprint_hypotheses_satisfiable :
  let h : list build := [([OEnterUserFrame 8], false, false); ([OEnterUserFrame 8], false, true)] in
  Forall (fun b : build => no_reset (fst (fst b)) /\ fresh_demand_le (fun _ => 16) (fst (fst b))) h /\
  exists t, hist_run h st_init = Some t.
Proof.
  split.
  - repeat constructor; cbn [fst]; intros f rs es t [x ->] E k; vm_compute in E; injection E as _ _ <-; destruct k; vm_compute; congruence.
  - eexists. vm_compute. reflexivity.
Qed.

(* ---- what is FALSE of the faithful transcription of the pinned commit ([step false]) *)
Definition reset_plain : op := OReset false false.
Fixpoint repeat_ops (n : nat) (ops : list op) : list op :=
  match n with O => [] | S k => ops ++ repeat_ops k ops end.
Definition final_state (fixed : bool) (ops : list op) : option bstate :=
  match run fixed ops st_init with Some (_, _, t) => Some t | None => None end.

(* custom_reset forgets the user frame stack: every build abandoned with an open user frame (each failed JSON
   parse of a table with unions) moves the stack up; with the allocator of the pinned commit the `us` buffer is 128
   bytes after one and 1024 bytes after five such builds.  Stated without reference to the allocator's sizes: the
   stack top is not back at 0 after reset, it keeps rising and the buffer grows; repaired: back at 0, same capacity *)
Definition abandon_uf : list op := [OStartBuffer 0 0 0; OStartTable 4; OEnterUserFrame 100; reset_plain].
Theorem user_frame_leak_refuted :
  (exists t1 t40, final_state false abandon_uf = Some t1 /\ final_state false (repeat_ops 40 abandon_uf) = Some t40 /\
                  user_frame_end t1 <> 0 /\ user_frame_end t1 < user_frame_end t40 /\ c_us (caps t1) < c_us (caps t40)) /\
  (exists t1 t40, final_state true abandon_uf = Some t1 /\ final_state true (repeat_ops 40 abandon_uf) = Some t40 /\
                  user_frame_end t1 = 0 /\ user_frame_end t40 = 0 /\ c_us (caps t1) = c_us (caps t40)).
Proof. split; eexists; eexists; vm_compute; repeat split; congruence. Qed.
Print Assumptions user_frame_leak_refuted.

(* custom_reset forgets ds_first: builds abandoned below a non-empty parent shift the data stack *)
Definition abandon_nested : list op :=
  [OStartBuffer 0 0 0; OStartTable 3; OTableAdd 0 4 4 [1;0;0;0]; OTableAdd 1 4 4 [2;0;0;0]; OStartTable 3; reset_plain].
Theorem ds_first_leak_refuted :
  (exists t1 t400, final_state false abandon_nested = Some t1 /\ final_state false (repeat_ops 400 abandon_nested) = Some t400 /\
                   ds_first t1 <> 0 /\ ds_first t1 < ds_first t400 /\ c_ds (caps t1) < c_ds (caps t400)) /\
  (exists t1 t400, final_state true abandon_nested = Some t1 /\ final_state true (repeat_ops 400 abandon_nested) = Some t400 /\
                   ds_first t400 = 0 /\ c_ds (caps t400) = c_ds (caps t1)).
Proof. split; eexists; eexists; vm_compute; repeat split; congruence. Qed.
Print Assumptions ds_first_leak_refuted.

(* custom_reset forgets block_align: a struct root created with create_buffer(block_align = 0) after a build
   abandoned inside start_buffer(block_align = 64) is padded to 64 bytes; a fresh builder emits 12 bytes *)
Definition struct_root : list op := [OCreateStruct [1;0;0;0;2;0;0;0] 4; OCreateBuffer 0 0 (-8) 4 0].
Definition emitted (fixed : bool) (ops : list op) : option (list (Z * list Z)) :=
  match run fixed ops st_init with Some (_, es, _) => Some (map (fun e => (ev_ref e, ev_bytes e)) es) | None => None end.
Theorem stale_block_align_refuted :
  emitted false ([OStartBuffer 0 64 0; reset_plain] ++ struct_root) <> emitted false struct_root /\
  emitted true ([OStartBuffer 0 64 0; reset_plain] ++ struct_root) = emitted true struct_root.
Proof. split; vm_compute; congruence. Qed.
Print Assumptions stale_block_align_refuted.

(* flatcc_builder_set_max_level raises limit_level beyond the allocated frames: the next start call increments a
   null frame pointer (observed: SEGV at address 0x2c) *)
Theorem set_max_level_fault_refuted :
  run false [OSetMaxLevel 10; OStartBuffer 0 0 0] st_init = None /\
  exists r, run true [OSetMaxLevel 10; OStartBuffer 0 0 0] st_init = Some r.
Proof. split; [vm_compute; reflexivity | eexists; vm_compute; reflexivity]. Qed.
Print Assumptions set_max_level_fault_refuted.

(* reduce_buffers never reduces anything with the default allocator: its shrink hysteresis is inverted
   (a finding, not a violation of this property: not shrinking is not growth) *)
Theorem reduce_never_reduces : forall k j, k <> HT -> 0 <= j ->
  default_alloc k (alloc_min k * 2 ^ j) 1 = alloc_min k * 2 ^ j.
Proof. exact default_alloc_reduce_noop. Qed.
Print Assumptions reduce_never_reduces.
