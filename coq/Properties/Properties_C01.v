(* C01 - Verifier acceptance implies in-bounds, aligned, terminating reads.
   Only statements, each closed by [exact] of a lemma proved in Verifier/VerifierProofs*.v.

   Models (validated against the C code by bin/check C01):
     Verifier/VerifierModel.v  verify_root : src/runtime/verifier.c + the generated table/union verifiers
                               (u32 wrap-around explicit; VOob = the verifier read outside its input;
                               VFuel = the Coq recursion budget ran out)
     Verifier/ReaderModel.v    walk_root   : every read a client of the generated reader API / JSON printer can
                               make (WBad p w al = the read of w bytes at p is outside the buffer or address
                               addr + p is not aligned to al; pointer arithmetic does not wrap)
   All field kinds are covered: scalars/structs, strings, scalar/struct/string/table vectors, tables, unions,
   union vectors (with the type-vector/value-vector presence check of the fix), nested table and struct roots,
   table and struct roots, plain and size-prefixed. *)
From Flatcc.Verifier Require Import VerifierProofsBase VerifierProofsAlign VerifierProofsTop VerifierProofsWitness.
Local Open Scope Z_scope.

(* 1. Soundness.  [ra] is an alignment certificate (decidable check [ra_ok]): ra t is the alignment the start of a
   buffer needs for table t, closed under the schema's references; through a nested table root only the 4-alignment
   of the nested start (plus the alignment argument the generated code passes) is available.
   [SOUND_MAX_SIZE] = 2^31 + 3.  [root_aligned]: (ra t | addr) for a table root, (align | addr) for a struct root.
   The walk succeeds with the SAME fuel, i.e. within the same nesting budget. *)
Theorem C01_verify_sound : forall b addr S ra fuel r v,
  wf_buf b -> schema_wf S = true -> ra_ok S ra = true ->
  blen b <= SOUND_MAX_SIZE ->
  root_wf r -> root_aligned ra addr r ->
  verify_root b addr S fuel r v = VOk ->
  walk_root b addr S fuel r (match v with WithSize => true | Plain => false end) = WOk.
Proof. exact verify_sound. Qed.
Print Assumptions C01_verify_sound.

(* 1'. The instance with the constant certificate: buffer at an address aligned to the schema's largest
   (buffer-relative) alignment; schemas without nested table roots, or with all such alignments <= 4. *)
Theorem C01_verify_sound_max_align : forall b addr S fuel r v,
  wf_buf b -> schema_wf S = true ->
  (has_nested_table S = false \/ max_align S <= 4) ->
  blen b <= SOUND_MAX_SIZE ->
  root_wf r -> root_aligned (fun _ => max_align S) addr r ->
  verify_root b addr S fuel r v = VOk ->
  walk_root b addr S fuel r (match v with WithSize => true | Plain => false end) = WOk.
Proof. exact verify_sound_max_align. Qed.
Print Assumptions C01_verify_sound_max_align.

Theorem C01_max_align_is_certificate : forall S,
  schema_wf S = true -> (has_nested_table S = false \/ max_align S <= 4) ->
  ra_ok S (fun _ => max_align S) = true.
Proof. exact max_align_certificate. Qed.
Print Assumptions C01_max_align_is_certificate.

(* 2. The verifier is memory-safe on every byte string, of any size, at any address, for any fuel. *)
Theorem C01_verify_no_oob : forall b addr S fuel r v,
  wf_buf b -> schema_wf S = true -> verify_root b addr S fuel r v <> VOob.
Proof. exact verify_no_oob. Qed.
Print Assumptions C01_verify_no_oob.

(* 3. Termination within the documented nesting limit: with fuel for VERIFIER_MAX_LEVELS levels the verdict is
   never "out of fuel" (ttl strictly decreases and must stay positive). *)
Theorem C01_verify_within_levels : forall b addr S fuel r v,
  wf_buf b -> schema_wf S = true -> (Z.to_nat VERIFIER_MAX_LEVELS <= fuel)%nat ->
  verify_root b addr S fuel r v <> VFuel.
Proof. exact verify_within_levels. Qed.
Print Assumptions C01_verify_within_levels.

(* 1 + 3: an accepted buffer is walked to the end within VERIFIER_MAX_LEVELS levels. *)
Theorem C01_accepted_walk_within_levels : forall b addr S ra r v,
  wf_buf b -> schema_wf S = true -> ra_ok S ra = true ->
  blen b <= SOUND_MAX_SIZE -> root_wf r -> root_aligned ra addr r ->
  verify_root b addr S (Z.to_nat VERIFIER_MAX_LEVELS) r v = VOk ->
  walk_root b addr S (Z.to_nat VERIFIER_MAX_LEVELS) r (match v with WithSize => true | Plain => false end) = WOk.
Proof. exact accepted_walk_within_levels. Qed.
Print Assumptions C01_accepted_walk_within_levels.

(* 4. Non-vacuity: concrete accepted buffers satisfying every hypothesis. *)
Theorem C01_example_table :
  wf_buf ex1_buf /\ schema_wf ex1_schema = true /\ ra_ok ex1_schema (fun _ => 8) = true /\
  blen ex1_buf <= SOUND_MAX_SIZE /\ root_wf (RTable 0) /\ root_aligned (fun _ => 8) 0 (RTable 0) /\
  verify_root ex1_buf 0 ex1_schema (Z.to_nat VERIFIER_MAX_LEVELS) (RTable 0) Plain = VOk /\
  walk_root ex1_buf 0 ex1_schema (Z.to_nat VERIFIER_MAX_LEVELS) (RTable 0) false = WOk.
Proof. exact example_table. Qed.
Print Assumptions C01_example_table.

Theorem C01_example_with_size_union_nested :
  wf_buf ex2_buf /\ schema_wf ex2_schema = true /\ ra_ok ex2_schema (fun _ => 8) = true /\
  blen ex2_buf <= SOUND_MAX_SIZE /\ root_aligned (fun _ => 8) 0 (RTable 0) /\
  verify_root ex2_buf 0 ex2_schema 5 (RTable 0) WithSize = VOk /\
  walk_root ex2_buf 0 ex2_schema 5 (RTable 0) true = WOk.
Proof. exact example_with_size_union_nested. Qed.
Print Assumptions C01_example_with_size_union_nested.

(* 5. The hypotheses of 1 cannot be dropped.
   Size: one byte above SOUND_MAX_SIZE (a 2^31 + 4 byte buffer) the verifier accepts a table whose vtable it
   locates modulo 2^32 at offset 0 while the reader's pointer arithmetic lands 2^32 bytes into the buffer. *)
Theorem C01_size_bound_refuted :
  exists b addr S ra fuel r v,
    wf_buf b /\ schema_wf S = true /\ ra_ok S ra = true /\ blen b = SOUND_MAX_SIZE + 1 /\
    root_wf r /\ root_aligned ra addr r /\
    verify_root b addr S fuel r v = VOk /\
    walk_root b addr S fuel r (match v with WithSize => true | Plain => false end) = WBad 4294967296 2 2.
Proof. exact size_bound_refuted. Qed.
Print Assumptions C01_size_bound_refuted.

(* Alignment certificate: a nested table buffer starting at a 4-but-not-8-aligned position and containing a
   [double] vector is accepted; the reader's element access at absolute offset 52 is misaligned. *)
Theorem C01_nested_alignment_refuted :
  exists b addr S fuel r v,
    wf_buf b /\ schema_wf S = true /\ blen b <= SOUND_MAX_SIZE /\ addr mod 32768 = 0 /\ root_wf r /\
    verify_root b addr S fuel r v = VOk /\
    walk_root b addr S fuel r (match v with WithSize => true | Plain => false end) = WBad 52 8 8.
Proof. exact nested_alignment_refuted. Qed.
Print Assumptions C01_nested_alignment_refuted.

Theorem C01_nested_schema_has_no_certificate : forall ra, ra_ok nested_schema ra = false.
Proof. exact nested_schema_has_no_certificate. Qed.
Print Assumptions C01_nested_schema_has_no_certificate.
