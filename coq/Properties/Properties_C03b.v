(* C03 (reader half) - what the GENERATED READER's accessors return is the value the independent format decoder
   Format/Spec.v assigns to the buffer; composed with C03_build_decode: reading a finished buffer through the reader
   returns exactly what was given to the builder.

   Model: Verifier/ReaderValue.v - __flatbuffers_read_vt, scalar get (value or schema default) / is_present /
   option / get_ptr, struct field pointer, offset fields (strings, vectors, tables; adjust 4 / 0), vec_len, scalar /
   struct / offset vec_at, union type + value, union vector field / len / at, read_size_prefix, as_root, nested
   as_root - and the value tree a client assembles by calling every accessor ([read_root]).  The reader checks nothing;
   a load outside the memory makes the model return None.
   Fragment: ALL field kinds of Format/Schema.v (scalars and inline structs, strings, scalar / struct vectors, string
   vectors, tables, table vectors, unions with table / struct / string members and unknown codes, union vectors, nested
   buffers with table and struct roots), table and struct roots, plain and size-prefixed, any depth.
   Hypothesis on the schema: [ids_ok] (field ids fit [voffset_t id__tmp = ID]; a union's type field ID - 1 exists);
   needed: C03_ids_ok_needed.  No hypothesis on the bytes besides acceptance by the decoder (list elements need not even
   be bytes). *)
From Flatcc.Format Require Import Schema Spec SpecProofs.
From Flatcc.Builder Require Import EmitModel VMem Objects Leaves OffVec TableLayout Table Buffer Script ScriptProofs Example.
From Flatcc.Builder Require Import NestedBase NestedLeaves UnionVecLeaves NestedTable NestedBuffer NestedScript NestedBuild NestedCount NestedExample NestedEmbed.
From Flatcc.Verifier Require Import ReaderValue ReaderValueProofs.
Local Open Scope Z_scope.

(* (a) On every list the format decoder accepts, the tree assembled through the accessors IS the decoder's value
   (any schema defaults: they do not enter the tree, which lists present fields only). *)
Theorem C03_reader_agrees_with_decode : forall n Sc dflt R ws l,
  ids_ok Sc = true ->
  wf n Sc R ws l = true ->
  read_root_list n Sc dflt R ws l = decode_root n Sc R ws l.
Proof. exact reader_agrees_with_decode. Qed.
Print Assumptions C03_reader_agrees_with_decode.

(* ... for any memory, any further alignment references (covers wf_aligned: a start aligned to the reported alignment only) *)
Theorem C03_reader_returns_decoded : forall n Sc dflt R ws ds0 m len v,
  ids_ok Sc = true ->
  decode_mem n Sc R ws ds0 m len = Some v -> read_root n Sc dflt R ws m = Some v.
Proof. exact read_root_decodes. Qed.
Print Assumptions C03_reader_returns_decoded.

(* ... for any table anywhere (also inside a nested buffer, where the decoder works in the memory restricted to the
   nested vector and the reader in place): [m'] contains [m] (SpecProofs.mle), [a] is the table pointer. *)
Theorem C03_table_reader_agrees : forall Sc dflt, ids_ok Sc = true ->
  forall n m o m' o' ds t p a v,
  mle m o m' o' -> a = o' + p ->
  dec_table n Sc m o ds t p = Some v -> read_table n Sc dflt m' t a = Some v.
Proof. exact read_table_rrel. Qed.
Print Assumptions C03_table_reader_agrees.

(* (b) Build then read: for every well-typed create-level script, the reader returns exactly the value built. *)
Theorem C03_build_read : forall Sc dflt sc R v ws n regs ems st,
  ids_ok Sc = true ->
  wt_script Sc sc R v ws n -> run init_state [] sc = Some (regs, ems, st) -> small st ->
  read_root_list n Sc dflt R ws (buffer_bytes st) = Some v.
Proof.
  intros Sc dflt sc R v ws n regs ems st Hids Hwt Hrun Hsm.
  exact (read_root_decodes n Sc dflt R ws [] _ _ v Hids (build_decode Sc sc R v ws n regs ems st Hwt Hrun Hsm)).
Qed.
Print Assumptions C03_build_read.

(* ... with union vectors and nested buffers (xwt_script, Properties_C02c.v / C15b) *)
Theorem C03_build_read_union_vectors_nested : forall Sc dflt sc R v ws n N regs ems st,
  ids_ok Sc = true ->
  xwt_script Sc sc R v ws n N -> run init_state [] sc = Some (regs, ems, st) -> small st ->
  read_root_list n Sc dflt R ws (buffer_bytes st) = Some v.
Proof.
  intros Sc dflt sc R v ws n N regs ems st Hids Hwt Hrun Hsm.
  exact (read_root_decodes n Sc dflt R ws [] _ _ v Hids (nested_build_decode Sc sc R v ws n N regs ems st Hwt Hrun Hsm)).
Qed.
Print Assumptions C03_build_read_union_vectors_nested.

(* (c) Scalar accessors.  [scalar_accessors_spec m T id size d ov] (ReaderValueProofs.v):
     ov = None (the field is not in the decoded table): T_f_get = the schema default d, T_f_is_present = false,
        T_f_option = (is_null = true, d), T_f_get_ptr = NULL;
     ov = Some v: v = VBytes bs with length bs = size, T_f_get = bs - the stored bytes, bit exact, whatever they are (a
        force-added default is present) -, T_f_is_present = true, T_f_option = (is_null = false, bs), T_f_get_ptr
        points at bs.
   For any decoded table (ids of the table distinct): *)
Theorem C03_absent_scalar_default : forall n Sc m o m' o' ds t tp T fs flds f size al d,
  ids_ok Sc = true -> mle m o m' o' -> T = o' + tp ->
  dec_table n Sc m o ds t tp = Some (VTable fs) ->
  table_fields Sc t = Some flds -> NoDup (map fid flds) -> In f flds -> fk f = FScalar size al ->
  scalar_accessors_spec m' T (fid f) (Z.to_nat size) d (assocZ (fid f) fs).
Proof. exact table_scalar_accessors. Qed.
Print Assumptions C03_absent_scalar_default.

(* ... at the root of an accepted buffer: T_as_root, then the accessors *)
Theorem C03_root_scalar_accessors : forall n Sc t ws l fs flds f size al d,
  ids_ok Sc = true ->
  decode_root n Sc (RTable t) ws l = Some (VTable fs) ->
  table_fields Sc t = Some flds -> NoDup (map fid flds) -> In f flds -> fk f = FScalar size al ->
  exists T, root_ptr (mem_of_list l) ws = Some T /\
            scalar_accessors_spec (mem_of_list l) T (fid f) (Z.to_nat size) d (assocZ (fid f) fs).
Proof.
  intros n Sc t ws l fs flds f size al d. exact (root_scalar_accessors n Sc t ws [] _ _ fs flds f size al d).
Qed.
Print Assumptions C03_root_scalar_accessors.

(* ... of a built buffer: a scalar field the script did not add reads as the default with is_present false / null; one it
   added (elided defaults are simply not in the add list; a force-added default is) reads as the bytes given. *)
Theorem C03_build_read_scalars : forall Sc sc t fs ws n N regs ems st flds f size al d,
  ids_ok Sc = true ->
  xwt_script Sc sc (RTable t) (VTable fs) ws n N -> run init_state [] sc = Some (regs, ems, st) -> small st ->
  table_fields Sc t = Some flds -> NoDup (map fid flds) -> In f flds -> fk f = FScalar size al ->
  exists T, root_ptr (mem_of_list (buffer_bytes st)) ws = Some T /\
            scalar_accessors_spec (mem_of_list (buffer_bytes st)) T (fid f) (Z.to_nat size) d (assocZ (fid f) fs).
Proof.
  intros Sc sc t fs ws n N regs ems st flds f size al d Hids Hwt Hrun Hsm.
  exact (root_scalar_accessors n Sc t ws [] _ _ fs flds f size al d Hids
           (nested_build_decode Sc sc (RTable t) (VTable fs) ws n N regs ems st Hwt Hrun Hsm)).
Qed.
Print Assumptions C03_build_read_scalars.

(* the hypothesis on ids is needed: with a field id of 65536 the reader looks up field 0 *)
Theorem C03_ids_ok_needed :
  ids_ok wrap_schema = false /\
  decode_root 1 wrap_schema (RTable 0) false wrap_bytes = Some (VTable []) /\
  read_root_list 1 wrap_schema (fun _ _ => [0;0;0;0]) (RTable 0) false wrap_bytes = Some (VTable [(65536, VBytes [42;0;0;0])]).
Proof. exact ids_ok_needed. Qed.
Print Assumptions C03_ids_ok_needed.

(* ------------------------------------------------------------------ non-vacuity *)
(* Builder/Example.v: size-prefixed buffer, shared string, string vector, union with a table member.
   By the theorem ... *)
Example C03_example_build_read : exists regs ems st,
  run init_state [] ex_script = Some (regs, ems, st) /\ ids_ok ex_schema = true /\
  read_root_list 2 ex_schema (fun _ _ => [0; 0; 0; 0]) (RTable 1) true (buffer_bytes st) = Some ex_value.
Proof.
  destruct ex_runs as (regs & ems & st & E & Hsm & _). exists regs, ems, st. split; [exact E|]. split; [reflexivity|].
  exact (C03_build_read ex_schema _ ex_script (RTable 1) ex_value true 2 regs ems st eq_refl ex_wt E Hsm).
Qed.
Print Assumptions C03_example_build_read.

(* ... and by running the accessor model on the 112 bytes *)
Example C03_example_build_read_computed : exists regs ems st,
  run init_state [] ex_script = Some (regs, ems, st) /\
  read_root_list 2 ex_schema (fun _ _ => [0; 0; 0; 0]) (RTable 1) true (buffer_bytes st) = Some ex_value /\
  read_root_list 2 ex_schema (fun _ _ => [0; 0; 0; 0]) (RTable 1) true (buffer_bytes st) =
    decode_root 2 ex_schema (RTable 1) true (buffer_bytes st).
Proof.
  destruct (run init_state [] ex_script) as [[[regs ems] st]|] eqn:E; [|vm_compute in E; discriminate].
  exists regs, ems, st. split; [reflexivity|].
  vm_compute in E. injection E as <- <- <-. vm_compute. split; reflexivity.
Qed.
Print Assumptions C03_example_build_read_computed.

(* Builder/NestedExample.v: nested table roots two levels deep, a nested struct root, a union vector [T0; NONE; string] *)
Example C03_example_nested_union_vector_read : exists regs ems st,
  run init_state [] nx_script = Some (regs, ems, st) /\ ids_ok nx_schema = true /\
  read_root_list 3 nx_schema (fun _ _ => []) (RTable 2) false (buffer_bytes st) = Some nx_value.
Proof.
  destruct nx_runs as (regs & ems & st & E & Hsm & _). exists regs, ems, st. split; [exact E|]. split; [reflexivity|].
  exact (C03_build_read_union_vectors_nested nx_schema _ nx_script (RTable 2) nx_value false 3 nx_nested regs ems st
           eq_refl nx_wt E Hsm).
Qed.
Print Assumptions C03_example_nested_union_vector_read.

(* scalar accessors on a built table  T { a:int = 7; b:short = 5; c:int = 7; }  where the script force-adds a = 7 (the
   default), leaves b out and adds c = 1: a is present with the default's bytes, b is absent and reads as 5 / null,
   c reads as 1. *)
Definition dx_schema : schema :=
  {| tables := [ [ {| fid := 0; frequired := false; fk := FScalar 4 4 |};
                   {| fid := 1; frequired := false; fk := FScalar 2 2 |};
                   {| fid := 2; frequired := false; fk := FScalar 4 4 |} ] ];
     unions := [] |}.
Definition dx_script : list cmd :=
  [ CSettings false 0 0; CStartBuffer 0 0 0;
    CTable [TInline 0 4 4 [7; 0; 0; 0]; TInline 2 4 4 [1; 0; 0; 0]];
    CEndBuffer 0%nat ].

Example C03_example_scalar_accessors : exists regs ems st T,
  run init_state [] dx_script = Some (regs, ems, st) /\
  let m := mem_of_list (buffer_bytes st) in
  root_ptr m false = Some T /\
  scalar_get m T 0 4 [7; 0; 0; 0] = Some [7; 0; 0; 0] /\ field_present m T 0 = Some true /\
  scalar_option m T 0 4 [7; 0; 0; 0] = Some (false, [7; 0; 0; 0]) /\
  scalar_get m T 1 2 [5; 0] = Some [5; 0] /\ field_present m T 1 = Some false /\
  scalar_option m T 1 2 [5; 0] = Some (true, [5; 0]) /\ scalar_get_ptr m T 1 = Some None /\
  scalar_get m T 2 4 [7; 0; 0; 0] = Some [1; 0; 0; 0] /\ field_present m T 2 = Some true /\
  read_root 1 dx_schema (fun _ _ => []) (RTable 0) false m =
    Some (VTable [(0, VBytes [7; 0; 0; 0]); (2, VBytes [1; 0; 0; 0])]).
Proof.
  destruct (run init_state [] dx_script) as [[[regs ems] st]|] eqn:E; [|vm_compute in E; discriminate].
  exists regs, ems, st, 4. split; [reflexivity|].
  vm_compute in E. injection E as <- <- <-. vm_compute. repeat split; reflexivity.
Qed.
Print Assumptions C03_example_scalar_accessors.

(* NOT proved here (see design.d/C03-reader.md):
   C03_reader_reads_within_walk : every byte the value model loads is one ReaderModel.walk_root obliges (the tie to
     C01_verify_sound).  What IS proved: on every buffer the format decoder accepts no load of the value model falls
     outside the buffer (the result is Some), and C02_verify_complete_partial ties acceptance by the decoder to
     acceptance by the verifier;
   has_identifier / as_root with a non-null identifier, as_typed_root: the model is as_root_with_identifier(buf, 0);
   the "index out of range" assertions of vec_at: the tree assembly stays below vec_len by construction;
   that the C text flatcc generates IS this model: checked per run by the differential tie (checks/c03b_util.py). *)
