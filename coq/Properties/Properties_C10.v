(* C10 - JSON field, enum and scope names dispatch exactly.
   Only statements, each closed by [exact] of a lemma proved in Trie/TrieProofs.v or Trie/TrieCorpus.v.

   Reading guide.  [trie] (Trie/TrieAst.v) is the decision code gen_trie/gen_prefix_trie emit, statement by statement;
   [run win tm t s] (Trie/TrieEval.v) executes it on the bytes [s] between buf and end, with the 8-byte big-endian
   zero-padded window [win] and the runtime's terminator test [tm]; [lookup tm ns s] (Trie/TrieSpec.v) is the handler of
   the declared name that is a prefix of [s] followed by a terminator.  [check tl t ns] (Trie/TrieCheck.v) is the
   certified checker; [tl] is the set of bytes the terminator test of the mode can accept. *)
From Flatcc.Trie Require Import TrieCheck TrieProofs TrieCorpus.
From Flatcc.Generated Require Import Tries_C10.
Local Open Scope Z_scope.

(* GENERIC: whenever the checker accepts a trie for a name table, the trie dispatches exactly - on every input byte
   string and for every terminator test that only accepts inputs starting with a byte of [tl]. *)
Theorem C10_checker_sound : forall tl t ns, check tl t ns = true ->
  forall tm, tm_head_in tl tm -> forall s, bytes s -> run win tm t s = lookup tm ns s.
Proof. exact check_sound. Qed.
Print Assumptions C10_checker_sound.

(* GENERIC: an accepted trie never executes `buf += 8` with fewer than 8 bytes before `end`. *)
Theorem C10_checker_no_overrun : forall tl t ns, check tl t ns = true ->
  forall tm, tm_head_in tl tm -> forall s, bytes s -> eval win tm t s <> ROverrun.
Proof. exact check_no_overrun. Qed.
Print Assumptions C10_checker_no_overrun.

(* GENERIC: the specification is exact.  With identifier names (pairwise different), [lookup] returns handler h iff
   some declared name with handler h is a prefix of the input followed by a terminator - and then no declared name with
   another handler is; it returns Unmatched iff no declared name is. *)
Theorem C10_lookup_exact : forall tl tm ns, names_ident ns = true -> forallb (fun b => negb (is_ident b)) tl = true ->
  tm_head_in tl tm -> forall s h, bytes s ->
  (lookup tm ns s = Matched h <-> exists nm, In (nm, h) ns /\ name_matches tm nm s = true).
Proof. exact lookup_exact. Qed.
Print Assumptions C10_lookup_exact.

Theorem C10_lookup_unmatched : forall tm ns s,
  lookup tm ns s = Unmatched <-> forall nm h, In (nm, h) ns -> name_matches tm nm s = false.
Proof. exact lookup_unmatched. Qed.
Print Assumptions C10_lookup_unmatched.

(* GENERIC: the terminator tests of the runtime (match_symbol quoted/unquoted, also as compiled with signed char,
   match_scope, match_constant quoted/unquoted) accept only inputs starting with a byte of their byte set. *)
Theorem C10_terminators_classified :
  tm_head_in tl_symbol_quoted (tm_symbol false) /\ tm_head_in tl_symbol_unquoted (tm_symbol true) /\
  tm_head_in tl_symbol_unquoted_c (tm_symbol_c true) /\ tm_head_in tl_scope tm_scope /\
  tm_head_in tl_constant_quoted (tm_constant false) /\ tm_head_in tl_constant_unquoted (tm_constant true) /\
  tm_head_in tl_constant_quoted_c (tm_constant_c false) /\ tm_head_in tl_constant_unquoted_c (tm_constant_c true).
Proof. exact terminators_classified. Qed.
Print Assumptions C10_terminators_classified.

(* PER INSTANCE (kernel-checked, for ALL inputs): every table / struct field trie that the current flatcc generates for
   the schemas of gen/c10_schemas dispatches exactly, quoted and unquoted. *)
Theorem C10_corpus_fields : forall t ns, In (t, ns) tries_fields -> forall unquoted s, bytes s ->
  run win (tm_symbol unquoted) t s = lookup (tm_symbol unquoted) ns s.
Proof. exact corpus_fields. Qed.
Print Assumptions C10_corpus_fields.

(* ... every enum / union symbol trie, quoted and unquoted ... *)
Theorem C10_corpus_enums : forall t ns, In (t, ns) tries_enums -> forall unquoted s, bytes s ->
  run win (tm_constant unquoted) t s = lookup (tm_constant unquoted) ns s.
Proof. exact corpus_enums. Qed.
Print Assumptions C10_corpus_enums.

(* ... every local (Type.) and global (Name.Space.Type.) scope trie. *)
Theorem C10_corpus_scopes : forall t ns, In (t, ns) (tries_scopes_local ++ tries_scopes_global) -> forall s, bytes s ->
  run win tm_scope t s = lookup tm_scope ns s.
Proof. exact corpus_scopes. Qed.
Print Assumptions C10_corpus_scopes.

(* the name tables of the corpus (all but the dotted global scope names) satisfy the side condition of C10_lookup_exact *)
Theorem C10_corpus_names_ident :
  forallb (fun e => names_ident (snd e)) (tries_fields ++ tries_enums ++ tries_scopes_local) = true.
Proof. exact corpus_names_ident. Qed.
Print Assumptions C10_corpus_names_ident.

(* the corpus is not vacuous *)
Theorem C10_corpus_nonempty :
  (length tries_fields >= 8 /\ length tries_enums >= 8 /\ length tries_scopes_local >= 4)%nat.
Proof. exact corpus_nonempty. Qed.
Print Assumptions C10_corpus_nonempty.

(* REFUTED for the pinned code's window: flatcc_json_parser_symbol_part_ext converts a (signed) char to uint64_t, which
   sign-extends bytes >= 0x80 when fewer than 8 bytes remain.  With that window function [win_c] a trie accepted by the
   checker mis-dispatches: table { a } on the unquoted input  a:"\xc3\xa9"}  reaches the unmatched action although the
   specification (and the zero-extending window) select field a.  This is also a hypothesis-satisfiability example:
   [check] holds of a concrete trie. *)
Theorem C10_sign_extended_window_refuted :
  check tl_symbol_unquoted t_a ns_a = true /\ bytes s_a /\
  lookup (tm_symbol true) ns_a s_a = Matched 0 /\
  run win (tm_symbol true) t_a s_a = Matched 0 /\
  run win_c (tm_symbol true) t_a s_a = Unmatched.
Proof. exact sign_extended_window_misdispatches. Qed.
Print Assumptions C10_sign_extended_window_refuted.
