(* C05 - JSON print then parse preserves content; strict output is JSON  (the text codecs).
   Only statements, each closed by [exact] of a lemma proved in Json/CodecsProofs.v.
   Printer side: Json/Codecs.v (print_escape, print_string, print_char_array, base64_encode, print_base64 of
   json_printer.c / pbase64.h).  Parser side: Json/Scanner.v (build_string, char_array, string_escape of
   json_parser.c) and Json/Codecs.v (base64_decode of pbase64.h, parse_base64 = build_uint8_vector_base64).
   [rest] is whatever follows the printed text in the parser's input; results are for EVERY such continuation. *)
From Flatcc.Json Require Import Codecs CodecsProofs.
Local Open Scope Z_scope.

(* 1. Strings: every byte string (embedded NUL, control characters, quote, backslash, 0x7f-0xff) printed by
   print_string is parsed back by flatcc_json_parser_build_string to exactly the same bytes, consuming exactly
   the printed text, without error, whatever the parser flags. *)
Theorem C05_unescape_escape : forall s flags rest,
  Forall (fun x => 0 <= x < 256) s ->
  exists c,
    build_string (of_list (print_string s ++ rest)) (ctx_init flags) 0
      = Ok c (Z.of_nat (length (print_string s))) s /\ cerr c = 0.
Proof. exact unescape_escape. Qed.
Print Assumptions C05_unescape_escape.

(* 2. base64, codec level: both alphabets, with and without padding, destination sized by base64_decoded_size as
   the parser does: returns BASE64_EOK, the original bytes, and consumes the whole text. *)
Theorem C05_base64_roundtrip : forall url pad d, Forall in_u8 d ->
  base64_decode url (base64_encode url pad d)
    (base64_decoded_size (Z.of_nat (length (base64_encode url pad d))))
  = (B64_EOK, d, Z.of_nat (length (base64_encode url pad d))).
Proof. exact base64_roundtrip. Qed.
Print Assumptions C05_base64_roundtrip.

(* the printer advances its output pointer by base64_encoded_size: that is exactly what base64_encode writes *)
Theorem C05_base64_encoded_size_exact : forall url pad d,
  Z.of_nat (length (base64_encode url pad d)) = base64_encoded_size (Z.of_nat (length d)) pad.
Proof. exact base64_encoded_size_exact. Qed.
Print Assumptions C05_base64_encoded_size_exact.

(* the chunked output of print_uint8_vector_base64_object (whole 3-byte groups in unpadded mode, flush, then the
   remainder in the requested mode) is the one-call encoding *)
Theorem C05_base64_encode_chunks : forall url pad d1 d2,
  (Z.of_nat (length d1)) mod 3 = 0 ->
  base64_encode url pad (d1 ++ d2) = base64_encode url false d1 ++ base64_encode url pad d2.
Proof. exact base64_encode_chunks. Qed.
Print Assumptions C05_base64_encode_chunks.

(* base64_decode on ANY text (not only printer output) stays inside its buffers: at most dst_len bytes written
   when dst_len > 0 (the C function reads dst_len = 0 as NO limit), at most base64_decoded_size (text length) in
   every case - the size flatcc_json_parser_build_uint8_vector_base64 extends the vector to before decoding -
   and the reported consumed length is within the text (the error location mark + src_len is inside the input) *)
Theorem C05_base64_decode_bounded : forall url src dst_len, 0 <= dst_len ->
  match base64_decode url src dst_len with
  | (ret, out, n) =>
    (0 < dst_len -> Z.of_nat (length out) <= dst_len) /\
    Z.of_nat (length out) <= base64_decoded_size (Z.of_nat (length src)) /\
    0 <= n <= Z.of_nat (length src)
  end.
Proof. exact base64_decode_bounded. Qed.
Print Assumptions C05_base64_decode_bounded.

(* base64, field level: [ubyte] vector printed by flatcc_json_printer_uint8_vector_base64_field and parsed by
   flatcc_json_parser_build_uint8_vector_base64 in the same mode *)
Theorem C05_base64_field_roundtrip : forall url d flags rest, Forall in_u8 d ->
  exists c,
    parse_base64 url (of_list (print_base64 url d ++ rest)) (ctx_init flags) 0
      = Ok c (Z.of_nat (length (print_base64 url d))) d /\ cerr c = 0.
Proof. exact base64_field_roundtrip. Qed.
Print Assumptions C05_base64_field_roundtrip.

(* 3. Fixed length char arrays (struct members).  What holds exactly: without JF_reject_array_underflow every
   array round trips (the printer strips trailing NULs, the parser's zero padding re-creates them) ... *)
Theorem C05_char_array_roundtrip : forall a flags rest,
  Forall in_u8 a -> Z.land flags JF_reject_array_underflow = 0 ->
  exists c,
    char_array (of_list (print_char_array a ++ rest)) (ctx_init flags) 0 (Z.of_nat (length a))
      = Ok c (Z.of_nat (length (print_char_array a))) a /\ cerr c = 0.
Proof. exact char_array_roundtrip. Qed.
Print Assumptions C05_char_array_roundtrip.

(* ... with the flag, arrays the printer strips nothing from still round trip ... *)
Theorem C05_char_array_roundtrip_unstripped : forall a flags rest,
  Forall in_u8 a -> strip_nuls a = a ->
  exists c,
    char_array (of_list (print_char_array a ++ rest)) (ctx_init flags) 0 (Z.of_nat (length a))
      = Ok c (Z.of_nat (length (print_char_array a))) a /\ cerr c = 0.
Proof. exact char_array_roundtrip_unstripped. Qed.
Print Assumptions C05_char_array_roundtrip_unstripped.

(* ... and with the flag EVERY array ending in a NUL byte is refused when its own printed form is parsed back:
   error array_underflow, located at the closing quote.  Print then parse does not round trip under this flag. *)
Theorem C05_char_array_underflow_flag : forall a flags rest,
  Forall in_u8 a -> Z.land flags JF_reject_array_underflow <> 0 ->
  observe (char_array (of_list (print_char_array (a ++ [0]) ++ rest)) (ctx_init flags) 0
             (Z.of_nat (length (a ++ [0]))))
  = SErr JE_array_underflow (Z.of_nat (length (print_char_array (a ++ [0]))) - 1).
Proof. exact char_array_underflow_flag. Qed.
Print Assumptions C05_char_array_underflow_flag.

(* 4. Strict output: for well-formed UTF-8 content (RFC 3629) the printed string is an RFC 8259 string. *)
Theorem C05_strict_json_string : forall s, utf8_valid s = true -> rfc8259_string (print_string s) = true.
Proof. exact strict_json_string. Qed.
Print Assumptions C05_strict_json_string.

Theorem C05_strict_json_char_array : forall a, utf8_valid (strip_nuls a) = true ->
  rfc8259_string (print_char_array a) = true.
Proof. exact strict_json_char_array. Qed.
Print Assumptions C05_strict_json_char_array.

Theorem C05_strict_json_base64 : forall url d, Forall in_u8 d -> rfc8259_string (print_base64 url d) = true.
Proof. exact strict_json_base64. Qed.
Print Assumptions C05_strict_json_base64.

(* ------------------------------------------------------------------ concrete instances *)
(* NUL, control characters, quote, backslash, high bytes, DEL; followed by a comma *)
Example C05_string_instance :
  print_string [0; 1; 34; 92; 65; 255; 127; 10; 9; 200; 31; 0] =
    [34; 92;117;48;48;48;48; 92;117;48;48;48;49; 92;34; 92;92; 65; 255; 127; 92;110; 92;116; 200;
     92;117;48;48;49;102; 92;117;48;48;48;48; 34] /\
  observe (build_string (of_list (print_string [0; 1; 34; 92; 65; 255; 127; 10; 9; 200; 31; 0] ++ [44; 32]))
             (ctx_init 0) 0)
  = SOk 38 [0; 1; 34; 92; 65; 255; 127; 10; 9; 200; 31; 0].
Proof. vm_compute. split; reflexivity. Qed.

(* Man\001 -> TWFuAQ== and back; url alphabet on bytes that need - and _ *)
Example C05_base64_instance :
  print_base64 false [77; 97; 110; 1] = [34; 84; 87; 70; 117; 65; 81; 61; 61; 34] /\
  observe (parse_base64 false (of_list (print_base64 false [77; 97; 110; 1] ++ [44])) (ctx_init 0) 0)
    = SOk 10 [77; 97; 110; 1] /\
  base64_encode true false [251; 255; 190] = [45; 95; 45; 45] /\
  base64_encode false false [251; 255; 190] = [43; 47; 43; 43].
Proof. vm_compute. repeat split; reflexivity. Qed.

(* the hypotheses of the char array theorems are satisfiable, and the flag decides as stated *)
Example C05_char_array_instance :
  Z.land 0 JF_reject_array_underflow = 0 /\ Z.land 16 JF_reject_array_underflow <> 0 /\
  print_char_array [65; 0; 66; 0; 0] = [34; 65; 92;117;48;48;48;48; 66; 34] /\
  observe (char_array (of_list (print_char_array [65; 0; 66; 0; 0] ++ [44])) (ctx_init 0) 0 5)
    = SOk 10 [65; 0; 66; 0; 0] /\
  observe (char_array (of_list (print_char_array [65; 0; 66; 0; 0] ++ [44])) (ctx_init 16) 0 5)
    = SErr JE_array_underflow 9 /\
  observe (char_array (of_list (print_char_array [65; 0; 66] ++ [44])) (ctx_init 16) 0 3)
    = SOk 10 [65; 0; 66].
Proof. vm_compute. repeat split; try reflexivity. discriminate. Qed.

(* the recognizers: accept / reject *)
Example C05_utf8_recognizer :
  utf8_valid [65; 195; 169; 226; 130; 172; 240; 159; 152; 128; 0; 127] = true /\
  utf8_valid [192; 128] = false /\            (* overlong NUL *)
  utf8_valid [224; 159; 191] = false /\       (* overlong 3-byte form *)
  utf8_valid [237; 160; 128] = false /\       (* surrogate D800 *)
  utf8_valid [244; 144; 128; 128] = false /\  (* above 10FFFF *)
  utf8_valid [128] = false /\                 (* lone continuation byte *)
  utf8_valid [226; 130] = false /\            (* truncated *)
  utf8_valid [255] = false.
Proof. vm_compute. repeat split; reflexivity. Qed.

Example C05_json_string_recognizer :
  rfc8259_string [34; 34] = true /\
  rfc8259_string [34; 65; 195; 169; 127; 34] = true /\
  rfc8259_string [34; 92; 117; 48; 48; 49; 70; 92; 47; 92; 110; 34] = true /\   (* \u001F \/ \n *)
  rfc8259_string [34; 10; 34] = false /\               (* raw control character *)
  rfc8259_string [34; 65] = false /\                   (* unterminated *)
  rfc8259_string [34; 255; 34] = false /\              (* lone 0xff *)
  rfc8259_string [34; 34; 65] = false /\               (* text after the closing quote *)
  rfc8259_string [34; 92; 120; 52; 49; 34] = false /\  (* \x41 is not JSON *)
  rfc8259_string [34; 92; 117; 48; 48; 49; 34] = false /\  (* \u with 3 digits *)
  rfc8259_string [34; 92; 34] = false /\               (* escaped quote, then nothing *)
  rfc8259_string [65; 34] = false.
Proof. vm_compute. repeat split; reflexivity. Qed.

(* the UTF-8 hypothesis of C05_strict_json_string is needed: print_string passes bytes 0x80-0xff through, so
   content that is not UTF-8 prints as text that is not RFC 8259 JSON (it still round trips, by C05_unescape_escape) *)
Example C05_non_utf8_content_is_not_strict :
  rfc8259_string (print_string [255]) = false /\ rfc8259_string (print_string [237; 160; 128]) = false.
Proof. vm_compute. split; reflexivity. Qed.
