(* C08 - Schema numeric literals are accepted iff representable and mean what they say.
   Only statements, each closed by [exact] of a lemma proved in Coerce/CoerceProofs.v or Coerce/EnumProofs.v.
   Definitions without suffix (lex, coerce, process_enum, struct_layout true) transcribe the code with the patches
   fixes/C08-*.patch applied; the `_cur` definitions transcribe the pinned commit and are refuted below. *)
From Flatcc.Coerce Require Import CoerceModel CoerceProofs EnumProofs.
From Flatcc.Generated Require Import CoerceConsts.
Local Open Scope Z_scope.

(* T1: the limits used by the model are the limits of the C headers the compiler is built with; the default
   options are the ones the theorems are stated for. *)
Theorem C08_limits_agree :
  (ty_min Tbyte, ty_max Tbyte, ty_max Tubyte) = (C_INT8_MIN, C_INT8_MAX, C_UINT8_MAX) /\
  (ty_min Tshort, ty_max Tshort, ty_max Tushort) = (C_INT16_MIN, C_INT16_MAX, C_UINT16_MAX) /\
  (ty_min Tint, ty_max Tint, ty_max Tuint) = (C_INT32_MIN, C_INT32_MAX, C_UINT32_MAX) /\
  (ty_min Tlong, ty_max Tlong, ty_max Tulong) = (C_INT64_MIN, C_INT64_MAX, C_UINT64_MAX) /\
  C_OPT_allow_boolean_conversion = 1 /\ C_OPT_bool_size = 1 /\
  0 < C_FORCE_ALIGN_MAX < 2 ^ 63 /\ 0 < C_STRUCT_MAX_SIZE < 2 ^ 32.
Proof. exact (conj eq_refl (conj eq_refl (conj eq_refl (conj eq_refl (conj eq_refl (conj eq_refl
        (conj (conj eq_refl eq_refl) (conj eq_refl eq_refl)))))))). Qed.
Print Assumptions C08_limits_agree.

(* ---- lexing: for ALL digit strings.  Accepted iff the number fits the 64-bit carrier (unsigned up to 2^64-1,
   negated down to -2^63; hex tokens at most 16 digits), and then the stored value denotes exactly the number
   the text means. *)
Theorem C08_lex_exact : forall l n, lit_ok l -> lex_value l = Some n ->
  (lex l <> VInvalid <-> carrier_ok l n) /\
  (lex l <> VInvalid -> denote (lex l) = Some n /\ wf (lex l)).
Proof. exact lex_exact. Qed.
Print Assumptions C08_lex_exact.

(* the 16 digit limit of hex tokens is the uint64_t range for tokens without a leading zero digit *)
Theorem C08_hex_limit_is_range : forall d r, digits_ok 16 (d :: r) -> d <> 0 ->
  ((length (d :: r) <= 16)%nat <-> hex_value (d :: r) <= U64_MAX).
Proof. exact hex_normalized_limit. Qed.
Print Assumptions C08_hex_limit_is_range.

(* ---- coercion, all 9 integer types + bool x {vt_uint, vt_int, vt_bool} sources *)
Theorem C08_coerce_iff_representable : forall st v n,
  nonfloat st -> wf v -> int_valued v -> denote v = Some n ->
  ((exists v', coerce true st v = Ok v') <-> ty_min st <= n <= ty_max st).
Proof. exact coerce_iff_representable. Qed.
Print Assumptions C08_coerce_iff_representable.

Theorem C08_coerce_value : forall st v n v',
  nonfloat st -> wf v -> int_valued v -> denote v = Some n ->
  coerce true st v = Ok v' ->
  denote v' = Some n /\ wf v' /\ int_valued v' /\ (int_ty st = true -> v' = canon st n).
Proof. exact coerce_value. Qed.
Print Assumptions C08_coerce_value.

(* with allow_boolean_conversion off: true/false only for bool, numbers only for integer types *)
Theorem C08_coerce_strict_bool : forall st v n,
  nonfloat st -> wf v -> int_valued v -> denote v = Some n ->
  ((exists v', coerce false st v = Ok v') <->
   match v with VBool _ => st = Tbool | _ => st <> Tbool /\ ty_min st <= n <= ty_max st end).
Proof. exact coerce_strict_bool. Qed.
Print Assumptions C08_coerce_strict_bool.

(* a float token is never accepted for an integer or bool field *)
Theorem C08_float_literal_for_integer_rejected : forall abc st, nonfloat st -> coerce abc st VFloatLit = Err.
Proof. exact coerce_float_literal_rejected. Qed.
Print Assumptions C08_float_literal_for_integer_rejected.

(* an integer literal for a float / double field is accepted iff it is exactly representable with a 24 / 53 bit
   significand (no silent rounding), and then the stored float is that integer *)
Theorem C08_integer_to_float_exact : forall abc st v n,
  is_float_ty st = true -> wf v -> denote v = Some n ->
  match v with VUint _ | VInt _ => True | _ => False end ->
  (coerce abc st v = Ok (VFloatInt n) <-> float_representable (float_bits st) n) /\
  (coerce abc st v = Ok (VFloatInt n) \/ coerce abc st v = Err).
Proof. exact coerce_float_iff. Qed.
Print Assumptions C08_integer_to_float_exact.

(* literal text -> field default, end to end *)
Theorem C08_field_default_exact : forall st l n, nonfloat st -> lit_ok l -> lex_value l = Some n ->
  match l with LHex _ ds => ds <> [] /\ (length ds <= 16)%nat | _ => True end ->
  ((exists v', field_default true st l = Ok v') <-> ty_min st <= n <= ty_max st) /\
  (forall v', field_default true st l = Ok v' -> denote v' = Some n).
Proof. exact field_default_exact. Qed.
Print Assumptions C08_field_default_exact.

(* hypotheses are satisfiable: `a:short = -32768` and `a:ushort = 0xFFFF` *)
Example C08_example_defaults :
  field_default true Tshort (LDec true [3;2;7;6;8]) = Ok (VInt (-32768)) /\
  field_default true Tushort (LHex false [15;15;15;15]) = Ok (VUint 65535) /\
  field_default true Tshort (LDec false [3;2;7;6;8]) = Err.
Proof. repeat split; vm_compute; reflexivity. Qed.

(* ---- enums: the word-level loop of process_enum computes exactly the integer specification enum_spec:
   explicit value, else predecessor + 1 (0 for the first member); accepted iff every value is in the range
   of the underlying type (and ascending when that option is on). *)
Theorem C08_enum_refines_spec : forall asc st ms, int_ty st = true -> Forall member_ok ms ->
  process_enum true asc false st false ms =
  option_map (map (canon st)) (enum_spec asc (ty_min st) (ty_max st) 0 true (map mdenote ms)).
Proof. exact process_enum_refines. Qed.
Print Assumptions C08_enum_refines_spec.

(* enum_auto_increment / explicit values: member k has its declared value, or the value of member k-1 plus 1 *)
Theorem C08_enum_auto_increment : forall asc lo hi ms p first vs k,
  enum_spec asc lo hi p first ms = Some vs -> (k < length ms)%nat ->
  nth k vs 0 = match nth k ms None with
               | Some e => e
               | None => match k with
                         | O => if first then p else p + 1
                         | S j => nth j vs 0 + 1
                         end
               end.
Proof. exact enum_spec_nth. Qed.
Print Assumptions C08_enum_auto_increment.

Theorem C08_enum_values_in_range : forall asc lo hi ms p first vs,
  enum_spec asc lo hi p first ms = Some vs -> Forall (fun n => lo <= n <= hi) vs.
Proof. exact enum_spec_range. Qed.
Print Assumptions C08_enum_values_in_range.

(* enum_overflow_is_error: an auto-numbered member after a member whose value is MAX is never accepted *)
Theorem C08_enum_overflow_is_error : forall asc lo hi ms1 ms2 p first vs,
  enum_spec asc lo hi p first (ms1 ++ None :: ms2) = Some vs -> ms1 <> [] ->
  nth (length ms1 - 1) vs 0 < hi.
Proof. exact enum_spec_overflow. Qed.
Print Assumptions C08_enum_overflow_is_error.

(* with the ascending option every accepted enum is strictly ascending (hence free of duplicates) *)
Theorem C08_enum_ascending : forall lo hi ms p first vs,
  enum_spec true lo hi p first ms = Some vs ->
  forall j, (S j < length vs)%nat -> nth j vs 0 < nth (S j) vs 0.
Proof. exact enum_spec_ascending. Qed.
Print Assumptions C08_enum_ascending.

Example C08_example_enum :
  process_enum true false false Tbyte false [VNone; VUint 126; VNone] = Some [VInt 0; VInt 126; VInt 127] /\
  process_enum true false false Tbyte false [VNone; VUint 126; VNone; VNone] = None /\
  process_enum true false false Tulong false [VUint U64_MAX; VNone] = None.
Proof. repeat split; vm_compute; reflexivity. Qed.

(* ---- bit_flags: numbering runs over bit positions; member value 2^pos; accepted iff 0 <= pos < width and
   2^pos representable *)
Theorem C08_bit_flags_refines_spec : forall asc st ms, int_ty st = true -> Forall bf_member_ok ms ->
  process_enum true asc false st true ms =
  option_map (map (canon st)) (bf_spec asc (ty_bits st) (ty_max st) 0 true (map mdenote ms)).
Proof. exact process_enum_bit_flags_refines. Qed.
Print Assumptions C08_bit_flags_refines_spec.

Theorem C08_bitflag_position_range : forall asc bits hi ms p first vs,
  bf_spec asc bits hi p first ms = Some vs ->
  Forall (fun v => exists pos, 0 <= pos < bits /\ v = 2 ^ pos /\ v <= hi) vs.
Proof. exact bf_spec_positions. Qed.
Print Assumptions C08_bitflag_position_range.

Example C08_example_bit_flags :
  process_enum true false false Tubyte true [VNone; VNone; VUint 7] = Some [VUint 1; VUint 2; VUint 128] /\
  process_enum true false false Tubyte true [VUint 8] = None /\
  process_enum true false false Tbyte true [VUint 7] = None.
Proof. repeat split; vm_compute; reflexivity. Qed.

(* ---- fixed array length, force_align, struct size *)
Theorem C08_array_length_iff : forall v n, wf v -> (array_len v = Some n <-> v = VUint n /\ 1 <= n <= U32_MAX).
Proof. exact array_len_iff. Qed.
Print Assumptions C08_array_length_iff.

Theorem C08_force_align_iff : forall a,
  (is_valid_align C_FORCE_ALIGN_MAX a = true <-> (exists k, 0 <= k /\ a = 2 ^ k) /\ 1 <= a <= C_FORCE_ALIGN_MAX).
Proof. exact (fun a => is_valid_align_iff C_FORCE_ALIGN_MAX a (conj eq_refl eq_refl)). Qed.
Print Assumptions C08_force_align_iff.

Theorem C08_struct_size_limit : forall fa ms sz al,
  struct_layout true C_STRUCT_MAX_SIZE fa ms = Some (sz, al) -> sz <= C_STRUCT_MAX_SIZE /\ sz <> 0.
Proof. exact (struct_layout_limit C_STRUCT_MAX_SIZE). Qed.
Print Assumptions C08_struct_size_limit.

Theorem C08_array_struct_iff : forall esz len, (esz = 1 \/ esz = 2 \/ esz = 4 \/ esz = 8) -> 1 <= len <= U32_MAX ->
  (struct_layout true C_STRUCT_MAX_SIZE 0 [(esz, len)] = Some (esz * len, esz) <-> esz * len <= C_STRUCT_MAX_SIZE) /\
  (struct_layout true C_STRUCT_MAX_SIZE 0 [(esz, len)] = Some (esz * len, esz) \/
   struct_layout true C_STRUCT_MAX_SIZE 0 [(esz, len)] = None).
Proof. exact (fun esz len E L => array_struct_iff C_STRUCT_MAX_SIZE esz len E L (conj eq_refl eq_refl)). Qed.
Print Assumptions C08_array_struct_iff.

(* ---- the pinned commit does not satisfy the property (faithful `_cur` transcription) *)

(* coerce.c:128/150/172 reads value->i of a vt_uint: `a:int = 18446744073709551615` is accepted as -1 *)
Theorem C08_uint_to_signed_refuted :
  exists st l n v', lit_ok l /\ lex_value l = Some n /\ ~ (ty_min st <= n <= ty_max st) /\
    field_default_cur true st l = Ok v' /\ denote v' = Some (-1) /\ n = 18446744073709551615.
Proof. exact uint_to_signed_refuted. Qed.
Print Assumptions C08_uint_to_signed_refuted.

(* parser.c:471 negates without overflow check: -9223372036854775809 -> +9223372036854775807 (long),
   -18446744073709551615 -> 1 (byte) *)
Theorem C08_sign_wrap_refuted :
  (exists l n v', lit_ok l /\ lex_value l = Some n /\ n = -9223372036854775809 /\
     field_default_cur true Tlong l = Ok v' /\ denote v' = Some 9223372036854775807) /\
  (exists l n v', lit_ok l /\ lex_value l = Some n /\ n = -18446744073709551615 /\
     field_default_cur true Tbyte l = Ok v' /\ denote v' = Some 1).
Proof. exact sign_wrap_refuted. Qed.
Print Assumptions C08_sign_wrap_refuted.

(* pparseint.h parse_integer `x0 > x` misses wraps: 30000000000000000000 -> 11553255926290448384 (ulong) *)
Theorem C08_decimal_wrap_refuted :
  exists l n v', lit_ok l /\ lex_value l = Some n /\ n = 30000000000000000000 /\ ~ (n <= U64_MAX) /\
    field_default_cur true Tulong l = Ok v' /\ denote v' = Some 11553255926290448384.
Proof. exact decimal_wrap_refuted. Qed.
Print Assumptions C08_decimal_wrap_refuted.

(* semantics.c process_enum tests fb_long instead of fb_ulong in the vt_uint increment:
   enum E:ulong { A = 18446744073709551615, B } gives B = 0 *)
Theorem C08_enum_ulong_wrap_refuted :
  process_enum_cur true false false Tulong false [VUint U64_MAX; VNone] = Some [VUint U64_MAX; VUint 0] /\
  process_enum true false false Tulong false [VUint U64_MAX; VNone] = None.
Proof. exact enum_ulong_wrap_refuted. Qed.
Print Assumptions C08_enum_ulong_wrap_refuted.

(* semantics.c analyze_struct tests the maximum before the trailing padding:
   struct S { b:uint; a:[ubyte:65531]; } has size 65536 *)
Theorem C08_struct_size_limit_refuted :
  exists ms sz al, struct_layout false 65535 0 ms = Some (sz, al) /\ 65535 < sz /\
                   struct_layout true 65535 0 ms = None.
Proof. exact struct_size_limit_refuted. Qed.
Print Assumptions C08_struct_size_limit_refuted.

(* and the corrected definitions reject exactly those literals *)
Theorem C08_fixed_rejects_the_three :
  field_default true Tint (LDec false digits_of_18446744073709551615) = Err /\
  field_default true Tlong (LDec true digits_of_9223372036854775809) = Err /\
  field_default true Tbyte (LDec true digits_of_18446744073709551615) = Err /\
  field_default true Tulong (LDec false digits_of_30000000000000000000) = Err.
Proof. exact fixed_rejects_the_three. Qed.
Print Assumptions C08_fixed_rejects_the_three.
