(* C03 - Build then read returns exactly what was written.
   Only statements, each closed by [exact] of a lemma proved in Builder/*.v.
   The abstract reader is Format/Spec.v [decode_root] (scalars and structs as byte lists: "bit exact" is literal;
   a table as the list of its present fields - the generated reader's "absent = schema default, is_present false" is
   checked against the generated accessors by checks/c03.py on every run).  Same fragment as C02 (see Properties_C02.v). *)
From Flatcc.Format Require Import Schema Spec SpecProofs.
From Flatcc.Builder Require Import EmitModel VMem Objects Leaves OffVec TableLayout Table Buffer Script ScriptProofs Example.
Local Open Scope Z_scope.

(* Decoding the finished bytes of a well-typed build returns exactly the value tree the script built (every use of a
   shared reference decodes to the same value). *)
Theorem C03_build_decode : forall Sc sc R v ws n regs ems st,
  wt_script Sc sc R v ws n -> run init_state [] sc = Some (regs, ems, st) -> small st ->
  decode_root n Sc R ws (buffer_bytes st) = Some v.
Proof. exact build_decode. Qed.
Print Assumptions C03_build_decode.

(* ... also when the start of the buffer is only as aligned as the builder reports (or as any list of further alignment
   references that are multiples of it). *)
Theorem C03_build_decodes_aligned : forall Sc sc R v ws n regs ems st,
  wt_script Sc sc R v ws n -> run init_state [] sc = Some (regs, ems, st) -> small st ->
  (forall ds0, Forall (fun d => d mod buffer_alignment st = 0) ds0 ->
     decode_mem n Sc R ws ds0 (mem_of_list (buffer_bytes st)) (lenZ (buffer_bytes st)) = Some v) /\
  pow2 (buffer_alignment st) /\ 4 <= buffer_alignment st.
Proof. exact build_decodes. Qed.
Print Assumptions C03_build_decodes_aligned.

(* The leaves: what create_string / create_struct / create_vector / an offset vector emit reads back as what was given. *)
Theorem C03_string_roundtrip : forall n Sc st s ref e st',
  st_ok st -> ma_ok st -> create_string st s = Some (ref, e, st') -> small st' ->
  step st st' /\ e_start st' = ref /\ ref < e_start st /\ e_end st' = e_end st /\ min_align st' = min_align st /\ vcache st' = vcache st /\
  ref mod 4 = 0 /\ valid n Sc st' (lvl_align st') OString ref (VString s).
Proof. exact create_string_valid. Qed.
Print Assumptions C03_string_roundtrip.

Theorem C03_struct_roundtrip : forall n Sc st data al ref e st',
  st_ok st -> ma_ok st -> pow2 al -> create_struct st data al = Some (ref, e, st') -> small st' ->
  step st st' /\ e_start st' = ref /\ ref < e_start st /\ e_end st' = e_end st /\ vcache st' = vcache st /\
  ref mod al = 0 /\ valid n Sc st' (lvl_align st') (OStruct (lenZ data) al) ref (VBytes data).
Proof. exact create_struct_valid. Qed.
Print Assumptions C03_struct_roundtrip.

Theorem C03_vector_roundtrip : forall n Sc st elems count esize align maxcount ref e st',
  st_ok st -> ma_ok st -> pow2 align -> 1 <= esize <= U32_MAX ->
  Forall (fun e => lenZ e = esize) elems -> count = Z.of_nat (length elems) ->
  maxcount * esize <= U32_MAX ->
  create_vector st (concat elems) count esize align maxcount = Some (ref, e, st') -> small st' ->
  step st st' /\ e_start st' = ref /\ ref < e_start st /\ e_end st' = e_end st /\ vcache st' = vcache st /\
  ref mod 4 = 0 /\ count <= maxcount /\
  valid n Sc st' (lvl_align st') (OVec esize align) ref (VVec elems).
Proof. exact create_vector_valid. Qed.
Print Assumptions C03_vector_roundtrip.

Theorem C03_offset_vector_roundtrip : forall n Sc st ety refs vs ref e st',
  st_ok st -> ma_ok st -> (ety = OString \/ exists t, ety = OTable t) ->
  Forall2 (fun r v => e_start st <= r < 0 /\ valid n Sc st (lvl_align st) ety r v) refs vs ->
  create_offset_vector st refs = Some (ref, e, st') -> small st' ->
  step st st' /\ e_start st' = ref /\ ref < e_start st /\ e_end st' = e_end st /\ vcache st' = vcache st /\ ref mod 4 = 0 /\
  valid n Sc st' (lvl_align st') (offvec_ty ety) ref (VOffVec vs).
Proof. exact create_offset_vector_valid. Qed.
Print Assumptions C03_offset_vector_roundtrip.

(* satisfiable: the example of Builder/Example.v decodes to its value *)
Theorem C03_example_decodes : exists regs ems st,
  run init_state [] ex_script = Some (regs, ems, st) /\ decode_root 2 ex_schema (RTable 1) true (buffer_bytes st) = Some ex_value.
Proof.
  destruct ex_runs as (regs & ems & st & E & Hsm & _). exists regs, ems, st. split; [exact E|].
  exact (build_decode ex_schema ex_script (RTable 1) ex_value true 2 regs ems st ex_wt E Hsm).
Qed.
Print Assumptions C03_example_decodes.

(* Full statements not yet proved (decided by checks/c03.py on every run):
   build_decode_full : as C03_build_decode for union vectors and nested buffers;
   (reader_decode - every generated accessor returns the field of decode_root b - is proved in Properties_C03b.v);
   the generated T_f_add default elision / T_create argument order. *)
