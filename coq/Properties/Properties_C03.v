(* C03 - Build then read returns exactly what was written.
   Only statements, each closed by [exact] of a lemma proved in Builder/*.v. *)
From Flatcc.Format Require Import Schema Spec.
From Flatcc.Builder Require Import EmitModel BuilderBasics.
Local Open Scope Z_scope.

Theorem C03_le16_value : forall x, 0 <= x < 65536 -> x mod 256 + 256 * ((x / 256) mod 256) = x.
Proof. exact le16_value. Qed.
Print Assumptions C03_le16_value.
