(* C11 - JSON printer never overruns its output; all output modes agree.
   Only statements, each closed by [exact] of a lemma proved in Printer/PrinterTheorems.v.
   CF = the printer with the repairs of fixes/C11-*.patch, CC = the pinned tree; both with the reserve, flush
   size, nesting limit read from /repo's headers and the number printers' store size measured, on every run.
   Nothing here is closed by computation on concrete sizes: a change of the constants re-checks exactly the side
   conditions (C11_reserve_covers_runs and the three inequalities of std). *)
From Flatcc.Printer Require Import FlushModel PrintOps FlushProofs OpsProofs PrinterTheorems.
Local Open Scope Z_scope.

(* The reserve covers the longest run the printer stores between two flush checks, exactly: quote, colon, space,
   one number with its terminator (PRINT_NUM_WRITE_MAX = 25, measured by T1), comma, newline and the terminator a
   flush stores: reserve >= 30.  This and the three inequalities of [std] are the only requirements on the constants. *)
Theorem C11_reserve_covers_runs : 6 <= PRINT_NUM_WRITE_MAX /\ PRINT_NUM_WRITE_MAX + 5 <= PRINT_RESERVE.
Proof. exact reserve_covers_runs. Qed.
Print Assumptions C11_reserve_covers_runs.

Theorem C11_constants_consistent :
  1 <= PRINT_RESERVE /\ PRINT_FLUSH_SIZE + PRINT_RESERVE <= PRINT_BUFFER_SIZE /\ PRINT_RESERVE <= PRINT_FLUSH_SIZE.
Proof. exact std_CF. Qed.
Print Assumptions C11_constants_consistent.

(* Every primitive stream whose unchecked runs fit the reserve is printed to the end without a store outside
   the buffer: fixed buffers of every size from the reserve up, growing buffers of every initial size, the file
   printer.  No bound on the stream.  The growing buffer's allocation policy is an ORACLE o (the block sizes the
   reallocator hands back, 0 = failure): the statement holds for every oracle in which each block is at least the
   previous one plus the reserve (alloc_ok), and the model then never raises its bad-oracle verdict. *)
Theorem C11_no_overrun_streams : forall ops m sz o sl',
  (m = Fixed -> PRINT_RESERVE <= sz) -> alloc_ok m sz o -> chk CF 0 ops = Some sl' ->
  exists s', run CF ops (init CF m sz o) = Some s' /\ viol s' = false /\ obad s' = false.
Proof. exact no_overrun_streams. Qed.
Print Assumptions C11_no_overrun_streams.

(* The streams issued for values meet that side condition: any nesting, any names, strings, base64 data,
   vectors, unions, every flag set, every non-negative indentation. *)
Theorem C11_value_streams_bounded : forall F v,
  0 <= indent F -> wfv PRINT_NUM_WRITE_MAX v = true -> is_fieldlike v = false ->
  exists sl', chk CF 0 (root_ops ocfg_fixed F v) = Some sl'.
Proof. exact value_streams_bounded. Qed.
Print Assumptions C11_value_streams_bounded.

(* Hence: printing any value terminates, stays inside the buffer and leaves it zero terminated. *)
Theorem C11_no_overrun : forall F v m sz o,
  0 <= indent F -> wfv PRINT_NUM_WRITE_MAX v = true -> is_fieldlike v = false ->
  (m = Fixed -> PRINT_RESERVE <= sz) -> alloc_ok m sz o ->
  exists s', run CF (root_ops ocfg_fixed F v) (init CF m sz o) = Some s' /\ viol s' = false /\ term s' = true.
Proof. exact no_overrun_values. Qed.
Print Assumptions C11_no_overrun.

(* The three modes agree: the growing buffer and the file receive exactly the concatenated primitive bytes and
   return their number; the fixed buffer either does the same or reports an error (-1); it succeeds exactly
   when the text is shorter than size - reserve, so never with truncated text. *)
Theorem C11_modes_agree_streams : forall ops szf szd o sl',
  PRINT_RESERVE <= szf -> no_perr ops = true -> chk CF 0 (ops ++ [PFlushAll]) = Some sl' ->
  good_orc PRINT_RESERVE (dyn_size CF szd) o -> nofail o = true ->
  exists sf sd sl,
    run CF (ops ++ [PFlushAll]) (init CF Fixed szf []) = Some sf /\
    run CF (ops ++ [PFlushAll]) (init CF Dynamic szd o) = Some sd /\
    run CF (ops ++ [PFlushAll]) (init CF File 0 []) = Some sl /\
    agree ops szf sf sd sl.
Proof. exact modes_agree_streams. Qed.
Print Assumptions C11_modes_agree_streams.

Theorem C11_modes_agree : forall F v szf szd o,
  0 <= indent F -> wfv PRINT_NUM_WRITE_MAX v = true -> is_fieldlike v = false ->
  PRINT_RESERVE <= szf ->
  good_orc PRINT_RESERVE (dyn_size CF szd) o -> nofail o = true ->
  let ops := vops ocfg_fixed F 0 PRINT_MAX_LEVELS v ++ (if pretty F then [PChar 10] else []) in
  no_perr ops = true ->
  exists sf sd sl,
    run CF (root_ops ocfg_fixed F v) (init CF Fixed szf []) = Some sf /\
    run CF (root_ops ocfg_fixed F v) (init CF Dynamic szd o) = Some sd /\
    run CF (root_ops ocfg_fixed F v) (init CF File 0 []) = Some sl /\
    agree ops szf sf sd sl.
Proof. exact modes_agree_values. Qed.
Print Assumptions C11_modes_agree.

Theorem C11_success_iff_fits : forall C ops sz o s',
  no_perr ops = true -> run C (ops ++ [PFlushAll]) (init C Fixed sz o) = Some s' -> viol s' = false ->
  (err s' = 0 <-> len (text ops) < sz - RSV C).
Proof. exact fixed_success_iff_fits. Qed.
Print Assumptions C11_success_iff_fits.

(* Whatever is reported as success is the complete text, in every mode, for both code variants and for EVERY oracle
   (also one with failed or too small allocations). *)
Theorem C11_success_is_complete_text : forall C ops m sz o s',
  run C ops (init C m sz o) = Some s' -> viol s' = false -> err s' = 0 ->
  r_text (observe s') = text ops /\ r_ret (observe s') = len (text ops) /\
  (m <> File -> cur s' = rev (text ops) /\ p s' = len (text ops) /\ out s' = [] /\ total s' = 0).
Proof. exact output_is_text. Qed.
Print Assumptions C11_success_is_complete_text.

(* Errors raised while printing (deep recursion) are reported by every mode. *)
Theorem C11_error_reported : forall C ops s s' e,
  e <> 0 -> In (PErr e) ops -> run C ops s = Some s' -> r_ret (observe s') = -1.
Proof. exact error_reported. Qed.
Print Assumptions C11_error_reported.

(* The pinned print_ex terminates as well when the flush area is not empty (no base64 in the stream). *)
Theorem C11_pinned_terminates_when_flush_size_positive : forall ops m sz o sl',
  (m = Fixed -> PRINT_RESERVE < sz) -> (m = Dynamic -> good_orc PRINT_RESERVE (dyn_size CC sz) o /\ nofail o = true) ->
  chk CC 0 ops = Some sl' ->
  exists s', run CC ops (init CC m sz o) = Some s' /\ viol s' = false.
Proof. exact pinned_code_terminates. Qed.
Print Assumptions C11_pinned_terminates_when_flush_size_positive.

(* Allocation policies covered by the side condition: the doubling of the pinned tree, growth by half plus the
   reserve; any other policy only has to satisfy new >= old + reserve. *)
Theorem C11_alloc_policies_covered :
  (forall sz, PRINT_RESERVE <= sz -> sz + PRINT_RESERVE <= 2 * sz) /\
  (forall sz, 0 <= sz -> sz + PRINT_RESERVE <= sz + sz / 2 + PRINT_RESERVE).
Proof. exact (conj doubling_ok half_plus_reserve_ok). Qed.
Print Assumptions C11_alloc_policies_covered.

(* The extracted driver runs a variant that carries the remaining length like the C code; it is the same function. *)
Theorem C11_fast_run_is_run : forall C ops s, run_f C ops s = run C ops s.
Proof. exact run_f_eq. Qed.
Print Assumptions C11_fast_run_is_run.

(* ---- the hypotheses are satisfiable ---- *)
Example C11_hypotheses_satisfiable :
  let F := mkflags 2 false false in
  0 <= indent F /\ wfv PRINT_NUM_WRITE_MAX (chain 3) = true /\ is_fieldlike (chain 3) = false /\
  alloc_ok Dynamic 0 [] /\ (exists sl', chk CF 0 (root_ops ocfg_fixed F (chain 3)) = Some sl').
Proof.
  cbv zeta. split; [cbn; lia|]. split; [vm_compute; reflexivity|]. split; [reflexivity|]. split; [intros _; exact I|].
  apply C11_value_streams_bounded; [cbn; lia|vm_compute; reflexivity|reflexivity].
Qed.

(* The _refuted theorems about the code as it was pinned, and concrete examples, are in Properties_C11_pinned.v. *)
