(* C04, parser layer - a generated table parser only issues well-typed builder calls, hence (with C02) every buffer it
   finishes is accepted by the generated verifier; it terminates and keeps all positions inside the input.
   Only statements, each closed by [exact] of a lemma proved in Json/ParserProofs.v.

   FULL STATEMENT of the clause (properties.jsonl C04): for every byte string, every accepted schema and root type (struct
   roots, unions type-first / value-first, union vectors, nested buffers, base64, fixed arrays) and every flag subset the
   generated parser either returns a non-zero error located inside the input or success with a finished buffer the
   generated verifier accepts.

   PROVED HERE (`_partial`): the same for the MODEL Json/ParserModel.v of the generated table parsers
   (gen_table_parser / gen_field_match_handler of codegen_c_json_parser.c over a schema descriptor, root =
   flatcc_json_parser_table_as_root) on the fragment
       tables whose fields are integer scalars of any width / bool / enums given as integers (with defaults and force_add),
       strings, vectors of such scalars, vectors of strings, tables, vectors of tables; required fields; duplicate
       members; unknown members with and without skip_unknown (the generic skipper of Scanner.v); the nesting bound
       FLATCC_JSON_PARSE_MAX_LEVELS = [maxlvl] (builder max_level, /repo commit 67809ea); all flag subsets; identifier.
   GAPS (exact):
     1. out of the fragment: unions, union vectors, nested buffers, base64, structs / fixed arrays (struct roots), floats,
        optional scalars, symbolic constants (enum names): the model answers PStop W_OUT or has no descriptor for them.
     2. abstractions of the model, tied by correspondence only (checks/c04b_util.py, byte-for-byte on the finished buffer):
        name dispatch = exact lookup (C10 proves it of the generated tries); scalar syntax = the parameter [sp] with contract
        [sp_ok] ([sp_int] is proved to satisfy it); evaluation stops at the first error (first-error-wins, C04_first_error_wins);
        the builder is the create-level model of C02 (stack-layer calls of the parser = create calls in completion order);
        allocation failures are outside.
     3. hypotheses inherited from C02_build_verifies that are NOT discharged: the builder model runs ([run ... = Some]) and
        stays below 2^31 bytes ([small]); the script data are bytes ([script_bytes sc], true whenever the input is a byte
        string - not proved, decidable on the script); [schema_wf] of the verifier-side schema; the address is aligned to
        the reported buffer alignment.
     4. levels: the parser bound gives [depth + 1 <= maxlvl <= VERIFIER_MAX_LEVELS]; this discharges
        [levels_needed] for schemas without vectors of tables.  With vectors of tables C02's measure is [2 * depth]:
        the hypothesis [2 * depth <= VERIFIER_MAX_LEVELS] stays (the parser's frame count is finer than C02's measure:
        a chain of 51..99 tables through table FIELDS of a schema that also has a table vector is accepted by parser
        and verifier but not covered by C02_build_verifies). *)
From Flatcc.Json Require Import Scanner ScannerProofs ParserModel ParserProofs.
From Flatcc.Builder Require Import VMem Script.
Local Open Scope Z_scope.

(* The integer / bool literal instance satisfies the contract of the abstracted scalar parser. *)
Theorem C04_scalar_instance_ok : sp_ok sp_int.
Proof. exact sp_int_ok. Qed.
Print Assumptions C04_scalar_instance_ok.

(* Success => the parser issued only well-typed build calls (field ids exist, kinds match, required fields present, no
   duplicates, table data below 64 KiB): the returned script is well typed for the returned value tree and depth bound d,
   and d + 1 is within the level limit the parser gives the builder. *)
Theorem C04_parse_ok_well_typed_partial : forall sp maxlvl PS b,
  sp_ok sp -> pschema_okb PS = true -> 0 <= blen b ->
  forall root flags idw c p sc v d, in_u32 idw ->
  parse_root sp maxlvl PS b root flags idw = POk c p sc (v, d) ->
  wt_script (to_schema PS) sc (RTable root) v (has_flag (ctx_init flags) JF_with_size) d /\ Z.of_nat d + 1 <= maxlvl.
Proof. exact parse_ok_well_typed. Qed.
Print Assumptions C04_parse_ok_well_typed_partial.

(* ... and therefore, by C02_build_verifies, the verifier model accepts the finished bytes. *)
Theorem C04_parse_ok_verifies_partial : forall sp maxlvl PS b root flags idw c p sc v d regs ems st addr fuel,
  sp_ok sp -> pschema_okb PS = true -> 0 <= blen b -> in_u32 idw ->
  parse_root sp maxlvl PS b root flags idw = POk c p sc (v, d) ->
  run init_state [] sc = Some (regs, ems, st) -> small st ->
  VS.schema_wf (CB.to_vschema (to_schema PS)) = true ->
  CY.script_bytes sc = true ->
  maxlvl <= VERIFIER_MAX_LEVELS -> (has_tabvec PS = false \/ 2 * Z.of_nat d <= VERIFIER_MAX_LEVELS) ->
  (d <= fuel)%nat ->
  addr mod buffer_alignment st = 0 ->
  VM.verify_root (of_list (buffer_bytes st)) addr (CB.to_vschema (to_schema PS)) fuel (CB.to_vroot (RTable root))
    (CC.to_variant (has_flag (ctx_init flags) JF_with_size)) = VM.VOk.
Proof. exact parse_ok_buffer_verifies. Qed.
Print Assumptions C04_parse_ok_verifies_partial.

(* The nesting bound of the parser and the verifier's level hypothesis of C02. *)
Theorem C04_levels_from_parser_bound : forall PS maxlvl d,
  Z.of_nat d + 1 <= maxlvl -> maxlvl <= VERIFIER_MAX_LEVELS ->
  (has_tabvec PS = false \/ 2 * Z.of_nat d <= VERIFIER_MAX_LEVELS) ->
  CC.levels_needed (to_schema PS) d <= VERIFIER_MAX_LEVELS.
Proof. exact levels_from_parser_bound. Qed.
Print Assumptions C04_levels_from_parser_bound.

(* Termination: two rounds per input byte always suffice (parse_root uses exactly that fuel). *)
Theorem C04_parser_terminates : forall sp maxlvl PS b,
  sp_ok sp -> pschema_okb PS = true -> 0 <= blen b ->
  forall fuel root flags idw, Z.of_nat fuel >= 2 * blen b + 2 -> in_u32 idw ->
  parse_root_fuel sp maxlvl PS b fuel root flags idw <> PStop W_FUEL /\
  parse_root sp maxlvl PS b root flags idw <> PStop W_FUEL.
Proof. exact parser_terminates. Qed.
Print Assumptions C04_parser_terminates.

(* No read outside the input; the end location of a success and the location of an error (a non-zero code) lie in
   [0, length]. *)
Theorem C04_parser_positions_in_input : forall sp maxlvl PS b,
  sp_ok sp -> pschema_okb PS = true -> 0 <= blen b ->
  forall root flags idw, in_u32 idw ->
  parse_root sp maxlvl PS b root flags idw <> PStop W_OOB /\
  (forall c p sc x, parse_root sp maxlvl PS b root flags idw = POk c p sc x -> 0 <= p <= blen b) /\
  (forall e l, parse_root sp maxlvl PS b root flags idw = PErr e l -> e <> 0 /\ 0 <= l <= blen b).
Proof. exact parser_positions. Qed.
Print Assumptions C04_parser_positions_in_input.

(* Every hypothesis is satisfiable: a schema with all field kinds of the fragment, a 75-byte document (quoted and unquoted
   keys, an escape, negative numbers, nesting through a table field and a table vector), with_size and an identifier:
   the model accepts, the builder model finishes 172 bytes and the verifier model accepts them - by the theorem. *)
Theorem C04_example_parse_verifies :
  pschema_okb ex_ps = true /\
  exists c p sc v d regs ems st,
    parse_root sp_int 100 ex_ps (of_list ex_input) 0 JF_with_size 1414681411 = POk c p sc (v, d) /\
    p = lenZ ex_input /\ d = 2%nat /\
    run init_state [] sc = Some (regs, ems, st) /\ lenZ (buffer_bytes st) = 172 /\
    VM.verify_root (of_list (buffer_bytes st)) 0 (CB.to_vschema (to_schema ex_ps)) 100 (CB.to_vroot (RTable 0))
      (CC.to_variant (has_flag (ctx_init JF_with_size) JF_with_size)) = VM.VOk.
Proof. exact example_parse_verifies. Qed.
Print Assumptions C04_example_parse_verifies.
