(* C20 - The binary schema is a faithful, searchable reflection of the schema.
   Level translation_validation: codegen_schema.c is validated per schema by checks/c20.py. The only theorems here
   are the search half of "searchable": for a vector sorted by the key the generated find uses, the generated
   lower-bound binary search finds every present key at its lowest index (Layout/Reflect.v), and the struct offsets /
   sizes / alignments and field ids the check compares the binary schema with are those of the C07 theorems. *)
From Coq Require Import ZArith List.
From Flatcc.Layout Require Import Reflect.
Local Open Scope Z_scope.

Theorem C20_sorted_find_total : forall v k, sorted v -> In k v -> exists p, find v k = Some p /\ lowest v k p.
Proof. exact find_total. Qed.
Print Assumptions C20_sorted_find_total.

Theorem C20_find_sound : forall v k p, find v k = Some p -> zn v p = k.
Proof. exact find_sound. Qed.
Print Assumptions C20_find_sound.

Theorem C20_unsorted_find_refuted : exists v k, In k v /\ find v k = None.
Proof. exact find_unsorted_refuted. Qed.
Print Assumptions C20_unsorted_find_refuted.
