(* C15 - Nested buffers are self-contained and correctly aligned.
   Only statements, each closed by [exact] of a lemma proved in Format/SpecProofs.v and Builder/*.v.
   The whole-build theorem for nested buffers (nested_self_contained, nested_aligned, parent_align_ge below) is NOT yet
   proved; it is decided on every run by checks/c15.py (every nested vector of the implementation's output is extracted and
   verified, read and decoded in isolation, with the address arithmetic checked).  What is proved here are the parts of the
   argument that carry over: the format rule for nested buffers is a restriction to the vector (self containment is part of
   well-formedness, Spec.dec_nested), it is stable under extension of the parent, and the vtable cache never hands out a
   vtable outside the memory emitted so far. *)
From Flatcc.Format Require Import Schema Spec SpecProofs.
From Flatcc.Builder Require Import EmitModel VMem Objects Leaves OffVec TableLayout Table Buffer.
Local Open Scope Z_scope.

(* A nested buffer that decodes inside its parent keeps decoding - in the memory restricted to its own vector - when the
   parent grows or moves: nothing outside the vector is consulted. *)
Theorem C15_nested_stable_partial : forall r r' m o m' o' ds R al t v,
  rle r r' -> mle m o m' o' -> dec_nested r m o ds R al t = Some v -> dec_nested r' m' o' ds R al t = Some v.
Proof. intros r r' m o m' o' ds R al t v Hr H. exact (dec_nested_mono r r' Hr m o m' o' H ds R al t v). Qed.
Print Assumptions C15_nested_stable_partial.

(* The vtable cache: whatever create_cached_vtable returns lies in the emitted memory, is 2-aligned and holds exactly the
   requested vtable (a vtable of another buffer - different nest_id - is never returned: vcache_find compares nest_id). *)
Theorem C15_cached_vtable_partial : forall st vt r es st1,
  st_ok st -> ma_ok st -> cache_ok st -> 0 <= lenZ vt < 65536 -> lenZ vt mod 2 = 0 ->
  create_cached_vtable st vt = Some (r, es, st1) -> small st1 ->
  step st st1 /\ cache_ok st1 /\ min_align st1 = min_align st /\
  mem_has (vmem st1) (r - 1) vt /\ (r - 1) mod 2 = 0 /\ e_start st1 <= r - 1 /\ r - 1 + lenZ vt <= e_end st1.
Proof. exact cached_vtable_ok. Qed.
Print Assumptions C15_cached_vtable_partial.

(* The nested header (what end_buffer emits for a nested buffer: ubyte vector length taken from buffer_mark, root offset,
   identifier, padding so that the vector DATA is aligned): given a root that is valid inside the nested buffer's own window
   [emit_start, buffer_mark), the emitted vector (a) is a nested buffer of the parent - decoded in the memory restricted to the
   vector, i.e. no reference leaves it -, (b) copied out decodes on its own as a buffer of the nested root type, (c) starts
   at a virtual address that is a multiple of the nested buffer's alignment al = max(given alignment, 4, block alignment), and
   the builder's min_align is raised to al (the parent's exit_frame keeps the maximum). One nesting step; the whole-build
   induction that supplies the window-validity of the root is what remains. *)
Theorem C15_nested_header_partial : forall n Sc st id b_align root align flags R v ref es st',
  st_ok st -> ma_ok st -> pow2 align -> min_align st <= align ->
  balign_ok b_align -> balign_ok (block_align st) -> in_u32 id ->
  Z.land flags 1 <> 0 -> Z.land flags 2 = 0 ->
  e_start st <= root < 0 -> e_start st <= buffer_mark st <= 0 ->
  (forall o ds, org_ok st (lvl_align st) o ds ->
     obj_holds n Sc (root_oty R) v (restrict (vmem st) (e_start st) (buffer_mark st)) o ds (root - o)) ->
  create_buffer st id b_align root align flags = Some (ref, es, st') -> small st' ->
  let al := min_align st' in
  let nb := ref + 4 in
  st_ok st' /\ e_start st' = ref /\ e_end st' = e_end st /\ pow2 al /\ 4 <= al /\ align <= al /\
  nb mod al = 0 /\ ref mod 4 = 0 /\
  (forall o ds al', org_ok st' al o ds ->
     dec_nested (dec_table n Sc) (vmem st') o ds R al' (ref - o) = Some (VNested v)) /\
  (forall ext, mem_has (vmem st') nb ext -> lenZ ext = buffer_mark st - nb ->
     decode_root n Sc R false ext = Some v).
Proof. exact create_buffer_nested. Qed.
Print Assumptions C15_nested_header_partial.

(* Full statements not yet proved (decided by checks/c15.py on every run):
   nested_self_contained : wt_script with a nested value n at field f -> the bytes nb of the ubyte vector satisfy
                           decode_root S_nested nb = Some n (plain) / as a size-prefixed buffer from the length field (with_size);
   nested_aligned        : the nested start offset is a multiple of the largest alignment used inside nb;
   parent_align_ge       : buffer_alignment parent >= that alignment;
   no_shared_vtable      : every vtable reference of nb lies inside nb (nest_id keyed cache). *)
