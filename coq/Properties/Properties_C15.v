(* C15 - Nested buffers are self-contained and correctly aligned.
   Only statements, each closed by [exact] of a lemma proved in Format/SpecProofs.v and Builder/*.v.
   The whole-build theorem for nested buffers (nested_self_contained, nested_aligned, parent_align_ge below) is NOT yet
   proved; it is decided on every run by checks/c15.py (every nested vector of the implementation's output is extracted and
   verified, read and decoded in isolation, with the address arithmetic checked).  What is proved here are the parts of the
   argument that carry over: the format rule for nested buffers is a restriction to the vector (self containment is part of
   well-formedness, Spec.dec_nested), it is stable under extension of the parent, and the vtable cache never hands out a
   vtable outside the memory emitted so far. *)
From Flatcc.Format Require Import Schema Spec SpecProofs.
From Flatcc.Builder Require Import EmitModel VMem Objects Leaves OffVec TableLayout Table Buffer EmbedBuffer.
Local Open Scope Z_scope.

(* A nested buffer that decodes inside its parent keeps decoding - in the memory restricted to its own vector - when the
   parent grows or moves: nothing outside the vector is consulted. *)
Theorem C15_nested_stable_partial : forall r r' m o m' o' ds R al t v,
  rle r r' -> mle m o m' o' -> dec_nested r m o ds R al t = Some v -> dec_nested r' m' o' ds R al t = Some v.
Proof. intros r r' m o m' o' ds R al t v Hr H. exact (dec_nested_mono r r' Hr m o m' o' H ds R al t v). Qed.
Print Assumptions C15_nested_stable_partial.

(* The vtable cache: whatever create_cached_vtable returns lies in the emitted memory, is 2-aligned and holds exactly the
   requested vtable (a vtable of another buffer - different nest_id - is never returned: vcache_find compares nest_id). *)
Theorem C15_cached_vtable_partial : forall st vt r es st1,
  st_ok st -> ma_ok st -> cache_ok st -> 0 <= lenZ vt < 65536 -> lenZ vt mod 2 = 0 ->
  create_cached_vtable st vt = Some (r, es, st1) -> small st1 ->
  step st st1 /\ cache_ok st1 /\ min_align st1 = min_align st /\
  mem_has (vmem st1) (r - 1) vt /\ (r - 1) mod 2 = 0 /\ e_start st1 <= r - 1 /\ r - 1 + lenZ vt <= e_end st1.
Proof. exact cached_vtable_ok. Qed.
Print Assumptions C15_cached_vtable_partial.

(* The nested header (what end_buffer emits for a nested buffer: ubyte vector length taken from buffer_mark, root offset,
   identifier, padding so that the vector DATA is aligned): given a root that is valid inside the nested buffer's own window
   [emit_start, buffer_mark), the emitted vector (a) is a nested buffer of the parent - decoded in the memory restricted to the
   vector, i.e. no reference leaves it -, (b) copied out decodes on its own as a buffer of the nested root type, (c) starts
   at a virtual address that is a multiple of the nested buffer's alignment al = max(given alignment, 4, block alignment), and
   the builder's min_align is raised to al (the parent's exit_frame keeps the maximum). One nesting step; the whole-build
   induction that supplies the window-validity of the root is what remains. *)
Theorem C15_nested_header_partial : forall n Sc st id b_align root align flags R v ref es st',
  st_ok st -> ma_ok st -> pow2 align -> min_align st <= align ->
  balign_ok b_align -> balign_ok (block_align st) -> in_u32 id ->
  Z.land flags 1 <> 0 -> Z.land flags 2 = 0 ->
  e_start st <= root < 0 -> e_start st <= buffer_mark st <= 0 ->
  (forall o ds, org_ok st (lvl_align st) o ds ->
     obj_holds n Sc (root_oty R) v (restrict (vmem st) (e_start st) (buffer_mark st)) o ds (root - o)) ->
  create_buffer st id b_align root align flags = Some (ref, es, st') -> small st' ->
  let al := min_align st' in
  let nb := ref + 4 in
  st_ok st' /\ e_start st' = ref /\ e_end st' = e_end st /\ pow2 al /\ 4 <= al /\ align <= al /\
  nb mod al = 0 /\ ref mod 4 = 0 /\
  (forall o ds al', org_ok st' al o ds ->
     dec_nested (dec_table n Sc) (vmem st') o ds R al' (ref - o) = Some (VNested v)) /\
  (forall ext, mem_has (vmem st') nb ext -> lenZ ext = buffer_mark st - nb ->
     decode_root n Sc R false ext = Some v).
Proof. exact create_buffer_nested. Qed.
Print Assumptions C15_nested_header_partial.

(* Embedding existing bytes (flatcc_builder_embed_buffer), one call, at ANY depth >= 1: whenever a frame is open
   (level > 0) - in particular directly inside the open top-level buffer, where the nest id is 0 - the call makes exactly one
   emitter call, at the front: ubyte vector length (bytes + padding), the bytes, padding. The bytes start 4 above the
   returned reference, at a multiple of al = max(align, 4, block alignment) in the builder's address space (with the
   with_size flag the length word itself is at that multiple: it doubles as the size prefix), min_align is raised to al
   (the enclosing buffers keep the maximum) and the parent's end is left alone.  Before
   fixes/C15-embed-buffer-inside-top-level-buffer.patch the C code tested nest_id != 0 instead and the statement failed at
   depth 1 (no length word, end of the parent padded). *)
Theorem C15_embed_buffer_nested : forall st b_align data align flags ref es st',
  st_ok st -> ma_ok st -> pow2 align -> balign_ok b_align -> balign_ok (block_align st) ->
  0 < level st ->
  embed_buffer st b_align data align flags = Some (ref, es, st') -> small st' ->
  let al := embed_align st align b_align in
  let ws := negb (Z.land flags 2 =? 0) in
  exists pad, 0 <= pad < al /\
    step st st' /\ pow2 al /\ 4 <= al /\ align <= al /\ al <= min_align st' /\
    es = [{| em_off := ref; em_bytes := le32 (lenZ data + pad) ++ data ++ zeros pad |}] /\
    e_start st' = ref /\ ref + 4 + lenZ data + pad = e_start st /\ e_end st' = e_end st /\ back st' = back st /\
    front st' = le32 (lenZ data + pad) ++ data ++ zeros pad ++ front st /\
    mrd32 (vmem st') ref = Some (lenZ data + pad) /\ mem_has (vmem st') (ref + 4) data /\
    (if ws then ref else ref + 4) mod al = 0 /\ ref mod 4 = 0.
Proof. exact embed_buffer_nested. Qed.
Print Assumptions C15_embed_buffer_nested.

(* every start_buffer opens a frame, so the hypothesis [0 < level st] holds inside every open buffer; for the first buffer
   of a builder the nest id is 0 all the same (what the old test looked at) *)
Theorem C15_embed_level_inside_buffer : forall st id ba fl,
  level (start_buffer st id ba fl) = level st + 1 /\ 0 < level (start_buffer st id ba fl).
Proof. exact level_start_buffer. Qed.
Print Assumptions C15_embed_level_inside_buffer.

Theorem C15_embed_first_buffer_nest_id : forall id ba fl,
  nest_id (start_buffer init_state id ba fl) = 0 /\ is_top_buffer (start_buffer init_state id ba fl) = true.
Proof. exact nest_id_first_buffer. Qed.
Print Assumptions C15_embed_first_buffer_nest_id.

(* Without a parent (level 0) - the documented top-level behaviour, unchanged: the end is padded first, then the bytes are
   emitted as they are, no size field header, start at a multiple of al. *)
Theorem C15_embed_buffer_no_parent : forall st b_align data align flags ref es st',
  st_ok st -> ma_ok st -> cache_ok st -> pow2 align -> balign_ok b_align -> balign_ok (block_align st) ->
  level st = 0 ->
  embed_buffer st b_align data align flags = Some (ref, es, st') -> small st' ->
  let al := embed_align st align b_align in
  let ws := negb (Z.land flags 2 =? 0) in
  exists pad, 0 <= pad < al /\
    step st st' /\ pow2 al /\ 4 <= al /\ align <= al /\ al <= min_align st' /\
    e_start st' = ref /\ ref + lenZ data + pad = e_start st /\ e_end st <= e_end st' < e_end st + al /\
    mem_has (vmem st') ref data /\
    (if ws then ref - 4 else ref) mod al = 0.
Proof. exact embed_buffer_top. Qed.
Print Assumptions C15_embed_buffer_no_parent.

(* hypotheses satisfiable at depth 1: the replay of the fix (32 byte buffer with a 16-aligned struct root embedded directly
   inside the top-level buffer: vector length 32 at -36, bytes at -32, the parent reports 16, nothing at the end) *)
Theorem C15_embed_depth1_example :
  nest_id ex_state = 0 /\ level ex_state = 1 /\ st_ok ex_state /\ ma_ok ex_state /\
  exists st', embed_buffer ex_state 0 ex_data 16 0 = Some (-36, [{| em_off := -36; em_bytes := le32 32 ++ ex_data |}], st') /\
              min_align st' = 16 /\ e_end st' = 0 /\ small st'.
Proof. exact embed_depth1_example. Qed.
Print Assumptions C15_embed_depth1_example.

(* Full statements not yet proved (decided by checks/c15.py on every run):
   nested_self_contained : wt_script with a nested value n at field f -> the bytes nb of the ubyte vector satisfy
                           decode_root S_nested nb = Some n (plain) / as a size-prefixed buffer from the length field (with_size);
   nested_aligned        : the nested start offset is a multiple of the largest alignment used inside nb;
   parent_align_ge       : buffer_alignment parent >= that alignment;
   no_shared_vtable      : every vtable reference of nb lies inside nb (nest_id keyed cache). *)
