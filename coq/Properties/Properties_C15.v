(* C15 - Nested buffers are self-contained and correctly aligned.
   Only statements, each closed by [exact] of a lemma proved in Builder/*.v. *)
From Flatcc.Format Require Import Schema Spec.
From Flatcc.Builder Require Import EmitModel BuilderBasics.
Local Open Scope Z_scope.

Theorem C15_le16_value : forall x, 0 <= x < 65536 -> x mod 256 + 256 * ((x / 256) mod 256) = x.
Proof. exact le16_value. Qed.
Print Assumptions C15_le16_value.
