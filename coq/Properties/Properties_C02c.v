(* C02 / C03 - the whole-build theorems extended to UNION VECTORS (and nested buffers).
   Only statements, each closed by [exact] of a lemma proved in Builder/Nested*.v, Builder/UnionVec*.v.
   [xwt_script] (Builder/NestedScript.v) extends Script.wt_script by
     - CUnionVec elems  (flatcc_builder_create_union_vector_direct: the value vector - an offset vector with 0 for NONE - and
       the type vector), elements table / struct / string members or NONE, and table fields FUnionVec (type vector under
       id - 1, value vector under id: XWF_unionvec),
     - nested buffer blocks and FNestedTable / FNestedStruct fields (C15, Properties_C15b.v).
   N is the list of nested buffers of the script ([] for a script without nested blocks). *)
From Flatcc.Format Require Import Schema Spec SpecProofs.
From Flatcc.Builder Require Import EmitModel VMem Objects Leaves OffVec TableLayout Table Buffer Script ScriptProofs Example.
From Flatcc.Builder Require Import NestedBase NestedLeaves UnionVecLeaves NestedTable NestedBuffer NestedScript NestedBuild NestedCount NestedExample NestedEmbed.
Local Open Scope Z_scope.

Theorem C02_build_wf_union_vectors : forall Sc sc R v ws n N regs ems st,
  xwt_script Sc sc R v ws n N -> run init_state [] sc = Some (regs, ems, st) -> small st ->
  wf n Sc R ws (buffer_bytes st) = true /\
  wf_aligned n Sc R ws (buffer_alignment st) (buffer_bytes st) = true /\
  pow2 (buffer_alignment st) /\ 4 <= buffer_alignment st.
Proof. exact nested_build_wf. Qed.
Print Assumptions C02_build_wf_union_vectors.

Theorem C03_build_decode_union_vectors : forall Sc sc R v ws n N regs ems st,
  xwt_script Sc sc R v ws n N -> run init_state [] sc = Some (regs, ems, st) -> small st ->
  decode_root n Sc R ws (buffer_bytes st) = Some v.
Proof. exact nested_build_decode. Qed.
Print Assumptions C03_build_decode_union_vectors.

(* the extended typing contains the create-level typing of Script.v: C02_build_wf / C03_build_decode are instances *)
Theorem C02_extends_create_level : forall Sc sc R v ws n, wt_script Sc sc R v ws n -> xwt_script Sc sc R v ws n [].
Proof. exact xwt_of_wt. Qed.
Print Assumptions C02_extends_create_level.

(* create_union_vector_direct: both halves are valid objects of the current buffer level; together they decode as the
   union vector (UnionVecLeaves.dec_uvec_join). *)
Theorem C02_create_union_vector : forall n Sc st u es refs tref vref ems st',
  st_ok st -> ma_ok st -> win_ok st ->
  Forall2 (uelem_ok n Sc st u) refs es ->
  create_union_vector st (codes_of es) refs = Some (tref, vref, ems, st') -> small st' ->
  step st st' /\ e_start st' = tref /\ tref < vref /\ vref < e_start st /\ e_end st' = e_end st /\ vcache st' = vcache st /\
  xvalid n Sc st' (lvl_align st') (XUVal u) vref (VUnionVec es) /\
  xvalid n Sc st' (lvl_align st') XUType tref (VVec (code_elems (codes_of es))).
Proof. exact xcreate_union_vector. Qed.
Print Assumptions C02_create_union_vector.

Theorem C02_union_vector_join : forall n Sc m o ds u es tp vp,
  utype_holds (codes_of es) m o ds tp -> uval_holds n Sc u es m o ds vp ->
  dec_uvec (dec_table n Sc) Sc m o ds u tp vp = Some (VUnionVec es).
Proof. exact dec_uvec_join. Qed.
Print Assumptions C02_union_vector_join.

(* satisfiable: nx_script has a union vector [T0 member; NONE; string member] in its root table *)
Example C02_example_union_vector : exists regs ems st,
  run init_state [] nx_script = Some (regs, ems, st) /\ small st /\
  xwt_script nx_schema nx_script (RTable 2) nx_value false 3%nat nx_nested /\
  wf 3 nx_schema (RTable 2) false (buffer_bytes st) = true /\
  decode_root 3 nx_schema (RTable 2) false (buffer_bytes st) = Some nx_value.
Proof.
  destruct nx_runs as (regs & ems & st & E & Hsm & _). exists regs, ems, st.
  destruct (nested_build_wf _ _ _ _ _ _ _ _ _ _ nx_wt E Hsm) as (Hw & _).
  repeat split; try assumption; [exact nx_wt | eapply nested_build_decode; eauto using nx_wt].
Qed.
Print Assumptions C02_example_union_vector.
