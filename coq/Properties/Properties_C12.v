(* C12 - Emit calls form one contiguous stream and the default emitter returns it intact.
   Only statements, each closed by [exact] of a lemma proved in Emitter/EmitterProofs.v (part A: the page ring of
   src/runtime/emitter.c refines a double-ended byte stream) or Emitter/EmitProofs.v (part B: emit_front / emit_back
   of src/runtime/builder.c). P is the page size: any positive even number; alloc is the allocator oracle. *)
From Flatcc.Emitter Require Import EmitterModel EmitterProofs EmitModel EmitProofs.
Local Open Scope Z_scope.

(* ---------------------------------------------------------------- part A: the default emitter *)
(* For every history of emit calls (front: offset < 0, back: offset >= 0, any piece sizes, any number of pages), resets
   (each with any number of retained spare pages) and recycling of unused pages: the bytes between the cursors, read in address order across the pages in use, are the
   front pieces prepended and the back pieces appended; the first byte's virtual address (page_offset + cursor) is minus
   the number of front bytes; `used` (flatcc_emitter_get_buffer_size) is the length; capacity counts the pages. *)
Theorem C12_emitter_refines : forall P alloc, 0 < P -> P mod 2 = 0 ->
  forall h st, Forall wf_op h -> run P alloc est_init h = Some st ->
  abs P st = fst (spec h) /\ start_off st = snd (spec h) /\
  end_off st = snd (spec h) + zlen (fst (spec h)) /\
  used st = zlen (fst (spec h)) /\ buffer_size st = zlen (abs P st) /\
  cap st = P * (zlen (pages st) + zlen (spare st)).
Proof. exact emitter_refines. Qed.
Print Assumptions C12_emitter_refines.

(* The same, one call at a time: a front emit prepends concat iov, a back emit appends it. *)
Theorem C12_emitter_step_refines : forall P alloc, 0 < P -> P mod 2 = 0 ->
  forall h st iov off len st', Forall wf_op h -> run P alloc est_init h = Some st ->
  len = zlen (concat iov) -> emitter P alloc st iov off len = Some st' ->
  (off < 0 -> abs P st' = concat iov ++ abs P st /\ start_off st' = start_off st - len /\ end_off st' = end_off st) /\
  (0 <= off -> abs P st' = abs P st ++ concat iov /\ start_off st' = start_off st /\ end_off st' = end_off st + len) /\
  used st' = used st + len /\ used st' = zlen (abs P st').
Proof. exact emitter_step_refines. Qed.
Print Assumptions C12_emitter_step_refines.

(* The emitter returns -1 only when the allocator fails: the loops terminate (the fuel of the model is never
   exhausted) and no write leaves a page. *)
Theorem C12_emitter_total : forall P alloc, 0 < P -> P mod 2 = 0 -> (forall n, alloc n <> None) ->
  forall h, Forall wf_op h -> ~ Exists is_recycle h -> exists st, run P alloc est_init h = Some st.
Proof. exact emitter_total. Qed.
Print Assumptions C12_emitter_total.

(* flatcc_emitter_copy_buffer (with the pointer fix): too small a buffer -> null, nothing written; otherwise exactly
   the stream, read without leaving a page, and the caller's pointer (offset 0) comes back. *)
Theorem C12_copy_buffer_spec : forall P alloc, 0 < P -> P mod 2 = 0 ->
  forall h st size, Forall wf_op h -> run P alloc est_init h = Some st ->
  (size < used st -> copy_buffer P st size = CNull) /\
  (used st <= size -> pages st <> [] -> copy_buffer P st size = CBytes (abs P st) 0) /\
  (0 < used st -> pages st <> []).
Proof. exact copy_buffer_spec. Qed.
Print Assumptions C12_copy_buffer_spec.

(* The code as it stands returns the advanced pointer as soon as the buffer spans two pages (default page size). *)
Theorem C12_copy_returns_advanced_pointer_refuted :
  exists h st out r, Forall wf_op h /\
    run EMITTER_PAGE_SIZE (fun _ => Some []) est_init h = Some st /\
    copy_buffer_c EMITTER_PAGE_SIZE st (used st) = CBytes out r /\ out = abs EMITTER_PAGE_SIZE st /\ r <> 0.
Proof. exact copy_returns_advanced_pointer_refuted. Qed.
Print Assumptions C12_copy_returns_advanced_pointer_refuted.

(* flatcc_emitter_get_direct_buffer: the stream and its size exactly when one page is in use (front == back), else null. *)
Theorem C12_direct_buffer_spec : forall P alloc, 0 < P -> P mod 2 = 0 ->
  forall h st, Forall wf_op h -> run P alloc est_init h = Some st ->
  (length (pages st) = 1%nat -> direct_buffer st = (DBytes (abs P st), used st)) /\
  (length (pages st) <> 1%nat -> fst (direct_buffer st) = DNull).
Proof. exact direct_buffer_spec. Qed.
Print Assumptions C12_direct_buffer_spec.

(* Reset empties the stream and leaves at most the front page in use.  How many spare pages the reset keeps is a pool
   policy of the implementation, an oracle input [keep] of the model: for EVERY value of it, every later history refines
   from empty. *)
Theorem C12_reset_reuse : forall P alloc, 0 < P -> P mod 2 = 0 ->
  forall h0 st0 keep, Forall wf_op h0 -> run P alloc est_init h0 = Some st0 ->
  abs P (reset P keep st0) = [] /\ used (reset P keep st0) = 0 /\ start_off (reset P keep st0) = 0 /\
  (length (pages (reset P keep st0)) <= 1)%nat /\
  forall h st, Forall wf_op h -> run P alloc (reset P keep st0) h = Some st ->
    abs P st = fst (spec h) /\ start_off st = snd (spec h) /\ used st = zlen (fst (spec h)).
Proof. exact reset_reuse. Qed.
Print Assumptions C12_reset_reuse.

(* The pool policy is unobservable: resets retaining different numbers of pages agree, after any common later history,
   on the stream, its size, its start address and what copy_buffer returns. *)
Theorem C12_reset_policy_unobservable : forall P alloc, 0 < P -> P mod 2 = 0 ->
  forall h0 st0 k1 k2 h st1 st2, Forall wf_op h0 -> run P alloc est_init h0 = Some st0 -> Forall wf_op h ->
  run P alloc (reset P k1 st0) h = Some st1 -> run P alloc (reset P k2 st0) h = Some st2 ->
  abs P st1 = abs P st2 /\ used st1 = used st2 /\ start_off st1 = start_off st2 /\
  forall size, used st1 <= size -> pages st1 <> [] -> pages st2 <> [] -> copy_buffer P st1 size = copy_buffer P st2 size.
Proof. exact reset_policy_unobservable. Qed.
Print Assumptions C12_reset_policy_unobservable.

(* The generated page size satisfies the hypotheses. *)
Theorem C12_page_size_ok : 0 < EMITTER_PAGE_SIZE /\ EMITTER_PAGE_SIZE mod 2 = 0.
Proof. exact page_size_hyps. Qed.
Print Assumptions C12_page_size_ok.

(* ---------------------------------------------------------------- part B: the builder's emit calls *)
(* For every sequence of emissions through the call sites of emit_front / emit_back (any sizes, paddings and emitter
   verdicts; the history ends at the first failure): each emit call has 0 < count <= FLATCC_IOV_COUNT_MAX, no empty
   piece, pieces summing to len; front calls have offset < 0, offset + len = previous start (strictly decreasing);
   back calls start at 0, offset = previous end (strictly increasing).  Holds for any size guard in emit_front that
   rejects lengths above 2^32 - in particular for the fixed guard. *)
Theorem C12_emit_stream_ok : forall toolarge, rejects_above_4g toolarge ->
  forall h, Forall (fun x => valid_site (fst x)) h -> stream_ok 0 0 (run_sites toolarge bst_init h).
Proof. exact emit_stream_ok. Qed.
Print Assumptions C12_emit_stream_ok.

(* Reset and reuse (flatcc_builder_reset / flatcc_builder_custom_reset rewind emit_start and emit_end, whatever the
   emitter): the emit calls of every round form such a stream from a fresh origin 0. *)
Theorem C12_emit_stream_ok_rounds : forall toolarge, rejects_above_4g toolarge ->
  forall rounds, Forall (Forall (fun x => valid_site (fst x))) rounds ->
  Forall (stream_ok 0 0) (run_rounds toolarge bst_init rounds).
Proof. exact emit_stream_ok_rounds. Qed.
Print Assumptions C12_emit_stream_ok_rounds.

Theorem C12_fixed_guard_ok : rejects_above_4g toolarge_fixed.
Proof. exact fixed_rejects. Qed.
Print Assumptions C12_fixed_guard_ok.

(* The guard as written (len - 16 > UOFFSET_MAX) lets 2^32+1 .. 2^32+15 through and the reference is computed from
   the truncated length: create_string of 2^32-1 bytes is emitted at offset -4 with length 2^32+4. *)
Theorem C12_emit_front_len_wrap_refuted :
  exists h, Forall (fun x => valid_site (fst x)) h /\ ~ stream_ok 0 0 (run_sites toolarge_c bst_init h).
Proof. exact emit_front_len_wrap_refuted. Qed.
Print Assumptions C12_emit_front_len_wrap_refuted.

(* Every call site pushes at most four pieces; the inventory the source scan compares with is the model's. *)
Theorem C12_site_inventory :
  map (fun s => (Z.of_nat (length (site_pushes s)), true)) site_repr_max =
  map (fun x => (fst (fst x), true)) site_inventory /\
  map site_back site_repr = map snd site_inventory /\
  length site_repr = 9%nat.
Proof. exact site_inventory_ok. Qed.
Print Assumptions C12_site_inventory.
