(* C07 - Every accepted schema yields C code that compiles and encodes the right layout.
   Theorems about the layout RULES the compiler implements (semantics.c analyze_struct / fb_align /
   process_table id assignment), for all member lists and all field lists. That the generated C text
   carries these numbers and compiles is checked per schema by checks/c07.py (translation validation).
   Only statements here; proofs in Layout/LayoutProofs.v and Layout/FieldIdsProofs.v. *)
From Flatcc.Layout Require Import LayoutProofs FieldIdsProofs.
From Coq Require Import Permutation.
Local Open Scope Z_scope.

(* analyze_struct accepts exactly the legal declarations and computes exactly the independent rule:
   every offset the least aligned one not below the end of the previous member, alignment the maximum member
   alignment or the (not smaller, power of two, bounded) force_align, size the padded end. *)
Theorem C07_struct_layout_decides : forall c force ms L, cfg_ok c -> Forall wf_member ms ->
  (struct_layout c force ms = Some L <-> rule_accepts c force ms /\ L = rule_layout force ms).
Proof. exact struct_layout_iff. Qed.
Print Assumptions C07_struct_layout_decides.

(* relational form: offsets aligned, in declaration order, disjoint, minimal; size the least multiple of the
   alignment covering the last member; alignment = max (or the forced value, at least every member's) *)
Theorem C07_layout_ok : forall c force ms L, cfg_ok c -> Forall wf_member ms ->
  struct_layout c force ms = Some L -> layout_rule force ms L.
Proof. exact struct_layout_ok. Qed.
Print Assumptions C07_layout_ok.

(* the rule determines the layout: no other offsets / size satisfy it *)
Theorem C07_layout_rule_unique : forall force ms L L', layout_rule force ms L -> layout_rule force ms L' ->
  (force = None -> l_align L = l_align L') -> L = L'.
Proof. exact layout_rule_unique. Qed.
Print Assumptions C07_layout_rule_unique.

(* index form of [placed]: member i is aligned, inside the struct, minimal after member i-1, and lies wholly
   before every later member *)
Theorem C07_placed_members : forall e ms os e', placed e ms os e' -> Forall wf_member ms ->
  forall i m o, nth_error ms i = Some m -> nth_error os i = Some o ->
    e <= o /\ o mod m_align m = 0 /\ o + msize m <= e' /\
    (forall y, y mod m_align m = 0 ->
       (match i with O => e | S k => match nth_error os k, nth_error ms k with Some po, Some pm => po + msize pm | _, _ => 0 end end) <= y -> o <= y) /\
    forall j m2 o2, (i < j)%nat -> nth_error ms j = Some m2 -> nth_error os j = Some o2 -> o + msize m <= o2.
Proof. exact placed_nth. Qed.
Print Assumptions C07_placed_members.

(* an accepted struct is a legal member of another struct (nested structs, fixed arrays of structs) *)
Theorem C07_struct_is_member : forall c force ms L n, cfg_ok c -> Forall wf_member ms ->
  struct_layout c force ms = Some L -> 1 <= n < 2 ^ 32 -> wf_member (as_member L n).
Proof. exact struct_member_wf. Qed.
Print Assumptions C07_struct_is_member.

(* all structs of a schema, in dependency order: every accepted one obeys the rule w.r.t. the layouts of the
   structs it embeds *)
Theorem C07_schema_structs_ok : forall c, cfg_ok c -> forall ds env, env_wf env ->
  Forall (fun d => Forall smember_ok (sd_members d)) ds ->
  env_wf (layout_structs c env ds) /\
  forall k d L, nth_error ds k = Some d -> nth_error (layout_structs c env ds) (length env + k) = Some (Some L) ->
    exists ms, Forall2 (resolved (layout_structs c env ds)) (sd_members d) ms /\ Forall wf_member ms /\
               struct_layout c (sd_force d) ms = Some L /\ layout_rule (sd_force d) ms L.
Proof. exact layout_structs_ok. Qed.
Print Assumptions C07_schema_structs_ok.

(* fb_align is rounding up to a multiple, for power-of-two alignments without uint64 wrap *)
Theorem C07_fb_align_rounds_up : forall s a, is_pow2 a -> 0 <= s -> s + a - 1 < 2 ^ 64 ->
  fb_align s a = align_up s a /\ least_aligned_ge s a (align_up s a).
Proof. exact fb_align_rounds_up. Qed.
Print Assumptions C07_fb_align_rounds_up.

(* field ids: the compiler accepts exactly when no field has an id attribute (ids = declaration order, a union
   takes two, type first) or all have and ids + hidden type ids use every slot of [0, count) once *)
Theorem C07_ids_decides : forall vt fs r n, vt <= 65535 -> nslots fs <= vt ->
  (assign_ids vt fs = Some (r, n) <-> ids_spec fs r n).
Proof. exact assign_ids_iff. Qed.
Print Assumptions C07_ids_decides.

(* accepted => bijection onto [0, count), each union's type field at id - 1 *)
Theorem C07_ids_ok : forall vt fs r n, vt <= 65535 -> nslots fs <= vt -> assign_ids vt fs = Some (r, n) ->
  n = nslots fs /\ Permutation (slots r) (zrange n) /\ Forall2 (fun f p => p = pair_of f (fst p)) fs r.
Proof. exact assign_ids_ok. Qed.
Print Assumptions C07_ids_ok.

Theorem C07_too_many_fields_rejected : forall vt fs, 0 <= vt -> vt < Z.of_nat (length fs) -> assign_ids vt fs = None.
Proof. exact too_many_fields_rejected. Qed.
Print Assumptions C07_too_many_fields_rejected.

(* the hypotheses are satisfiable; concrete instances *)
Definition c_default : cfg := {| struct_max := 65535; force_align_max := 256 |}.
Example C07_cfg_default_ok : cfg_ok c_default.
Proof. unfold cfg_ok, c_default; simpl. lia. Qed.
(* struct Inner (force_align: 8) { a:byte; b:int; }  then  struct S { x:ubyte; i:Inner; arr:[short:3]; d:double; } *)
Example C07_example_layout :
  layout_structs c_default [] [ {| sd_force := Some 8; sd_members := [SScalar 1 1; SScalar 4 1] |};
                                {| sd_force := None; sd_members := [SScalar 1 1; SRef 0 1; SScalar 2 3; SScalar 8 1] |} ]
  = [ Some {| l_offsets := [0; 4]; l_size := 8; l_align := 8 |};
      Some {| l_offsets := [0; 8; 16; 24]; l_size := 32; l_align := 8 |} ].
Proof. vm_compute. reflexivity. Qed.
Example C07_example_ids_declared :
  assign_ids 65534 [ {| f_id := None; f_union := false |}; {| f_id := None; f_union := true |}; {| f_id := None; f_union := false |} ]
  = Some ([(0, None); (2, Some 1); (3, None)], 4).
Proof. vm_compute. reflexivity. Qed.
Example C07_example_ids_explicit :
  assign_ids 65534 [ {| f_id := Some 3; f_union := false |}; {| f_id := Some 1; f_union := true |}; {| f_id := Some 2; f_union := false |} ]
  = Some ([(3, None); (1, Some 0); (2, None)], 4)
  /\ assign_ids 65534 [ {| f_id := Some 0; f_union := true |} ] = None
  /\ assign_ids 65534 [ {| f_id := Some 0; f_union := false |}; {| f_id := Some 2; f_union := false |} ] = None
  /\ assign_ids 65534 [ {| f_id := Some 1; f_union := false |}; {| f_id := Some 2; f_union := true |}; {| f_id := Some 0; f_union := false |} ] = None.
Proof. vm_compute. repeat split; reflexivity. Qed.
