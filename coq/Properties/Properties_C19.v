(* C19 - Number to text and back is exact and range-checked.
   Only statements, each closed by [exact] of a lemma proved in Num/NumProofs.v or Num/FloatProofs.v.
   Models: Num/NumModel.v (pprintint.h, pparseint.h, flatcc_json_parser_integer, coerce_<type>, typed JSON
   scalar parsers) and Num/FloatOracle.v (exact-rational rounding oracle; Grisu3 itself is not modelled).
   All integer theorems hold for ALL values of the type / all digit strings of any length. *)
From Flatcc.Num Require Import NumModel NumProofs FloatOracle FloatProofs.
Local Open Scope Z_scope.

(* ------------------------------------------------------------------ the reference: canonical decimal text *)

(* [decimal n] consists of digits, denotes n, has no leading zero ("0" for 0) ... *)
Theorem C19_decimal_canonical : forall n, 0 <= n -> canon n (decimal n).
Proof. exact decimal_canon. Qed.
Print Assumptions C19_decimal_canonical.

(* ... and is the only such text. *)
Theorem C19_canonical_unique : forall n l l', canon n l -> canon n l' -> l = l'.
Proof. exact canon_unique. Qed.
Print Assumptions C19_canonical_unique.

(* ------------------------------------------------------------------ printing (pprintint.h) *)
(* print_uintN n returns the number of characters and leaves the canonical decimal text and a NUL at p;
   the model follows the digit count selection, the switch fall-through and the digit-pair stages. *)

Theorem C19_print_uint8 : forall n, 0 <= n < 256 ->
  print_uint8 n = (Z.of_nat (length (decimal n)), decimal n ++ [0]).
Proof. exact print_uint8_spec. Qed.
Print Assumptions C19_print_uint8.

Theorem C19_print_uint16 : forall n, 0 <= n < 65536 ->
  print_uint16 n = (Z.of_nat (length (decimal n)), decimal n ++ [0]).
Proof. exact print_uint16_spec. Qed.
Print Assumptions C19_print_uint16.

Theorem C19_print_uint32 : forall n, 0 <= n < 4294967296 ->
  print_uint32 n = (Z.of_nat (length (decimal n)), decimal n ++ [0]).
Proof. exact print_uint32_spec. Qed.
Print Assumptions C19_print_uint32.

Theorem C19_print_uint64 : forall n, 0 <= n < 18446744073709551616 ->
  print_uint64 n = (Z.of_nat (length (decimal n)), decimal n ++ [0]).
Proof. exact print_uint64_spec. Qed.
Print Assumptions C19_print_uint64.

(* signed: "-" and the magnitude, including the minimum of every width *)
Theorem C19_print_int8 : forall n, -128 <= n < 128 ->
  print_int8 n = (Z.of_nat (length (sdecimal n)), sdecimal n ++ [0]).
Proof. exact print_int8_spec. Qed.
Print Assumptions C19_print_int8.

Theorem C19_print_int16 : forall n, -32768 <= n < 32768 ->
  print_int16 n = (Z.of_nat (length (sdecimal n)), sdecimal n ++ [0]).
Proof. exact print_int16_spec. Qed.
Print Assumptions C19_print_int16.

Theorem C19_print_int32 : forall n, -2147483648 <= n < 2147483648 ->
  print_int32 n = (Z.of_nat (length (sdecimal n)), sdecimal n ++ [0]).
Proof. exact print_int32_spec. Qed.
Print Assumptions C19_print_int32.

Theorem C19_print_int64 : forall n, -9223372036854775808 <= n < 9223372036854775808 ->
  print_int64 n = (Z.of_nat (length (sdecimal n)), sdecimal n ++ [0]).
Proof. exact print_int64_spec. Qed.
Print Assumptions C19_print_int64.

Example C19_print_int64_min :
  print_int64 (-9223372036854775808) =
    (20, [45;57;50;50;51;51;55;50;48;51;54;56;53;52;55;55;53;56;48;56;0]).
Proof. vm_compute. reflexivity. Qed.

(* ------------------------------------------------------------------ the accumulation loop *)

(* accumulating x * 10 + d (uint64_t, with the exact wrap test) over the canonical decimal of n gives n,
   for every n < 2^64 *)
Theorem C19_parse_canonical : forall n rest, 0 <= n < 18446744073709551616 -> nondigit_head rest ->
  acc_loop ovf_fixed (decimal n ++ rest) 0 0 = Some (n, Z.of_nat (length (decimal n)), rest).
Proof. exact parse_canonical. Qed.
Print Assumptions C19_parse_canonical.

(* on any digit string: the value if it is below 2^64, "overflow" otherwise (never a wrapped value) *)
Theorem C19_accumulate_exact : forall ds rest, Forall digitc ds -> nondigit_head rest ->
  acc_loop ovf_fixed (ds ++ rest) 0 0 =
    if 18446744073709551616 <=? dval ds then None else Some (dval ds, Z.of_nat (length ds), rest).
Proof. exact acc_loop_fixed0. Qed.
Print Assumptions C19_accumulate_exact.

(* ------------------------------------------------------------------ flatcc_json_parser_integer *)

(* [sign] digits [rest]: value and sign when value < 2^64, range error otherwise; a following '.', 'e', 'E'
   is refused (integers are never accepted from fractional or exponent notation) *)
Theorem C19_json_integer_spec : forall neg ds rest, ds <> [] -> Forall digitc ds -> nondigit_head rest ->
  json_integer (sign_text neg ++ ds ++ rest) =
    if 18446744073709551616 <=? dval ds then JErr ErrRange
    else if float_head rest then JErr ErrFloatUnexpected
    else JOk neg (dval ds) (Z.of_nat (length ds) + sign_len neg).
Proof. exact json_integer_spec. Qed.
Print Assumptions C19_json_integer_spec.

(* The test found in the pinned sources (`x0 > x` after x = x * 10 + d) does not have this property:
   "30000000000000000000" (>= 2^64) is returned as 11553255926290448384. *)
Theorem C19_json_integer_wrap_refuted :
  exists ds, Forall digitc ds /\ 18446744073709551616 <= dval ds /\
             json_integer_current ds = JOk false 11553255926290448384 20.
Proof. exact json_integer_wrap_refuted. Qed.
Print Assumptions C19_json_integer_wrap_refuted.

Theorem C19_no_fraction_or_exponent : forall neg ds rest v k,
  ds <> [] -> Forall digitc ds -> nondigit_head rest -> float_head rest = true ->
  json_integer (sign_text neg ++ ds ++ rest) <> JOk neg v k.
Proof. exact no_fraction_or_exponent. Qed.
Print Assumptions C19_no_fraction_or_exponent.

(* not a number at all: nothing consumed, no error (the caller then tries a symbolic constant) *)
Theorem C19_json_integer_unmatched : forall c rest, c <> 45 -> ~ digitc c -> json_integer (c :: rest) = JUnmatched.
Proof. exact json_integer_unmatched. Qed.
Print Assumptions C19_json_integer_unmatched.

(* transcribed as found: a sign without digits is taken as negative zero (outside the property's statement) *)
Theorem C19_json_integer_lone_minus : forall rest, nondigit_head rest -> float_head rest = false ->
  json_integer (45 :: rest) = JOk true 0 1.
Proof. exact json_integer_lone_minus. Qed.
Print Assumptions C19_json_integer_lone_minus.

(* ------------------------------------------------------------------ coercion to the field type *)
(* (sign, magnitude) as produced by the integer parser, 0 <= magnitude < 2^64. A value is stored iff the
   denoted value lies within the target type, and then it is the denoted value. *)

Theorem C19_coerce_int8 : forall neg value v, 0 <= value < 18446744073709551616 ->
  (coerce_int8 neg value = COk v <-> v = sval neg value /\ -128 <= v <= 127).
Proof. exact (coerce_signed_iff coerce_int8 _ _ coerce_int8_spec). Qed.
Print Assumptions C19_coerce_int8.
Theorem C19_coerce_int16 : forall neg value v, 0 <= value < 18446744073709551616 ->
  (coerce_int16 neg value = COk v <-> v = sval neg value /\ -32768 <= v <= 32767).
Proof. exact (coerce_signed_iff coerce_int16 _ _ coerce_int16_spec). Qed.
Print Assumptions C19_coerce_int16.
Theorem C19_coerce_int32 : forall neg value v, 0 <= value < 18446744073709551616 ->
  (coerce_int32 neg value = COk v <-> v = sval neg value /\ -2147483648 <= v <= 2147483647).
Proof. exact (coerce_signed_iff coerce_int32 _ _ coerce_int32_spec). Qed.
Print Assumptions C19_coerce_int32.
Theorem C19_coerce_int64 : forall neg value v, 0 <= value < 18446744073709551616 ->
  (coerce_int64 neg value = COk v <-> v = sval neg value /\ -9223372036854775808 <= v <= 9223372036854775807).
Proof. exact (coerce_signed_iff coerce_int64 _ _ coerce_int64_spec). Qed.
Print Assumptions C19_coerce_int64.

(* unsigned targets refuse every signed input (also "-0") and every magnitude above MAX *)
Theorem C19_coerce_uint8 : forall neg value, 0 <= value < 18446744073709551616 ->
  coerce_uint8 neg value = if neg then CErr true else if value <=? 255 then COk value else CErr false.
Proof. exact coerce_uint8_spec. Qed.
Print Assumptions C19_coerce_uint8.
Theorem C19_coerce_uint16 : forall neg value, 0 <= value < 18446744073709551616 ->
  coerce_uint16 neg value = if neg then CErr true else if value <=? 65535 then COk value else CErr false.
Proof. exact coerce_uint16_spec. Qed.
Print Assumptions C19_coerce_uint16.
Theorem C19_coerce_uint32 : forall neg value, 0 <= value < 18446744073709551616 ->
  coerce_uint32 neg value = if neg then CErr true else if value <=? 4294967295 then COk value else CErr false.
Proof. exact coerce_uint32_spec. Qed.
Print Assumptions C19_coerce_uint32.
Theorem C19_coerce_uint64 : forall neg value,
  coerce_uint64 neg value = if neg then CErr true else COk value.
Proof. exact coerce_uint64_spec. Qed.
Print Assumptions C19_coerce_uint64.

(* ------------------------------------------------------------------ typed JSON scalar parsers *)
(* flatcc_json_parser_<type> on [sign] digits [rest] for digit strings of ANY length:
   range error when the magnitude is >= 2^64, float-unexpected before '.', 'e', 'E', otherwise the denoted
   value iff it lies in the type, else a range error. No wrapped or truncated value is ever produced. *)

Theorem C19_json_int8 : forall neg ds rest, ds <> [] -> Forall digitc ds -> nondigit_head rest ->
  json_int8 (sign_text neg ++ ds ++ rest) = json_signed_outcome (-128) 127 neg ds rest.
Proof. exact json_int8_spec. Qed.
Print Assumptions C19_json_int8.
Theorem C19_json_int16 : forall neg ds rest, ds <> [] -> Forall digitc ds -> nondigit_head rest ->
  json_int16 (sign_text neg ++ ds ++ rest) = json_signed_outcome (-32768) 32767 neg ds rest.
Proof. exact json_int16_spec. Qed.
Print Assumptions C19_json_int16.
Theorem C19_json_int32 : forall neg ds rest, ds <> [] -> Forall digitc ds -> nondigit_head rest ->
  json_int32 (sign_text neg ++ ds ++ rest) = json_signed_outcome (-2147483648) 2147483647 neg ds rest.
Proof. exact json_int32_spec. Qed.
Print Assumptions C19_json_int32.
Theorem C19_json_int64 : forall neg ds rest, ds <> [] -> Forall digitc ds -> nondigit_head rest ->
  json_int64 (sign_text neg ++ ds ++ rest) =
    json_signed_outcome (-9223372036854775808) 9223372036854775807 neg ds rest.
Proof. exact json_int64_spec. Qed.
Print Assumptions C19_json_int64.
Theorem C19_json_uint8 : forall neg ds rest, ds <> [] -> Forall digitc ds -> nondigit_head rest ->
  json_uint8 (sign_text neg ++ ds ++ rest) = json_unsigned_outcome 255 neg ds rest.
Proof. exact json_uint8_spec. Qed.
Print Assumptions C19_json_uint8.
Theorem C19_json_uint16 : forall neg ds rest, ds <> [] -> Forall digitc ds -> nondigit_head rest ->
  json_uint16 (sign_text neg ++ ds ++ rest) = json_unsigned_outcome 65535 neg ds rest.
Proof. exact json_uint16_spec. Qed.
Print Assumptions C19_json_uint16.
Theorem C19_json_uint32 : forall neg ds rest, ds <> [] -> Forall digitc ds -> nondigit_head rest ->
  json_uint32 (sign_text neg ++ ds ++ rest) = json_unsigned_outcome 4294967295 neg ds rest.
Proof. exact json_uint32_spec. Qed.
Print Assumptions C19_json_uint32.
Theorem C19_json_uint64 : forall neg ds rest, ds <> [] -> Forall digitc ds -> nondigit_head rest ->
  json_uint64 (sign_text neg ++ ds ++ rest) = json_unsigned_outcome 18446744073709551615 neg ds rest.
Proof. exact json_uint64_spec. Qed.
Print Assumptions C19_json_uint64.

(* reading of the outcome functions: a stored value is the denoted one, within the type, not from float text *)
Theorem C19_signed_outcome_sound : forall lo hi neg ds rest v k,
  json_signed_outcome lo hi neg ds rest = JTOk v k ->
  v = sval neg (dval ds) /\ lo <= v <= hi /\ float_head rest = false.
Proof. exact json_signed_outcome_sound. Qed.
Print Assumptions C19_signed_outcome_sound.
Theorem C19_unsigned_outcome_sound : forall hi neg ds rest v k,
  json_unsigned_outcome hi neg ds rest = JTOk v k ->
  neg = false /\ v = dval ds /\ v <= hi /\ float_head rest = false.
Proof. exact json_unsigned_outcome_sound. Qed.
Print Assumptions C19_unsigned_outcome_sound.

(* ------------------------------------------------------------------ pparseint.h *)

Theorem C19_parse_integer_spec : forall neg ds rest, ds <> [] -> Forall digitc ds -> nondigit_head rest ->
  parse_integer (sign_text neg ++ ds ++ rest) =
    if 18446744073709551616 <=? dval ds then PRange neg
    else if fp_head rest then PInvalid
    else POk neg (dval ds) (Z.of_nat (length ds) + sign_len neg).
Proof. exact parse_integer_spec. Qed.
Print Assumptions C19_parse_integer_spec.

Theorem C19_parse_integer_wrap_refuted :
  exists ds, Forall digitc ds /\ 18446744073709551616 <= dval ds /\
             parse_integer_current ds = POk false 11553255926290448384 20.
Proof. exact parse_integer_wrap_refuted. Qed.
Print Assumptions C19_parse_integer_wrap_refuted.

Theorem C19_parse_int8 : forall neg ds rest, ds <> [] -> Forall digitc ds -> nondigit_head rest ->
  parse_int8 (sign_text neg ++ ds ++ rest) = parse_signed_outcome (-128) 127 neg ds rest.
Proof. exact parse_int8_spec. Qed.
Print Assumptions C19_parse_int8.
Theorem C19_parse_int16 : forall neg ds rest, ds <> [] -> Forall digitc ds -> nondigit_head rest ->
  parse_int16 (sign_text neg ++ ds ++ rest) = parse_signed_outcome (-32768) 32767 neg ds rest.
Proof. exact parse_int16_spec. Qed.
Print Assumptions C19_parse_int16.
Theorem C19_parse_int32 : forall neg ds rest, ds <> [] -> Forall digitc ds -> nondigit_head rest ->
  parse_int32 (sign_text neg ++ ds ++ rest) = parse_signed_outcome (-2147483648) 2147483647 neg ds rest.
Proof. exact parse_int32_spec. Qed.
Print Assumptions C19_parse_int32.
Theorem C19_parse_int64 : forall neg ds rest, ds <> [] -> Forall digitc ds -> nondigit_head rest ->
  parse_int64 (sign_text neg ++ ds ++ rest) =
    parse_signed_outcome (-9223372036854775808) 9223372036854775807 neg ds rest.
Proof. exact parse_int64_spec. Qed.
Print Assumptions C19_parse_int64.
Theorem C19_parse_uint8 : forall neg ds rest, ds <> [] -> Forall digitc ds -> nondigit_head rest ->
  parse_uint8 (sign_text neg ++ ds ++ rest) = parse_unsigned_outcome 255 neg ds rest.
Proof. exact parse_uint8_spec. Qed.
Print Assumptions C19_parse_uint8.
Theorem C19_parse_uint16 : forall neg ds rest, ds <> [] -> Forall digitc ds -> nondigit_head rest ->
  parse_uint16 (sign_text neg ++ ds ++ rest) = parse_unsigned_outcome 65535 neg ds rest.
Proof. exact parse_uint16_spec. Qed.
Print Assumptions C19_parse_uint16.
Theorem C19_parse_uint32 : forall neg ds rest, ds <> [] -> Forall digitc ds -> nondigit_head rest ->
  parse_uint32 (sign_text neg ++ ds ++ rest) = parse_unsigned_outcome 4294967295 neg ds rest.
Proof. exact parse_uint32_spec. Qed.
Print Assumptions C19_parse_uint32.
Theorem C19_parse_uint64 : forall neg ds rest, ds <> [] -> Forall digitc ds -> nondigit_head rest ->
  parse_uint64 (sign_text neg ++ ds ++ rest) = parse_unsigned_outcome 18446744073709551615 neg ds rest.
Proof. exact parse_uint64_spec. Qed.
Print Assumptions C19_parse_uint64.

(* ------------------------------------------------------------------ print then parse is the identity *)
(* [text_of (print n)] are the characters print left at p; [rest] is whatever follows, as long as it does
   not start with a digit or a float character. Both parsers, every width, every value. *)

Theorem C19_parse_print_uint8 : forall n rest, 0 <= n < 256 -> after_int_ok rest ->
  parse_uint8 (text_of (print_uint8 n) ++ rest) = TOk n (fst (print_uint8 n)).
Proof. exact parse_print_uint8. Qed.
Print Assumptions C19_parse_print_uint8.
Theorem C19_parse_print_uint16 : forall n rest, 0 <= n < 65536 -> after_int_ok rest ->
  parse_uint16 (text_of (print_uint16 n) ++ rest) = TOk n (fst (print_uint16 n)).
Proof. exact parse_print_uint16. Qed.
Print Assumptions C19_parse_print_uint16.
Theorem C19_parse_print_uint32 : forall n rest, 0 <= n < 4294967296 -> after_int_ok rest ->
  parse_uint32 (text_of (print_uint32 n) ++ rest) = TOk n (fst (print_uint32 n)).
Proof. exact parse_print_uint32. Qed.
Print Assumptions C19_parse_print_uint32.
Theorem C19_parse_print_uint64 : forall n rest, 0 <= n < 18446744073709551616 -> after_int_ok rest ->
  parse_uint64 (text_of (print_uint64 n) ++ rest) = TOk n (fst (print_uint64 n)).
Proof. exact parse_print_uint64. Qed.
Print Assumptions C19_parse_print_uint64.
Theorem C19_parse_print_int8 : forall n rest, -128 <= n < 128 -> after_int_ok rest ->
  parse_int8 (text_of (print_int8 n) ++ rest) = TOk n (fst (print_int8 n)).
Proof. exact parse_print_int8. Qed.
Print Assumptions C19_parse_print_int8.
Theorem C19_parse_print_int16 : forall n rest, -32768 <= n < 32768 -> after_int_ok rest ->
  parse_int16 (text_of (print_int16 n) ++ rest) = TOk n (fst (print_int16 n)).
Proof. exact parse_print_int16. Qed.
Print Assumptions C19_parse_print_int16.
Theorem C19_parse_print_int32 : forall n rest, -2147483648 <= n < 2147483648 -> after_int_ok rest ->
  parse_int32 (text_of (print_int32 n) ++ rest) = TOk n (fst (print_int32 n)).
Proof. exact parse_print_int32. Qed.
Print Assumptions C19_parse_print_int32.
Theorem C19_parse_print_int64 : forall n rest, -9223372036854775808 <= n < 9223372036854775808 -> after_int_ok rest ->
  parse_int64 (text_of (print_int64 n) ++ rest) = TOk n (fst (print_int64 n)).
Proof. exact parse_print_int64. Qed.
Print Assumptions C19_parse_print_int64.

Theorem C19_json_parse_print_uint8 : forall n rest, 0 <= n < 256 -> after_json_int_ok rest ->
  json_uint8 (text_of (print_uint8 n) ++ rest) = JTOk n (fst (print_uint8 n)).
Proof. exact json_parse_print_uint8. Qed.
Print Assumptions C19_json_parse_print_uint8.
Theorem C19_json_parse_print_uint16 : forall n rest, 0 <= n < 65536 -> after_json_int_ok rest ->
  json_uint16 (text_of (print_uint16 n) ++ rest) = JTOk n (fst (print_uint16 n)).
Proof. exact json_parse_print_uint16. Qed.
Print Assumptions C19_json_parse_print_uint16.
Theorem C19_json_parse_print_uint32 : forall n rest, 0 <= n < 4294967296 -> after_json_int_ok rest ->
  json_uint32 (text_of (print_uint32 n) ++ rest) = JTOk n (fst (print_uint32 n)).
Proof. exact json_parse_print_uint32. Qed.
Print Assumptions C19_json_parse_print_uint32.
Theorem C19_json_parse_print_uint64 : forall n rest, 0 <= n < 18446744073709551616 -> after_json_int_ok rest ->
  json_uint64 (text_of (print_uint64 n) ++ rest) = JTOk n (fst (print_uint64 n)).
Proof. exact json_parse_print_uint64. Qed.
Print Assumptions C19_json_parse_print_uint64.
Theorem C19_json_parse_print_int8 : forall n rest, -128 <= n < 128 -> after_json_int_ok rest ->
  json_int8 (text_of (print_int8 n) ++ rest) = JTOk n (fst (print_int8 n)).
Proof. exact json_parse_print_int8. Qed.
Print Assumptions C19_json_parse_print_int8.
Theorem C19_json_parse_print_int16 : forall n rest, -32768 <= n < 32768 -> after_json_int_ok rest ->
  json_int16 (text_of (print_int16 n) ++ rest) = JTOk n (fst (print_int16 n)).
Proof. exact json_parse_print_int16. Qed.
Print Assumptions C19_json_parse_print_int16.
Theorem C19_json_parse_print_int32 : forall n rest, -2147483648 <= n < 2147483648 -> after_json_int_ok rest ->
  json_int32 (text_of (print_int32 n) ++ rest) = JTOk n (fst (print_int32 n)).
Proof. exact json_parse_print_int32. Qed.
Print Assumptions C19_json_parse_print_int32.
Theorem C19_json_parse_print_int64 : forall n rest, -9223372036854775808 <= n < 9223372036854775808 -> after_json_int_ok rest ->
  json_int64 (text_of (print_int64 n) ++ rest) = JTOk n (fst (print_int64 n)).
Proof. exact json_parse_print_int64. Qed.
Print Assumptions C19_json_parse_print_int64.

(* the hypotheses are satisfiable: "-128" followed by "}" through the JSON int8 parser *)
Example C19_example_roundtrip :
  after_json_int_ok [125] /\ json_int8 (text_of (print_int8 (-128)) ++ [125]) = JTOk (-128) 4.
Proof. split; [split; reflexivity|vm_compute; reflexivity]. Qed.

(* ------------------------------------------------------------------ float oracle (used by the check) *)
(* [rounds_to f bits neg m e]: the decimal (-1)^neg * m * 10^e lies in the round-to-nearest-even interval of
   the finite bit pattern. Sanity theorems only; the C float code is judged by this oracle at run time. *)

Theorem C19_oracle_exact_int : forall f b neg M E, decode f b = Some (neg, M, E) -> 0 <= M -> 0 <= E ->
  rounds_to f b neg (M * 2 ^ E) 0 = true.
Proof. exact rounds_to_exact_int. Qed.
Print Assumptions C19_oracle_exact_int.

Theorem C19_oracle_exact_frac : forall f b neg M E, decode f b = Some (neg, M, E) -> 0 <= M -> E < 0 ->
  rounds_to f b neg (M * 5 ^ (- E)) E = true.
Proof. exact rounds_to_exact_frac. Qed.
Print Assumptions C19_oracle_exact_frac.

Theorem C19_oracle_sign : forall f b neg m e, rounds_to f b neg m e = true ->
  exists M E, decode f b = Some (neg, M, E).
Proof. exact rounds_to_sign. Qed.
Print Assumptions C19_oracle_sign.
