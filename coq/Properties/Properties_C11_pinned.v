(* C11 - statements about the code as it was PINNED (the full property is false of it) and concrete examples.
   Kept apart from Properties_C11.v: these are closed by computation on concrete values. *)
From Flatcc.Printer Require Import FlushModel PrintOps FlushProofs OpsProofs PrinterTheorems PinnedWitnesses.
Local Open Scope Z_scope.

(* fixed buffer of exactly the reserve: print_ex loops for any number of iterations *)
Theorem C11_print_ex_nonterminating_refuted :
  exists l, forall fuel, ex_loop CC fuel (check CC (init CC Fixed PRINT_RESERVE [])) l = None.
Proof. exact print_ex_nonterminating. Qed.
Print Assumptions C11_print_ex_nonterminating_refuted.

(* a chain of closing brackets longer than the reserve: table chain reserve + 6 deep (70 for 64), buffer of
   reserve + 5 * depth + 7 bytes (421) *)
Theorem C11_closing_run_exceeds_reserve_refuted :
  exists s',
    wfv PRINT_NUM_WRITE_MAX deep = true /\ PRINT_RESERVE <= deep_size /\
    run CC (root_ops ocfg_current F0 deep) (init CC Fixed deep_size []) = Some s' /\ viol s' = true /\
    chk CF 0 (root_ops ocfg_current F0 deep) = None.
Proof. exact closing_run_exceeds_reserve. Qed.
Print Assumptions C11_closing_run_exceeds_reserve_refuted.

(* element separators of union (and table) vectors are unchecked: forty NONE members, indentation 2 *)
Theorem C11_separator_run_exceeds_reserve_refuted :
  exists sz s',
    PRINT_RESERVE <= sz /\
    run CC (root_ops ocfg_current F2 nulls) (init CC Fixed sz []) = Some s' /\ viol s' = true /\
    chk CF 0 (root_ops ocfg_current F2 nulls) = None.
Proof. exact separator_run_exceeds_reserve. Qed.
Print Assumptions C11_separator_run_exceeds_reserve_refuted.

(* base64 in a growing (or fixed) buffer with 1..3 bytes left below the threshold never advances *)
Theorem C11_base64_no_progress_refuted :
  exists s l, md s = Dynamic /\ (exists pre, s = puts (init CC Dynamic (PRINT_RESERVE + 40) []) pre) /\
    forall fuel, b64_loop CC fuel s l = None.
Proof. exact base64_no_progress. Qed.
Print Assumptions C11_base64_no_progress_refuted.

(* ---- concrete examples ---- *)
Example C11_examples :
  wfv PRINT_NUM_WRITE_MAX (chain 98) = true /\ is_fieldlike (chain 98) = false /\
  no_perr (vops ocfg_fixed F2 0 PRINT_MAX_LEVELS (chain 98) ++ [PChar 10]) = true /\
  wfv PRINT_NUM_WRITE_MAX nulls = true /\
  (exists sl', chk CF 0 (root_ops ocfg_fixed F0 (chain 98)) = Some sl') /\
  option_map (fun s => (r_ret (observe s), r_viol (observe s)))
    (run CF (root_ops ocfg_fixed F0 (chain 70)) (init CF Fixed (PRINT_RESERVE + 356) [])) = Some (-1, false) /\
  option_map (fun s => (r_ret (observe s), r_viol (observe s)))
    (run CF (root_ops ocfg_fixed F0 (chain 70)) (init CF Fixed (PRINT_RESERVE + 428) [])) = Some (427, false).
Proof. vm_compute. repeat split; try reflexivity. eexists; reflexivity. Qed.

(* an oracle that does not restore the reserve (64 -> 100 < 64 + 64) gets the distinguished verdict; a good one
   (64 -> 160 -> 304, the growth-by-half policy) does not and yields the text *)
Example C11_oracle_verdict :
  option_map (fun s => r_obad (observe s)) (run CF (root_ops ocfg_fixed F0 (chain 20)) (init CF Dynamic 64 [100])) = Some true /\
  option_map (fun s => (r_obad (observe s), r_ret (observe s), r_orc_left (observe s)))
    (run CF (root_ops ocfg_fixed F0 (chain 20)) (init CF Dynamic 64 [160; 304])) = Some (false, 127, 0).
Proof. vm_compute. split; reflexivity. Qed.
