(* C15 - Nested buffers are self-contained and correctly aligned: the WHOLE-BUILD theorems.
   Only statements, each closed by [exact] of a lemma proved in Builder/Nested*.v, Builder/UnionVec*.v.

   Models: Builder/EmitModel.v (start_buffer / end_buffer frames, nest_id keyed vtable cache, buffer_mark, min_align
   save / restore, create_buffer with is_nested; tied to /repo on every run by checks/c15.py) and Format/Spec.v.
   Typing: Builder/NestedScript.v [xwt_script Sc sc R v ws n N]: a complete top-level build whose body may contain,
   at any depth, blocks  start_buffer; <objects of the nested buffer only>; end_buffer root  - the block leaves one
   object in the enclosing buffer, the ubyte vector, which tables store under FNestedTable / FNestedStruct fields.
   N lists every nested buffer the script builds: (register of its vector, root type, root value, depth bound).
   Hypotheses: the script is well typed, runs in the model, and the result stays below the builder's 2^31 byte limit.
   Covered: table and struct roots, any nesting depth, identical vtables in parent / child / siblings, any
   alignments and block alignments, identifiers, parent clustering on or off, parent plain or size-prefixed.
   NOT covered (see design.d/C15-proof.md): size-prefixed NESTED buffers (flag with_size on the nested level: what holds
   and what does not is shown on a computed instance, C15_nested_sized_view below), embed_buffer / create_buffer called
   directly with is_nested, cloning. *)
From Flatcc.Format Require Import Schema Spec SpecProofs.
From Flatcc.Builder Require Import EmitModel VMem Objects Leaves OffVec TableLayout Table Buffer Script ScriptProofs Example.
From Flatcc.Builder Require Import NestedBase NestedLeaves UnionVecLeaves NestedTable NestedBuffer NestedScript NestedBuild NestedCount NestedExample.
Local Open Scope Z_scope.

(* nested_self_contained Sc l (ri, Rn, vn, k) :=
     exists off ext, 4 <= off /\ sub l (off - 4) 4 = le32 (lenZ ext) /\ sub l off (lenZ ext) = ext /\
                     decode_root k Sc Rn false ext = Some vn /\ wf k Sc Rn false ext = true
   (sub l off len = firstn len (skipn off l)).
   Every nested buffer, cut out of the finished parent, is a complete FlatBuffer of the nested root type on its own
   and reads back the nested value: no reference leaves it, every vtable it uses lies inside it (a table of the
   parent or of a sibling with byte-identical vtable gets its own copy: the cache is keyed by nest_id, see
   NestedTable.xcache_ok / lvl_bound), and its elements are aligned relative to ITS start.  The parent decodes to the
   root value, in which the nested values appear under VNested. *)
Theorem C15_nested_self_contained : forall Sc sc R v ws n N regs ems st,
  xwt_script Sc sc R v ws n N -> run init_state [] sc = Some (regs, ems, st) -> small st ->
  decode_root n Sc R ws (buffer_bytes st) = Some v /\
  Forall (nested_self_contained Sc (buffer_bytes st)) N.
Proof. exact nested_build_self_contained. Qed.
Print Assumptions C15_nested_self_contained.

(* nested_aligned Sc l Ap (ri, Rn, vn, k) :=
     exists off A ext, 4 <= off /\ sub l (off - 4) 4 = le32 (lenZ ext) /\ sub l off (lenZ ext) = ext /\
                       pow2 A /\ 4 <= A /\ wf_aligned k Sc Rn false A ext = true /\ off mod A = 0 /\ A <= Ap /\ (A | Ap)
   A is the alignment the nested buffer itself reported when it was finished (min_align of its level: at least every
   alignment used inside it and its block alignment): the nested buffer is well formed relative to a start that is only
   A-aligned, its content starts at a multiple of A from the parent's start, and the parent reports at least A (min_align
   propagates through the frames), so any placement of the parent at its reported alignment places every nested buffer -
   at every depth - at its own alignment. *)
Theorem C15_nested_aligned : forall Sc sc R v ws n N regs ems st,
  xwt_script Sc sc R v ws n N -> run init_state [] sc = Some (regs, ems, st) -> small st ->
  pow2 (buffer_alignment st) /\ 4 <= buffer_alignment st /\
  wf_aligned n Sc R ws (buffer_alignment st) (buffer_bytes st) = true /\
  Forall (nested_aligned Sc (buffer_bytes st) (buffer_alignment st)) N.
Proof. exact nested_build_aligned. Qed.
Print Assumptions C15_nested_aligned.

(* The invariant form, in the builder's address space (what the induction over buffer levels carries): for every record
   there are the vector reference x, the alignment A and the content ext with x + 4 a multiple of A, A <= the reported
   alignment, and ext decoding on its own relative to any start that is a multiple of A. *)
Theorem C15_nested_invariant : forall Sc sc R v ws n N regs ems st,
  xwt_script Sc sc R v ws n N -> count_starts sc <= U32_MAX ->
  run init_state [] sc = Some (regs, ems, st) -> small st ->
  (forall ds0, Forall (fun d => d mod buffer_alignment st = 0) ds0 ->
     decode_mem n Sc R ws ds0 (mem_of_list (buffer_bytes st)) (lenZ (buffer_bytes st)) = Some v) /\
  pow2 (buffer_alignment st) /\ 4 <= buffer_alignment st /\
  st_ok st /\ e_start st mod buffer_alignment st = 0 /\
  Forall (nested_ok Sc st regs) N.
Proof. exact xbuild_decodes. Qed.
Print Assumptions C15_nested_invariant.

(* One nesting step in full (what end_buffer does for a nested level whose root is valid in the level's window). *)
Theorem C15_nested_header : forall n Sc st id b_align root align flags R v ref es st',
  st_ok st -> ma_ok st -> win_ok st -> nest_id st <> 0 -> pow2 align -> min_align st <= align ->
  balign_ok b_align -> balign_ok (block_align st) -> in_u32 id ->
  Z.land flags 1 <> 0 -> Z.land flags 2 = 0 ->
  e_start st <= root < 0 ->
  xvalid n Sc st (lvl_align st) (XBase (root_oty R)) root v ->
  create_buffer st id b_align root align flags = Some (ref, es, st') -> small st' ->
  let al := min_align st' in
  let nb := ref + 4 in
  step st st' /\ e_start st' = ref /\ ref + 8 <= e_start st /\ e_end st' = e_end st /\ vcache st' = vcache st /\
  pow2 al /\ 4 <= al /\ align <= al /\ nb mod al = 0 /\ ref mod 4 = 0 /\
  mem_has (vmem st') ref (le32 (buffer_mark st - nb)) /\
  (forall (m' : mem), (forall a, ref <= a < buffer_mark st -> m' a = vmem st' a) ->
     forall o ds al', o <= ref -> Forall (fun d => (d - o) mod al = 0) ds ->
     dec_nested (dec_table n Sc) m' o ds R al' (ref - o) = Some (VNested v)) /\
  (forall ext ds0, mem_has (vmem st') nb ext -> lenZ ext = buffer_mark st - nb -> Forall (fun d => d mod al = 0) ds0 ->
     decode_mem n Sc R false ds0 (mem_of_list ext) (lenZ ext) = Some v).
Proof. exact xcreate_buffer_nested. Qed.
Print Assumptions C15_nested_header.

(* The vtable cache with nest_id isolation: the vtable handed out lies in the WINDOW of the current buffer level (below its
   buffer_mark when nested), is 2-aligned and byte-identical; the cache invariant (every entry of a nested level below that
   level's mark, entries of suspended levels untouched) is preserved. *)
Theorem C15_cached_vtable_isolated : forall st vt r es st1,
  st_ok st -> ma_ok st -> win_ok st -> lvls_ok st -> xcache_ok st -> 0 <= lenZ vt < 65536 -> lenZ vt mod 2 = 0 ->
  create_cached_vtable st vt = Some (r, es, st1) -> small st1 ->
  step st st1 /\ xcache_ok st1 /\ min_align st1 = min_align st /\
  mem_has (wmem st1) (r - 1) vt /\ (r - 1) mod 2 = 0 /\ e_start st1 <= r - 1 /\ r - 1 + lenZ vt <= e_end st1.
Proof. exact xcached_vtable_ok. Qed.
Print Assumptions C15_cached_vtable_isolated.

(* Size-prefixed NESTED buffers (with_size on the nested level), computed on sz_script 2 (a nested table with a double):
   the parent decodes; the vector content alone is NOT a buffer (it starts at 4 mod 8); the bytes from the vector's length
   word ARE a size-prefixed buffer of the nested type and start at 0 mod 8.  The full statement of C15 ("the bytes of the
   nested ubyte vector copied out ... are accepted as a root of the nested type") is therefore false for the content of a
   size-prefixed nested vector whose alignment exceeds 4, in the model as in flatcc; it holds from the length word. *)
Theorem C15_nested_sized_view : exists regs ems st x,
  run init_state [] (sz_script 2) = Some (regs, ems, st) /\ nth_error regs 1 = Some x /\
  let l := buffer_bytes st in
  let off := x + 4 - e_start st in
  decode_root 2 sz_schema (RTable 1) false l = Some (VTable [(0, VNested v0)]) /\
  mrd32 (mem_of_list l) (off - 4) = Some 36 /\ off mod 8 = 4 /\ buffer_alignment st = 8 /\
  decode_root 1 sz_schema (RTable 0) false (sub l off 36) = None /\
  decode_root 1 sz_schema (RTable 0) true (sub l (off - 4) 40) = Some v0 /\ (off - 4) mod 8 = 0.
Proof. exact sized_nested_view. Qed.
Print Assumptions C15_nested_sized_view.

(* The hypotheses are satisfiable: NestedExample.nx_script nests a T1 (which nests a T0) and a struct root in a T2 that
   also carries a union vector; the T0 built in the parent has the same vtable bytes as the T0 of the innermost buffer. *)
Example C15_example : exists regs ems st,
  run init_state [] nx_script = Some (regs, ems, st) /\ small st /\
  xwt_script nx_schema nx_script (RTable 2) nx_value false 3%nat nx_nested /\
  decode_root 3 nx_schema (RTable 2) false (buffer_bytes st) = Some nx_value /\
  Forall (nested_self_contained nx_schema (buffer_bytes st)) nx_nested /\
  Forall (nested_aligned nx_schema (buffer_bytes st) (buffer_alignment st)) nx_nested /\
  buffer_alignment st = 8 /\ lenZ (buffer_bytes st) = 192.
Proof.
  destruct nx_runs as (regs & ems & st & E & Hsm & _ & Ha & Hl). exists regs, ems, st.
  destruct (nested_build_self_contained _ _ _ _ _ _ _ _ _ _ nx_wt E Hsm) as [Hd Hs].
  destruct (nested_build_aligned _ _ _ _ _ _ _ _ _ _ nx_wt E Hsm) as (_ & _ & _ & Hal).
  repeat split; try assumption. exact nx_wt.
Qed.
Print Assumptions C15_example.
