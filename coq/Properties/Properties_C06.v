(* C06 - Schema compiler fails gracefully on any input.  THIN BY DESIGN: only the return-code / diagnostics
   protocol of flatcc.c + parser.c is modelled (Layout/Protocol.v), over arbitrary behaviours of abstract
   sub-phases. Memory safety, leak freedom and termination of the C front end on arbitrary bytes are NOT proved
   anywhere; they are monitored by checks/c06.py (ASan + UBSan + LSan + alarm over the library interface). *)
From Coq Require Import List Arith.
From Flatcc.Layout Require Import Protocol.

(* buffer interface: returns 0 iff no diagnostic was delivered; generate after a failed parse refuses and writes
   nothing; a successful generate implies no diagnostic at all. For every number/shape of sub-phase reports. *)
Theorem C06_protocol_consistent_buffer : forall cap too_big steps passes nout cf,
  let (rc, s) := parse_buffer true cap too_big steps passes init in
  (rc = true <-> diags s = 0) /\ outputs s = 0 /\
  let (grc, s') := generate nout cf s in
  (rc = false -> grc = false /\ outputs s' = 0) /\ (grc = true -> diags s' = 0) /\ diags s' = diags s.
Proof. exact protocol_consistent_buffer. Qed.
Print Assumptions C06_protocol_consistent_buffer.

(* file interface with includes (each included file obeying the same protocol) *)
Theorem C06_protocol_consistent_file : forall cap unreadable too_big steps cs passes nout cf, Forall child_ok cs ->
  let (rc, s) := parse_file true cap unreadable too_big steps cs passes init in
  (rc = true <-> diags s = 0) /\ outputs s = 0 /\ (rc = false -> 0 < failed s) /\
  let (grc, s') := generate nout cf s in
  (rc = false -> grc = false /\ outputs s' = 0) /\ (grc = true -> diags s' = 0).
Proof. exact protocol_consistent_file. Qed.
Print Assumptions C06_protocol_consistent_file.

(* the error cap: parsing stops within one declaration of FLATCC_MAX_ERRORS *)
Theorem C06_error_cap : forall cap steps m, Forall (fun k => k <= m) steps -> failed (parse_loop cap steps init) <= cap + m.
Proof. exact error_cap. Qed.
Print Assumptions C06_error_cap.

(* the pinned tree prints the size-limit and include diagnostics without counting them: then the protocol is false
   (parse fails with a diagnostic, generate succeeds and writes output) - the defect checks/c06.py reports *)
Theorem C06_uncounted_diagnostic_refuted :
  exists too_big steps passes nout,
    let (rc, s) := parse_buffer false 10 too_big steps passes init in
    let (grc, s') := generate nout false s in
    rc = false /\ 0 < diags s /\ grc = true /\ 0 < outputs s'.
Proof. exact protocol_uncounted_refuted. Qed.
Print Assumptions C06_uncounted_diagnostic_refuted.

Theorem C06_uncounted_include_failure_refuted :
  exists cs nout, Forall child_ok cs /\
    let (rc, s) := parse_file false 10 false false (0 :: nil) cs (0 :: nil) init in
    let (grc, s') := generate nout false s in
    rc = false /\ 0 < diags s /\ grc = true /\ 0 < outputs s'.
Proof. exact protocol_uncounted_include_refuted. Qed.
Print Assumptions C06_uncounted_include_failure_refuted.

(* termination of the in-body loop at end of input rests on the cap alone: with the test `failed >= cap` the measure
   cap - failed decreases and the loop ends within cap + 1 turns for EVERY sequence of per-turn diagnostics ... *)
Theorem C06_eof_loop_terminates : forall cap ks s, (forall i, 1 <= ks i) ->
  exists s', eof_loop cap_ge cap ks 0 (S cap) s = Some s' /\ cap <= failed s'.
Proof. exact eof_loop_terminates. Qed.
Print Assumptions C06_eof_loop_terminates.

(* ... with `failed == cap` it runs forever once one turn steps over the cap (9 diagnostics, then a field reporting two) *)
Theorem C06_equality_cap_refuted :
  exists ks s, (forall i, 1 <= ks i) /\ failed s = 9 /\ forall fuel, eof_loop cap_eq 10 ks 0 fuel s = None.
Proof. exact eof_loop_equality_refuted. Qed.
Print Assumptions C06_equality_cap_refuted.
