(* C01, JSON printer half - Verifier acceptance implies in-bounds, aligned reads of the generated JSON printer, and
   the printer finishes within its nesting limit without raising an error of its own.
   Only statements, each closed by [exact] of a lemma proved in Verifier/PrinterProofs.v.

   Models:
     Verifier/VerifierModel.v  verify_root : src/runtime/verifier.c + the generated table/union verifiers
     Verifier/PrinterModel.v   print_walk  : the reads of src/runtime/json_printer.c driven by the generated
                               *_json_printer.h (own vtable lookup get_field_ptr, own budget ttl starting at
                               FLATCC_JSON_PRINT_MAX_LEVELS, string scan up to and including the terminator, union
                               type before value, union vector count taken from the value vector, nested roots with
                               accept_header).  POk = all reads in bounds and aligned and no printer error;
                               PErr 2 = "deep recursion"; PErr 1 = "bad input"; PBad p w al = first bad read.
   Hypotheses are those of C01_verify_sound (Properties_C01.v) plus [ident_ok]: when the caller passes a file
   identifier to <T>_print_json_as_root it is the one in the buffer (otherwise the printer answers "bad input"
   without printing; None = null identifier, what the generated code passes for nested roots). *)
From Flatcc.Verifier Require Import VerifierProofsBase VerifierProofsMain PrinterModel PrinterProofs VerifierProofsWitness.
Local Open Scope Z_scope.

(* 1. Soundness for the printer, same fuel on both sides. *)
Theorem C01_verify_sound_printer : forall b addr S ra fuel r v ident,
  wf_buf b -> schema_wf S = true -> ra_ok S ra = true ->
  blen b <= SOUND_MAX_SIZE ->
  root_wf r -> root_aligned ra addr r ->
  ident_ok b (start_of v) ident ->
  verify_root b addr S fuel r v = VOk ->
  print_walk b addr S fuel r (match v with WithSize => true | Plain => false end) ident = POk.
Proof. exact printer_sound. Qed.
Print Assumptions C01_verify_sound_printer.

(* 1'. Parametric in the printer's level limit: it only has to be at least the verifier's.  (The verifier spends a
   level per table and one more per table vector / union vector; the printer one per table only.) *)
Theorem C01_verify_sound_printer_levels : forall b addr S ra maxlev fuel r v ident,
  wf_buf b -> schema_wf S = true -> ra_ok S ra = true ->
  blen b <= SOUND_MAX_SIZE ->
  root_wf r -> root_aligned ra addr r ->
  VERIFIER_MAX_LEVELS <= maxlev ->
  ident_ok b (start_of v) ident ->
  verify_root b addr S fuel r v = VOk ->
  print_walk_gen b addr S maxlev fuel r (ws v) ident = POk.
Proof. exact printer_sound_gen. Qed.
Print Assumptions C01_verify_sound_printer_levels.

(* the relation between the two configured limits that 1 relies on (FLATCC_JSON_PRINT_MAX_LEVELS and
   FLATCC_VERIFIER_MAX_LEVELS, Generated/Consts.v): this obligation breaks if the printer limit is lowered *)
Theorem C01_printer_levels_cover_verifier_levels : VERIFIER_MAX_LEVELS <= JSON_PRINT_MAX_LEVELS.
Proof. exact levels_le. Qed.
Print Assumptions C01_printer_levels_cover_verifier_levels.

(* 2. An accepted buffer (verdict at the verifier's own limit) is printed to the end within that many levels. *)
Theorem C01_accepted_print_within_levels : forall b addr S ra r v,
  wf_buf b -> schema_wf S = true -> ra_ok S ra = true ->
  blen b <= SOUND_MAX_SIZE -> root_wf r -> root_aligned ra addr r ->
  verify_root b addr S (Z.to_nat VERIFIER_MAX_LEVELS) r v = VOk ->
  print_walk b addr S (Z.to_nat VERIFIER_MAX_LEVELS) r (match v with WithSize => true | Plain => false end) None = POk.
Proof. exact accepted_print_within_levels. Qed.
Print Assumptions C01_accepted_print_within_levels.

(* 3. Non-vacuity. *)
Theorem C01_example_print_table :
  wf_buf ex1_buf /\ schema_wf ex1_schema = true /\ ra_ok ex1_schema (fun _ => 8) = true /\
  blen ex1_buf <= SOUND_MAX_SIZE /\ root_wf (RTable 0) /\ root_aligned (fun _ => 8) 0 (RTable 0) /\
  verify_root ex1_buf 0 ex1_schema (Z.to_nat VERIFIER_MAX_LEVELS) (RTable 0) Plain = VOk /\
  print_walk ex1_buf 0 ex1_schema (Z.to_nat VERIFIER_MAX_LEVELS) (RTable 0) false None = POk.
Proof. exact example_print_table. Qed.
Print Assumptions C01_example_print_table.

Theorem C01_example_print_with_size_union_nested :
  wf_buf ex2_buf /\ schema_wf ex2_schema = true /\ ra_ok ex2_schema (fun _ => 8) = true /\
  blen ex2_buf <= SOUND_MAX_SIZE /\ root_aligned (fun _ => 8) 0 (RTable 0) /\
  verify_root ex2_buf 0 ex2_schema 5 (RTable 0) WithSize = VOk /\
  print_walk ex2_buf 0 ex2_schema 5 (RTable 0) true None = POk.
Proof. exact example_print_with_size_union_nested. Qed.
Print Assumptions C01_example_print_with_size_union_nested.

(* 4. The level hypothesis of 1' cannot be dropped: with a printer limit of 3, a chain of three tables accepted by the
   verifier makes the printer raise "deep recursion"; with 4 it prints. *)
Theorem C01_printer_levels_needed_refuted :
  wf_buf chain3_buf /\ schema_wf chain3_schema = true /\ ra_ok chain3_schema (fun _ => 4) = true /\
  blen chain3_buf <= SOUND_MAX_SIZE /\ root_aligned (fun _ => 4) 0 (RTable 0) /\
  verify_root chain3_buf 0 chain3_schema 5 (RTable 0) Plain = VOk /\
  print_walk_gen chain3_buf 0 chain3_schema 3 5 (RTable 0) false None = PErr PE_deep_recursion /\
  print_walk_gen chain3_buf 0 chain3_schema 4 5 (RTable 0) false None = POk.
Proof. exact levels_hypothesis_needed. Qed.
Print Assumptions C01_printer_levels_needed_refuted.

(* 5. What the verifier's zero-terminator check buys the printer: the printer's string scan only stops at a stop
   character; with a non-zero terminator byte the verifier rejects and the scan runs off the buffer (byte 28 of 28). *)
Theorem C01_printer_string_terminator_matters :
  verify_root (of_list (sterm_bytes 0)) 0 sterm_schema 5 (RTable 0) Plain = VOk /\
  print_walk (of_list (sterm_bytes 0)) 0 sterm_schema 5 (RTable 0) false None = POk /\
  verify_root (of_list (sterm_bytes 65)) 0 sterm_schema 5 (RTable 0) Plain = VErr E_string_not_zero_terminated /\
  print_walk (of_list (sterm_bytes 65)) 0 sterm_schema 5 (RTable 0) false None = PBad 28 1 1.
Proof. exact string_terminator_matters. Qed.
Print Assumptions C01_printer_string_terminator_matters.

(* 6. The printer's recursion is bounded by its own budget on EVERY byte string (accepted or not): with fuel for
   JSON_PRINT_MAX_LEVELS levels the model never answers "out of fuel". *)
Theorem C01_printer_terminates : forall b addr S fuel r wsz ident,
  (Z.to_nat JSON_PRINT_MAX_LEVELS <= fuel)%nat -> print_walk b addr S fuel r wsz ident <> PFuel.
Proof. exact print_terminates. Qed.
Print Assumptions C01_printer_terminates.
