(* C18p - the growth policy of refmap.c (as transcribed in RefmapModel: above, grow, ref_insert_buckets, ref_resize_buckets)
   satisfies the side condition under which Properties_C18 shows the map correct. SEPARATE obligation: it is the only
   part that needs the exact policy and the generated constants (load factor numerator, minimum size); a failure here
   with passing correspondence means "the reference policy text is out of date or unsafe", not that the map is wrong. *)
From Flatcc.Refmap Require Import RefmapModel RefmapProofs RefmapPolicy.
Local Open Scope Z_scope.

(* the generated constants: load factor < 1, minimum size a power of two *)
Theorem C18_constants : RM_MIN_BUCKETS = 2 ^ MIN_E /\ 0 <= MIN_E <= 52 /\ 0 < RM_LOAD_N < RM_LOAD_D /\
  RM_LOAD_D = 256 /\ RM_MAX_BUCKETS = 2 ^ 52.
Proof. exact consts_ok. Qed.
Print Assumptions C18_constants.

(* insert: with count <= buckets * n / 256 (the policy's own invariant) and at most 2^52 buckets, the size refmap.c chooses is a
   power of two with count < nb * n / 256: the growth loop terminates, the side condition holds with room for the new key,
   and the policy invariant holds again after the insert *)
Theorem C18_reference_policy_insert_ok : forall m,
  0 <= count m <= thr (buckets m) -> (buckets m = 0 \/ bucket_ok52 (buckets m)) ->
  exists nb, ref_insert_buckets m = Some nb /\ is_pow2 nb = true /\ count m < thr nb /\ count m + 1 < nb.
Proof. exact ref_insert_policy_ok. Qed.
Print Assumptions C18_reference_policy_insert_ok.

(* resize(c) for requests below 179 * 2^48 *)
Theorem C18_reference_policy_resize_ok : forall m c,
  0 <= count m -> 2 * count m < GROW_LIMIT -> 0 <= c < GROW_LIMIT ->
  exists nb, ref_resize_buckets m c = Some nb /\ is_pow2 nb = true /\ count m < thr nb /\ c < thr nb /\ count m + 1 < nb.
Proof. exact ref_resize_policy_ok. Qed.
Print Assumptions C18_reference_policy_resize_ok.
