(* C18, leaf tie (T5) - the pointer hash and the load-factor test of src/runtime/refmap.c, TRANSLATED from the current
   source on every run (translators/cleaf_to_coq.py, family `refmap` -> Flatcc.Generated.Leaf_refmap; the float
   constant FLATCC_REFMAP_LOAD_FACTOR * 256.0f is folded exactly in IEEE binary32 by the translator), are equal to
   RefmapModel.refmap_hash and RefmapModel.above (the test of the transcribed reference growth policy, the separate
   obligation Properties_C18p depends on) for ALL arguments in the ranges of the C types.
   Only statements, each closed by [exact] of a lemma proved in Refmap/LeafEquivR.v. *)
From Flatcc.Verifier Require Import LeafTac.
From Flatcc.Refmap Require Import RefmapModel LeafConvR LeafEquivR.
From Flatcc.Generated Require Import Leaf_refmap.
Local Open Scope Z_scope.

(* _flatcc_refmap_hash: MurmurHash3 64-bit finalizer of the address xor the seed; any key (the model wraps it to 64 bits) *)
Theorem C18_leaf_refmap_hash_eq : forall src, c__flatcc_refmap_hash (src_ptr src) = refmap_hash src.
Proof. exact c_refmap_hash_eq. Qed.
Print Assumptions C18_leaf_refmap_hash_eq.

(* _flatcc_refmap_above_load_factor: count >= buckets * n / 256 in size_t, n from the float load factor *)
Theorem C18_leaf_above_load_factor_eq : forall count buckets, in_u64 count -> in_u64 buckets ->
  c__flatcc_refmap_above_load_factor count buckets = Z.b2z (above count buckets).
Proof. exact c_refmap_above_eq. Qed.
Print Assumptions C18_leaf_above_load_factor_eq.

Example C18_leaf_example :
  c__flatcc_refmap_above_load_factor 5 8 = 1 /\ c__flatcc_refmap_above_load_factor 4 8 = 0 /\
  c__flatcc_refmap_hash (src_ptr 4096) = refmap_hash 4096 /\ c__flatcc_refmap_hash (src_ptr 4096) <> c__flatcc_refmap_hash (src_ptr 4104).
Proof. exact leafR_example. Qed.
Print Assumptions C18_leaf_example.
