(* C01, leaf tie (T5) - the loop-free leaves of src/runtime/verifier.c, TRANSLATED from the current source on every
   run (translators/cleaf_to_coq.py: clang JSON AST -> Flatcc.Generated.Leaf_verifier, every arithmetic node wrapped
   with the wrap of its own C type, promotions and conversions taken from clang's AST), are equal to the
   hand-written functions of VerifierModel.v that the C01 theorems are about, for ALL arguments in the ranges of the C
   parameter types.  Reading conventions (LeafConv.v): byte pointers are [ptr_of b addr pos], the descriptor struct is
   [td_of b addr d], an int result r reads as [vres_of (Some r)], None (a read outside the buffer) as VOob, C's
   `int required` as [negb (required =? 0)], `uint16_t align` is a power of two up to 32768.
   Only statements, each closed by [exact] of a lemma proved in Verifier/LeafEquiv*.v. *)
From Flatcc.Verifier Require Import VerifierModel LeafTac LeafInv LeafConv LeafEquiv LeafEquivField LeafEquivVector.
From Flatcc.Generated Require Import Leaf_verifier.
Local Open Scope Z_scope.

(* check_header: the C int result is the model's bool *)
Theorem C01_leaf_check_header_eq : forall e base offset,
  in_u32 e -> in_u32 base -> in_u32 offset ->
  c_check_header e base offset = Z.b2z (check_header e base offset).
Proof. exact c_check_header_eq. Qed.
Print Assumptions C01_leaf_check_header_eq.

Theorem C01_leaf_verify_struct_eq : forall e base offset size align,
  in_u32 e -> in_u32 base -> in_u32 offset -> in_u32 size -> pow2_16 align ->
  vres_of (Some (c_verify_struct e base offset size align)) = verify_struct e base offset size align.
Proof. exact c_verify_struct_eq. Qed.
Print Assumptions C01_leaf_verify_struct_eq.

(* The table-descriptor leaves (read_vt_entry, verify_field, get_offset_field) are compared under the invariants their
   call sites establish, in the C and in the model alike, BEFORE the leaf runs: [td_inv d] (LeafTac.v: what
   verify_table has checked when it fills the descriptor - table position > 0, 4-aligned, header in the buffer; vtable
   position even, < 2^31, in the buffer; vsize a 16-bit even number >= 4 with the vtable in the buffer; tsize a 16-bit
   number within the buffer) and [id_ok id] (0 <= id < 32764, the ids a schema can contain).  Outside these the leaves
   may legitimately differ between semantically equal implementations (`vo >= vsize` and `vo + 2 <= vsize` disagree
   for an odd vsize that no descriptor ever has).  The next two theorems justify the hypotheses on the model side. *)
Theorem C01_leaf_td_inv_established : forall b o e base offset ttl,
  wf_buf b -> in_u32 e -> in_u32 base -> in_u32 offset ->
  (exists r, forall tvf, verify_table_with b tvf o e base offset ttl = r) \/
  (exists d, td_inv d /\ t_o d = o /\ t_end d = e /\ t_ttl d = ttl - 1 /\
             forall tvf, verify_table_with b tvf o e base offset ttl = tvf d).
Proof. exact verify_table_with_td_inv. Qed.
Print Assumptions C01_leaf_td_inv_established.

Theorem C01_leaf_field_ids_ok : forall f, field_wf f = true ->
  id_ok (fid f) /\ match fk f with FUnion _ | FUnionVec _ => id_ok (fid f - 1) | _ => True end.
Proof. exact field_wf_id_ok. Qed.
Print Assumptions C01_leaf_field_ids_ok.

(* read_vt_entry: same value, and a read outside the buffer exactly when the model has one *)
Theorem C01_leaf_read_vt_entry_eq : forall b addr d id,
  id_ok id -> td_inv d ->
  c_read_vt_entry (td_of b addr d) id = read_vt_entry b d id.
Proof. exact c_read_vt_entry_eq. Qed.
Print Assumptions C01_leaf_read_vt_entry_eq.

Theorem C01_leaf_verify_field_eq : forall b addr d id required size align,
  id_ok id -> in_s32 required -> in_u32 size -> pow2_16 align -> td_inv d -> wf_buf b ->
  vres_of (c_verify_field (td_of b addr d) id required size align)
  = verify_field b addr d id (negb (required =? 0)) size align.
Proof. exact c_verify_field_eq. Qed.
Print Assumptions C01_leaf_verify_field_eq.

(* get_offset_field: same verdict; when the verdict is ok the out-parameter holds the model's base (0 = absent).
   On an error return the C leaves *out as it was (out0) where the model says 0: callers never look (check_field). *)
Theorem C01_leaf_get_offset_field_eq : forall b addr d id required out0,
  id_ok id -> in_s32 required -> td_inv d -> wf_buf b ->
  match c_get_offset_field (td_of b addr d) id required out0 with
  | None => fst (get_offset_field b d id (negb (required =? 0))) = VOob
  | Some (r, o) =>
      vres_of (Some r) = fst (get_offset_field b d id (negb (required =? 0))) /\
      (r = 0 -> o = snd (get_offset_field b d id (negb (required =? 0))))
  end.
Proof. exact c_get_offset_field_eq. Qed.
Print Assumptions C01_leaf_get_offset_field_eq.

Theorem C01_leaf_verify_string_eq : forall b addr o e base offset,
  in_u32 e -> in_u32 base -> in_u32 offset -> wf_buf b ->
  vres_of (c_verify_string (ptr_of b addr o) e base offset) = verify_string b o e base offset.
Proof. exact c_verify_string_eq. Qed.
Print Assumptions C01_leaf_verify_string_eq.

Theorem C01_leaf_verify_vector_eq : forall b addr o e base offset esize align maxcount,
  in_u32 e -> in_u32 base -> in_u32 offset -> in_u32 esize -> in_u32 maxcount -> pow2_16 align -> wf_buf b ->
  vres_of (c_verify_vector (ptr_of b addr o) e base offset esize align maxcount)
  = verify_vector b o e base offset esize align maxcount.
Proof. exact c_verify_vector_eq. Qed.
Print Assumptions C01_leaf_verify_vector_eq.

(* the hypotheses are satisfiable, and the two sides are not trivially constant *)
Example C01_leaf_example :
  pow2_16 8 /\ wf_buf (of_list [4; 0; 0; 0; 3; 0; 0; 0; 97; 98; 99; 0]) /\
  td_inv {| t_o := 0; t_end := 20; t_ttl := 99; t_vtable := 0; t_table := 8; t_tsize := 12; t_vsize := 8 |} /\ id_ok 3 /\
  c_check_header 12 0 4 = 1 /\ c_check_header 7 0 4 = 0 /\
  c_verify_string (ptr_of (of_list [4; 0; 0; 0; 3; 0; 0; 0; 97; 98; 99; 0]) 0 0) 12 0 4 = Some 0 /\
  c_verify_string (ptr_of (of_list [4; 0; 0; 0; 4; 0; 0; 0; 97; 98; 99; 0]) 0 0) 12 0 4 = Some E_string_out_of_range.
Proof. exact leaf_example. Qed.
Print Assumptions C01_leaf_example.
