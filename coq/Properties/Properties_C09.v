(* C09 - Schema evolution keeps old and new code interoperable (verifier part).
   Statements only; proofs in Verifier/Evolution.v. *)
From Flatcc.Verifier Require Import VerifierModel Evolution.
Local Open Scope Z_scope.

(* If A is a restriction of B (B extends A by appended fields, appended union members, appended tables; fields B
   deprecates are absent from B's descriptor), then every byte string accepted by B's generated verifier for a root
   table is accepted by A's generated verifier - for every buffer, address, nesting budget, plain and size-prefixed.
   Unknown union member codes are accepted without following the value, fields beyond A's ids are ignored. *)
Theorem C09_old_verifier_accepts_new_buffers : forall b addr A B, restricts A B = true ->
  forall fuel t v, verify_root b addr B fuel (RTable t) v = VOk -> verify_root b addr A fuel (RTable t) v = VOk.
Proof. exact verify_root_mono. Qed.
Print Assumptions C09_old_verifier_accepts_new_buffers.

(* the relation is decidable and is what the check computes on the two generated verifier descriptors (T2) *)
Theorem C09_restricts_fields : forall A B t, restricts A B = true ->
  forall f, In f (table_fields A t) -> In f (table_fields B t).
Proof. exact restricts_fields. Qed.
Print Assumptions C09_restricts_fields.

Theorem C09_restricts_members : forall A B u c m, restricts A B = true ->
  find_member (union_members A u) c = Some m -> find_member (union_members B u) c = Some m.
Proof. exact restricts_members. Qed.
Print Assumptions C09_restricts_members.
