(* C17 - Identifiers and type hashes are computed, stored and checked consistently.
   Only statements, each closed by [exact] of a lemma proved in Ident/IdentProofs.v. *)
From Flatcc.Ident Require Import IdentModel IdentProofs.
Local Open Scope Z_scope.

(* The generated type hash (compile time) equals FNV-1a-32 of the dot-qualified name, with zero
   mapped to hash(""), and the runtime name-hash function returns the same value. *)
Theorem C17_hash_agree : forall scope name rest,
  Forall nul_free scope -> nul_free name ->
  compile_type_hash scope name = fnv1a32 (qualified_name scope name) /\
  type_hash_from_name (qualified_name scope name ++ 0 :: rest) = compile_type_hash scope name.
Proof. exact hash_agree. Qed.
Print Assumptions C17_hash_agree.

(* ... and so does the runtime identifier-from-name function: it yields the bytes of the generated type identifier. *)
Theorem C17_identifier_from_name : forall scope name rest,
  Forall nul_free scope -> nul_free name ->
  identifier_from_name (qualified_name scope name ++ 0 :: rest) = compile_type_identifier scope name.
Proof. exact identifier_from_name_agrees. Qed.
Print Assumptions C17_identifier_from_name.

Theorem C17_hash_never_zero : forall s, 0 < fnv1a32 s < 4294967296.
Proof. exact fnv1a32_nonzero. Qed.
Print Assumptions C17_hash_never_zero.

(* The type identifier is the hash in little-endian bytes (and converts back). *)
Theorem C17_identifier_le_bytes : forall h rest, in_u32 h ->
  rd32 (of_list (identifier_from_type_hash h ++ rest)) 0 = Some h.
Proof. exact identifier_le_bytes. Qed.
Print Assumptions C17_identifier_le_bytes.

Theorem C17_identifier_roundtrip : forall h, in_u32 h ->
  type_hash_from_identifier (identifier_from_type_hash h) = h.
Proof. exact identifier_roundtrip. Qed.
Print Assumptions C17_identifier_roundtrip.

(* A buffer carries exactly the identifier it was finished with, at offset 4, or 8 when size-prefixed. *)
Theorem C17_stored_identifier : forall with_size size_field root_off id rest,
  Forall (fun c => 0 <= c < 256) id -> length id = 4%nat ->
  type_hash_from_identifier id <> 0 ->
  stored_identifier (of_list (header_bytes with_size size_field root_off (Some id) ++ rest)) with_size
  = Some (type_hash_from_identifier id).
Proof. exact stored_identifier_spec. Qed.
Print Assumptions C17_stored_identifier.

(* ... and none when the identifier is null or all-zero. *)
Theorem C17_no_identifier_when_zero : forall with_size size_field root_off identifier,
  builder_id_out identifier = 0 ->
  Z.of_nat (length (header_bytes with_size size_field root_off identifier)) = id_pos with_size.
Proof. exact no_identifier_field_when_zero. Qed.
Print Assumptions C17_no_identifier_when_zero.

(* Every acceptor accepts iff the requested identifier is null or zero or equals the stored one. *)
Theorem C17_accept_iff_verify : forall addr b req stored,
  header_pre addr b 8 -> stored_identifier b false = Some stored ->
  (verify_buffer_header addr b req = HOk (blen b) <-> accept_spec req stored) /\
  (verify_buffer_header addr b req <> HOk (blen b) -> verify_buffer_header addr b req = HErr E_identifier_mismatch).
Proof. exact verify_buffer_header_iff. Qed.
Print Assumptions C17_accept_iff_verify.

Theorem C17_accept_iff_verify_with_size : forall addr b req stored size_field,
  header_pre addr b 12 -> rd32 b 0 = Some size_field -> size_field <= blen b - 4 ->
  stored_identifier b true = Some stored ->
  (verify_buffer_header_with_size addr b req = HOk (size_field + 4) <-> accept_spec req stored).
Proof. exact verify_buffer_header_with_size_iff. Qed.
Print Assumptions C17_accept_iff_verify_with_size.

Theorem C17_accept_iff_reader : forall b base req stored,
  rd32 b (base + 4) = Some stored ->
  (has_identifier b base req = Some true <-> accept_spec req stored) /\
  (has_identifier b base req = Some true \/ has_identifier b base req = Some false).
Proof. exact has_identifier_iff. Qed.
Print Assumptions C17_accept_iff_reader.

Theorem C17_accept_iff_printer : forall b req stored,
  8 <= blen b -> stored_identifier b false = Some stored ->
  (printer_accept_header b req = Some true <-> accept_spec req stored).
Proof. exact printer_accept_iff. Qed.
Print Assumptions C17_accept_iff_printer.

(* Requested identifiers given as strings: equal to the 4 identifier bytes unless a zero byte truncates. *)
Theorem C17_string_form_agrees : forall a b c d rest,
  0 < a < 256 -> 0 < b < 256 -> 0 < c < 256 -> 0 <= d < 256 ->
  type_hash_from_string (a :: b :: c :: d :: rest) = type_hash_from_identifier [a; b; c; d].
Proof. exact string_form_agrees. Qed.
Print Assumptions C17_string_form_agrees.

(* Reading a size-prefixed buffer's identifier at offset 4 (instead of 8) violates accept-iff. *)
Theorem C17_with_size_wrong_position_refuted :
  exists b req stored, header_pre 0 b 12 /\ stored_identifier b true = Some stored /\ accept_spec req stored /\
     verify_buffer_header_with_size_at 4 0 b req = HErr E_identifier_mismatch.
Proof. exact with_size_wrong_position_refuted. Qed.
Print Assumptions C17_with_size_wrong_position_refuted.
